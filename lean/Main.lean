import Driver.Exec

partial def loop (h : IO.FS.Stream) (out : IO.FS.Stream) (k : Nat) : IO Unit := do
  let line ← h.getLine
  if line.isEmpty then return ()
  let t := line.trimAscii.toString
  if t.isEmpty || t.startsWith ";" then
    loop h out k
  else
    -- one write per request (hundreds of thousands of small writes are slow)
    let lines := (Driver.execRequest t).map (fun (key, v) => key ++ "=" ++ v ++ "\n")
    out.putStr (s!"#{k}\n" ++ String.join lines.toList)
    loop h out (k + 1)

def main : IO Unit := do
  let stdin ← IO.getStdin
  let stdout ← IO.getStdout
  loop stdin stdout 0
