import Driver.Exec

partial def loop (h : IO.FS.Stream) (out : IO.FS.Stream) (k : Nat) : IO Unit := do
  let line ← h.getLine
  if line.isEmpty then return ()
  let t := line.trimAscii.toString
  if t.isEmpty || t.startsWith ";" then
    loop h out k
  else
    out.putStrLn s!"#{k}"
    for (key, v) in Driver.execRequest t do
      out.putStrLn (key ++ "=" ++ v)
    loop h out (k + 1)

def main : IO Unit := do
  let stdin ← IO.getStdin
  let stdout ← IO.getStdout
  loop stdin stdout 0
