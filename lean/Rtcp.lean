import Rtcp.Basic
import Rtcp.Impl.Utils
import Rtcp.Impl.Packets
import Rtcp.Impl.Sdes
import Rtcp.Impl.Feedback
import Rtcp.Impl.Compound
import Rtcp.Spec.All
