/-
  Basic vocabulary of the model: byte strings, the three-valued result `R` (value / error / panic),
  slice and buffer primitives that mirror Rust's checked indexing, big-endian codecs and the two
  error enums of `rtcp-types` (lib.rs:97-242), constructor by constructor.

  Nothing here is totalised: an out-of-bounds index, a `copy_from_slice` length mismatch or a
  `usize` underflow is the explicit outcome `R.panic`.
-/
namespace Rtcp

abbrev Bytes := List UInt8

/-- Outcome of a modelled Rust call: a value, an `Err(e)`, or a panic (unwinding). -/
inductive R (ε : Type) (α : Type) where
  | ok (a : α)
  | err (e : ε)
  | panic
deriving DecidableEq, Repr

namespace R

@[inline] def bind {ε α β : Type} (x : R ε α) (f : α → R ε β) : R ε β :=
  match x with
  | .ok a => f a
  | .err e => .err e
  | .panic => .panic

instance {ε : Type} : Monad (R ε) where
  pure := .ok
  bind := bind

@[simp] theorem pure_eq {ε α : Type} (a : α) : (pure a : R ε α) = .ok a := rfl
@[simp] theorem ok_bind {ε α β : Type} (a : α) (f : α → R ε β) : ((R.ok a : R ε α) >>= f) = f a := rfl
@[simp] theorem err_bind {ε α β : Type} (e : ε) (f : α → R ε β) : ((R.err e : R ε α) >>= f) = .err e := rfl
@[simp] theorem panic_bind {ε α β : Type} (f : α → R ε β) : ((R.panic : R ε α) >>= f) = .panic := rfl
@[simp] theorem map_ok {ε α β : Type} (a : α) (f : α → β) : (f <$> (R.ok a : R ε α)) = .ok (f a) := rfl
@[simp] theorem map_err {ε α β : Type} (e : ε) (f : α → β) : (f <$> (R.err e : R ε α)) = .err e := rfl
@[simp] theorem map_panic {ε α β : Type} (f : α → β) : (f <$> (R.panic : R ε α)) = .panic := rfl

def isOk {ε α : Type} : R ε α → Bool
  | .ok _ => true
  | _ => false

/-- Change the error type of a computation that cannot fail with `err` in a meaningful way. -/
def liftErr {ε ε' α : Type} (f : ε → ε') : R ε α → R ε' α
  | .ok a => .ok a
  | .err e => .err (f e)
  | .panic => .panic

end R

/-! ## Errors (lib.rs) -/

inductive ParseError where
  | unsupportedVersion (v : UInt8)
  | truncated (expected actual : Nat)
  | tooLarge (expected actual : Nat)
  | invalidPadding
  | sdesValueTooLarge (len : Nat) (max : UInt8)
  | sdesPrivContentTruncated (len : Nat) (min : UInt8)
  | sdesPrivPrefixTooLarge (len : Nat) (available : UInt8)
  | wrongImplementation
  | packetTypeMismatch (actual requested : UInt8)
deriving DecidableEq, Repr

inductive WriteError where
  | outputTooSmall (n : Nat)
  | invalidPadding (padding : UInt8)
  | appSubtypeOutOfRange (subtype max : UInt8)
  | invalidName
  | dataLen32bitMultiple (n : Nat)
  | tooManySources (count : Nat) (max : UInt8)
  | reasonLenTooLarge (len : Nat) (max : UInt8)
  | cumulativeLostTooLarge (value max : UInt32)
  | tooManyReportBlocks (count : Nat) (max : UInt8)
  | tooManySdesChunks (count : Nat) (max : UInt8)
  | sdesValueTooLarge (len : Nat) (max : UInt8)
  | sdesPrivPrefixTooLarge (len : Nat) (max : UInt8)
  | countOutOfRange (count max : UInt8)
  | nonLastCompoundPacketPadding
  | missingFci
  | tooManyNack
  | fciWrongFeedbackPacketType
  | payloadTypeInvalid
  | paddingBitsTooLarge
  | tooManyFir
  | packetTooLarge (size max : Nat)
deriving DecidableEq, Repr

/-! ## Reading: checked indexing and slicing -/

/-- `bs[i]` -/
def idx {ε : Type} (bs : Bytes) (i : Nat) : R ε UInt8 :=
  match bs[i]? with
  | some b => .ok b
  | none => .panic

/-- `&bs[a..b]` -/
def slice {ε : Type} (bs : Bytes) (a b : Nat) : R ε Bytes :=
  if a ≤ b ∧ b ≤ bs.length then .ok ((bs.take b).drop a) else .panic

/-- `&bs[a..]` -/
def sliceFrom {ε : Type} (bs : Bytes) (a : Nat) : R ε Bytes :=
  if a ≤ bs.length then .ok (bs.drop a) else .panic

/-- A sub-slice handed out by an accessor: where it starts in the caller's input, and its bytes.
    (Rust returns a pointer into the input; the model returns the offset.) -/
structure Slice where
  off : Nat
  bytes : Bytes
deriving DecidableEq, Repr

/-- `&bs[a..b]` as a `Slice`, with `base` the offset of `bs` itself in the outermost input. -/
def sliceS {ε : Type} (base : Nat) (bs : Bytes) (a b : Nat) : R ε Slice :=
  if a ≤ b ∧ b ≤ bs.length then .ok ⟨base + a, (bs.take b).drop a⟩ else .panic

/-- `a - b` on `usize` with overflow checks. -/
def usub {ε : Type} (a b : Nat) : R ε Nat :=
  if b ≤ a then .ok (a - b) else .panic

/-! ## Big-endian codecs (`to_be_bytes` / `from_be_bytes`) as arithmetic on `toNat` -/

def be16 (x : UInt16) : Bytes :=
  let n := x.toNat
  [(n / 256 % 256).toUInt8, (n % 256).toUInt8]

def be32 (x : UInt32) : Bytes :=
  let n := x.toNat
  [(n / 16777216 % 256).toUInt8, (n / 65536 % 256).toUInt8, (n / 256 % 256).toUInt8, (n % 256).toUInt8]

def be64 (x : UInt64) : Bytes :=
  be32 (x.toNat / 4294967296 % 4294967296).toUInt32 ++ be32 (x.toNat % 4294967296).toUInt32

/-- `u16::from_be_bytes(bytes.try_into().expect(..))`: panics unless exactly 2 bytes. -/
def fromBe16 {ε : Type} : Bytes → R ε UInt16
  | [a, b] => .ok (a.toNat * 256 + b.toNat).toUInt16
  | _ => .panic

def fromBe32 {ε : Type} : Bytes → R ε UInt32
  | [a, b, c, d] => .ok (a.toNat * 16777216 + b.toNat * 65536 + c.toNat * 256 + d.toNat).toUInt32
  | _ => .panic

def fromBe64 {ε : Type} : Bytes → R ε UInt64
  | [a, b, c, d, e, f, g, h] =>
    .ok (((a.toNat * 16777216 + b.toNat * 65536 + c.toNat * 256 + d.toNat) * 4294967296)
        + (e.toNat * 16777216 + f.toNat * 65536 + g.toNat * 256 + h.toNat)).toUInt64
  | _ => .panic

/-- `(num + 3) & !3` -/
def pad4 (n : Nat) : Nat := (n + 3) / 4 * 4

/-- `slice.chunks_exact(k)` -/
def chunksExact (k : Nat) (bs : Bytes) : List Bytes :=
  if h : 0 < k ∧ k ≤ bs.length then
    bs.take k :: chunksExact k (bs.drop k)
  else []
termination_by bs.length
decreasing_by simp [List.length_drop]; omega

/-! ## Writing: a `&mut [u8]` is a value in, a value out -/

/-- `buf[i] = v` -/
def setByte {ε : Type} (buf : Bytes) (i : Nat) (v : UInt8) : R ε Bytes :=
  if i < buf.length then .ok (buf.set i v) else .panic

/-- `buf[a..b].copy_from_slice(src)` -/
def copyAt {ε : Type} (buf : Bytes) (a b : Nat) (src : Bytes) : R ε Bytes :=
  if a ≤ b ∧ b ≤ buf.length ∧ b - a = src.length then
    .ok (buf.take a ++ src ++ buf.drop b)
  else .panic

/-- `buf[a..].copy_from_slice(src)` -/
def copyFrom {ε : Type} (buf : Bytes) (a : Nat) (src : Bytes) : R ε Bytes :=
  if a ≤ buf.length ∧ buf.length - a = src.length then
    .ok (buf.take a ++ src)
  else .panic

/-- `buf[a..b].fill(v)` -/
def fillAt {ε : Type} (buf : Bytes) (a b : Nat) (v : UInt8) : R ε Bytes :=
  if a ≤ b ∧ b ≤ buf.length then
    .ok (buf.take a ++ List.replicate (b - a) v ++ buf.drop b)
  else .panic

/-- `f(&mut buf[a..])`: run a writer on the tail and splice its result back. -/
def withTail {ε α : Type} (buf : Bytes) (a : Nat) (f : Bytes → R ε (Bytes × α)) : R ε (Bytes × α) :=
  if a ≤ buf.length then
    match f (buf.drop a) with
    | .ok (t, r) => .ok (buf.take a ++ t, r)
    | .err e => .err e
    | .panic => .panic
  else .panic

/-- `f(&mut buf[a..b])` -/
def withRange {ε α : Type} (buf : Bytes) (a b : Nat) (f : Bytes → R ε (Bytes × α)) : R ε (Bytes × α) :=
  if a ≤ b ∧ b ≤ buf.length then
    match f ((buf.take b).drop a) with
    | .ok (t, r) => .ok (buf.take a ++ t ++ buf.drop b, r)
    | .err e => .err e
    | .panic => .panic
  else .panic

end Rtcp
