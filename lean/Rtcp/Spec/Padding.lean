/-
  RFC 3550 §6.4.1 padding, as an operation on a whole packet: set the P bit, enlarge the length
  field by n/4 words, append n-1 zero octets and the count n.  (PROTOCOL.md §4.2)
-/
import Rtcp.Basic

namespace Rtcp.Spec
open Rtcp

def addPadding (p : Bytes) (n : Nat) : Bytes :=
  match p with
  | b0 :: b1 :: l0 :: l1 :: rest =>
    if n = 0 then p
    else
      let old := l0.toNat * 256 + l1.toNat
      let new := (old + n / 4) % 65536
      (b0 ||| 0x20) :: b1 :: (new / 256).toUInt8 :: (new % 256).toUInt8 :: rest
        ++ List.replicate (n - 1) 0 ++ [n.toUInt8]
  | _ => p

end Rtcp.Spec
