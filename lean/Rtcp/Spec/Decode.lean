/-
  Reference decoders: the FCI formats of RFC 4585 §6.2.1 / §6.3 and RFC 5104 §4.3.1, and a
  reference tokeniser for the SDES chunk region (RFC 3550 §6.5).  Structural recursion over the
  bytes being consumed; no offsets, no state machines.
-/
import Rtcp.Spec.Wire

namespace Rtcp.Spec
open Rtcp Rtcp.Impl

/-! ## FCI -/

/-- all complete 32-bit words of a byte string (a trailing partial word is ignored) -/
def words32 : Bytes → List (UInt8 × UInt8 × UInt8 × UInt8)
  | a :: b :: c :: d :: rest => (a, b, c, d) :: words32 rest
  | _ => []

/-- generic NACK: per word in order, PID then PID+k (mod 2^16) for each set bit k-1 of BLP -/
def nackDecode (d : Bytes) : List Nat :=
  ((words32 d).map (fun (a, b, c, e) =>
    NackWord.decode ⟨a.toNat * 256 + b.toNat, c.toNat * 256 + e.toNat⟩)).flatten

/-- all complete 64-bit entries -/
def words64 : Bytes → List (Bytes × UInt8)
  | a :: b :: c :: d :: e :: _ :: _ :: _ :: rest => ([a, b, c, d], e) :: words64 rest
  | _ => []

/-- FIR: (SSRC, sequence number) per 64-bit entry -/
def firDecode (d : Bytes) : List (Nat × Nat) :=
  (words64 d).map (fun (s, q) =>
    (match s with
     | [a, b, c, e] => a.toNat * 16777216 + b.toNat * 65536 + c.toNat * 256 + e.toNat
     | _ => 0, q.toNat))

/-- SLI: First (13), Number (13), PictureID (6) of each 32-bit word -/
def sliDecode (d : Bytes) : List (Nat × Nat × Nat) :=
  (words32 d).map (fun (a, b, c, e) =>
    let x := a.toNat * 16777216 + b.toNat * 65536 + c.toNat * 256 + e.toNat
    (x / 524288, x / 64 % 8192, x % 64))

/-- bits of a byte string, most significant first -/
def bitsOf (bs : Bytes) : List Bool :=
  (bs.map (fun b => (List.range 8).map (fun i => b.toNat.testBit (7 - i)))).flatten

/-- RPSI: the 7-bit payload type and the native bit string with its `PB` padding bits removed -/
def rpsiDecode : Bytes → Option (Nat × List Bool)
  | pb :: pt :: rest =>
    some (pt.toNat % 128, (bitsOf rest).take (8 * rest.length - pb.toNat))
  | _ => none

/-- the bit string the RPSI builder was given: all bits of the data except the last `k` -/
def rpsiBits (data : Bytes) (k : Nat) : List Bool := (bitsOf data).take (8 * data.length - k)

/-! ## SDES reference tokeniser -/

/-- a tokenised item: its type octet and the `length` octets that follow the length octet -/
structure RefItem where
  type : UInt8
  data : Bytes
deriving DecidableEq, Repr

/-- PRIV (type 8) items carry `prefix length, prefix, value`; `none` if the prefix overruns the item -/
def RefItem.privSplit (it : RefItem) : Option (Bytes × Bytes) :=
  match it.data with
  | pl :: rest => if pl.toNat ≤ rest.length then some (rest.take pl.toNat, rest.drop pl.toNat) else none
  | [] => none

structure RefChunk where
  ssrc : UInt32
  items : List RefItem
deriving DecidableEq, Repr

/-- Items of one chunk. `pos` is the number of octets of the chunk consumed so far (for the
    32-bit alignment of the fill). Returns the items and what follows the chunk; `none` = reject. -/
def refItems : Nat → Nat → Bytes → Option (List RefItem × Bytes)
  | _, pos, [] => if pos % 4 = 0 then some ([], []) else none   -- no terminator: only at an aligned packet end
  | 0, _, _ :: _ => none
  | fuel + 1, pos, t :: rest =>
    if t = 0 then
      -- the terminator, then zero fill to the next 32-bit boundary
      let fill := (4 - (pos + 1) % 4) % 4
      if rest.length < fill then none
      else if (rest.take fill).all (· == 0) then some ([], rest.drop fill) else none
    else
      match rest with
      | [] => none                                               -- no length octet
      | l :: rest' =>
        if rest'.length < l.toNat then none                      -- the item overruns the packet
        else
          let it : RefItem := ⟨t, rest'.take l.toNat⟩
          if t = 8 ∧ it.privSplit = none then none               -- a PRIV prefix overruns its item
          else
            match refItems fuel (pos + 2 + l.toNat) (rest'.drop l.toNat) with
            | some (its, after) => some (it :: its, after)
            | none => none

/-- Chunks of the chunk region of an SDES packet (between the header and the padding). -/
def refChunks : Nat → Bytes → Option (List RefChunk)
  | _, [] => some []
  | 0, _ :: _ => none
  | fuel + 1, bs =>
    match bs with
    | a :: b :: c :: d :: rest =>
      match refItems rest.length 4 rest with
      | some (its, after) =>
        match refChunks fuel after with
        | some cs =>
          some (⟨(a.toNat * 16777216 + b.toNat * 65536 + c.toNat * 256 + d.toNat).toUInt32, its⟩ :: cs)
        | none => none
      | none => none
    | _ => none                                                  -- fewer than 4 octets for an SSRC

def refTok (body : Bytes) : Option (List RefChunk) := refChunks body.length body

/-- what the implementation's parsed chunks say, in the reference vocabulary -/
def itemAsRef (it : SdesItem) : RefItem := ⟨it.data.getD 0 0, it.data.drop 2⟩
def chunkAsRef (c : SdesChunk) : RefChunk := ⟨c.ssrc, c.items.map itemAsRef⟩

/-- what a builder configuration says, in the reference vocabulary -/
def itemCfgAsRef (it : SdesItemBuilder) : RefItem :=
  if it.type = 8 then ⟨8, (it.prefix_.length % 256).toUInt8 :: (it.prefix_ ++ it.value)⟩ else ⟨it.type, it.value⟩
def chunkCfgAsRef (c : SdesChunkBuilder) : RefChunk := ⟨c.ssrc, c.items.map itemCfgAsRef⟩

end Rtcp.Spec
