/-
  Reference notions used by the parser theorems: sub-slices of the input (C09) and the packet-type
  table of the generic parser (C12).
-/
import Rtcp.Impl.Compound
import Rtcp.Spec.Framing

namespace Rtcp.Spec
open Rtcp Rtcp.Impl

/-- every returned slice is a sub-slice of the input: offset + length within the input, and the
    bytes are the input's bytes at that offset -/
def SubSlice (s : Slice) (input : Bytes) : Prop :=
  s.off + s.bytes.length ≤ input.length ∧ s.bytes = range input s.off (s.off + s.bytes.length)

/-- which typed parser a packet-type octet selects -/
def kindOfType (t : UInt8) : Option Kind :=
  if t = 204 then some .app else if t = 203 then some .bye else if t = 201 then some .rr
  else if t = 202 then some .sdes else if t = 200 then some .sr else if t = 205 then some .tfb
  else if t = 206 then some .pfb else none

/-- results up to and including the first one that is not `ok` -/
def throughFirstErr {ε α : Type} : List (R ε α) → List (R ε α)
  | [] => []
  | (.ok a) :: rest => .ok a :: throughFirstErr rest
  | x :: _ => [x]

end Rtcp.Spec

namespace Rtcp.Spec
open Rtcp Rtcp.Impl

/-- the chunk region of an SDES packet: between the header and the padding -/
def sdesBody (bs : Bytes) : Bytes := range bs 4 (bs.length - padLen bs)

/-- a parsed SDES item sits inside the input and is internally consistent -/
def ItemOk (bs : Bytes) (it : SdesItem) : Prop :=
  2 ≤ it.data.length ∧ it.off + it.data.length ≤ bs.length ∧
  it.data = range bs it.off (it.off + it.data.length) ∧
  u8At it.data 1 + 2 = it.data.length ∧
  (u8At it.data 0 = 8 → 3 ≤ it.data.length ∧ u8At it.data 2 + 3 ≤ it.data.length)

end Rtcp.Spec

namespace Rtcp.Spec
open Rtcp Rtcp.Impl

/-- accepted iff no rule violated; an error is one of the violated rules; never a panic -/
structure Decides (c : R WriteError Nat) (rules : List WriteError) : Prop where
  accept_iff : (∃ n, c = .ok n) ↔ rules = []
  error_named : ∀ e, c = .err e → e ∈ rules
  noPanic : c ≠ .panic

/-- the FCI parser type that reads back what a built-in FCI builder writes -/
def fciTypeOf : FciB → Fb.FciType
  | .nack _ => .nack | .fir _ => .fir | .sli _ => .sli | .rpsi _ => .rpsi | .pli => .pli

end Rtcp.Spec
