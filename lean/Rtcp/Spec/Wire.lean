/-
  RFC wire images, written from the figures of RFC 3550 §6.4.1 (SR), §6.4.2 (RR), §6.5 (SDES),
  §6.6 (BYE), §6.7 (APP), RFC 4585 §6.1 (feedback common format), §6.2.1 (generic NACK),
  §6.3.1-3 (PLI, SLI, RPSI) and RFC 5104 §4.3.1 (FIR).

  Only `++`, big-endian encoders and `replicate`: no buffers, no indices.  The configuration
  records of the builders are reused as plain data (their fields are the RFC fields).
-/
import Rtcp.Impl.Compound

namespace Rtcp.Spec
open Rtcp Rtcp.Impl

/-- The common header: V=2 in the top two bits, P, a 5-bit count, the packet type and the length
    in 32-bit words minus one of a packet of `total` bytes. -/
def header (pt : UInt8) (pbit : Bool) (count : Nat) (total : Nat) : Bytes :=
  [(128 + (if pbit then 32 else 0) + count % 32).toUInt8, pt] ++ be16 ((total / 4 - 1) % 65536).toUInt16

/-- RFC 3550 padding: `p - 1` zero octets followed by the count `p` (nothing when `p = 0`). -/
def trailer (p : UInt8) : Bytes :=
  if p = 0 then [] else List.replicate (p.toNat - 1) 0 ++ [p]

/-- A whole packet: header computed from the body's length, body, padding trailer. -/
def packet (pt : UInt8) (count : Nat) (padding : UInt8) (body : Bytes) : Bytes :=
  header pt (padding != 0) count (4 + body.length + (trailer padding).length) ++ body ++ trailer padding

/-- zero fill to the next multiple of 4 -/
def zfill (b : Bytes) : Bytes := b ++ List.replicate (pad4 b.length - b.length) 0

/-- report block: SSRC, fraction lost (8), cumulative lost (24), ext. seq, jitter, LSR, DLSR -/
def rbImage (b : ReportBlockBuilder) : Bytes :=
  be32 b.ssrc ++ [b.fractionLost] ++ (be32 b.cumulativeLost).drop 1 ++ be32 b.extendedSequenceNumber
    ++ be32 b.interarrivalJitter ++ be32 b.lastSenderReportTimestamp
    ++ be32 b.delaySinceLastSenderReportTimestamp

def srImage (b : SrBuilder) : Bytes :=
  packet 200 b.reportBlocks.length b.padding
    (be32 b.ssrc ++ be64 b.ntp ++ be32 b.rtp ++ be32 b.packetCount ++ be32 b.octetCount
      ++ (b.reportBlocks.map rbImage).flatten)

def rrImage (b : RrBuilder) : Bytes :=
  packet 201 b.reportBlocks.length b.padding (be32 b.ssrc ++ (b.reportBlocks.map rbImage).flatten)

/-- BYE: sources, then (if a reason is given) length-prefixed text zero-filled to 32 bits -/
def byeImage (b : ByeBuilder) : Bytes :=
  packet 203 b.sources.length b.padding
    ((b.sources.map be32).flatten ++
      (if b.reason.isEmpty then [] else zfill ((b.reason.length % 256).toUInt8 :: b.reason)))

/-- APP: SSRC, 4-octet name (shorter names zero-filled), data -/
def appImage (b : AppBuilder) : Bytes :=
  packet 204 b.subtype.toNat b.padding
    (be32 b.ssrc ++ b.name ++ List.replicate (4 - b.name.length) 0 ++ b.data)

/-- SDES item: type, length, text; PRIV (8): length covers prefix-length octet, prefix and value -/
def itemImage (it : SdesItemBuilder) : Bytes :=
  if it.type = 8 then
    [8, ((it.prefix_.length + 1 + it.value.length) % 256).toUInt8, (it.prefix_.length % 256).toUInt8]
      ++ it.prefix_ ++ it.value
  else
    [it.type, (it.value.length % 256).toUInt8] ++ it.value

/-- SDES chunk: SSRC, items, a null terminator, zero fill to 32 bits -/
def chunkImage (c : SdesChunkBuilder) : Bytes :=
  zfill (be32 c.ssrc ++ (c.items.map itemImage).flatten ++ [0])

def sdesImage (b : SdesBuilder) : Bytes :=
  packet 202 b.chunks.length b.padding (b.chunks.map chunkImage).flatten

def unknownImage (b : UnknownBuilder) : Bytes :=
  packet b.type b.count.toNat b.padding b.data

def customImage (b : CustomBuilder) : Bytes :=
  packet b.pt 0 b.padding (b.body ++ List.replicate (b.min - 4 - b.body.length) 0)

/-! ## Feedback control information -/

/-- One generic NACK word: PID and the bitmask of following lost packets (bit k-1 ⇒ PID+k). -/
structure NackWord where
  pid : Nat
  blp : Nat
deriving DecidableEq, Repr

/-- The sequence numbers one word stands for (RFC 4585 §6.2.1), modulo 2^16. -/
def NackWord.decode (w : NackWord) : List Nat :=
  w.pid :: ((List.range 16).filter (fun k => w.blp.testBit k)).map (fun k => (w.pid + k + 1) % 65536)

/-- Reference encoder of an ascending list of sequence numbers: take the smallest as PID, fold
    everything within the next 16 into its mask, start a new word at the first one beyond. -/
def nackEncodeFrom (pid blp : Nat) : List Nat → List NackWord
  | [] => [⟨pid, blp⟩]
  | s :: rest =>
    if s - pid > 16 then ⟨pid, blp⟩ :: nackEncodeFrom s 0 rest
    else if s > pid then nackEncodeFrom pid (blp ||| 2 ^ (s - pid - 1)) rest
    else nackEncodeFrom pid blp rest

def nackEncode : List Nat → List NackWord
  | [] => []
  | s :: rest => nackEncodeFrom s 0 rest

def nackWordImage (w : NackWord) : Bytes :=
  be16 w.pid.toUInt16 ++ be16 w.blp.toUInt16

def nackImage (b : NackBuilder) : Bytes :=
  ((nackEncode (b.rtpSeq.map (·.toNat))).map nackWordImage).flatten

/-- FIR entry: SSRC, sequence number, 24 reserved zero bits -/
def firEntryImage (e : UInt32 × UInt8) : Bytes := be32 e.1 ++ [e.2, 0, 0, 0]

def firImage (b : FirBuilder) : Bytes := (b.ssrcSeq.map firEntryImage).flatten

/-- SLI entry: First (13 bits), Number (13 bits), PictureID (6 bits), big-endian in 32 bits -/
def sliEntryImage (e : MacroBlockEntry) : Bytes :=
  be32 (((e.start.toNat % 8192) * 524288 + (e.count.toNat % 8192) * 64 + e.pictureId.toNat % 64)).toUInt32

def sliImage (b : SliBuilder) : Bytes := (b.lostMbs.map sliEntryImage).flatten

/-- RPSI: PB (number of unused trailing bits), 0 + 7-bit payload type, the bit string with its
    unused bits cleared, zero padding to 32 bits -/
def rpsiImage (b : RpsiBuilder) : Bytes :=
  let len := b.nativeBitString.length
  let total := pad4 (2 + len)
  let k := b.nativeBitOverrun.toNat
  let bits :=
    match b.nativeBitString.getLast? with
    | none => []
    | some l => b.nativeBitString.dropLast ++ [(l.toNat / 2 ^ k * 2 ^ k % 256).toUInt8]
  [((8 * (total - len - 2) + k) % 256).toUInt8, b.payloadType] ++ bits ++ List.replicate (total - len - 2) 0

def fciImage : FciB → Bytes
  | .nack b => nackImage b
  | .fir b => firImage b
  | .sli b => sliImage b
  | .rpsi b => rpsiImage b
  | .pli => []

def fciFormat : FciB → Nat
  | .nack _ => 1 | .fir _ => 4 | .sli _ => 2 | .rpsi _ => 3 | .pli => 1

/-- feedback packet: sender SSRC, media SSRC, FCI (RFC 4585 §6.1) -/
def fbImage (kind : FbKind) (fci : FciB) (padding : UInt8) (sender media : UInt32) : Bytes :=
  packet kind.pt (fciFormat fci) padding (be32 sender ++ be32 media ++ fciImage fci)

end Rtcp.Spec
