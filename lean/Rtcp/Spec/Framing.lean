/-
  Reference predicates about framing (RFC 3550 §6.4.1 common header), the reference tiling of a
  compound datagram, and what a parse error is allowed to claim (C08, C11, C18, C19).
-/
import Rtcp.Basic

namespace Rtcp.Spec
open Rtcp

/-- `bs` is exactly and consistently framed as a packet of type `pt` with minimum size `min`:
    long enough, version 2, the type, a length field that covers exactly the string, and a
    non-zero last octet when the P bit is set. -/
def WellFramed (min : Nat) (pt : UInt8) : Bytes → Prop
  | b0 :: b1 :: l0 :: l1 :: rest =>
    min ≤ rest.length + 4 ∧ b0.toNat / 64 = 2 ∧ b1 = pt ∧
    4 * (l0.toNat * 256 + l1.toNat + 1) = rest.length + 4 ∧
    (b0.toNat / 32 % 2 = 1 → (b0 :: b1 :: l0 :: l1 :: rest).getLast? ≠ some 0)
  | _ => False

instance (min : Nat) (pt : UInt8) (bs : Bytes) : Decidable (WellFramed min pt bs) := by
  unfold WellFramed
  split <;> infer_instance

/-- The conditions the unknown-packet parser guarantees: size, version and length field. -/
def UnknownFramed : Bytes → Prop
  | b0 :: _ :: l0 :: l1 :: rest =>
    b0.toNat / 64 = 2 ∧ 4 * (l0.toNat * 256 + l1.toNat + 1) = rest.length + 4
  | _ => False

instance (bs : Bytes) : Decidable (UnknownFramed bs) := by
  unfold UnknownFramed
  split <;> infer_instance

/-- header fields read straight off the wire -/
def version (bs : Bytes) : Nat := (bs.getD 0 0).toNat / 64
def pbit (bs : Bytes) : Bool := (bs.getD 0 0).toNat / 32 % 2 = 1
def count (bs : Bytes) : Nat := (bs.getD 0 0).toNat % 32
def ptype (bs : Bytes) : UInt8 := bs.getD 1 0
def lengthField (bs : Bytes) : Nat := 4 * ((bs.getD 2 0).toNat * 256 + (bs.getD 3 0).toNat + 1)
def lastByte (bs : Bytes) : UInt8 := bs.getLastD 0
/-- the padding a well-framed packet announces -/
def paddingOf (bs : Bytes) : Option UInt8 := if pbit bs then some (lastByte bs) else none

/-- a legal amount of RFC 3550 padding for the unpadded packet `p`: a multiple of 4 in 4..252 that
    still fits the 16-bit length field (C13) -/
def PadOk (p : Bytes) (n : Nat) : Prop :=
  pbit p = false ∧ n % 4 = 0 ∧ 4 ≤ n ∧ n ≤ 252 ∧ p.length + n ≤ 262144

instance (p : Bytes) (n : Nat) : Decidable (PadOk p n) := by unfold PadOk; infer_instance

/-- a byte string that is one whole packet as far as the chain of length fields is concerned (C11, C14) -/
def Tile (t : Bytes) : Prop := 4 ≤ t.length ∧ lengthField t = t.length

instance (t : Bytes) : Decidable (Tile t) := by unfold Tile; infer_instance

/-- Reference tiling: follow the chain of length fields; `some tiles` iff the chain partitions
    `bs` into whole packets with nothing left over.  (`fuel` bounds the recursion; `bs.length`
    suffices since every tile has at least 4 bytes.) -/
def tilingAux : Nat → Bytes → Option (List Bytes)
  | _, [] => some []
  | 0, _ => none
  | fuel + 1, bs =>
    if bs.length < 4 then none
    else
      let n := lengthField bs
      if bs.length < n then none
      else (tilingAux fuel (bs.drop n)).map (fun ts => bs.take n :: ts)

def tiling (bs : Bytes) : Option (List Bytes) := tilingAux bs.length bs

/-- What an error returned for input `bs` by a parser of type `pt` / minimum `min` may say (C18). -/
def ErrorTruthful (bs : Bytes) (pt : UInt8) : ParseError → Prop
  | .unsupportedVersion v => 1 ≤ bs.length ∧ v.toNat = version bs ∧ v ≠ 2
  | .packetTypeMismatch a r => 2 ≤ bs.length ∧ a = ptype bs ∧ r = pt ∧ a ≠ r
  | .truncated e a => a < e
  | .tooLarge e a => e < a
  | .invalidPadding => pbit bs = true ∧ lastByte bs = 0
  | _ => True

end Rtcp.Spec

namespace Rtcp.Spec
open Rtcp

/-- reference reads of big-endian fields at a byte offset -/
def u8At (bs : Bytes) (i : Nat) : Nat := (bs.getD i 0).toNat
def u16At (bs : Bytes) (i : Nat) : Nat := u8At bs i * 256 + u8At bs (i + 1)
def u32At (bs : Bytes) (i : Nat) : Nat := u16At bs i * 65536 + u16At bs (i + 2)
def u64At (bs : Bytes) (i : Nat) : Nat := u32At bs i * 4294967296 + u32At bs (i + 4)
/-- the byte range `[a, b)` of `bs` -/
def range (bs : Bytes) (a b : Nat) : Bytes := (bs.take b).drop a
/-- number of padding octets a packet announces (0 without the P bit) -/
def padLen (bs : Bytes) : Nat := ((paddingOf bs).getD 0).toNat

end Rtcp.Spec
