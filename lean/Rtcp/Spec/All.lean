import Rtcp.Spec.Padding
import Rtcp.Spec.Wire
import Rtcp.Spec.Rules
import Rtcp.Spec.Framing
import Rtcp.Spec.Decode
import Rtcp.Spec.Dispatch
