/-
  The representability rules of C16, one clause per rule named in the property, each carrying
  the offending value: `violations b = []` iff the configuration can be put on the wire.
-/
import Rtcp.Spec.Wire

namespace Rtcp.Spec
open Rtcp Rtcp.Impl

/-- padding must be a multiple of 4 -/
def padRule (p : UInt8) : List WriteError :=
  if p.toNat % 4 ≠ 0 then [.invalidPadding p] else []

/-- a packet holds at most 65536 32-bit words -/
def sizeRule (n : Nat) : List WriteError :=
  if n > 262144 then [.packetTooLarge n 262144] else []

/-- cumulative loss is a 24-bit field -/
def rbRules (b : ReportBlockBuilder) : List WriteError :=
  if b.cumulativeLost.toNat > 0xffffff then [.cumulativeLostTooLarge b.cumulativeLost 0xffffff] else []

def srRules (b : SrBuilder) : List WriteError :=
  (if b.reportBlocks.length > 31 then [.tooManyReportBlocks b.reportBlocks.length 31] else [])
    ++ padRule b.padding ++ (b.reportBlocks.map rbRules).flatten

def rrRules (b : RrBuilder) : List WriteError :=
  (if b.reportBlocks.length > 31 then [.tooManyReportBlocks b.reportBlocks.length 31] else [])
    ++ padRule b.padding ++ (b.reportBlocks.map rbRules).flatten

def byeRules (b : ByeBuilder) : List WriteError :=
  (if b.sources.length > 31 then [.tooManySources b.sources.length 31] else [])
    ++ padRule b.padding
    ++ (if b.reason.length > 255 then [.reasonLenTooLarge b.reason.length 255] else [])

def appRules (b : AppBuilder) : List WriteError :=
  let basic :=
    (if b.subtype.toNat > 31 then [.appSubtypeOutOfRange b.subtype 31] else [])
    ++ (if b.name.length > 4 ∨ ∃ c ∈ b.name, c.toNat ≥ 128 then [WriteError.invalidName] else [])
    ++ (if b.data.length % 4 ≠ 0 then [.dataLen32bitMultiple b.data.length] else [])
    ++ padRule b.padding
  basic ++ (if basic = [] then sizeRule (12 + b.padding.toNat + b.data.length) else [])

def itemRules (it : SdesItemBuilder) : List WriteError :=
  if it.type = 8 then
    if it.prefix_.length > 254 then [.sdesPrivPrefixTooLarge it.prefix_.length 254]
    else if it.prefix_.length + it.value.length > 254 then
      [.sdesValueTooLarge it.value.length (254 - it.prefix_.length).toUInt8]
    else []
  else if it.value.length > 255 then [.sdesValueTooLarge it.value.length 255] else []

def chunkRules (c : SdesChunkBuilder) : List WriteError := (c.items.map itemRules).flatten

def sdesRules (b : SdesBuilder) : List WriteError :=
  let basic :=
    (if b.chunks.length > 31 then [.tooManySdesChunks b.chunks.length 31] else [])
    ++ padRule b.padding ++ (b.chunks.map chunkRules).flatten
  basic ++ (if basic = [] then sizeRule (4 + ((b.chunks.map chunkImage).flatten).length + b.padding.toNat) else [])

def unknownRules (b : UnknownBuilder) : List WriteError :=
  let basic :=
    (if b.count.toNat > 31 then [.countOutOfRange b.count 31] else [])
    ++ padRule b.padding
    ++ (if b.data.length % 4 ≠ 0 then [.dataLen32bitMultiple b.data.length] else [])
  basic ++ (if basic = [] then sizeRule (4 + b.data.length + b.padding.toNat) else [])

def rpsiRules (b : RpsiBuilder) : List WriteError :=
  (if b.payloadType.toNat > 127 then [WriteError.payloadTypeInvalid] else [])
    ++ (if b.nativeBitOverrun.toNat > 8 ∨ (b.nativeBitString = [] ∧ b.nativeBitOverrun.toNat > 0)
        then [WriteError.paddingBitsTooLarge] else [])

def fciRules : FciB → List WriteError
  | .nack b => if (nackEncode (b.rtpSeq.map (·.toNat))).length > 65533 then [.tooManyNack] else []
  | .fir b => if b.ssrcSeq.length > 32766 then [.tooManyFir] else []
  | .sli _ => []
  | .rpsi b => rpsiRules b
  | .pli => []

/-- which feedback kind an FCI belongs in (RFC 4585 §6.2 / §6.3, RFC 5104 §4.3) -/
def fciKind : FciB → FbKind
  | .nack _ => .transport
  | _ => .payload

def fbRules (kind : FbKind) (fci : FciB) (padding : UInt8) : List WriteError :=
  let basic :=
    padRule padding
    ++ (if fciKind fci ≠ kind then [WriteError.fciWrongFeedbackPacketType] else [])
    ++ fciRules fci
  basic ++ (if basic = [] then sizeRule (12 + (fciImage fci).length + padding.toNat) else [])

def customRules (b : CustomBuilder) : List WriteError :=
  padRule b.padding ++ (if b.body.length % 4 ≠ 0 then [.dataLen32bitMultiple b.body.length] else [])

end Rtcp.Spec
