/-
  Vocabulary for the closed forms of builder call sequences (C20, Rtcp/Props/Calls.lean).
-/

namespace Rtcp.Spec
/-- the argument of the last element of `cs` on which `f` is defined, else `d` -/
def lastSome {κ α : Type} (f : κ → Option α) (cs : List κ) (d : α) : α :=
  cs.foldl (fun acc c => match f c with | some v => v | none => acc) d
end Rtcp.Spec
