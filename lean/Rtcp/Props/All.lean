/-
  Every property theorem of the project (one import for audits and `lake build Rtcp.Props.All`).
-/
import Rtcp.Props.WriterContract
import Rtcp.Props.Writers
import Rtcp.Props.Parsers
import Rtcp.Props.Sdes
import Rtcp.Props.Fci
import Rtcp.Props.Rules
import Rtcp.Props.RoundTrip
import Rtcp.Props.Padding
import Rtcp.Props.Compose
import Rtcp.Props.Total
import Rtcp.Props.Layout
import Rtcp.Props.Setters
import Rtcp.Props.Calls
import Rtcp.Props.EndToEnd
import Rtcp.Props.Fast
import Rtcp.Props.FastWrite
import Rtcp.Props.CompoundE2E
import Rtcp.Props.NestedE2E
import Rtcp.Props.Written
import Rtcp.Props.Pins
