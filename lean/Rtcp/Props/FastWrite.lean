/-
  The build side of the request driver's short cuts (Rtcp/Impl/FastWrite.lean): statements only,
  proofs in Rtcp/Proofs/FastWrite.lean.  STATEMENTS ARE FIXED.
-/
import Rtcp.Impl.FastWrite
import Rtcp.Proofs.FastWrite

namespace Rtcp.Props
open Rtcp Rtcp.Impl

/-! ### the build side (Rtcp/Impl/FastWrite.lean)

  The model's writers thread the whole buffer once per list element and its adders append with
  `xs ++ [x]`; for a chunk of 65536 items that is minutes.  A writer that satisfies the writer
  contract with `img` may be replaced by the short cut "a buffer of exactly the announced size
  becomes `img`", and `SdesChunkBuilder.run` by its closed form: they are the same functions. -/

theorem fast_writerVia_eq {w : Writer} {img : Bytes} (hw : Refines w img) : Fast.writerVia w img = w :=
  Proofs.fast_writerVia_eq hw

theorem fast_sdesWriter_eq (b : SdesBuilder) : Fast.sdesWriter b = b.toWriter := Proofs.fast_sdesWriter_eq b

theorem fast_chunkWriter_eq (b : SdesChunkBuilder) :
    Fast.chunkWriter b = ⟨b.calcSize, b.writeUnchecked, none⟩ := Proofs.fast_chunkWriter_eq b

theorem fast_chunkRun_eq (b : SdesChunkBuilder) (cs : List ChunkCall) : Fast.chunkRun b cs = b.run cs :=
  Proofs.fast_chunkRun_eq b cs

end Rtcp.Props
