/-
  C02 / C04 / C06 / C07 / C17 from the caller's side: the premise is only that `write_into` returned
  `Ok(n)` on SOME buffer.  Then `n` is the size `calculate_size` announces, the buffer was long
  enough, the first `n` bytes are the RFC image and the rest is untouched (`writeInto_ok_inv`, for
  every writer that satisfies the writer contract); for the crate's own builders the image is a
  framed packet the generic parser reads as the right variant (`member_written`), and the matching
  typed parser accepts it and every accessor returns the configured value (`sr_written` … `app_written`:
  the round-trip theorems with "the builder accepts" replaced by "a write succeeded").

  STATEMENTS ARE FIXED. Proofs live in Rtcp/Proofs/Written.lean and are only cited here.
-/
import Rtcp.Proofs.Written

namespace Rtcp.Props
open Rtcp Rtcp.Impl Rtcp.Spec

theorem writeInto_ok_inv {w : Writer} {img : Bytes} (hw : Refines w img) (buf : Bytes) (n : Nat)
    (h : (w.writeInto buf).2 = .ok n) :
    w.calcSize = .ok n ∧ n ≤ buf.length ∧ ((w.writeInto buf).1).take n = img ∧
      ((w.writeInto buf).1).drop n = buf.drop n :=
  Proofs.writeInto_ok_inv hw buf n h

theorem member_written (m : Member) (hinv : m.Inv) (buf : Bytes) (n : Nat)
    (h : (m.toWriter.writeInto buf).2 = .ok n) :
    ((m.toWriter.writeInto buf).1).take n = m.image ∧ ((m.toWriter.writeInto buf).1).drop n = buf.drop n ∧
    m.toWriter.calcSize = .ok n ∧ Tile m.image ∧ ∃ p, Packet.parse m.image = .ok p ∧ p.kind? = some m.kind :=
  Proofs.member_written m hinv buf n h

theorem sr_written {ε : Type} (b : SrBuilder) (buf : Bytes) (n : Nat) (h : (b.toWriter.writeInto buf).2 = .ok n) :
    ((b.toWriter.writeInto buf).1).take n = srImage b ∧ Sr.parse (srImage b) = .ok (srImage b) ∧
    (Sr.ssrc (srImage b) : R ε UInt32) = .ok b.ssrc ∧ (Sr.ntp (srImage b) : R ε UInt64) = .ok b.ntp ∧
    (Sr.rtp (srImage b) : R ε UInt32) = .ok b.rtp ∧
    (Sr.packetCount (srImage b) : R ε UInt32) = .ok b.packetCount ∧
    (Sr.octetCount (srImage b) : R ε UInt32) = .ok b.octetCount ∧
    (Sr.padding (srImage b) : R ε (Option UInt8)) = .ok (getPaddingOf b.padding) ∧
    (Sr.nReports (srImage b) : R ε UInt8) = .ok b.reportBlocks.length.toUInt8 ∧
    (Sr.reportBlocks (srImage b) : R ε (List Bytes)) = .ok (b.reportBlocks.map rbImage) :=
  Proofs.sr_written b buf n h

theorem rr_written {ε : Type} (b : RrBuilder) (buf : Bytes) (n : Nat) (h : (b.toWriter.writeInto buf).2 = .ok n) :
    ((b.toWriter.writeInto buf).1).take n = rrImage b ∧ Rr.parse (rrImage b) = .ok (rrImage b) ∧
    (Rr.ssrc (rrImage b) : R ε UInt32) = .ok b.ssrc ∧
    (Rr.padding (rrImage b) : R ε (Option UInt8)) = .ok (getPaddingOf b.padding) ∧
    (Rr.nReports (rrImage b) : R ε UInt8) = .ok b.reportBlocks.length.toUInt8 ∧
    (Rr.reportBlocks (rrImage b) : R ε (List Bytes)) = .ok (b.reportBlocks.map rbImage) :=
  Proofs.rr_written b buf n h

theorem bye_written {ε : Type} (b : ByeBuilder) (buf : Bytes) (n : Nat) (h : (b.toWriter.writeInto buf).2 = .ok n) :
    ((b.toWriter.writeInto buf).1).take n = byeImage b ∧ Bye.parse (byeImage b) = .ok (byeImage b) ∧
    (Bye.ssrcs (byeImage b) : R ε (List UInt32)) = .ok b.sources ∧
    (Bye.reason (byeImage b) : R ε (Option Slice)) =
      .ok (if b.reason = [] then none else some ⟨4 + 4 * b.sources.length + 1, b.reason⟩) ∧
    (Bye.padding (byeImage b) : R ε (Option UInt8)) = .ok (getPaddingOf b.padding) :=
  Proofs.bye_written b buf n h

theorem app_written {ε : Type} (b : AppBuilder) (buf : Bytes) (n : Nat) (h : (b.toWriter.writeInto buf).2 = .ok n) :
    ((b.toWriter.writeInto buf).1).take n = appImage b ∧ App.parse (appImage b) = .ok (appImage b) ∧
    (App.ssrc (appImage b) : R ε UInt32) = .ok b.ssrc ∧
    (hCount (appImage b) : R ε UInt8) = .ok b.subtype ∧
    (App.name (appImage b) : R ε Bytes) = .ok (b.name ++ List.replicate (4 - b.name.length) 0) ∧
    (App.data (appImage b) : R ε Slice) = .ok ⟨12, b.data⟩ ∧
    (App.padding (appImage b) : R ε (Option UInt8)) = .ok (getPaddingOf b.padding) :=
  Proofs.app_written b buf n h

/-- C03 from a successful write -/
theorem sdes_written {ε : Type} (b : SdesBuilder) (hz : ∀ c ∈ b.chunks, ∀ it ∈ c.items, it.type ≠ 0)
    (buf : Bytes) (n : Nat) (h : (b.toWriter.writeInto buf).2 = .ok n) :
    ((b.toWriter.writeInto buf).1).take n = sdesImage b ∧
    ∃ v, Sdes.parse (sdesImage b) = .ok v ∧
      v.chunks.map chunkAsRef = b.chunks.map chunkCfgAsRef ∧
      (Sdes.padding v : R ε (Option UInt8)) = .ok (getPaddingOf b.padding) :=
  Proofs.sdes_written b hz buf n h

/-- C05 (packet level) from a successful write, both kinds, every built-in FCI builder -/
theorem fb_written {ε : Type} (k : FbKind) (f : FciB) (hf : FciOk f) (p : UInt8) (s m : UInt32)
    (buf : Bytes) (n : Nat) (h : ((FbBuilder.toWriter ⟨k, f.toFci, p, s, m⟩).writeInto buf).2 = .ok n) :
    (((FbBuilder.toWriter ⟨k, f.toFci, p, s, m⟩).writeInto buf).1).take n = fbImage k f p s m ∧
    Fb.parse k (fbImage k f p s m) = .ok (fbImage k f p s m) ∧
    (Fb.senderSsrc (fbImage k f p s m) : R ε UInt32) = .ok s ∧
    (Fb.mediaSsrc (fbImage k f p s m) : R ε UInt32) = .ok m ∧
    (Fb.padding (fbImage k f p s m) : R ε (Option UInt8)) = .ok (getPaddingOf p) ∧
    (hCount (fbImage k f p s m) : R ε UInt8) = .ok (fciFormat f).toUInt8 ∧
    Fb.parseFci k (fciTypeOf f) (fbImage k f p s m) = (fciTypeOf f).parse (fciImage f) :=
  Proofs.fb_written k f hf p s m buf n h

/-- non-vacuity: a padded BYE with a reason written into a 40-byte buffer returns 16 -/
example : ((ByeBuilder.toWriter { padding := 4, sources := [9], reason := [0x62, 0x79, 0x65] }).writeInto
    (List.replicate 40 0xee)).2 = .ok 16 := by decide

end Rtcp.Props
