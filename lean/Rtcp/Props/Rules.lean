/-
  C16: size calculation fails exactly when a rule of Spec/Rules.lean is violated, the error names
  one of the violated rules with the offending value, and it never panics.  Also: whole-packet
  sizes are multiples of 4 (C06).

  STATEMENTS ARE FIXED. Proofs live in Rtcp/Proofs/*.lean and are only cited here.
-/
import Rtcp.Spec.All
import Rtcp.Proofs.Rules

namespace Rtcp.Props
open Rtcp Rtcp.Impl Rtcp.Spec

theorem rb_rules (b : ReportBlockBuilder) : Decides b.calcSize (rbRules b) := Proofs.rb_rules b
theorem sr_rules (b : SrBuilder) : Decides b.calcSize (srRules b) := Proofs.sr_rules b
theorem rr_rules (b : RrBuilder) : Decides b.calcSize (rrRules b) := Proofs.rr_rules b
theorem bye_rules (b : ByeBuilder) : Decides b.calcSize (byeRules b) := Proofs.bye_rules b
theorem app_rules (b : AppBuilder) : Decides b.calcSize (appRules b) := Proofs.app_rules b
theorem item_rules (b : SdesItemBuilder) : Decides b.calcSize (itemRules b) := Proofs.item_rules b
theorem chunk_rules (b : SdesChunkBuilder) : Decides b.calcSize (chunkRules b) := Proofs.chunk_rules b
theorem sdes_rules (b : SdesBuilder) : Decides b.calcSize (sdesRules b) := Proofs.sdes_rules b
theorem unknown_rules (b : UnknownBuilder) : Decides b.calcSize (unknownRules b) := Proofs.unknown_rules b
theorem custom_rules (b : CustomBuilder) : Decides b.calcSize (customRules b) := Proofs.custom_rules b
theorem rpsi_rules (b : RpsiBuilder) : Decides b.calcSize (rpsiRules b) := Proofs.rpsi_rules b

/-- the five built-in FCI builders (the NACK set being the ascending list it always is) -/
theorem fci_rules (f : FciB) (hf : match f with | .nack b => b.rtpSeq.Pairwise (· < ·) | _ => True) :
    Decides f.toFci.w.calcSize (fciRules f) := Proofs.fci_rules f hf

/-- every feedback builder × FCI pairing, both kinds: wrong-kind pairings are refused -/
theorem fb_rules (k : FbKind) (f : FciB) (hf : match f with | .nack b => b.rtpSeq.Pairwise (· < ·) | _ => True)
    (p : UInt8) (s m : UInt32) :
    Decides (FbBuilder.calcSize ⟨k, f.toFci, p, s, m⟩) (fbRules k f p) := Proofs.fb_rules k f hf p s m

/-! whole-packet sizes are multiples of 4 (C06) -/

theorem sr_size_mod4 (b : SrBuilder) (n : Nat) (h : b.calcSize = .ok n) : n % 4 = 0 := Proofs.sr_size_mod4 b n h
theorem rr_size_mod4 (b : RrBuilder) (n : Nat) (h : b.calcSize = .ok n) : n % 4 = 0 := Proofs.rr_size_mod4 b n h
theorem bye_size_mod4 (b : ByeBuilder) (n : Nat) (h : b.calcSize = .ok n) : n % 4 = 0 := Proofs.bye_size_mod4 b n h
theorem app_size_mod4 (b : AppBuilder) (n : Nat) (h : b.calcSize = .ok n) : n % 4 = 0 := Proofs.app_size_mod4 b n h
theorem sdes_size_mod4 (b : SdesBuilder) (n : Nat) (h : b.calcSize = .ok n) : n % 4 = 0 := Proofs.sdes_size_mod4 b n h
theorem unknown_size_mod4 (b : UnknownBuilder) (n : Nat) (h : b.calcSize = .ok n) : n % 4 = 0 :=
  Proofs.unknown_size_mod4 b n h
theorem fb_size_mod4 (k : FbKind) (f : FciB) (p : UInt8) (s m : UInt32) (n : Nat)
    (h : FbBuilder.calcSize ⟨k, f.toFci, p, s, m⟩ = .ok n) : n % 4 = 0 := Proofs.fb_size_mod4 k f p s m n h

/-- every accepted whole packet fits the 16-bit length field: at most 65536 words -/
theorem sizes_bounded :
    (∀ (b : SrBuilder) n, b.calcSize = .ok n → n ≤ 262144) ∧
    (∀ (b : RrBuilder) n, b.calcSize = .ok n → n ≤ 262144) ∧
    (∀ (b : ByeBuilder) n, b.calcSize = .ok n → n ≤ 262144) ∧
    (∀ (b : AppBuilder) n, b.calcSize = .ok n → n ≤ 262144) ∧
    (∀ (b : SdesBuilder) n, b.calcSize = .ok n → n ≤ 262144) ∧
    (∀ (b : UnknownBuilder) n, b.calcSize = .ok n → n ≤ 262144) ∧
    (∀ (b : FbBuilder) n, b.calcSize = .ok n → n ≤ 262144) := Proofs.sizes_bounded

end Rtcp.Props
