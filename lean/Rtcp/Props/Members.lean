/-
  Vocabulary of the compound end-to-end theorem (Props/CompoundE2E.lean): a compound member that is
  one of the crate's own packet builders, its writer, its RFC image, the variant the generic parser
  must choose for it.  Definitions only.
-/
import Rtcp.Props.Writers
import Rtcp.Spec.All

namespace Rtcp.Props
open Rtcp Rtcp.Impl Rtcp.Spec

/-- a compound member that is one of the crate's own packet builders (the feedback builders over
    the five built-in FCI builders) -/
inductive Member where
  | sr (b : SrBuilder) | rr (b : RrBuilder) | bye (b : ByeBuilder) | app (b : AppBuilder)
  | sdes (b : SdesBuilder) | fb (k : FbKind) (f : FciB) (p : UInt8) (s m : UInt32)

def Member.toWriter : Member → Writer
  | .sr b => b.toWriter | .rr b => b.toWriter | .bye b => b.toWriter | .app b => b.toWriter
  | .sdes b => b.toWriter | .fb k f p s m => FbBuilder.toWriter ⟨k, f.toFci, p, s, m⟩

/-- the RFC image of the member -/
def Member.image : Member → Bytes
  | .sr b => srImage b | .rr b => rrImage b | .bye b => byeImage b | .app b => appImage b
  | .sdes b => sdesImage b | .fb k f p s m => fbImage k f p s m

/-- what always holds of a builder made through the public API (the NACK set is a `BTreeSet`), plus
    the one restriction C03 makes: no SDES item of type 0 -/
def Member.Inv : Member → Prop
  | .sdes b => ∀ c ∈ b.chunks, ∀ it ∈ c.items, it.type ≠ 0
  | .fb _ f _ _ _ => FciOk f
  | _ => True

/-- the variant the generic parser must choose for the member's bytes -/
def Member.kind : Member → Kind
  | .sr _ => .sr | .rr _ => .rr | .bye _ => .bye | .app _ => .app | .sdes _ => .sdes
  | .fb .transport _ _ _ _ => .tfb | .fb .payload _ _ _ _ => .pfb

end Rtcp.Props
