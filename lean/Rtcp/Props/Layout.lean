/-
  C07: the clauses of the RFC wire layout made visible on the image `Spec.packet pt count padding
  body` that every whole-packet builder is proved to write (Props/Writers.lean): version 2, the
  padding bit set exactly when padding was requested, the 5-bit count, the packet type, a length
  field equal to size/4 − 1, the body at offset 4, and a trailer of zeros ending in the padding
  count.  Plus pins of the Spec encoders to packets laid out by hand from the RFC figures
  (kernel-evaluated), so that the reference is not just self-consistent; the byte-exact vectors of
  the repository's own tests are pinned in Props/Pins.lean.

  STATEMENTS ARE FIXED. Proofs live in Rtcp/Proofs/*.lean and are only cited here.
-/
import Rtcp.Spec.All
import Rtcp.Proofs.Layout

namespace Rtcp.Props
open Rtcp Rtcp.Impl Rtcp.Spec

/-- size of a whole packet image -/
theorem packet_length (pt : UInt8) (c : Nat) (p : UInt8) (body : Bytes) :
    (packet pt c p body).length = 4 + body.length + p.toNat := Proofs.layout_packet_length pt c p body

/-- the common header of every whole-packet image whose size is a multiple of 4 within the
    16-bit length field and whose count fits 5 bits -/
theorem packet_header (pt : UInt8) (c : Nat) (p : UInt8) (body : Bytes) (hc : c ≤ 31)
    (h4 : (body.length + p.toNat) % 4 = 0) (hs : 4 + body.length + p.toNat ≤ 262144) :
    let img := packet pt c p body
    version img = 2 ∧ (pbit img = true ↔ p ≠ 0) ∧ count img = c ∧ ptype img = pt ∧
    (img.getD 2 0).toNat * 256 + (img.getD 3 0).toNat = img.length / 4 - 1 ∧
    lengthField img = img.length := Proofs.layout_packet_header pt c p body hc h4 hs

/-- body at offset 4; trailing padding of `p − 1` zeros ending in the count `p` -/
theorem packet_body_trailer (pt : UInt8) (c : Nat) (p : UInt8) (body : Bytes) :
    let img := packet pt c p body
    range img 4 (4 + body.length) = body ∧
    (p ≠ 0 → img.drop (4 + body.length) = List.replicate (p.toNat - 1) 0 ++ [p]) ∧
    (p = 0 → img.drop (4 + body.length) = []) := Proofs.layout_packet_body_trailer pt c p body

/-- big-endian: most significant octet first -/
theorem be_layout (x : UInt32) (y : UInt16) :
    be32 x = [(x.toNat / 16777216).toUInt8, (x.toNat / 65536 % 256).toUInt8, (x.toNat / 256 % 256).toUInt8,
              (x.toNat % 256).toUInt8] ∧
    be16 y = [(y.toNat / 256).toUInt8, (y.toNat % 256).toUInt8] := Proofs.layout_be_layout x y

/-- SDES chunks are null-terminated and zero-filled to 32 bits -/
theorem chunk_layout (c : SdesChunkBuilder) :
    ∃ fill, chunkImage c = be32 c.ssrc ++ (c.items.map itemImage).flatten ++ [0] ++ List.replicate fill 0 ∧
      fill < 4 ∧ (chunkImage c).length % 4 = 0 := Proofs.layout_chunk_layout c

/-! ## pins: packets laid out by hand from the RFC figures (kernel evaluation) -/

/-- RFC 3550 §6.4.1, SR without report blocks -/
example : srImage { ssrc := 0x91827364, ntp := 0x0102030405060708, rtp := 0x11121314, packetCount := 0x21222324,
                    octetCount := 0x31323334 } =
    [0x80, 0xc8, 0x00, 0x06, 0x91, 0x82, 0x73, 0x64, 0x01, 0x02, 0x03, 0x04, 0x05, 0x06, 0x07, 0x08,
     0x11, 0x12, 0x13, 0x14, 0x21, 0x22, 0x23, 0x24, 0x31, 0x32, 0x33, 0x34] := by decide

/-- RFC 3550 §6.4.2: an RR with one report block, fraction lost sharing a word with the 24-bit loss -/
example : rrImage { ssrc := 0x91827364, reportBlocks := [⟨0x1234567, 0xff, 0xfffffe, 1, 2, 3, 4⟩] } =
    [0x81, 0xc9, 0x00, 0x07, 0x91, 0x82, 0x73, 0x64, 0x01, 0x23, 0x45, 0x67, 0xff, 0xff, 0xff, 0xfe,
     0, 0, 0, 1, 0, 0, 0, 2, 0, 0, 0, 3, 0, 0, 0, 4] := by decide

/-- RFC 3550 §6.6: two sources and the reason "Shutdown" (8 bytes → 3 bytes of fill) -/
example : byeImage { sources := [0x12345678, 0x56789abc], reason := [0x53, 0x68, 0x75, 0x74, 0x64, 0x6f, 0x77, 0x6e] } =
    [0x82, 0xcb, 0x00, 0x05, 0x12, 0x34, 0x56, 0x78, 0x56, 0x78, 0x9a, 0xbc,
     0x08, 0x53, 0x68, 0x75, 0x74, 0x64, 0x6f, 0x77, 0x6e, 0x00, 0x00, 0x00] := by decide

/-- BYE with a 2-byte reason and 4 bytes of padding: the trailer follows the aligned reason -/
example : byeImage { padding := 4, sources := [7], reason := [0x61, 0x62] } =
    [0xa1, 0xcb, 0x00, 0x03, 0, 0, 0, 7, 0x02, 0x61, 0x62, 0x00, 0x00, 0x00, 0x00, 0x04] := by decide

/-- RFC 3550 §6.7 -/
example : appImage { ssrc := 0x91827364, name := [0x6e, 0x61, 0x6d, 0x65], subtype := 31, data := [1, 2, 3, 0] } =
    [0x9f, 0xcc, 0x00, 0x03, 0x91, 0x82, 0x73, 0x64, 0x6e, 0x61, 0x6d, 0x65, 0x01, 0x02, 0x03, 0x00] := by decide

/-- RFC 3550 §6.5: one chunk with CNAME "ab" -/
example : sdesImage { chunks := [{ ssrc := 0x98765432, items := [{ type := 1, value := [0x61, 0x62] }] }] } =
    [0x81, 0xca, 0x00, 0x03, 0x98, 0x76, 0x54, 0x32, 0x01, 0x02, 0x61, 0x62, 0x00, 0x00, 0x00, 0x00] := by decide

/-- SDES PRIV item: length covers prefix-length octet, prefix and value (RFC 3550 §6.5.8) -/
example : itemImage { type := 8, value := [0x76, 0x76], prefix_ := [0x70] } = [8, 4, 1, 0x70, 0x76, 0x76] := by decide

/-- RFC 4585 §6.2.1: sequence numbers 0x1234 and 0x1235 → one word, BLP bit 0 -/
example : fbImage .transport (.nack ⟨[0x1234, 0x1235]⟩) 0 0x98765432 0x10fedcba =
    [0x81, 0xcd, 0x00, 0x03, 0x98, 0x76, 0x54, 0x32, 0x10, 0xfe, 0xdc, 0xba, 0x12, 0x34, 0x00, 0x01] := by decide

/-- RFC 5104 §4.3.1 -/
example : fbImage .payload (.fir ⟨[(0x12345678, 0x23)]⟩) 0 0x98765432 0 =
    [0x84, 0xce, 0x00, 0x04, 0x98, 0x76, 0x54, 0x32, 0, 0, 0, 0, 0x12, 0x34, 0x56, 0x78, 0x23, 0, 0, 0] := by decide

/-- RFC 4585 §6.3.2: first 0x1234, number 0x0987, picture id 0x25 -/
example : sliEntryImage ⟨0x1234, 0x0987, 0x25⟩ = [0x91, 0xa2, 0x61, 0xe5] := by decide

/-- RFC 4585 §6.3.3: payload type 96, one byte 0x1c with 2 unused bits → PB = 8 + 2 -/
example : rpsiImage { payloadType := 96, nativeBitString := [0x1c], nativeBitOverrun := 2 } = [10, 96, 0x1c, 0] := by decide

/-- RFC 4585 §6.3.1 (also the vector of pli.rs `pli_build_parse`) -/
example : fbImage .payload .pli 0 0x98765432 0x10fedcba =
    [0x81, 0xce, 0x00, 0x02, 0x98, 0x76, 0x54, 0x32, 0x10, 0xfe, 0xdc, 0xba] := by decide

end Rtcp.Props
