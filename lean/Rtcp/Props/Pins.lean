/-
  Pins: every byte-exact vector of the repository's own test suite (/repo/src/*.rs,
  /repo/src/feedback/*.rs, /repo/tests/custom_packet.rs), stated against the Spec encoders
  (`Spec/Wire.lean`), the reference readers (`Spec/Framing.lean`, `Spec/Decode.lean`) and the model
  parsers / accessors / size calculations (`Impl/*.lean`).

  * a test that BUILDS a packet and asserts the bytes written  ⇒  `xImage cfg = bytes`
    (plus `cfg.calcSize = .ok REQ_LEN`, which every such test asserts too);
  * a test that PARSES a vector and asserts field values  ⇒  `X.parse v = .ok v` and the asserted
    values through the reference readers and the model accessors;
  * a test that expects a parse / build error  ⇒  the same error from the model.

  Everything is closed by kernel evaluation (`decide`, or `decide +kernel` where the model function
  is defined by well-founded recursion or the vector is long).  The expectations are transcribed
  from the Rust tests, never from the model.  One doc comment per example: Rust file, test function.
-/
import Rtcp.Spec.All

namespace Rtcp.Props
open Rtcp Rtcp.Impl Rtcp.Spec

/-! ## src/app.rs -/

private def appEmpty : Bytes := [0x80, 0xcc, 0x00, 0x02, 0x91, 0x82, 0x73, 0x64, 0x00, 0x00, 0x00, 0x00]

/-- app.rs `parse_empty_app` -/
example :
    App.parse appEmpty = .ok appEmpty ∧ version appEmpty = 2 ∧ (hVersion appEmpty : R Unit UInt8) = .ok 2 ∧
    paddingOf appEmpty = none ∧ (App.padding appEmpty : R Unit (Option UInt8)) = .ok none ∧
    count appEmpty = 0 ∧ (hCount appEmpty : R Unit UInt8) = .ok 0 ∧
    range appEmpty 8 12 = [0, 0, 0, 0] ∧ (App.name appEmpty : R Unit Bytes) = .ok [0, 0, 0, 0] ∧
    range appEmpty 12 (appEmpty.length - padLen appEmpty) = [] ∧
    (App.data appEmpty : R Unit Slice) = .ok ⟨12, []⟩ := by decide

/-- app.rs `build_empty_app` -/
example :
    appImage { ssrc := 0x91827364, name := [0x6e, 0x61, 0x6d, 0x65] } =
      [0x80, 0xcc, 0x00, 0x02, 0x91, 0x82, 0x73, 0x64, 0x6e, 0x61, 0x6d, 0x65] ∧
    ({ ssrc := 0x91827364, name := [0x6e, 0x61, 0x6d, 0x65] } : AppBuilder).calcSize = .ok 12 := by decide

private def appFull : Bytes :=
  [0xbf, 0xcc, 0x00, 0x04, 0x91, 0x82, 0x73, 0x64, 0x6e, 0x61, 0x6d, 0x65, 0x01, 0x02,
   0x03, 0x00, 0x00, 0x00, 0x00, 0x04]

/-- app.rs `parse_app` -/
example :
    App.parse appFull = .ok appFull ∧ version appFull = 2 ∧ (hVersion appFull : R Unit UInt8) = .ok 2 ∧
    paddingOf appFull = some 4 ∧ (App.padding appFull : R Unit (Option UInt8)) = .ok (some 4) ∧
    count appFull = 31 ∧ (hCount appFull : R Unit UInt8) = .ok 31 ∧
    range appFull 8 12 = [0x6e, 0x61, 0x6d, 0x65] ∧
    (App.name appFull : R Unit Bytes) = .ok [0x6e, 0x61, 0x6d, 0x65] ∧
    range appFull 12 (appFull.length - padLen appFull) = [0x01, 0x02, 0x03, 0x00] ∧
    (App.data appFull : R Unit Slice) = .ok ⟨12, [0x01, 0x02, 0x03, 0x00]⟩ := by decide

/-- app.rs `build_app` -/
example :
    appImage { ssrc := 0x91827364, name := [0x6e, 0x61, 0x6d, 0x65], padding := 4, subtype := 31,
               data := [0x01, 0x02, 0x03, 0x00] } =
      [0xbf, 0xcc, 0x00, 0x04, 0x91, 0x82, 0x73, 0x64, 0x6e, 0x61, 0x6d, 0x65, 0x01, 0x02,
       0x03, 0x00, 0x00, 0x00, 0x00, 0x04] ∧
    ({ ssrc := 0x91827364, name := [0x6e, 0x61, 0x6d, 0x65], padding := 4, subtype := 31,
       data := [0x01, 0x02, 0x03, 0x00] } : AppBuilder).calcSize = .ok 20 := by decide

/-- app.rs `build_short_name` -/
example :
    appImage { ssrc := 0x91827364, name := [0x6e, 0x61, 0x6d], subtype := 31 } =
      [0x9f, 0xcc, 0x00, 0x02, 0x91, 0x82, 0x73, 0x64, 0x6e, 0x61, 0x6d, 0x00] ∧
    ({ ssrc := 0x91827364, name := [0x6e, 0x61, 0x6d], subtype := 31 } : AppBuilder).calcSize = .ok 12 := by
  decide

/-- app.rs `build_subtype_out_of_range` -/
example :
    ({ ssrc := 0x91827364, name := [0x6e, 0x61, 0x6d, 0x65], subtype := 0x1f + 1 } : AppBuilder).calcSize =
      .err (.appSubtypeOutOfRange (0x1f + 1) 0x1f) := by decide

/-- app.rs `build_invalid_name_too_large` ("name_") -/
example :
    ({ ssrc := 0x91827364, name := [0x6e, 0x61, 0x6d, 0x65, 0x5f] } : AppBuilder).calcSize = .err .invalidName := by
  decide

/-- app.rs `build_invalid_non_ascii_name` ("nąm" = 6e c4 85 6d in UTF-8) -/
example :
    ({ ssrc := 0x91827364, name := [0x6e, 0xc4, 0x85, 0x6d] } : AppBuilder).calcSize = .err .invalidName := by
  decide

/-- app.rs `build_data_len_not_32bits_multiple` -/
example :
    ({ ssrc := 0x91827364, name := [0x6e, 0x61, 0x6d, 0x65], data := [0x01, 0x02, 0x03] } : AppBuilder).calcSize =
      .err (.dataLen32bitMultiple 3) := by decide

/-- app.rs `build_padding_not_multiple_4` -/
example :
    ({ ssrc := 0x91827364, name := [0x6e, 0x61, 0x6d, 0x65], padding := 5 } : AppBuilder).calcSize =
      .err (.invalidPadding 5) := by decide

/-! ## src/bye.rs -/

private def byeEmpty : Bytes := [0x80, 0xcb, 0x00, 0x00]

/-- bye.rs `parse_bye_empty` -/
example :
    Bye.parse byeEmpty = .ok byeEmpty ∧ paddingOf byeEmpty = none ∧
    (Bye.padding byeEmpty : R Unit (Option UInt8)) = .ok none ∧
    count byeEmpty = 0 ∧ (hCount byeEmpty : R Unit UInt8) = .ok 0 ∧
    (Bye.ssrcs byeEmpty : R Unit (List UInt32)) = .ok [] ∧
    (Bye.reason byeEmpty : R Unit (Option Slice)) = .ok none := by decide +kernel

/-- bye.rs `build_bye_empty` -/
example : byeImage {} = [0x80, 0xcb, 0x00, 0x00] ∧ ({} : ByeBuilder).calcSize = .ok 4 := by decide

/-- bye.rs `build_bye_static` (`Bye::builder().reason_owned("Bye").add_source(0x12345678)`) -/
example :
    byeImage { sources := [0x12345678], reason := [0x42, 0x79, 0x65] } =
      [0x81, 0xcb, 0x00, 0x02, 0x12, 0x34, 0x56, 0x78, 0x03, 0x42, 0x79, 0x65] ∧
    ({ sources := [0x12345678], reason := [0x42, 0x79, 0x65] } : ByeBuilder).calcSize = .ok 12 := by decide

private def bye3 : Bytes :=
  [0x83, 0xcb, 0x00, 0x03, 0x12, 0x34, 0x56, 0x78, 0x34, 0x56, 0x78, 0x9a, 0x56, 0x78, 0x9a, 0xbc]

/-- bye.rs `parse_bye_3_sources` -/
example :
    Bye.parse bye3 = .ok bye3 ∧ paddingOf bye3 = none ∧ (Bye.padding bye3 : R Unit (Option UInt8)) = .ok none ∧
    count bye3 = 3 ∧ (hCount bye3 : R Unit UInt8) = .ok 3 ∧
    [u32At bye3 4, u32At bye3 8, u32At bye3 12] = [0x12345678, 0x3456789a, 0x56789abc] ∧
    (Bye.ssrcs bye3 : R Unit (List UInt32)) = .ok [0x12345678, 0x3456789a, 0x56789abc] ∧
    (Bye.reason bye3 : R Unit (Option Slice)) = .ok none := by decide +kernel

/-- bye.rs `build_bye_3_sources` -/
example :
    byeImage { sources := [0x12345678, 0x3456789a, 0x56789abc] } =
      [0x83, 0xcb, 0x00, 0x03, 0x12, 0x34, 0x56, 0x78, 0x34, 0x56, 0x78, 0x9a, 0x56, 0x78, 0x9a, 0xbc] ∧
    ({ sources := [0x12345678, 0x3456789a, 0x56789abc] } : ByeBuilder).calcSize = .ok 16 := by decide

private def bye2r : Bytes :=
  [0x82, 0xcb, 0x00, 0x05, 0x12, 0x34, 0x56, 0x78, 0x34, 0x56, 0x78, 0x9a, 0x08, 0x53,
   0x68, 0x75, 0x74, 0x64, 0x6f, 0x77, 0x6e, 0x00, 0x00, 0x00]

/-- bye.rs `parse_bye_2_sources_reason` ("Shutdown") -/
example :
    Bye.parse bye2r = .ok bye2r ∧ paddingOf bye2r = none ∧ (Bye.padding bye2r : R Unit (Option UInt8)) = .ok none ∧
    count bye2r = 2 ∧ (hCount bye2r : R Unit UInt8) = .ok 2 ∧
    [u32At bye2r 4, u32At bye2r 8] = [0x12345678, 0x3456789a] ∧
    (Bye.ssrcs bye2r : R Unit (List UInt32)) = .ok [0x12345678, 0x3456789a] ∧
    range bye2r 13 (13 + u8At bye2r 12) = [0x53, 0x68, 0x75, 0x74, 0x64, 0x6f, 0x77, 0x6e] ∧
    (Bye.reason bye2r : R Unit (Option Slice)) =
      .ok (some ⟨13, [0x53, 0x68, 0x75, 0x74, 0x64, 0x6f, 0x77, 0x6e]⟩) := by decide +kernel

/-- bye.rs `build_bye_2_sources_reason` -/
example :
    byeImage { sources := [0x12345678, 0x3456789a], reason := [0x53, 0x68, 0x75, 0x74, 0x64, 0x6f, 0x77, 0x6e] } =
      [0x82, 0xcb, 0x00, 0x05, 0x12, 0x34, 0x56, 0x78, 0x34, 0x56, 0x78, 0x9a, 0x08, 0x53,
       0x68, 0x75, 0x74, 0x64, 0x6f, 0x77, 0x6e, 0x00, 0x00, 0x00] ∧
    ({ sources := [0x12345678, 0x3456789a], reason := [0x53, 0x68, 0x75, 0x74, 0x64, 0x6f, 0x77, 0x6e] }
      : ByeBuilder).calcSize = .ok 24 := by decide

/-- bye.rs `build_bye_2_sources_raw_reason` (same calls and bytes as the previous test) -/
example :
    byeImage { sources := [0x12345678, 0x3456789a], reason := [0x53, 0x68, 0x75, 0x74, 0x64, 0x6f, 0x77, 0x6e] } =
      [0x82, 0xcb, 0x00, 0x05, 0x12, 0x34, 0x56, 0x78, 0x34, 0x56, 0x78, 0x9a, 0x08, 0x53,
       0x68, 0x75, 0x74, 0x64, 0x6f, 0x77, 0x6e, 0x00, 0x00, 0x00] ∧
    ({ sources := [0x12345678, 0x3456789a], reason := [0x53, 0x68, 0x75, 0x74, 0x64, 0x6f, 0x77, 0x6e] }
      : ByeBuilder).calcSize = .ok 24 := by decide

/-- bye.rs `build_too_many_sources` (32 × `add_source(0)`) -/
example :
    ({ sources := List.replicate 32 0 } : ByeBuilder).calcSize = .err (.tooManySources 32 31) := by decide

/-- bye.rs `build_reason_too_large` (256 × 'a') -/
example :
    ({ reason := List.replicate 256 0x61 } : ByeBuilder).calcSize = .err (.reasonLenTooLarge 256 0xff) := by
  decide +kernel

/-- bye.rs `build_padding_not_multiple_4` -/
example : ({ padding := 5 } : ByeBuilder).calcSize = .err (.invalidPadding 5) := by decide

/-! ## src/compound.rs -/

private def cRrBye : Bytes := [0x80, 0xc9, 0x00, 0x01, 0x91, 0x82, 0x73, 0x64, 0x80, 0xcb, 0x00, 0x00]

/-- compound.rs `parse_rr_bye`: an RR then a BYE, then `None` -/
example :
    Compound.parse cRrBye = .ok ⟨cRrBye, 0, false⟩ ∧
    tiling cRrBye = some [[0x80, 0xc9, 0x00, 0x01, 0x91, 0x82, 0x73, 0x64], [0x80, 0xcb, 0x00, 0x00]] ∧
    (Compound.collect 3 ⟨cRrBye, 0, false⟩ [] : R Unit _) =
      .ok ([(.ok (.rr [0x80, 0xc9, 0x00, 0x01, 0x91, 0x82, 0x73, 0x64]), 0), (.ok (.bye [0x80, 0xcb, 0x00, 0x00]), 8)],
           true, ⟨cRrBye, 12, true⟩) := by decide +kernel

/-- compound.rs `build_rr_bye` -/
example :
    rrImage { ssrc := 0x1234567 } ++ byeImage {} =
      [0x80, 0xc9, 0x00, 0x01, 0x01, 0x23, 0x45, 0x67, 0x80, 0xcb, 0x00, 0x00] ∧
    CompoundBuilder.calcSize [({ ssrc := 0x1234567 } : RrBuilder).toWriter, ({} : ByeBuilder).toWriter] = .ok 12 := by
  decide

private def cSrBye : Bytes :=
  [0x80, 0xc8, 0x00, 0x06, 0x91, 0x82, 0x73, 0x64, 0x89, 0xab, 0xcd, 0xef, 0x02, 0x24,
   0x46, 0x68, 0x8a, 0xac, 0xce, 0xe0, 0xf1, 0xe2, 0xd3, 0xc4, 0xb5, 0xa6, 0x97, 0x88,
   0x80, 0xcb, 0x00, 0x00]

/-- compound.rs `parse_sr_bye`: an SR then a BYE, then `None` -/
example :
    Compound.parse cSrBye = .ok ⟨cSrBye, 0, false⟩ ∧
    tiling cSrBye = some [cSrBye.take 28, [0x80, 0xcb, 0x00, 0x00]] ∧
    (Compound.collect 3 ⟨cSrBye, 0, false⟩ [] : R Unit _) =
      .ok ([(.ok (.sr (cSrBye.take 28)), 0), (.ok (.bye [0x80, 0xcb, 0x00, 0x00]), 28)],
           true, ⟨cSrBye, 32, true⟩) := by decide +kernel

/-- compound.rs `build_sr_bye` -/
example :
    srImage { ssrc := 0x1234567 } ++ byeImage {} =
      [0x80, 0xc8, 0x00, 0x06, 0x01, 0x23, 0x45, 0x67, 0x00, 0x00, 0x00, 0x00, 0x00, 0x00,
       0x00, 0x00, 0x00, 0x00, 0x00, 0x00, 0x00, 0x00, 0x00, 0x00, 0x00, 0x00, 0x00, 0x00,
       0x80, 0xcb, 0x00, 0x00] ∧
    CompoundBuilder.calcSize [({ ssrc := 0x1234567 } : SrBuilder).toWriter, ({} : ByeBuilder).toWriter] = .ok 32 := by
  decide

/-- compound.rs `build_rr_bye_padding` -/
example :
    rrImage { ssrc := 0x1234567 } ++ byeImage { padding := 4 } =
      [0x80, 0xc9, 0x00, 0x01, 0x01, 0x23, 0x45, 0x67, 0xa0, 0xcb, 0x00, 0x01, 0x00, 0x00, 0x00, 0x04] ∧
    CompoundBuilder.calcSize [({ ssrc := 0x1234567 } : RrBuilder).toWriter,
                              ({ padding := 4 } : ByeBuilder).toWriter] = .ok 16 := by decide

private def unk242 : Bytes := [0x80, 0xf2, 0x00, 0x02, 0x12, 0x34, 0x56, 0x78, 0x00, 0x00, 0x00, 0x00]

/-- compound.rs `parse_unknown` -/
example :
    Packet.parse unk242 = .ok (.unknown unk242) ∧ kindOfType (ptype unk242) = none ∧
    ptype unk242 = 242 ∧ (hType unk242 : R Unit UInt8) = .ok 242 := by decide

/-- compound.rs `build_app_padding_bye` -/
example :
    CompoundBuilder.calcSize
      [({ ssrc := 0x91827364, name := [0x6e, 0x61, 0x6d, 0x65], padding := 4 } : AppBuilder).toWriter,
       ({} : ByeBuilder).toWriter] = .err .nonLastCompoundPacketPadding := by decide

/-- compound.rs `parse_rr_bye_wrong_first_len` -/
example :
    Compound.parse [0x80, 0xc9, 0x00, 0x03, 0x91, 0x82, 0x73, 0x64, 0x80, 0xcb, 0x00, 0x00] =
      .err (.truncated 16 12) ∧
    tiling [0x80, 0xc9, 0x00, 0x03, 0x91, 0x82, 0x73, 0x64, 0x80, 0xcb, 0x00, 0x00] = none := by decide +kernel

/-- compound.rs `parse_rr_truncated_bye` -/
example :
    Compound.parse [0x80, 0xc9, 0x00, 0x01, 0x91, 0x82, 0x73, 0x64, 0x80, 0xcb, 0x00] = .err (.truncated 12 11) ∧
    tiling [0x80, 0xc9, 0x00, 0x01, 0x91, 0x82, 0x73, 0x64, 0x80, 0xcb, 0x00] = none := by decide +kernel

private def cBadRr : Bytes := [0x81, 0xc9, 0x00, 0x01, 0x91, 0x82, 0x73, 0x64, 0x80, 0xcb, 0x00, 0x00]

/-- compound.rs `parsing_failure_rr_bye`: the framing is fine, the first member fails, then `None` -/
example :
    Compound.parse cBadRr = .ok ⟨cBadRr, 0, false⟩ ∧
    Rr.parse (cBadRr.take 8) = .err (.truncated 32 8) ∧
    (Compound.collect 3 ⟨cBadRr, 0, false⟩ [] : R Unit _) =
      .ok ([(.err (.truncated 32 8), 0)], true, ⟨cBadRr, 8, true⟩) := by decide +kernel

private def pApp : Bytes := [0x80, 0xcc, 0x00, 0x02, 0x91, 0x82, 0x73, 0x64, 0x6e, 0x61, 0x6d, 0x65]

/-- compound.rs `parse_packet_try_as_app` -/
example :
    Packet.parse pApp = .ok (.app pApp) ∧ Packet.tryAs .app (.app pApp) = .ok (.app pApp) ∧
    range pApp 8 12 = [0x6e, 0x61, 0x6d, 0x65] ∧
    (App.name pApp : R Unit Bytes) = .ok [0x6e, 0x61, 0x6d, 0x65] := by decide

private def uBye : Bytes := [0x81, 0xcb, 0x00, 0x01, 0x12, 0x34, 0x56, 0x78]

/-- compound.rs `parse_unknown_try_as_bye` -/
example :
    Unknown.parse uBye = .ok uBye ∧ Packet.tryAs .bye (.unknown uBye) = .ok (.bye uBye) ∧
    u32At uBye 4 = 0x12345678 ∧
    ((Bye.ssrcs uBye : R Unit (List UInt32)) = .ok [0x12345678]) := by decide +kernel

/-! ## src/receiver.rs -/

private def rrEmpty : Bytes := [0x80, 0xc9, 0x00, 0x01, 0x91, 0x82, 0x73, 0x64]

/-- receiver.rs `parse_empty_rr` -/
example :
    Rr.parse rrEmpty = .ok rrEmpty ∧ version rrEmpty = 2 ∧ (hVersion rrEmpty : R Unit UInt8) = .ok 2 ∧
    paddingOf rrEmpty = none ∧ (Rr.padding rrEmpty : R Unit (Option UInt8)) = .ok none ∧
    count rrEmpty = 0 ∧ (Rr.nReports rrEmpty : R Unit UInt8) = .ok 0 ∧
    (Rr.reportBlocks rrEmpty : R Unit (List Bytes)) = .ok [] := by decide +kernel

/-- receiver.rs `build_empty_rr` -/
example :
    rrImage { ssrc := 0x91827364 } = [0x80, 0xc9, 0x00, 0x01, 0x91, 0x82, 0x73, 0x64] ∧
    ({ ssrc := 0x91827364 } : RrBuilder).calcSize = .ok 8 := by decide

private def rr2 : Bytes :=
  [0x82, 0xc9, 0x00, 0x0d, 0x91, 0x82, 0x73, 0x64, 0x01, 0x23, 0x45, 0x67, 0x00, 0x00,
   0x00, 0x00, 0x00, 0x00, 0x00, 0x00, 0x00, 0x00, 0x00, 0x00, 0x00, 0x00, 0x00, 0x00,
   0x00, 0x00, 0x00, 0x00, 0x01, 0x23, 0x45, 0x68, 0x00, 0x00, 0x00, 0x00, 0x00, 0x00,
   0x00, 0x00, 0x00, 0x00, 0x00, 0x00, 0x00, 0x00, 0x00, 0x00, 0x00, 0x00, 0x00, 0x00]

/-- receiver.rs `build_2_blocks_rr` -/
example :
    rrImage { ssrc := 0x91827364, reportBlocks := [{ ssrc := 0x1234567 }, { ssrc := 0x1234568 }] } = rr2 ∧
    ({ ssrc := 0x91827364, reportBlocks := [{ ssrc := 0x1234567 }, { ssrc := 0x1234568 }] } : RrBuilder).calcSize =
      .ok 56 := by decide +kernel

/-- receiver.rs `build_2_blocks_padded_rr` -/
example :
    rrImage { ssrc := 0x91827364, padding := 4, reportBlocks := [{ ssrc := 0x1234567 }, { ssrc := 0x1234568 }] } =
      [0xa2, 0xc9, 0x00, 0x0e, 0x91, 0x82, 0x73, 0x64, 0x01, 0x23, 0x45, 0x67, 0x00, 0x00,
       0x00, 0x00, 0x00, 0x00, 0x00, 0x00, 0x00, 0x00, 0x00, 0x00, 0x00, 0x00, 0x00, 0x00,
       0x00, 0x00, 0x00, 0x00, 0x01, 0x23, 0x45, 0x68, 0x00, 0x00, 0x00, 0x00, 0x00, 0x00,
       0x00, 0x00, 0x00, 0x00, 0x00, 0x00, 0x00, 0x00, 0x00, 0x00, 0x00, 0x00, 0x00, 0x00,
       0x00, 0x00, 0x00, 0x04] ∧
    ({ ssrc := 0x91827364, padding := 4, reportBlocks := [{ ssrc := 0x1234567 }, { ssrc := 0x1234568 }] }
      : RrBuilder).calcSize = .ok 60 := by decide +kernel

/-- receiver.rs `parse_rr_with_2_rb` -/
example :
    Rr.parse rr2 = .ok rr2 ∧ version rr2 = 2 ∧ (hVersion rr2 : R Unit UInt8) = .ok 2 ∧
    paddingOf rr2 = none ∧ (Rr.padding rr2 : R Unit (Option UInt8)) = .ok none ∧
    count rr2 = 2 ∧ (Rr.nReports rr2 : R Unit UInt8) = .ok 2 ∧
    lengthField rr2 = 56 ∧ (hLength rr2 : R Unit Nat) = .ok 56 ∧
    u32At rr2 4 = 0x91827364 ∧ (Rr.ssrc rr2 : R Unit UInt32) = .ok 0x91827364 ∧
    u32At rr2 8 = 0x01234567 ∧ u32At rr2 32 = 0x01234568 ∧
    (Rr.reportBlocks rr2 : R Unit (List Bytes)) = .ok [range rr2 8 32, range rr2 32 56] ∧
    (ReportBlock.ssrc (range rr2 8 32) : R Unit UInt32) = .ok 0x01234567 ∧
    (ReportBlock.ssrc (range rr2 32 56) : R Unit UInt32) = .ok 0x01234568 := by decide +kernel

/-- receiver.rs `parse_rr_short` -/
example : Rr.parse [0] = .err (.truncated 8 1) := by decide

/-- receiver.rs `parse_sr_too_short_for_report_count` (an RR vector, despite the name) -/
example :
    Rr.parse [0x82, 0xc9, 0x00, 0x0d, 0x91, 0x82, 0x73, 0x64, 0x01, 0x23, 0x45, 0x67, 0x00, 0x00,
              0x00, 0x00, 0x00, 0x00, 0x00, 0x00, 0x00, 0x00, 0x00, 0x00, 0x00, 0x00, 0x00, 0x00,
              0x00, 0x00, 0x00, 0x00] = .err (.truncated 56 32) := by decide +kernel

/-- receiver.rs `build_too_many_report_blocks` (32 × `ReportBlock::builder(1)`) -/
example :
    ({ ssrc := 0, reportBlocks := List.replicate 32 { ssrc := 1 } } : RrBuilder).calcSize =
      .err (.tooManyReportBlocks 32 31) := by decide

/-- receiver.rs `build_erroneous_report` -/
example :
    ({ ssrc := 0, reportBlocks := [{ ssrc := 1, cumulativeLost := 0xffffff + 1 }] } : RrBuilder).calcSize =
      .err (.cumulativeLostTooLarge (0xffffff + 1) 0xffffff) := by decide

/-- receiver.rs `build_padding_not_multiple_4` -/
example : ({ ssrc := 0, padding := 5 } : RrBuilder).calcSize = .err (.invalidPadding 5) := by decide

/-! ## src/report_block.rs -/

private def rb1 : Bytes :=
  [0x01, 0x23, 0x45, 0x67, 0x89, 0xab, 0xcd, 0xef, 0x02, 0x24, 0x46, 0x68, 0x8a, 0xac,
   0xce, 0xe0, 0xf1, 0xd3, 0xb5, 0x97, 0x79, 0x5b, 0x3d, 0x1f]

/-- report_block.rs `parse_report_block` -/
example :
    ReportBlock.parse rb1 = .ok rb1 ∧
    u32At rb1 0 = 0x1234567 ∧ (ReportBlock.ssrc rb1 : R Unit UInt32) = .ok 0x1234567 ∧
    u8At rb1 4 = 0x89 ∧ (ReportBlock.fractionLost rb1 : R Unit UInt8) = .ok 0x89 ∧
    u32At rb1 4 % 16777216 = 0xabcdef ∧ (ReportBlock.cumulativeLost rb1 : R Unit UInt32) = .ok 0xabcdef ∧
    u32At rb1 8 = 0x02244668 ∧ (ReportBlock.extendedSequenceNumber rb1 : R Unit UInt32) = .ok 0x02244668 ∧
    u32At rb1 12 = 0x8aaccee0 ∧ (ReportBlock.interarrivalJitter rb1 : R Unit UInt32) = .ok 0x8aaccee0 ∧
    u32At rb1 16 = 0xf1d3b597 ∧ (ReportBlock.lastSenderReportTimestamp rb1 : R Unit UInt32) = .ok 0xf1d3b597 ∧
    u32At rb1 20 = 0x795b3d1f ∧
    (ReportBlock.delaySinceLastSenderReportTimestamp rb1 : R Unit UInt32) = .ok 0x795b3d1f := by decide

/-- report_block.rs `build_report_block` -/
example :
    rbImage { ssrc := 0x1234567, fractionLost := 0x89, cumulativeLost := 0xabcdef,
              extendedSequenceNumber := 0x02244668, interarrivalJitter := 0x8aaccee0,
              lastSenderReportTimestamp := 0xf1d3b597, delaySinceLastSenderReportTimestamp := 0x795b3d1f } = rb1 ∧
    ({ ssrc := 0x1234567, fractionLost := 0x89, cumulativeLost := 0xabcdef,
       extendedSequenceNumber := 0x02244668, interarrivalJitter := 0x8aaccee0,
       lastSenderReportTimestamp := 0xf1d3b597, delaySinceLastSenderReportTimestamp := 0x795b3d1f }
      : ReportBlockBuilder).calcSize = .ok 24 := by decide

/-- report_block.rs `short_report_block` -/
example : ReportBlock.parse [0] = .err (.truncated 24 1) := by decide

/-- report_block.rs `too_large_report_block` -/
example : ReportBlock.parse (List.replicate 25 0) = .err (.tooLarge 24 25) := by decide

/-! ## src/sender.rs -/

private def sr0 : Bytes :=
  [0x80, 0xc8, 0x00, 0x06, 0x01, 0x23, 0x45, 0x67, 0x89, 0xab, 0xcd, 0xef, 0x02, 0x24, 0x46, 0x68,
   0x8a, 0xac, 0xce, 0xe0, 0xf1, 0xe2, 0xd3, 0xc4, 0xb5, 0xa6, 0x97, 0x88]

/-- sender.rs `parse_sr_no_report_blocks` -/
example :
    Sr.parse sr0 = .ok sr0 ∧ version sr0 = 2 ∧ (hVersion sr0 : R Unit UInt8) = .ok 2 ∧
    paddingOf sr0 = none ∧ (Sr.padding sr0 : R Unit (Option UInt8)) = .ok none ∧
    count sr0 = 0 ∧ (Sr.nReports sr0 : R Unit UInt8) = .ok 0 ∧
    u32At sr0 4 = 0x01234567 ∧ (Sr.ssrc sr0 : R Unit UInt32) = .ok 0x01234567 ∧
    u64At sr0 8 = 0x89abcdef02244668 ∧ (Sr.ntp sr0 : R Unit UInt64) = .ok 0x89abcdef02244668 ∧
    u32At sr0 16 = 0x8aaccee0 ∧ (Sr.rtp sr0 : R Unit UInt32) = .ok 0x8aaccee0 ∧
    u32At sr0 20 = 0xf1e2d3c4 ∧ (Sr.packetCount sr0 : R Unit UInt32) = .ok 0xf1e2d3c4 ∧
    u32At sr0 24 = 0xb5a69788 ∧ (Sr.octetCount sr0 : R Unit UInt32) = .ok 0xb5a69788 := by decide

/-- sender.rs `build_empty_sr` -/
example :
    srImage { ssrc := 0x01234567, ntp := 0x89abcdef02244668, rtp := 0x8aaccee0, packetCount := 0xf1e2d3c4,
              octetCount := 0xb5a69788 } = sr0 ∧
    ({ ssrc := 0x01234567, ntp := 0x89abcdef02244668, rtp := 0x8aaccee0, packetCount := 0xf1e2d3c4,
       octetCount := 0xb5a69788 } : SrBuilder).calcSize = .ok 28 := by decide

private def sr2 : Bytes :=
  [0x82, 0xc8, 0x00, 0x12, 0x91, 0x82, 0x73, 0x64, 0x89, 0xab, 0xcd, 0xef, 0x02, 0x24,
   0x46, 0x68, 0x8a, 0xac, 0xce, 0xe0, 0xf1, 0xe2, 0xd3, 0xc4, 0xb5, 0xa6, 0x97, 0x88,
   0x01, 0x23, 0x45, 0x67, 0x00, 0x00, 0x00, 0x00, 0x00, 0x00, 0x00, 0x00, 0x00, 0x00,
   0x00, 0x00, 0x00, 0x00, 0x00, 0x00, 0x00, 0x00, 0x00, 0x00, 0x01, 0x23, 0x45, 0x68,
   0x00, 0x00, 0x00, 0x00, 0x00, 0x00, 0x00, 0x00, 0x00, 0x00, 0x00, 0x00, 0x00, 0x00,
   0x00, 0x00, 0x00, 0x00, 0x00, 0x00]

/-- sender.rs `build_2_blocks_sr` -/
example :
    srImage { ssrc := 0x91827364, ntp := 0x89abcdef02244668, rtp := 0x8aaccee0, packetCount := 0xf1e2d3c4,
              octetCount := 0xb5a69788, reportBlocks := [{ ssrc := 0x1234567 }, { ssrc := 0x1234568 }] } = sr2 ∧
    ({ ssrc := 0x91827364, ntp := 0x89abcdef02244668, rtp := 0x8aaccee0, packetCount := 0xf1e2d3c4,
       octetCount := 0xb5a69788, reportBlocks := [{ ssrc := 0x1234567 }, { ssrc := 0x1234568 }] }
      : SrBuilder).calcSize = .ok 76 := by decide +kernel

/-- sender.rs `build_2_blocks_padded_sr` -/
example :
    srImage { ssrc := 0x91827364, padding := 4, reportBlocks := [{ ssrc := 0x1234567 }, { ssrc := 0x1234568 }] } =
      [0xa2, 0xc8, 0x00, 0x13, 0x91, 0x82, 0x73, 0x64, 0x00, 0x00, 0x00, 0x00, 0x00, 0x00,
       0x00, 0x00, 0x00, 0x00, 0x00, 0x00, 0x00, 0x00, 0x00, 0x00, 0x00, 0x00, 0x00, 0x00,
       0x01, 0x23, 0x45, 0x67, 0x00, 0x00, 0x00, 0x00, 0x00, 0x00, 0x00, 0x00, 0x00, 0x00,
       0x00, 0x00, 0x00, 0x00, 0x00, 0x00, 0x00, 0x00, 0x00, 0x00, 0x01, 0x23, 0x45, 0x68,
       0x00, 0x00, 0x00, 0x00, 0x00, 0x00, 0x00, 0x00, 0x00, 0x00, 0x00, 0x00, 0x00, 0x00,
       0x00, 0x00, 0x00, 0x00, 0x00, 0x00, 0x00, 0x00, 0x00, 0x04] ∧
    ({ ssrc := 0x91827364, padding := 4, reportBlocks := [{ ssrc := 0x1234567 }, { ssrc := 0x1234568 }] }
      : SrBuilder).calcSize = .ok 80 := by decide +kernel

/-- sender.rs `parse_sr_short` -/
example : Sr.parse [0x80] = .err (.truncated 28 1) := by decide

/-- sender.rs `parse_sr_too_short_for_report_count` -/
example :
    Sr.parse [0x82, 0xc8, 0x00, 0x12, 0x91, 0x82, 0x73, 0x64, 0x89, 0xab, 0xcd, 0xef, 0x02, 0x24,
              0x46, 0x68, 0x8a, 0xac, 0xce, 0xe0, 0xf1, 0xe2, 0xd3, 0xc4, 0xb5, 0xa6, 0x97, 0x88,
              0x01, 0x23, 0x45, 0x67, 0x00, 0x00, 0x00, 0x00, 0x00, 0x00, 0x00, 0x00, 0x00, 0x00,
              0x00, 0x00, 0x00, 0x00, 0x00, 0x00, 0x00, 0x00, 0x00, 0x00, 0x01] = .err (.truncated 76 53) := by
  decide +kernel

/-- sender.rs `build_too_many_report_blocks` (32 × `ReportBlock::builder(1)`) -/
example :
    ({ ssrc := 0, reportBlocks := List.replicate 32 { ssrc := 1 } } : SrBuilder).calcSize =
      .err (.tooManyReportBlocks 32 31) := by decide

/-- sender.rs `build_erroneous_report` -/
example :
    ({ ssrc := 0, reportBlocks := [{ ssrc := 1, cumulativeLost := 0xffffff + 1 }] } : SrBuilder).calcSize =
      .err (.cumulativeLostTooLarge (0xffffff + 1) 0xffffff) := by decide

/-- sender.rs `build_padding_not_multiple_4` -/
example : ({ ssrc := 0, padding := 5 } : SrBuilder).calcSize = .err (.invalidPadding 5) := by decide

/-- sender.rs `parse_sr_with_2_rb` -/
example :
    Sr.parse sr2 = .ok sr2 ∧ version sr2 = 2 ∧ (hVersion sr2 : R Unit UInt8) = .ok 2 ∧
    paddingOf sr2 = none ∧ (Sr.padding sr2 : R Unit (Option UInt8)) = .ok none ∧
    count sr2 = 2 ∧ (Sr.nReports sr2 : R Unit UInt8) = .ok 2 ∧
    lengthField sr2 = 76 ∧ (hLength sr2 : R Unit Nat) = .ok 76 ∧
    u32At sr2 4 = 0x91827364 ∧ (Sr.ssrc sr2 : R Unit UInt32) = .ok 0x91827364 ∧
    u64At sr2 8 = 0x89abcdef02244668 ∧ (Sr.ntp sr2 : R Unit UInt64) = .ok 0x89abcdef02244668 ∧
    u32At sr2 16 = 0x8aaccee0 ∧ (Sr.rtp sr2 : R Unit UInt32) = .ok 0x8aaccee0 ∧
    u32At sr2 20 = 0xf1e2d3c4 ∧ (Sr.packetCount sr2 : R Unit UInt32) = .ok 0xf1e2d3c4 ∧
    u32At sr2 24 = 0xb5a69788 ∧ (Sr.octetCount sr2 : R Unit UInt32) = .ok 0xb5a69788 ∧
    u32At sr2 28 = 0x01234567 ∧ u32At sr2 52 = 0x01234568 ∧
    (Sr.reportBlocks sr2 : R Unit (List Bytes)) = .ok [range sr2 28 52, range sr2 52 76] ∧
    (ReportBlock.ssrc (range sr2 28 52) : R Unit UInt32) = .ok 0x01234567 ∧
    (ReportBlock.ssrc (range sr2 52 76) : R Unit UInt32) = .ok 0x01234568 := by decide +kernel

/-! ## src/sdes.rs -/

/-- sdes.rs `parse_empty_sdes_chunk`: SSRC, an empty CNAME, terminator and fill -/
example :
    SdesChunk.parse 0 [0x00, 0x01, 0x02, 0x03, 0x01, 0x00, 0x00, 0x00] = .ok (⟨0x00010203, [⟨4, [0x01, 0x00]⟩]⟩, 8) ∧
    (SdesItem.type ⟨4, [0x01, 0x00]⟩ : R Unit UInt8) = .ok 1 ∧
    (SdesItem.value ⟨4, [0x01, 0x00]⟩ : R Unit Slice) = .ok ⟨6, []⟩ ∧
    refTok [0x00, 0x01, 0x02, 0x03, 0x01, 0x00, 0x00, 0x00] = some [⟨0x00010203, [⟨1, []⟩]⟩] := by decide +kernel

/-- sdes.rs `parse_empty_sdes` -/
example :
    Sdes.parse [0x80, 0xca, 0x00, 0x00] = .ok ⟨[0x80, 0xca, 0x00, 0x00], []⟩ ∧
    version [0x80, 0xca, 0x00, 0x00] = 2 ∧ (hVersion [0x80, 0xca, 0x00, 0x00] : R Unit UInt8) = .ok 2 ∧
    count [0x80, 0xca, 0x00, 0x00] = 0 ∧ (hCount [0x80, 0xca, 0x00, 0x00] : R Unit UInt8) = .ok 0 ∧
    refTok (sdesBody [0x80, 0xca, 0x00, 0x00]) = some [] := by decide +kernel

private def sdesAbCd : SdesBuilder :=
  { chunks := [{ ssrc := 0x98765432, items := [{ type := 1, value := [0x61, 0x62] }] },
               { ssrc := 0x67892345, items := [{ type := 1, value := [0x63, 0x64] }] }] }

-- No bytes are asserted by this test, only that what was built (CNAME "ab" and CNAME "cd", each a
-- whole word, so that the terminator needs a word of its own) parses and that the chunks carry the
-- two SSRCs.
/-- sdes.rs `sdes_item_multiple_of_4_has_zero_terminating` -/
example :
    ((fun s => s.chunks.map (·.ssrc)) <$> Sdes.parse (sdesImage sdesAbCd)) = .ok [0x98765432, 0x67892345] ∧
    refTok (sdesBody (sdesImage sdesAbCd)) =
      some [⟨0x98765432, [⟨1, [0x61, 0x62]⟩]⟩, ⟨0x67892345, [⟨1, [0x63, 0x64]⟩]⟩] ∧
    (sdesImage sdesAbCd).length = 28 ∧ range (sdesImage sdesAbCd) 12 16 = [0, 0, 0, 0] ∧
    range (sdesImage sdesAbCd) 24 28 = [0, 0, 0, 0] := by decide +kernel

private def sdesCname : Bytes := [0x81, 0xca, 0x00, 0x02, 0x91, 0x82, 0x73, 0x64, 0x01, 0x02, 0x30, 0x31]

/-- sdes.rs `parse_cname_sdes` (the chunk ends at the packet end without a terminator) -/
example :
    Sdes.parse sdesCname = .ok ⟨sdesCname, [⟨0x91827364, [⟨8, [0x01, 0x02, 0x30, 0x31]⟩]⟩]⟩ ∧
    version sdesCname = 2 ∧ (hVersion sdesCname : R Unit UInt8) = .ok 2 ∧
    count sdesCname = 1 ∧ (hCount sdesCname : R Unit UInt8) = .ok 1 ∧
    (SdesItem.type ⟨8, [0x01, 0x02, 0x30, 0x31]⟩ : R Unit UInt8) = .ok 1 ∧
    (SdesItem.value ⟨8, [0x01, 0x02, 0x30, 0x31]⟩ : R Unit Slice) = .ok ⟨10, [0x30, 0x31]⟩ ∧
    refTok (sdesBody sdesCname) = some [⟨0x91827364, [⟨1, [0x30, 0x31]⟩]⟩] := by decide +kernel

private def sdesOne : Bytes :=
  [0x81, 0xca, 0x00, 0x0c, 0x12, 0x34, 0x56, 0x78, 0x01, 0x05, 0x63, 0x6e, 0x61, 0x6d,
   0x65, 0x02, 0x09, 0x46, 0x72, 0x61, 0x6e, 0xc3, 0xa7, 0x6f, 0x69, 0x73, 0x08, 0x16,
   0x0b, 0x70, 0x72, 0x69, 0x76, 0x2d, 0x70, 0x72, 0x65, 0x66, 0x69, 0x78, 0x70, 0x72,
   0x69, 0x76, 0x2d, 0x76, 0x61, 0x6c, 0x75, 0x65, 0x00, 0x00]

/-- "cname" -/
private def sCname : Bytes := [0x63, 0x6e, 0x61, 0x6d, 0x65]
/-- "François" -/
private def sFrancois : Bytes := [0x46, 0x72, 0x61, 0x6e, 0xc3, 0xa7, 0x6f, 0x69, 0x73]
/-- "priv-prefix" -/
private def sPrivPrefix : Bytes := [0x70, 0x72, 0x69, 0x76, 0x2d, 0x70, 0x72, 0x65, 0x66, 0x69, 0x78]
/-- "priv-value" -/
private def sPrivValue : Bytes := [0x70, 0x72, 0x69, 0x76, 0x2d, 0x76, 0x61, 0x6c, 0x75, 0x65]
/-- "user@host" -/
private def sUserHost : Bytes := [0x75, 0x73, 0x65, 0x72, 0x40, 0x68, 0x6f, 0x73, 0x74]
/-- "+33678901234" -/
private def sPhone : Bytes := [0x2b, 0x33, 0x33, 0x36, 0x37, 0x38, 0x39, 0x30, 0x31, 0x32, 0x33, 0x34]
/-- "name" -/
private def sName : Bytes := [0x6e, 0x61, 0x6d, 0x65]

/-- sdes.rs `parse_cname_name_single_sdes_chunk`: CNAME "cname", NAME "François", PRIV "priv-prefix"/"priv-value" -/
example :
    Sdes.parse sdesOne =
      .ok ⟨sdesOne, [⟨0x12345678, [⟨8, range sdesOne 8 15⟩, ⟨15, range sdesOne 15 26⟩, ⟨26, range sdesOne 26 50⟩]⟩]⟩ ∧
    version sdesOne = 2 ∧ (hVersion sdesOne : R Unit UInt8) = .ok 2 ∧
    count sdesOne = 1 ∧ (hCount sdesOne : R Unit UInt8) = .ok 1 ∧
    (SdesItem.type ⟨8, range sdesOne 8 15⟩ : R Unit UInt8) = .ok 1 ∧
    (SdesItem.value ⟨8, range sdesOne 8 15⟩ : R Unit Slice) = .ok ⟨10, sCname⟩ ∧
    (SdesItem.type ⟨15, range sdesOne 15 26⟩ : R Unit UInt8) = .ok 2 ∧
    (SdesItem.value ⟨15, range sdesOne 15 26⟩ : R Unit Slice) = .ok ⟨17, sFrancois⟩ ∧
    (SdesItem.type ⟨26, range sdesOne 26 50⟩ : R Unit UInt8) = .ok 8 ∧
    (SdesItem.privPrefix ⟨26, range sdesOne 26 50⟩ : R Unit Slice) = .ok ⟨29, sPrivPrefix⟩ ∧
    (SdesItem.value ⟨26, range sdesOne 26 50⟩ : R Unit Slice) = .ok ⟨40, sPrivValue⟩ ∧
    refTok (sdesBody sdesOne) =
      some [⟨0x12345678, [⟨1, sCname⟩, ⟨2, sFrancois⟩, ⟨8, 0x0b :: (sPrivPrefix ++ sPrivValue)⟩]⟩] ∧
    RefItem.privSplit ⟨8, 0x0b :: (sPrivPrefix ++ sPrivValue)⟩ = some (sPrivPrefix, sPrivValue) := by
  decide +kernel

/-- sdes.rs `build_cname_name_single_sdes_chunk` -/
example :
    sdesImage { chunks := [{ ssrc := 0x12345678, items := [{ type := 1, value := sCname }, { type := 2, value := sFrancois }, { type := 8, value := sPrivValue, prefix_ := sPrivPrefix }] }] } =
      sdesOne ∧
    ({ chunks := [{ ssrc := 0x12345678, items := [{ type := 1, value := sCname }, { type := 2, value := sFrancois }, { type := 8, value := sPrivValue, prefix_ := sPrivPrefix }] }] }
      : SdesBuilder).calcSize = .ok 52 := by decide +kernel

private def sdesTwo : Bytes :=
  [0x82, 0xca, 0x00, 0x0e, 0x12, 0x34, 0x56, 0x78, 0x01, 0x05, 0x63, 0x6e, 0x61, 0x6d,
   0x65, 0x02, 0x09, 0x46, 0x72, 0x61, 0x6e, 0xc3, 0xa7, 0x6f, 0x69, 0x73, 0x00, 0x00,
   0x34, 0x56, 0x78, 0x9a, 0x03, 0x09, 0x75, 0x73, 0x65, 0x72, 0x40, 0x68, 0x6f, 0x73,
   0x74, 0x04, 0x0c, 0x2b, 0x33, 0x33, 0x36, 0x37, 0x38, 0x39, 0x30, 0x31, 0x32, 0x33,
   0x34, 0x00, 0x00, 0x00]

/-- sdes.rs `parse_multiple_sdes_chunks`: CNAME "cname", NAME "François"; EMAIL "user@host", PHONE "+33678901234" -/
example :
    Sdes.parse sdesTwo =
      .ok ⟨sdesTwo, [⟨0x12345678, [⟨8, range sdesTwo 8 15⟩, ⟨15, range sdesTwo 15 26⟩]⟩,
                     ⟨0x3456789a, [⟨32, range sdesTwo 32 43⟩, ⟨43, range sdesTwo 43 57⟩]⟩]⟩ ∧
    version sdesTwo = 2 ∧ (hVersion sdesTwo : R Unit UInt8) = .ok 2 ∧
    count sdesTwo = 2 ∧ (hCount sdesTwo : R Unit UInt8) = .ok 2 ∧
    (SdesItem.type ⟨8, range sdesTwo 8 15⟩ : R Unit UInt8) = .ok 1 ∧
    (SdesItem.value ⟨8, range sdesTwo 8 15⟩ : R Unit Slice) = .ok ⟨10, sCname⟩ ∧
    (SdesItem.type ⟨15, range sdesTwo 15 26⟩ : R Unit UInt8) = .ok 2 ∧
    (SdesItem.value ⟨15, range sdesTwo 15 26⟩ : R Unit Slice) = .ok ⟨17, sFrancois⟩ ∧
    (SdesItem.type ⟨32, range sdesTwo 32 43⟩ : R Unit UInt8) = .ok 3 ∧
    (SdesItem.value ⟨32, range sdesTwo 32 43⟩ : R Unit Slice) = .ok ⟨34, sUserHost⟩ ∧
    (SdesItem.type ⟨43, range sdesTwo 43 57⟩ : R Unit UInt8) = .ok 4 ∧
    (SdesItem.value ⟨43, range sdesTwo 43 57⟩ : R Unit Slice) = .ok ⟨45, sPhone⟩ ∧
    refTok (sdesBody sdesTwo) =
      some [⟨0x12345678, [⟨1, sCname⟩, ⟨2, sFrancois⟩]⟩, ⟨0x3456789a, [⟨3, sUserHost⟩, ⟨4, sPhone⟩]⟩] := by
  decide +kernel

/-- sdes.rs `build_multiple_sdes_chunks` -/
example :
    sdesImage { chunks := [{ ssrc := 0x12345678, items := [{ type := 1, value := sCname }, { type := 2, value := sFrancois }] },
                           { ssrc := 0x3456789a, items := [{ type := 3, value := sUserHost }, { type := 4, value := sPhone }] }] } =
      sdesTwo ∧
    ({ chunks := [{ ssrc := 0x12345678, items := [{ type := 1, value := sCname }, { type := 2, value := sFrancois }] },
                  { ssrc := 0x3456789a, items := [{ type := 3, value := sUserHost }, { type := 4, value := sPhone }] }] }
      : SdesBuilder).calcSize = .ok 60 := by decide +kernel

/-- sdes.rs `build_static_sdes` (`into_owned` / `add_item_owned`: CNAME "cname", NAME "name") -/
example :
    sdesImage { chunks := [{ ssrc := 0x12345678, items := [SdesItemBuilder.intoOwned { type := 1, value := sCname }, SdesItemBuilder.intoOwned { type := 2, value := sName }] }] } =
      [0x81, 0xca, 0x00, 0x05, 0x12, 0x34, 0x56, 0x78, 0x01, 0x05, 0x63, 0x6e, 0x61, 0x6d,
       0x65, 0x02, 0x04, 0x6e, 0x61, 0x6d, 0x65, 0x00, 0x00, 0x00] ∧
    ({ chunks := [{ ssrc := 0x12345678, items := [SdesItemBuilder.intoOwned { type := 1, value := sCname }, SdesItemBuilder.intoOwned { type := 2, value := sName }] }] }
      : SdesBuilder).calcSize = .ok 24 := by decide +kernel

/-- sdes.rs `build_sdes_from_shorter_lived_item` (`add_item` then `add_item_owned`; same bytes) -/
example :
    sdesImage { chunks := [{ ssrc := 0x12345678, items := [{ type := 1, value := sCname }, SdesItemBuilder.intoOwned { type := 2, value := sName }] }] } =
      [0x81, 0xca, 0x00, 0x05, 0x12, 0x34, 0x56, 0x78, 0x01, 0x05, 0x63, 0x6e, 0x61, 0x6d,
       0x65, 0x02, 0x04, 0x6e, 0x61, 0x6d, 0x65, 0x00, 0x00, 0x00] ∧
    ({ chunks := [{ ssrc := 0x12345678, items := [{ type := 1, value := sCname }, SdesItemBuilder.intoOwned { type := 2, value := sName }] }] }
      : SdesBuilder).calcSize = .ok 24 := by decide +kernel

/-- sdes.rs `build_too_many_chunks` (32 × `SdesChunk::builder(0)`) -/
example :
    ({ chunks := List.replicate 32 { ssrc := 0 } } : SdesBuilder).calcSize = .err (.tooManySdesChunks 32 31) := by
  decide

/-- sdes.rs `build_item_value_too_large` (NAME with 256 × 'a') -/
example :
    ({ chunks := [{ ssrc := 0, items := [{ type := 2, value := List.replicate 256 0x61 }] }] } : SdesBuilder).calcSize =
      .err (.sdesValueTooLarge 256 255) := by decide +kernel

/-- sdes.rs `build_priv_item_prefix_too_large` (PRIV "" with a prefix of 255 × 0x01) -/
example :
    ({ chunks := [{ ssrc := 0, items := [{ type := 8, value := [], prefix_ := List.replicate 255 0x01 }] }] }
      : SdesBuilder).calcSize = .err (.sdesPrivPrefixTooLarge 255 254) := by decide +kernel

/-- sdes.rs `build_priv_item_value_too_large` (PRIV with 255 × 'a', no prefix) -/
example :
    ({ chunks := [{ ssrc := 0, items := [{ type := 8, value := List.replicate 255 0x61 }] }] } : SdesBuilder).calcSize =
      .err (.sdesValueTooLarge 255 254) := by decide +kernel

/-- sdes.rs `build_padding_not_multiple_4` -/
example : ({ padding := 5 } : SdesBuilder).calcSize = .err (.invalidPadding 5) := by decide

/-! ## src/feedback/*.rs -/

/-- `TransportFeedback::builder(&fci)` / `PayloadFeedback::builder_owned(fci)` + `sender_ssrc` + `media_ssrc` -/
private def fbb (k : FbKind) (f : FciB) (sender media : UInt32) : FbBuilder :=
  { kind := k, fci := f.toFci, senderSsrc := sender, mediaSsrc := media }

/-! ### fir.rs -/

private def firV : Bytes :=
  [0x84, 0xce, 0x00, 0x04, 0x98, 0x76, 0x54, 0x32, 0x00, 0x00, 0x00, 0x00, 0xfe, 0xdc,
   0xba, 0x98, 0x30, 0x00, 0x00, 0x00]

/-- fir.rs `fir_build_parse` -/
example :
    fbImage .payload (.fir ⟨[(0xfedcba98, 0x30)]⟩) 0 0x98765432 0 = firV ∧
    (FirBuilder.addSsrc {} 0xfedcba98 0x30) = ⟨[(0xfedcba98, 0x30)]⟩ ∧
    (fbb .payload (.fir ⟨[(0xfedcba98, 0x30)]⟩) 0x98765432 0).calcSize = .ok 20 ∧
    Fb.parse .payload firV = .ok firV ∧
    u32At firV 4 = 0x98765432 ∧ (Fb.senderSsrc firV : R Unit UInt32) = .ok 0x98765432 ∧
    u32At firV 8 = 0 ∧ (Fb.mediaSsrc firV : R Unit UInt32) = .ok 0 ∧
    Fb.parseFci .payload .fir firV = .ok (range firV 12 20) ∧
    firDecode (range firV 12 20) = [(0xfedcba98, 0x30)] ∧
    (Fir.entries (range firV 12 20) : R Unit _) = .ok ([(0xfedcba98, 0x30)], true) := by decide +kernel

/-! ### nack.rs -/

/-- the test helper's loop `for i in (0..=n - 1).step_by(m) { fci.add_rtp_sequence(start + i) }` -/
private def nackSeqs (start n m : Nat) : List UInt16 :=
  ((List.range n).filter (fun i => i % m = 0)).map (fun i => (start + i).toUInt16)

/-- what `nack_build_parse_n_m_timestamps(0x1234, n, m, fci)` requires of a packet `v` built from the
    sequence numbers `seqs`: the builder's `BTreeSet` holds `seqs`; the Spec image and the size are
    `v`'s; `v` parses, its SSRCs are the test's, its FCI is `fci`, and both the iterator of the model
    and the reference decoder give back `seqs` followed by `None` -/
private def NackCase (seqs : List UInt16) (fci v : Bytes) : Prop :=
  seqs.foldl NackBuilder.addRtpSequence {} = ⟨seqs⟩ ∧
  fbImage .transport (.nack ⟨seqs⟩) 0 0x98765432 0x10fedcba = v ∧
  (fbb .transport (.nack ⟨seqs⟩) 0x98765432 0x10fedcba).calcSize = .ok v.length ∧
  Fb.parse .transport v = .ok v ∧
  u32At v 4 = 0x98765432 ∧ (Fb.senderSsrc v : R Unit UInt32) = .ok 0x98765432 ∧
  u32At v 8 = 0x10fedcba ∧ (Fb.mediaSsrc v : R Unit UInt32) = .ok 0x10fedcba ∧
  Fb.parseFci .transport .nack v = .ok fci ∧
  nackDecode fci = seqs.map (·.toNat) ∧
  (Nack.entries fci : R Unit _) = .ok (seqs, true)

private instance (seqs : List UInt16) (fci v : Bytes) : Decidable (NackCase seqs fci v) := by
  unfold NackCase; infer_instance

-- `r = 3 % 1 = 0`, `req_len = 12 + (2 - 0 + 16) / 17 * 4 = 16`, `expected[3] = 16 / 4 - 1 = 3`
/-- nack.rs `nack_build_parse_2_consecutive_timestamps` -/
example :
    nackSeqs 0x1234 2 1 = [0x1234, 0x1235] ∧
    NackCase (nackSeqs 0x1234 2 1) [0x12, 0x34, 0x00, 0x01]
      [0x81, 0xcd, 0x00, 0x03, 0x98, 0x76, 0x54, 0x32, 0x10, 0xfe, 0xdc, 0xba, 0x12, 0x34, 0x00, 0x01] := by
  decide +kernel

-- `req_len = 12 + (16 + 16) / 17 * 4 = 16`, `expected[3] = 3`
/-- nack.rs `nack_build_parse_16_consecutive_timestamps` -/
example :
    NackCase (nackSeqs 0x1234 16 1) [0x12, 0x34, 0x7f, 0xff]
      [0x81, 0xcd, 0x00, 0x03, 0x98, 0x76, 0x54, 0x32, 0x10, 0xfe, 0xdc, 0xba, 0x12, 0x34, 0x7f, 0xff] := by
  decide +kernel

-- `req_len = 12 + (17 + 16) / 17 * 4 = 16`, `expected[3] = 3`
/-- nack.rs `nack_build_parse_17_consecutive_timestamps` -/
example :
    NackCase (nackSeqs 0x1234 17 1) [0x12, 0x34, 0xff, 0xff]
      [0x81, 0xcd, 0x00, 0x03, 0x98, 0x76, 0x54, 0x32, 0x10, 0xfe, 0xdc, 0xba, 0x12, 0x34, 0xff, 0xff] := by
  decide +kernel

-- `req_len = 12 + (18 + 16) / 17 * 4 = 20`, `expected[3] = 20 / 4 - 1 = 4`
/-- nack.rs `nack_build_parse_18_consecutive_timestamps` -/
example :
    NackCase (nackSeqs 0x1234 18 1) [0x12, 0x34, 0xff, 0xff, 0x12, 0x45, 0x00, 0x00]
      [0x81, 0xcd, 0x00, 0x04, 0x98, 0x76, 0x54, 0x32, 0x10, 0xfe, 0xdc, 0xba,
       0x12, 0x34, 0xff, 0xff, 0x12, 0x45, 0x00, 0x00] := by
  decide +kernel

-- `r = 13 % 2 = 1`, `req_len = 12 + (12 - 1 + 16) / 17 * 4 = 16`, `expected[3] = 3`; the FCI is
-- `[0x12, 0x34, 0x02, 0b1010_1010]`
/-- nack.rs `nack_build_parse_12_2_timestamps` -/
example :
    nackSeqs 0x1234 12 2 = [0x1234, 0x1236, 0x1238, 0x123a, 0x123c, 0x123e] ∧
    NackCase (nackSeqs 0x1234 12 2) [0x12, 0x34, 0x02, 0xaa]
      [0x81, 0xcd, 0x00, 0x03, 0x98, 0x76, 0x54, 0x32, 0x10, 0xfe, 0xdc, 0xba, 0x12, 0x34, 0x02, 0xaa] := by
  decide +kernel

-- `TransportFeedback::builder(&fci)`; build only; `req_len = 16`, `expected[3] = 3`
/-- nack.rs `nack_build_ref_2_consecutive_timestamps` -/
example :
    [0x1234, 0x1235].foldl NackBuilder.addRtpSequence {} = ⟨[0x1234, 0x1235]⟩ ∧
    fbImage .transport (.nack ⟨[0x1234, 0x1235]⟩) 0 0x98765432 0x10fedcba =
      [0x81, 0xcd, 0x00, 0x03, 0x98, 0x76, 0x54, 0x32, 0x10, 0xfe, 0xdc, 0xba, 0x12, 0x34, 0x00, 0x01] ∧
    (fbb .transport (.nack ⟨[0x1234, 0x1235]⟩) 0x98765432 0x10fedcba).calcSize = .ok 16 := by decide +kernel

/-! ### pli.rs -/

private def pliV : Bytes := [0x81, 0xce, 0x00, 0x02, 0x98, 0x76, 0x54, 0x32, 0x10, 0xfe, 0xdc, 0xba]

/-- pli.rs `pli_build_parse` -/
example :
    fbImage .payload .pli 0 0x98765432 0x10fedcba = pliV ∧
    (fbb .payload .pli 0x98765432 0x10fedcba).calcSize = .ok 12 ∧
    Fb.parse .payload pliV = .ok pliV ∧
    u32At pliV 4 = 0x98765432 ∧ (Fb.senderSsrc pliV : R Unit UInt32) = .ok 0x98765432 ∧
    u32At pliV 8 = 0x10fedcba ∧ (Fb.mediaSsrc pliV : R Unit UInt32) = .ok 0x10fedcba ∧
    Fb.parseFci .payload .pli pliV = .ok [] := by decide

/-- pli.rs `pli_build_ref` -/
example :
    fbImage .payload .pli 0 0x98765432 0x10fedcba =
      [0x81, 0xce, 0x00, 0x02, 0x98, 0x76, 0x54, 0x32, 0x10, 0xfe, 0xdc, 0xba] ∧
    (fbb .payload .pli 0x98765432 0x10fedcba).calcSize = .ok 12 := by decide

/-- pli.rs `pli_parse_wrong_packet` -/
example :
    Fb.parse .transport [0x81, 0xcd, 0x00, 0x02, 0x98, 0x76, 0x54, 0x32, 0x10, 0xfe, 0xdc, 0xba] =
      .ok [0x81, 0xcd, 0x00, 0x02, 0x98, 0x76, 0x54, 0x32, 0x10, 0xfe, 0xdc, 0xba] ∧
    Fb.parseFci .transport .pli [0x81, 0xcd, 0x00, 0x02, 0x98, 0x76, 0x54, 0x32, 0x10, 0xfe, 0xdc, 0xba] =
      .err .wrongImplementation := by decide

/-- pli.rs `pli_build_wrong_packet_type` (both `calculate_size` and `write_into` fail) -/
example :
    (fbb .transport .pli 0x98765432 0x10fedcba).calcSize = .err .fciWrongFeedbackPacketType ∧
    ((fbb .transport .pli 0x98765432 0x10fedcba).toWriter.writeInto (List.replicate 12 0)).2 =
      .err .fciWrongFeedbackPacketType := by decide

private def pliData : Bytes :=
  [0x81, 0xce, 0x00, 0x03, 0x98, 0x76, 0x54, 0x32, 0x10, 0xfe, 0xdc, 0xba, 0x00, 0x00, 0x00, 0x00]

/-- pli.rs `pli_parse_with_data` -/
example :
    Fb.parse .payload pliData = .ok pliData ∧
    Fb.parseFci .payload .pli pliData = .err (.tooLarge 0 4) := by decide

/-! ### rpsi.rs -/

private def rpsiV : Bytes :=
  [0x83, 0xce, 0x00, 0x03, 0x98, 0x76, 0x54, 0x32, 0x10, 0xfe, 0xdc, 0xba, 0x0c, 0x60, 0xf0, 0x00]

/-- what both rpsi.rs tests assert -/
private def RpsiCase : Prop :=
    fbImage .payload (.rpsi { payloadType := 96, nativeBitString := [0xf0], nativeBitOverrun := 4 }) 0 0x98765432 0x10fedcba =
      rpsiV ∧
    RpsiBuilder.nativeData { payloadType := 96 } [0xf0] 4 =
      { payloadType := 96, nativeBitString := [0xf0], nativeBitOverrun := 4 } ∧
    (fbb .payload (.rpsi { payloadType := 96, nativeBitString := [0xf0], nativeBitOverrun := 4 }) 0x98765432
      0x10fedcba).calcSize = .ok 16 ∧
    Fb.parse .payload rpsiV = .ok rpsiV ∧
    u32At rpsiV 4 = 0x98765432 ∧ (Fb.senderSsrc rpsiV : R Unit UInt32) = .ok 0x98765432 ∧
    u32At rpsiV 8 = 0x10fedcba ∧ (Fb.mediaSsrc rpsiV : R Unit UInt32) = .ok 0x10fedcba ∧
    Fb.parseFci .payload .rpsi rpsiV = .ok [0x0c, 0x60, 0xf0, 0x00] ∧
    (Rpsi.payloadType [0x0c, 0x60, 0xf0, 0x00] : R Unit UInt8) = .ok 96 ∧
    (Rpsi.bitString 12 [0x0c, 0x60, 0xf0, 0x00] : R Unit (Slice × Nat)) = .ok (⟨14, [0xf0]⟩, 4) ∧
    rpsiDecode [0x0c, 0x60, 0xf0, 0x00] = some (96, rpsiBits [0xf0] 4) ∧
    rpsiBits [0xf0] 4 = [true, true, true, true]

private instance : Decidable RpsiCase := by unfold RpsiCase; infer_instance

/-- rpsi.rs `rpsi_build_parse` (`builder_owned`) -/
example : RpsiCase := by decide

/-- rpsi.rs `rpsi_build_parse_ref` (`builder(&fci)`: same configuration, bytes and read-back) -/
example : RpsiCase := by decide

/-! ### sli.rs -/

/-- the values `0, 1, 3, 7, …, 0x1fff` that `macroblock_entries` walks with `x = (x << 1) | 1` -/
private def sliSweep : List UInt16 := (List.range 14).map (fun k => (2 ^ k - 1).toUInt16)

/-- sli.rs `macroblock_entries`: `decode(encode(e)) == e` for the 14 × 14 × 64 entries of the test -/
example :
    sliSweep = [0, 1, 3, 7, 0xf, 0x1f, 0x3f, 0x7f, 0xff, 0x1ff, 0x3ff, 0x7ff, 0xfff, 0x1fff] ∧
    ∀ start ∈ sliSweep, ∀ cnt ∈ sliSweep, ∀ pid : Fin 64,
      (match MacroBlockEntry.encode ⟨start, cnt, pid.val.toUInt8⟩ with
        | [a, b, c, d] => some (MacroBlockEntry.decode a b c d)
        | _ => none) = some ⟨start, cnt, pid.val.toUInt8⟩ := by
  decide +kernel

/-- sli.rs `macroblock_entries`, the same entries through the reference encoder and decoder -/
example :
    ∀ start ∈ sliSweep, ∀ cnt ∈ sliSweep, ∀ pid : Fin 64,
      sliDecode (sliEntryImage ⟨start, cnt, pid.val.toUInt8⟩) = [(start.toNat, cnt.toNat, pid.val)] := by
  decide +kernel

private def sliV : Bytes :=
  [0x82, 0xce, 0x00, 0x03, 0x98, 0x76, 0x54, 0x32, 0x10, 0xfe, 0xdc, 0xba, 0x91, 0xa2, 0x61, 0xe5]

/-- sli.rs `sli_build_parse` -/
example :
    fbImage .payload (.sli ⟨[⟨0x1234, 0x0987, 0x25⟩]⟩) 0 0x98765432 0x10fedcba = sliV ∧
    SliBuilder.addLostMacroblock {} 0x1234 0x0987 0x25 = ⟨[⟨0x1234, 0x0987, 0x25⟩]⟩ ∧
    (fbb .payload (.sli ⟨[⟨0x1234, 0x0987, 0x25⟩]⟩) 0x98765432 0x10fedcba).calcSize = .ok 16 ∧
    Fb.parse .payload sliV = .ok sliV ∧
    u32At sliV 4 = 0x98765432 ∧ (Fb.senderSsrc sliV : R Unit UInt32) = .ok 0x98765432 ∧
    u32At sliV 8 = 0x10fedcba ∧ (Fb.mediaSsrc sliV : R Unit UInt32) = .ok 0x10fedcba ∧
    Fb.parseFci .payload .sli sliV = .ok [0x91, 0xa2, 0x61, 0xe5] ∧
    sliDecode [0x91, 0xa2, 0x61, 0xe5] = [(0x1234, 0x987, 0x25)] ∧
    (Sli.lostMacroblocks [0x91, 0xa2, 0x61, 0xe5] : R Unit _) = .ok ([⟨0x1234, 0x987, 0x25⟩], true) := by
  decide +kernel

/-- sli.rs `sli_build_ref` -/
example :
    fbImage .payload (.sli ⟨[⟨0x1234, 0x0987, 0x25⟩]⟩) 0 0x98765432 0x10fedcba =
      [0x82, 0xce, 0x00, 0x03, 0x98, 0x76, 0x54, 0x32, 0x10, 0xfe, 0xdc, 0xba, 0x91, 0xa2, 0x61, 0xe5] ∧
    (fbb .payload (.sli ⟨[⟨0x1234, 0x0987, 0x25⟩]⟩) 0x98765432 0x10fedcba).calcSize = .ok 16 := by decide

/-! ## tests/custom_packet.rs

  The third-party packet of the integration test: type 242, `MIN_PACKET_LEN = PACKET_LEN = 12`, a
  body of SSRC and a 4-byte payload; in the model `Custom.parse 242 12` and
  `CustomBuilder { pt := 242, min := 12, body := be32 ssrc ++ payload }`. -/

/-- custom_packet.rs `test_parse` -/
example :
    Custom.parse 242 12 unk242 = .ok unk242 ∧
    u32At unk242 4 = 0x12345678 ∧ (parseSsrc unk242 : R Unit UInt32) = .ok 0x12345678 := by decide

/-- custom_packet.rs `test_build` -/
example :
    customImage { pt := 242, min := 12, body := be32 0x12345678 ++ [0x01, 0x02, 0x03, 0x04] } =
      [0x80, 0xf2, 0x00, 0x02, 0x12, 0x34, 0x56, 0x78, 0x01, 0x02, 0x03, 0x04] ∧
    ({ pt := 242, min := 12, body := be32 0x12345678 ++ [0x01, 0x02, 0x03, 0x04] } : CustomBuilder).calcSize =
      .ok 12 := by decide

/-- custom_packet.rs `test_parse_generic_packet`: dispatch gives `Unknown`; its data re-parses as Custom -/
example :
    Packet.parse unk242 = .ok (.unknown unk242) ∧ ptype unk242 = 242 ∧ (hType unk242 : R Unit UInt8) = .ok 242 ∧
    (Unknown.data unk242 : R Unit Slice) = .ok ⟨0, unk242⟩ ∧
    Custom.parse 242 12 unk242 = .ok unk242 ∧
    u32At unk242 4 = 0x12345678 ∧ (parseSsrc unk242 : R Unit UInt32) = .ok 0x12345678 := by decide

private def cRrCustom : Bytes :=
  [0x80, 0xc9, 0x00, 0x01, 0x01, 0x23, 0x45, 0x67, 0x80, 0xf2, 0x00, 0x02, 0x12, 0x34, 0x56,
   0x78, 0x01, 0x02, 0x03, 0x04]

/-- custom_packet.rs `test_parse_compound`: an RR, then an unknown packet of type 242 that is a Custom -/
example :
    Compound.parse cRrCustom = .ok ⟨cRrCustom, 0, false⟩ ∧
    tiling cRrCustom = some [range cRrCustom 0 8, range cRrCustom 8 20] ∧
    (Compound.collect 3 ⟨cRrCustom, 0, false⟩ [] : R Unit _) =
      .ok ([(.ok (.rr (range cRrCustom 0 8)), 0), (.ok (.unknown (range cRrCustom 8 20)), 8)],
           true, ⟨cRrCustom, 20, true⟩) ∧
    ptype (range cRrCustom 0 8) = 201 ∧ ptype (range cRrCustom 8 20) = 242 ∧
    Custom.parse 242 12 (range cRrCustom 8 20) = .ok (range cRrCustom 8 20) ∧
    u32At (range cRrCustom 8 20) 4 = 0x12345678 ∧
    (parseSsrc (range cRrCustom 8 20) : R Unit UInt32) = .ok 0x12345678 := by decide +kernel

/-- custom_packet.rs `test_build_compound` -/
example :
    rrImage { ssrc := 0x1234567 } ++
        customImage { pt := 242, min := 12, body := be32 0x12345678 ++ [0x01, 0x02, 0x03, 0x04] } =
      [0x80, 0xc9, 0x00, 0x01, 0x01, 0x23, 0x45, 0x67, 0x80, 0xf2, 0x00, 0x02, 0x12, 0x34,
       0x56, 0x78, 0x01, 0x02, 0x03, 0x04] ∧
    CompoundBuilder.calcSize
      [({ ssrc := 0x1234567 } : RrBuilder).toWriter,
       ({ pt := 242, min := 12, body := be32 0x12345678 ++ [0x01, 0x02, 0x03, 0x04] } : CustomBuilder).toWriter] =
      .ok 20 := by decide

end Rtcp.Props
