/-
  End-to-end compositions and remaining error / bound clauses, stated over the model:

  * C05: what a feedback builder is given comes back out of `parse_fci::<F>()` on the bytes of the
    packet image, through the real iterators (`Nack.entries`, `Fir.entries`, `Sli.lostMacroblocks`,
    `Rpsi.payloadType` / `bitString`), not only through the reference decoders;
  * C18: the errors of the FCI parsers, of `parse_fci` and of the generic packet parser are truthful;
  * C13: padding is transparent through the generic packet parser as well;
  * C11: every item the compound iterator yields sits at the offset where its tile starts;
  * C01: the eager SDES lists are bounded by the input length.

  STATEMENTS ARE FIXED. Proofs live in Rtcp/Proofs/*.lean and are only cited here.
-/
import Rtcp.Spec.All
import Rtcp.Props.Writers
import Rtcp.Proofs.EndToEnd
import Rtcp.Proofs.EndToEnd2

namespace Rtcp.Props
open Rtcp Rtcp.Impl Rtcp.Spec

/-! ## C05 end to end -/

/-- generic NACK: exactly the set, ascending, each once — through the packet parser, the FCI
    extraction and the iterator state machine -/
theorem fb_nack_end_to_end {ε : Type} (b : NackBuilder) (hs : NackSorted b) (p : UInt8) (s m : UInt32)
    (h : fbRules .transport (.nack b) p = []) :
    let img := fbImage .transport (.nack b) p s m
    Fb.parse .transport img = .ok img ∧
    ∃ d, Fb.parseFci .transport .nack img = .ok d ∧
      (Nack.entries d : R ε (List UInt16 × Bool)) = .ok (b.rtpSeq, true) := Proofs.fb_nack_end_to_end b hs p s m h

/-- FIR: the (SSRC, sequence) entries in map order; `hne` because an empty FIR is refused by the
    FCI parser (known finding, `empty_fir_refused`) -/
theorem fb_fir_end_to_end {ε : Type} (b : FirBuilder) (hne : b.ssrcSeq ≠ []) (p : UInt8) (s m : UInt32)
    (h : fbRules .payload (.fir b) p = []) :
    let img := fbImage .payload (.fir b) p s m
    Fb.parse .payload img = .ok img ∧
    ∃ d, Fb.parseFci .payload .fir img = .ok d ∧
      (Fir.entries d : R ε (List (UInt32 × UInt8) × Bool)) = .ok (b.ssrcSeq, true) := Proofs.fb_fir_end_to_end b hne p s m h

/-- SLI: the same entries in order, within the 13/13/6-bit ranges; non-empty (known finding) -/
theorem fb_sli_end_to_end {ε : Type} (b : SliBuilder) (hne : b.lostMbs ≠ [])
    (hr : ∀ e ∈ b.lostMbs, e.start.toNat < 8192 ∧ e.count.toNat < 8192 ∧ e.pictureId.toNat < 64)
    (p : UInt8) (s m : UInt32) (h : fbRules .payload (.sli b) p = []) :
    let img := fbImage .payload (.sli b) p s m
    Fb.parse .payload img = .ok img ∧
    ∃ d, Fb.parseFci .payload .sli img = .ok d ∧
      (Sli.lostMacroblocks d : R ε (List MacroBlockEntry × Bool)) = .ok (b.lostMbs, true) :=
  Proofs.fb_sli_end_to_end b hne hr p s m h

/-- RPSI: the payload type and, bit for bit, the bit string that was put in -/
theorem fb_rpsi_end_to_end {ε : Type} (b : RpsiBuilder) (p : UInt8) (s m : UInt32)
    (h : fbRules .payload (.rpsi b) p = []) :
    let img := fbImage .payload (.rpsi b) p s m
    Fb.parse .payload img = .ok img ∧
    ∃ d sl k, Fb.parseFci .payload .rpsi img = .ok d ∧
      (Rpsi.payloadType d : R ε UInt8) = .ok b.payloadType ∧
      (Rpsi.bitString 0 d : R ε (Slice × Nat)) = .ok (sl, k) ∧
      (bitsOf sl.bytes).take (8 * sl.bytes.length - k) = rpsiBits b.nativeBitString b.nativeBitOverrun.toNat :=
  Proofs.fb_rpsi_end_to_end b p s m h

/-- PLI: accepted with an empty body -/
theorem fb_pli_end_to_end (p : UInt8) (s m : UInt32) (h : fbRules .payload .pli p = []) :
    let img := fbImage .payload .pli p s m
    Fb.parse .payload img = .ok img ∧ Fb.parseFci .payload .pli img = .ok [] := Proofs.fb_pli_end_to_end p s m h

/-! ## C18: remaining parsers -/

/-- the FCI parsers' own errors -/
theorem fci_err_truthful (f : Fb.FciType) (d : Bytes) (e : ParseError) (h : f.parse d = .err e) :
    (∃ ex, e = .truncated ex d.length ∧ d.length < ex) ∨ (e = .tooLarge 0 d.length ∧ 0 < d.length) :=
  Proofs.fci_err_truthful f d e h

/-- `parse_fci::<F>` on an accepted feedback packet: wrong kind / format, or the FCI parser's
    truthful error about the FCI region -/
theorem parseFci_err_truthful (k : FbKind) (f : Fb.FciType) (d : Bytes) (e : ParseError)
    (hp : Fb.parse k d = .ok d) (h : Fb.parseFci k f d = .err e) :
    e = .wrongImplementation ∨ (∃ ex a, e = .truncated ex a ∧ a < ex) ∨ (∃ a, e = .tooLarge 0 a ∧ 0 < a) :=
  Proofs.parseFci_err_truthful k f d e hp h

/-- the generic parser never reports a type mismatch, and everything else it reports is truthful
    for the type octet of the input -/
theorem packet_err_truthful (bs : Bytes) (e : ParseError) (h : Packet.parse bs = .err e) :
    ErrorTruthful bs (ptype bs) e ∧ (∀ a r, e ≠ .packetTypeMismatch a r) := Proofs.packet_err_truthful bs e h

/-! ## C13 through the generic parser -/

theorem packet_pad_transparent (p : Bytes) (n : Nat) (pk : Packet) (h : Packet.parse p = .ok pk)
    (hk : pk.kind? ≠ none) (hn : PadOk p n) :
    ∃ pk', Packet.parse (addPadding p n) = .ok pk' ∧ pk'.kind? = pk.kind? ∧ pk'.data = addPadding p n :=
  Proofs.packet_pad_transparent p n pk h hk hn

/-! ## C11: offsets -/

/-- the i-th yielded item sits at the offset where the i-th tile starts -/
theorem compound_iter_offsets {ε : Type} (bs : Bytes) (ts : List Bytes) (hne : bs ≠ []) (ht : tiling bs = some ts)
    (hnp : ∀ t ∈ ts, Packet.parse t ≠ .panic) (fuel : Nat) (hf : ts.length < fuel) :
    ∃ items c', (Compound.collect fuel ⟨bs, 0, false⟩ [] : R ε _) = .ok (items, true, c') ∧
      ∀ i (hi : i < items.length), (items[i]).2 = ((ts.take i).map List.length).sum :=
  Proofs.compound_iter_offsets bs ts hne ht hnp fuel hf

/-! ## C01: eager SDES lists are bounded by the input -/

theorem sdes_sizes_bounded (bs : Bytes) (v : Sdes) (h : Sdes.parse bs = .ok v) :
    4 * v.chunks.length ≤ bs.length ∧ 2 * ((v.chunks.map (·.items.length)).sum) ≤ bs.length :=
  Proofs.sdes_sizes_bounded bs v h

/-- non-vacuity of the NACK end-to-end statement: three numbers spanning the 17-value window -/
example : NackSorted ⟨[1, 2, 18]⟩ ∧ fbRules .transport (.nack ⟨[1, 2, 18]⟩) 4 = [] := by
  constructor
  · unfold NackSorted; decide
  · decide

end Rtcp.Props
