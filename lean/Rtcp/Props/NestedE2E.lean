/-
  C14 for NESTED compounds: a member of a compound may itself be a compound, to any depth, empty
  nested compounds included.  For every tree of built-in packet builders whose root writer is accepted
  with `n`:
    * `write_into` writes exactly the RFC images of the LEAVES, in order, `n` bytes, rest untouched
      (a nested compound contributes its own members, an empty one contributes nothing);
    * when there is at least one leaf those bytes are accepted by `Compound::parse`, every leaf image is
      read by the generic parser as the leaf's variant, and iteration yields one item per leaf, in
      order, each equal to `Packet::parse` of the leaf image alone.
  The only premises are acceptance by `calculate_size` and what holds of every builder made through
  the public API (NACK sets sorted; C03's exclusion of SDES items of type 0).  `tree_refines` is the
  writer contract for every tree, by structural recursion through the nesting.

  STATEMENTS ARE FIXED. Proofs live in Rtcp/Proofs/NestedE2E.lean and are only cited here.
-/
import Rtcp.Props.Trees
import Rtcp.Proofs.NestedE2E

namespace Rtcp.Props
open Rtcp Rtcp.Impl Rtcp.Spec

/-- the image of a nested compound is the concatenation of its members' images -/
theorem node_image (ts : List Tree) : (Tree.node ts).image = (ts.map Tree.image).flatten := Proofs.node_image ts

/-- the writer contract, for every tree -/
theorem tree_refines (t : Tree) (h : ∀ m ∈ t.leaves, m.Inv) : Refines t.toWriter t.image := Proofs.tree_refines t h

/-- acceptance of a tree implies acceptance of every leaf on its own -/
theorem tree_leaves_accepted (t : Tree) (h : ∀ m ∈ t.leaves, m.Inv) (k : Nat) (hk : t.toWriter.calcSize = .ok k) :
    ∀ m ∈ t.leaves, ∃ k', m.toWriter.calcSize = .ok k' := Proofs.tree_leaves_accepted t h k hk

theorem nested_end_to_end {ε : Type} (t : Tree) (hinv : ∀ m ∈ t.leaves, m.Inv) (hne : t.leaves ≠ []) (n : Nat)
    (hs : t.toWriter.calcSize = .ok n) (buf : Bytes) (hb : n ≤ buf.length)
    (fuel : Nat) (hf : t.leaves.length < fuel) :
    t.toWriter.writeInto buf = (t.image ++ buf.drop n, .ok n) ∧
    t.image.length = n ∧
    Compound.parse t.image = .ok ⟨t.image, 0, false⟩ ∧
    (∀ m ∈ t.leaves, ∃ p, Packet.parse m.image = .ok p ∧ p.kind? = some m.kind) ∧
    ∃ items c', (Compound.collect fuel ⟨t.image, 0, false⟩ [] : R ε _) = .ok (items, true, c') ∧
      items.map (·.1) = t.leaves.map (fun m => Packet.parse m.image) ∧ items.length = t.leaves.length :=
  Proofs.nested_end_to_end t hinv hne n hs buf hb fuel hf

/-- non-vacuity: `[rr [bye []] [rr bye(padded)]]` — two levels, an empty nested compound, padding on the
    very last packet only — is accepted with 8 + 8 + 8 + 12 = 36 bytes and has four leaves -/
example :
    let rr : Tree := .leaf (.rr { ssrc := 1 })
    let bye : Tree := .leaf (.bye { sources := [9] })
    let byeP : Tree := .leaf (.bye { padding := 4, sources := [9] })
    let t : Tree := .node [rr, .node [bye, .node []], .node [rr, byeP]]
    t.toWriter.calcSize = .ok 36 ∧ t.leaves.length = 4 := by decide

/-- and padding on a packet that is not the last leaf is refused through the nesting -/
example :
    let rr : Tree := .leaf (.rr { ssrc := 1 })
    let byeP : Tree := .leaf (.bye { padding := 4, sources := [9] })
    (Tree.node [.node [rr, byeP], rr]).toWriter.calcSize = .err .nonLastCompoundPacketPadding := by decide

end Rtcp.Props
