/-
  C20 at full strength: ANY call sequence on a builder.

  `Rtcp/Impl/Calls.lean` reifies every public builder method as a constructor of a `…Call` type;
  `b.run cs` is the fold of the method functions of `Rtcp/Impl/Setters.lean` over the sequence
  `cs` (the request driver evaluates builder requests with exactly these `run`s).  The theorems
  below give the closed form of `run` for every builder and every sequence, of any length:

  * a scalar field ends up with the argument of the LAST call of its setter, or keeps its initial
    value when that setter was never called (`lastSome`), whatever other calls are interleaved;
  * a list field ends up as the initial list followed by the arguments of its adder calls in call
    order (`List.filterMap`), whatever other calls are interleaved;
  * the NACK set is strictly ascending and holds exactly the numbers added (so it depends on the
    SET of numbers only: any permutation, any repetition gives the same builder);
  * the FIR table holds one entry per distinct SSRC, in order of first insertion, with the
    sequence number of the last insertion of that SSRC;
  * the owned variants never drop a field.

  Since size and bytes are functions of the final record, the `…_same_summary` corollaries say:
  two call sequences that configure the same thing produce the same size, the same bytes and the
  same error, no matter how they differ in order, interleaving and repetition.

  STATEMENTS ARE FIXED.  Proofs live in Rtcp/Proofs/Calls.lean and are only cited here.
-/
import Rtcp.Impl.Calls
import Rtcp.Proofs.Calls

namespace Rtcp.Props
open Rtcp Rtcp.Impl Rtcp.Spec

/-! ## report block -/

theorem rb_run (b : ReportBlockBuilder) (cs : List RbCall) :
    b.run cs =
      { ssrc := b.ssrc
        fractionLost := lastSome (fun | .fl v => some v | _ => none) cs b.fractionLost
        cumulativeLost := lastSome (fun | .cl v => some v | _ => none) cs b.cumulativeLost
        extendedSequenceNumber := lastSome (fun | .esn v => some v | _ => none) cs b.extendedSequenceNumber
        interarrivalJitter := lastSome (fun | .jit v => some v | _ => none) cs b.interarrivalJitter
        lastSenderReportTimestamp := lastSome (fun | .lsr v => some v | _ => none) cs b.lastSenderReportTimestamp
        delaySinceLastSenderReportTimestamp :=
          lastSome (fun | .dlsr v => some v | _ => none) cs b.delaySinceLastSenderReportTimestamp } :=
  Proofs.rb_run b cs

/-! ## sender / receiver report -/

theorem sr_run (b : SrBuilder) (cs : List SrCall) :
    b.run cs =
      { ssrc := b.ssrc
        padding := lastSome (fun | .padding v => some v | _ => none) cs b.padding
        ntp := lastSome (fun | .ntp v => some v | _ => none) cs b.ntp
        rtp := lastSome (fun | .rtp v => some v | _ => none) cs b.rtp
        packetCount := lastSome (fun | .packetCount v => some v | _ => none) cs b.packetCount
        octetCount := lastSome (fun | .octetCount v => some v | _ => none) cs b.octetCount
        reportBlocks := b.reportBlocks ++ cs.filterMap (fun | .addReportBlock rb => some rb | _ => none) } :=
  Proofs.sr_run b cs

theorem rr_run (b : RrBuilder) (cs : List RrCall) :
    b.run cs =
      { ssrc := b.ssrc
        padding := lastSome (fun | .padding v => some v | _ => none) cs b.padding
        reportBlocks := b.reportBlocks ++ cs.filterMap (fun | .addReportBlock rb => some rb | _ => none) } :=
  Proofs.rr_run b cs

/-! ## APP, BYE, unknown -/

theorem app_run (b : AppBuilder) (cs : List AppCall) :
    b.run cs =
      { ssrc := b.ssrc, name := b.name
        padding := lastSome (fun | .padding v => some v | _ => none) cs b.padding
        subtype := lastSome (fun | .subtype v => some v | _ => none) cs b.subtype
        data := lastSome (fun | .data v => some v | _ => none) cs b.data } :=
  Proofs.app_run b cs

/-- `reason` and `reason_owned` both set the reason (the later of the two wins); neither touches
    padding or the sources added before or after. -/
theorem bye_run (b : ByeBuilder) (cs : List ByeCall) :
    b.run cs =
      { padding := lastSome (fun | .padding v => some v | _ => none) cs b.padding
        sources := b.sources ++ cs.filterMap (fun | .addSource s => some s | _ => none)
        reason := lastSome (fun | .reason r => some r | .reasonOwned r => some r | _ => none) cs b.reason } :=
  Proofs.bye_run b cs

theorem unknown_run (b : UnknownBuilder) (cs : List UnknownCall) :
    b.run cs =
      { type := b.type, data := b.data
        padding := lastSome (fun | .padding v => some v | _ => none) cs b.padding
        count := lastSome (fun | .count v => some v | _ => none) cs b.count } :=
  Proofs.unknown_run b cs

/-! ## SDES -/

/-- `into_owned` is the identity on the configured content, so only `prefix` calls matter. -/
theorem item_run (b : SdesItemBuilder) (cs : List ItemCall) :
    b.run cs =
      { type := b.type, value := b.value
        prefix_ := lastSome (fun | .prefix_ p => some p | _ => none) cs b.prefix_ } :=
  Proofs.item_run b cs

/-- `add_item` and `add_item_owned` append the same item. -/
theorem chunk_run (b : SdesChunkBuilder) (cs : List ChunkCall) :
    b.run cs =
      { ssrc := b.ssrc
        items := b.items ++ cs.map (fun | .addItem it => it | .addItemOwned it => it) } :=
  Proofs.chunk_run b cs

theorem sdes_run (b : SdesBuilder) (cs : List SdesCall) :
    b.run cs =
      { padding := lastSome (fun | .padding v => some v | _ => none) cs b.padding
        chunks := b.chunks ++ cs.filterMap (fun | .addChunk c => some c | _ => none) } :=
  Proofs.sdes_run b cs

/-! ## feedback packets and FCI builders -/

theorem fb_run (b : FbBuilder) (cs : List FbCall) :
    b.run cs =
      { kind := b.kind, fci := b.fci
        padding := lastSome (fun | .padding v => some v | _ => none) cs b.padding
        senderSsrc := lastSome (fun | .senderSsrc v => some v | _ => none) cs b.senderSsrc
        mediaSsrc := lastSome (fun | .mediaSsrc v => some v | _ => none) cs b.mediaSsrc } :=
  Proofs.fb_run b cs

/-- `native_data` and `native_data_owned` both set the bit string with its overrun (later wins)
    and neither touches the payload type, set before or after. -/
theorem rpsi_run (b : RpsiBuilder) (cs : List RpsiCall) :
    b.run cs =
      { payloadType := lastSome (fun | .payloadType v => some v | _ => none) cs b.payloadType
        nativeBitString :=
          (lastSome (fun | .nativeData d k => some (d, k) | .nativeDataOwned d k => some (d, k) | _ => none) cs
            (b.nativeBitString, b.nativeBitOverrun)).1
        nativeBitOverrun :=
          (lastSome (fun | .nativeData d k => some (d, k) | .nativeDataOwned d k => some (d, k) | _ => none) cs
            (b.nativeBitString, b.nativeBitOverrun)).2 } :=
  Proofs.rpsi_run b cs

/-- NACK: after any sequence of `add_rtp_sequence` calls the set is strictly ascending and holds
    exactly the numbers that were added. -/
theorem nack_run (ss : List UInt16) :
    let b := NackBuilder.run {} ss
    b.rtpSeq.Pairwise (· < ·) ∧ ∀ x, x ∈ b.rtpSeq ↔ x ∈ ss :=
  Proofs.nack_run ss

/-- … hence the NACK builder is a function of the SET of added numbers: order and repetition of
    the calls are irrelevant. -/
theorem nack_run_same_set (ss ss' : List UInt16) (h : ∀ x, x ∈ ss ↔ x ∈ ss') :
    NackBuilder.run {} ss = NackBuilder.run {} ss' :=
  Proofs.nack_run_same_set ss ss' h

/-- FIR: one entry per distinct SSRC, carrying the sequence number of the last insertion of that
    SSRC.  (The model keeps the entries in order of first insertion; the crate keeps them in a hash
    map whose order is unspecified, C07 allows any order, and every comparison of FIR images is up to
    entry order: `fir_image_perm`.) -/
theorem fir_run (es : List (UInt32 × UInt8)) :
    (FirBuilder.run {} es).ssrcSeq =
      (es.map Prod.fst).eraseDups.map
        (fun k => (k, lastSome (fun e => if e.1 == k then some e.2 else none) es 0)) :=
  Proofs.fir_run es

theorem sli_run (b : SliBuilder) (es : List (UInt16 × UInt16 × UInt8)) :
    (b.run es).lostMbs = b.lostMbs ++ es.map (fun e => ⟨e.1, e.2.1, e.2.2⟩) :=
  Proofs.sli_run b es

/-! ## same configuration, same output

  The closed forms above mention the call sequence only through `lastSome` of each setter and the
  `filterMap` of each adder.  Two sequences that agree on those give the same builder, hence the
  same size, bytes or error from `write`.  One instance is spelled out per packet family. -/

theorem sr_same_summary (b : SrBuilder) (cs cs' : List SrCall)
    (hp : lastSome (fun | .padding v => some v | _ => none) cs b.padding
        = lastSome (fun | .padding v => some v | _ => none) cs' b.padding)
    (hn : lastSome (fun | .ntp v => some v | _ => none) cs b.ntp = lastSome (fun | .ntp v => some v | _ => none) cs' b.ntp)
    (hr : lastSome (fun | .rtp v => some v | _ => none) cs b.rtp = lastSome (fun | .rtp v => some v | _ => none) cs' b.rtp)
    (hc : lastSome (fun | .packetCount v => some v | _ => none) cs b.packetCount
        = lastSome (fun | .packetCount v => some v | _ => none) cs' b.packetCount)
    (ho : lastSome (fun | .octetCount v => some v | _ => none) cs b.octetCount
        = lastSome (fun | .octetCount v => some v | _ => none) cs' b.octetCount)
    (hb : cs.filterMap (fun | .addReportBlock rb => some rb | _ => none)
        = cs'.filterMap (fun | .addReportBlock rb => some rb | _ => none)) :
    b.run cs = b.run cs' ∧ (b.run cs).calcSize = (b.run cs').calcSize ∧
      ∀ buf, (b.run cs).toWriter.writeInto buf = (b.run cs').toWriter.writeInto buf :=
  Proofs.sr_same_summary b cs cs' hp hn hr hc ho hb

theorem bye_same_summary (b : ByeBuilder) (cs cs' : List ByeCall)
    (hp : lastSome (fun | .padding v => some v | _ => none) cs b.padding
        = lastSome (fun | .padding v => some v | _ => none) cs' b.padding)
    (hs : cs.filterMap (fun | .addSource s => some s | _ => none)
        = cs'.filterMap (fun | .addSource s => some s | _ => none))
    (hr : lastSome (fun | .reason r => some r | .reasonOwned r => some r | _ => none) cs b.reason
        = lastSome (fun | .reason r => some r | .reasonOwned r => some r | _ => none) cs' b.reason) :
    b.run cs = b.run cs' ∧ (b.run cs).calcSize = (b.run cs').calcSize ∧
      ∀ buf, (b.run cs).toWriter.writeInto buf = (b.run cs').toWriter.writeInto buf :=
  Proofs.bye_same_summary b cs cs' hp hs hr

/-- a scalar setter commutes with everything: moving a call of it to the END of the sequence
    changes nothing provided no later call of the same setter exists; stated for SR padding as the
    canonical instance of "interleaving does not matter". -/
theorem sr_padding_anywhere (b : SrBuilder) (pre post : List SrCall) (v : UInt8)
    (h : ∀ c ∈ post, ∀ w, c ≠ .padding w) :
    b.run (pre ++ .padding v :: post) = b.run (pre ++ post ++ [.padding v]) :=
  Proofs.sr_padding_anywhere b pre post v h

/-! ## non-vacuity: the closed forms on a concrete interleaved, repeated sequence -/

example :
    (SrBuilder.new 7).run [.padding 4, .rtp 1, .addReportBlock (.new 1), .padding 8, .ntp 5, .addReportBlock (.new 2), .rtp 9]
      = { ssrc := 7, padding := 8, ntp := 5, rtp := 9, reportBlocks := [.new 1, .new 2] } := by decide

example : (NackBuilder.run {} [5, 3, 5, 9, 3]).rtpSeq = [3, 5, 9] := by decide

example : (FirBuilder.run {} [(1, 10), (2, 20), (1, 11), (3, 30), (2, 21)]).ssrcSeq = [(1, 11), (2, 21), (3, 30)] := by decide

end Rtcp.Props
