/-
  C14, end to end, for compounds of built-in packet builders: ANY non-empty list of SR / RR / BYE /
  APP / SDES / transport- and payload-feedback builders (over the five built-in FCI builders) that
  the compound builder accepts
    * is written as exactly the concatenation of the members' RFC images, `n` bytes, the rest of the
      buffer untouched,
    * those bytes are accepted by `Compound::parse`,
    * every member image is accepted by the generic parser as the variant of that member, and
    * iterating yields one item per member, in order, each equal to the member parsed on its own.
  No hypothesis about sizes, padding or counts: acceptance by `calculate_size` is the only premise
  (plus what holds of every builder made through the public API: a NACK set is sorted; and C03's
  exclusion of SDES items of type 0).

  STATEMENTS ARE FIXED. Proofs live in Rtcp/Proofs/CompoundE2E.lean and are only cited here.
-/
import Rtcp.Props.Members
import Rtcp.Proofs.CompoundE2E

namespace Rtcp.Props
open Rtcp Rtcp.Impl Rtcp.Spec

/-- the writer contract for every built-in member -/
theorem member_refines (m : Member) (h : m.Inv) : Refines m.toWriter m.image := Proofs.member_refines m h

/-- an accepted member's image is a framed packet that the generic parser reads as that member's variant -/
theorem member_accepted (m : Member) (h : m.Inv) (k : Nat) (hk : m.toWriter.calcSize = .ok k) :
    Tile m.image ∧ ∃ p, Packet.parse m.image = .ok p ∧ p.kind? = some m.kind := Proofs.member_accepted m h k hk

theorem compound_end_to_end {ε : Type} (ms : List Member) (hne : ms ≠ []) (hinv : ∀ m ∈ ms, m.Inv) (n : Nat)
    (hs : CompoundBuilder.calcSize (ms.map Member.toWriter) = .ok n) (buf : Bytes) (hb : n ≤ buf.length)
    (fuel : Nat) (hf : ms.length < fuel) :
    (CompoundBuilder.toWriter (ms.map Member.toWriter)).writeInto buf
        = ((ms.map Member.image).flatten ++ buf.drop n, .ok n) ∧
    (ms.map Member.image).flatten.length = n ∧
    Compound.parse (ms.map Member.image).flatten = .ok ⟨(ms.map Member.image).flatten, 0, false⟩ ∧
    (∀ m ∈ ms, ∃ p, Packet.parse m.image = .ok p ∧ p.kind? = some m.kind) ∧
    ∃ items c', (Compound.collect fuel ⟨(ms.map Member.image).flatten, 0, false⟩ [] : R ε _) = .ok (items, true, c') ∧
      items.map (·.1) = ms.map (fun m => Packet.parse m.image) ∧ items.length = ms.length :=
  Proofs.compound_end_to_end ms hne hinv n hs buf hb fuel hf

/-- non-vacuity: an RR, an SDES with a CNAME, and a padded BYE with a reason are accepted as a compound
    of 8 + 16 + 16 bytes, and the hypotheses about the members hold -/
example :
    let ms : List Member :=
      [.rr { ssrc := 1 }, .sdes { chunks := [{ ssrc := 7, items := [{ type := 1, value := [0x61, 0x62] }] }] },
       .bye { padding := 4, sources := [9], reason := [0x62, 0x79, 0x65] }]
    CompoundBuilder.calcSize (ms.map Member.toWriter) = .ok 40 ∧ ms ≠ [] ∧ ∀ m ∈ ms, m.Inv := by
  refine ⟨by decide, by decide, ?_⟩
  intro m hm
  simp only [List.mem_cons, List.not_mem_nil, or_false] at hm
  rcases hm with rfl | rfl | rfl
  · trivial
  · intro c hc it hit
    simp only [List.mem_cons, List.not_mem_nil, or_false] at hc
    subst hc
    simp only [List.mem_cons, List.not_mem_nil, or_false] at hit
    subst hit
    decide
  · trivial

end Rtcp.Props
