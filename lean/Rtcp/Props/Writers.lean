/-
  Writer refinement (DESIGN §3.2): every built-in builder satisfies the writer contract with its
  RFC image `Spec.*Image` (C06, C07, C17, and the build half of the round trips), plus the public
  writer helpers of utils.rs for all parameters (C19).

  STATEMENTS ARE FIXED. Proofs live in Rtcp/Proofs/*.lean and are only cited here.
-/
import Rtcp.Props.WriterContract
import Rtcp.Spec.All
import Rtcp.Proofs.WritersFixed
import Rtcp.Proofs.WritersVar

namespace Rtcp.Props
open Rtcp Rtcp.Impl Rtcp.Spec

/-! ## utils::writer helpers, for all parameters (C19) -/

/-- `write_header_unchecked`: any buffer of at least 4 bytes, any count up to 31. -/
theorem writeHeader_spec {ε : Type} (pt padding count : UInt8) (buf : Bytes)
    (h4 : 4 ≤ buf.length) (hc : count.toNat ≤ 31) :
    (writeHeader pt padding count buf : R ε Bytes)
      = .ok (Spec.header pt (padding != 0) count.toNat buf.length ++ buf.drop 4) :=
  Proofs.writeHeader_spec pt padding count buf h4 hc

/-- `write_header_unchecked` panics exactly on buffers shorter than 4 bytes. -/
theorem writeHeader_panic_iff {ε : Type} (pt padding count : UInt8) (buf : Bytes) :
    (writeHeader pt padding count buf : R ε Bytes) = .panic ↔ buf.length < 4 :=
  Proofs.writeHeader_panic_iff pt padding count buf

/-- `write_padding_unchecked`: writes the RFC trailer at the start of `buf`, returns its size. -/
theorem writePadding_spec {ε : Type} (padding : UInt8) (buf : Bytes) (h : padding.toNat ≤ buf.length) :
    (writePadding padding buf : R ε (Bytes × Nat))
      = .ok (Spec.trailer padding ++ buf.drop padding.toNat, padding.toNat) :=
  Proofs.writePadding_spec padding buf h

/-- `check_padding` accepts exactly the multiples of 4. -/
theorem checkPadding_ok_iff (p : UInt8) : checkPadding p = .ok () ↔ p.toNat % 4 = 0 :=
  Proofs.checkPadding_ok_iff p

/-! ## fixed-layout builders -/

theorem rb_refines (b : ReportBlockBuilder) :
    Refines ⟨b.calcSize, b.writeUnchecked, none⟩ (rbImage b) := Proofs.rb_refines b

theorem sr_refines (b : SrBuilder) : Refines b.toWriter (srImage b) := Proofs.sr_refines b
theorem rr_refines (b : RrBuilder) : Refines b.toWriter (rrImage b) := Proofs.rr_refines b
theorem app_refines (b : AppBuilder) : Refines b.toWriter (appImage b) := Proofs.app_refines b
theorem bye_refines (b : ByeBuilder) : Refines b.toWriter (byeImage b) := Proofs.bye_refines b
theorem unknown_refines (b : UnknownBuilder) : Refines b.toWriter (unknownImage b) := Proofs.unknown_refines b

/-- the third-party family, built only from the public helpers -/
theorem custom_refines (b : CustomBuilder) : Refines b.toWriter (customImage b) := Proofs.custom_refines b

/-! ## variable-layout builders -/

theorem item_refines (b : SdesItemBuilder) :
    Refines ⟨b.calcSize, b.writeUnchecked, none⟩ (itemImage b) := Proofs.item_refines b

theorem chunk_refines (b : SdesChunkBuilder) :
    Refines ⟨b.calcSize, b.writeUnchecked, none⟩ (chunkImage b) := Proofs.chunk_refines b

theorem sdes_refines (b : SdesBuilder) : Refines b.toWriter (sdesImage b) := Proofs.sdes_refines b

/-- the NACK set is a strictly ascending list (the `BTreeSet` invariant) -/
def NackSorted (b : NackBuilder) : Prop := b.rtpSeq.Pairwise (· < ·)

theorem nack_sorted_empty : NackSorted {} := by simp [NackSorted]
theorem nack_sorted_add (b : NackBuilder) (s : UInt16) (h : NackSorted b) : NackSorted (b.addRtpSequence s) :=
  Proofs.nack_sorted_add b s h

theorem nack_refines (b : NackBuilder) (h : NackSorted b) : Refines b.toFci.w (nackImage b) := Proofs.nack_refines b h
theorem fir_refines (b : FirBuilder) : Refines b.toFci.w (firImage b) := Proofs.fir_refines b
theorem sli_refines (b : SliBuilder) : Refines b.toFci.w (sliImage b) := Proofs.sli_refines b
theorem rpsi_refines (b : RpsiBuilder) : Refines b.toFci.w (rpsiImage b) := Proofs.rpsi_refines b
theorem pli_refines : Refines pliFci.w [] := Proofs.pli_refines

/-- the invariant of the built-in FCI builders -/
def FciOk (f : FciB) : Prop :=
  match f with
  | .nack b => b.rtpSeq.Pairwise (· < ·)
  | _ => True

/-- every feedback builder × FCI builder pairing, both kinds (wrong-kind pairings fail in
    `calcSize`, so the contract holds vacuously for them) -/
theorem fb_refines (k : FbKind) (f : FciB) (hf : FciOk f) (p : UInt8) (s m : UInt32) :
    Refines (FbBuilder.toWriter ⟨k, f.toFci, p, s, m⟩) (fbImage k f p s m) := Proofs.fb_refines k f hf p s m

/-! ## compound -/

/-- members, each with its image -/
def AllRefine (ms : List Writer) (imgs : List Bytes) : Prop :=
  ms.length = imgs.length ∧ ∀ i (h1 : i < ms.length) (h2 : i < imgs.length), Refines ms[i] imgs[i]

/-- C14 (bytes): a compound of well-behaved members writes the concatenation of their images -/
theorem compound_refines (ms : List Writer) (imgs : List Bytes) (h : AllRefine ms imgs) :
    Refines (CompoundBuilder.toWriter ms) imgs.flatten := Proofs.compound_refines ms imgs h

/-- C14 (size): the size is the sum of the members' sizes -/
theorem compound_size_sum (ms : List Writer) (n : Nat) (h : CompoundBuilder.calcSize ms = .ok n) :
    ∃ sizes : List Nat, sizes.length = ms.length ∧ sizes.sum = n ∧
      ∀ i (hi : i < ms.length), ms[i].calcSize = .ok (sizes.getD i 0) := Proofs.compound_size_sum ms n h

/-- C14/C16 (acceptance): building succeeds exactly when every member is valid and no member
    other than the last requests padding -/
theorem compound_accept_iff (ms : List Writer) (hnp : ∀ m ∈ ms, m.calcSize ≠ .panic) :
    (∃ n, CompoundBuilder.calcSize ms = .ok n) ↔
      (∀ m ∈ ms, ∃ k, m.calcSize = .ok k) ∧
      (∀ i (hi : i < ms.length), i + 1 < ms.length → (ms[i].getPadding.getD 0) = 0) :=
  Proofs.compound_accept_iff ms hnp

end Rtcp.Props
