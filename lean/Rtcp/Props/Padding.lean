/-
  C13: trailing padding is transparent to packet contents.  For every packet a typed parser
  accepts without padding and every legal padding amount n ∈ {4, 8, …, 252} that still fits the
  16-bit length field, the packet with RFC 3550 padding added (`Spec.addPadding`) is accepted by
  the same parser, its padding accessor reports n, and every content accessor returns exactly
  what it returns for the unpadded packet (slices: same offset, same bytes).

  STATEMENTS ARE FIXED. Proofs live in Rtcp/Proofs/*.lean and are only cited here.
-/
import Rtcp.Spec.All
import Rtcp.Proofs.Padding

namespace Rtcp.Props
open Rtcp Rtcp.Impl Rtcp.Spec


/-- what `addPadding` does to the bytes: the first four octets change (P bit, length field), the
    body is kept, n-1 zero octets and the count are appended -/
theorem addPadding_shape (p : Bytes) (n : Nat) (h4 : 4 ≤ p.length) (hn : PadOk p n) :
    (addPadding p n).length = p.length + n ∧
    (addPadding p n).drop 4 = p.drop 4 ++ List.replicate (n - 1) 0 ++ [n.toUInt8] ∧
    pbit (addPadding p n) = true ∧ lastByte (addPadding p n) = n.toUInt8 ∧
    count (addPadding p n) = count p ∧ version (addPadding p n) = version p ∧
    ptype (addPadding p n) = ptype p ∧
    (lengthField p = p.length → lengthField (addPadding p n) = p.length + n) :=
  Proofs.addPadding_shape p n h4 hn

theorem sr_pad_transparent {ε : Type} (p : Bytes) (n : Nat) (h : Sr.parse p = .ok p) (hn : PadOk p n) :
    let q := addPadding p n
    Sr.parse q = .ok q ∧ (Sr.padding q : R ε (Option UInt8)) = .ok (some n.toUInt8) ∧
    (Sr.ssrc q : R ε UInt32) = Sr.ssrc p ∧ (Sr.ntp q : R ε UInt64) = Sr.ntp p ∧
    (Sr.rtp q : R ε UInt32) = Sr.rtp p ∧ (Sr.packetCount q : R ε UInt32) = Sr.packetCount p ∧
    (Sr.octetCount q : R ε UInt32) = Sr.octetCount p ∧ (Sr.nReports q : R ε UInt8) = Sr.nReports p ∧
    (Sr.reportBlocks q : R ε (List Bytes)) = Sr.reportBlocks p := Proofs.sr_pad_transparent p n h hn

theorem rr_pad_transparent {ε : Type} (p : Bytes) (n : Nat) (h : Rr.parse p = .ok p) (hn : PadOk p n) :
    let q := addPadding p n
    Rr.parse q = .ok q ∧ (Rr.padding q : R ε (Option UInt8)) = .ok (some n.toUInt8) ∧
    (Rr.ssrc q : R ε UInt32) = Rr.ssrc p ∧ (Rr.nReports q : R ε UInt8) = Rr.nReports p ∧
    (Rr.reportBlocks q : R ε (List Bytes)) = Rr.reportBlocks p := Proofs.rr_pad_transparent p n h hn

theorem bye_pad_transparent {ε : Type} (p : Bytes) (n : Nat) (h : Bye.parse p = .ok p) (hn : PadOk p n) :
    let q := addPadding p n
    Bye.parse q = .ok q ∧ (Bye.padding q : R ε (Option UInt8)) = .ok (some n.toUInt8) ∧
    (Bye.ssrcs q : R ε (List UInt32)) = Bye.ssrcs p ∧
    (Bye.reason q : R ε (Option Slice)) = Bye.reason p := Proofs.bye_pad_transparent p n h hn

theorem app_pad_transparent {ε : Type} (p : Bytes) (n : Nat) (h : App.parse p = .ok p) (hn : PadOk p n) :
    let q := addPadding p n
    App.parse q = .ok q ∧ (App.padding q : R ε (Option UInt8)) = .ok (some n.toUInt8) ∧
    (App.ssrc q : R ε UInt32) = App.ssrc p ∧ (hCount q : R ε UInt8) = hCount p ∧
    (App.name q : R ε Bytes) = App.name p ∧ (App.data q : R ε Slice) = App.data p :=
  Proofs.app_pad_transparent p n h hn

/-- feedback packets: both SSRCs, the format, and for every FCI type the very same FCI bytes are
    handed to the FCI parser (so every decoded entry list is the same) -/
theorem fb_pad_transparent {ε : Type} (k : FbKind) (p : Bytes) (n : Nat) (h : Fb.parse k p = .ok p)
    (hn : PadOk p n) :
    let q := addPadding p n
    Fb.parse k q = .ok q ∧ (Fb.padding q : R ε (Option UInt8)) = .ok (some n.toUInt8) ∧
    (Fb.senderSsrc q : R ε UInt32) = Fb.senderSsrc p ∧ (Fb.mediaSsrc q : R ε UInt32) = Fb.mediaSsrc p ∧
    (hCount q : R ε UInt8) = hCount p ∧
    (∀ f : Fb.FciType, Fb.parseFci k f q = Fb.parseFci k f p) := Proofs.fb_pad_transparent k p n h hn

/-- SDES: the same chunks and items (same offsets, same bytes) -/
theorem sdes_pad_transparent {ε : Type} (p : Bytes) (n : Nat) (v : Sdes) (h : Sdes.parse p = .ok v)
    (hn : PadOk p n) :
    let q := addPadding p n
    ∃ v', Sdes.parse q = .ok v' ∧ v'.data = q ∧ v'.chunks = v.chunks ∧
      (Sdes.padding v' : R ε (Option UInt8)) = .ok (some n.toUInt8) := Proofs.sdes_pad_transparent p n v h hn

/-- the third-party family -/
theorem custom_pad_transparent {ε : Type} (pt : UInt8) (min : Nat) (h4 : 4 ≤ min) (p : Bytes) (n : Nat)
    (h : Custom.parse pt min p = .ok p) (hn : PadOk p n) :
    let q := addPadding p n
    Custom.parse pt min q = .ok q ∧ (Custom.padding q : R ε (Option UInt8)) = .ok (some n.toUInt8) ∧
    (Custom.body q : R ε Slice) = Custom.body p := Proofs.custom_pad_transparent pt min h4 p n h hn

/-- the hypotheses are satisfiable: a BYE with one source and a reason, padded by 8 -/
example : Bye.parse [0x81, 203, 0, 3, 0, 0, 0, 7, 2, 0x61, 0x62, 0, 0, 0, 0, 0] =
      .ok [0x81, 203, 0, 3, 0, 0, 0, 7, 2, 0x61, 0x62, 0, 0, 0, 0, 0] ∧
    PadOk [0x81, 203, 0, 3, 0, 0, 0, 7, 2, 0x61, 0x62, 0, 0, 0, 0, 0] 8 := by decide

end Rtcp.Props
