/-
  C01: parsing untrusted bytes never panics and always terminates — the summary theorems.
  For every byte string each parsing entry point returns a value or an error (never `panic`); on
  every value every accessor, conversion and iterator returns normally; every iterator finishes
  within a number of steps bounded by the input length (the `Bool` returned by the `entries` /
  `collect` drivers is "finished before the fuel ran out", the fuel being linear in the length).

  Termination of the parsers themselves is the well-founded recursion Lean accepted for the
  model's loops (Rtcp/Impl/Sdes.lean, Rtcp/Impl/Compound.lean).

  STATEMENTS ARE FIXED. Proofs live in Rtcp/Proofs/*.lean and are only cited here.
-/
import Rtcp.Spec.All
import Rtcp.Proofs.Total

namespace Rtcp.Props
open Rtcp Rtcp.Impl Rtcp.Spec

/-- every parsing entry point, every byte string -/
theorem entry_points_total (bs : Bytes) :
    Compound.parse bs ≠ .panic ∧ Packet.parse bs ≠ .panic ∧
    (∀ k : Kind, k.parse bs ≠ .panic) ∧ Unknown.parse bs ≠ .panic ∧ ReportBlock.parse bs ≠ .panic ∧
    (∀ f : Fb.FciType, f.parse bs ≠ .panic) ∧
    (∀ (pt : UInt8) (min : Nat), 4 ≤ min → Custom.parse pt min bs ≠ .panic) := Proofs.entry_points_total bs

/-- `parse_fci::<F>` on an accepted feedback packet, for both kinds and all five FCI types -/
theorem parseFci_total (k : FbKind) (f : Fb.FciType) (d : Bytes) (h : Fb.parse k d = .ok d) :
    Fb.parseFci k f d ≠ .panic := Proofs.parseFci_total k f d h

/-- header accessors of `RtcpPacketParserExt` on anything any typed / generic / unknown parser accepted -/
theorem header_accessors_total {ε : Type} (bs : Bytes) (p : Packet) (h : Packet.parse bs = .ok p) :
    (hVersion bs : R ε UInt8) ≠ .panic ∧ (hType bs : R ε UInt8) ≠ .panic ∧
    (hCount bs : R ε UInt8) ≠ .panic ∧ (hLength bs : R ε Nat) ≠ .panic := Proofs.header_accessors_total bs p h

/-- the content accessors of each fixed-layout view -/
theorem sr_accessors_total {ε : Type} (bs : Bytes) (h : Sr.parse bs = .ok bs) :
    (Sr.ssrc bs : R ε UInt32) ≠ .panic ∧ (Sr.ntp bs : R ε UInt64) ≠ .panic ∧ (Sr.rtp bs : R ε UInt32) ≠ .panic ∧
    (Sr.packetCount bs : R ε UInt32) ≠ .panic ∧ (Sr.octetCount bs : R ε UInt32) ≠ .panic ∧
    (Sr.nReports bs : R ε UInt8) ≠ .panic ∧ (Sr.padding bs : R ε (Option UInt8)) ≠ .panic ∧
    (∃ rbs, (Sr.reportBlocks bs : R ε (List Bytes)) = .ok rbs ∧ rbs.length ≤ 31 ∧ ∀ rb ∈ rbs, rb.length = 24) :=
  Proofs.sr_accessors_total bs h

theorem rr_accessors_total {ε : Type} (bs : Bytes) (h : Rr.parse bs = .ok bs) :
    (Rr.ssrc bs : R ε UInt32) ≠ .panic ∧ (Rr.nReports bs : R ε UInt8) ≠ .panic ∧
    (Rr.padding bs : R ε (Option UInt8)) ≠ .panic ∧
    (∃ rbs, (Rr.reportBlocks bs : R ε (List Bytes)) = .ok rbs ∧ rbs.length ≤ 31 ∧ ∀ rb ∈ rbs, rb.length = 24) :=
  Proofs.rr_accessors_total bs h

/-- every accessor of a report block view (24 bytes, as parsed directly or yielded by SR / RR) -/
theorem rb_accessors_total {ε : Type} (bs : Bytes) (h : bs.length = 24) :
    (ReportBlock.ssrc bs : R ε UInt32) ≠ .panic ∧ (ReportBlock.fractionLost bs : R ε UInt8) ≠ .panic ∧
    (ReportBlock.cumulativeLost bs : R ε UInt32) ≠ .panic ∧
    (ReportBlock.extendedSequenceNumber bs : R ε UInt32) ≠ .panic ∧
    (ReportBlock.interarrivalJitter bs : R ε UInt32) ≠ .panic ∧
    (ReportBlock.lastSenderReportTimestamp bs : R ε UInt32) ≠ .panic ∧
    (ReportBlock.delaySinceLastSenderReportTimestamp bs : R ε UInt32) ≠ .panic := Proofs.rb_accessors_total bs h

theorem app_accessors_total {ε : Type} (bs : Bytes) (h : App.parse bs = .ok bs) :
    (App.ssrc bs : R ε UInt32) ≠ .panic ∧ (App.name bs : R ε Bytes) ≠ .panic ∧
    (App.padding bs : R ε (Option UInt8)) ≠ .panic ∧ (App.data bs : R ε Slice) ≠ .panic :=
  Proofs.app_accessors_total bs h

theorem bye_accessors_total {ε : Type} (bs : Bytes) (h : Bye.parse bs = .ok bs) :
    (∃ l, (Bye.ssrcs bs : R ε (List UInt32)) = .ok l ∧ l.length ≤ 31) ∧
    (Bye.padding bs : R ε (Option UInt8)) ≠ .panic ∧ (Bye.reason bs : R ε (Option Slice)) ≠ .panic :=
  Proofs.bye_accessors_total bs h

theorem fb_accessors_total {ε : Type} (k : FbKind) (bs : Bytes) (h : Fb.parse k bs = .ok bs) :
    (Fb.senderSsrc bs : R ε UInt32) ≠ .panic ∧ (Fb.mediaSsrc bs : R ε UInt32) ≠ .panic ∧
    (Fb.padding bs : R ε (Option UInt8)) ≠ .panic := Proofs.fb_accessors_total k bs h

/-- SDES: every accessor of every chunk and item of an accepted packet; the only exempt calls are
    the PRIV-prefix accessors on a non-PRIV item (documented panic precondition) -/
theorem sdes_accessors_total {ε : Type} (bs : Bytes) (v : Sdes) (h : Sdes.parse bs = .ok v) :
    (Sdes.padding v : R ε (Option UInt8)) ≠ .panic ∧
    ∀ c ∈ v.chunks, (c.length : R ε Nat) ≠ .panic ∧
      ∀ it ∈ c.items, (it.type : R ε UInt8) ≠ .panic ∧ (it.length : R ε Nat) ≠ .panic ∧
        (it.value : R ε Slice) ≠ .panic ∧
        ((it.type : R ε UInt8) = .ok 8 →
          (it.privPrefixLen : R ε UInt8) ≠ .panic ∧ (it.privPrefix : R ε Slice) ≠ .panic) :=
  Proofs.sdes_accessors_total bs v h

/-- the FCI iterators run to completion within their length-linear fuel on every byte string -/
theorem fci_iterators_finish {ε : Type} (d : Bytes) :
    (∃ l, (Nack.entries d : R ε (List UInt16 × Bool)) = .ok (l, true) ∧ l.length ≤ 17 * (d.length / 4)) ∧
    (∃ l, (Fir.entries d : R ε (List (UInt32 × UInt8) × Bool)) = .ok (l, true) ∧ 8 * l.length ≤ d.length) ∧
    (∃ l, (Sli.lostMacroblocks d : R ε (List MacroBlockEntry × Bool)) = .ok (l, true) ∧ 4 * l.length ≤ d.length) :=
  Proofs.fci_iterators_finish d

theorem rpsi_accessors_total {ε : Type} (d : Bytes) (h : Rpsi.parse d = .ok d) :
    (Rpsi.payloadType d : R ε UInt8) ≠ .panic ∧ (Rpsi.bitString 0 d : R ε (Slice × Nat)) ≠ .panic :=
  Proofs.rpsi_accessors_total d h

/-- conversions of a parsed packet to any typed view -/
theorem tryAs_total (bs : Bytes) (p : Packet) (k : Kind) (h : Packet.parse bs = .ok p) :
    p.tryAs k ≠ .panic := Proofs.tryAs_total bs p k h

/-- the compound iterator: on every accepted datagram it finishes after at most one step per
    32-bit word (plus the final `None`), never panics, and stays finished -/
theorem compound_iterator_total {ε : Type} (bs : Bytes) (c : Compound) (h : Compound.parse bs = .ok c) :
    ∃ items c', (Compound.collect (bs.length / 4 + 2) c [] : R ε _) = .ok (items, true, c') ∧
      4 * items.length ≤ bs.length ∧ c'.isOver = true ∧ (Compound.next c' : R ε _) = .ok (none, c') :=
  Proofs.compound_iterator_total bs c h

end Rtcp.Props
