/-
  Vocabulary of the nested-compound theorem (Props/NestedE2E.lean): a compound member is a built-in
  packet builder (`leaf`) or again a compound (`node`); the writer of a node is the compound writer
  over its members' writers; its leaves are the packets it contributes, in order.  Definitions only.
-/
import Rtcp.Props.Members

namespace Rtcp.Props
open Rtcp Rtcp.Impl Rtcp.Spec

inductive Tree where
  | leaf (m : Member)
  | node (ts : List Tree)

mutual
def Tree.toWriter : Tree → Writer
  | .leaf m => m.toWriter
  | .node ts => CompoundBuilder.toWriter (Tree.toWriters ts)
def Tree.toWriters : List Tree → List Writer
  | [] => []
  | t :: ts => t.toWriter :: Tree.toWriters ts
end

mutual
def Tree.leaves : Tree → List Member
  | .leaf m => [m]
  | .node ts => Tree.leavesL ts
def Tree.leavesL : List Tree → List Member
  | [] => []
  | t :: ts => t.leaves ++ Tree.leavesL ts
end

/-- the bytes a tree stands for: the RFC images of its leaves, concatenated -/
def Tree.image (t : Tree) : Bytes := (t.leaves.map Member.image).flatten

end Rtcp.Props
