/-
  C14 (parse back): the bytes of a non-empty compound — the concatenation of its members' images
  (`compound_refines`, Props/Writers.lean) — are accepted by `Compound::parse`, and iterating them
  yields one packet per member, in order, each equal to the member parsed on its own.  Holds for
  every list of member images that are framed packets; the image of every built-in builder (and of
  the third-party family) is one, so it holds for every compound of built-in members, nested
  compounds contributing their own members (`List.flatten` of the leaf images).

  STATEMENTS ARE FIXED. Proofs live in Rtcp/Proofs/*.lean and are only cited here.
-/
import Rtcp.Spec.All
import Rtcp.Proofs.Compose

namespace Rtcp.Props
open Rtcp Rtcp.Impl Rtcp.Spec


/-- the concatenation of tiles tiles back into exactly those tiles -/
theorem tiling_flatten (imgs : List Bytes) (h : ∀ t ∈ imgs, Tile t) :
    tiling imgs.flatten = some imgs := Proofs.tiling_flatten imgs h

/-- never more tiles than 32-bit words: the bound on the number of iterator steps (C01) -/
theorem tiling_length_le (bs : Bytes) (ts : List Bytes) (h : tiling bs = some ts) :
    4 * ts.length ≤ bs.length := Proofs.tiling_length_le bs ts h

/-- parse back: accepted, and iteration yields exactly `Packet::parse` of each member image, in
    order, up to and including the first one that fails -/
theorem compound_parse_back {ε : Type} (imgs : List Bytes) (hne : imgs ≠ []) (h : ∀ t ∈ imgs, Tile t)
    (hnp : ∀ t ∈ imgs, Packet.parse t ≠ .panic) (fuel : Nat) (hf : imgs.length < fuel) :
    Compound.parse imgs.flatten = .ok ⟨imgs.flatten, 0, false⟩ ∧
    ∃ items c', (Compound.collect fuel ⟨imgs.flatten, 0, false⟩ [] : R ε _) = .ok (items, true, c') ∧
      items.map (·.1) = throughFirstErr (imgs.map Packet.parse) ∧ c'.isOver = true :=
  Proofs.compound_parse_back imgs hne h hnp fuel hf

/-- when every member parses on its own: one packet per member, each equal to the member parsed alone,
    at the offset where the member's image starts -/
theorem compound_parse_back_all {ε : Type} (imgs : List Bytes) (hne : imgs ≠ []) (h : ∀ t ∈ imgs, Tile t)
    (hok : ∀ t ∈ imgs, ∃ p, Packet.parse t = .ok p) (fuel : Nat) (hf : imgs.length < fuel) :
    ∃ items c', (Compound.collect fuel ⟨imgs.flatten, 0, false⟩ [] : R ε _) = .ok (items, true, c') ∧
      items.map (·.1) = imgs.map Packet.parse ∧ items.length = imgs.length :=
  Proofs.compound_parse_back_all imgs hne h hok fuel hf

/-! every built-in image is a tile that the generic parser accepts as the right variant -/

theorem sr_image_tile (b : SrBuilder) (h : srRules b = []) :
    Tile (srImage b) ∧ Packet.parse (srImage b) = .ok (.sr (srImage b)) := Proofs.sr_image_tile b h
theorem rr_image_tile (b : RrBuilder) (h : rrRules b = []) :
    Tile (rrImage b) ∧ Packet.parse (rrImage b) = .ok (.rr (rrImage b)) := Proofs.rr_image_tile b h
theorem bye_image_tile (b : ByeBuilder) (h : byeRules b = []) :
    Tile (byeImage b) ∧ Packet.parse (byeImage b) = .ok (.bye (byeImage b)) := Proofs.bye_image_tile b h
theorem app_image_tile (b : AppBuilder) (h : appRules b = []) :
    Tile (appImage b) ∧ Packet.parse (appImage b) = .ok (.app (appImage b)) := Proofs.app_image_tile b h
theorem sdes_image_tile (b : SdesBuilder) (h : sdesRules b = [])
    (hz : ∀ c ∈ b.chunks, ∀ it ∈ c.items, it.type ≠ 0) :
    Tile (sdesImage b) ∧ ∃ v, Packet.parse (sdesImage b) = .ok (.sdes v) ∧ v.data = sdesImage b :=
  Proofs.sdes_image_tile b h hz
theorem fb_image_tile (k : FbKind) (f : FciB) (p : UInt8) (s m : UInt32) (h : fbRules k f p = []) :
    Tile (fbImage k f p s m) ∧
    Packet.parse (fbImage k f p s m) =
      .ok (match k with | .transport => .tfb (fbImage k f p s m) | .payload => .pfb (fbImage k f p s m)) :=
  Proofs.fb_image_tile k f p s m h
theorem unknown_image_tile (b : UnknownBuilder) (h : unknownRules b = []) :
    Tile (unknownImage b) := Proofs.unknown_image_tile b h
theorem custom_image_tile (b : CustomBuilder) (h : customRules b = []) (h4 : 4 ≤ b.min) (hm : b.min % 4 = 0)
    (hs : b.bodyEnd + b.padding.toNat ≤ 262144) : Tile (customImage b) := Proofs.custom_image_tile b h h4 hm hs

/-- non-vacuity: RR (empty) followed by a BYE with one source -/
example : Tile [0x80, 201, 0, 1, 0, 0, 0, 1] ∧ Tile [0x81, 203, 0, 1, 0, 0, 0, 1] := by decide

end Rtcp.Props
