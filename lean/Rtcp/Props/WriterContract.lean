/-
  The writer contract and what follows from it for `write_into` (lib.rs:85-92).

  `Refines w img`: whenever size calculation succeeds with `n`, the image has exactly `n` bytes and
  the unchecked writer turns *any* `n`-byte buffer into exactly the image, returning `n`; and size
  calculation never panics.  Every built-in builder is proved to satisfy it (Props/Writers*.lean);
  for third-party writers it is the documented trait contract, assumed.

  From it: C06 (announced = written, never panics, short buffer ⇒ OutputTooSmall n, size error ⇒
  same error), C07 (bytes written = image), C17 (independent of previous contents, nothing beyond
  n touched, failed write touches nothing).
-/
import Rtcp.Impl.Compound

namespace Rtcp.Props
open Rtcp Rtcp.Impl

structure Refines (w : Writer) (img : Bytes) : Prop where
  noPanic : w.calcSize ≠ .panic
  exact : ∀ n, w.calcSize = .ok n → img.length = n ∧ ∀ buf : Bytes, buf.length = n → w.write buf = .ok (img, n)

variable {w : Writer} {img : Bytes}

/-- C06/C07/C17: enough room ⇒ returns `n`, the first `n` bytes are the image, the rest is untouched. -/
theorem writeInto_ok (hw : Refines w img) {n : Nat} (hs : w.calcSize = .ok n) (buf : Bytes)
    (hb : n ≤ buf.length) : w.writeInto buf = (img ++ buf.drop n, .ok n) := by
  unfold Writer.writeInto Impl.writeInto
  have ⟨_, hwr⟩ := hw.exact n hs
  have hlen : (buf.take n).length = n := by simp [List.length_take]; omega
  simp only [hs]
  have : ¬ buf.length < n := by omega
  simp only [this, ↓reduceIte, hwr _ hlen]

/-- C06: a shorter buffer ⇒ `OutputTooSmall n`; C17: and the buffer is unchanged. -/
theorem writeInto_short {n : Nat} (hs : w.calcSize = .ok n) (buf : Bytes) (hb : buf.length < n) :
    w.writeInto buf = (buf, .err (.outputTooSmall n)) := by
  unfold Writer.writeInto Impl.writeInto
  simp only [hs, hb, ↓reduceIte]

/-- C06: size calculation fails ⇒ writing fails with the same error; C17: buffer unchanged. -/
theorem writeInto_err {e : WriteError} (hs : w.calcSize = .err e) (buf : Bytes) :
    w.writeInto buf = (buf, .err e) := by
  unfold Writer.writeInto Impl.writeInto
  simp only [hs]

/-- C06: writing never panics. -/
theorem writeInto_no_panic (hw : Refines w img) (buf : Bytes) : (w.writeInto buf).2 ≠ .panic := by
  cases hs : w.calcSize with
  | ok n =>
    by_cases hb : n ≤ buf.length
    · rw [writeInto_ok hw hs buf hb]; simp
    · rw [writeInto_short hs buf (by omega)]; simp
  | err e => rw [writeInto_err hs]; simp
  | panic => exact absurd hs hw.noPanic

/-- C07: the `n` bytes reported as written are the image. -/
theorem written_eq_image (hw : Refines w img) {n : Nat} (hs : w.calcSize = .ok n) (buf : Bytes)
    (hb : n ≤ buf.length) : ((w.writeInto buf).1).take n = img := by
  have ⟨hl, _⟩ := hw.exact n hs
  rw [writeInto_ok hw hs buf hb]
  simp [List.take_append, hl]

/-- C17: the bytes written do not depend on the previous contents of the buffer. -/
theorem prefill_independent (hw : Refines w img) {n : Nat} (hs : w.calcSize = .ok n) (buf₁ buf₂ : Bytes)
    (h₁ : n ≤ buf₁.length) (h₂ : n ≤ buf₂.length) :
    ((w.writeInto buf₁).1).take n = ((w.writeInto buf₂).1).take n := by
  rw [written_eq_image hw hs buf₁ h₁, written_eq_image hw hs buf₂ h₂]

/-- C17: bytes beyond `n` are left unchanged. -/
theorem tail_untouched (hw : Refines w img) {n : Nat} (hs : w.calcSize = .ok n) (buf : Bytes)
    (hb : n ≤ buf.length) : ((w.writeInto buf).1).drop n = buf.drop n := by
  have ⟨hl, _⟩ := hw.exact n hs
  rw [writeInto_ok hw hs buf hb]
  simp [List.drop_append, hl]

/-- C17: a write that fails leaves the whole buffer unchanged. -/
theorem failed_write_untouched (hw : Refines w img) (buf : Bytes) {e : WriteError}
    (h : (w.writeInto buf).2 = .err e) : (w.writeInto buf).1 = buf := by
  cases hs : w.calcSize with
  | ok n =>
    by_cases hb : n ≤ buf.length
    · rw [writeInto_ok hw hs buf hb] at h; simp at h
    · rw [writeInto_short hs buf (by omega)]
  | err e' => rw [writeInto_err hs]
  | panic => exact absurd hs hw.noPanic

/-- C17 (the `rewrite_same` observation): writing the same packet again into the same buffer, after
    the caller changed any of the `n` bytes it had received, gives the same buffer and the same
    result: nothing of what a buffer held survives in the bytes written, and no write depends on
    an earlier one. -/
theorem write_again (hw : Refines w img) {n : Nat} (hs : w.calcSize = .ok n) (buf buf' : Bytes)
    (hb : n ≤ buf.length) (hl : buf'.length = buf.length) (hd : buf'.drop n = buf.drop n) :
    w.writeInto buf' = w.writeInto buf := by
  rw [writeInto_ok hw hs buf hb, writeInto_ok hw hs buf' (by omega), hd]

/-- the `interleave` observation: once the size is known to be `n`, the unchecked writer fills a
    buffer of exactly `n` bytes with the image, whatever was sized or written in between. -/
theorem write_unchecked_exact (hw : Refines w img) {n : Nat} (hs : w.calcSize = .ok n) (buf : Bytes)
    (hb : buf.length = n) : w.write buf = .ok (img, n) := (hw.exact n hs).2 buf hb

/-- C06: the buffer keeps its length. -/
theorem length_preserved (hw : Refines w img) (buf : Bytes) : ((w.writeInto buf).1).length = buf.length := by
  cases hs : w.calcSize with
  | ok n =>
    by_cases hb : n ≤ buf.length
    · have ⟨hl, _⟩ := hw.exact n hs
      rw [writeInto_ok hw hs buf hb]; simp [hl]; omega
    · rw [writeInto_short hs buf (by omega)]
  | err e' => rw [writeInto_err hs]
  | panic => exact absurd hs hw.noPanic

end Rtcp.Props
