/-
  C20: builder output depends on what was configured, not on how.

  In the model a builder is a record and every API method is a function on it
  (Rtcp/Impl/Setters.lean; the request driver folds exactly these functions over the call
  sequence).  Size and bytes are functions of the final record (`toWriter`), so it suffices that
  call sequences that should be equivalent produce the same record:
  independent setters commute, a repeated setter keeps the last value, list-adding calls append
  (insertion order), re-adding a NACK sequence number is idempotent and NACK insertion order is
  irrelevant, re-adding a FIR SSRC keeps the last sequence number without duplicating the entry,
  and the owned variants build the same record as their borrowed counterparts without losing a
  previously set field.  The enum wrapper and the one-member compound write what the member writes.

  STATEMENTS ARE FIXED. Longer proofs live in Rtcp/Proofs/Setters.lean and are only cited here.
-/
import Rtcp.Impl.Setters
import Rtcp.Props.Writers
import Rtcp.Proofs.Setters

namespace Rtcp.Props
open Rtcp Rtcp.Impl Rtcp.Spec

/-! ## report block: six independent setters -/

theorem rb_setters_commute (b : ReportBlockBuilder) (f : UInt8) (c e j l d : UInt32) :
    (b.setFractionLost f).setCumulativeLost c = (b.setCumulativeLost c).setFractionLost f ∧
    (b.setFractionLost f).setExtendedSequenceNumber e = (b.setExtendedSequenceNumber e).setFractionLost f ∧
    (b.setFractionLost f).setInterarrivalJitter j = (b.setInterarrivalJitter j).setFractionLost f ∧
    (b.setFractionLost f).setLastSenderReportTimestamp l = (b.setLastSenderReportTimestamp l).setFractionLost f ∧
    (b.setFractionLost f).setDelaySinceLastSenderReportTimestamp d
      = (b.setDelaySinceLastSenderReportTimestamp d).setFractionLost f ∧
    (b.setCumulativeLost c).setExtendedSequenceNumber e = (b.setExtendedSequenceNumber e).setCumulativeLost c ∧
    (b.setCumulativeLost c).setInterarrivalJitter j = (b.setInterarrivalJitter j).setCumulativeLost c ∧
    (b.setCumulativeLost c).setLastSenderReportTimestamp l = (b.setLastSenderReportTimestamp l).setCumulativeLost c ∧
    (b.setCumulativeLost c).setDelaySinceLastSenderReportTimestamp d
      = (b.setDelaySinceLastSenderReportTimestamp d).setCumulativeLost c ∧
    (b.setExtendedSequenceNumber e).setInterarrivalJitter j = (b.setInterarrivalJitter j).setExtendedSequenceNumber e ∧
    (b.setExtendedSequenceNumber e).setLastSenderReportTimestamp l
      = (b.setLastSenderReportTimestamp l).setExtendedSequenceNumber e ∧
    (b.setExtendedSequenceNumber e).setDelaySinceLastSenderReportTimestamp d
      = (b.setDelaySinceLastSenderReportTimestamp d).setExtendedSequenceNumber e ∧
    (b.setInterarrivalJitter j).setLastSenderReportTimestamp l = (b.setLastSenderReportTimestamp l).setInterarrivalJitter j ∧
    (b.setInterarrivalJitter j).setDelaySinceLastSenderReportTimestamp d
      = (b.setDelaySinceLastSenderReportTimestamp d).setInterarrivalJitter j ∧
    (b.setLastSenderReportTimestamp l).setDelaySinceLastSenderReportTimestamp d
      = (b.setDelaySinceLastSenderReportTimestamp d).setLastSenderReportTimestamp l := by
  refine ⟨rfl, rfl, rfl, rfl, rfl, rfl, rfl, rfl, rfl, rfl, rfl, rfl, rfl, rfl, rfl⟩

theorem rb_setter_last_wins (b : ReportBlockBuilder) (f f' : UInt8) (x x' : UInt32) :
    (b.setFractionLost f).setFractionLost f' = b.setFractionLost f' ∧
    (b.setCumulativeLost x).setCumulativeLost x' = b.setCumulativeLost x' ∧
    (b.setExtendedSequenceNumber x).setExtendedSequenceNumber x' = b.setExtendedSequenceNumber x' ∧
    (b.setInterarrivalJitter x).setInterarrivalJitter x' = b.setInterarrivalJitter x' ∧
    (b.setLastSenderReportTimestamp x).setLastSenderReportTimestamp x' = b.setLastSenderReportTimestamp x' ∧
    (b.setDelaySinceLastSenderReportTimestamp x).setDelaySinceLastSenderReportTimestamp x'
      = b.setDelaySinceLastSenderReportTimestamp x' := by
  refine ⟨rfl, rfl, rfl, rfl, rfl, rfl⟩

/-! ## sender / receiver report -/

theorem sr_setters_commute (b : SrBuilder) (p : UInt8) (n : UInt64) (r pc oc : UInt32) (rb : ReportBlockBuilder) :
    (b.setPadding p).setNtp n = (b.setNtp n).setPadding p ∧
    (b.setPadding p).setRtp r = (b.setRtp r).setPadding p ∧
    (b.setPadding p).setPacketCount pc = (b.setPacketCount pc).setPadding p ∧
    (b.setPadding p).setOctetCount oc = (b.setOctetCount oc).setPadding p ∧
    (b.setNtp n).setRtp r = (b.setRtp r).setNtp n ∧
    (b.setNtp n).setPacketCount pc = (b.setPacketCount pc).setNtp n ∧
    (b.setNtp n).setOctetCount oc = (b.setOctetCount oc).setNtp n ∧
    (b.setRtp r).setPacketCount pc = (b.setPacketCount pc).setRtp r ∧
    (b.setRtp r).setOctetCount oc = (b.setOctetCount oc).setRtp r ∧
    (b.setPacketCount pc).setOctetCount oc = (b.setOctetCount oc).setPacketCount pc ∧
    (b.setPadding p).addReportBlock rb = (b.addReportBlock rb).setPadding p ∧
    (b.setNtp n).addReportBlock rb = (b.addReportBlock rb).setNtp n ∧
    (b.setRtp r).addReportBlock rb = (b.addReportBlock rb).setRtp r ∧
    (b.setPacketCount pc).addReportBlock rb = (b.addReportBlock rb).setPacketCount pc ∧
    (b.setOctetCount oc).addReportBlock rb = (b.addReportBlock rb).setOctetCount oc := by
  refine ⟨rfl, rfl, rfl, rfl, rfl, rfl, rfl, rfl, rfl, rfl, rfl, rfl, rfl, rfl, rfl⟩

theorem sr_setter_last_wins (b : SrBuilder) (p p' : UInt8) (n n' : UInt64) (x x' : UInt32) :
    (b.setPadding p).setPadding p' = b.setPadding p' ∧ (b.setNtp n).setNtp n' = b.setNtp n' ∧
    (b.setRtp x).setRtp x' = b.setRtp x' ∧ (b.setPacketCount x).setPacketCount x' = b.setPacketCount x' ∧
    (b.setOctetCount x).setOctetCount x' = b.setOctetCount x' := by
  refine ⟨rfl, rfl, rfl, rfl, rfl⟩

theorem rr_setters (b : RrBuilder) (p p' : UInt8) (rb : ReportBlockBuilder) :
    (b.setPadding p).addReportBlock rb = (b.addReportBlock rb).setPadding p ∧
    (b.setPadding p).setPadding p' = b.setPadding p' := ⟨rfl, rfl⟩

/-- list-adding calls preserve insertion order (SR, RR, BYE, SDES, SDES chunk, SLI, compound) -/
theorem adders_preserve_order (sr : SrBuilder) (rr : RrBuilder) (bye : ByeBuilder) (sd : SdesBuilder)
    (ch : SdesChunkBuilder) (sli : SliBuilder) (ms : List Writer)
    (rbs : List ReportBlockBuilder) (ss : List UInt32) (cs : List SdesChunkBuilder) (its : List SdesItemBuilder)
    (es : List (UInt16 × UInt16 × UInt8)) (ws : List Writer) :
    (rbs.foldl SrBuilder.addReportBlock sr).reportBlocks = sr.reportBlocks ++ rbs ∧
    (rbs.foldl RrBuilder.addReportBlock rr).reportBlocks = rr.reportBlocks ++ rbs ∧
    (ss.foldl ByeBuilder.addSource bye).sources = bye.sources ++ ss ∧
    (cs.foldl SdesBuilder.addChunk sd).chunks = sd.chunks ++ cs ∧
    (its.foldl SdesChunkBuilder.addItem ch).items = ch.items ++ its ∧
    (es.foldl (fun b e => b.addLostMacroblock e.1 e.2.1 e.2.2) sli).lostMbs
      = sli.lostMbs ++ es.map (fun e => ⟨e.1, e.2.1, e.2.2⟩) ∧
    ws.foldl CompoundBuilder.addPacket ms = ms ++ ws :=
  Proofs.adders_preserve_order sr rr bye sd ch sli ms rbs ss cs its es ws

/-! ## APP, BYE, SDES, unknown, feedback, RPSI -/

theorem app_setters (b : AppBuilder) (p p' s s' : UInt8) (d d' : Bytes) :
    (b.setPadding p).setSubtype s = (b.setSubtype s).setPadding p ∧
    (b.setPadding p).setData d = (b.setData d).setPadding p ∧
    (b.setSubtype s).setData d = (b.setData d).setSubtype s ∧
    (b.setPadding p).setPadding p' = b.setPadding p' ∧ (b.setSubtype s).setSubtype s' = b.setSubtype s' ∧
    (b.setData d).setData d' = b.setData d' := ⟨rfl, rfl, rfl, rfl, rfl, rfl⟩

theorem bye_setters (b : ByeBuilder) (p p' : UInt8) (s : UInt32) (r r' : Bytes) :
    (b.setPadding p).addSource s = (b.addSource s).setPadding p ∧
    (b.setPadding p).setReason r = (b.setReason r).setPadding p ∧
    (b.addSource s).setReason r = (b.setReason r).addSource s ∧
    (b.setPadding p).setPadding p' = b.setPadding p' ∧ (b.setReason r).setReason r' = b.setReason r' :=
  ⟨rfl, rfl, rfl, rfl, rfl⟩

/-- the owned reason keeps padding and sources: it builds the very same builder -/
theorem bye_reason_owned_eq (b : ByeBuilder) (r : Bytes) : b.reasonOwned r = b.setReason r := rfl

theorem sdes_setters (b : SdesBuilder) (p p' : UInt8) (c : SdesChunkBuilder) :
    (b.setPadding p).addChunk c = (b.addChunk c).setPadding p ∧
    (b.setPadding p).setPadding p' = b.setPadding p' := ⟨rfl, rfl⟩

/-- owned SDES items keep type, prefix and value -/
theorem sdes_item_owned_eq (it : SdesItemBuilder) (c : SdesChunkBuilder) (p p' : Bytes) :
    it.intoOwned = it ∧ c.addItemOwned it = c.addItem it ∧
    (it.setPrefix p).intoOwned = it.intoOwned.setPrefix p ∧ (it.setPrefix p).setPrefix p' = it.setPrefix p' :=
  ⟨rfl, rfl, rfl, rfl⟩

theorem unknown_setters (b : UnknownBuilder) (p p' c c' : UInt8) :
    (b.setPadding p).setCount c = (b.setCount c).setPadding p ∧
    (b.setPadding p).setPadding p' = b.setPadding p' ∧ (b.setCount c).setCount c' = b.setCount c' :=
  ⟨rfl, rfl, rfl⟩

theorem fb_setters (b : FbBuilder) (p p' : UInt8) (s s' m m' : UInt32) :
    (b.setPadding p).setSenderSsrc s = (b.setSenderSsrc s).setPadding p ∧
    (b.setPadding p).setMediaSsrc m = (b.setMediaSsrc m).setPadding p ∧
    (b.setSenderSsrc s).setMediaSsrc m = (b.setMediaSsrc m).setSenderSsrc s ∧
    (b.setPadding p).setPadding p' = b.setPadding p' ∧
    (b.setSenderSsrc s).setSenderSsrc s' = b.setSenderSsrc s' ∧
    (b.setMediaSsrc m).setMediaSsrc m' = b.setMediaSsrc m' := ⟨rfl, rfl, rfl, rfl, rfl, rfl⟩

theorem rpsi_setters (b : RpsiBuilder) (t t' k k' : UInt8) (d d' : Bytes) :
    (b.setPayloadType t).nativeData d k = (b.nativeData d k).setPayloadType t ∧
    (b.setPayloadType t).setPayloadType t' = b.setPayloadType t' ∧
    (b.nativeData d k).nativeData d' k' = b.nativeData d' k' ∧
    b.nativeDataOwned d k = b.nativeData d k := ⟨rfl, rfl, rfl, rfl⟩

/-! ## NACK set and FIR map -/

/-- re-adding a sequence number changes nothing -/
theorem nack_add_idempotent (b : NackBuilder) (s : UInt16) (h : NackSorted b) :
    (b.addRtpSequence s).addRtpSequence s = b.addRtpSequence s := Proofs.nack_add_idempotent b s h

/-- the order in which sequence numbers are added is irrelevant -/
theorem nack_add_comm (b : NackBuilder) (s t : UInt16) (h : NackSorted b) :
    (b.addRtpSequence s).addRtpSequence t = (b.addRtpSequence t).addRtpSequence s := Proofs.nack_add_comm b s t h

/-- the builder holds exactly the set of added numbers -/
theorem nack_add_mem (b : NackBuilder) (s x : UInt16) :
    x ∈ (b.addRtpSequence s).rtpSeq ↔ x = s ∨ x ∈ b.rtpSeq := Proofs.nack_add_mem b s x

/-- re-adding an SSRC keeps the last sequence number and does not duplicate the entry -/
theorem fir_add_last_wins (b : FirBuilder) (k : UInt32) (v v' : UInt8) :
    (b.addSsrc k v).addSsrc k v' = b.addSsrc k v' := Proofs.fir_add_last_wins b k v v'

/-- adding two different SSRCs in either order gives the same map: the same entries up to order,
    which is all a FIR image is defined up to -/
theorem fir_add_comm (b : FirBuilder) (k k' : UInt32) (v v' : UInt8) (hne : k ≠ k')
    (hu : (b.ssrcSeq.map (·.1)).Nodup) :
    ((b.addSsrc k v).addSsrc k' v').ssrcSeq.Perm ((b.addSsrc k' v').addSsrc k v).ssrcSeq :=
  Proofs.fir_add_comm b k k' v v' hne hu

/-- a permutation of the map entries permutes the 8-byte entries of the image and keeps the size -/
theorem fir_image_perm (a b : FirBuilder) (h : a.ssrcSeq.Perm b.ssrcSeq) :
    (a.ssrcSeq.map firEntryImage).Perm (b.ssrcSeq.map firEntryImage) ∧ a.calcSize = b.calcSize :=
  Proofs.fir_image_perm a b h

/-! ## wrappers -/

/-- `PacketBuilder::from(b)` forwards size, bytes and padding to the wrapped builder -/
theorem packet_builder_forwards (a : AppBuilder) (y : ByeBuilder) (r : RrBuilder) (s : SrBuilder)
    (d : SdesBuilder) (u : UnknownBuilder) (f : FbBuilder) :
    (PacketBuilder.app a).toWriter = a.toWriter ∧ (PacketBuilder.bye y).toWriter = y.toWriter ∧
    (PacketBuilder.rr r).toWriter = r.toWriter ∧ (PacketBuilder.sr s).toWriter = s.toWriter ∧
    (PacketBuilder.sdes d).toWriter = d.toWriter ∧ (PacketBuilder.unknown u).toWriter = u.toWriter ∧
    (PacketBuilder.tfb f).toWriter = f.toWriter ∧ (PacketBuilder.pfb f).toWriter = f.toWriter :=
  ⟨rfl, rfl, rfl, rfl, rfl, rfl, rfl, rfl⟩

/-- a one-member compound announces the member's size and padding and writes the member's bytes -/
theorem compound_singleton (m : Writer) (img : Bytes) (h : Refines m img) :
    Refines (CompoundBuilder.toWriter [m]) img ∧
    (CompoundBuilder.toWriter [m]).calcSize = m.calcSize ∧
    (CompoundBuilder.toWriter [m]).getPadding = m.getPadding := Proofs.compound_singleton m img h

/-- non-vacuity: a padded BYE configured in two different orders, one through `reason_owned` -/
example : ((ByeBuilder.new.setPadding 4).addSource 7).reasonOwned [0x61]
    = ((ByeBuilder.new.setReason [0x61]).addSource 7).setPadding 4 := by decide

end Rtcp.Props
