/-
  Feedback control information: the decoders follow RFC 4585 / 5104 for arbitrary bytes (C15),
  the builders' images decode to what was put in (C05, C07), and the compound parser tiles the
  datagram and iterates it faithfully (C11).

  STATEMENTS ARE FIXED. Proofs live in Rtcp/Proofs/*.lean and are only cited here.
-/
import Rtcp.Spec.All
import Rtcp.Proofs.Fci
import Rtcp.Proofs.CompoundParse

namespace Rtcp.Props
open Rtcp Rtcp.Impl Rtcp.Spec

/-! ## decoding arbitrary FCI bytes (C15, C01) -/

/-- NACK: the iterator yields, for every byte string, exactly the reference decoding, and stops -/
theorem nack_entries_eq {ε : Type} (d : Bytes) :
    (Nack.entries d : R ε (List UInt16 × Bool)) = .ok ((nackDecode d).map Nat.toUInt16, true) :=
  Proofs.nack_entries_eq d

theorem fir_entries_eq {ε : Type} (d : Bytes) :
    (Fir.entries d : R ε (List (UInt32 × UInt8) × Bool))
      = .ok ((firDecode d).map (fun (s, q) => (s.toUInt32, q.toUInt8)), true) := Proofs.fir_entries_eq d

theorem sli_entries_eq {ε : Type} (d : Bytes) :
    (Sli.lostMacroblocks d : R ε (List MacroBlockEntry × Bool))
      = .ok ((sliDecode d).map (fun (a, b, c) => ⟨a.toUInt16, b.toUInt16, c.toUInt8⟩), true) :=
  Proofs.sli_entries_eq d

/-- RPSI: on every accepted FCI the payload type is the low 7 bits and the bit string, with the
    reported number of trailing bits dropped, is the reference bit string; the slice lies in the input -/
theorem rpsi_decode_eq {ε : Type} (d : Bytes) (h : Rpsi.parse d = .ok d) :
    ∃ pt bits s k, rpsiDecode d = some (pt, bits) ∧
      (Rpsi.payloadType d : R ε UInt8) = .ok pt.toUInt8 ∧
      (Rpsi.bitString 0 d : R ε (Slice × Nat)) = .ok (s, k) ∧
      (bitsOf s.bytes).take (8 * s.bytes.length - k) = bits ∧ SubSlice s d := Proofs.rpsi_decode_eq d h

theorem rpsi_parse_ok_iff (d v : Bytes) :
    Rpsi.parse d = .ok v ↔ v = d ∧ 4 ≤ d.length ∧ u8At d 0 / 8 + 2 ≤ d.length := Proofs.rpsi_parse_ok_iff d v

/-- PLI accepts only an empty body -/
theorem pli_parse_ok_iff (d v : Bytes) : Pli.parse d = .ok v ↔ v = d ∧ d = [] := Proofs.pli_parse_ok_iff d v

theorem fir_parse_ok_iff (d v : Bytes) : Fir.parse d = .ok v ↔ v = d ∧ 8 ≤ d.length := Proofs.fir_parse_ok_iff d v
theorem sli_parse_ok_iff (d v : Bytes) : Sli.parse d = .ok v ↔ v = d ∧ 4 ≤ d.length := Proofs.sli_parse_ok_iff d v
theorem nack_parse_ok (d : Bytes) : Nack.parse d = .ok d := Proofs.nack_parse_ok d

theorem fci_parsers_no_panic (f : Fb.FciType) (d : Bytes) : f.parse d ≠ .panic := Proofs.fci_parsers_no_panic f d

/-- `parse_fci::<F>`: succeeds only if the packet's kind and format number match `F`; then it is
    `F::parse` on exactly the bytes between the two SSRCs and the padding. All 32 formats, both kinds. -/
theorem parseFci_eq (k : FbKind) (f : Fb.FciType) (d : Bytes) (h : Fb.parse k d = .ok d) :
    Fb.parseFci k f d =
      (if (f = .nack ↔ k = .transport) ∧ count d = f.format.toNat
       then f.parse (range d 12 (d.length - padLen d))
       else .err .wrongImplementation) := Proofs.parseFci_eq k f d h

/-! ## what the builders write decodes to what was put in (C05, C07) -/

/-- NACK: exactly the set, ascending, each once -/
theorem nack_roundtrip (seqs : List UInt16) (h : seqs.Pairwise (· < ·)) :
    nackDecode (nackImage ⟨seqs⟩) = seqs.map (·.toNat) := Proofs.nack_roundtrip seqs h

/-- NACK: the words are strictly increasing in PID -/
theorem nack_words_increasing (l : List Nat) (h : l.Pairwise (· < ·)) :
    ((nackEncode l).map (·.pid)).Pairwise (· < ·) := Proofs.nack_words_increasing l h

/-- NACK: no list of words that decodes to the same ascending list is shorter -/
theorem nack_minimal (l : List Nat) (h : l.Pairwise (· < ·)) (hb : ∀ s ∈ l, s < 65536)
    (ws : List NackWord) (hd : (ws.map NackWord.decode).flatten = l) :
    (nackEncode l).length ≤ ws.length := Proofs.nack_minimal l h hb ws hd

/-- FIR: one entry per map entry (any order of the map gives the corresponding order of entries) -/
theorem fir_roundtrip (entries : List (UInt32 × UInt8)) :
    firDecode (firImage ⟨entries⟩) = entries.map (fun (s, q) => (s.toNat, q.toNat)) := Proofs.fir_roundtrip entries

/-- the FIR map: key-unique, re-adding an SSRC keeps the last sequence -/
theorem fir_upsert_lookup (m : List (UInt32 × UInt8)) (k k' : UInt32) (v : UInt8) :
    (FirBuilder.upsert k v m).lookup k' = if k' = k then some v else m.lookup k' := Proofs.fir_upsert_lookup m k k' v

theorem fir_upsert_keys_unique (m : List (UInt32 × UInt8)) (k : UInt32) (v : UInt8)
    (h : (m.map (·.1)).Nodup) : ((FirBuilder.upsert k v m).map (·.1)).Nodup := Proofs.fir_upsert_keys_unique m k v h

/-- SLI: the same (first, number, picture-id) entries in order, within the 13/13/6-bit ranges -/
theorem sli_roundtrip (es : List MacroBlockEntry)
    (h : ∀ e ∈ es, e.start.toNat < 8192 ∧ e.count.toNat < 8192 ∧ e.pictureId.toNat < 64) :
    sliDecode (sliImage ⟨es⟩) = es.map (fun e => (e.start.toNat, e.count.toNat, e.pictureId.toNat)) :=
  Proofs.sli_roundtrip es h

/-- RPSI: the same payload type and the same bit string bit for bit -/
theorem rpsi_roundtrip (b : RpsiBuilder) (h : rpsiRules b = []) :
    rpsiDecode (rpsiImage b) = some (b.payloadType.toNat, rpsiBits b.nativeBitString b.nativeBitOverrun.toNat) :=
  Proofs.rpsi_roundtrip b h

/-! ## compound parsing (C11) -/

/-- accepted exactly when non-empty and the chain of length fields tiles the string -/
theorem compound_parse_ok_iff (bs : Bytes) (c : Compound) :
    Compound.parse bs = .ok c ↔ c = ⟨bs, 0, false⟩ ∧ bs ≠ [] ∧ (tiling bs).isSome := Proofs.compound_parse_ok_iff bs c

theorem compound_parse_no_panic (bs : Bytes) : Compound.parse bs ≠ .panic := Proofs.compound_parse_no_panic bs

/-- C18: the errors of compound parsing are truncations with expected > actual -/
theorem compound_err_truthful (bs : Bytes) (e : ParseError) (h : Compound.parse bs = .err e) :
    ∃ ex, e = .truncated ex bs.length ∧ bs.length < ex := Proofs.compound_err_truthful bs e h

/-- the tiles concatenate to the input and each has its header's length -/
theorem tiling_sound (bs : Bytes) (ts : List Bytes) (h : tiling bs = some ts) :
    ts.flatten = bs ∧ ∀ t ∈ ts, 4 ≤ t.length ∧ lengthField t = t.length := Proofs.tiling_sound bs ts h

/-- iterating an accepted compound yields, in order, exactly what the generic parser returns for
    each tile, stopping after the first failing tile (yielding that error); never more items than
    tiles; and the iterator is then finished for good -/
theorem compound_iter {ε : Type} (bs : Bytes) (ts : List Bytes) (hne : bs ≠ []) (ht : tiling bs = some ts)
    (hnp : ∀ t ∈ ts, Packet.parse t ≠ .panic) (fuel : Nat) (hf : ts.length < fuel) :
    ∃ items c', (Compound.collect fuel ⟨bs, 0, false⟩ [] : R ε _) = .ok (items, true, c') ∧
      items.map (·.1) = throughFirstErr (ts.map Packet.parse) ∧
      items.length ≤ ts.length ∧ c'.isOver = true := Proofs.compound_iter bs ts hne ht hnp fuel hf

/-- once finished, `next` keeps returning end-of-iteration and the state does not change -/
theorem compound_fused {ε : Type} (c : Compound) (h : c.isOver = true) :
    (Compound.next c : R ε _) = .ok (none, c) := Proofs.compound_fused c h

end Rtcp.Props
