/-
  The request driver runs linear-time versions of the model's iterator drivers (Rtcp/Impl/Fast.lean):
  the model's own `collect` functions append with `acc ++ [v]` and re-slice the input at every step,
  which is convenient to reason about and quadratic to run.  These theorems are what makes that
  substitution sound: for every input the fast functions return exactly what the model returns, so
  every theorem about `Nack.entries`, `Fir.entries`, `Sli.lostMacroblocks` and `Compound.collect`
  is a theorem about what the driver executes.

  STATEMENTS ARE FIXED. Proofs live in Rtcp/Proofs/Fast.lean and are only cited here.
-/
import Rtcp.Impl.Fast
import Rtcp.Proofs.Fast

namespace Rtcp.Props
open Rtcp Rtcp.Impl

theorem fast_nack_eq {ε : Type} (d : Bytes) :
    (Fast.nackEntries d : R ε (List UInt16 × Bool)) = Nack.entries d := Proofs.fast_nack_eq d

theorem fast_fir_eq {ε : Type} (d : Bytes) :
    (Fast.firEntries d : R ε (List (UInt32 × UInt8) × Bool)) = Fir.entries d := Proofs.fast_fir_eq d

theorem fast_sli_eq {ε : Type} (d : Bytes) :
    (Fast.sliEntries d : R ε (List MacroBlockEntry × Bool)) = Sli.lostMacroblocks d := Proofs.fast_sli_eq d

/-- any iterator state, any fuel -/
theorem fast_compound_eq {ε : Type} (fuel : Nat) (c : Compound) :
    (Fast.compoundCollect fuel c : R ε (List (R ParseError Packet × Nat) × Bool × Compound))
      = Compound.collect fuel c [] := Proofs.fast_compound_eq' fuel c

theorem fast_compoundParse_eq (d : Bytes) : Fast.compoundParse d = Compound.parse d :=
  Proofs.fast_compoundParse_eq d

/-- the SDES scanner, chunk loop and item loop both linear -/
theorem fast_sdesParse_eq (d : Bytes) : Fast.sdesParse d = Sdes.parse d := Proofs.fast_sdesParse_eq d

/-- the generic parser with the linear SDES scanner behind its SDES arm -/
theorem fast_packetParse_eq (d : Bytes) : Fast.packetParse d = Packet.parse d := Proofs.fast_packetParse_eq d

theorem fast_kindParse_eq (k : Kind) (d : Bytes) : Fast.kindParse k d = k.parse d := Proofs.fast_kindParse_eq k d

end Rtcp.Props
