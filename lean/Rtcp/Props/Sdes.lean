/-
  SDES: the eager scanner of sdes.rs accepts exactly what the reference tokeniser of
  Spec/Decode.lean tokenises, and yields those tokens (C10); it never panics and its items can be
  read without panicking (C01); well-formed packets from the RFC encoder are accepted and yield
  what was encoded (C10 must-accept, C03 round trip).

  STATEMENTS ARE FIXED. Proofs live in Rtcp/Proofs/*.lean and are only cited here.
-/
import Rtcp.Spec.All
import Rtcp.Proofs.Sdes

namespace Rtcp.Props
open Rtcp Rtcp.Impl Rtcp.Spec

/-- accepted ⇒ framed, padding within the packet, and the chunks are the reference tokenisation -/
theorem sdes_parse_accepts (bs : Bytes) (v : Sdes) (h : Sdes.parse bs = .ok v) :
    v.data = bs ∧ WellFramed 4 202 bs ∧ 4 + padLen bs ≤ bs.length ∧
    refTok (sdesBody bs) = some (v.chunks.map chunkAsRef) ∧
    (∀ c ∈ v.chunks, ∀ it ∈ c.items, ItemOk bs it) := Proofs.sdes_parse_accepts bs v h

/-- rejected ⇒ not framed, or the padding overruns, or the reference tokeniser rejects too -/
theorem sdes_parse_rejects (bs : Bytes) (e : ParseError) (h : Sdes.parse bs = .err e) :
    ¬ (WellFramed 4 202 bs ∧ 4 + padLen bs ≤ bs.length ∧ (refTok (sdesBody bs)).isSome) :=
  Proofs.sdes_parse_rejects bs e h

theorem sdes_parse_no_panic (bs : Bytes) : Sdes.parse bs ≠ .panic := Proofs.sdes_parse_no_panic bs

/-- hence: accepted ⇔ framed ∧ padding fits ∧ the chunk region tokenises -/
theorem sdes_parse_ok_iff (bs : Bytes) :
    (∃ v, Sdes.parse bs = .ok v) ↔
      (WellFramed 4 202 bs ∧ 4 + padLen bs ≤ bs.length ∧ (refTok (sdesBody bs)).isSome) := by
  constructor
  · rintro ⟨v, h⟩
    have ⟨_, hf, hp, ht, _⟩ := sdes_parse_accepts bs v h
    exact ⟨hf, hp, by simp [ht]⟩
  · intro hr
    cases h : Sdes.parse bs with
    | ok v => exact ⟨v, rfl⟩
    | err e => exact absurd hr (sdes_parse_rejects bs e h)
    | panic => exact absurd h (sdes_parse_no_panic bs)

/-- C18: the errors of the SDES parser are truthful -/
theorem sdes_err_truthful (bs : Bytes) (e : ParseError) (h : Sdes.parse bs = .err e) :
    ErrorTruthful bs 202 e := Proofs.sdes_err_truthful bs e h

/-- every accessor of a parsed item returns normally, with exactly the bytes on the wire; PRIV
    items split into prefix and value as the reference says -/
theorem item_accessors {ε : Type} (bs : Bytes) (it : SdesItem) (h : ItemOk bs it) :
    (it.type : R ε UInt8) = .ok (u8At it.data 0).toUInt8 ∧
    (it.length : R ε Nat) = .ok (it.data.length - 2) ∧
    (u8At it.data 0 ≠ 8 →
      (it.value : R ε Slice) = .ok ⟨it.off + 2, it.data.drop 2⟩) ∧
    (u8At it.data 0 = 8 →
      (it.privPrefixLen : R ε UInt8) = .ok (u8At it.data 2).toUInt8 ∧
      (it.privPrefix : R ε Slice) = .ok ⟨it.off + 3, (it.data.drop 3).take (u8At it.data 2)⟩ ∧
      (it.value : R ε Slice) = .ok ⟨it.off + 3 + u8At it.data 2, it.data.drop (3 + u8At it.data 2)⟩ ∧
      (itemAsRef it).privSplit = some ((it.data.drop 3).take (u8At it.data 2), it.data.drop (3 + u8At it.data 2))) :=
  Proofs.item_accessors bs it h

/-- each chunk reports its own encoded length: SSRC, items with their two header octets, the
    terminator, rounded up to 32 bits -/
theorem chunk_length {ε : Type} (bs : Bytes) (c : SdesChunk) (h : ∀ it ∈ c.items, ItemOk bs it) :
    (c.length : R ε Nat) = .ok (pad4 (4 + (c.items.map (·.data.length)).sum + 1)) := Proofs.chunk_length bs c h

/-- the reference tokeniser accepts exactly the reference encoder's images: must-accept (C10) -/
theorem refTok_encode (cs : List SdesChunkBuilder)
    (h : ∀ c ∈ cs, ∀ it ∈ c.items, itemRules it = [] ∧ it.type ≠ 0) :
    refTok ((cs.map chunkImage).flatten) = some (cs.map chunkCfgAsRef) := Proofs.refTok_encode cs h

/-- the encoded length of a well-formed chunk is what `length()` reports for it -/
theorem chunkImage_length (c : SdesChunkBuilder) :
    (chunkImage c).length = pad4 (4 + (c.items.map (fun it => (itemImage it).length)).sum + 1) :=
  Proofs.chunkImage_length c

/-- C03: every SDES packet the builder accepts (item types ≠ 0) is accepted by the parser and
    yields exactly the configured chunks, items (type, value, PRIV prefix) and padding -/
theorem sdes_roundtrip {ε : Type} (b : SdesBuilder) (h : sdesRules b = [])
    (hz : ∀ c ∈ b.chunks, ∀ it ∈ c.items, it.type ≠ 0) :
    ∃ v, Sdes.parse (sdesImage b) = .ok v ∧
      v.chunks.map chunkAsRef = b.chunks.map chunkCfgAsRef ∧
      (Sdes.padding v : R ε (Option UInt8)) = .ok (getPaddingOf b.padding) := Proofs.sdes_roundtrip b h hz

/-! the three must-reject classes, as the reference tokeniser sees them (by definition) -/

/-- an item that overruns the packet is rejected -/
theorem ref_rejects_item_overrun (fuel pos : Nat) (t l : UInt8) (rest : Bytes) (ht : t ≠ 0)
    (h : rest.length < l.toNat) : refItems (fuel + 1) pos (t :: l :: rest) = none := by
  simp [refItems, ht, h]

/-- a PRIV prefix that overruns its item is rejected -/
theorem ref_rejects_priv_overrun (fuel pos : Nat) (l pl : UInt8) (rest : Bytes)
    (hl : l.toNat ≤ rest.length + 1) (h1 : 1 ≤ l.toNat) (h : l.toNat - 1 < pl.toNat) :
    refItems (fuel + 1) pos (8 :: l :: pl :: rest) = none := Proofs.ref_rejects_priv_overrun fuel pos l pl rest hl h1 h

/-- non-zero bytes in a chunk's fill are rejected -/
theorem ref_rejects_nonzero_fill (fuel pos : Nat) (rest : Bytes)
    (h : ∃ i, i < (4 - (pos + 1) % 4) % 4 ∧ i < rest.length ∧ rest.getD i 0 ≠ 0) :
    refItems (fuel + 1) pos (0 :: rest) = none := Proofs.ref_rejects_nonzero_fill fuel pos rest h

end Rtcp.Props
