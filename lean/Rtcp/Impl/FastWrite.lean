/-
  Linear-time stand-ins for the two quadratic parts of the BUILD side of the model:

  * the unchecked writers thread the whole buffer through `withTail buf i` once per list element
    (items of a chunk, chunks of an SDES packet, members of a compound), and
  * the adder methods append with `xs ++ [x]`, so `run` over `k` adder calls costs `k²/2`.

  `writerVia w img` is `w` with one short cut: when the buffer has exactly the announced size it
  returns `img` at once.  For every writer that satisfies the writer contract with `img`
  (`Props.Refines w img`, proved for every built-in builder) it is EQUAL to `w`
  (`Props.fast_writerVia_eq`); `chunkRun` is the closed form of `SdesChunkBuilder.run`
  (`Props.fast_chunkRun_eq`).  Nothing here is trusted: the request driver may only use these
  because of those theorems.
-/
import Rtcp.Impl.Calls
import Rtcp.Spec.Wire

namespace Rtcp.Impl.Fast
open Rtcp Rtcp.Impl

/-- `w`, except that a buffer of exactly the announced size is answered with `img` directly -/
def writerVia (w : Writer) (img : Bytes) : Writer :=
  { w with
    write := fun buf =>
      match w.calcSize with
      | .ok n => if buf.length = n then .ok (img, n) else w.write buf
      | _ => w.write buf }

/-- the SDES packet writer through the RFC image of the configuration -/
def sdesWriter (b : SdesBuilder) : Writer := writerVia b.toWriter (Spec.sdesImage b)

/-- the stand-alone chunk writer through the image of the chunk -/
def chunkWriter (b : SdesChunkBuilder) : Writer := writerVia ⟨b.calcSize, b.writeUnchecked, none⟩ (Spec.chunkImage b)

/-- closed form of `SdesChunkBuilder.run`: one `map` and one append instead of one append per call -/
def chunkRun (b : SdesChunkBuilder) (cs : List ChunkCall) : SdesChunkBuilder :=
  { ssrc := b.ssrc
    items := b.items ++ cs.map (fun | .addItem it => it | .addItemOwned it => it) }

end Rtcp.Impl.Fast
