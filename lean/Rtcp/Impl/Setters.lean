/-
  The builder methods of the public API, one Lean function per Rust method (`self -> Self`), so
  that a builder request is literally the fold of these functions over the call sequence (C20).

  Plain setters (`mut self; self.f = v; self`) become record updates; the "owned" variants that
  rebuild the builder field by field in Rust (bye.rs `reason_owned`, sdes.rs `into_owned` /
  `add_item_owned`, rpsi.rs `native_data_owned`) are written out field by field here too, so a
  forgotten field in the code shows up as a disagreement with this model.
-/
import Rtcp.Impl.Compound

namespace Rtcp.Impl
open Rtcp

namespace ReportBlockBuilder
/-- `ReportBlock::builder(ssrc)` / `ReportBlockBuilder::new` -/
def new (ssrc : UInt32) : ReportBlockBuilder := { ssrc := ssrc }
def setFractionLost (b : ReportBlockBuilder) (v : UInt8) : ReportBlockBuilder := { b with fractionLost := v }
def setCumulativeLost (b : ReportBlockBuilder) (v : UInt32) : ReportBlockBuilder := { b with cumulativeLost := v }
def setExtendedSequenceNumber (b : ReportBlockBuilder) (v : UInt32) : ReportBlockBuilder :=
  { b with extendedSequenceNumber := v }
def setInterarrivalJitter (b : ReportBlockBuilder) (v : UInt32) : ReportBlockBuilder := { b with interarrivalJitter := v }
def setLastSenderReportTimestamp (b : ReportBlockBuilder) (v : UInt32) : ReportBlockBuilder :=
  { b with lastSenderReportTimestamp := v }
def setDelaySinceLastSenderReportTimestamp (b : ReportBlockBuilder) (v : UInt32) : ReportBlockBuilder :=
  { b with delaySinceLastSenderReportTimestamp := v }
end ReportBlockBuilder

namespace SrBuilder
def new (ssrc : UInt32) : SrBuilder := { ssrc := ssrc }
def setPadding (b : SrBuilder) (v : UInt8) : SrBuilder := { b with padding := v }
def setNtp (b : SrBuilder) (v : UInt64) : SrBuilder := { b with ntp := v }
def setRtp (b : SrBuilder) (v : UInt32) : SrBuilder := { b with rtp := v }
def setPacketCount (b : SrBuilder) (v : UInt32) : SrBuilder := { b with packetCount := v }
def setOctetCount (b : SrBuilder) (v : UInt32) : SrBuilder := { b with octetCount := v }
def addReportBlock (b : SrBuilder) (rb : ReportBlockBuilder) : SrBuilder :=
  { b with reportBlocks := b.reportBlocks ++ [rb] }
end SrBuilder

namespace RrBuilder
def new (ssrc : UInt32) : RrBuilder := { ssrc := ssrc }
def setPadding (b : RrBuilder) (v : UInt8) : RrBuilder := { b with padding := v }
def addReportBlock (b : RrBuilder) (rb : ReportBlockBuilder) : RrBuilder :=
  { b with reportBlocks := b.reportBlocks ++ [rb] }
end RrBuilder

namespace AppBuilder
def new (ssrc : UInt32) (name : Bytes) : AppBuilder := { ssrc := ssrc, name := name }
def setPadding (b : AppBuilder) (v : UInt8) : AppBuilder := { b with padding := v }
def setSubtype (b : AppBuilder) (v : UInt8) : AppBuilder := { b with subtype := v }
def setData (b : AppBuilder) (v : Bytes) : AppBuilder := { b with data := v }
end AppBuilder

namespace ByeBuilder
def new : ByeBuilder := {}
def setPadding (b : ByeBuilder) (v : UInt8) : ByeBuilder := { b with padding := v }
def addSource (b : ByeBuilder) (s : UInt32) : ByeBuilder := { b with sources := b.sources ++ [s] }
/-- `reason(mut self, r)`: `self.reason = Some(r)` -/
def setReason (b : ByeBuilder) (r : Bytes) : ByeBuilder := { b with reason := r }
/-- `reason_owned(self, r)`: a new `ByeBuilder<'static>` assembled from `padding`, `sources` and
    the owned reason (bye.rs:132-138) -/
def reasonOwned (b : ByeBuilder) (r : Bytes) : ByeBuilder :=
  { padding := b.padding, sources := b.sources, reason := r }
end ByeBuilder

namespace SdesItemBuilder
def new (type : UInt8) (value : Bytes) : SdesItemBuilder := { type := type, value := value }
def setPrefix (b : SdesItemBuilder) (p : Bytes) : SdesItemBuilder := { b with prefix_ := p }
end SdesItemBuilder

namespace SdesChunkBuilder
def new (ssrc : UInt32) : SdesChunkBuilder := { ssrc := ssrc }
def addItem (b : SdesChunkBuilder) (it : SdesItemBuilder) : SdesChunkBuilder := { b with items := b.items ++ [it] }
/-- `add_item_owned`: pushes `item.into_owned()` -/
def addItemOwned (b : SdesChunkBuilder) (it : SdesItemBuilder) : SdesChunkBuilder :=
  { b with items := b.items ++ [it.intoOwned] }
end SdesChunkBuilder

namespace SdesBuilder
def new : SdesBuilder := {}
def setPadding (b : SdesBuilder) (v : UInt8) : SdesBuilder := { b with padding := v }
def addChunk (b : SdesBuilder) (c : SdesChunkBuilder) : SdesBuilder := { b with chunks := b.chunks ++ [c] }
end SdesBuilder

namespace UnknownBuilder
def new (type : UInt8) (data : Bytes) : UnknownBuilder := { type := type, data := data }
def setPadding (b : UnknownBuilder) (v : UInt8) : UnknownBuilder := { b with padding := v }
def setCount (b : UnknownBuilder) (v : UInt8) : UnknownBuilder := { b with count := v }
end UnknownBuilder

namespace RpsiBuilder
def setPayloadType (b : RpsiBuilder) (v : UInt8) : RpsiBuilder := { b with payloadType := v }
end RpsiBuilder

namespace FbBuilder
/-- `TransportFeedback::builder(&fci)` / `PayloadFeedback::builder(&fci)` and their
    `builder_owned(fci)` variants: the model holds the FCI writer by value either way. -/
def new (kind : FbKind) (fci : Fci) : FbBuilder := { kind := kind, fci := fci }
def setPadding (b : FbBuilder) (v : UInt8) : FbBuilder := { b with padding := v }
def setSenderSsrc (b : FbBuilder) (v : UInt32) : FbBuilder := { b with senderSsrc := v }
def setMediaSsrc (b : FbBuilder) (v : UInt32) : FbBuilder := { b with mediaSsrc := v }
end FbBuilder

namespace CustomBuilder
def setPadding (b : CustomBuilder) (v : UInt8) : CustomBuilder := { b with padding := v }
end CustomBuilder

/-- `CompoundBuilder::add_packet` -/
def CompoundBuilder.addPacket (ms : List Writer) (m : Writer) : List Writer := ms ++ [m]

end Rtcp.Impl
