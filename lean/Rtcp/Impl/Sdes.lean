/-
  Model of sdes.rs: the eager chunk / item scanner, the item accessors, and the three builders.
  Loops run on the real offsets by well-founded recursion; the termination proofs are part of
  the model (each item advances by ≥ 2 bytes, each chunk by ≥ 4).
-/
import Rtcp.Impl.Utils

namespace Rtcp.Impl
open Rtcp

/-- A parsed item: `data: &[u8]` (type, length, value bytes) and where it sits in the packet. -/
structure SdesItem where
  off : Nat
  data : Bytes
deriving DecidableEq, Repr

namespace SdesItem

def PRIV : UInt8 := 8

def type {ε : Type} (it : SdesItem) : R ε UInt8 := idx it.data 0
def length {ε : Type} (it : SdesItem) : R ε Nat := do pure (← idx it.data 1).toNat

/-- `priv_prefix_len`: panics (documented) if the item is not a PRIV. -/
def privPrefixLen {ε : Type} (it : SdesItem) : R ε UInt8 := do
  if (← it.type) != PRIV then .panic else idx it.data 2

/-- `priv_prefix_len() as u16 + 3` (with `debug_assert!(type == PRIV)`) -/
def privValueOffset {ε : Type} (it : SdesItem) : R ε Nat := do
  if (← it.type) != PRIV then .panic else pure ((← it.privPrefixLen).toNat + 3)

def value {ε : Type} (it : SdesItem) : R ε Slice := do
  if (← it.type) == PRIV then
    let o ← it.privValueOffset
    sliceS it.off it.data o it.data.length
  else
    sliceS it.off it.data 2 it.data.length

def privPrefix {ε : Type} (it : SdesItem) : R ε Slice := do
  if (← it.type) != PRIV then .panic
  else
    let l ← it.privPrefixLen
    sliceS it.off it.data 3 (3 + l.toNat)

/-- `SdesItem::parse(data)`; `base` is the offset of `data` in the packet. Returns the item and
    the number of bytes consumed. -/
def parse (base : Nat) (d : Bytes) : R ParseError (SdesItem × Nat) := do
  if d.length < 2 then
    .err (.truncated 2 d.length)
  else
    let length := (← idx d 1).toNat
    let e := 2 + length
    if e > d.length then
      .err (.truncated e d.length)
    else if length > 255 then
      .err (.sdesValueTooLarge length 255)
    else
      let item : SdesItem := ⟨base, d.take e⟩
      if (← item.type) == PRIV then
        if item.data.length < 3 then
          .err (.truncated 3 item.data.length)
        else
          let prefixLen ← item.privPrefixLen
          let valueOffset ← item.privValueOffset
          if valueOffset > item.data.length then
            -- `length as u8 - 1`
            let av ← usub (length % 256) 1
            .err (.sdesPrivPrefixTooLarge prefixLen.toNat av.toUInt8)
          else pure (item, e)
      else pure (item, e)

theorem parse_consumed {base : Nat} {d : Bytes} {it : SdesItem} {e : Nat}
    (h : parse base d = .ok (it, e)) : 2 ≤ e ∧ e ≤ d.length := by
  unfold parse at h
  simp only [bind, R.bind, pure] at h
  split at h
  · cases h
  · cases hi : (idx d 1 : R ParseError UInt8) <;> simp only [hi] at h <;> try cases h
    split at h
    · cases h
    · split at h
      · cases h
      · split at h <;> try cases h
        rename_i ty _
        split at h
        · split at h
          · cases h
          · split at h <;> try cases h
            split at h <;> try cases h
            split at h
            · split at h <;> cases h
            · cases h; omega
        · cases h; omega

end SdesItem

structure SdesChunk where
  ssrc : UInt32
  items : List SdesItem
deriving DecidableEq, Repr

namespace SdesChunk

/-- The item loop of `SdesChunk::parse`: stops after a zero type byte (consuming it) or at the end. -/
def itemLoop (base : Nat) (d : Bytes) (off : Nat) (acc : List SdesItem) :
    R ParseError (List SdesItem × Nat) :=
  if h : off < d.length then
    if d[off] == 0 then .ok (acc, off + 1)
    else
      match hp : SdesItem.parse (base + off) (d.drop off) with
      | .ok (item, e) => itemLoop base d (off + e) (acc ++ [item])
      | .err er => .err er
      | .panic => .panic
  else .ok (acc, off)
termination_by d.length - off
decreasing_by
  have := SdesItem.parse_consumed hp
  omega

/-- `while offset < fill_end && data[offset] == 0 { offset += 1 }` -/
def skipZeros (d : Bytes) (off fillEnd : Nat) : Nat :=
  if off < fillEnd ∧ d[off]? = some 0 then skipZeros d (off + 1) fillEnd else off
termination_by fillEnd - off

/-- `SdesChunk::parse(data)`; `base` is the offset of `data` in the packet. -/
def parse (base : Nat) (d : Bytes) : R ParseError (SdesChunk × Nat) := do
  if d.length < 4 then
    .err (.truncated 4 d.length)
  else
    let ssrc ← fromBe32 (← slice d 0 4)
    let (items, off) ←
      if d.length > 4 then do
        let (items, off) ← itemLoop base d 4 []
        let fillEnd := min (pad4 off) d.length
        pure (items, skipZeros d off fillEnd)
      else pure ([], 4)
    if pad4 off != off then
      .err (.truncated (pad4 off) off)
    else pure (⟨ssrc, items⟩, off)

/-- `length()`: 4 + Σ (2 + item.length()) + 1, padded to 4. -/
def length {ε : Type} (c : SdesChunk) : R ε Nat := do
  let ls ← c.items.mapM (fun it => it.length)
  pure (pad4 (4 + (ls.map (2 + ·)).sum + 1))

end SdesChunk

structure Sdes where
  data : Bytes
  chunks : List SdesChunk
deriving DecidableEq, Repr

namespace Sdes

theorem itemLoop_ge (base : Nat) (d : Bytes) (off : Nat) (acc : List SdesItem)
    {items : List SdesItem} {e : Nat}
    (h : SdesChunk.itemLoop base d off acc = .ok (items, e)) : off ≤ e := by
  fun_induction SdesChunk.itemLoop base d off acc with
  | case1 off acc hlt hz => cases h; omega
  | case2 off acc hlt hz item e' hp ih =>
    have := ih h
    omega
  | case3 off acc hlt hz er hp => cases h
  | case4 off acc hlt hz hp => cases h
  | case5 off acc hge => cases h; omega

theorem skipZeros_ge (d : Bytes) (off fillEnd : Nat) : off ≤ SdesChunk.skipZeros d off fillEnd := by
  fun_induction SdesChunk.skipZeros d off fillEnd with
  | case1 off h ih => omega
  | case2 off h => omega

theorem chunk_consumed {base : Nat} {d : Bytes} {c : SdesChunk} {e : Nat}
    (h : SdesChunk.parse base d = .ok (c, e)) : 4 ≤ e := by
  unfold SdesChunk.parse at h
  simp only [bind, R.bind, pure] at h
  split at h
  · cases h
  · split at h <;> try cases h
    split at h <;> try cases h
    split at h
    · split at h <;> try cases h
      rename_i a hloop
      obtain ⟨items, off⟩ := a
      split at h <;> try cases h
      have h1 := itemLoop_ge _ _ _ _ hloop
      have h2 := skipZeros_ge d off (min (pad4 off) d.length)
      simp only at h2 ⊢
      omega
    · split at h <;> cases h
      omega

/-- `while offset < chunks_end { let (chunk, end) = SdesChunk::parse(&data[offset..chunks_end])?; .. }` -/
def chunkLoop (d : Bytes) (chunksEnd : Nat) (off : Nat) (acc : List SdesChunk) :
    R ParseError (List SdesChunk) :=
  if h : off < chunksEnd then
    match hs : (slice d off chunksEnd : R ParseError Bytes) with
    | .ok s =>
      match hp : SdesChunk.parse off s with
      | .ok (c, e) => chunkLoop d chunksEnd (off + e) (acc ++ [c])
      | .err er => .err er
      | .panic => .panic
    | .err er => .err er
    | .panic => .panic
  else .ok acc
termination_by chunksEnd - off
decreasing_by
  have := chunk_consumed hp
  omega

def parse (d : Bytes) : R ParseError Sdes := do
  checkPacket 4 202 d
  let padding := ((← parsePadding d).getD 0).toNat
  if d.length < 4 + padding then
    .err (.truncated (4 + padding) d.length)
  else
    let chunksEnd := d.length - padding
    let chunks ← if chunksEnd > 4 then chunkLoop d chunksEnd 4 [] else pure []
    pure ⟨d, chunks⟩

def padding {ε : Type} (s : Sdes) : R ε (Option UInt8) := parsePadding s.data

end Sdes

/-! ## Builders -/

structure SdesItemBuilder where
  type : UInt8
  value : Bytes
  prefix_ : Bytes := []
deriving DecidableEq, Repr

namespace SdesItemBuilder

def calcSize (b : SdesItemBuilder) : R WriteError Nat :=
  let valueLen := b.value.length
  if b.type == SdesItem.PRIV then
    let prefixLen := b.prefix_.length
    if prefixLen + 1 > 255 then
      .err (.sdesPrivPrefixTooLarge prefixLen 254)
    else if prefixLen + 1 + valueLen > 255 then
      -- `VALUE_MAX_LEN - 1 - prefix_len as u8`
      .err (.sdesValueTooLarge valueLen (254 - prefixLen % 256).toUInt8)
    else .ok (3 + prefixLen + valueLen)
  else
    if valueLen > 255 then .err (.sdesValueTooLarge valueLen 255)
    else .ok (2 + valueLen)

def writeUnchecked (b : SdesItemBuilder) (buf : Bytes) : R WriteError (Bytes × Nat) := do
  let valueLen := b.value.length
  let buf ← setByte buf 0 b.type
  if b.type == SdesItem.PRIV then
    let prefixLen := b.prefix_.length
    let buf ← setByte buf 1 ((prefixLen + 1 + valueLen) % 256).toUInt8
    let buf ← setByte buf 2 (prefixLen % 256).toUInt8
    let e := prefixLen + 3
    let buf ← copyAt buf 3 e b.prefix_
    let i := e
    let e := e + valueLen
    let buf ← copyAt buf i e b.value
    pure (buf, e)
  else
    let buf ← setByte buf 1 (valueLen % 256).toUInt8
    let e := valueLen + 2
    let buf ← copyAt buf 2 e b.value
    pure (buf, e)

/-- `SdesItemBuilder::write_into` (hand-written copy of the blanket). -/
def writeInto (b : SdesItemBuilder) (buf : Bytes) : Bytes × R WriteError Nat :=
  Impl.writeInto b.calcSize b.writeUnchecked buf

/-- `into_owned` -/
def intoOwned (b : SdesItemBuilder) : SdesItemBuilder :=
  { type := b.type, prefix_ := b.prefix_, value := b.value }

end SdesItemBuilder

structure SdesChunkBuilder where
  ssrc : UInt32
  items : List SdesItemBuilder := []
deriving DecidableEq, Repr

namespace SdesChunkBuilder

def itemSizes : List SdesItemBuilder → Nat → R WriteError Nat
  | [], acc => .ok acc
  | it :: rest, acc =>
    match it.calcSize with
    | .ok n => itemSizes rest (acc + n)
    | .err e => .err e
    | .panic => .panic

def calcSize (b : SdesChunkBuilder) : R WriteError Nat := do
  let itemsSize ← itemSizes b.items 0
  pure (pad4 (4 + itemsSize + 1))

/-- `for item in items { idx += item.write_into_unchecked(&mut buf[idx..]) }` -/
def writeItems : List SdesItemBuilder → Bytes → Nat → R WriteError (Bytes × Nat)
  | [], buf, i => .ok (buf, i)
  | it :: rest, buf, i =>
    match withTail buf i it.writeUnchecked with
    | .ok (buf, n) => writeItems rest buf (i + n)
    | .err e => .err e
    | .panic => .panic

def writeUnchecked (b : SdesChunkBuilder) (buf : Bytes) : R WriteError (Bytes × Nat) := do
  let buf ← copyAt buf 0 4 (be32 b.ssrc)
  let (buf, i) ← writeItems b.items buf 4
  let e := pad4 (i + 1)
  let buf ← if e > i then fillAt buf i e 0 else pure buf
  pure (buf, e)

def writeInto (b : SdesChunkBuilder) (buf : Bytes) : Bytes × R WriteError Nat :=
  Impl.writeInto b.calcSize b.writeUnchecked buf

end SdesChunkBuilder

structure SdesBuilder where
  padding : UInt8 := 0
  chunks : List SdesChunkBuilder := []
deriving DecidableEq, Repr

namespace SdesBuilder

def chunkSizes : List SdesChunkBuilder → Nat → R WriteError Nat
  | [], acc => .ok acc
  | c :: rest, acc =>
    match c.calcSize with
    | .ok n => chunkSizes rest (acc + n)
    | .err e => .err e
    | .panic => .panic

def calcSize (b : SdesBuilder) : R WriteError Nat := do
  if b.chunks.length > 31 then
    .err (.tooManySdesChunks b.chunks.length 31)
  else
    checkPadding b.padding
    let chunksSize ← chunkSizes b.chunks 0
    checkPacketLen (4 + chunksSize + b.padding.toNat)

/-- `for chunk in chunks { idx += chunk.write_into_unchecked(&mut buf[idx..]) }` -/
def writeChunks : List SdesChunkBuilder → Bytes → Nat → R WriteError (Bytes × Nat)
  | [], buf, i => .ok (buf, i)
  | c :: rest, buf, i =>
    match withTail buf i c.writeUnchecked with
    | .ok (buf, n) => writeChunks rest buf (i + n)
    | .err e => .err e
    | .panic => .panic

def writeUnchecked (b : SdesBuilder) (buf : Bytes) : R WriteError (Bytes × Nat) := do
  let buf ← writeHeader 202 b.padding (b.chunks.length % 256).toUInt8 buf
  let (buf, i) ← writeChunks b.chunks buf 4
  let (buf, k) ← withTail buf i (writePadding b.padding)
  pure (buf, i + k)

def toWriter (b : SdesBuilder) : Writer := ⟨b.calcSize, b.writeUnchecked, getPaddingOf b.padding⟩

end SdesBuilder

end Rtcp.Impl
