/-
  Builder call sequences as data (C20): one constructor per public builder method, `apply` = what
  the method does to the builder (the functions of Rtcp/Impl/Setters.lean), `run` = the fold over
  the sequence.  The request driver evaluates a builder request as `run`.
-/
import Rtcp.Impl.Setters

namespace Rtcp.Impl
open Rtcp

inductive RbCall where
  | fl (v : UInt8) | cl (v : UInt32) | esn (v : UInt32) | jit (v : UInt32) | lsr (v : UInt32) | dlsr (v : UInt32)
deriving Repr, DecidableEq

def RbCall.apply (b : ReportBlockBuilder) : RbCall → ReportBlockBuilder
  | .fl v => b.setFractionLost v | .cl v => b.setCumulativeLost v | .esn v => b.setExtendedSequenceNumber v
  | .jit v => b.setInterarrivalJitter v | .lsr v => b.setLastSenderReportTimestamp v
  | .dlsr v => b.setDelaySinceLastSenderReportTimestamp v

def ReportBlockBuilder.run (b : ReportBlockBuilder) (cs : List RbCall) : ReportBlockBuilder := cs.foldl RbCall.apply b

inductive SrCall where
  | padding (v : UInt8) | ntp (v : UInt64) | rtp (v : UInt32) | packetCount (v : UInt32) | octetCount (v : UInt32)
  | addReportBlock (rb : ReportBlockBuilder)
deriving Repr, DecidableEq

def SrCall.apply (b : SrBuilder) : SrCall → SrBuilder
  | .padding v => b.setPadding v | .ntp v => b.setNtp v | .rtp v => b.setRtp v
  | .packetCount v => b.setPacketCount v | .octetCount v => b.setOctetCount v
  | .addReportBlock rb => b.addReportBlock rb

def SrBuilder.run (b : SrBuilder) (cs : List SrCall) : SrBuilder := cs.foldl SrCall.apply b

inductive RrCall where
  | padding (v : UInt8) | addReportBlock (rb : ReportBlockBuilder)
deriving Repr, DecidableEq

def RrCall.apply (b : RrBuilder) : RrCall → RrBuilder
  | .padding v => b.setPadding v | .addReportBlock rb => b.addReportBlock rb

def RrBuilder.run (b : RrBuilder) (cs : List RrCall) : RrBuilder := cs.foldl RrCall.apply b

inductive AppCall where
  | padding (v : UInt8) | subtype (v : UInt8) | data (v : Bytes)
deriving Repr, DecidableEq

def AppCall.apply (b : AppBuilder) : AppCall → AppBuilder
  | .padding v => b.setPadding v | .subtype v => b.setSubtype v | .data v => b.setData v

def AppBuilder.run (b : AppBuilder) (cs : List AppCall) : AppBuilder := cs.foldl AppCall.apply b

inductive ByeCall where
  | padding (v : UInt8) | addSource (s : UInt32) | reason (r : Bytes) | reasonOwned (r : Bytes)
deriving Repr, DecidableEq

def ByeCall.apply (b : ByeBuilder) : ByeCall → ByeBuilder
  | .padding v => b.setPadding v | .addSource s => b.addSource s | .reason r => b.setReason r
  | .reasonOwned r => b.reasonOwned r

def ByeBuilder.run (b : ByeBuilder) (cs : List ByeCall) : ByeBuilder := cs.foldl ByeCall.apply b

inductive ItemCall where
  | prefix_ (p : Bytes) | intoOwned
deriving Repr, DecidableEq

def ItemCall.apply (b : SdesItemBuilder) : ItemCall → SdesItemBuilder
  | .prefix_ p => b.setPrefix p | .intoOwned => b.intoOwned

def SdesItemBuilder.run (b : SdesItemBuilder) (cs : List ItemCall) : SdesItemBuilder := cs.foldl ItemCall.apply b

inductive ChunkCall where
  | addItem (it : SdesItemBuilder) | addItemOwned (it : SdesItemBuilder)
deriving Repr, DecidableEq

def ChunkCall.apply (b : SdesChunkBuilder) : ChunkCall → SdesChunkBuilder
  | .addItem it => b.addItem it | .addItemOwned it => b.addItemOwned it

def SdesChunkBuilder.run (b : SdesChunkBuilder) (cs : List ChunkCall) : SdesChunkBuilder := cs.foldl ChunkCall.apply b

inductive SdesCall where
  | padding (v : UInt8) | addChunk (c : SdesChunkBuilder)
deriving Repr, DecidableEq

def SdesCall.apply (b : SdesBuilder) : SdesCall → SdesBuilder
  | .padding v => b.setPadding v | .addChunk c => b.addChunk c

def SdesBuilder.run (b : SdesBuilder) (cs : List SdesCall) : SdesBuilder := cs.foldl SdesCall.apply b

inductive UnknownCall where
  | padding (v : UInt8) | count (v : UInt8)
deriving Repr, DecidableEq

def UnknownCall.apply (b : UnknownBuilder) : UnknownCall → UnknownBuilder
  | .padding v => b.setPadding v | .count v => b.setCount v

def UnknownBuilder.run (b : UnknownBuilder) (cs : List UnknownCall) : UnknownBuilder := cs.foldl UnknownCall.apply b

inductive FbCall where
  | padding (v : UInt8) | senderSsrc (v : UInt32) | mediaSsrc (v : UInt32)
deriving Repr, DecidableEq

def FbCall.apply (b : FbBuilder) : FbCall → FbBuilder
  | .padding v => b.setPadding v | .senderSsrc v => b.setSenderSsrc v | .mediaSsrc v => b.setMediaSsrc v

def FbBuilder.run (b : FbBuilder) (cs : List FbCall) : FbBuilder := cs.foldl FbCall.apply b

inductive RpsiCall where
  | payloadType (v : UInt8) | nativeData (d : Bytes) (k : UInt8) | nativeDataOwned (d : Bytes) (k : UInt8)
deriving Repr, DecidableEq

def RpsiCall.apply (b : RpsiBuilder) : RpsiCall → RpsiBuilder
  | .payloadType v => b.setPayloadType v | .nativeData d k => b.nativeData d k | .nativeDataOwned d k => b.nativeDataOwned d k

def RpsiBuilder.run (b : RpsiBuilder) (cs : List RpsiCall) : RpsiBuilder := cs.foldl RpsiCall.apply b

/-- NACK / FIR / SLI builders have a single adder each -/
def NackBuilder.run (b : NackBuilder) (ss : List UInt16) : NackBuilder := ss.foldl NackBuilder.addRtpSequence b
def FirBuilder.run (b : FirBuilder) (es : List (UInt32 × UInt8)) : FirBuilder := es.foldl (fun b e => b.addSsrc e.1 e.2) b
def SliBuilder.run (b : SliBuilder) (es : List (UInt16 × UInt16 × UInt8)) : SliBuilder :=
  es.foldl (fun b e => b.addLostMacroblock e.1 e.2.1 e.2.2) b

end Rtcp.Impl
