/-
  Model of /repo/src/utils.rs (parser and writer helpers) and of the blanket
  `RtcpPacketWriterExt::write_into` (lib.rs:85-92) and `RtcpPacketParserExt` (lib.rs:27-47).
-/
import Rtcp.Basic

namespace Rtcp.Impl
open Rtcp

/-! ## utils::parser -/

/-- `packet[0] >> 6` -/
def parseVersion {ε : Type} (p : Bytes) : R ε UInt8 := do
  let b ← idx p 0
  pure (b >>> 6)

/-- `(packet[0] & 0x20) != 0` -/
def parsePaddingBit {ε : Type} (p : Bytes) : R ε Bool := do
  let b ← idx p 0
  pure ((b &&& 0x20) != 0)

/-- `packet[0] & 0x1f` -/
def parseCount {ε : Type} (p : Bytes) : R ε UInt8 := do
  let b ← idx p 0
  pure (b &&& 0x1f)

/-- `packet[1]` -/
def parsePacketType {ε : Type} (p : Bytes) : R ε UInt8 := idx p 1

/-- `4 * (u16_from_be_bytes(&packet[2..4]) as usize + 1)` -/
def parseLength {ε : Type} (p : Bytes) : R ε Nat := do
  let s ← slice p 2 4
  let l ← fromBe16 s
  pure (4 * (l.toNat + 1))

/-- `parse_padding`: the last byte (at `length - 1`) if the P bit is set. -/
def parsePadding {ε : Type} (p : Bytes) : R ε (Option UInt8) := do
  if (← parsePaddingBit p) then
    let l ← parseLength p
    let i ← usub l 1
    let b ← idx p i
    pure (some b)
  else
    pure none

/-- `u32_from_be_bytes(&packet[4..8])` -/
def parseSsrc {ε : Type} (p : Bytes) : R ε UInt32 := do
  let s ← slice p 4 8
  fromBe32 s

/-- `check_packet::<P>` with `P::MIN_PACKET_LEN = minLen`, `P::PACKET_TYPE = pt`, `P::VERSION = 2`. -/
def checkPacket (minLen : Nat) (pt : UInt8) (p : Bytes) : R ParseError Unit := do
  if p.length < minLen then
    .err (.truncated minLen p.length)
  else
    let version ← parseVersion p
    if version != 2 then
      .err (.unsupportedVersion version)
    else
      let t ← parsePacketType p
      if t != pt then
        .err (.packetTypeMismatch t pt)
      else
        let length ← parseLength p
        if p.length < length then
          .err (.truncated length p.length)
        else if p.length > length then
          .err (.tooLarge length p.length)
        else
          match (← parsePadding p) with
          | some padding => if padding == 0 then .err .invalidPadding else pure ()
          | none => pure ()

/-! ## RtcpPacketParserExt: the header accessors go through `header_data() = data[..4]` -/

def headerData {ε : Type} (d : Bytes) : R ε Bytes := slice d 0 4

def hVersion {ε : Type} (d : Bytes) : R ε UInt8 := do parseVersion (← headerData d)
def hType {ε : Type} (d : Bytes) : R ε UInt8 := do parsePacketType (← headerData d)
def hCount {ε : Type} (d : Bytes) : R ε UInt8 := do parseCount (← headerData d)
def hLength {ε : Type} (d : Bytes) : R ε Nat := do parseLength (← headerData d)

/-! ## utils::writer -/

/-- `check_padding` -/
def checkPadding (padding : UInt8) : R WriteError Unit :=
  if padding % 4 != 0 then .err (.invalidPadding padding) else .ok ()

/-- `MAX_PACKET_LEN = 4 * (u16::MAX + 1)` -/
def maxPacketLen : Nat := 262144

/-- `check_packet_len` -/
def checkPacketLen (size : Nat) : R WriteError Nat :=
  if size > maxPacketLen then .err (.packetTooLarge size maxPacketLen) else .ok size

/-- `write_header_unchecked::<P>(padding, count, buf)`; returns the buffer (the Rust returns 4).
    `buf[0] = 2 << 6; if padding > 0 { buf[0] |= 0x20 }; buf[0] |= count; buf[1] = PT;
     buf[2..4] = ((len / 4 - 1) as u16).to_be_bytes()` -/
def writeHeader {ε : Type} (pt : UInt8) (padding count : UInt8) (buf : Bytes) : R ε Bytes := do
  let b0 : UInt8 := ((2 : UInt8) <<< 6) ||| (if padding > 0 then 0x20 else 0) ||| count
  let buf ← setByte buf 0 b0
  let buf ← setByte buf 1 pt
  let words ← usub (buf.length / 4) 1
  copyAt buf 2 4 (be16 (words % 65536).toUInt16)

/-- `write_padding_unchecked(padding, buf)`: returns the buffer and the number of bytes written. -/
def writePadding {ε : Type} (padding : UInt8) (buf : Bytes) : R ε (Bytes × Nat) :=
  if padding > 0 then do
    let e := padding.toNat
    let buf ← fillAt buf 0 (e - 1) 0
    let buf ← setByte buf (e - 1) padding
    pure (buf, e)
  else
    pure (buf, 0)

/-- `get_padding` as implemented by every built-in builder. -/
def getPaddingOf (padding : UInt8) : Option UInt8 :=
  if padding == 0 then none else some padding

/-! ## A writer as the compound builder sees it (`dyn RtcpPacketWriter`) -/

structure Writer where
  calcSize : R WriteError Nat
  write : Bytes → R WriteError (Bytes × Nat)
  getPadding : Option UInt8

/-- `RtcpPacketWriterExt::write_into` (and the two hand-written copies in sdes.rs): the final
    buffer together with the result. On `Err` nothing has been touched. After a panic the buffer
    contents are unspecified (the model returns the input). -/
def writeInto (calcSize : R WriteError Nat) (write : Bytes → R WriteError (Bytes × Nat))
    (buf : Bytes) : Bytes × R WriteError Nat :=
  match calcSize with
  | .err e => (buf, .err e)
  | .panic => (buf, .panic)
  | .ok n =>
    if buf.length < n then (buf, .err (.outputTooSmall n))
    else
      match write (buf.take n) with
      | .ok (b, m) => (b ++ buf.drop n, .ok m)
      | .err e => (buf, .err e)
      | .panic => (buf, .panic)

def Writer.writeInto (w : Writer) (buf : Bytes) : Bytes × R WriteError Nat :=
  Impl.writeInto w.calcSize w.write buf

end Rtcp.Impl
