/-
  Model of feedback/mod.rs (both feedback packet kinds, `parse_fci`, `fb_write_into`) and of the
  five FCI implementations nack.rs, fir.rs, sli.rs, rpsi.rs, pli.rs.

  16-bit shifts and masks are read as `/`, `%` and `Nat.testBit` on `toNat` (DESIGN §4); the
  reading is validated by the exhaustive per-field sweeps of the correspondence check.
-/
import Rtcp.Impl.Utils

namespace Rtcp.Impl
open Rtcp

/-- `FciFeedbackPacketType` -/
structure FbType where
  transport : Bool
  payload : Bool
deriving DecidableEq, Repr

namespace FbType
def none : FbType := ⟨false, false⟩
def TRANSPORT : FbType := ⟨true, false⟩
def PAYLOAD : FbType := ⟨false, true⟩
def and (a b : FbType) : FbType := ⟨a.transport && b.transport, a.payload && b.payload⟩
end FbType

/-! ## NACK (nack.rs) -/

namespace Nack

def parse (d : Bytes) : R ParseError Bytes := .ok d

/-- smallest `j` with `k ≤ j ≤ 16` and bit `j-1` of `mask` set: the inner `loop` of the iterator. -/
def findBit (mask : Nat) (k : Nat) : Option Nat :=
  if k > 16 then none
  else if mask.testBit (k - 1) then some k
  else findBit mask (k + 1)
termination_by 17 - k

/-- Iterator state `(i, mask_i)`. -/
abbrev St := Nat × Nat

/-- `NackParserEntryIter::next` -/
def next {ε : Type} (d : Bytes) (st : St) : R ε (Option UInt16 × St) := do
  let (i, m) := if st.2 > 16 then (st.1 + 1, 0) else st
  let ix := i * 4
  if ix + 3 ≥ d.length then pure (none, (i, m))
  else
    let e ← sliceFrom d ix
    let base ← fromBe16 (← slice e 0 2)
    let mask ← fromBe16 (← slice e 2 4)
    if m == 0 then pure (some base, (i, 1))
    else
      match findBit mask.toNat m with
      | some j => pure (some ((base.toNat + j) % 65536).toUInt16, (i, j + 1))
      | none =>
        -- inner loop ran out (`mask_i = 17`): the outer loop moves to the next word
        let i := i + 1
        let ix := i * 4
        if ix + 3 ≥ d.length then pure (none, (i, 0))
        else
          let e ← sliceFrom d ix
          let base ← fromBe16 (← slice e 0 2)
          let _ ← fromBe16 (← slice e 2 4)
          pure (some base, (i, 1))

/-- Drive the iterator for at most `fuel` steps. `none` as second component: fuel exhausted. -/
def collect {ε : Type} (d : Bytes) : Nat → St → List UInt16 → R ε (List UInt16 × Bool)
  | 0, _, acc => .ok (acc, false)
  | fuel + 1, st, acc =>
    match (next d st : R ε _) with
    | .ok (some v, st') => collect d fuel st' (acc ++ [v])
    | .ok (none, _) => .ok (acc, true)
    | .err e => .err e
    | .panic => .panic

def entries {ε : Type} (d : Bytes) : R ε (List UInt16 × Bool) := collect d (5 * d.length + 8) (0, 0) []

end Nack

/-- `BTreeSet<u16>::insert` on a strictly sorted list. -/
def sortedInsert (x : UInt16) : List UInt16 → List UInt16
  | [] => [x]
  | y :: ys => if x < y then x :: y :: ys else if x == y then y :: ys else y :: sortedInsert x ys

structure NackBuilder where
  rtpSeq : List UInt16 := []
deriving DecidableEq, Repr

namespace NackBuilder

def addRtpSequence (b : NackBuilder) (s : UInt16) : NackBuilder := ⟨sortedInsert s b.rtpSeq⟩

/-- `encode_entry(base, mask)` -/
def encodeEntry (base mask : Nat) : Bytes :=
  [(base / 256 % 256).toUInt8, (base % 256).toUInt8, (mask / 256 % 256).toUInt8, (mask % 256).toUInt8]

/-- `NackBuilderEntryIter` run to completion over the ascending sequence list:
    `go base bitmask rest`. `diff = entry.wrapping_sub(base)`; `diff > 16` flushes. -/
def go (base : Nat) (bitmask : Nat) : List UInt16 → List Bytes
  | [] => [encodeEntry base bitmask]
  | e :: rest =>
    let diff := (e.toNat + 65536 - base) % 65536
    if diff > 16 then encodeEntry base bitmask :: go e.toNat 0 rest
    else if diff > 0 then go base (bitmask ||| (1 <<< (diff - 1))) rest
    else go base bitmask rest

def entries (b : NackBuilder) : List Bytes :=
  match b.rtpSeq with
  | [] => []
  | s :: rest => go s.toNat 0 rest

def calcSize (b : NackBuilder) : R WriteError Nat :=
  let n := b.entries.length
  if n > 65533 then .err .tooManyNack else .ok (n * 4)

def writeEntries : List Bytes → Bytes → Nat → R WriteError (Bytes × Nat)
  | [], buf, i => .ok (buf, i)
  | e :: rest, buf, i =>
    match copyAt buf i (i + 4) e with
    | .ok buf => writeEntries rest buf (i + 4)
    | .err er => .err er
    | .panic => .panic

def writeUnchecked (b : NackBuilder) (buf : Bytes) : R WriteError (Bytes × Nat) :=
  writeEntries b.entries buf 0

end NackBuilder

/-! ## FIR (fir.rs) -/

namespace Fir

def parse (d : Bytes) : R ParseError Bytes :=
  if d.length < 8 then .err (.truncated 8 d.length) else .ok d

/-- `FirParserEntryIter::next` with state `i` -/
def next {ε : Type} (d : Bytes) (i : Nat) : R ε (Option (UInt32 × UInt8) × Nat) := do
  let ix := i * 8
  if ix + 7 ≥ d.length then pure (none, i)
  else
    let e ← sliceFrom d ix
    let ssrc ← fromBe32 (← slice e 0 4)
    let seq ← idx e 4
    pure (some (ssrc, seq), i + 1)

def collect {ε : Type} (d : Bytes) : Nat → Nat → List (UInt32 × UInt8) → R ε (List (UInt32 × UInt8) × Bool)
  | 0, _, acc => .ok (acc, false)
  | fuel + 1, st, acc =>
    match (next d st : R ε _) with
    | .ok (some v, st') => collect d fuel st' (acc ++ [v])
    | .ok (none, _) => .ok (acc, true)
    | .err e => .err e
    | .panic => .panic

def entries {ε : Type} (d : Bytes) : R ε (List (UInt32 × UInt8) × Bool) := collect d (d.length + 8) 0 []

end Fir

/-- `HashMap<u32, u8>` as an association list: key-unique, iteration order = first insertion
    (the real order is arbitrary; theorems quantify over permutations, comparisons sort). -/
structure FirBuilder where
  ssrcSeq : List (UInt32 × UInt8) := []
deriving DecidableEq, Repr

namespace FirBuilder

def upsert (k : UInt32) (v : UInt8) : List (UInt32 × UInt8) → List (UInt32 × UInt8)
  | [] => [(k, v)]
  | (k', v') :: rest => if k' == k then (k, v) :: rest else (k', v') :: upsert k v rest

def addSsrc (b : FirBuilder) (ssrc : UInt32) (seq : UInt8) : FirBuilder := ⟨upsert ssrc seq b.ssrcSeq⟩

def calcSize (b : FirBuilder) : R WriteError Nat :=
  let n := b.ssrcSeq.length
  if n > 32766 then .err .tooManyFir else .ok (n * 2 * 4)

def writeEntries : List (UInt32 × UInt8) → Bytes → Nat → R WriteError (Bytes × Nat)
  | [], buf, i => .ok (buf, i)
  | (ssrc, seq) :: rest, buf, i =>
    match copyAt buf i (i + 4) (be32 ssrc) with
    | .ok buf =>
      match copyAt buf (i + 4) (i + 8) [seq, 0, 0, 0] with
      | .ok buf => writeEntries rest buf (i + 8)
      | .err er => .err er
      | .panic => .panic
    | .err er => .err er
    | .panic => .panic

def writeUnchecked (b : FirBuilder) (buf : Bytes) : R WriteError (Bytes × Nat) :=
  writeEntries b.ssrcSeq buf 0

end FirBuilder

/-! ## SLI (sli.rs) -/

structure MacroBlockEntry where
  start : UInt16
  count : UInt16
  pictureId : UInt8
deriving DecidableEq, Repr

namespace MacroBlockEntry

def encode (e : MacroBlockEntry) : Bytes :=
  let s := e.start.toNat
  let c := e.count.toNat
  let p := e.pictureId.toNat
  [ (s / 32 % 256).toUInt8,
    ((s % 32) * 8 + c / 1024 % 8).toUInt8,
    (c / 4 % 256).toUInt8,
    ((c % 4) * 64 + p % 64).toUInt8 ]

def decode (d0 d1 d2 d3 : UInt8) : MacroBlockEntry :=
  { start := (d0.toNat * 32 + d1.toNat / 8).toUInt16
    count := ((d1.toNat % 8) * 1024 + d2.toNat * 4 + d3.toNat / 64).toUInt16
    pictureId := (d3.toNat % 64).toUInt8 }

end MacroBlockEntry

namespace Sli

def parse (d : Bytes) : R ParseError Bytes :=
  if d.length < 4 then .err (.truncated 4 d.length) else .ok d

/-- `MacroBlockIter::next` with state `i` -/
def next {ε : Type} (d : Bytes) (i : Nat) : R ε (Option MacroBlockEntry × Nat) := do
  if i + 3 ≥ d.length then pure (none, i)
  else
    let d0 ← idx d i
    let d1 ← idx d (i + 1)
    let d2 ← idx d (i + 2)
    let d3 ← idx d (i + 3)
    pure (some (MacroBlockEntry.decode d0 d1 d2 d3), i + 4)

def collect {ε : Type} (d : Bytes) : Nat → Nat → List MacroBlockEntry → R ε (List MacroBlockEntry × Bool)
  | 0, _, acc => .ok (acc, false)
  | fuel + 1, st, acc =>
    match (next d st : R ε _) with
    | .ok (some v, st') => collect d fuel st' (acc ++ [v])
    | .ok (none, _) => .ok (acc, true)
    | .err e => .err e
    | .panic => .panic

def lostMacroblocks {ε : Type} (d : Bytes) : R ε (List MacroBlockEntry × Bool) := collect d (d.length + 8) 0 []

end Sli

structure SliBuilder where
  lostMbs : List MacroBlockEntry := []
deriving DecidableEq, Repr

namespace SliBuilder

def addLostMacroblock (b : SliBuilder) (s c : UInt16) (p : UInt8) : SliBuilder :=
  ⟨b.lostMbs ++ [⟨s, c, p⟩]⟩

def calcSize (b : SliBuilder) : R WriteError Nat := .ok (4 * b.lostMbs.length)

def writeEntries : List MacroBlockEntry → Bytes → Nat → R WriteError (Bytes × Nat)
  | [], buf, i => .ok (buf, i)
  | e :: rest, buf, i =>
    match e.encode with
    | [e0, e1, e2, e3] =>
      match (do
        let buf ← setByte buf i e0
        let buf ← setByte buf (i + 1) e1
        let buf ← setByte buf (i + 2) e2
        setByte buf (i + 3) e3 : R WriteError Bytes) with
      | .ok buf => writeEntries rest buf (i + 4)
      | .err er => .err er
      | .panic => .panic
    | _ => .panic

def writeUnchecked (b : SliBuilder) (buf : Bytes) : R WriteError (Bytes × Nat) :=
  writeEntries b.lostMbs buf 0

end SliBuilder

/-! ## RPSI (rpsi.rs) -/

namespace Rpsi

def paddingBytes {ε : Type} (d : Bytes) : R ε Nat := do pure ((← idx d 0).toNat / 8)

def parse (d : Bytes) : R ParseError Bytes := do
  if d.length < 4 then
    .err (.truncated 4 d.length)
  else
    let pb ← paddingBytes d
    if pb > d.length - 2 then .err (.truncated (pb + 2) d.length)
    else pure d

/-- `data[1] & 0x7f` -/
def payloadType {ε : Type} (d : Bytes) : R ε UInt8 := do pure ((← idx d 1).toNat % 128).toUInt8

/-- `bit_string()`: the data slice and the number of bits to drop from its last byte. -/
def bitString {ε : Type} (base : Nat) (d : Bytes) : R ε (Slice × Nat) := do
  let pb ← paddingBytes d
  let d0 ← idx d 0
  let bits ← usub d0.toNat (pb * 8)
  let e ← usub d.length pb
  let s ← sliceS base d 2 e
  pure (s, bits)

end Rpsi

structure RpsiBuilder where
  payloadType : UInt8 := 0
  nativeBitString : Bytes := []
  nativeBitOverrun : UInt8 := 0
deriving DecidableEq, Repr

namespace RpsiBuilder

def nativeData (b : RpsiBuilder) (d : Bytes) (k : UInt8) : RpsiBuilder :=
  { b with nativeBitString := d, nativeBitOverrun := k }

def nativeDataOwned (b : RpsiBuilder) (d : Bytes) (k : UInt8) : RpsiBuilder :=
  { payloadType := b.payloadType, nativeBitString := d, nativeBitOverrun := k }

def calcSize (b : RpsiBuilder) : R WriteError Nat :=
  if b.payloadType > 127 then .err .payloadTypeInvalid
  else if b.nativeBitOverrun > 8 || (b.nativeBitString.isEmpty && b.nativeBitOverrun > 0) then
    .err .paddingBitsTooLarge
  else .ok (pad4 (2 + b.nativeBitString.length))

/-- `while idx < end { buf[idx] = 0; idx += 1 }` -/
def zeroLoop : Nat → Bytes → Nat → R WriteError (Bytes × Nat)
  | 0, buf, i => .ok (buf, i)
  | k + 1, buf, i =>
    match setByte buf i 0 with
    | .ok buf => zeroLoop k buf (i + 1)
    | .err e => .err e
    | .panic => .panic

def writeUnchecked (b : RpsiBuilder) (buf : Bytes) : R WriteError (Bytes × Nat) := do
  let len := b.nativeBitString.length
  let e := pad4 (2 + len)
  let trailingBits := 8 * (e - len - 2) + b.nativeBitOverrun.toNat
  let buf ← setByte buf 0 (trailingBits % 256).toUInt8
  let buf ← setByte buf 1 b.payloadType
  let i := 2 + len
  let buf ← copyAt buf 2 i b.nativeBitString
  let buf ←
    if !b.nativeBitString.isEmpty then do
      -- `buf[idx - 1] &= !bitmask` with `bitmask = (1 << overrun) - 1` (as u8)
      let last ← idx buf (i - 1)
      let k := b.nativeBitOverrun.toNat
      setByte buf (i - 1) (last.toNat / 2 ^ k * 2 ^ k % 256).toUInt8
    else pure buf
  zeroLoop (e - i) buf i

end RpsiBuilder

/-! ## PLI (pli.rs) -/

namespace Pli
def parse (d : Bytes) : R ParseError Bytes :=
  if !d.isEmpty then .err (.tooLarge 0 d.length) else .ok d
end Pli

/-! ## FCI builders behind `dyn FciBuilder` -/

structure Fci where
  format : UInt8
  supports : FbType
  w : Writer

def NackBuilder.toFci (b : NackBuilder) : Fci := ⟨1, FbType.TRANSPORT, ⟨b.calcSize, b.writeUnchecked, none⟩⟩
def FirBuilder.toFci (b : FirBuilder) : Fci := ⟨4, FbType.PAYLOAD, ⟨b.calcSize, b.writeUnchecked, none⟩⟩
def SliBuilder.toFci (b : SliBuilder) : Fci := ⟨2, FbType.PAYLOAD, ⟨b.calcSize, b.writeUnchecked, none⟩⟩
def RpsiBuilder.toFci (b : RpsiBuilder) : Fci := ⟨3, FbType.PAYLOAD, ⟨b.calcSize, b.writeUnchecked, none⟩⟩
def pliFci : Fci := ⟨1, FbType.PAYLOAD, ⟨.ok 0, fun buf => .ok (buf, 0), none⟩⟩

/-- The five built-in FCI builders. -/
inductive FciB where
  | nack (b : NackBuilder)
  | fir (b : FirBuilder)
  | sli (b : SliBuilder)
  | rpsi (b : RpsiBuilder)
  | pli
deriving DecidableEq, Repr

def FciB.toFci : FciB → Fci
  | .nack b => b.toFci
  | .fir b => b.toFci
  | .sli b => b.toFci
  | .rpsi b => b.toFci
  | .pli => pliFci

/-! ## Feedback packets (feedback/mod.rs) -/

inductive FbKind | transport | payload
deriving DecidableEq, Repr

def FbKind.pt : FbKind → UInt8
  | .transport => 205
  | .payload => 206

def FbKind.ty : FbKind → FbType
  | .transport => FbType.TRANSPORT
  | .payload => FbType.PAYLOAD

namespace Fb

def parse (k : FbKind) (d : Bytes) : R ParseError Bytes := do
  checkPacket 12 k.pt d
  match (← parsePadding d) with
  | some p =>
    let minLen := 12 + p.toNat
    if d.length < minLen then .err (.truncated minLen d.length) else pure d
  | none => pure d

def padding {ε : Type} (d : Bytes) : R ε (Option UInt8) := parsePadding d
def senderSsrc {ε : Type} (d : Bytes) : R ε UInt32 := parseSsrc d
/-- `parse_ssrc(&data[4..])` -/
def mediaSsrc {ε : Type} (d : Bytes) : R ε UInt32 := do parseSsrc (← sliceFrom d 4)

/-- The five FCI parsers as `parse_fci::<F>` sees them. -/
inductive FciType | nack | fir | sli | rpsi | pli
deriving DecidableEq, Repr

def FciType.packetType : FciType → FbType
  | .nack => FbType.TRANSPORT
  | _ => FbType.PAYLOAD

def FciType.format : FciType → UInt8
  | .nack => 1 | .fir => 4 | .sli => 2 | .rpsi => 3 | .pli => 1

def FciType.parse : FciType → Bytes → R ParseError Bytes
  | .nack => Nack.parse | .fir => Fir.parse | .sli => Sli.parse | .rpsi => Rpsi.parse | .pli => Pli.parse

/-- `parse_fci::<F>()`: gating on kind and format, then `F::parse(&data[12..len - padding])`.
    Returns the FCI bytes (they start at offset 12 of the packet). -/
def parseFci (k : FbKind) (f : FciType) (d : Bytes) : R ParseError Bytes := do
  if FbType.and f.packetType k.ty == FbType.none then
    .err .wrongImplementation
  else if (← parseCount d) != f.format then
    .err .wrongImplementation
  else
    let padding := ((← parsePadding d).getD 0).toNat
    let e ← usub d.length padding
    f.parse (← slice d 12 e)

end Fb

structure FbBuilder where
  kind : FbKind
  fci : Fci
  padding : UInt8 := 0
  senderSsrc : UInt32 := 0
  mediaSsrc : UInt32 := 0

namespace FbBuilder

def calcSize (b : FbBuilder) : R WriteError Nat := do
  checkPadding b.padding
  if FbType.and b.fci.supports b.kind.ty == FbType.none then
    .err .fciWrongFeedbackPacketType
  else
    let fciLen ← b.fci.w.calcSize
    checkPacketLen (12 + pad4 fciLen + b.padding.toNat)

/-- `fb_write_into` -/
def writeUnchecked (b : FbBuilder) (buf : Bytes) : R WriteError (Bytes × Nat) := do
  if FbType.and b.kind.ty b.fci.supports == FbType.none then
    pure (buf, 0)
  else
    let fmt := b.fci.format
    if fmt > 0x1f then .panic
    else
      let buf ← writeHeader b.kind.pt b.padding fmt buf
      let buf ← copyAt buf 4 8 (be32 b.senderSsrc)
      let buf ← copyAt buf 8 12 (be32 b.mediaSsrc)
      let (buf, n) ← withTail buf 12 b.fci.w.write
      let e := 12 + n
      let (buf, k) ← withTail buf e (writePadding b.padding)
      pure (buf, e + k)

def toWriter (b : FbBuilder) : Writer := ⟨b.calcSize, b.writeUnchecked, getPaddingOf b.padding⟩

end FbBuilder

end Rtcp.Impl
