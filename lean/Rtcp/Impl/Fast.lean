/-
  Linear-time versions of the iterator drivers of the model (`Nack.entries`, `Fir.entries`,
  `Sli.lostMacroblocks`, `Compound.collect`).  The model's own drivers append with `acc ++ [v]` and
  re-slice the input from the start at every step; these walk the byte list once, consuming one
  word per step by pattern matching, and accumulate in reverse.  They are proved equal to the
  model's definitions, for all inputs, in `Rtcp/Proofs/Fast.lean`; nothing here is trusted.
-/
import Rtcp.Impl.Compound

namespace Rtcp.Impl.Fast
open Rtcp Rtcp.Impl

/-! ## NACK -/

/-- the sequence numbers of one generic NACK word `a b c e` (PID, then PID+k+1 for each set bit k of BLP) -/
def nackWord (a b c e : UInt8) : List UInt16 :=
  let pid := a.toNat * 256 + b.toNat
  let blp := c.toNat * 256 + e.toNat
  pid.toUInt16 ::
    ((List.range 16).filter (fun k => blp.testBit k)).map (fun k => ((pid + k + 1) % 65536).toUInt16)

/-- one pass over the bytes, 4 at a time; `acc` is the result so far, reversed -/
def nackGo : Bytes → List UInt16 → List UInt16
  | a :: b :: c :: e :: rest, acc => nackGo rest ((nackWord a b c e).reverse ++ acc)
  | _, acc => acc.reverse

def nackEntries {ε : Type} (d : Bytes) : R ε (List UInt16 × Bool) := .ok (nackGo d [], true)

/-! ## FIR -/

def firGo : Bytes → List (UInt32 × UInt8) → List (UInt32 × UInt8)
  | a :: b :: c :: d :: e :: _ :: _ :: _ :: rest, acc =>
    firGo rest (((a.toNat * 16777216 + b.toNat * 65536 + c.toNat * 256 + d.toNat).toUInt32, e) :: acc)
  | _, acc => acc.reverse

def firEntries {ε : Type} (d : Bytes) : R ε (List (UInt32 × UInt8) × Bool) := .ok (firGo d [], true)

/-! ## SLI -/

def sliGo : Bytes → List MacroBlockEntry → List MacroBlockEntry
  | a :: b :: c :: d :: rest, acc => sliGo rest (MacroBlockEntry.decode a b c d :: acc)
  | _, acc => acc.reverse

def sliEntries {ε : Type} (d : Bytes) : R ε (List MacroBlockEntry × Bool) := .ok (sliGo d [], true)

/-! ## Compound -/

/-- `Compound.collect` with the iterator state spread out: `data` and `len = data.length` are fixed,
    `rest` is `data.drop off` (threaded instead of re-sliced), `acc` is reversed.
    Out of bounds reads (`rest` shorter than a header, a tile past the end) panic like the model. -/
def compoundGo {ε : Type} (data : Bytes) (len : Nat) :
    Nat → Bytes → Nat → Bool → List (R ParseError Packet × Nat) →
    R ε (List (R ParseError Packet × Nat) × Bool × Compound)
  | 0, _, off, over, acc => .ok (acc.reverse, false, ⟨data, off, over⟩)
  | fuel + 1, rest, off, over, acc =>
    if over then .ok (acc.reverse, true, ⟨data, off, over⟩)
    else
      match rest with
      | _ :: _ :: x :: y :: _ =>
        let pl := 4 * (x.toNat * 256 + y.toNat + 1)
        if off + pl ≤ len then
          match Packet.parse (rest.take pl) with
          | .panic => .panic
          | res =>
            let off' := off + pl
            compoundGo data len fuel (rest.drop pl) off' (!res.isOk || decide (off' ≥ len)) ((res, off) :: acc)
        else .panic
      | _ => .panic

def compoundCollect {ε : Type} (fuel : Nat) (c : Compound) :
    R ε (List (R ParseError Packet × Nat) × Bool × Compound) :=
  compoundGo c.data c.data.length fuel (c.data.drop c.offset) c.offset c.isOver []

end Rtcp.Impl.Fast
