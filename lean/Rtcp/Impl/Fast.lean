/-
  Linear-time versions of the iterator drivers of the model (`Nack.entries`, `Fir.entries`,
  `Sli.lostMacroblocks`, `Compound.collect`).  The model's own drivers append with `acc ++ [v]` and
  re-slice the input from the start at every step; these walk the byte list once, consuming one
  word per step by pattern matching, and accumulate in reverse.  They are proved equal to the
  model's definitions, for all inputs, in `Rtcp/Proofs/Fast.lean`; nothing here is trusted.
-/
import Rtcp.Impl.Compound

namespace Rtcp.Impl.Fast
open Rtcp Rtcp.Impl

/-! ## NACK -/

/-- the sequence numbers of one generic NACK word `a b c e` (PID, then PID+k+1 for each set bit k of BLP) -/
def nackWord (a b c e : UInt8) : List UInt16 :=
  let pid := a.toNat * 256 + b.toNat
  let blp := c.toNat * 256 + e.toNat
  pid.toUInt16 ::
    ((List.range 16).filter (fun k => blp.testBit k)).map (fun k => ((pid + k + 1) % 65536).toUInt16)

/-- one pass over the bytes, 4 at a time; `acc` is the result so far, reversed -/
def nackGo : Bytes → List UInt16 → List UInt16
  | a :: b :: c :: e :: rest, acc => nackGo rest ((nackWord a b c e).reverse ++ acc)
  | _, acc => acc.reverse

def nackEntries {ε : Type} (d : Bytes) : R ε (List UInt16 × Bool) := .ok (nackGo d [], true)

/-! ## FIR -/

def firGo : Bytes → List (UInt32 × UInt8) → List (UInt32 × UInt8)
  | a :: b :: c :: d :: e :: _ :: _ :: _ :: rest, acc =>
    firGo rest (((a.toNat * 16777216 + b.toNat * 65536 + c.toNat * 256 + d.toNat).toUInt32, e) :: acc)
  | _, acc => acc.reverse

def firEntries {ε : Type} (d : Bytes) : R ε (List (UInt32 × UInt8) × Bool) := .ok (firGo d [], true)

/-! ## SLI -/

def sliGo : Bytes → List MacroBlockEntry → List MacroBlockEntry
  | a :: b :: c :: d :: rest, acc => sliGo rest (MacroBlockEntry.decode a b c d :: acc)
  | _, acc => acc.reverse

def sliEntries {ε : Type} (d : Bytes) : R ε (List MacroBlockEntry × Bool) := .ok (sliGo d [], true)

/-! ## Compound -/

/-- `Compound.collect` with the iterator state spread out: `data` and `len = data.length` are fixed,
    `rest` is `data.drop off` (threaded instead of re-sliced), `acc` is reversed.
    Out of bounds reads (`rest` shorter than a header, a tile past the end) panic like the model. -/
def compoundGo {ε : Type} (data : Bytes) (len : Nat) :
    Nat → Bytes → Nat → Bool → List (R ParseError Packet × Nat) →
    R ε (List (R ParseError Packet × Nat) × Bool × Compound)
  | 0, _, off, over, acc => .ok (acc.reverse, false, ⟨data, off, over⟩)
  | fuel + 1, rest, off, over, acc =>
    if over then .ok (acc.reverse, true, ⟨data, off, over⟩)
    else
      match rest with
      | _ :: _ :: x :: y :: _ =>
        let pl := 4 * (x.toNat * 256 + y.toNat + 1)
        if off + pl ≤ len then
          match Packet.parse (rest.take pl) with
          | .panic => .panic
          | res =>
            let off' := off + pl
            compoundGo data len fuel (rest.drop pl) off' (!res.isOk || decide (off' ≥ len)) ((res, off) :: acc)
        else .panic
      | _ => .panic

def compoundCollect {ε : Type} (fuel : Nat) (c : Compound) :
    R ε (List (R ParseError Packet × Nat) × Bool × Compound) :=
  compoundGo c.data c.data.length fuel (c.data.drop c.offset) c.offset c.isOver []

/-! ## Compound.parse -/

/-- the validation loop of `Compound::parse` with `rest = d.drop off` threaded and `len = d.length` -/
def parseGo (len : Nat) (rest : Bytes) (off : Nat) : R ParseError Unit :=
  if off < len then
    match rest with
    | _ :: _ :: x :: y :: _ =>
      if len < off + 4 * (x.toNat * 256 + y.toNat + 1) then
        .err (.truncated (off + 4 * (x.toNat * 256 + y.toNat + 1)) len)
      else parseGo len (rest.drop (4 * (x.toNat * 256 + y.toNat + 1))) (off + 4 * (x.toNat * 256 + y.toNat + 1))
    | _ => .err (.truncated (off + 4) len)
  else .ok ()
termination_by len - off
decreasing_by omega

def compoundParse (d : Bytes) : R ParseError Compound :=
  if d.isEmpty then .err (.truncated 4 0)
  else
    match parseGo d.length d 0 with
    | .ok () => .ok ⟨d, 0, false⟩
    | .err e => .err e
    | .panic => .panic

/-! ## Sdes.parse

  Same scanner as `Sdes.parse`, but every loop threads the remaining bytes and is told their
  number `n` instead of recomputing `List.length` / `List.drop off` from the start. -/

/-- `SdesItem.parse base d` where `n` stands for `d.length` -/
def itemParseN (base : Nat) (d : Bytes) (n : Nat) : R ParseError (SdesItem × Nat) := do
  if n < 2 then
    .err (.truncated 2 n)
  else
    let length := (← idx d 1).toNat
    let e := 2 + length
    if e > n then
      .err (.truncated e n)
    else if length > 255 then
      .err (.sdesValueTooLarge length 255)
    else
      let item : SdesItem := ⟨base, d.take e⟩
      if (← item.type) == SdesItem.PRIV then
        if item.data.length < 3 then
          .err (.truncated 3 item.data.length)
        else
          let prefixLen ← item.privPrefixLen
          let valueOffset ← item.privValueOffset
          if valueOffset > item.data.length then
            let av ← usub (length % 256) 1
            .err (.sdesPrivPrefixTooLarge prefixLen.toNat av.toUInt8)
          else pure (item, e)
      else pure (item, e)

theorem itemParseN_consumed {base : Nat} {d : Bytes} {n : Nat} {it : SdesItem} {e : Nat}
    (h : itemParseN base d n = .ok (it, e)) : 2 ≤ e ∧ e ≤ n := by
  unfold itemParseN at h
  simp only [bind, R.bind, pure] at h
  split at h
  · cases h
  · cases hi : (idx d 1 : R ParseError UInt8) <;> simp only [hi] at h <;> try cases h
    split at h
    · cases h
    · split at h
      · cases h
      · split at h <;> try cases h
        rename_i ty _
        split at h
        · split at h
          · cases h
          · split at h <;> try cases h
            split at h <;> try cases h
            split at h
            · split at h <;> cases h
            · cases h; omega
        · cases h; omega

/-- `SdesChunk.itemLoop base d off acc` with `len = d.length`, `rest = d.drop off`, `acc` reversed -/
def itemGo (base len : Nat) (rest : Bytes) (off : Nat) (acc : List SdesItem) :
    R ParseError (List SdesItem × Nat) :=
  if off < len then
    if rest.head? == some 0 then .ok (acc.reverse, off + 1)
    else
      match hp : itemParseN (base + off) rest (len - off) with
      | .ok (item, e) => itemGo base len (rest.drop e) (off + e) (item :: acc)
      | .err er => .err er
      | .panic => .panic
  else .ok (acc.reverse, off)
termination_by len - off
decreasing_by
  have := itemParseN_consumed hp
  omega

theorem itemGo_ge (base len : Nat) (rest : Bytes) (off : Nat) (acc : List SdesItem)
    {items : List SdesItem} {e : Nat}
    (h : itemGo base len rest off acc = .ok (items, e)) : off ≤ e := by
  fun_induction itemGo base len rest off acc with
  | case1 rest off acc hlt hz => cases h; omega
  | case2 rest off acc hlt hz item e' hp ih =>
    have := ih h
    have := itemParseN_consumed hp
    omega
  | case3 rest off acc hlt hz er hp => cases h
  | case4 rest off acc hlt hz hp => cases h
  | case5 rest off acc hge => cases h; omega

/-- `SdesChunk.parse base d` where `n` stands for `d.length` -/
def chunkParseN (base : Nat) (d : Bytes) (n : Nat) : R ParseError (SdesChunk × Nat) := do
  if n < 4 then
    .err (.truncated 4 n)
  else
    let ssrc ← fromBe32 (d.take 4)
    let (items, off) ←
      if n > 4 then do
        let (items, off) ← itemGo base n (d.drop 4) 4 []
        let fillEnd := min (pad4 off) n
        pure (items, SdesChunk.skipZeros d off fillEnd)
      else pure ([], 4)
    if pad4 off != off then
      .err (.truncated (pad4 off) off)
    else pure (⟨ssrc, items⟩, off)

theorem chunkParseN_consumed {base : Nat} {d : Bytes} {n : Nat} {c : SdesChunk} {e : Nat}
    (h : chunkParseN base d n = .ok (c, e)) : 4 ≤ e := by
  unfold chunkParseN at h
  simp only [bind, R.bind, pure] at h
  split at h
  · cases h
  · split at h <;> try cases h
    split at h
    · split at h <;> try cases h
      rename_i a hloop
      obtain ⟨items, off⟩ := a
      split at h <;> try cases h
      have h1 := itemGo_ge _ _ _ _ _ hloop
      have h2 := Sdes.skipZeros_ge d off (min (pad4 off) n)
      simp only at h2 ⊢
      omega
    · split at h <;> cases h
      omega

/-- `Sdes.chunkLoop d chunksEnd off acc` with `rest = (d.take chunksEnd).drop off`, `acc` reversed -/
def chunkGo (chunksEnd : Nat) (rest : Bytes) (off : Nat) (acc : List SdesChunk) :
    R ParseError (List SdesChunk) :=
  if off < chunksEnd then
    match hp : chunkParseN off rest (chunksEnd - off) with
    | .ok (c, e) => chunkGo chunksEnd (rest.drop e) (off + e) (c :: acc)
    | .err er => .err er
    | .panic => .panic
  else .ok acc.reverse
termination_by chunksEnd - off
decreasing_by
  have := chunkParseN_consumed hp
  omega

def sdesParse (d : Bytes) : R ParseError Sdes := do
  checkPacket 4 202 d
  let padding := ((← parsePadding d).getD 0).toNat
  let len := d.length
  if len < 4 + padding then
    .err (.truncated (4 + padding) len)
  else
    let chunksEnd := len - padding
    let chunks ← if chunksEnd > 4 then chunkGo chunksEnd ((d.take chunksEnd).drop 4) 4 [] else pure []
    pure ⟨d, chunks⟩

end Rtcp.Impl.Fast

namespace Rtcp.Impl.Fast
open Rtcp Rtcp.Impl

/-- `Kind.parse` with the linear SDES scanner -/
def kindParse : Kind → Bytes → R ParseError Packet
  | .sdes, d => Packet.sdes <$> Fast.sdesParse d
  | k, d => k.parse d

/-- `Packet.parse` with the linear SDES scanner -/
def packetParse (d : Bytes) : R ParseError Packet := do
  if d.length < 4 then
    .err (.truncated 4 d.length)
  else
    let t ← parsePacketType d
    if t == 202 then kindParse .sdes d else Packet.parse d

end Rtcp.Impl.Fast
