/-
  Model of report_block.rs, sender.rs, receiver.rs, app.rs, bye.rs and of `Unknown` /
  `UnknownBuilder` from compound.rs: parsers, accessors and builders.

  A parsed fixed-layout view is its byte string (the Rust structs hold `data: &[u8]` only).
-/
import Rtcp.Impl.Utils

namespace Rtcp.Impl
open Rtcp

/-! ## ReportBlock (report_block.rs) -/

namespace ReportBlock

def parse (d : Bytes) : R ParseError Bytes :=
  if d.length < 24 then .err (.truncated 24 d.length)
  else if d.length > 24 then .err (.tooLarge 24 d.length)
  else .ok d

def ssrc {ε : Type} (d : Bytes) : R ε UInt32 := do fromBe32 (← slice d 0 4)
def fractionLost {ε : Type} (d : Bytes) : R ε UInt8 := idx d 4
/-- `u32_from_be_bytes(&data[4..8]) & 0xffffff` -/
def cumulativeLost {ε : Type} (d : Bytes) : R ε UInt32 := do
  let x ← fromBe32 (← slice d 4 8)
  pure (x.toNat % 16777216).toUInt32
def extendedSequenceNumber {ε : Type} (d : Bytes) : R ε UInt32 := do fromBe32 (← slice d 8 12)
def interarrivalJitter {ε : Type} (d : Bytes) : R ε UInt32 := do fromBe32 (← slice d 12 16)
def lastSenderReportTimestamp {ε : Type} (d : Bytes) : R ε UInt32 := do fromBe32 (← slice d 16 20)
def delaySinceLastSenderReportTimestamp {ε : Type} (d : Bytes) : R ε UInt32 := do fromBe32 (← slice d 20 24)

end ReportBlock

structure ReportBlockBuilder where
  ssrc : UInt32
  fractionLost : UInt8 := 0
  cumulativeLost : UInt32 := 0
  extendedSequenceNumber : UInt32 := 0
  interarrivalJitter : UInt32 := 0
  lastSenderReportTimestamp : UInt32 := 0
  delaySinceLastSenderReportTimestamp : UInt32 := 0
deriving DecidableEq, Repr

namespace ReportBlockBuilder

/-- `cumulative_lost & !0xffffff != 0` -/
def calcSize (b : ReportBlockBuilder) : R WriteError Nat :=
  if b.cumulativeLost.toNat / 16777216 != 0 then
    .err (.cumulativeLostTooLarge b.cumulativeLost 0xffffff)
  else .ok 24

def writeUnchecked (b : ReportBlockBuilder) (buf : Bytes) : R WriteError (Bytes × Nat) := do
  let buf ← copyAt buf 0 4 (be32 b.ssrc)
  let buf ← copyAt buf 4 8 (be32 b.cumulativeLost)
  let buf ← setByte buf 4 b.fractionLost
  let buf ← copyAt buf 8 12 (be32 b.extendedSequenceNumber)
  let buf ← copyAt buf 12 16 (be32 b.interarrivalJitter)
  let buf ← copyAt buf 16 20 (be32 b.lastSenderReportTimestamp)
  let buf ← copyFrom buf 20 (be32 b.delaySinceLastSenderReportTimestamp)
  pure (buf, 24)

end ReportBlockBuilder

/-- The report-block loop shared by the SR and RR size calculations. -/
def rbSizes : List ReportBlockBuilder → Nat → R WriteError Nat
  | [], acc => .ok acc
  | rb :: rest, acc =>
    match rb.calcSize with
    | .ok n => rbSizes rest (acc + n)
    | .err e => .err e
    | .panic => .panic

/-- The report-block loop shared by the SR and RR writers:
    `end += 24; rb.write_into_unchecked(&mut buf[idx..end]); idx = end`. Returns the buffer and `idx`. -/
def rbWrite : List ReportBlockBuilder → Bytes → Nat → R WriteError (Bytes × Nat)
  | [], buf, i => .ok (buf, i)
  | rb :: rest, buf, i =>
    match withRange buf i (i + 24) rb.writeUnchecked with
    | .ok (buf, _) => rbWrite rest buf (i + 24)
    | .err e => .err e
    | .panic => .panic

/-- `.map(|b| ReportBlock::parse(b).unwrap())` -/
def unwrapBlocks {ε : Type} : List Bytes → R ε (List Bytes)
  | [] => .ok []
  | c :: cs =>
    match ReportBlock.parse c with
    | .ok b =>
      match unwrapBlocks cs with
      | .ok r => .ok (b :: r)
      | .err e => .err e
      | .panic => .panic
    | _ => .panic

/-- `report_blocks()` of SR / RR: `data[min .. min + n*24].chunks_exact(24).map(|b| ReportBlock::parse(b).unwrap())` -/
def reportBlocksAt {ε : Type} (min : Nat) (d : Bytes) : R ε (List Bytes) := do
  let n ← hCount d
  let s ← slice d min (min + n.toNat * 24)
  unwrapBlocks (chunksExact 24 s)

/-! ## SenderReport (sender.rs) -/

namespace Sr

def parse (d : Bytes) : R ParseError Bytes := do
  checkPacket 28 200 d
  let c ← parseCount d
  let req := 28 + c.toNat * 24
  if d.length < req then .err (.truncated req d.length) else pure d

def padding {ε : Type} (d : Bytes) : R ε (Option UInt8) := parsePadding d
def nReports {ε : Type} (d : Bytes) : R ε UInt8 := hCount d
def ssrc {ε : Type} (d : Bytes) : R ε UInt32 := parseSsrc d
def ntp {ε : Type} (d : Bytes) : R ε UInt64 := do fromBe64 (← slice d 8 16)
def rtp {ε : Type} (d : Bytes) : R ε UInt32 := do fromBe32 (← slice d 16 20)
def packetCount {ε : Type} (d : Bytes) : R ε UInt32 := do fromBe32 (← slice d 20 24)
def octetCount {ε : Type} (d : Bytes) : R ε UInt32 := do fromBe32 (← slice d 24 28)
def reportBlocks {ε : Type} (d : Bytes) : R ε (List Bytes) := reportBlocksAt 28 d

end Sr

structure SrBuilder where
  ssrc : UInt32
  padding : UInt8 := 0
  ntp : UInt64 := 0
  rtp : UInt32 := 0
  packetCount : UInt32 := 0
  octetCount : UInt32 := 0
  reportBlocks : List ReportBlockBuilder := []
deriving DecidableEq, Repr

namespace SrBuilder

def calcSize (b : SrBuilder) : R WriteError Nat := do
  if b.reportBlocks.length > 31 then
    .err (.tooManyReportBlocks b.reportBlocks.length 31)
  else
    checkPadding b.padding
    let rbs ← rbSizes b.reportBlocks 0
    pure (28 + rbs + b.padding.toNat)

def writeUnchecked (b : SrBuilder) (buf : Bytes) : R WriteError (Bytes × Nat) := do
  let buf ← writeHeader 200 b.padding (b.reportBlocks.length % 256).toUInt8 buf
  let buf ← copyAt buf 4 8 (be32 b.ssrc)
  let buf ← copyAt buf 8 16 (be64 b.ntp)
  let buf ← copyAt buf 16 20 (be32 b.rtp)
  let buf ← copyAt buf 20 24 (be32 b.packetCount)
  let buf ← copyAt buf 24 28 (be32 b.octetCount)
  let (buf, i) ← rbWrite b.reportBlocks buf 28
  let (buf, k) ← withTail buf i (writePadding b.padding)
  pure (buf, i + k)

def toWriter (b : SrBuilder) : Writer := ⟨b.calcSize, b.writeUnchecked, getPaddingOf b.padding⟩

end SrBuilder

/-! ## ReceiverReport (receiver.rs) -/

namespace Rr

def parse (d : Bytes) : R ParseError Bytes := do
  checkPacket 8 201 d
  let c ← parseCount d
  let req := 8 + c.toNat * 24
  if d.length < req then .err (.truncated req d.length) else pure d

def padding {ε : Type} (d : Bytes) : R ε (Option UInt8) := parsePadding d
def nReports {ε : Type} (d : Bytes) : R ε UInt8 := hCount d
def ssrc {ε : Type} (d : Bytes) : R ε UInt32 := parseSsrc d
def reportBlocks {ε : Type} (d : Bytes) : R ε (List Bytes) := reportBlocksAt 8 d

end Rr

structure RrBuilder where
  ssrc : UInt32
  padding : UInt8 := 0
  reportBlocks : List ReportBlockBuilder := []
deriving DecidableEq, Repr

namespace RrBuilder

def calcSize (b : RrBuilder) : R WriteError Nat := do
  if b.reportBlocks.length > 31 then
    .err (.tooManyReportBlocks b.reportBlocks.length 31)
  else
    checkPadding b.padding
    let rbs ← rbSizes b.reportBlocks 0
    pure (8 + rbs + b.padding.toNat)

def writeUnchecked (b : RrBuilder) (buf : Bytes) : R WriteError (Bytes × Nat) := do
  let buf ← writeHeader 201 b.padding (b.reportBlocks.length % 256).toUInt8 buf
  let buf ← copyAt buf 4 8 (be32 b.ssrc)
  let (buf, i) ← rbWrite b.reportBlocks buf 8
  let (buf, k) ← withTail buf i (writePadding b.padding)
  pure (buf, i + k)

def toWriter (b : RrBuilder) : Writer := ⟨b.calcSize, b.writeUnchecked, getPaddingOf b.padding⟩

end RrBuilder

/-! ## App (app.rs) -/

namespace App

def parse (d : Bytes) : R ParseError Bytes := do
  checkPacket 12 204 d
  match (← parsePadding d) with
  | some p =>
    let minLen := 12 + p.toNat
    if d.length < minLen then .err (.truncated minLen d.length) else pure d
  | none => pure d

def padding {ε : Type} (d : Bytes) : R ε (Option UInt8) := parsePadding d
def ssrc {ε : Type} (d : Bytes) : R ε UInt32 := parseSsrc d
/-- `data[8..12].try_into().unwrap()` -/
def name {ε : Type} (d : Bytes) : R ε Bytes := slice d 8 12
/-- `&data[12..data.len() - padding().unwrap_or(0)]` -/
def data {ε : Type} (d : Bytes) : R ε Slice := do
  let p ← parsePadding d
  let e ← usub d.length (p.getD 0).toNat
  sliceS 0 d 12 e

end App

structure AppBuilder where
  ssrc : UInt32
  name : Bytes
  padding : UInt8 := 0
  subtype : UInt8 := 0
  data : Bytes := []
deriving DecidableEq, Repr

namespace AppBuilder

def calcSize (b : AppBuilder) : R WriteError Nat := do
  if b.subtype > 0x1f then
    .err (.appSubtypeOutOfRange b.subtype 0x1f)
  else if b.name.length > 4 || !(b.name.all (· < 128)) then
    .err .invalidName
  else if b.data.length % 4 != 0 then
    .err (.dataLen32bitMultiple b.data.length)
  else
    checkPadding b.padding
    checkPacketLen (12 + b.padding.toNat + b.data.length)

def writeUnchecked (b : AppBuilder) (buf : Bytes) : R WriteError (Bytes × Nat) := do
  let buf ← writeHeader 204 b.padding b.subtype buf
  let buf ← copyAt buf 4 8 (be32 b.ssrc)
  let e := 8 + b.name.length
  let buf ← copyAt buf 8 e b.name
  let buf ← if e < 12 then fillAt buf e 12 0 else pure buf
  let e := 12 + b.data.length
  let buf ← copyAt buf 12 e b.data
  let (buf, k) ← withTail buf e (writePadding b.padding)
  pure (buf, e + k)

def toWriter (b : AppBuilder) : Writer := ⟨b.calcSize, b.writeUnchecked, getPaddingOf b.padding⟩

end AppBuilder

/-! ## Bye (bye.rs) -/

namespace Bye

def parse (d : Bytes) : R ParseError Bytes := do
  checkPacket 4 203 d
  let c ← parseCount d
  let off := 4 + 4 * c.toNat
  if off > d.length then
    .err (.truncated off d.length)
  else if off < d.length then
    let rl ← idx d off
    if off + 1 + rl.toNat > d.length then
      .err (.truncated (off + 1 + rl.toNat) d.length)
    else pure d
  else pure d

def padding {ε : Type} (d : Bytes) : R ε (Option UInt8) := parsePadding d

/-- `data[4..4 + count*4].chunks_exact(4).map(u32_from_be_bytes)` -/
def ssrcs {ε : Type} (d : Bytes) : R ε (List UInt32) := do
  let c ← hCount d
  let s ← slice d 4 (4 + c.toNat * 4)
  (chunksExact 4 s).mapM fromBe32

def reason {ε : Type} (d : Bytes) : R ε (Option Slice) := do
  let c ← hCount d
  let off := c.toNat * 4 + 4
  let len ← hLength d
  let p ← parsePadding d
  let sub := off + 1 + (p.getD 0).toNat
  -- `checked_sub(..)?`
  if len < sub then pure none
  else if len - sub = 0 then pure none
  else
    let rl ← idx d off
    let e := off + 1 + rl.toNat
    let s ← sliceS 0 d (off + 1) e
    pure (some s)

end Bye

structure ByeBuilder where
  padding : UInt8 := 0
  sources : List UInt32 := []
  reason : Bytes := []
deriving DecidableEq, Repr

namespace ByeBuilder

def calcSize (b : ByeBuilder) : R WriteError Nat := do
  if b.sources.length > 31 then
    .err (.tooManySources b.sources.length 31)
  else
    checkPadding b.padding
    let size := 4 + 4 * b.sources.length + b.padding.toNat
    if !b.reason.isEmpty then
      if b.reason.length > 255 then
        .err (.reasonLenTooLarge b.reason.length 0xff)
      else pure (pad4 (size + 1 + b.reason.length))
    else pure size

/-- `for ssrc in sources { end += 4; buf[idx..end].copy_from_slice(..); idx = end }` -/
def writeSources : List UInt32 → Bytes → Nat → R WriteError (Bytes × Nat)
  | [], buf, i => .ok (buf, i)
  | s :: rest, buf, i =>
    match copyAt buf i (i + 4) (be32 s) with
    | .ok buf => writeSources rest buf (i + 4)
    | .err e => .err e
    | .panic => .panic

def writeUnchecked (b : ByeBuilder) (buf : Bytes) : R WriteError (Bytes × Nat) := do
  let buf ← writeHeader 203 b.padding (b.sources.length % 256).toUInt8 buf
  let (buf, i) ← writeSources b.sources buf 4
  let (buf, e) ←
    if !b.reason.isEmpty then do
      let buf ← setByte buf i (b.reason.length % 256).toUInt8
      let i := i + 1
      let e := i + b.reason.length
      let buf ← copyAt buf i e b.reason
      let e' := pad4 e
      let buf ← if e' > e then fillAt buf e e' 0 else pure buf
      pure (buf, e')
    else pure (buf, i)
  let (buf, k) ← withTail buf e (writePadding b.padding)
  pure (buf, e + k)

def toWriter (b : ByeBuilder) : Writer := ⟨b.calcSize, b.writeUnchecked, getPaddingOf b.padding⟩

end ByeBuilder

/-! ## Unknown (compound.rs:9-165) -/

namespace Unknown

def parse (d : Bytes) : R ParseError Bytes := do
  if d.length < 4 then
    .err (.truncated 4 d.length)
  else
    let version ← parseVersion d
    if version != 2 then
      .err (.unsupportedVersion version)
    else
      let length ← parseLength d
      if d.length < length then .err (.truncated length d.length)
      else if d.length > length then .err (.tooLarge length d.length)
      else pure d

def data {ε : Type} (d : Bytes) : R ε Slice := sliceS 0 d 0 d.length

end Unknown

structure UnknownBuilder where
  type : UInt8
  data : Bytes
  padding : UInt8 := 0
  count : UInt8 := 0
deriving DecidableEq, Repr

namespace UnknownBuilder

def calcSize (b : UnknownBuilder) : R WriteError Nat := do
  if b.count > 0x1f then
    .err (.countOutOfRange b.count 0x1f)
  else
    checkPadding b.padding
    if b.data.length % 4 != 0 then
      .err (.dataLen32bitMultiple b.data.length)
    else
      checkPacketLen (4 + b.data.length + b.padding.toNat)

def writeUnchecked (b : UnknownBuilder) (buf : Bytes) : R WriteError (Bytes × Nat) := do
  let buf ← writeHeader 255 b.padding b.count buf
  let buf ← setByte buf 1 b.type
  let e := 4 + b.data.length
  let buf ← copyAt buf 4 e b.data
  let (buf, k) ← withTail buf e (writePadding b.padding)
  pure (buf, e + k)

def toWriter (b : UnknownBuilder) : Writer := ⟨b.calcSize, b.writeUnchecked, getPaddingOf b.padding⟩

end UnknownBuilder

end Rtcp.Impl
