/-
  Model of compound.rs: the `Packet` dispatch enum and its conversion matrix, `Compound::parse`
  and its iterator, `PacketBuilder`, `CompoundBuilder`; plus the third-party family `Custom`
  (PROTOCOL.md §6) written only with the public helpers, as tests/custom_packet.rs does.
-/
import Rtcp.Impl.Packets
import Rtcp.Impl.Sdes
import Rtcp.Impl.Feedback

namespace Rtcp.Impl
open Rtcp

/-- `enum Packet` -/
inductive Packet where
  | app (d : Bytes)
  | bye (d : Bytes)
  | rr (d : Bytes)
  | sdes (s : Sdes)
  | sr (d : Bytes)
  | tfb (d : Bytes)
  | pfb (d : Bytes)
  | unknown (d : Bytes)
deriving DecidableEq, Repr

/-- The seven typed parsers a `Packet` can be converted to. -/
inductive Kind | app | bye | rr | sdes | sr | tfb | pfb
deriving DecidableEq, Repr

def Kind.all : List Kind := [.app, .bye, .rr, .sdes, .sr, .tfb, .pfb]

def Kind.pt : Kind → UInt8
  | .app => 204 | .bye => 203 | .rr => 201 | .sdes => 202 | .sr => 200 | .tfb => 205 | .pfb => 206

/-- `<T as RtcpPacketParser>::parse(data).map(Packet::T)` -/
def Kind.parse : Kind → Bytes → R ParseError Packet
  | .app, d => Packet.app <$> App.parse d
  | .bye, d => Packet.bye <$> Bye.parse d
  | .rr, d => Packet.rr <$> Rr.parse d
  | .sdes, d => Packet.sdes <$> Sdes.parse d
  | .sr, d => Packet.sr <$> Sr.parse d
  | .tfb, d => Packet.tfb <$> Fb.parse .transport d
  | .pfb, d => Packet.pfb <$> Fb.parse .payload d

namespace Packet

/-- The bytes a packet view was parsed from. -/
def data : Packet → Bytes
  | .app d | .bye d | .rr d | .sr d | .tfb d | .pfb d | .unknown d => d
  | .sdes s => s.data

def kind? : Packet → Option Kind
  | .app _ => some .app | .bye _ => some .bye | .rr _ => some .rr | .sdes _ => some .sdes
  | .sr _ => some .sr | .tfb _ => some .tfb | .pfb _ => some .pfb | .unknown _ => none

/-- `Packet::parse` -/
def parse (d : Bytes) : R ParseError Packet := do
  if d.length < 4 then
    .err (.truncated 4 d.length)
  else
    let t ← parsePacketType d
    if t == 204 then Kind.parse .app d
    else if t == 203 then Kind.parse .bye d
    else if t == 201 then Kind.parse .rr d
    else if t == 202 then Kind.parse .sdes d
    else if t == 200 then Kind.parse .sr d
    else if t == 206 then Kind.parse .pfb d
    else if t == 205 then Kind.parse .tfb d
    else Packet.unknown <$> Unknown.parse d

/-- `TryFrom<&Packet> for T` (and `TryFrom<Packet>`): the whole 8×7 matrix. -/
def tryAs (k : Kind) (p : Packet) : R ParseError Packet :=
  match p with
  | .unknown d => k.parse d
  | _ =>
    if p.kind? = some k then .ok p
    else do
      let t ← hType p.data
      .err (.packetTypeMismatch t k.pt)

end Packet

/-! ## Compound -/

structure Compound where
  data : Bytes
  offset : Nat
  isOver : Bool
deriving DecidableEq, Repr

namespace Compound

theorem parseLength_ge {d : Bytes} {n : Nat} (h : (parseLength d : R ParseError Nat) = .ok n) : 4 ≤ n := by
  unfold parseLength at h
  simp only [bind, R.bind, pure] at h
  split at h <;> try cases h
  split at h <;> try cases h
  omega

/-- The validation loop of `Compound::parse`. -/
def parseLoop (d : Bytes) (off : Nat) : R ParseError Unit :=
  if h : off < d.length then
    if d.length < off + 4 then .err (.truncated (off + 4) d.length)
    else
      match hs : (sliceFrom d off : R ParseError Bytes) with
      | .ok rest =>
        match hl : (parseLength rest : R ParseError Nat) with
        | .ok pl =>
          if d.length < off + pl then .err (.truncated (off + pl) d.length)
          else parseLoop d (off + pl)
        | .err e => .err e
        | .panic => .panic
      | .err e => .err e
      | .panic => .panic
  else .ok ()
termination_by d.length - off
decreasing_by
  have := parseLength_ge hl
  omega

def parse (d : Bytes) : R ParseError Compound :=
  if d.isEmpty then .err (.truncated 4 0)
  else
    match parseLoop d 0 with
    | .ok () => .ok ⟨d, 0, false⟩
    | .err e => .err e
    | .panic => .panic

/-- `Iterator::next`: the item (a `Result<Packet, _>`), the offset of its tile, and the new state. -/
def next {ε : Type} (c : Compound) : R ε (Option (R ParseError Packet × Nat) × Compound) :=
  if c.isOver then .ok (none, c)
  else do
    let rest ← sliceFrom c.data c.offset
    let pl ← parseLength rest
    let tile ← slice c.data c.offset (c.offset + pl)
    match Packet.parse tile with
    | .panic => .panic
    | res =>
      let off := c.offset + pl
      let over := !res.isOk || off ≥ c.data.length
      pure (some (res, c.offset), { c with offset := off, isOver := over })

/-- Drive the iterator; `Bool` is false when the fuel ran out before `None`. Also returns the final state. -/
def collect {ε : Type} : Nat → Compound → List (R ParseError Packet × Nat) →
    R ε (List (R ParseError Packet × Nat) × Bool × Compound)
  | 0, c, acc => .ok (acc, false, c)
  | fuel + 1, c, acc =>
    match (next c : R ε _) with
    | .ok (some it, c') => collect fuel c' (acc ++ [it])
    | .ok (none, c') => .ok (acc, true, c')
    | .err e => .err e
    | .panic => .panic

end Compound

/-! ## PacketBuilder and CompoundBuilder -/

inductive PacketBuilder where
  | app (b : AppBuilder)
  | bye (b : ByeBuilder)
  | rr (b : RrBuilder)
  | sdes (b : SdesBuilder)
  | sr (b : SrBuilder)
  | tfb (b : FbBuilder)
  | pfb (b : FbBuilder)
  | unknown (b : UnknownBuilder)

def PacketBuilder.toWriter : PacketBuilder → Writer
  | .app b => ⟨b.calcSize, b.writeUnchecked, getPaddingOf b.padding⟩
  | .bye b => ⟨b.calcSize, b.writeUnchecked, getPaddingOf b.padding⟩
  | .rr b => ⟨b.calcSize, b.writeUnchecked, getPaddingOf b.padding⟩
  | .sdes b => ⟨b.calcSize, b.writeUnchecked, getPaddingOf b.padding⟩
  | .sr b => ⟨b.calcSize, b.writeUnchecked, getPaddingOf b.padding⟩
  | .tfb b => ⟨b.calcSize, b.writeUnchecked, getPaddingOf b.padding⟩
  | .pfb b => ⟨b.calcSize, b.writeUnchecked, getPaddingOf b.padding⟩
  | .unknown b => ⟨b.calcSize, b.writeUnchecked, getPaddingOf b.padding⟩

namespace CompoundBuilder

/-- the `for (idx, packet) in packets.iter().enumerate()` loop of `calculate_size` -/
def sizeLoop (last : Nat) : List Writer → Nat → Nat → R WriteError Nat
  | [], _, size => .ok size
  | m :: rest, i, size =>
    match m.calcSize with
    | .ok n =>
      if (m.getPadding.getD 0) > 0 && i != last then .err .nonLastCompoundPacketPadding
      else sizeLoop last rest (i + 1) (size + n)
    | .err e => .err e
    | .panic => .panic

def calcSize (ms : List Writer) : R WriteError Nat :=
  sizeLoop (ms.length - 1) ms 0 0

/-- `let req = packet.calculate_size().unwrap(); offset += packet.write_into_unchecked(&mut buf[offset..offset + req])` -/
def writeLoop : List Writer → Bytes → Nat → R WriteError (Bytes × Nat)
  | [], buf, off => .ok (buf, off)
  | m :: rest, buf, off =>
    match m.calcSize with
    | .ok req =>
      match withRange buf off (off + req) m.write with
      | .ok (buf, n) => writeLoop rest buf (off + n)
      | .err e => .err e
      | .panic => .panic
    | _ => .panic

def writeUnchecked (ms : List Writer) (buf : Bytes) : R WriteError (Bytes × Nat) := writeLoop ms buf 0

def getPadding (ms : List Writer) : Option UInt8 :=
  match ms.getLast? with
  | some m => m.getPadding
  | none => none

def toWriter (ms : List Writer) : Writer := ⟨calcSize ms, writeUnchecked ms, getPadding ms⟩

end CompoundBuilder

/-! ## The third-party family (PROTOCOL.md §6) -/

namespace Custom

def parse (pt : UInt8) (min : Nat) (d : Bytes) : R ParseError Bytes := do
  checkPacket min pt d
  match (← parsePadding d) with
  | some p =>
    let minLen := min + p.toNat
    if d.length < minLen then .err (.truncated minLen d.length) else pure d
  | none => pure d

def padding {ε : Type} (d : Bytes) : R ε (Option UInt8) := parsePadding d

def body {ε : Type} (d : Bytes) : R ε Slice := do
  let p ← parsePadding d
  let e ← usub d.length (p.getD 0).toNat
  sliceS 0 d 4 e

end Custom

structure CustomBuilder where
  pt : UInt8
  min : Nat
  body : Bytes
  padding : UInt8 := 0
deriving DecidableEq, Repr

namespace CustomBuilder

def bodyEnd (b : CustomBuilder) : Nat := max (4 + b.body.length) b.min

def calcSize (b : CustomBuilder) : R WriteError Nat := do
  checkPadding b.padding
  if b.body.length % 4 != 0 then .err (.dataLen32bitMultiple b.body.length)
  else pure (b.bodyEnd + b.padding.toNat)

def writeUnchecked (b : CustomBuilder) (buf : Bytes) : R WriteError (Bytes × Nat) := do
  let buf ← writeHeader b.pt b.padding 0 buf
  let e := 4 + b.body.length
  let buf ← copyAt buf 4 e b.body
  let buf ← fillAt buf e b.bodyEnd 0
  let (buf, k) ← withTail buf b.bodyEnd (writePadding b.padding)
  pure (buf, b.bodyEnd + k)

def toWriter (b : CustomBuilder) : Writer := ⟨b.calcSize, b.writeUnchecked, getPaddingOf b.padding⟩

end CustomBuilder

end Rtcp.Impl
