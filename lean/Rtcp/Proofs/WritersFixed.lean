/-
  Proofs: the writer helpers and the fixed-layout builders refine their RFC images.
-/
import Rtcp.Props.WriterContract
import Rtcp.Spec.All
import Rtcp.Proofs.BufLemmas

namespace Rtcp.Proofs
open Rtcp Rtcp.Impl Rtcp.Spec Rtcp.Props

theorem writeHeader_spec {ε : Type} (pt padding count : UInt8) (buf : Bytes)
    (h4 : 4 ≤ buf.length) (hc : count.toNat ≤ 31) :
    (writeHeader pt padding count buf : R ε Bytes)
      = .ok (Spec.header pt (padding != 0) count.toNat buf.length ++ buf.drop 4) :=
  writeHeader_eq pt padding count buf h4 hc

theorem writeHeader_panic_iff {ε : Type} (pt padding count : UInt8) (buf : Bytes) :
    (writeHeader pt padding count buf : R ε Bytes) = .panic ↔ buf.length < 4 :=
  writeHeader_panic_iff_lt pt padding count buf

theorem writePadding_spec {ε : Type} (padding : UInt8) (buf : Bytes) (h : padding.toNat ≤ buf.length) :
    (writePadding padding buf : R ε (Bytes × Nat))
      = .ok (Spec.trailer padding ++ buf.drop padding.toNat, padding.toNat) :=
  writePadding_eq padding buf h

theorem checkPadding_ok_iff (p : UInt8) : checkPadding p = .ok () ↔ p.toNat % 4 = 0 :=
  checkPadding_ok_iff_mod p

/-! ## report block -/

theorem rbImage_length (b : ReportBlockBuilder) : (rbImage b).length = 24 := by
  simp [rbImage]

/-- the report-block writer on a 24-byte window -/
theorem rb_write (b : ReportBlockBuilder) (buf : Bytes) (hl : buf.length = 24) :
    b.writeUnchecked buf = .ok (rbImage b, 24) := by
  unfold ReportBlockBuilder.writeUnchecked
  rw [copyAt_zero (by simp) (by omega)]
  simp only [R.ok_bind]
  rw [copyAt_append (by simp) (by simp) (by simp; omega)]
  simp only [R.ok_bind]
  rw [setByte_mid _ (by simp) (by simp)]
  simp only [R.ok_bind]
  rw [copyAt_append (by simp) (by simp) (by simp; omega)]
  simp only [R.ok_bind]
  rw [copyAt_append (by simp) (by simp) (by simp; omega)]
  simp only [R.ok_bind]
  rw [copyAt_append (by simp) (by simp) (by simp; omega)]
  simp only [R.ok_bind]
  rw [copyFrom_append (by simp) (by simp; omega)]
  simp [rbImage]

theorem rb_refines (b : ReportBlockBuilder) :
    Refines ⟨b.calcSize, b.writeUnchecked, none⟩ (rbImage b) := by
  constructor
  · show b.calcSize ≠ .panic
    unfold ReportBlockBuilder.calcSize
    split <;> simp
  · intro n hn
    have h24 : n = 24 := by
      change b.calcSize = .ok n at hn
      unfold ReportBlockBuilder.calcSize at hn
      split at hn
      · cases hn
      · cases hn; rfl
    subst h24
    exact ⟨rbImage_length b, fun buf hl => rb_write b buf hl⟩

/-! ## the report-block loops -/

theorem rb_calcSize_cases (rb : ReportBlockBuilder) :
    rb.calcSize = .ok 24 ∨ ∃ e, rb.calcSize = .err e := by
  unfold ReportBlockBuilder.calcSize
  split
  · exact .inr ⟨_, rfl⟩
  · exact .inl rfl

theorem rbSizes_ne_panic (rbs : List ReportBlockBuilder) (acc : Nat) : rbSizes rbs acc ≠ .panic := by
  induction rbs generalizing acc with
  | nil => simp [rbSizes]
  | cons rb rest ih =>
    unfold rbSizes
    rcases rb_calcSize_cases rb with h | ⟨e, h⟩ <;> simp only [h]
    · exact ih _
    · simp

theorem rbSizes_ok (rbs : List ReportBlockBuilder) (acc n : Nat) (h : rbSizes rbs acc = .ok n) :
    n = acc + 24 * rbs.length := by
  induction rbs generalizing acc with
  | nil => simp [rbSizes] at h; simp; omega
  | cons rb rest ih =>
    unfold rbSizes at h
    rcases rb_calcSize_cases rb with h' | ⟨e, h'⟩ <;> simp only [h'] at h
    · have := ih _ h
      simp; omega
    · cases h

theorem rbImages_length (rbs : List ReportBlockBuilder) :
    ((rbs.map rbImage).flatten).length = 24 * rbs.length := by
  induction rbs with
  | nil => rfl
  | cons rb rest ih => simp [rbImage_length, ih]; omega

theorem rbWrite_append (rbs : List ReportBlockBuilder) {done rest : Bytes} {i : Nat}
    (hi : done.length = i) (hr : 24 * rbs.length ≤ rest.length) :
    rbWrite rbs (done ++ rest) i
      = .ok (done ++ (rbs.map rbImage).flatten ++ rest.drop (24 * rbs.length), i + 24 * rbs.length) := by
  induction rbs generalizing done rest i with
  | nil => simp [rbWrite]
  | cons rb rbs ih =>
    simp only [List.length_cons] at hr
    unfold rbWrite
    have hw := rb_write rb (rest.take (i + 24 - i)) (by simp; omega)
    rw [withRange_append hi (by omega) (by omega) hw]
    simp only []
    rw [ih (by simp [rbImage_length]; omega) (by simp; omega)]
    simp [List.append_assoc, List.drop_drop]
    constructor
    · congr 1; omega
    · omega

/-! ## SR -/

theorem sr_calcSize_cases (b : SrBuilder) :
    (∃ e, b.calcSize = .err e) ∨
    (b.reportBlocks.length ≤ 31 ∧ b.padding.toNat % 4 = 0 ∧
      b.calcSize = .ok (28 + 24 * b.reportBlocks.length + b.padding.toNat)) := by
  unfold SrBuilder.calcSize
  split
  · exact .inl ⟨_, rfl⟩
  · next hlen =>
    rcases checkPadding_cases b.padding with ⟨hp, h⟩ | ⟨hp, h⟩ <;> simp only [h, R.ok_bind, R.err_bind]
    · cases hs : rbSizes b.reportBlocks 0 with
      | ok n =>
        have := rbSizes_ok _ _ _ hs
        refine .inr ⟨by omega, hp, ?_⟩
        simp [this]
      | err e => exact .inl ⟨_, rfl⟩
      | panic => exact absurd hs (rbSizes_ne_panic _ _)
    · exact .inl ⟨_, rfl⟩

theorem sr_refines (b : SrBuilder) : Refines b.toWriter (srImage b) := by
  rcases sr_calcSize_cases b with ⟨e, he⟩ | ⟨hlen, hp, hs⟩
  · constructor
    · show b.calcSize ≠ .panic
      rw [he]; simp
    · intro n hn
      change b.calcSize = .ok n at hn
      rw [he] at hn; cases hn
  · constructor
    · show b.calcSize ≠ .panic
      rw [hs]; simp
    · intro n hn
      change b.calcSize = .ok n at hn
      rw [hs] at hn
      cases hn
      constructor
      · simp [srImage, packet_length, -List.length_flatten, rbImages_length]; omega
      · intro buf hl
        show b.writeUnchecked buf = _
        unfold SrBuilder.writeUnchecked
        rw [writeHeader_spec _ _ _ _ (by omega) (by rw [toUInt8_toNat_of_lt (by omega)]; exact hlen)]
        simp only [R.ok_bind]
        rw [copyAt_append (by simp) (by simp) (by simp; omega)]
        simp only [R.ok_bind]
        rw [copyAt_append (by simp) (by simp) (by simp; omega)]
        simp only [R.ok_bind]
        rw [copyAt_append (by simp) (by simp) (by simp; omega)]
        simp only [R.ok_bind]
        rw [copyAt_append (by simp) (by simp) (by simp; omega)]
        simp only [R.ok_bind]
        rw [copyAt_append (by simp) (by simp) (by simp; omega)]
        simp only [R.ok_bind]
        rw [rbWrite_append _ (by simp) (by simp; omega)]
        simp only [R.ok_bind]
        rw [withTail_writePadding_final _ (by simp [-List.length_flatten, rbImages_length]; omega) (by simp; omega)]
        simp only [R.ok_bind, R.pure_eq]
        rw [toUInt8_toNat_of_lt (by omega)]
        unfold srImage
        rw [← packet_eq _ _ _ _ (total := buf.length)
          (by simp [-List.length_flatten, rbImages_length]; omega)]
        simp [List.append_assoc]
/-! ## RR -/

theorem rr_calcSize_cases (b : RrBuilder) :
    (∃ e, b.calcSize = .err e) ∨
    (b.reportBlocks.length ≤ 31 ∧ b.padding.toNat % 4 = 0 ∧
      b.calcSize = .ok (8 + 24 * b.reportBlocks.length + b.padding.toNat)) := by
  unfold RrBuilder.calcSize
  split
  · exact .inl ⟨_, rfl⟩
  · next hlen =>
    rcases checkPadding_cases b.padding with ⟨hp, h⟩ | ⟨hp, h⟩ <;> simp only [h, R.ok_bind, R.err_bind]
    · cases hs : rbSizes b.reportBlocks 0 with
      | ok n =>
        have := rbSizes_ok _ _ _ hs
        refine .inr ⟨by omega, hp, ?_⟩
        simp [this]
      | err e => exact .inl ⟨_, rfl⟩
      | panic => exact absurd hs (rbSizes_ne_panic _ _)
    · exact .inl ⟨_, rfl⟩

theorem rr_refines (b : RrBuilder) : Refines b.toWriter (rrImage b) := by
  rcases rr_calcSize_cases b with ⟨e, he⟩ | ⟨hlen, hp, hs⟩
  · exact refines_of_err he
  · refine refines_of_ok hs ?_ ?_
    · simp [rrImage, packet_length, -List.length_flatten, rbImages_length]; omega
    · intro buf hl
      show b.writeUnchecked buf = _
      unfold RrBuilder.writeUnchecked
      rw [writeHeader_spec _ _ _ _ (by omega) (by rw [toUInt8_toNat_of_lt (by omega)]; exact hlen)]
      simp only [R.ok_bind]
      rw [copyAt_append (by simp) (by simp) (by simp; omega)]
      simp only [R.ok_bind]
      rw [rbWrite_append _ (by simp) (by simp; omega)]
      simp only [R.ok_bind]
      rw [withTail_writePadding_final _ (by simp [-List.length_flatten, rbImages_length]; omega) (by simp; omega)]
      simp only [R.ok_bind, R.pure_eq]
      rw [toUInt8_toNat_of_lt (by omega)]
      unfold rrImage
      rw [← packet_eq _ _ _ _ (total := buf.length)
        (by simp [-List.length_flatten, rbImages_length]; omega)]
      simp [List.append_assoc]

/-! ## APP -/

theorem app_calcSize_cases (b : AppBuilder) :
    (∃ e, b.calcSize = .err e) ∨
    (b.subtype.toNat ≤ 31 ∧ b.name.length ≤ 4 ∧
      b.calcSize = .ok (12 + b.padding.toNat + b.data.length)) := by
  unfold AppBuilder.calcSize
  split
  · exact .inl ⟨_, rfl⟩
  · next hsub =>
    split
    · exact .inl ⟨_, rfl⟩
    · next hname =>
      split
      · exact .inl ⟨_, rfl⟩
      · rcases checkPadding_cases b.padding with ⟨hp, h⟩ | ⟨hp, h⟩ <;> simp only [h, R.ok_bind, R.err_bind]
        · unfold checkPacketLen
          split
          · exact .inl ⟨_, rfl⟩
          · refine .inr ⟨?_, ?_, rfl⟩
            · simp [UInt8.lt_iff_toNat_lt] at hsub
              omega
            · simp at hname
              omega
        · exact .inl ⟨_, rfl⟩

theorem app_refines (b : AppBuilder) : Refines b.toWriter (appImage b) := by
  rcases app_calcSize_cases b with ⟨e, he⟩ | ⟨hsub, hname, hs⟩
  · exact refines_of_err he
  · refine refines_of_ok hs ?_ ?_
    · simp [appImage, packet_length]; omega
    · intro buf hl
      show b.writeUnchecked buf = _
      unfold AppBuilder.writeUnchecked
      rw [writeHeader_spec _ _ _ _ (by omega) hsub]
      simp only [R.ok_bind]
      rw [copyAt_append (by simp) (by simp) (by simp; omega)]
      simp only [R.ok_bind]
      rw [copyAt_append (by simp) (by simp) (by simp; omega)]
      simp only [R.ok_bind]
      rw [fillAt_append_if_bind _ _ (by buf_side) (by omega) (by buf_side)]
      rw [copyAt_append (by simp; omega) (by simp) (by simp; omega)]
      simp only [R.ok_bind]
      rw [withTail_writePadding_final _ (by simp; omega) (by simp; omega)]
      simp only [R.ok_bind, R.pure_eq]
      unfold appImage
      rw [← packet_eq _ _ _ _ (total := buf.length) (by simp; omega)]
      have h4 : 12 - (8 + b.name.length) = 4 - b.name.length := by omega
      simp [List.append_assoc, h4]
      omega

/-! ## BYE -/

theorem srcImages_length (ss : List UInt32) : ((ss.map be32).flatten).length = 4 * ss.length := by
  induction ss with
  | nil => rfl
  | cons s rest ih => simp [ih]; omega

theorem writeSources_append (ss : List UInt32) {done rest : Bytes} {i : Nat}
    (hi : done.length = i) (hr : 4 * ss.length ≤ rest.length) :
    ByeBuilder.writeSources ss (done ++ rest) i
      = .ok (done ++ (ss.map be32).flatten ++ rest.drop (4 * ss.length), i + 4 * ss.length) := by
  induction ss generalizing done rest i with
  | nil => simp [ByeBuilder.writeSources]
  | cons s ss ih =>
    simp only [List.length_cons] at hr
    unfold ByeBuilder.writeSources
    rw [copyAt_append hi (by simp) (by simp; omega)]
    simp only []
    rw [ih (by simp; omega) (by simp; omega)]
    simp [List.append_assoc, List.drop_drop]
    constructor
    · congr 1; omega
    · omega

theorem bye_calcSize_cases (b : ByeBuilder) :
    (∃ e, b.calcSize = .err e) ∨
    (b.sources.length ≤ 31 ∧ b.padding.toNat % 4 = 0 ∧
      ((b.reason = [] ∧ b.calcSize = .ok (4 + 4 * b.sources.length + b.padding.toNat)) ∨
       (b.reason ≠ [] ∧ b.reason.length ≤ 255 ∧
         b.calcSize = .ok (4 + 4 * b.sources.length + pad4 (1 + b.reason.length) + b.padding.toNat)))) := by
  unfold ByeBuilder.calcSize
  split
  · exact .inl ⟨_, rfl⟩
  · next hlen =>
    rcases checkPadding_cases b.padding with ⟨hp, h⟩ | ⟨hp, h⟩ <;> simp only [h, R.ok_bind, R.err_bind]
    · by_cases hr : b.reason = []
      · refine .inr ⟨by omega, hp, .inl ⟨hr, ?_⟩⟩
        simp [hr]
      · have hre : b.reason.isEmpty = false := by simpa using hr
        simp only [hre, Bool.not_false, ↓reduceIte]
        split
        · exact .inl ⟨_, rfl⟩
        · refine .inr ⟨by omega, hp, .inr ⟨hr, by omega, ?_⟩⟩
          simp only [R.pure_eq]
          congr 1
          unfold pad4; omega
    · exact .inl ⟨_, rfl⟩

theorem bye_refines (b : ByeBuilder) : Refines b.toWriter (byeImage b) := by
  rcases bye_calcSize_cases b with ⟨e, he⟩ | ⟨hlen, hp, ⟨hr, hs⟩ | ⟨hr, hrl, hs⟩⟩
  · exact refines_of_err he
  · refine refines_of_ok hs ?_ ?_
    · simp [byeImage, packet_length, -List.length_flatten, srcImages_length, hr]
    · intro buf hl
      show b.writeUnchecked buf = _
      unfold ByeBuilder.writeUnchecked
      rw [writeHeader_spec _ _ _ _ (by omega) (by rw [toUInt8_toNat_of_lt (by omega)]; exact hlen)]
      simp only [R.ok_bind]
      rw [writeSources_append _ (by simp) (by simp; omega)]
      simp only [R.ok_bind, hr, List.isEmpty_nil, Bool.not_true, Bool.false_eq_true, ↓reduceIte, R.pure_eq]
      rw [withTail_writePadding_final _ (by simp [-List.length_flatten, srcImages_length]) (by simp; omega)]
      simp only [R.ok_bind]
      rw [toUInt8_toNat_of_lt (by omega)]
      unfold byeImage
      rw [← packet_eq _ _ _ _ (total := buf.length)
        (by simp [-List.length_flatten, srcImages_length, hr]; omega)]
      simp [List.append_assoc, hr]
  · have hre : b.reason.isEmpty = false := by simpa using hr
    have hpad := le_pad4 (1 + b.reason.length)
    have hcomm : pad4 (b.reason.length + 1) = pad4 (1 + b.reason.length) := by rw [Nat.add_comm]
    refine refines_of_ok hs ?_ ?_
    · simp [byeImage, packet_length, -List.length_flatten, srcImages_length, hre, zfill_length]
      omega
    · intro buf hl
      show b.writeUnchecked buf = _
      unfold ByeBuilder.writeUnchecked
      rw [writeHeader_spec _ _ _ _ (by omega) (by rw [toUInt8_toNat_of_lt (by omega)]; exact hlen)]
      simp only [R.ok_bind]
      rw [writeSources_append _ (by simp) (by simp; omega)]
      simp only [R.ok_bind, hre, Bool.not_false, ↓reduceIte]
      rw [setByte_append _ (by simp [-List.length_flatten, srcImages_length]) (by simp; omega)]
      simp only [R.ok_bind]
      have hp4 : pad4 (4 + 4 * b.sources.length + 1 + b.reason.length)
          = 4 + 4 * b.sources.length + pad4 (1 + b.reason.length) := by unfold pad4; omega
      rw [hp4, List.append_cons]
      rw [copyAt_append (by simp [-List.length_flatten, srcImages_length]; omega) (by simp) (by simp; omega)]
      simp only [R.ok_bind]
      rw [fillAt_append_if_bind _ _ (by simp [-List.length_flatten, srcImages_length]; omega) (by omega)
        (by simp; omega)]
      simp only [R.ok_bind, R.pure_eq]
      rw [withTail_writePadding_final _ (by simp [-List.length_flatten, srcImages_length]; omega) (by simp; omega)]
      simp only [R.ok_bind]
      rw [toUInt8_toNat_of_lt (by omega)]
      unfold byeImage
      rw [← packet_eq _ _ _ _ (total := buf.length)
        (by simp [-List.length_flatten, srcImages_length, hre, zfill_length]; omega)]
      simp [List.append_assoc, hre, zfill]
      omega
theorem unknown_calcSize_cases (b : UnknownBuilder) :
    (∃ e, b.calcSize = .err e) ∨
    (b.count.toNat ≤ 31 ∧ b.calcSize = .ok (4 + b.data.length + b.padding.toNat)) := by
  unfold UnknownBuilder.calcSize
  split
  · exact .inl ⟨_, rfl⟩
  · next hc =>
    rcases checkPadding_cases b.padding with ⟨hp, h⟩ | ⟨hp, h⟩ <;> simp only [h, R.ok_bind, R.err_bind]
    · split
      · exact .inl ⟨_, rfl⟩
      · unfold checkPacketLen
        split
        · exact .inl ⟨_, rfl⟩
        · refine .inr ⟨?_, rfl⟩
          simp [UInt8.lt_iff_toNat_lt] at hc
          omega
    · exact .inl ⟨_, rfl⟩

theorem unknown_refines (b : UnknownBuilder) : Refines b.toWriter (unknownImage b) := by
  rcases unknown_calcSize_cases b with ⟨e, he⟩ | ⟨hc, hs⟩
  · exact refines_of_err he
  · refine refines_of_ok hs ?_ ?_
    · simp [unknownImage, packet_length]
    · intro buf hl
      show b.writeUnchecked buf = _
      unfold UnknownBuilder.writeUnchecked
      rw [writeHeader_spec _ _ _ _ (by omega) hc]
      simp only [R.ok_bind]
      rw [setByte_header_pt]
      simp only [R.ok_bind]
      rw [copyAt_append (by simp) (by simp) (by simp; omega)]
      simp only [R.ok_bind]
      rw [withTail_writePadding_final _ (by simp) (by simp; omega)]
      simp only [R.ok_bind, R.pure_eq]
      unfold unknownImage
      rw [← packet_eq _ _ _ _ (total := buf.length) (by omega)]

theorem custom_calcSize_cases (b : CustomBuilder) :
    (∃ e, b.calcSize = .err e) ∨ (b.calcSize = .ok (b.bodyEnd + b.padding.toNat)) := by
  unfold CustomBuilder.calcSize
  rcases checkPadding_cases b.padding with ⟨hp, h⟩ | ⟨hp, h⟩ <;> simp only [h, R.ok_bind, R.err_bind]
  · split
    · exact .inl ⟨_, rfl⟩
    · exact .inr rfl
  · exact .inl ⟨_, rfl⟩

theorem custom_refines (b : CustomBuilder) : Refines b.toWriter (customImage b) := by
  rcases custom_calcSize_cases b with ⟨e, he⟩ | hs
  · exact refines_of_err he
  · have hbe : b.bodyEnd = 4 + b.body.length + (b.min - 4 - b.body.length) := by
      unfold CustomBuilder.bodyEnd; omega
    refine refines_of_ok hs ?_ ?_
    · simp [customImage, packet_length]; omega
    · intro buf hl
      show b.writeUnchecked buf = _
      unfold CustomBuilder.writeUnchecked
      rw [writeHeader_spec _ _ _ _ (by omega) (by simp)]
      simp only [R.ok_bind]
      rw [copyAt_append (by simp) (by simp) (by simp; omega)]
      simp only [R.ok_bind]
      rw [fillAt_append _ (by simp) (by omega) (by simp; omega)]
      simp only [R.ok_bind]
      rw [withTail_writePadding_final _ (by simp; omega) (by simp; omega)]
      simp only [R.ok_bind, R.pure_eq]
      unfold customImage
      rw [← packet_eq _ _ _ _ (total := buf.length) (by simp; omega)]
      have h4 : b.bodyEnd - (4 + b.body.length) = b.min - 4 - b.body.length := by omega
      simp [List.append_assoc, h4]

end Rtcp.Proofs
