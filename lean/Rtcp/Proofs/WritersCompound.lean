/-
  Proofs: SDES, FCI, feedback and compound builders refine their RFC images.
-/
import Rtcp.Proofs.WritersFixed

namespace Rtcp.Proofs
open Rtcp Rtcp.Impl Rtcp.Spec Rtcp.Props

theorem compound_refines (ms : List Writer) (imgs : List Bytes)
    (h : (List.length ms = List.length imgs) ∧ ∀ i (h1 : i < ms.length) (h2 : i < imgs.length), Refines ms[i] imgs[i]) :
    Refines (CompoundBuilder.toWriter ms) imgs.flatten := by sorry

theorem compound_size_sum (ms : List Writer) (n : Nat) (h : CompoundBuilder.calcSize ms = .ok n) :
    ∃ sizes : List Nat, sizes.length = ms.length ∧ sizes.sum = n ∧
      ∀ i (hi : i < ms.length), ms[i].calcSize = .ok (sizes.getD i 0) := by sorry

theorem compound_accept_iff (ms : List Writer) (hnp : ∀ m ∈ ms, m.calcSize ≠ .panic) :
    (∃ n, CompoundBuilder.calcSize ms = .ok n) ↔
      (∀ m ∈ ms, ∃ k, m.calcSize = .ok k) ∧
      (∀ i (hi : i < ms.length), i + 1 < ms.length → (ms[i].getPadding.getD 0) = 0) := by sorry

end Rtcp.Proofs
