/-
  Proofs: SDES, FCI, feedback and compound builders refine their RFC images.
-/
import Rtcp.Proofs.WritersFixed

namespace Rtcp.Proofs
open Rtcp Rtcp.Impl Rtcp.Spec Rtcp.Props

/-! ## compound: pointwise refinement as an inductive-friendly statement -/

/-- head / tail of the indexed hypothesis of `compound_refines` -/
theorem allRefine_cons {m : Writer} {ms : List Writer} {img : Bytes} {imgs : List Bytes}
    (h : (List.length (m :: ms) = List.length (img :: imgs)) ∧
      ∀ i (h1 : i < (m :: ms).length) (h2 : i < (img :: imgs).length), Refines (m :: ms)[i] (img :: imgs)[i]) :
    Refines m img ∧
      ((List.length ms = List.length imgs) ∧
        ∀ i (h1 : i < ms.length) (h2 : i < imgs.length), Refines ms[i] imgs[i]) := by
  obtain ⟨hl, hr⟩ := h
  refine ⟨hr 0 (by simp) (by simp), by simpa using hl, ?_⟩
  intro i h1 h2
  exact hr (i + 1) (by simp; omega) (by simp; omega)

theorem sizeLoop_ne_panic (last : Nat) (ms : List Writer) (imgs : List Bytes) (i size : Nat)
    (h : (List.length ms = List.length imgs) ∧
      ∀ i (h1 : i < ms.length) (h2 : i < imgs.length), Refines ms[i] imgs[i]) :
    CompoundBuilder.sizeLoop last ms i size ≠ .panic := by
  induction ms generalizing imgs i size with
  | nil => simp [CompoundBuilder.sizeLoop]
  | cons m ms ih =>
    cases imgs with
    | nil => simp at h
    | cons img imgs =>
      obtain ⟨hm, hrest⟩ := allRefine_cons h
      unfold CompoundBuilder.sizeLoop
      cases hc : m.calcSize with
      | ok n =>
        simp only []
        split
        · simp
        · exact ih imgs _ _ hrest
      | err e => simp
      | panic => exact absurd hc hm.noPanic

theorem sizeLoop_write (last : Nat) (ms : List Writer) (imgs : List Bytes) (i size n : Nat)
    (h : (List.length ms = List.length imgs) ∧
      ∀ i (h1 : i < ms.length) (h2 : i < imgs.length), Refines ms[i] imgs[i])
    (hs : CompoundBuilder.sizeLoop last ms i size = .ok n) :
    n = size + imgs.flatten.length ∧
      ∀ (done rest : Bytes) (off : Nat), done.length = off → imgs.flatten.length ≤ rest.length →
        CompoundBuilder.writeLoop ms (done ++ rest) off
          = .ok (done ++ imgs.flatten ++ rest.drop imgs.flatten.length, off + imgs.flatten.length) := by
  induction ms generalizing imgs i size with
  | nil =>
    cases imgs with
    | nil =>
      simp [CompoundBuilder.sizeLoop] at hs
      simp [CompoundBuilder.writeLoop, hs]
    | cons img imgs => simp at h
  | cons m ms ih =>
    cases imgs with
    | nil => simp at h
    | cons img imgs =>
      obtain ⟨hm, hrest⟩ := allRefine_cons h
      unfold CompoundBuilder.sizeLoop at hs
      cases hc : m.calcSize with
      | ok k =>
        simp only [hc] at hs
        split at hs
        · cases hs
        · obtain ⟨hlen, hw⟩ := hm.exact k hc
          obtain ⟨hn, hwl⟩ := ih imgs _ _ hrest hs
          constructor
          · simp only [List.flatten_cons, List.length_append]; omega
          · intro done rest off hoff hle
            simp only [List.flatten_cons, List.length_append] at hle
            unfold CompoundBuilder.writeLoop
            simp only [hc]
            have hwk := hw (rest.take (off + k - off)) (by simp; omega)
            rw [withRange_append hoff (by omega) (by omega) hwk]
            simp only []
            rw [hwl (done ++ img) (rest.drop (off + k - off)) (off + k) (by simp; omega) (by simp [-List.length_flatten]; omega)]
            simp only [List.flatten_cons, List.length_append, List.append_assoc, List.drop_drop]
            have e1 : off + k - off + imgs.flatten.length = img.length + imgs.flatten.length := by omega
            have e2 : off + k + imgs.flatten.length = off + (img.length + imgs.flatten.length) := by omega
            rw [e1, e2]
      | err e => simp [hc] at hs
      | panic => simp [hc] at hs

theorem compound_refines (ms : List Writer) (imgs : List Bytes)
    (h : (List.length ms = List.length imgs) ∧ ∀ i (h1 : i < ms.length) (h2 : i < imgs.length), Refines ms[i] imgs[i]) :
    Refines (CompoundBuilder.toWriter ms) imgs.flatten := by
  constructor
  · exact sizeLoop_ne_panic _ ms imgs 0 0 h
  · intro n hn
    obtain ⟨hlen, hw⟩ := sizeLoop_write _ ms imgs 0 0 n h hn
    constructor
    · omega
    · intro buf hb
      show CompoundBuilder.writeLoop ms buf 0 = _
      have := hw [] buf 0 rfl (by omega)
      simp only [List.nil_append] at this
      rw [this, drop_eq_nil_of_length (by omega)]
      simp [-List.length_flatten]; omega

/-! ## compound: the size is the sum of the members' sizes -/

theorem sizeLoop_sum (last : Nat) (ms : List Writer) (i size n : Nat)
    (h : CompoundBuilder.sizeLoop last ms i size = .ok n) :
    ∃ sizes : List Nat, sizes.length = ms.length ∧ size + sizes.sum = n ∧
      ∀ j (hj : j < ms.length), ms[j].calcSize = .ok (sizes.getD j 0) := by
  induction ms generalizing i size with
  | nil =>
    simp [CompoundBuilder.sizeLoop] at h
    exact ⟨[], rfl, by simpa using h, by intro j hj; simp at hj⟩
  | cons m ms ih =>
    unfold CompoundBuilder.sizeLoop at h
    cases hc : m.calcSize with
    | ok k =>
      simp only [hc] at h
      split at h
      · cases h
      · obtain ⟨sizes, hl, hsum, hall⟩ := ih _ _ h
        refine ⟨k :: sizes, by simp [hl], by simp only [List.sum_cons]; omega, ?_⟩
        intro j hj
        cases j with
        | zero => simpa using hc
        | succ j =>
          simp only [List.getElem_cons_succ, List.getD_cons_succ]
          exact hall j (by simpa using hj)
    | err e => simp [hc] at h
    | panic => simp [hc] at h

theorem compound_size_sum (ms : List Writer) (n : Nat) (h : CompoundBuilder.calcSize ms = .ok n) :
    ∃ sizes : List Nat, sizes.length = ms.length ∧ sizes.sum = n ∧
      ∀ i (hi : i < ms.length), ms[i].calcSize = .ok (sizes.getD i 0) := by
  obtain ⟨sizes, hl, hsum, hall⟩ := sizeLoop_sum _ ms 0 0 n h
  exact ⟨sizes, hl, by omega, hall⟩

/-! ## compound: acceptance -/

theorem sizeLoop_accept (last : Nat) (ms : List Writer) (i size : Nat)
    (hlast : ms ≠ [] → i + ms.length = last + 1) :
    (∃ n, CompoundBuilder.sizeLoop last ms i size = .ok n) ↔
      (∀ m ∈ ms, ∃ k, m.calcSize = .ok k) ∧
      (∀ j (hj : j < ms.length), j + 1 < ms.length → (ms[j].getPadding.getD 0) = 0) := by
  induction ms generalizing i size with
  | nil => simp [CompoundBuilder.sizeLoop]
  | cons m ms ih =>
    have hl := hlast (by simp)
    simp only [List.length_cons] at hl
    have ih' := fun sz => ih (i + 1) sz (by intro _; omega)
    unfold CompoundBuilder.sizeLoop
    cases hc : m.calcSize with
    | ok k =>
      simp only []
      by_cases hcond : ((m.getPadding.getD 0) > 0 && i != last) = true
      · simp only [hcond, ↓reduceIte]
        simp only [Bool.and_eq_true, decide_eq_true_eq, bne_iff_ne, ne_eq] at hcond
        obtain ⟨hp, hi⟩ := hcond
        constructor
        · rintro ⟨n, hn⟩; cases hn
        · rintro ⟨_, h2⟩
          have := h2 0 (by simp) (by simp; omega)
          simp only [List.getElem_cons_zero] at this
          rw [this] at hp
          exact absurd hp (by decide)
      · simp only [hcond, Bool.false_eq_true, ↓reduceIte]
        rw [ih' (size + k)]
        simp only [Bool.and_eq_true, decide_eq_true_eq, bne_iff_ne, ne_eq, not_and, Decidable.not_not] at hcond
        constructor
        · rintro ⟨h1, h2⟩
          refine ⟨?_, ?_⟩
          · intro x hx
            rcases List.mem_cons.mp hx with rfl | hx
            · exact ⟨k, hc⟩
            · exact h1 x hx
          · intro j hj hj1
            cases j with
            | zero =>
              simp only [List.getElem_cons_zero]
              simp only [List.length_cons] at hj1
              by_cases hp : (m.getPadding.getD 0) > 0
              · have := hcond hp; omega
              · apply Classical.byContradiction
                intro hne
                exact hp ((u8_pos_iff_ne_zero _).mpr hne)
            | succ j =>
              simp only [List.getElem_cons_succ]
              simp only [List.length_cons] at hj hj1
              exact h2 j (by omega) (by omega)
        · rintro ⟨h1, h2⟩
          refine ⟨fun x hx => h1 x (List.mem_cons_of_mem _ hx), ?_⟩
          intro j hj hj1
          have := h2 (j + 1) (by simp; omega) (by simp; omega)
          simpa using this
    | err e =>
      simp only []
      constructor
      · rintro ⟨n, hn⟩; cases hn
      · rintro ⟨h1, _⟩
        obtain ⟨k, hk⟩ := h1 m (by simp)
        rw [hc] at hk; cases hk
    | panic =>
      simp only []
      constructor
      · rintro ⟨n, hn⟩; cases hn
      · rintro ⟨h1, _⟩
        obtain ⟨k, hk⟩ := h1 m (by simp)
        rw [hc] at hk; cases hk

theorem compound_accept_iff (ms : List Writer) (hnp : ∀ m ∈ ms, m.calcSize ≠ .panic) :
    (∃ n, CompoundBuilder.calcSize ms = .ok n) ↔
      (∀ m ∈ ms, ∃ k, m.calcSize = .ok k) ∧
      (∀ i (hi : i < ms.length), i + 1 < ms.length → (ms[i].getPadding.getD 0) = 0) := by
  have _ := hnp
  unfold CompoundBuilder.calcSize
  apply sizeLoop_accept
  intro hne
  have : 0 < ms.length := List.length_pos_iff.mpr hne
  omega

end Rtcp.Proofs
