/-
  Proofs (split over several files).
-/
import Rtcp.Proofs.FciDecode
import Rtcp.Proofs.FciNack
