import Rtcp.Impl.FastWrite
import Rtcp.Props.WriterContract
import Rtcp.Proofs.WritersSdes
import Rtcp.Proofs.Calls

namespace Rtcp.Proofs
open Rtcp Rtcp.Impl Rtcp.Spec Rtcp.Props

theorem fast_writerVia_eq {w : Writer} {img : Bytes} (hw : Refines w img) : Fast.writerVia w img = w := by
  unfold Fast.writerVia
  cases w with
  | mk calcSize write getPadding =>
    simp only [Writer.mk.injEq, true_and, and_true]
    funext buf
    cases hs : calcSize with
    | ok n =>
      simp only
      split
      · rename_i hl
        exact ((hw.exact n hs).2 buf hl).symm
      · rfl
    | err e => rfl
    | panic => rfl

theorem fast_sdesWriter_eq (b : SdesBuilder) : Fast.sdesWriter b = b.toWriter :=
  fast_writerVia_eq (sdes_refines b)

theorem fast_chunkWriter_eq (b : SdesChunkBuilder) :
    Fast.chunkWriter b = ⟨b.calcSize, b.writeUnchecked, none⟩ := fast_writerVia_eq (chunk_refines b)

theorem fast_chunkRun_eq (b : SdesChunkBuilder) (cs : List ChunkCall) : Fast.chunkRun b cs = b.run cs :=
  (chunk_run b cs).symm

end Rtcp.Proofs
