/-
  Read-side lemmas: checked indexing / slicing against the reference reads of `Rtcp.Spec.Framing`,
  the header helpers of utils.rs, and a closed form for `checkPacket`.
-/
import Rtcp.Impl.Compound
import Rtcp.Spec.Framing

namespace Rtcp.Proofs.Read
open Rtcp Rtcp.Impl Rtcp.Spec

/-! ## bytes -/

theorem u8_forall {P : UInt8 → Prop} (h : ∀ n : Fin 256, P n.val.toUInt8) : ∀ c, P c := by
  intro c
  have := h ⟨c.toNat, c.toNat_lt⟩
  simpa [Nat.toUInt8] using this

theorem shr6 : ∀ b : UInt8, (b >>> 6).toNat = b.toNat / 64 := by
  apply u8_forall; decide +kernel
theorem and20 : ∀ b : UInt8, ((b &&& 0x20) != 0) = decide (b.toNat / 32 % 2 = 1) := by
  apply u8_forall; decide +kernel
theorem and1f : ∀ b : UInt8, (b &&& 0x1f) = (b.toNat % 32).toUInt8 := by
  apply u8_forall; decide +kernel
theorem and1f_toNat : ∀ b : UInt8, (b &&& 0x1f).toNat = b.toNat % 32 := by
  apply u8_forall; decide +kernel
theorem toNat_toUInt8 : ∀ b : UInt8, b.toNat.toUInt8 = b := by
  apply u8_forall; decide +kernel
theorem bne2 : ∀ b : UInt8, (b != 2) = decide (b.toNat ≠ 2) := by
  apply u8_forall; decide +kernel



/-! ## idx / slice -/

theorem idx_ok {ε : Type} (bs : Bytes) (i : Nat) (h : i < bs.length) :
    (idx bs i : R ε UInt8) = .ok (bs.getD i 0) := by
  simp [idx, List.getD, List.getElem?_eq_getElem h]

theorem idx_panic {ε : Type} (bs : Bytes) (i : Nat) (h : bs.length ≤ i) :
    (idx bs i : R ε UInt8) = .panic := by
  simp [idx, List.getElem?_eq_none h]

theorem slice_ok {ε : Type} (bs : Bytes) (a b : Nat) (h : a ≤ b ∧ b ≤ bs.length) :
    (slice bs a b : R ε Bytes) = .ok (range bs a b) := by
  simp [slice, range, h]

theorem sliceS_ok {ε : Type} (base : Nat) (bs : Bytes) (a b : Nat) (h : a ≤ b ∧ b ≤ bs.length) :
    (sliceS base bs a b : R ε Slice) = .ok ⟨base + a, range bs a b⟩ := by
  simp [sliceS, range, h]

theorem usub_ok {ε : Type} (a b : Nat) (h : b ≤ a) : (usub a b : R ε Nat) = .ok (a - b) := by
  simp [usub, h]

theorem range_length (bs : Bytes) (a b : Nat) (h : b ≤ bs.length) : (range bs a b).length = b - a := by
  simp [range, List.length_drop, List.length_take, Nat.min_eq_left h]

theorem getD_range (bs : Bytes) (a b k : Nat) (h : a + k < b) :
    (range bs a b).getD k 0 = bs.getD (a + k) 0 := by
  simp only [range, List.getD_eq_getElem?_getD, List.getElem?_drop, List.getElem?_take]
  simp [h]

theorem range_range (bs : Bytes) (a b c d : Nat) (h : a + d ≤ b) :
    range (range bs a b) c d = range bs (a + c) (a + d) := by
  simp only [range, List.take_drop, List.take_take, List.drop_drop, Nat.min_eq_left h]

theorem range2 (bs : Bytes) (i : Nat) (h : i + 2 ≤ bs.length) :
    range bs i (i + 2) = [bs.getD i 0, bs.getD (i + 1) 0] := by
  apply List.ext_getElem
  · simp [range_length bs i (i + 2) h]
  · intro k h1 h2
    have hk : k < 2 := by simpa using h2
    have := getD_range bs i (i + 2) k (by omega)
    rw [List.getD_eq_getElem?_getD, List.getElem?_eq_getElem h1] at this
    simp only [Option.getD_some] at this
    rw [this]
    match k, hk with
    | 0, _ => simp
    | 1, _ => simp

theorem range4 (bs : Bytes) (i : Nat) (h : i + 4 ≤ bs.length) :
    range bs i (i + 4) = [bs.getD i 0, bs.getD (i + 1) 0, bs.getD (i + 2) 0, bs.getD (i + 3) 0] := by
  apply List.ext_getElem
  · simp [range_length bs i (i + 4) h]
  · intro k h1 h2
    have hk : k < 4 := by simpa using h2
    have := getD_range bs i (i + 4) k (by omega)
    rw [List.getD_eq_getElem?_getD, List.getElem?_eq_getElem h1] at this
    simp only [Option.getD_some] at this
    rw [this]
    match k, hk with
    | 0, _ => simp
    | 1, _ => simp
    | 2, _ => simp
    | 3, _ => simp

theorem range8 (bs : Bytes) (i : Nat) (h : i + 8 ≤ bs.length) :
    range bs i (i + 8) = [bs.getD i 0, bs.getD (i + 1) 0, bs.getD (i + 2) 0, bs.getD (i + 3) 0,
      bs.getD (i + 4) 0, bs.getD (i + 5) 0, bs.getD (i + 6) 0, bs.getD (i + 7) 0] := by
  apply List.ext_getElem
  · simp [range_length bs i (i + 8) h]
  · intro k h1 h2
    have hk : k < 8 := by simpa using h2
    have := getD_range bs i (i + 8) k (by omega)
    rw [List.getD_eq_getElem?_getD, List.getElem?_eq_getElem h1] at this
    simp only [Option.getD_some] at this
    rw [this]
    match k, hk with
    | 0, _ => simp
    | 1, _ => simp
    | 2, _ => simp
    | 3, _ => simp
    | 4, _ => simp
    | 5, _ => simp
    | 6, _ => simp
    | 7, _ => simp

/-! ## big-endian reads -/

theorem fromBe16_range {ε : Type} (bs : Bytes) (i : Nat) (h : i + 2 ≤ bs.length) :
    (fromBe16 (range bs i (i + 2)) : R ε UInt16) = .ok (u16At bs i).toUInt16 := by
  rw [range2 bs i h]
  simp only [fromBe16, u16At, u8At]

theorem fromBe32_range {ε : Type} (bs : Bytes) (i : Nat) (h : i + 4 ≤ bs.length) :
    (fromBe32 (range bs i (i + 4)) : R ε UInt32) = .ok (u32At bs i).toUInt32 := by
  rw [range4 bs i h]
  have e : u32At bs i = (bs.getD i 0).toNat * 16777216 + (bs.getD (i + 1) 0).toNat * 65536
      + (bs.getD (i + 2) 0).toNat * 256 + (bs.getD (i + 3) 0).toNat := by
    unfold u32At u16At u8At
    rw [show i + 2 + 1 = i + 3 from rfl]
    omega
  rw [e]; rfl

theorem fromBe64_range {ε : Type} (bs : Bytes) (i : Nat) (h : i + 8 ≤ bs.length) :
    (fromBe64 (range bs i (i + 8)) : R ε UInt64) = .ok (u64At bs i).toUInt64 := by
  rw [range8 bs i h]
  have e : u64At bs i = ((bs.getD i 0).toNat * 16777216 + (bs.getD (i + 1) 0).toNat * 65536
      + (bs.getD (i + 2) 0).toNat * 256 + (bs.getD (i + 3) 0).toNat) * 4294967296
      + ((bs.getD (i + 4) 0).toNat * 16777216 + (bs.getD (i + 5) 0).toNat * 65536
      + (bs.getD (i + 6) 0).toNat * 256 + (bs.getD (i + 7) 0).toNat) := by
    unfold u64At u32At u16At u8At
    rw [show i + 2 + 1 = i + 3 from rfl, show i + 4 + 1 = i + 5 from rfl,
      show i + 4 + 2 = i + 6 from rfl, show i + 4 + 2 + 1 = i + 7 from rfl]
    omega
  rw [e]; rfl

theorem read32 {ε : Type} (bs : Bytes) (a b : Nat) (hb : b = a + 4) (h : b ≤ bs.length) :
    ((do fromBe32 (← slice bs a b)) : R ε UInt32) = .ok (u32At bs a).toUInt32 := by
  subst hb
  rw [slice_ok bs a (a + 4) ⟨by omega, h⟩]
  simp only [R.ok_bind]
  exact fromBe32_range bs a h

theorem u8At_lt (bs : Bytes) (i : Nat) : u8At bs i < 256 := UInt8.toNat_lt _
theorem u16At_lt (bs : Bytes) (i : Nat) : u16At bs i < 65536 := by
  have := u8At_lt bs i; have := u8At_lt bs (i + 1); unfold u16At; omega


/-! ## header helpers of utils.rs -/

theorem toUInt16_toNat (n : Nat) (h : n < 65536) : n.toUInt16.toNat = n := by
  simp [Nat.toUInt16, UInt16.toNat_ofNat']
  omega

theorem parseVersion_ok {ε : Type} (bs : Bytes) (h : 1 ≤ bs.length) :
    (parseVersion bs : R ε UInt8) = .ok (bs.getD 0 0 >>> 6) := by
  simp [parseVersion, idx_ok bs 0 h]

theorem parsePaddingBit_ok {ε : Type} (bs : Bytes) (h : 1 ≤ bs.length) :
    (parsePaddingBit bs : R ε Bool) = .ok (pbit bs) := by
  simp only [parsePaddingBit, idx_ok bs 0 h, R.ok_bind, R.pure_eq, and20, pbit]

theorem parseCount_ok {ε : Type} (bs : Bytes) (h : 1 ≤ bs.length) :
    (parseCount bs : R ε UInt8) = .ok (count bs).toUInt8 := by
  simp only [parseCount, idx_ok bs 0 h, R.ok_bind, R.pure_eq, and1f, count]

theorem parsePacketType_ok {ε : Type} (bs : Bytes) (h : 2 ≤ bs.length) :
    (parsePacketType bs : R ε UInt8) = .ok (ptype bs) := by
  simp only [parsePacketType, idx_ok bs 1 h, ptype]

theorem lengthField_eq (bs : Bytes) : lengthField bs = 4 * (u16At bs 2 + 1) := rfl

theorem parseLength_ok {ε : Type} (bs : Bytes) (h : 4 ≤ bs.length) :
    (parseLength bs : R ε Nat) = .ok (lengthField bs) := by
  simp only [parseLength, slice_ok bs 2 4 ⟨by omega, h⟩, R.ok_bind, R.pure_eq,
    fromBe16_range bs 2 h, toUInt16_toNat _ (u16At_lt bs 2), lengthField_eq]

theorem count_toUInt8_toNat (bs : Bytes) : (count bs).toUInt8.toNat = count bs := by
  have : count bs < 32 := by unfold count; omega
  simp [Nat.toUInt8, UInt8.toNat_ofNat']
  omega

theorem count_lt (bs : Bytes) : count bs < 32 := by unfold count; omega

theorem getD_last (bs : Bytes) (h : 1 ≤ bs.length) : bs.getD (bs.length - 1) 0 = lastByte bs := by
  unfold lastByte
  cases bs with
  | nil => simp at h
  | cons x xs =>
    simp [List.getLastD_eq_getLast?, List.getLast?_eq_getElem?, List.getD_eq_getElem?_getD]

theorem parsePadding_ok {ε : Type} (bs : Bytes) (h : 4 ≤ bs.length) (hl : lengthField bs = bs.length) :
    (parsePadding bs : R ε (Option UInt8)) = .ok (paddingOf bs) := by
  unfold parsePadding paddingOf
  rw [parsePaddingBit_ok bs (by omega)]
  simp only [R.ok_bind]
  cases pbit bs
  · simp
  · simp only [if_true, parseLength_ok bs h, R.ok_bind, hl, usub_ok bs.length 1 (by omega),
      idx_ok bs (bs.length - 1) (by omega), R.pure_eq, getD_last bs (by omega)]

/-! ## `WellFramed` in terms of the header reads -/

theorem wellFramed_iff (min : Nat) (pt : UInt8) (bs : Bytes) :
    WellFramed min pt bs ↔ min ≤ bs.length ∧ 4 ≤ bs.length ∧ version bs = 2 ∧ ptype bs = pt ∧
      lengthField bs = bs.length ∧ (pbit bs = true → lastByte bs ≠ 0) := by
  match bs with
  | [] => simp [WellFramed]
  | [_] => simp [WellFramed]
  | [_, _] => simp [WellFramed]
  | [_, _, _] => simp [WellFramed]
  | b0 :: b1 :: l0 :: l1 :: rest =>
    simp only [WellFramed, version, ptype, lengthField, pbit, lastByte, List.getD_cons_zero,
      List.getD_cons_succ, List.length_cons, decide_eq_true_eq]
    have e : (b0 :: b1 :: l0 :: l1 :: rest).getLast? ≠ some 0 ↔
        (b0 :: b1 :: l0 :: l1 :: rest).getLastD 0 ≠ 0 := by
      rw [List.getLastD_eq_getLast?, List.getLast?_eq_some_getLast (by simp)]; simp
    rw [e]
    constructor
    · rintro ⟨h1, h2, h3, h4, h5⟩
      exact ⟨by omega, by omega, h2, h3, by omega, h5⟩
    · rintro ⟨h1, _, h2, h3, h4, h5⟩
      exact ⟨by omega, h2, h3, by omega, h5⟩

theorem unknownFramed_iff (bs : Bytes) :
    UnknownFramed bs ↔ 4 ≤ bs.length ∧ version bs = 2 ∧ lengthField bs = bs.length := by
  match bs with
  | [] => simp [UnknownFramed]
  | [_] => simp [UnknownFramed]
  | [_, _] => simp [UnknownFramed]
  | [_, _, _] => simp [UnknownFramed]
  | b0 :: b1 :: l0 :: l1 :: rest =>
    simp only [UnknownFramed, version, lengthField, List.getD_cons_zero,
      List.getD_cons_succ, List.length_cons]
    constructor
    · rintro ⟨h1, h2⟩
      exact ⟨by omega, h1, by omega⟩
    · rintro ⟨_, h1, h2⟩
      exact ⟨h1, by omega⟩

/-! ## `checkPacket` in closed form -/

theorem checkPacket_eval (min : Nat) (pt : UInt8) (bs : Bytes) (h4 : 4 ≤ min) :
    checkPacket min pt bs =
      if bs.length < min then .err (.truncated min bs.length)
      else if version bs ≠ 2 then .err (.unsupportedVersion (bs.getD 0 0 >>> 6))
      else if ptype bs ≠ pt then .err (.packetTypeMismatch (ptype bs) pt)
      else if bs.length < lengthField bs then .err (.truncated (lengthField bs) bs.length)
      else if bs.length > lengthField bs then .err (.tooLarge (lengthField bs) bs.length)
      else if pbit bs = true ∧ lastByte bs = 0 then .err .invalidPadding
      else .ok () := by
  unfold checkPacket
  by_cases hm : bs.length < min
  · simp [hm]
  · have hlen : 4 ≤ bs.length := by omega
    simp only [hm, if_false, parseVersion_ok bs (by omega), R.ok_bind, bne2, shr6,
      parsePacketType_ok bs (by omega), parseLength_ok bs hlen]
    have hv : (bs.getD 0 0).toNat / 64 = version bs := rfl
    rw [hv]
    by_cases h1 : version bs = 2
    · simp only [h1, ne_eq, not_true_eq_false, decide_false, if_false, Bool.false_eq_true]
      by_cases h2 : ptype bs = pt
      · simp only [h2, bne_self_eq_false, Bool.false_eq_true, if_false, not_true_eq_false]
        by_cases h3 : bs.length < lengthField bs
        · simp [h3]
        · by_cases h5 : bs.length > lengthField bs
          · simp [h3, h5]
          · have hl : lengthField bs = bs.length := by omega
            simp only [h3, h5, if_false, parsePadding_ok bs hlen hl, R.ok_bind]
            unfold paddingOf
            cases hp : pbit bs
            · simp
            · by_cases h6 : lastByte bs = 0 <;> simp [h6]
      · simp [h2]
    · simp [h1]

end Rtcp.Proofs.Read
