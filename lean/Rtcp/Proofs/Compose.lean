/-
  Proofs: compound parse-back (C14), tiling facts.
-/
import Rtcp.Spec.All
import Rtcp.Proofs.CompoundParse
import Rtcp.Proofs.RoundTrip
import Rtcp.Proofs.SdesEncode
import Rtcp.Proofs.ParsersDispatch

namespace Rtcp.Proofs
open Rtcp Rtcp.Impl Rtcp.Spec


theorem tiling_flatten (imgs : List Bytes) (h : ∀ t ∈ imgs, Tile t) :
    tiling imgs.flatten = some imgs := by
  sorry

theorem tiling_length_le (bs : Bytes) (ts : List Bytes) (h : tiling bs = some ts) :
    4 * ts.length ≤ bs.length := by
  sorry

theorem compound_parse_back {ε : Type} (imgs : List Bytes) (hne : imgs ≠ []) (h : ∀ t ∈ imgs, Tile t)
    (hnp : ∀ t ∈ imgs, Packet.parse t ≠ .panic) (fuel : Nat) (hf : imgs.length < fuel) :
    Compound.parse imgs.flatten = .ok ⟨imgs.flatten, 0, false⟩ ∧
    ∃ items c', (Compound.collect fuel ⟨imgs.flatten, 0, false⟩ [] : R ε _) = .ok (items, true, c') ∧
      items.map (·.1) = throughFirstErr (imgs.map Packet.parse) ∧ c'.isOver = true := by
  sorry

theorem compound_parse_back_all {ε : Type} (imgs : List Bytes) (hne : imgs ≠ []) (h : ∀ t ∈ imgs, Tile t)
    (hok : ∀ t ∈ imgs, ∃ p, Packet.parse t = .ok p) (fuel : Nat) (hf : imgs.length < fuel) :
    ∃ items c', (Compound.collect fuel ⟨imgs.flatten, 0, false⟩ [] : R ε _) = .ok (items, true, c') ∧
      items.map (·.1) = imgs.map Packet.parse ∧ items.length = imgs.length := by
  sorry

theorem sr_image_tile (b : SrBuilder) (h : srRules b = []) :
    Tile (srImage b) ∧ Packet.parse (srImage b) = .ok (.sr (srImage b)) := by
  sorry

theorem rr_image_tile (b : RrBuilder) (h : rrRules b = []) :
    Tile (rrImage b) ∧ Packet.parse (rrImage b) = .ok (.rr (rrImage b)) := by
  sorry

theorem bye_image_tile (b : ByeBuilder) (h : byeRules b = []) :
    Tile (byeImage b) ∧ Packet.parse (byeImage b) = .ok (.bye (byeImage b)) := by
  sorry

theorem app_image_tile (b : AppBuilder) (h : appRules b = []) :
    Tile (appImage b) ∧ Packet.parse (appImage b) = .ok (.app (appImage b)) := by
  sorry

theorem sdes_image_tile (b : SdesBuilder) (h : sdesRules b = [])
    (hz : ∀ c ∈ b.chunks, ∀ it ∈ c.items, it.type ≠ 0) :
    Tile (sdesImage b) ∧ ∃ v, Packet.parse (sdesImage b) = .ok (.sdes v) ∧ v.data = sdesImage b := by
  sorry

theorem fb_image_tile (k : FbKind) (f : FciB) (p : UInt8) (s m : UInt32) (h : fbRules k f p = []) :
    Tile (fbImage k f p s m) ∧
    Packet.parse (fbImage k f p s m) =
      .ok (match k with | .transport => .tfb (fbImage k f p s m) | .payload => .pfb (fbImage k f p s m)) := by
  sorry

theorem unknown_image_tile (b : UnknownBuilder) (h : unknownRules b = []) :
    Tile (unknownImage b) := by
  sorry

theorem custom_image_tile (b : CustomBuilder) (h : customRules b = []) (h4 : 4 ≤ b.min) (hm : b.min % 4 = 0)
    (hs : b.bodyEnd + b.padding.toNat ≤ 262144) : Tile (customImage b) := by
  sorry

end Rtcp.Proofs
