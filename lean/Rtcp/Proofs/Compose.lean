/-
  Proofs: compound parse-back (C14), tiling facts.
-/
import Rtcp.Spec.All
import Rtcp.Proofs.CompoundParse
import Rtcp.Proofs.RoundTrip
import Rtcp.Proofs.SdesEncode
import Rtcp.Proofs.ParsersDispatch
import Rtcp.Proofs.ParsersFraming

namespace Rtcp.Proofs
open Rtcp Rtcp.Impl Rtcp.Spec


theorem lengthField_append (t rest : Bytes) (h : 4 ≤ t.length) :
    lengthField (t ++ rest) = lengthField t := by
  unfold lengthField
  simp only [List.getD_eq_getElem?_getD]
  rw [List.getElem?_append_left (by omega), List.getElem?_append_left (by omega)]

theorem tiling_flatten (imgs : List Bytes) (h : ∀ t ∈ imgs, Tile t) :
    tiling imgs.flatten = some imgs := by
  induction imgs with
  | nil => rfl
  | cons t ts ih =>
    obtain ⟨h4, hl⟩ := h t List.mem_cons_self
    have ih' := ih (fun x hx => h x (List.mem_cons_of_mem _ hx))
    rw [List.flatten_cons]
    have hne : t ++ ts.flatten ≠ [] := by
      intro e; have := congrArg List.length e
      simp only [List.length_append, List.length_nil] at this; omega
    rw [tiling_step _ hne, lengthField_append t _ h4, hl]
    rw [if_neg (by simp only [List.length_append]; omega),
      if_neg (by simp only [List.length_append]; omega)]
    rw [List.drop_left, List.take_left, ih']
    rfl

theorem tiling_length_le (bs : Bytes) (ts : List Bytes) (h : tiling bs = some ts) :
    4 * ts.length ≤ bs.length := by
  obtain ⟨hf, ht⟩ := tiling_sound bs ts h
  subst hf
  clear h
  induction ts with
  | nil => simp
  | cons t ts ih =>
    have h4 := (ht t List.mem_cons_self).1
    have := ih (fun x hx => ht x (List.mem_cons_of_mem _ hx))
    simp only [List.flatten_cons, List.length_append, List.length_cons]
    omega

theorem compound_parse_back {ε : Type} (imgs : List Bytes) (hne : imgs ≠ []) (h : ∀ t ∈ imgs, Tile t)
    (hnp : ∀ t ∈ imgs, Packet.parse t ≠ .panic) (fuel : Nat) (hf : imgs.length < fuel) :
    Compound.parse imgs.flatten = .ok ⟨imgs.flatten, 0, false⟩ ∧
    ∃ items c', (Compound.collect fuel ⟨imgs.flatten, 0, false⟩ [] : R ε _) = .ok (items, true, c') ∧
      items.map (·.1) = throughFirstErr (imgs.map Packet.parse) ∧ c'.isOver = true := by
  have ht := tiling_flatten imgs h
  have hne' : imgs.flatten ≠ [] := by
    cases imgs with
    | nil => exact absurd rfl hne
    | cons t ts =>
      have h4 := (h t List.mem_cons_self).1
      intro e; have := congrArg List.length e
      simp only [List.flatten_cons, List.length_append, List.length_nil] at this; omega
  refine ⟨(compound_parse_ok_iff _ _).mpr ⟨rfl, hne', by rw [ht]; rfl⟩, ?_⟩
  obtain ⟨items, c', e1, e2, _, e4⟩ := compound_iter (ε := ε) _ _ hne' ht hnp fuel hf
  exact ⟨items, c', e1, e2, e4⟩

theorem throughFirstErr_all_ok {ε α : Type} (l : List (R ε α)) (h : ∀ x ∈ l, ∃ a, x = .ok a) :
    throughFirstErr l = l := by
  induction l with
  | nil => rfl
  | cons x xs ih =>
    obtain ⟨a, rfl⟩ := h x List.mem_cons_self
    simp only [throughFirstErr]
    rw [ih (fun y hy => h y (List.mem_cons_of_mem _ hy))]

theorem compound_parse_back_all {ε : Type} (imgs : List Bytes) (hne : imgs ≠ []) (h : ∀ t ∈ imgs, Tile t)
    (hok : ∀ t ∈ imgs, ∃ p, Packet.parse t = .ok p) (fuel : Nat) (hf : imgs.length < fuel) :
    ∃ items c', (Compound.collect fuel ⟨imgs.flatten, 0, false⟩ [] : R ε _) = .ok (items, true, c') ∧
      items.map (·.1) = imgs.map Packet.parse ∧ items.length = imgs.length := by
  have hnp : ∀ t ∈ imgs, Packet.parse t ≠ .panic := by
    intro t ht e
    obtain ⟨p, hp⟩ := hok t ht
    rw [hp] at e; cases e
  obtain ⟨_, items, c', e1, e2, _⟩ := compound_parse_back (ε := ε) imgs hne h hnp fuel hf
  have e3 : throughFirstErr (imgs.map Packet.parse) = imgs.map Packet.parse := by
    apply throughFirstErr_all_ok
    intro x hx
    obtain ⟨t, ht, rfl⟩ := List.mem_map.mp hx
    exact hok t ht
  rw [e3] at e2
  refine ⟨items, c', e1, e2, ?_⟩
  have := congrArg List.length e2
  simpa only [List.length_map] using this

/-! ## images are tiles -/

open Rtcp.Proofs.Read Rtcp.Proofs.RT in
theorem tile_packet (pt : UInt8) (c : Nat) (p : UInt8) (body : Bytes) (hf : Fits p body) :
    Tile (packet pt c p body) :=
  ⟨packet_len4 pt c p body, lengthField_packet pt c p body hf.hpad hf.hbody hf.hsize⟩

theorem tile_of_wellFramed {min : Nat} {pt : UInt8} {bs : Bytes} (h : WellFramed min pt bs) : Tile bs := by
  rw [Read.wellFramed_iff] at h
  exact ⟨h.2.1, h.2.2.2.2.1⟩

open Rtcp.Proofs.Read Rtcp.Proofs.RT in
theorem wellFramed_packet (min : Nat) (pt : UInt8) (c : Nat) (p : UInt8) (body : Bytes) (hf : Fits p body)
    (hmin : min ≤ 4 + body.length + p.toNat) : WellFramed min pt (packet pt c p body) := by
  rw [Read.wellFramed_iff]
  refine ⟨by rw [packet_length]; exact hmin, packet_len4 pt c p body, version_packet pt c p body,
    ptype_packet pt c p body, lengthField_packet pt c p body hf.hpad hf.hbody hf.hsize, ?_⟩
  rw [pbit_packet]
  intro hp
  have hp' : p ≠ 0 := by simpa using hp
  rw [lastByte_packet _ _ _ _ hp']
  exact hp'

theorem sr_image_tile (b : SrBuilder) (h : srRules b = []) :
    Tile (srImage b) ∧ Packet.parse (srImage b) = .ok (.sr (srImage b)) := by
  have hp := (sr_roundtrip (ε := Empty) b h).1
  have ht : Tile (srImage b) := tile_of_wellFramed ((sr_parse_ok_iff _ _).mp hp).2.1
  refine ⟨ht, ?_⟩
  have hpt : ptype (srImage b) = 200 := RT.ptype_packet _ _ _ _
  rw [packet_parse_eq _ ht.1, hpt]
  show Packet.sr <$> Sr.parse (srImage b) = _
  rw [hp, R.map_ok]

theorem rr_image_tile (b : RrBuilder) (h : rrRules b = []) :
    Tile (rrImage b) ∧ Packet.parse (rrImage b) = .ok (.rr (rrImage b)) := by
  have hp := (rr_roundtrip (ε := Empty) b h).1
  have ht : Tile (rrImage b) := tile_of_wellFramed ((rr_parse_ok_iff _ _).mp hp).2.1
  refine ⟨ht, ?_⟩
  have hpt : ptype (rrImage b) = 201 := RT.ptype_packet _ _ _ _
  rw [packet_parse_eq _ ht.1, hpt]
  show Packet.rr <$> Rr.parse (rrImage b) = _
  rw [hp, R.map_ok]

theorem bye_image_tile (b : ByeBuilder) (h : byeRules b = []) :
    Tile (byeImage b) ∧ Packet.parse (byeImage b) = .ok (.bye (byeImage b)) := by
  have hp := (bye_roundtrip (ε := Empty) b h).1
  have ht : Tile (byeImage b) := tile_of_wellFramed ((bye_parse_ok_iff _ _).mp hp).2.1
  refine ⟨ht, ?_⟩
  have hpt : ptype (byeImage b) = 203 := RT.ptype_packet _ _ _ _
  rw [packet_parse_eq _ ht.1, hpt]
  show Packet.bye <$> Bye.parse (byeImage b) = _
  rw [hp, R.map_ok]

theorem app_image_tile (b : AppBuilder) (h : appRules b = []) :
    Tile (appImage b) ∧ Packet.parse (appImage b) = .ok (.app (appImage b)) := by
  have hp := (app_roundtrip (ε := Empty) b h).1
  have ht : Tile (appImage b) := tile_of_wellFramed ((app_parse_ok_iff _ _).mp hp).2.1
  refine ⟨ht, ?_⟩
  have hpt : ptype (appImage b) = 204 := RT.ptype_packet _ _ _ _
  rw [packet_parse_eq _ ht.1, hpt]
  show Packet.app <$> App.parse (appImage b) = _
  rw [hp, R.map_ok]

theorem sdes_image_tile (b : SdesBuilder) (h : sdesRules b = [])
    (hz : ∀ c ∈ b.chunks, ∀ it ∈ c.items, it.type ≠ 0) :
    Tile (sdesImage b) ∧ ∃ v, Packet.parse (sdesImage b) = .ok (.sdes v) ∧ v.data = sdesImage b := by
  obtain ⟨hp4, _, hsize⟩ := SdesEnc.sdesRules_nil b h
  have hmod := SdesEnc.chunks_length_mod b.chunks
  have ht : Tile (sdesImage b) := tile_packet 202 _ _ _ ⟨hp4, hmod, hsize⟩
  refine ⟨ht, ?_⟩
  obtain ⟨v, hp, _⟩ := sdes_roundtrip (ε := Empty) b h hz
  refine ⟨v, ?_, sdes_parse_data _ _ hp⟩
  have hpt : ptype (sdesImage b) = 202 := RT.ptype_packet _ _ _ _
  rw [packet_parse_eq _ ht.1, hpt]
  show Packet.sdes <$> Sdes.parse (sdesImage b) = _
  rw [hp, R.map_ok]

theorem fb_image_tile (k : FbKind) (f : FciB) (p : UInt8) (s m : UInt32) (h : fbRules k f p = []) :
    Tile (fbImage k f p s m) ∧
    Packet.parse (fbImage k f p s m) =
      .ok (match k with | .transport => .tfb (fbImage k f p s m) | .payload => .pfb (fbImage k f p s m)) := by
  have hrules : p.toNat % 4 = 0 ∧ 12 + (fciImage f).length + p.toNat ≤ 262144 := by
    unfold fbRules at h
    simp only [List.append_eq_nil_iff] at h
    obtain ⟨⟨⟨h1, h2⟩, h3⟩, h5⟩ := h
    simp only [h1, h2, h3] at h5
    unfold padRule at h1
    unfold sizeRule at h5
    refine ⟨?_, ?_⟩
    · by_cases hh : p.toNat % 4 = 0
      · exact hh
      · simp [hh] at h1
    · by_cases hh : 12 + (fciImage f).length + p.toNat > 262144
      · simp [hh] at h5
      · omega
  obtain ⟨hp, hsz⟩ := hrules
  have hfl := fciImage_len_mod4 f
  generalize hbody : be32 s ++ be32 m ++ fciImage f = body
  have himg : fbImage k f p s m = packet k.pt (fciFormat f) p body := by
    rw [← hbody]; rfl
  have hbl : body.length = 8 + (fciImage f).length := by
    rw [← hbody]; simp; omega
  have hf : RT.Fits p body := ⟨hp, by omega, by omega⟩
  rw [himg]
  have ht := tile_packet k.pt (fciFormat f) p body hf
  refine ⟨ht, ?_⟩
  have hwf := wellFramed_packet 12 k.pt (fciFormat f) p body hf (by omega)
  have hparse : Fb.parse k (packet k.pt (fciFormat f) p body) = .ok (packet k.pt (fciFormat f) p body) := by
    rw [fb_parse_ok_iff]
    refine ⟨rfl, hwf, ?_⟩
    rw [RT.padLen_packet, packet_length]; omega
  rw [packet_parse_eq _ ht.1, RT.ptype_packet]
  cases k with
  | transport =>
    show Packet.tfb <$> Fb.parse .transport _ = _
    rw [hparse, R.map_ok]
  | payload =>
    show Packet.pfb <$> Fb.parse .payload _ = _
    rw [hparse, R.map_ok]

theorem unknown_image_tile (b : UnknownBuilder) (h : unknownRules b = []) :
    Tile (unknownImage b) := by
  have hrules : b.padding.toNat % 4 = 0 ∧ b.data.length % 4 = 0 ∧
      4 + b.data.length + b.padding.toNat ≤ 262144 := by
    unfold unknownRules at h
    simp only [List.append_eq_nil_iff] at h
    obtain ⟨⟨⟨h1, h2⟩, h3⟩, h5⟩ := h
    simp only [h1, h2, h3] at h5
    unfold padRule at h2
    unfold sizeRule at h5
    refine ⟨?_, ?_, ?_⟩
    · by_cases hh : b.padding.toNat % 4 = 0
      · exact hh
      · simp [hh] at h2
    · by_cases hh : b.data.length % 4 = 0
      · exact hh
      · simp [hh] at h3
    · by_cases hh : 4 + b.data.length + b.padding.toNat > 262144
      · simp [hh] at h5
      · omega
  obtain ⟨hp, hd, hsz⟩ := hrules
  exact tile_packet b.type b.count.toNat b.padding b.data ⟨hp, hd, hsz⟩

theorem custom_image_tile (b : CustomBuilder) (h : customRules b = []) (h4 : 4 ≤ b.min) (hm : b.min % 4 = 0)
    (hs : b.bodyEnd + b.padding.toNat ≤ 262144) : Tile (customImage b) := by
  have hp := (custom_roundtrip (ε := Empty) b h h4 hm hs).1
  exact tile_of_wellFramed ((custom_parse_ok_iff _ _ h4 _ _).mp hp).2.1

end Rtcp.Proofs
