/-
  Helper lemmas for the SDES scanner proofs: closed form of `SdesItem.parse`, the fill skipper,
  and the simulation of the item loop / chunk loop by the reference tokeniser.
-/
import Rtcp.Spec.All
import Rtcp.Proofs.ReadLemmas

namespace Rtcp.Proofs.SdesAux
open Rtcp Rtcp.Impl Rtcp.Spec Rtcp.Proofs.Read

/-- the errors the scanner itself can produce: all of them truthful for any input -/
def ScanErr : ParseError → Prop
  | .truncated e a => a < e
  | .sdesPrivPrefixTooLarge _ _ => True
  | _ => False

theorem ScanErr.truthful {e : ParseError} (h : ScanErr e) (bs : Bytes) (pt : UInt8) :
    ErrorTruthful bs pt e := by
  cases e <;> simp_all [ScanErr, ErrorTruthful]

/-- closed form of `SdesItem.parse` on the shape of its input -/
def itemSpec (base : Nat) : Bytes → R ParseError (SdesItem × Nat)
  | [] => .err (.truncated 2 0)
  | [_] => .err (.truncated 2 1)
  | t :: l :: rest =>
    if rest.length < l.toNat then .err (.truncated (2 + l.toNat) (rest.length + 2))
    else if t = 8 then
      match rest.take l.toNat with
      | [] => .err (.truncated 3 2)
      | pl :: r =>
        if r.length < pl.toNat then
          .err (.sdesPrivPrefixTooLarge pl.toNat (l.toNat % 256 - 1).toUInt8)
        else .ok (⟨base, t :: l :: rest.take l.toNat⟩, 2 + l.toNat)
    else .ok (⟨base, t :: l :: rest.take l.toNat⟩, 2 + l.toNat)

theorem take_two_add (t l : UInt8) (rest : Bytes) (n : Nat) :
    (t :: l :: rest).take (2 + n) = t :: l :: rest.take n := by
  rw [Nat.add_comm]; rfl

theorem item_parse_eq (base : Nat) (d : Bytes) : SdesItem.parse base d = itemSpec base d := by
  match d with
  | [] => simp [SdesItem.parse, itemSpec]
  | [_] => simp [SdesItem.parse, itemSpec]
  | t :: l :: rest =>
    unfold SdesItem.parse itemSpec
    have hl := l.toNat_lt
    simp only [List.length_cons, idx, List.getElem?_cons_succ, List.getElem?_cons_zero, R.ok_bind,
      take_two_add]
    by_cases h1 : rest.length < l.toNat
    · have : ¬ (rest.length + 1 + 1 < 2) := by omega
      have h2 : 2 + l.toNat > rest.length + 1 + 1 := by omega
      simp [this, h2, h1]
    · have : ¬ (rest.length + 1 + 1 < 2) := by omega
      have h2 : ¬ (2 + l.toNat > rest.length + 1 + 1) := by omega
      have h3 : ¬ (l.toNat > 255) := by omega
      simp only [this, h2, h1, h3, if_false, SdesItem.type, SdesItem.privPrefixLen,
        SdesItem.privValueOffset, idx, List.getElem?_cons_zero, R.ok_bind, SdesItem.PRIV]
      by_cases ht : t = 8
      · subst ht
        simp only [beq_self_eq_true, if_true, bne_self_eq_false, Bool.false_eq_true, if_false]
        cases hr : rest.take l.toNat with
        | nil => simp
        | cons pl r =>
          simp only [List.length_cons, List.getElem?_cons_succ, List.getElem?_cons_zero, R.ok_bind,
            R.pure_eq]
          have : ¬ (r.length + 1 + 1 + 1 < 3) := by omega
          simp only [this, if_false]
          have hlen : (rest.take l.toNat).length = r.length + 1 := by rw [hr]; rfl
          have hl1 : 1 ≤ l.toNat := by
            rw [List.length_take] at hlen; omega
          by_cases h5 : r.length < pl.toNat
          · have : pl.toNat + 3 > r.length + 1 + 1 + 1 := by omega
            simp [this, h5, usub, hl1]
          · have : ¬ (pl.toNat + 3 > r.length + 1 + 1 + 1) := by omega
            simp [this, h5]
      · have : (t == 8) = false := by simp [ht]
        simp [this, ht]


/-! ## the fill skipper -/

theorem skipZeros_le (d : Bytes) (o fe : Nat) (h : o ≤ fe) : SdesChunk.skipZeros d o fe ≤ fe := by
  fun_induction SdesChunk.skipZeros d o fe with
  | case1 off hc ih => exact ih (by omega)
  | case2 off hc => exact h

theorem skipZeros_self (d : Bytes) (o : Nat) : SdesChunk.skipZeros d o o = o := by
  rw [SdesChunk.skipZeros]; simp

theorem skipZeros_spec (d : Bytes) (k : Nat) : ∀ o, o + k ≤ d.length →
    (((d.drop o).take k).all (· == 0) = true → SdesChunk.skipZeros d o (o + k) = o + k) ∧
    (((d.drop o).take k).all (· == 0) = false →
      o ≤ SdesChunk.skipZeros d o (o + k) ∧ SdesChunk.skipZeros d o (o + k) < o + k) := by
  induction k with
  | zero => intro o _; simp [skipZeros_self]
  | succ k ih =>
    intro o ho
    have hlt : o < d.length := by omega
    rw [List.drop_eq_getElem_cons hlt, List.take_succ_cons, List.all_cons, SdesChunk.skipZeros]
    have := ih (o + 1) (by omega)
    rw [show o + 1 + k = o + (k + 1) by omega] at this
    by_cases hz : d[o] = 0
    · simp only [hz, beq_self_eq_true, Bool.true_and, List.getElem?_eq_getElem hlt]
      simp only [show o < o + (k + 1) by omega, true_and, if_true]
      exact ⟨this.1, fun h => ⟨by have := (this.2 h).1; omega, (this.2 h).2⟩⟩
    · have : ¬ (o < o + (k + 1) ∧ d[o]? = some 0) := by
        rw [List.getElem?_eq_getElem hlt]; simp [hz]
      simp only [this, if_false]
      have : (d[o] == 0) = false := by simp [hz]
      simp [this]


/-- what `SdesChunk.parse` does after the item loop: skip the fill, check the alignment -/
def fin (d : Bytes) (p : List SdesItem × Nat) : R ParseError (List SdesItem × Nat) :=
  let off' := SdesChunk.skipZeros d p.2 (min (pad4 p.2) d.length)
  if pad4 off' != off' then .err (.truncated (pad4 off') off') else .ok (p.1, off')

theorem pad4_ge (n : Nat) : n ≤ pad4 n := by unfold pad4; omega

theorem fin_err_of_ne (d : Bytes) (acc : List SdesItem) (o : Nat)
    (h : pad4 (SdesChunk.skipZeros d o (min (pad4 o) d.length)) ≠
      SdesChunk.skipZeros d o (min (pad4 o) d.length)) :
    ∃ er, fin d (acc, o) = .err er ∧ ScanErr er := by
  refine ⟨.truncated (pad4 (SdesChunk.skipZeros d o (min (pad4 o) d.length)))
    (SdesChunk.skipZeros d o (min (pad4 o) d.length)), ?_, ?_⟩
  · simp [fin, h]
  · have := pad4_ge (SdesChunk.skipZeros d o (min (pad4 o) d.length))
    simp only [ScanErr]; omega

theorem fin_term (d : Bytes) (acc : List SdesItem) (o : Nat) (ho : o ≤ d.length) :
    ((d.drop o).length < (4 - o % 4) % 4 ∨
        ((d.drop o).take ((4 - o % 4) % 4)).all (· == 0) = false →
      ∃ er, fin d (acc, o) = .err er ∧ ScanErr er) ∧
    (¬ (d.drop o).length < (4 - o % 4) % 4 →
        ((d.drop o).take ((4 - o % 4) % 4)).all (· == 0) = true →
      fin d (acc, o) = .ok (acc, o + (4 - o % 4) % 4)) := by
  have hp : pad4 o = o + (4 - o % 4) % 4 := by unfold pad4; omega
  rw [List.length_drop]
  by_cases hs : d.length - o < (4 - o % 4) % 4
  · constructor
    · intro _
      apply fin_err_of_ne
      have hm : min (pad4 o) d.length = d.length := by omega
      rw [hm]
      have h1 := skipZeros_le d o d.length ho
      have h2 := Sdes.skipZeros_ge d o d.length
      unfold pad4; omega
    · intro h; exact absurd hs h
  · have hm : min (pad4 o) d.length = o + (4 - o % 4) % 4 := by omega
    have := skipZeros_spec d ((4 - o % 4) % 4) o (by omega)
    constructor
    · rintro (h | h)
      · exact absurd h hs
      · apply fin_err_of_ne
        rw [hm]
        have := this.2 h
        unfold pad4; omega
    · intro _ h
      have e := this.1 h
      simp only [fin, hm, e]
      rw [← hp]
      have : pad4 (pad4 o) = pad4 o := by unfold pad4; omega
      simp [this]

theorem fin_end (d : Bytes) (acc : List SdesItem) :
    (d.length % 4 = 0 → fin d (acc, d.length) = .ok (acc, d.length)) ∧
    (d.length % 4 ≠ 0 → ∃ er, fin d (acc, d.length) = .err er ∧ ScanErr er) := by
  have hm : min (pad4 d.length) d.length = d.length := by have := pad4_ge d.length; omega
  constructor
  · intro h
    have : pad4 d.length = d.length := by unfold pad4; omega
    simp [fin, skipZeros_self, this]
  · intro h
    apply fin_err_of_ne
    rw [hm, skipZeros_self]
    unfold pad4; omega


/-! ## one item -/

/-- a parsed item relative to the slice `d` that starts at offset `base` of the packet -/
def ItemLocal (base : Nat) (d : Bytes) (it : SdesItem) : Prop :=
  ∃ o, it.off = base + o ∧ ItemOk d ⟨o, it.data⟩

theorem itemSpec_no_panic (base : Nat) (dd : Bytes) : itemSpec base dd ≠ .panic := by
  unfold itemSpec
  split
  · simp
  · simp
  · split
    · simp
    · split
      · split
        · simp
        · split <;> simp
      · simp

theorem itemSpec_err (base : Nat) (dd : Bytes) (er : ParseError) (h : itemSpec base dd = .err er) :
    ScanErr er := by
  unfold itemSpec at h
  split at h
  · cases h; simp [ScanErr]
  · cases h; simp [ScanErr]
  · split at h
    · cases h; simp only [ScanErr]; omega
    · split at h
      · split at h
        · cases h; simp [ScanErr]
        · split at h
          · cases h; simp [ScanErr]
          · cases h
      · cases h

/-- the reference on a non-terminator octet, in terms of `itemSpec` -/
theorem refItems_item (base : Nat) (f pos : Nat) (t : UInt8) (rest0 : Bytes) (ht : t ≠ 0) :
    (∀ er, itemSpec base (t :: rest0) = .err er → refItems (f + 1) pos (t :: rest0) = none) ∧
    (∀ it e, itemSpec base (t :: rest0) = .ok (it, e) →
      2 ≤ e ∧ e ≤ rest0.length + 1 ∧ it.off = base ∧ it.data = (t :: rest0).take e ∧
      u8At it.data 1 + 2 = e ∧
      (u8At it.data 0 = 8 → 3 ≤ e ∧ u8At it.data 2 + 3 ≤ e) ∧
      refItems (f + 1) pos (t :: rest0) =
        match refItems f (pos + e) ((t :: rest0).drop e) with
        | some (its, after) => some (itemAsRef it :: its, after)
        | none => none) := by
  match rest0 with
  | [] => simp [itemSpec, refItems, ht]
  | l :: rest =>
    simp only [itemSpec, refItems, ht, if_false]
    by_cases h1 : rest.length < l.toNat
    · simp [h1]
    · simp only [h1, if_false]
      by_cases h8 : t = 8
      · subst h8
        simp only [true_and, if_true, RefItem.privSplit]
        cases hr : rest.take l.toNat with
        | nil => simp
        | cons pl r =>
          have hlen : (rest.take l.toNat).length = r.length + 1 := by rw [hr]; rfl
          rw [List.length_take] at hlen
          simp only []
          by_cases h5 : r.length < pl.toNat
          · have : ¬ (pl.toNat ≤ r.length) := by omega
            simp [h5, this]
          · have : pl.toNat ≤ r.length := by omega
            simp only [h5, this, if_false, if_true]
            constructor
            · intro er h; cases h
            · intro it e h
              cases h
              simp only [take_two_add, hr, List.length_cons, u8At, List.getD_cons_zero,
                List.getD_cons_succ, itemAsRef, List.drop_succ_cons, List.drop_zero]
              refine ⟨by omega, by omega, trivial, trivial, by omega, fun _ => ⟨by omega, by omega⟩, ?_⟩
              rw [show pos + 2 + l.toNat = pos + (2 + l.toNat) by omega,
                show 2 + l.toNat = l.toNat + 1 + 1 by omega]
              rfl
      · simp only [h8, false_and, if_false]
        constructor
        · intro er h; cases h
        · intro it e h
          cases h
          have h8' : ¬ t.toNat = 8 := fun h => h8 (UInt8.toNat_inj.mp h)
          simp only [take_two_add, List.length_cons, u8At, List.getD_cons_zero,
            List.getD_cons_succ, itemAsRef, List.drop_succ_cons, List.drop_zero]
          refine ⟨by omega, by omega, trivial, trivial, by omega, fun h => absurd h h8', ?_⟩
          rw [show pos + 2 + l.toNat = pos + (2 + l.toNat) by omega,
            show 2 + l.toNat = l.toNat + 1 + 1 by omega]
          rfl


/-! ## the item loop followed by the fill check simulates `refItems` -/

theorem itemLocal_of (base : Nat) (d : Bytes) (off : Nat) (hlt : off < d.length) (it : SdesItem) (e : Nat)
    (h2 : 2 ≤ e) (hle : e ≤ (d.drop (off + 1)).length + 1) (ho : it.off = base + off)
    (hd : it.data = (d[off] :: d.drop (off + 1)).take e)
    (h1 : u8At it.data 1 + 2 = e) (h8 : u8At it.data 0 = 8 → 3 ≤ e ∧ u8At it.data 2 + 3 ≤ e) :
    ItemLocal base d it := by
  rw [← List.drop_eq_getElem_cons hlt] at hd
  rw [List.length_drop] at hle
  have hlen : it.data.length = e := by
    rw [hd, List.length_take, List.length_drop]; omega
  refine ⟨off, ho, ?_⟩
  simp only [ItemOk, hlen]
  refine ⟨h2, by omega, ?_, h1, h8⟩
  rw [hd, range, List.drop_take]
  congr 1; omega

theorem itemLoop_sim (base : Nat) (d : Bytes) (off : Nat) (acc : List SdesItem) :
    off ≤ d.length → ∀ fuel, d.length - off ≤ fuel →
    (∀ its after, refItems fuel off (d.drop off) = some (its, after) →
      ∃ items e, (SdesChunk.itemLoop base d off acc >>= fin d) = .ok (acc ++ items, e) ∧
        items.map itemAsRef = its ∧ after = d.drop e ∧ off ≤ e ∧ e ≤ d.length ∧
        ∀ it ∈ items, ItemLocal base d it) ∧
    (refItems fuel off (d.drop off) = none →
      ∃ er, (SdesChunk.itemLoop base d off acc >>= fin d) = .err er ∧ ScanErr er) := by
  fun_induction SdesChunk.itemLoop base d off acc with
  | case1 off acc hlt hz =>
    intro ho fuel hf
    obtain ⟨f, rfl⟩ : ∃ f, fuel = f + 1 := ⟨fuel - 1, by omega⟩
    have hz' : d[off] = 0 := by simpa using hz
    rw [List.drop_eq_getElem_cons hlt, hz']
    simp only [refItems, if_true, R.ok_bind]
    have ht := fin_term d acc (off + 1) (by omega)
    by_cases hs : (d.drop (off + 1)).length < (4 - (off + 1) % 4) % 4
    · simp only [hs, if_true]
      exact ⟨fun _ _ h => (by cases h), fun _ => ht.1 (Or.inl hs)⟩
    · simp only [hs, if_false]
      cases ha : ((d.drop (off + 1)).take ((4 - (off + 1) % 4) % 4)).all (· == 0)
      · simp only [Bool.false_eq_true, if_false]
        exact ⟨fun _ _ h => (by cases h), fun _ => ht.1 (Or.inr ha)⟩
      · simp only [if_true]
        refine ⟨fun its after h => ?_, fun h => by cases h⟩
        cases h
        refine ⟨[], off + 1 + (4 - (off + 1) % 4) % 4, ?_, rfl, ?_, by omega, ?_, by simp⟩
        · rw [ht.2 hs ha]; simp
        · rw [List.drop_drop]
        · rw [List.length_drop] at hs; omega
  | case2 off acc hlt hz item e' hp ih =>
    intro ho fuel hf
    obtain ⟨f, rfl⟩ : ∃ f, fuel = f + 1 := ⟨fuel - 1, by omega⟩
    have hz' : d[off] ≠ 0 := by simpa using hz
    rw [item_parse_eq, List.drop_eq_getElem_cons hlt] at hp
    obtain ⟨h2, hle, hoff, hdata, h1, h8, href⟩ :=
      (refItems_item (base + off) f off d[off] (d.drop (off + 1)) hz').2 item e' hp
    have hloc := itemLocal_of base d off hlt item e' h2 hle hoff hdata h1 h8
    rw [List.drop_eq_getElem_cons hlt, href, ← List.drop_eq_getElem_cons hlt, List.drop_drop]
    rw [List.length_drop] at hle
    have ih' := ih (by omega) f (by omega)
    cases hr : refItems f (off + e') (d.drop (off + e')) with
    | none =>
      simp only []
      exact ⟨fun _ _ h => (by cases h), fun _ => ih'.2 hr⟩
    | some p =>
      obtain ⟨its, after⟩ := p
      simp only []
      refine ⟨fun its' after' h => ?_, fun h => by cases h⟩
      cases h
      obtain ⟨items, e, hok, hmap, hafter, hge, hlen, hall⟩ := ih'.1 its after hr
      refine ⟨item :: items, e, ?_, by simp [hmap], hafter, by omega, hlen, ?_⟩
      · rw [hok]; simp
      · intro it hit
        cases hit with
        | head => exact hloc
        | tail _ h => exact hall it h
  | case3 off acc hlt hz er hp =>
    intro ho fuel hf
    obtain ⟨f, rfl⟩ : ∃ f, fuel = f + 1 := ⟨fuel - 1, by omega⟩
    have hz' : d[off] ≠ 0 := by simpa using hz
    rw [item_parse_eq] at hp
    have hse := itemSpec_err _ _ _ hp
    rw [List.drop_eq_getElem_cons hlt] at hp
    have href := (refItems_item (base + off) f off d[off] (d.drop (off + 1)) hz').1 er hp
    rw [List.drop_eq_getElem_cons hlt, href]
    exact ⟨fun _ _ h => (by cases h), fun _ => ⟨er, rfl, hse⟩⟩
  | case4 off acc hlt hz hp =>
    rw [item_parse_eq] at hp
    exact absurd hp (itemSpec_no_panic _ _)
  | case5 off acc hge =>
    intro ho fuel hf
    have hoff : off = d.length := by omega
    subst hoff
    have ht := fin_end d acc
    simp only [List.drop_length, refItems, R.ok_bind]
    by_cases h4 : d.length % 4 = 0
    · simp only [h4, if_true]
      refine ⟨fun its after h => ?_, fun h => by cases h⟩
      cases h
      exact ⟨[], d.length, by rw [ht.1 h4]; simp, rfl, by simp, Nat.le_refl _, Nat.le_refl _, by simp⟩
    · simp only [h4, if_false]
      exact ⟨fun _ _ h => (by cases h), fun _ => ht.2 h4⟩


/-! ## one chunk -/

theorem chunk_parse_short (base : Nat) (s : Bytes) (h : s.length < 4) :
    SdesChunk.parse base s = .err (.truncated 4 s.length) := by
  simp [SdesChunk.parse, h]

/-- `SdesChunk.parse` with the post-processing folded into `fin` -/
theorem chunk_parse_eq (base : Nat) (a b c d : UInt8) (rest : Bytes) :
    SdesChunk.parse base (a :: b :: c :: d :: rest) =
      (if rest.length > 0 then SdesChunk.itemLoop base (a :: b :: c :: d :: rest) 4 [] >>=
          fin (a :: b :: c :: d :: rest) else .ok ([], 4)) >>= fun p =>
        .ok (⟨(a.toNat * 16777216 + b.toNat * 65536 + c.toNat * 256 + d.toNat).toUInt32, p.1⟩, p.2) := by
  unfold SdesChunk.parse
  have h4 : ¬ (rest.length + 1 + 1 + 1 + 1 < 4) := by omega
  simp only [List.length_cons, h4, if_false, slice, Nat.zero_le, true_and,
    show 4 ≤ rest.length + 1 + 1 + 1 + 1 by omega, if_true, R.ok_bind]
  simp only [List.take_succ_cons, List.take_zero, List.drop_zero, fromBe32, R.ok_bind]
  by_cases hr : rest.length > 0
  · have : rest.length + 1 + 1 + 1 + 1 > 4 := by omega
    simp only [this, hr, if_true]
    cases hl : SdesChunk.itemLoop base (a :: b :: c :: d :: rest) 4 [] with
    | ok p =>
      obtain ⟨items, off⟩ := p
      simp only [R.ok_bind, R.pure_eq, fin, List.length_cons]
      split <;> simp
    | err e => simp
    | panic => simp
  · have : ¬ (rest.length + 1 + 1 + 1 + 1 > 4) := by omega
    simp only [this, hr, if_false, R.pure_eq, R.ok_bind]
    have : pad4 4 = 4 := by decide
    simp [this]

theorem chunk_parse_sim (base : Nat) (a b c d : UInt8) (rest : Bytes) :
    (∀ its after, refItems rest.length 4 rest = some (its, after) →
      ∃ ck e, SdesChunk.parse base (a :: b :: c :: d :: rest) = .ok (ck, e) ∧
        chunkAsRef ck =
          ⟨(a.toNat * 16777216 + b.toNat * 65536 + c.toNat * 256 + d.toNat).toUInt32, its⟩ ∧
        after = (a :: b :: c :: d :: rest).drop e ∧ 4 ≤ e ∧ e ≤ rest.length + 4 ∧
        ∀ it ∈ ck.items, ItemLocal base (a :: b :: c :: d :: rest) it) ∧
    (refItems rest.length 4 rest = none →
      ∃ er, SdesChunk.parse base (a :: b :: c :: d :: rest) = .err er ∧ ScanErr er) := by
  rw [chunk_parse_eq]
  by_cases hr : rest.length > 0
  · simp only [hr, if_true]
    have hsim := itemLoop_sim base (a :: b :: c :: d :: rest) 4 [] (by simp) rest.length (by simp)
    have hd : (a :: b :: c :: d :: rest).drop 4 = rest := rfl
    rw [hd] at hsim
    constructor
    · intro its after h
      obtain ⟨items, e, hok, hmap, hafter, hge, hle, hall⟩ := hsim.1 its after h
      rw [hok]
      refine ⟨⟨(a.toNat * 16777216 + b.toNat * 65536 + c.toNat * 256 + d.toNat).toUInt32, items⟩, e, rfl, ?_, hafter, hge,
        by simpa using hle, by simpa using hall⟩
      simp [chunkAsRef, hmap]
    · intro h
      obtain ⟨er, herr, hse⟩ := hsim.2 h
      rw [herr]
      exact ⟨er, rfl, hse⟩
  · have : rest = [] := by
      cases rest with
      | nil => rfl
      | cons _ _ => simp at hr
    subst this
    simp only [List.length_nil, Nat.lt_irrefl, if_false, R.ok_bind, refItems]
    constructor
    · intro its after h
      simp at h
      obtain ⟨rfl, rfl⟩ := h
      exact ⟨⟨(a.toNat * 16777216 + b.toNat * 65536 + c.toNat * 256 + d.toNat).toUInt32, []⟩, 4, rfl,
        by simp [chunkAsRef], by simp, by omega, by omega, by simp⟩
    · intro h; simp at h


/-- one step of `refChunks` in terms of `SdesChunk.parse` -/
theorem chunk_step (base f : Nat) (s : Bytes) (hne : s ≠ []) :
    (∀ er, SdesChunk.parse base s = .err er → refChunks (f + 1) s = none ∧ ScanErr er) ∧
    (∀ ck e, SdesChunk.parse base s = .ok (ck, e) →
      4 ≤ e ∧ e ≤ s.length ∧ (∀ it ∈ ck.items, ItemLocal base s it) ∧
      refChunks (f + 1) s =
        match refChunks f (s.drop e) with
        | some cs => some (chunkAsRef ck :: cs)
        | none => none) ∧
    SdesChunk.parse base s ≠ .panic := by
  match s, hne with
  | [x], _ => simp [chunk_parse_short, refChunks, ScanErr]
  | [x, y], _ => simp [chunk_parse_short, refChunks, ScanErr]
  | [x, y, z], _ => simp [chunk_parse_short, refChunks, ScanErr]
  | a :: b :: c :: d :: rest, _ =>
    have hsim := chunk_parse_sim base a b c d rest
    simp only [refChunks]
    cases hr : refItems rest.length 4 rest with
    | none =>
      obtain ⟨er, herr, hse⟩ := hsim.2 hr
      rw [herr]
      refine ⟨fun er' h => ?_, fun _ _ h => (by cases h), by simp⟩
      cases h
      exact ⟨rfl, hse⟩
    | some p =>
      obtain ⟨its, after⟩ := p
      obtain ⟨ck, e, hok, hck, hafter, hge, hle, hall⟩ := hsim.1 its after hr
      rw [hok]
      refine ⟨fun _ h => (by cases h), fun ck' e' h => ?_, by simp⟩
      cases h
      refine ⟨hge, by simpa using hle, hall, ?_⟩
      simp only [← hafter]
      cases refChunks f after with
      | none => rfl
      | some cs => simp only [hck]

theorem itemOk_lift (bs : Bytes) (base ce : Nat) (hce : ce ≤ bs.length) (it : SdesItem)
    (h : ItemLocal base (range bs base ce) it) : ItemOk bs it := by
  obtain ⟨o, ho, h2, hle, hd, h1, h8⟩ := h
  simp only at h2 hle hd h1 h8
  rw [range_length bs base ce hce] at hle
  rw [range_range bs base ce o (o + it.data.length) (by omega)] at hd
  refine ⟨h2, by omega, ?_, h1, h8⟩
  rw [ho, Nat.add_assoc]
  exact hd

/-! ## the chunk loop simulates `refChunks` -/

theorem chunkLoop_sim (d : Bytes) (ce off : Nat) (acc : List SdesChunk) :
    off ≤ ce → ce ≤ d.length → ∀ fuel, ce - off ≤ fuel →
    (∀ cs, refChunks fuel (range d off ce) = some cs →
      ∃ cks, Sdes.chunkLoop d ce off acc = .ok (acc ++ cks) ∧ cks.map chunkAsRef = cs ∧
        ∀ c ∈ cks, ∀ it ∈ c.items, ItemOk d it) ∧
    (refChunks fuel (range d off ce) = none →
      ∃ er, Sdes.chunkLoop d ce off acc = .err er ∧ ScanErr er) := by
  fun_induction Sdes.chunkLoop d ce off acc with
  | case1 off acc hlt s hs ck e hp ih =>
    intro ho hce fuel hf
    obtain ⟨f, rfl⟩ : ∃ f, fuel = f + 1 := ⟨fuel - 1, by omega⟩
    rw [slice_ok d off ce ⟨ho, hce⟩] at hs
    cases hs
    have hlen := range_length d off ce hce
    have hne : range d off ce ≠ [] := by
      intro h; rw [h] at hlen; simp at hlen; omega
    obtain ⟨hge, hle, hall, href⟩ := (chunk_step off f _ hne).2.1 ck e hp
    rw [hlen] at hle
    have hdrop : (range d off ce).drop e = range d (off + e) ce := by
      simp only [range, List.drop_drop]
    rw [href, hdrop]
    have ih' := ih (by omega) hce f (by omega)
    cases hr : refChunks f (range d (off + e) ce) with
    | none =>
      simp only []
      exact ⟨fun _ h => (by cases h), fun _ => ih'.2 hr⟩
    | some cs =>
      simp only []
      refine ⟨fun cs' h => ?_, fun h => by cases h⟩
      cases h
      obtain ⟨cks, hok, hmap, hitems⟩ := ih'.1 cs hr
      refine ⟨ck :: cks, by rw [hok]; simp, by simp [hmap], ?_⟩
      intro c hc
      cases hc with
      | head => exact fun it hit => itemOk_lift d off ce hce it (hall it hit)
      | tail _ h => exact hitems c h
  | case2 off acc hlt s hs er hp =>
    intro ho hce fuel hf
    obtain ⟨f, rfl⟩ : ∃ f, fuel = f + 1 := ⟨fuel - 1, by omega⟩
    rw [slice_ok d off ce ⟨ho, hce⟩] at hs
    cases hs
    have hlen := range_length d off ce hce
    have hne : range d off ce ≠ [] := by
      intro h; rw [h] at hlen; simp at hlen; omega
    obtain ⟨href, hse⟩ := (chunk_step off f _ hne).1 er hp
    rw [href]
    exact ⟨fun _ h => (by cases h), fun _ => ⟨er, rfl, hse⟩⟩
  | case3 off acc hlt s hs hp =>
    intro ho hce fuel hf
    rw [slice_ok d off ce ⟨ho, hce⟩] at hs
    cases hs
    have hlen := range_length d off ce hce
    have hne : range d off ce ≠ [] := by
      intro h; rw [h] at hlen; simp at hlen; omega
    exact absurd hp (chunk_step off 0 _ hne).2.2
  | case4 off acc hlt er hs =>
    intro ho hce
    rw [slice_ok d off ce ⟨ho, hce⟩] at hs
    cases hs
  | case5 off acc hlt hs =>
    intro ho hce
    rw [slice_ok d off ce ⟨ho, hce⟩] at hs
    cases hs
  | case6 off acc hge =>
    intro ho hce fuel hf
    have : off = ce := by omega
    subst this
    have : range d off off = [] := by
      have := range_length d off off hce
      simpa using this
    rw [this]
    have : refChunks fuel [] = some [] := by cases fuel <;> rfl
    rw [this]
    refine ⟨fun cs h => ?_, fun h => by cases h⟩
    cases h
    exact ⟨[], by simp, rfl, by simp⟩

end Rtcp.Proofs.SdesAux
