import Rtcp.Props.Trees
import Rtcp.Proofs.CompoundE2E

namespace Rtcp.Proofs
open Rtcp Rtcp.Impl Rtcp.Spec Rtcp.Props

theorem toWriters_length (ts : List Tree) : (Tree.toWriters ts).length = ts.length := by
  induction ts with
  | nil => rfl
  | cons t ts ih => simp [Tree.toWriters, ih]

theorem toWriters_eq_map (ts : List Tree) : Tree.toWriters ts = ts.map Tree.toWriter := by
  induction ts with
  | nil => rfl
  | cons t ts ih => simp [Tree.toWriters, ih]

theorem leavesL_eq (ts : List Tree) : Tree.leavesL ts = (ts.map Tree.leaves).flatten := by
  induction ts with
  | nil => rfl
  | cons t ts ih => simp [Tree.leavesL, ih]

theorem node_image (ts : List Tree) : (Tree.node ts).image = (ts.map Tree.image).flatten := by
  simp only [Tree.image, Tree.leaves, leavesL_eq, List.map_flatten, List.map_map, List.flatten_flatten]
  rfl

mutual
theorem tree_refines : ∀ (t : Tree), (∀ m ∈ t.leaves, m.Inv) → Refines t.toWriter t.image
  | .leaf m, h => by
    have := member_refines m (h m (by simp [Tree.leaves]))
    simpa [Tree.toWriter, Tree.image, Tree.leaves] using this
  | .node ts, h => by
    have hall := trees_refine ts (by simpa [Tree.leaves] using h)
    have := Props.compound_refines _ _ hall
    rw [node_image]
    simpa [Tree.toWriter] using this
theorem trees_refine : ∀ (ts : List Tree), (∀ m ∈ Tree.leavesL ts, m.Inv) →
    AllRefine (Tree.toWriters ts) (ts.map Tree.image)
  | [], _ => ⟨rfl, fun i h1 _ => absurd h1 (by simp [Tree.toWriters])⟩
  | t :: ts, h => by
    have h1 := tree_refines t (fun m hm => h m (by simp [Tree.leavesL, hm]))
    have h2 := trees_refine ts (fun m hm => h m (by simp [Tree.leavesL, hm]))
    refine ⟨by simp [Tree.toWriters, toWriters_length], ?_⟩
    intro i hi1 hi2
    cases i with
    | zero => simpa [Tree.toWriters] using h1
    | succ j =>
      simp only [Tree.toWriters, List.map_cons, List.getElem_cons_succ]
      exact h2.2 j (by simpa [Tree.toWriters] using hi1) (by simpa using hi2)
end

theorem leaves_sub {ts : List Tree} {t : Tree} (ht : t ∈ ts) {m : Member} (hm : m ∈ t.leaves) :
    m ∈ Tree.leavesL ts := by
  rw [leavesL_eq]
  exact List.mem_flatten.mpr ⟨t.leaves, List.mem_map.mpr ⟨t, ht, rfl⟩, hm⟩

mutual
theorem tree_leaves_accepted : ∀ (t : Tree), (∀ m ∈ t.leaves, m.Inv) → ∀ k, t.toWriter.calcSize = .ok k →
    ∀ m ∈ t.leaves, ∃ k', m.toWriter.calcSize = .ok k'
  | .leaf m, _, k, hk => by
    intro m' hm'
    simp only [Tree.leaves, List.mem_cons, List.not_mem_nil, or_false] at hm'
    subst hm'
    exact ⟨k, by simpa [Tree.toWriter] using hk⟩
  | .node ts, h, k, hk => by
    have h' : ∀ m ∈ Tree.leavesL ts, m.Inv := by simpa [Tree.leaves] using h
    have hnp : ∀ w ∈ Tree.toWriters ts, w.calcSize ≠ .panic := by
      intro w hw
      rw [toWriters_eq_map] at hw
      obtain ⟨t, ht, rfl⟩ := List.mem_map.mp hw
      exact (tree_refines t (fun m hm => h' m (leaves_sub ht hm))).noPanic
    have hk' : CompoundBuilder.calcSize (Tree.toWriters ts) = .ok k := by
      simp only [Tree.toWriter] at hk
      exact hk
    have hacc := ((Props.compound_accept_iff _ hnp).mp ⟨k, hk'⟩).1
    simpa [Tree.leaves] using trees_leaves_accepted ts h' hacc
theorem trees_leaves_accepted : ∀ (ts : List Tree), (∀ m ∈ Tree.leavesL ts, m.Inv) →
    (∀ w ∈ Tree.toWriters ts, ∃ k, w.calcSize = .ok k) → ∀ m ∈ Tree.leavesL ts, ∃ k', m.toWriter.calcSize = .ok k'
  | [], _, _ => by intro m hm; simp [Tree.leavesL] at hm
  | t :: ts, h, hacc => by
    intro m hm
    simp only [Tree.leavesL, List.mem_append] at hm
    rcases hm with hm | hm
    · obtain ⟨k, hk⟩ := hacc t.toWriter (by simp [Tree.toWriters])
      exact tree_leaves_accepted t (fun m hm => h m (by simp [Tree.leavesL, hm])) k hk m hm
    · exact trees_leaves_accepted ts (fun m hm => h m (by simp [Tree.leavesL, hm]))
        (fun w hw => hacc w (by simp [Tree.toWriters, hw])) m hm
end

theorem nested_end_to_end {ε : Type} (t : Tree) (hinv : ∀ m ∈ t.leaves, m.Inv) (hne : t.leaves ≠ []) (n : Nat)
    (hs : t.toWriter.calcSize = .ok n) (buf : Bytes) (hb : n ≤ buf.length)
    (fuel : Nat) (hf : t.leaves.length < fuel) :
    t.toWriter.writeInto buf = (t.image ++ buf.drop n, .ok n) ∧
    t.image.length = n ∧
    Compound.parse t.image = .ok ⟨t.image, 0, false⟩ ∧
    (∀ m ∈ t.leaves, ∃ p, Packet.parse m.image = .ok p ∧ p.kind? = some m.kind) ∧
    ∃ items c', (Compound.collect fuel ⟨t.image, 0, false⟩ [] : R ε _) = .ok (items, true, c') ∧
      items.map (·.1) = t.leaves.map (fun m => Packet.parse m.image) ∧ items.length = t.leaves.length := by
  have href := tree_refines t hinv
  have hw := Props.writeInto_ok href hs buf hb
  have hlen := (href.exact n hs).1
  have hacc := tree_leaves_accepted t hinv n hs
  have hmem : ∀ m ∈ t.leaves, Tile m.image ∧ ∃ p, Packet.parse m.image = .ok p ∧ p.kind? = some m.kind := by
    intro m hm
    obtain ⟨k, hk⟩ := hacc m hm
    exact member_accepted m (hinv m hm) k hk
  have hne' : t.leaves.map Member.image ≠ [] := by simpa using hne
  have htile : ∀ x ∈ t.leaves.map Member.image, Tile x := by
    intro x hx
    obtain ⟨m, hm, rfl⟩ := List.mem_map.mp hx
    exact (hmem m hm).1
  have hok : ∀ x ∈ t.leaves.map Member.image, ∃ p, Packet.parse x = .ok p := by
    intro x hx
    obtain ⟨m, hm, rfl⟩ := List.mem_map.mp hx
    obtain ⟨p, hp, _⟩ := (hmem m hm).2
    exact ⟨p, hp⟩
  have hnpp : ∀ x ∈ t.leaves.map Member.image, Packet.parse x ≠ .panic := by
    intro x hx
    obtain ⟨p, hp⟩ := hok x hx
    rw [hp]; simp
  have hback := Props.compound_parse_back (ε := ε) _ hne' htile hnpp fuel (by simpa using hf)
  obtain ⟨items, c', hcol, hmap, hlen'⟩ :=
    Props.compound_parse_back_all (ε := ε) _ hne' htile hok fuel (by simpa using hf)
  refine ⟨hw, hlen, hback.1, fun m hm => (hmem m hm).2, items, c', hcol, ?_, ?_⟩
  · simpa [List.map_map, Function.comp_def] using hmap
  · simpa using hlen'

end Rtcp.Proofs
