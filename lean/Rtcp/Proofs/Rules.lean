/-
  Proofs: calcSize decides the rules.
-/
import Rtcp.Spec.All
import Rtcp.Proofs.BufLemmas

namespace Rtcp.Proofs
open Rtcp Rtcp.Impl Rtcp.Spec

theorem decides_ok {n : Nat} {rules : List WriteError} (h : rules = []) : Decides (.ok n) rules where
  accept_iff := ⟨fun _ => h, fun _ => ⟨n, rfl⟩⟩
  error_named := by intro e he; cases he
  noPanic := by simp

theorem decides_err {e : WriteError} {rules : List WriteError} (h : e ∈ rules) : Decides (.err e) rules where
  accept_iff := ⟨fun ⟨n, hn⟩ => (by cases hn), fun hr => (by subst hr; cases h)⟩
  error_named := by intro e' he; cases he; exact h
  noPanic := by simp

/-- the outcome of a `Decides` computation -/
theorem decides_cases {c : R WriteError Nat} {rules : List WriteError} (h : Decides c rules) :
    (∃ n, c = .ok n ∧ rules = []) ∨ (∃ e, c = .err e ∧ e ∈ rules) := by
  cases hc : c with
  | ok n => exact .inl ⟨n, rfl, h.accept_iff.mp ⟨n, hc⟩⟩
  | err e => exact .inr ⟨e, rfl, h.error_named e hc⟩
  | panic => exact absurd hc h.noPanic

/-- the generic shape of the three size loops -/
def sizesG {β : Type} (c : β → R WriteError Nat) : List β → Nat → R WriteError Nat
  | [], acc => .ok acc
  | x :: rest, acc =>
    match c x with
    | .ok n => sizesG c rest (acc + n)
    | .err e => .err e
    | .panic => .panic

theorem sizesG_cases {β : Type} (c : β → R WriteError Nat) (r : β → List WriteError) (sz : β → Nat)
    (hd : ∀ x, Decides (c x) (r x)) (hs : ∀ x n, c x = .ok n → n = sz x) (xs : List β) (acc : Nat) :
    ((xs.map r).flatten = [] ∧ sizesG c xs acc = .ok (acc + (xs.map sz).sum)) ∨
    (∃ e, sizesG c xs acc = .err e ∧ e ∈ (xs.map r).flatten) := by
  induction xs generalizing acc with
  | nil => left; simp [sizesG]
  | cons x rest ih =>
    unfold sizesG
    rcases decides_cases (hd x) with ⟨n, hc, hr⟩ | ⟨e, hc, he⟩
    · rw [hc]
      have hn := hs x n hc
      subst hn
      rcases ih (acc + sz x) with ⟨h1, h2⟩ | ⟨e, h1, h2⟩
      · left
        refine ⟨by simp [hr, h1], ?_⟩
        simp only [h2, List.map_cons, List.sum_cons]
        congr 1; omega
      · right
        exact ⟨e, h1, by simp only [List.map_cons, List.flatten_cons, List.mem_append]; exact .inr h2⟩
    · rw [hc]
      right
      exact ⟨e, rfl, by simp only [List.map_cons, List.flatten_cons, List.mem_append]; exact .inl he⟩

theorem rbSizes_eq (xs : List ReportBlockBuilder) (acc : Nat) :
    rbSizes xs acc = sizesG ReportBlockBuilder.calcSize xs acc := by
  induction xs generalizing acc with
  | nil => rfl
  | cons x rest ih => unfold rbSizes sizesG; split <;> simp_all

theorem itemSizes_eq (xs : List SdesItemBuilder) (acc : Nat) :
    SdesChunkBuilder.itemSizes xs acc = sizesG SdesItemBuilder.calcSize xs acc := by
  induction xs generalizing acc with
  | nil => rfl
  | cons x rest ih => unfold SdesChunkBuilder.itemSizes sizesG; split <;> simp_all

theorem chunkSizes_eq (xs : List SdesChunkBuilder) (acc : Nat) :
    SdesBuilder.chunkSizes xs acc = sizesG SdesChunkBuilder.calcSize xs acc := by
  induction xs generalizing acc with
  | nil => rfl
  | cons x rest ih => unfold SdesBuilder.chunkSizes sizesG; split <;> simp_all

theorem rb_rules (b : ReportBlockBuilder) : Decides b.calcSize (rbRules b) := by
  unfold ReportBlockBuilder.calcSize rbRules
  by_cases h : b.cumulativeLost.toNat > 0xffffff
  · have h' : (b.cumulativeLost.toNat / 16777216 != 0) = true := by simp; omega
    rw [if_pos h', if_pos h]
    exact decides_err (by simp)
  · have h' : ¬ (b.cumulativeLost.toNat / 16777216 != 0) = true := by simp; omega
    rw [if_neg h', if_neg h]
    exact decides_ok rfl

theorem checkPacketLen_decides (n : Nat) : Decides (checkPacketLen n) (sizeRule n) := by
  unfold checkPacketLen sizeRule maxPacketLen
  split
  · exact decides_err (by simp)
  · exact decides_ok rfl

theorem padRule_cases (p : UInt8) :
    (p.toNat % 4 = 0 ∧ checkPadding p = .ok () ∧ padRule p = []) ∨
    (checkPadding p = .err (.invalidPadding p) ∧ padRule p = [.invalidPadding p]) := by
  unfold padRule
  rcases checkPadding_cases p with ⟨h, hc⟩ | ⟨h, hc⟩
  · exact .inl ⟨h, hc, by simp [h]⟩
  · exact .inr ⟨hc, by simp [h]⟩

theorem rb_size (b : ReportBlockBuilder) (n : Nat) (h : b.calcSize = .ok n) : n = 24 := by
  unfold ReportBlockBuilder.calcSize at h
  split at h
  · cases h
  · cases h; rfl

theorem rbSizes_cases (xs : List ReportBlockBuilder) :
    ((xs.map rbRules).flatten = [] ∧ rbSizes xs 0 = .ok (24 * xs.length)) ∨
    (∃ e, rbSizes xs 0 = .err e ∧ e ∈ (xs.map rbRules).flatten) := by
  rw [rbSizes_eq]
  rcases sizesG_cases _ rbRules (fun _ => 24) rb_rules rb_size xs 0 with ⟨h1, h2⟩ | h
  · left
    refine ⟨h1, ?_⟩
    rw [h2]
    congr 1
    clear h1 h2
    induction xs with
    | nil => rfl
    | cons x rest ih => simp only [List.map_cons, List.sum_cons, List.length_cons] at ih ⊢; omega
  · exact .inr h

theorem sr_rules (b : SrBuilder) : Decides b.calcSize (srRules b) := by
  unfold SrBuilder.calcSize srRules
  split
  · exact decides_err (by simp [*])
  · next h =>
    rcases padRule_cases b.padding with ⟨_, hc, hp⟩ | ⟨hc, hp⟩ <;> simp only [hc, hp, R.ok_bind, R.err_bind]
    · rcases rbSizes_cases b.reportBlocks with ⟨h1, h2⟩ | ⟨e, h1, h2⟩
      · simp only [h2, R.ok_bind, R.pure_eq]
        exact decides_ok (by simp [h1])
      · simp only [h1, R.err_bind]
        exact decides_err (by simp [h2])
    · exact decides_err (by simp)

theorem rr_rules (b : RrBuilder) : Decides b.calcSize (rrRules b) := by
  unfold RrBuilder.calcSize rrRules
  split
  · exact decides_err (by simp [*])
  · next h =>
    rcases padRule_cases b.padding with ⟨_, hc, hp⟩ | ⟨hc, hp⟩ <;> simp only [hc, hp, R.ok_bind, R.err_bind]
    · rcases rbSizes_cases b.reportBlocks with ⟨h1, h2⟩ | ⟨e, h1, h2⟩
      · simp only [h2, R.ok_bind, R.pure_eq]
        exact decides_ok (by simp [h1])
      · simp only [h1, R.err_bind]
        exact decides_err (by simp [h2])
    · exact decides_err (by simp)

theorem bye_rules (b : ByeBuilder) : Decides b.calcSize (byeRules b) := by
  unfold ByeBuilder.calcSize byeRules
  split
  · exact decides_err (by simp [*])
  · next h =>
    rcases padRule_cases b.padding with ⟨_, hc, hp⟩ | ⟨hc, hp⟩ <;> simp only [hc, hp, R.ok_bind, R.err_bind]
    · by_cases he : b.reason = []
      · simp [he]
        exact decides_ok rfl
      · have he' : (!b.reason.isEmpty) = true := by simp [he]
        simp only [he', if_true]
        split
        · exact decides_err (by simp [*])
        · exact decides_ok (by simp [*])
    · exact decides_err (by simp)

theorem basic_err {e : WriteError} {basic extra : List WriteError} (h : e ∈ basic) :
    Decides (.err e) (basic ++ (if basic = [] then extra else [])) :=
  decides_err (List.mem_append_left _ h)

theorem basic_size {basic : List WriteError} {n : Nat} (h : basic = []) :
    Decides (checkPacketLen n) (basic ++ (if basic = [] then sizeRule n else [])) := by
  subst h
  simpa using checkPacketLen_decides n

theorem app_rules (b : AppBuilder) : Decides b.calcSize (appRules b) := by
  unfold AppBuilder.calcSize appRules
  by_cases h1 : b.subtype.toNat > 31
  · have h1' : b.subtype > 0x1f := by simpa [UInt8.lt_iff_toNat_lt] using h1
    simp only [if_pos h1']
    exact basic_err (by simp [h1])
  · have h1' : ¬ b.subtype > 0x1f := by simpa [UInt8.lt_iff_toNat_lt] using h1
    simp only [if_neg h1']
    by_cases h2 : b.name.length > 4 ∨ ∃ c ∈ b.name, c.toNat ≥ 128
    · have h2' : (b.name.length > 4 || !(b.name.all (· < 128))) = true := by
        rcases h2 with h2 | ⟨c, hc, h2⟩
        · simp [h2]
        · simp only [Bool.or_eq_true, decide_eq_true_eq, Bool.not_eq_true', List.all_eq_false]
          exact .inr ⟨c, hc, by simp [UInt8.lt_iff_toNat_lt]; omega⟩
      simp only [if_pos h2']
      exact basic_err (by simp [h2])
    · have h2' : ¬ (b.name.length > 4 || !(b.name.all (· < 128))) = true := by
        intro hh
        apply h2
        simp only [Bool.or_eq_true, decide_eq_true_eq, Bool.not_eq_true', List.all_eq_false] at hh
        rcases hh with hh | ⟨c, hc, hh⟩
        · exact .inl hh
        · exact .inr ⟨c, hc, by simp [UInt8.lt_iff_toNat_lt] at hh; omega⟩
      simp only [if_neg h2']
      by_cases h3 : b.data.length % 4 ≠ 0
      · have h3' : (b.data.length % 4 != 0) = true := by simpa using h3
        simp only [if_pos h3']
        exact basic_err (by simp [h3])
      · have h3' : ¬ (b.data.length % 4 != 0) = true := by simpa using h3
        simp only [if_neg h3']
        rcases padRule_cases b.padding with ⟨_, hc, hp⟩ | ⟨hc, hp⟩ <;> simp only [hc, hp, R.ok_bind, R.err_bind]
        · exact basic_size (by simp [h1, h2, h3])
        · exact basic_err (by simp)

theorem item_rules (b : SdesItemBuilder) : Decides b.calcSize (itemRules b) := by
  unfold SdesItemBuilder.calcSize itemRules SdesItem.PRIV
  by_cases ht : b.type = 8
  · simp only [ht, beq_self_eq_true, if_true]
    by_cases h1 : b.prefix_.length > 254
    · rw [if_pos (by omega), if_pos h1]
      exact decides_err (by simp)
    · rw [if_neg (by omega), if_neg h1]
      by_cases h2 : b.prefix_.length + b.value.length > 254
      · rw [if_pos (by omega), if_pos h2]
        have : b.prefix_.length % 256 = b.prefix_.length := by omega
        rw [this]
        exact decides_err (by simp)
      · rw [if_neg (by omega), if_neg h2]
        exact decides_ok rfl
  · have ht' : (b.type == 8) = false := by simpa using ht
    simp only [ht', if_neg ht, Bool.false_eq_true, if_false]
    split
    · exact decides_err (by simp)
    · exact decides_ok rfl

theorem item_size (b : SdesItemBuilder) (n : Nat) (h : b.calcSize = .ok n) : n = (itemImage b).length := by
  unfold SdesItemBuilder.calcSize SdesItem.PRIV at h
  unfold itemImage
  by_cases ht : b.type = 8
  · simp only [ht, beq_self_eq_true, if_true] at h ⊢
    split at h
    · cases h
    · split at h
      · cases h
      · cases h; simp; omega
  · have ht' : (b.type == 8) = false := by simpa using ht
    simp only [ht', if_neg ht, Bool.false_eq_true, if_false] at h ⊢
    split at h
    · cases h
    · cases h; simp; omega

theorem itemSizes_cases (xs : List SdesItemBuilder) :
    ((xs.map itemRules).flatten = [] ∧
      SdesChunkBuilder.itemSizes xs 0 = .ok ((xs.map itemImage).flatten.length)) ∨
    (∃ e, SdesChunkBuilder.itemSizes xs 0 = .err e ∧ e ∈ (xs.map itemRules).flatten) := by
  rw [itemSizes_eq]
  rcases sizesG_cases _ itemRules (fun x => (itemImage x).length) item_rules item_size xs 0 with ⟨h1, h2⟩ | h
  · left
    refine ⟨h1, ?_⟩
    rw [h2, List.length_flatten, List.map_map]
    simp [Function.comp_def]
  · exact .inr h

theorem chunkImage_len (c : SdesChunkBuilder) :
    (chunkImage c).length = pad4 (4 + (c.items.map itemImage).flatten.length + 1) := by
  unfold chunkImage
  rw [zfill_length]
  simp [-List.length_flatten, Nat.add_assoc]

theorem chunk_rules (b : SdesChunkBuilder) : Decides b.calcSize (chunkRules b) := by
  unfold SdesChunkBuilder.calcSize chunkRules
  rcases itemSizes_cases b.items with ⟨h1, h2⟩ | ⟨e, h1, h2⟩
  · simp only [h2, R.ok_bind, R.pure_eq]
    exact decides_ok h1
  · simp only [h1, R.err_bind]
    exact decides_err h2

theorem chunk_size (b : SdesChunkBuilder) (n : Nat) (h : b.calcSize = .ok n) : n = (chunkImage b).length := by
  unfold SdesChunkBuilder.calcSize at h
  rcases itemSizes_cases b.items with ⟨h1, h2⟩ | ⟨e, h1, h2⟩
  · simp only [h2, R.ok_bind, R.pure_eq] at h
    cases h
    rw [chunkImage_len]
  · simp only [h1, R.err_bind] at h
    cases h

theorem chunkSizes_cases (xs : List SdesChunkBuilder) :
    ((xs.map chunkRules).flatten = [] ∧
      SdesBuilder.chunkSizes xs 0 = .ok ((xs.map chunkImage).flatten.length)) ∨
    (∃ e, SdesBuilder.chunkSizes xs 0 = .err e ∧ e ∈ (xs.map chunkRules).flatten) := by
  rw [chunkSizes_eq]
  rcases sizesG_cases _ chunkRules (fun x => (chunkImage x).length) chunk_rules chunk_size xs 0 with ⟨h1, h2⟩ | h
  · left
    refine ⟨h1, ?_⟩
    rw [h2, List.length_flatten, List.map_map]
    simp [Function.comp_def]
  · exact .inr h

theorem sdes_rules (b : SdesBuilder) : Decides b.calcSize (sdesRules b) := by
  unfold SdesBuilder.calcSize sdesRules
  by_cases h : b.chunks.length > 31
  · simp only [if_pos h]
    exact basic_err (by simp)
  · simp only [if_neg h]
    rcases padRule_cases b.padding with ⟨_, hc, hp⟩ | ⟨hc, hp⟩ <;> simp only [hc, hp, R.ok_bind, R.err_bind]
    · rcases chunkSizes_cases b.chunks with ⟨h1, h2⟩ | ⟨e, h1, h2⟩
      · simp only [h2, R.ok_bind]
        exact basic_size (by simp [h1])
      · simp only [h1, R.err_bind]
        exact basic_err (by simp [h2])
    · exact basic_err (by simp)

theorem unknown_rules (b : UnknownBuilder) : Decides b.calcSize (unknownRules b) := by
  unfold UnknownBuilder.calcSize unknownRules
  by_cases h1 : b.count.toNat > 31
  · have h1' : b.count > 0x1f := by simpa [UInt8.lt_iff_toNat_lt] using h1
    simp only [if_pos h1']
    exact basic_err (by simp [h1])
  · have h1' : ¬ b.count > 0x1f := by simpa [UInt8.lt_iff_toNat_lt] using h1
    simp only [if_neg h1']
    rcases padRule_cases b.padding with ⟨_, hc, hp⟩ | ⟨hc, hp⟩ <;> simp only [hc, hp, R.ok_bind, R.err_bind]
    · by_cases h3 : b.data.length % 4 ≠ 0
      · have h3' : (b.data.length % 4 != 0) = true := by simpa using h3
        simp only [if_pos h3']
        exact basic_err (by simp [h3])
      · have h3' : ¬ (b.data.length % 4 != 0) = true := by simpa using h3
        simp only [if_neg h3']
        exact basic_size (by simp [h1, h3])
    · exact basic_err (by simp)

theorem custom_rules (b : CustomBuilder) : Decides b.calcSize (customRules b) := by
  unfold CustomBuilder.calcSize customRules
  rcases padRule_cases b.padding with ⟨_, hc, hp⟩ | ⟨hc, hp⟩ <;> simp only [hc, hp, R.ok_bind, R.err_bind]
  · by_cases h3 : b.body.length % 4 ≠ 0
    · have h3' : (b.body.length % 4 != 0) = true := by simpa using h3
      simp only [if_pos h3']
      exact decides_err (by simp [h3])
    · have h3' : ¬ (b.body.length % 4 != 0) = true := by simpa using h3
      simp only [if_neg h3', R.pure_eq]
      exact decides_ok (by simp [h3])
  · exact decides_err (by simp)

theorem rpsi_rules (b : RpsiBuilder) : Decides b.calcSize (rpsiRules b) := by
  unfold RpsiBuilder.calcSize rpsiRules
  by_cases h1 : b.payloadType.toNat > 127
  · have h1' : b.payloadType > 127 := by simpa [UInt8.lt_iff_toNat_lt] using h1
    simp only [if_pos h1']
    exact decides_err (by simp [h1])
  · have h1' : ¬ b.payloadType > 127 := by simpa [UInt8.lt_iff_toNat_lt] using h1
    simp only [if_neg h1']
    by_cases h2 : b.nativeBitOverrun.toNat > 8 ∨ (b.nativeBitString = [] ∧ b.nativeBitOverrun.toNat > 0)
    · have h2' : (b.nativeBitOverrun > 8 || (b.nativeBitString.isEmpty && b.nativeBitOverrun > 0)) = true := by
        simpa [UInt8.lt_iff_toNat_lt] using h2
      simp only [if_pos h2']
      exact decides_err (by simp [h2])
    · have h2' : ¬ (b.nativeBitOverrun > 8 || (b.nativeBitString.isEmpty && b.nativeBitOverrun > 0)) = true := by
        simpa [UInt8.lt_iff_toNat_lt] using h2
      simp only [if_neg h2']
      exact decides_ok (by simp [h1, h2])

/-! ## FCI sizes -/

theorem nack_go_len (rest : List UInt16) : ∀ (base m1 m2 : Nat), base < 65536 →
    (∀ e ∈ rest, base < e.toNat) → rest.Pairwise (· < ·) →
    (NackBuilder.go base m1 rest).length = (nackEncodeFrom base m2 (rest.map (·.toNat))).length := by
  induction rest with
  | nil => intros; simp [NackBuilder.go, nackEncodeFrom]
  | cons e rest ih =>
    intro base m1 m2 hb hlt hp
    have he : base < e.toNat := hlt e (by simp)
    have he2 : e.toNat < 65536 := e.toNat_lt
    have hd : (e.toNat + 65536 - base) % 65536 = e.toNat - base := by omega
    rw [List.pairwise_cons] at hp
    have hrest : ∀ x ∈ rest, e.toNat < x.toNat := fun x hx => UInt16.lt_iff_toNat_lt.mp (hp.1 x hx)
    unfold NackBuilder.go
    simp only [List.map_cons, nackEncodeFrom, hd]
    by_cases h16 : e.toNat - base > 16
    · simp only [if_pos h16, List.length_cons]
      rw [ih e.toNat 0 0 he2 hrest hp.2]
    · have hpos : e.toNat - base > 0 := by omega
      simp only [if_neg h16, if_pos hpos, if_pos he]
      exact ih base _ _ hb (fun x hx => by have := hrest x hx; omega) hp.2

theorem nack_entries_len (b : NackBuilder) (h : b.rtpSeq.Pairwise (· < ·)) :
    b.entries.length = (nackEncode (b.rtpSeq.map (·.toNat))).length := by
  unfold NackBuilder.entries
  cases hs : b.rtpSeq with
  | nil => simp [nackEncode]
  | cons s rest =>
    rw [hs, List.pairwise_cons] at h
    simp only [List.map_cons, nackEncode]
    exact nack_go_len rest s.toNat 0 0 s.toNat_lt (fun x hx => UInt16.lt_iff_toNat_lt.mp (h.1 x hx)) h.2

theorem nackImage_len (ws : List NackWord) : ((ws.map nackWordImage).flatten).length = 4 * ws.length := by
  induction ws with
  | nil => rfl
  | cons w ws ih => simp [nackWordImage, ih]; omega

theorem firImage_len (es : List (UInt32 × UInt8)) :
    ((es.map firEntryImage).flatten).length = 8 * es.length := by
  induction es with
  | nil => rfl
  | cons e es ih => simp [firEntryImage, ih]; omega

theorem sliImage_len (es : List MacroBlockEntry) :
    ((es.map sliEntryImage).flatten).length = 4 * es.length := by
  induction es with
  | nil => rfl
  | cons e es ih => simp [sliEntryImage, ih]; omega

theorem rpsiImage_len (b : RpsiBuilder) : (rpsiImage b).length = pad4 (2 + b.nativeBitString.length) := by
  unfold rpsiImage
  have hp := le_pad4 (2 + b.nativeBitString.length)
  cases hl : b.nativeBitString.getLast? with
  | none =>
    have : b.nativeBitString = [] := by simpa using hl
    simp [this, pad4]
  | some l =>
    have hne : b.nativeBitString ≠ [] := by
      intro h; simp [h] at hl
    have : 0 < b.nativeBitString.length := List.length_pos_iff.mpr hne
    simp
    omega

/-- the size an FCI builder announces is the length of its image, a multiple of 4 -/
theorem fci_size (f : FciB) (hf : match f with | .nack b => b.rtpSeq.Pairwise (· < ·) | _ => True)
    (n : Nat) (h : f.toFci.w.calcSize = .ok n) : n = (fciImage f).length ∧ n % 4 = 0 := by
  cases f with
  | nack b =>
    simp only [FciB.toFci, NackBuilder.toFci, NackBuilder.calcSize] at h
    split at h
    · cases h
    · cases h
      simp only [fciImage, nackImage, nackImage_len, nack_entries_len b hf]
      omega
  | fir b =>
    simp only [FciB.toFci, FirBuilder.toFci, FirBuilder.calcSize] at h
    split at h
    · cases h
    · cases h
      simp only [fciImage, firImage, firImage_len]
      omega
  | sli b =>
    simp only [FciB.toFci, SliBuilder.toFci, SliBuilder.calcSize] at h
    cases h
    simp only [fciImage, sliImage, sliImage_len]
    exact ⟨trivial, by omega⟩
  | rpsi b =>
    simp only [FciB.toFci, RpsiBuilder.toFci, RpsiBuilder.calcSize] at h
    split at h
    · cases h
    · split at h
      · cases h
      · cases h
        simp only [fciImage, rpsiImage_len]
        exact ⟨trivial, pad4_mod _⟩
  | pli =>
    simp only [FciB.toFci, pliFci] at h
    cases h
    simp [fciImage]

/-- the five built-in FCI builders (the NACK set being the ascending list it always is) -/
theorem fci_rules (f : FciB) (hf : match f with | .nack b => b.rtpSeq.Pairwise (· < ·) | _ => True) :
    Decides f.toFci.w.calcSize (fciRules f) := by
  cases f with
  | nack b =>
    simp only [FciB.toFci, NackBuilder.toFci, NackBuilder.calcSize, fciRules, nack_entries_len b hf]
    split
    · exact decides_err (by simp)
    · exact decides_ok rfl
  | fir b =>
    simp only [FciB.toFci, FirBuilder.toFci, FirBuilder.calcSize, fciRules]
    split
    · exact decides_err (by simp)
    · exact decides_ok rfl
  | sli b => exact decides_ok rfl
  | rpsi b => exact rpsi_rules b
  | pli => exact decides_ok rfl

theorem fb_kind (k : FbKind) (f : FciB) :
    (FbType.and f.toFci.supports k.ty == FbType.none) = decide (fciKind f ≠ k) := by
  cases f <;> cases k <;> rfl

/-- every feedback builder × FCI pairing, both kinds: wrong-kind pairings are refused -/
theorem fb_rules (k : FbKind) (f : FciB) (hf : match f with | .nack b => b.rtpSeq.Pairwise (· < ·) | _ => True)
    (p : UInt8) (s m : UInt32) :
    Decides (FbBuilder.calcSize ⟨k, f.toFci, p, s, m⟩) (fbRules k f p) := by
  unfold FbBuilder.calcSize fbRules
  simp only []
  rcases padRule_cases p with ⟨_, hc, hp⟩ | ⟨hc, hp⟩ <;> simp only [hc, hp, R.ok_bind, R.err_bind]
  · by_cases hk : fciKind f ≠ k
    · have hk' : (FbType.and f.toFci.supports k.ty == FbType.none) = true := by
        rw [fb_kind]; simpa using hk
      simp only [if_pos hk']
      exact basic_err (by simp [hk])
    · have hk' : ¬ (FbType.and f.toFci.supports k.ty == FbType.none) = true := by
        rw [fb_kind]; simpa using hk
      simp only [if_neg hk']
      rcases decides_cases (fci_rules f hf) with ⟨n, hn, hr⟩ | ⟨e, he, hr⟩
      · simp only [hn, R.ok_bind]
        obtain ⟨h1, h2⟩ := fci_size f hf n hn
        rw [pad4_of_mod h2, h1]
        exact basic_size (by simp [hk, hr])
      · simp only [he, R.err_bind]
        exact basic_err (by simp [hr])
  · exact basic_err (by simp)

/-! whole-packet sizes are multiples of 4 (C06) -/

theorem checkPacketLen_ok {m n : Nat} (h : checkPacketLen m = .ok n) : n = m ∧ n ≤ 262144 := by
  unfold checkPacketLen maxPacketLen at h
  split at h
  · cases h
  · cases h; exact ⟨rfl, by omega⟩

theorem sr_size (b : SrBuilder) (n : Nat) (h : b.calcSize = .ok n) :
    b.reportBlocks.length ≤ 31 ∧ b.padding.toNat % 4 = 0 ∧ n = 28 + 24 * b.reportBlocks.length + b.padding.toNat := by
  unfold SrBuilder.calcSize at h
  split at h
  · cases h
  · rcases padRule_cases b.padding with ⟨hm, hc, _⟩ | ⟨hc, _⟩ <;> simp only [hc, R.ok_bind, R.err_bind] at h
    · rcases rbSizes_cases b.reportBlocks with ⟨_, h2⟩ | ⟨e, h1, _⟩
      · simp only [h2, R.ok_bind, R.pure_eq] at h
        cases h
        exact ⟨by omega, hm, rfl⟩
      · simp only [h1, R.err_bind] at h
        cases h
    · cases h

theorem rr_size (b : RrBuilder) (n : Nat) (h : b.calcSize = .ok n) :
    b.reportBlocks.length ≤ 31 ∧ b.padding.toNat % 4 = 0 ∧ n = 8 + 24 * b.reportBlocks.length + b.padding.toNat := by
  unfold RrBuilder.calcSize at h
  split at h
  · cases h
  · rcases padRule_cases b.padding with ⟨hm, hc, _⟩ | ⟨hc, _⟩ <;> simp only [hc, R.ok_bind, R.err_bind] at h
    · rcases rbSizes_cases b.reportBlocks with ⟨_, h2⟩ | ⟨e, h1, _⟩
      · simp only [h2, R.ok_bind, R.pure_eq] at h
        cases h
        exact ⟨by omega, hm, rfl⟩
      · simp only [h1, R.err_bind] at h
        cases h
    · cases h

theorem bye_size (b : ByeBuilder) (n : Nat) (h : b.calcSize = .ok n) : n % 4 = 0 ∧ n ≤ 262144 := by
  unfold ByeBuilder.calcSize at h
  split at h
  · cases h
  · rcases padRule_cases b.padding with ⟨hm, hc, _⟩ | ⟨hc, _⟩ <;> simp only [hc, R.ok_bind, R.err_bind] at h
    · have hp := b.padding.toNat_lt
      split at h
      · split at h
        · cases h
        · simp only [R.pure_eq] at h
          cases h
          refine ⟨pad4_mod _, ?_⟩
          have := pad4_lt (4 + 4 * b.sources.length + b.padding.toNat + 1 + b.reason.length)
          omega
      · simp only [R.pure_eq] at h
        cases h
        omega
    · cases h

theorem app_size (b : AppBuilder) (n : Nat) (h : b.calcSize = .ok n) : n % 4 = 0 ∧ n ≤ 262144 := by
  unfold AppBuilder.calcSize at h
  split at h
  · cases h
  · split at h
    · cases h
    · split at h
      · cases h
      · next hd =>
        rcases padRule_cases b.padding with ⟨hm, hc, _⟩ | ⟨hc, _⟩ <;> simp only [hc, R.ok_bind, R.err_bind] at h
        · obtain ⟨h1, h2⟩ := checkPacketLen_ok h
          simp at hd
          omega
        · cases h

theorem sdes_size (b : SdesBuilder) (n : Nat) (h : b.calcSize = .ok n) : n % 4 = 0 ∧ n ≤ 262144 := by
  unfold SdesBuilder.calcSize at h
  split at h
  · cases h
  · rcases padRule_cases b.padding with ⟨hm, hc, _⟩ | ⟨hc, _⟩ <;> simp only [hc, R.ok_bind, R.err_bind] at h
    · rcases chunkSizes_cases b.chunks with ⟨_, h2⟩ | ⟨e, h1, _⟩
      · simp only [h2, R.ok_bind] at h
        obtain ⟨h1, h2⟩ := checkPacketLen_ok h
        refine ⟨?_, h2⟩
        have hm4 : ∀ cs : List SdesChunkBuilder, ((cs.map chunkImage).flatten).length % 4 = 0 := by
          intro cs
          induction cs with
          | nil => rfl
          | cons c cs ih =>
            have := pad4_mod (4 + (c.items.map itemImage).flatten.length + 1)
            simp only [List.map_cons, List.flatten_cons, List.length_append, chunkImage_len]
            omega
        have := hm4 b.chunks
        omega
      · simp only [h1, R.err_bind] at h
        cases h
    · cases h

theorem unknown_size (b : UnknownBuilder) (n : Nat) (h : b.calcSize = .ok n) : n % 4 = 0 ∧ n ≤ 262144 := by
  unfold UnknownBuilder.calcSize at h
  split at h
  · cases h
  · rcases padRule_cases b.padding with ⟨hm, hc, _⟩ | ⟨hc, _⟩ <;> simp only [hc, R.ok_bind, R.err_bind] at h
    · split at h
      · cases h
      · next hd =>
        obtain ⟨h1, h2⟩ := checkPacketLen_ok h
        simp at hd
        omega
    · cases h

theorem fb_size (b : FbBuilder) (n : Nat) (h : b.calcSize = .ok n) : n % 4 = 0 ∧ n ≤ 262144 := by
  unfold FbBuilder.calcSize at h
  rcases padRule_cases b.padding with ⟨hm, hc, _⟩ | ⟨hc, _⟩ <;> simp only [hc, R.ok_bind, R.err_bind] at h
  · split at h
    · cases h
    · cases hf : b.fci.w.calcSize with
      | ok l =>
        simp only [hf, R.ok_bind] at h
        obtain ⟨h1, h2⟩ := checkPacketLen_ok h
        have := pad4_mod l
        omega
      | err e => simp only [hf, R.err_bind] at h; cases h
      | panic => simp only [hf, R.panic_bind] at h; cases h
  · cases h

theorem sr_size_mod4 (b : SrBuilder) (n : Nat) (h : b.calcSize = .ok n) : n % 4 = 0 := by
  have := sr_size b n h; omega
theorem rr_size_mod4 (b : RrBuilder) (n : Nat) (h : b.calcSize = .ok n) : n % 4 = 0 := by
  have := rr_size b n h; omega
theorem bye_size_mod4 (b : ByeBuilder) (n : Nat) (h : b.calcSize = .ok n) : n % 4 = 0 :=
  (bye_size b n h).1
theorem app_size_mod4 (b : AppBuilder) (n : Nat) (h : b.calcSize = .ok n) : n % 4 = 0 :=
  (app_size b n h).1
theorem sdes_size_mod4 (b : SdesBuilder) (n : Nat) (h : b.calcSize = .ok n) : n % 4 = 0 :=
  (sdes_size b n h).1
theorem unknown_size_mod4 (b : UnknownBuilder) (n : Nat) (h : b.calcSize = .ok n) : n % 4 = 0 :=
  (unknown_size b n h).1
theorem fb_size_mod4 (k : FbKind) (f : FciB) (p : UInt8) (s m : UInt32) (n : Nat)
    (h : FbBuilder.calcSize ⟨k, f.toFci, p, s, m⟩ = .ok n) : n % 4 = 0 :=
  (fb_size _ n h).1

/-- every accepted whole packet fits the 16-bit length field: at most 65536 words -/
theorem sizes_bounded :
    (∀ (b : SrBuilder) n, b.calcSize = .ok n → n ≤ 262144) ∧
    (∀ (b : RrBuilder) n, b.calcSize = .ok n → n ≤ 262144) ∧
    (∀ (b : ByeBuilder) n, b.calcSize = .ok n → n ≤ 262144) ∧
    (∀ (b : AppBuilder) n, b.calcSize = .ok n → n ≤ 262144) ∧
    (∀ (b : SdesBuilder) n, b.calcSize = .ok n → n ≤ 262144) ∧
    (∀ (b : UnknownBuilder) n, b.calcSize = .ok n → n ≤ 262144) ∧
    (∀ (b : FbBuilder) n, b.calcSize = .ok n → n ≤ 262144) := by
  refine ⟨?_, ?_, fun b n h => (bye_size b n h).2, fun b n h => (app_size b n h).2,
    fun b n h => (sdes_size b n h).2, fun b n h => (unknown_size b n h).2, fun b n h => (fb_size b n h).2⟩
  · intro b n h
    have := sr_size b n h
    have := b.padding.toNat_lt
    omega
  · intro b n h
    have := rr_size b n h
    have := b.padding.toNat_lt
    omega

end Rtcp.Proofs
