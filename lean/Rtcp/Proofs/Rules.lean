/-
  Proofs: calcSize decides the rules.
-/
import Rtcp.Spec.All

namespace Rtcp.Proofs
open Rtcp Rtcp.Impl Rtcp.Spec

theorem rb_rules (b : ReportBlockBuilder) : Decides b.calcSize (rbRules b) := by
  sorry
theorem sr_rules (b : SrBuilder) : Decides b.calcSize (srRules b) := by
  sorry
theorem rr_rules (b : RrBuilder) : Decides b.calcSize (rrRules b) := by
  sorry
theorem bye_rules (b : ByeBuilder) : Decides b.calcSize (byeRules b) := by
  sorry
theorem app_rules (b : AppBuilder) : Decides b.calcSize (appRules b) := by
  sorry
theorem item_rules (b : SdesItemBuilder) : Decides b.calcSize (itemRules b) := by
  sorry
theorem chunk_rules (b : SdesChunkBuilder) : Decides b.calcSize (chunkRules b) := by
  sorry
theorem sdes_rules (b : SdesBuilder) : Decides b.calcSize (sdesRules b) := by
  sorry
theorem unknown_rules (b : UnknownBuilder) : Decides b.calcSize (unknownRules b) := by
  sorry
theorem custom_rules (b : CustomBuilder) : Decides b.calcSize (customRules b) := by
  sorry
theorem rpsi_rules (b : RpsiBuilder) : Decides b.calcSize (rpsiRules b) := by
  sorry

/-- the five built-in FCI builders (the NACK set being the ascending list it always is) -/
theorem fci_rules (f : FciB) (hf : match f with | .nack b => b.rtpSeq.Pairwise (· < ·) | _ => True) :
    Decides f.toFci.w.calcSize (fciRules f) := by
  sorry

/-- every feedback builder × FCI pairing, both kinds: wrong-kind pairings are refused -/
theorem fb_rules (k : FbKind) (f : FciB) (hf : match f with | .nack b => b.rtpSeq.Pairwise (· < ·) | _ => True)
    (p : UInt8) (s m : UInt32) :
    Decides (FbBuilder.calcSize ⟨k, f.toFci, p, s, m⟩) (fbRules k f p) := by
  sorry

/-! whole-packet sizes are multiples of 4 (C06) -/

theorem sr_size_mod4 (b : SrBuilder) (n : Nat) (h : b.calcSize = .ok n) : n % 4 = 0 := by
  sorry
theorem rr_size_mod4 (b : RrBuilder) (n : Nat) (h : b.calcSize = .ok n) : n % 4 = 0 := by
  sorry
theorem bye_size_mod4 (b : ByeBuilder) (n : Nat) (h : b.calcSize = .ok n) : n % 4 = 0 := by
  sorry
theorem app_size_mod4 (b : AppBuilder) (n : Nat) (h : b.calcSize = .ok n) : n % 4 = 0 := by
  sorry
theorem sdes_size_mod4 (b : SdesBuilder) (n : Nat) (h : b.calcSize = .ok n) : n % 4 = 0 := by
  sorry
theorem unknown_size_mod4 (b : UnknownBuilder) (n : Nat) (h : b.calcSize = .ok n) : n % 4 = 0 := by
  sorry
theorem fb_size_mod4 (k : FbKind) (f : FciB) (p : UInt8) (s m : UInt32) (n : Nat)
    (h : FbBuilder.calcSize ⟨k, f.toFci, p, s, m⟩ = .ok n) : n % 4 = 0 := by
  sorry

/-- every accepted whole packet fits the 16-bit length field: at most 65536 words -/
theorem sizes_bounded :
    (∀ (b : SrBuilder) n, b.calcSize = .ok n → n ≤ 262144) ∧
    (∀ (b : RrBuilder) n, b.calcSize = .ok n → n ≤ 262144) ∧
    (∀ (b : ByeBuilder) n, b.calcSize = .ok n → n ≤ 262144) ∧
    (∀ (b : AppBuilder) n, b.calcSize = .ok n → n ≤ 262144) ∧
    (∀ (b : SdesBuilder) n, b.calcSize = .ok n → n ≤ 262144) ∧
    (∀ (b : UnknownBuilder) n, b.calcSize = .ok n → n ≤ 262144) ∧
    (∀ (b : FbBuilder) n, b.calcSize = .ok n → n ≤ 262144) := by
  sorry

end Rtcp.Proofs
