/-
  Proofs: framing helper, typed parsers accepted-iff, no panic, truthful errors
-/
import Rtcp.Spec.All
import Rtcp.Proofs.ReadLemmas

namespace Rtcp.Proofs
open Rtcp Rtcp.Impl Rtcp.Spec

/-! ## `check_packet::<P>` for every declared type and minimum size ≥ 4 (C08, C19) -/

theorem checkPacket_ok_iff (min : Nat) (pt : UInt8) (bs : Bytes) (h4 : 4 ≤ min) :
    checkPacket min pt bs = .ok () ↔ WellFramed min pt bs := by
  sorry

theorem checkPacket_no_panic (min : Nat) (pt : UInt8) (bs : Bytes) (h4 : 4 ≤ min) :
    checkPacket min pt bs ≠ .panic := by
  sorry

/-- C18: every error of the framing check is accurate -/
theorem checkPacket_err_truthful (min : Nat) (pt : UInt8) (bs : Bytes) (h4 : 4 ≤ min) (e : ParseError)
    (h : checkPacket min pt bs = .err e) : ErrorTruthful bs pt e := by
  sorry

/-- C18: shorter than the minimum ⇒ truncated with exactly that minimum and the real length -/
theorem checkPacket_short (min : Nat) (pt : UInt8) (bs : Bytes) (h : bs.length < min) :
    checkPacket min pt bs = .err (.truncated min bs.length) := by
  sorry

/-- C18: version 2, right type, but a length field that disagrees ⇒ truncated / too large with
    exactly the header length and the real length -/
theorem checkPacket_length_mismatch (min : Nat) (pt : UInt8) (bs : Bytes) (h4 : 4 ≤ min)
    (hm : min ≤ bs.length) (hv : version bs = 2) (ht : ptype bs = pt) (hl : lengthField bs ≠ bs.length) :
    checkPacket min pt bs =
      .err (if bs.length < lengthField bs then .truncated (lengthField bs) bs.length
            else .tooLarge (lengthField bs) bs.length) := by
  sorry

/-! ## header accessors on any well-framed packet (C08) -/

theorem header_accessors {ε : Type} (min : Nat) (pt : UInt8) (bs : Bytes) (h4 : 4 ≤ min)
    (h : WellFramed min pt bs) :
    (hVersion bs : R ε UInt8) = .ok 2 ∧ (hType bs : R ε UInt8) = .ok pt ∧
    (hCount bs : R ε UInt8) = .ok (count bs).toUInt8 ∧ (hLength bs : R ε Nat) = .ok bs.length ∧
    (parsePadding bs : R ε (Option UInt8)) = .ok (paddingOf bs) ∧
    (∀ p, paddingOf bs = some p → p ≠ 0) := by
  sorry

/-! ## typed parsers: accepted ⇔ framed and body large enough (C08); the view is the input (C09) -/

theorem sr_parse_ok_iff (bs v : Bytes) :
    Sr.parse bs = .ok v ↔ v = bs ∧ WellFramed 28 200 bs ∧ 28 + 24 * count bs ≤ bs.length := by
  sorry

theorem rr_parse_ok_iff (bs v : Bytes) :
    Rr.parse bs = .ok v ↔ v = bs ∧ WellFramed 8 201 bs ∧ 8 + 24 * count bs ≤ bs.length := by
  sorry

theorem bye_parse_ok_iff (bs v : Bytes) :
    Bye.parse bs = .ok v ↔ v = bs ∧ WellFramed 4 203 bs ∧ 4 + 4 * count bs ≤ bs.length ∧
      (4 + 4 * count bs < bs.length → 4 + 4 * count bs + 1 + u8At bs (4 + 4 * count bs) ≤ bs.length) := by
  sorry

theorem app_parse_ok_iff (bs v : Bytes) :
    App.parse bs = .ok v ↔ v = bs ∧ WellFramed 12 204 bs ∧ 12 + padLen bs ≤ bs.length := by
  sorry

theorem fb_parse_ok_iff (k : FbKind) (bs v : Bytes) :
    Fb.parse k bs = .ok v ↔ v = bs ∧ WellFramed 12 k.pt bs ∧ 12 + padLen bs ≤ bs.length := by
  sorry

theorem unknown_parse_ok_iff (bs v : Bytes) :
    Unknown.parse bs = .ok v ↔ v = bs ∧ UnknownFramed bs := by
  sorry

theorem custom_parse_ok_iff (pt : UInt8) (min : Nat) (h4 : 4 ≤ min) (bs v : Bytes) :
    Custom.parse pt min bs = .ok v ↔ v = bs ∧ WellFramed min pt bs ∧ min + padLen bs ≤ bs.length := by
  sorry

theorem rb_parse_ok_iff (bs v : Bytes) : ReportBlock.parse bs = .ok v ↔ v = bs ∧ bs.length = 24 := by
  sorry

/-! ## no parser panics, whatever the bytes (C01) -/

theorem parsers_no_panic (bs : Bytes) :
    Sr.parse bs ≠ .panic ∧ Rr.parse bs ≠ .panic ∧ Bye.parse bs ≠ .panic ∧ App.parse bs ≠ .panic ∧
    Fb.parse .transport bs ≠ .panic ∧ Fb.parse .payload bs ≠ .panic ∧ Unknown.parse bs ≠ .panic ∧
    ReportBlock.parse bs ≠ .panic := by
  sorry

/-! ## errors are truthful (C18) -/

theorem sr_err_truthful (bs : Bytes) (e : ParseError) (h : Sr.parse bs = .err e) : ErrorTruthful bs 200 e := by
  sorry
theorem rr_err_truthful (bs : Bytes) (e : ParseError) (h : Rr.parse bs = .err e) : ErrorTruthful bs 201 e := by
  sorry
theorem bye_err_truthful (bs : Bytes) (e : ParseError) (h : Bye.parse bs = .err e) : ErrorTruthful bs 203 e := by
  sorry
theorem app_err_truthful (bs : Bytes) (e : ParseError) (h : App.parse bs = .err e) : ErrorTruthful bs 204 e := by
  sorry
theorem fb_err_truthful (k : FbKind) (bs : Bytes) (e : ParseError) (h : Fb.parse k bs = .err e) :
    ErrorTruthful bs k.pt e := by
  sorry
theorem unknown_err_truthful (bs : Bytes) (e : ParseError) (h : Unknown.parse bs = .err e) :
    ErrorTruthful bs 0 e ∧ (∀ a r, e ≠ .packetTypeMismatch a r) := by
  sorry
theorem rb_err_truthful (bs : Bytes) (e : ParseError) (h : ReportBlock.parse bs = .err e) :
    e = (if bs.length < 24 then .truncated 24 bs.length else .tooLarge 24 bs.length) ∧ bs.length ≠ 24 := by
  sorry

end Rtcp.Proofs
