/-
  Proofs: framing helper, typed parsers accepted-iff, no panic, truthful errors
-/
import Rtcp.Spec.All
import Rtcp.Proofs.ReadLemmas

namespace Rtcp.Proofs
open Rtcp Rtcp.Impl Rtcp.Spec
open Rtcp.Proofs.Read

/-! ## `check_packet::<P>` for every declared type and minimum size ≥ 4 (C08, C19) -/

theorem checkPacket_ok_iff (min : Nat) (pt : UInt8) (bs : Bytes) (h4 : 4 ≤ min) :
    checkPacket min pt bs = .ok () ↔ WellFramed min pt bs := by
  rw [checkPacket_eval min pt bs h4, wellFramed_iff]
  repeat' split
  all_goals simp_all
  all_goals omega

theorem checkPacket_no_panic (min : Nat) (pt : UInt8) (bs : Bytes) (h4 : 4 ≤ min) :
    checkPacket min pt bs ≠ .panic := by
  rw [checkPacket_eval min pt bs h4]
  repeat' split
  all_goals simp

theorem shr6_ne2 (b : UInt8) (h : ¬ b.toNat / 64 = 2) : b >>> 6 ≠ 2 := by
  intro e
  have := shr6 b
  rw [e] at this
  exact h this.symm

/-- C18: every error of the framing check is accurate -/
theorem checkPacket_err_truthful (min : Nat) (pt : UInt8) (bs : Bytes) (h4 : 4 ≤ min) (e : ParseError)
    (h : checkPacket min pt bs = .err e) : ErrorTruthful bs pt e := by
  rw [checkPacket_eval min pt bs h4] at h
  repeat' split at h
  all_goals simp only [R.err.injEq, reduceCtorEq] at h
  all_goals subst h
  all_goals simp only [ErrorTruthful]
  · assumption
  · rename_i h1 h2
    refine ⟨by omega, ?_, ?_⟩
    · rw [shr6]; rfl
    · exact shr6_ne2 _ h2
  · rename_i h1 h2 h3
    exact ⟨by omega, trivial, trivial, h3⟩
  · assumption
  · assumption
  · assumption

/-- C18: shorter than the minimum ⇒ truncated with exactly that minimum and the real length -/
theorem checkPacket_short (min : Nat) (pt : UInt8) (bs : Bytes) (h : bs.length < min) :
    checkPacket min pt bs = .err (.truncated min bs.length) := by
  simp [checkPacket, h]

/-- C18: version 2, right type, but a length field that disagrees ⇒ truncated / too large with
    exactly the header length and the real length -/
theorem checkPacket_length_mismatch (min : Nat) (pt : UInt8) (bs : Bytes) (h4 : 4 ≤ min)
    (hm : min ≤ bs.length) (hv : version bs = 2) (ht : ptype bs = pt) (hl : lengthField bs ≠ bs.length) :
    checkPacket min pt bs =
      .err (if bs.length < lengthField bs then .truncated (lengthField bs) bs.length
            else .tooLarge (lengthField bs) bs.length) := by
  rw [checkPacket_eval min pt bs h4]
  have h1 : ¬ bs.length < min := by omega
  simp only [h1, hv, ht, if_false, ne_eq, not_true_eq_false]
  by_cases h3 : bs.length < lengthField bs
  · simp [h3]
  · have : bs.length > lengthField bs := by omega
    simp [h3, this]

/-! ## header accessors on any well-framed packet (C08) -/

theorem header_range (bs : Bytes) (h : 4 ≤ bs.length) :
    version (range bs 0 4) = version bs ∧ ptype (range bs 0 4) = ptype bs ∧
    count (range bs 0 4) = count bs ∧ lengthField (range bs 0 4) = lengthField bs ∧
    (range bs 0 4).length = 4 := by
  have e := range4 bs 0 (by omega)
  simp only [Nat.zero_add] at e
  rw [e]
  simp [version, ptype, count, lengthField]

theorem header_accessors {ε : Type} (min : Nat) (pt : UInt8) (bs : Bytes) (h4 : 4 ≤ min)
    (h : WellFramed min pt bs) :
    (hVersion bs : R ε UInt8) = .ok 2 ∧ (hType bs : R ε UInt8) = .ok pt ∧
    (hCount bs : R ε UInt8) = .ok (count bs).toUInt8 ∧ (hLength bs : R ε Nat) = .ok bs.length ∧
    (parsePadding bs : R ε (Option UInt8)) = .ok (paddingOf bs) ∧
    (∀ p, paddingOf bs = some p → p ≠ 0) := by
  have _ := h4
  rw [wellFramed_iff] at h
  obtain ⟨hm, hl4, hv, ht, hl, hp⟩ := h
  obtain ⟨rv, rt, rc, rl, rn⟩ := header_range bs hl4
  have hs : (headerData bs : R ε Bytes) = .ok (range bs 0 4) := slice_ok bs 0 4 ⟨by omega, hl4⟩
  refine ⟨?_, ?_, ?_, ?_, parsePadding_ok bs hl4 hl, ?_⟩
  · simp only [hVersion, hs, R.ok_bind, parseVersion_ok _ (show 1 ≤ (range bs 0 4).length by omega)]
    congr 1
    apply UInt8.toNat_inj.mp
    rw [shr6]
    exact rv.trans hv
  · simp only [hType, hs, R.ok_bind, parsePacketType_ok _ (show 2 ≤ (range bs 0 4).length by omega), rt, ht]
  · simp only [hCount, hs, R.ok_bind, parseCount_ok _ (show 1 ≤ (range bs 0 4).length by omega), rc]
  · simp only [hLength, hs, R.ok_bind, parseLength_ok _ (show 4 ≤ (range bs 0 4).length by omega), rl, hl]
  · intro p hpp
    unfold paddingOf at hpp
    split at hpp
    · rename_i hb
      simp only [Option.some.injEq] at hpp
      subst hpp
      exact hp hb
    · cases hpp

/-! ## generic shape of a parser's outcome -/

/-- the outcome of a parser: accepted (returning the input) exactly under `P`, otherwise an error
    satisfying `T` -/
def Outcome (x : R ParseError Bytes) (bs : Bytes) (P : Prop) (T : ParseError → Prop) : Prop :=
  (x = .ok bs ∧ P) ∨ (∃ e, x = .err e ∧ T e ∧ ¬ P)

theorem Outcome.ok_iff {x : R ParseError Bytes} {bs : Bytes} {P : Prop} {T : ParseError → Prop}
    (h : Outcome x bs P T) (v : Bytes) : x = .ok v ↔ v = bs ∧ P := by
  rcases h with ⟨hx, hp⟩ | ⟨e, hx, _, hp⟩
  · subst hx
    constructor
    · intro h; simp only [R.ok.injEq] at h; exact ⟨h.symm, hp⟩
    · rintro ⟨rfl, _⟩; rfl
  · subst hx
    constructor
    · intro h; cases h
    · rintro ⟨_, h⟩; exact absurd h hp

theorem Outcome.no_panic {x : R ParseError Bytes} {bs : Bytes} {P : Prop} {T : ParseError → Prop}
    (h : Outcome x bs P T) : x ≠ .panic := by
  rcases h with ⟨hx, _⟩ | ⟨e, hx, _, _⟩ <;> subst hx <;> intro h <;> cases h

theorem Outcome.err {x : R ParseError Bytes} {bs : Bytes} {P : Prop} {T : ParseError → Prop}
    (h : Outcome x bs P T) (e : ParseError) (he : x = .err e) : T e := by
  rcases h with ⟨hx, _⟩ | ⟨e', hx, ht, _⟩
  · rw [hx] at he; cases he
  · rw [hx] at he; cases he; exact ht

theorem check_cases (min : Nat) (pt : UInt8) (bs : Bytes) (h4 : 4 ≤ min) :
    (checkPacket min pt bs = .ok () ∧ WellFramed min pt bs) ∨
    (∃ e, checkPacket min pt bs = .err e ∧ ErrorTruthful bs pt e ∧ ¬ WellFramed min pt bs) := by
  cases h : checkPacket min pt bs with
  | ok u => exact .inl ⟨rfl, (checkPacket_ok_iff min pt bs h4).mp h⟩
  | err e =>
    refine .inr ⟨e, rfl, checkPacket_err_truthful min pt bs h4 e h, ?_⟩
    intro hw
    rw [(checkPacket_ok_iff min pt bs h4).mpr hw] at h
    cases h
  | panic => exact absurd h (checkPacket_no_panic min pt bs h4)

/-! ### SR / RR -/

theorem sr_outcome (bs : Bytes) :
    Outcome (Sr.parse bs) bs (WellFramed 28 200 bs ∧ 28 + 24 * count bs ≤ bs.length)
      (ErrorTruthful bs 200) := by
  unfold Sr.parse
  rcases check_cases 28 200 bs (by omega) with ⟨hc, hw⟩ | ⟨e, hc, ht, hnw⟩
  · have hf := (wellFramed_iff 28 200 bs).mp hw
    rw [hc]
    simp only [R.ok_bind, parseCount_ok bs (by omega), count_toUInt8_toNat]
    split
    · refine .inr ⟨_, rfl, ?_, ?_⟩
      · simp only [ErrorTruthful]; assumption
      · rintro ⟨_, h⟩; omega
    · exact .inl ⟨rfl, hw, by omega⟩
  · rw [hc]
    exact .inr ⟨e, rfl, ht, fun h => hnw h.1⟩

theorem rr_outcome (bs : Bytes) :
    Outcome (Rr.parse bs) bs (WellFramed 8 201 bs ∧ 8 + 24 * count bs ≤ bs.length)
      (ErrorTruthful bs 201) := by
  unfold Rr.parse
  rcases check_cases 8 201 bs (by omega) with ⟨hc, hw⟩ | ⟨e, hc, ht, hnw⟩
  · have hf := (wellFramed_iff 8 201 bs).mp hw
    rw [hc]
    simp only [R.ok_bind, parseCount_ok bs (by omega), count_toUInt8_toNat]
    split
    · refine .inr ⟨_, rfl, ?_, ?_⟩
      · simp only [ErrorTruthful]; assumption
      · rintro ⟨_, h⟩; omega
    · exact .inl ⟨rfl, hw, by omega⟩
  · rw [hc]
    exact .inr ⟨e, rfl, ht, fun h => hnw h.1⟩

/-! ### BYE -/

theorem bye_outcome (bs : Bytes) :
    Outcome (Bye.parse bs) bs (WellFramed 4 203 bs ∧ 4 + 4 * count bs ≤ bs.length ∧
      (4 + 4 * count bs < bs.length → 4 + 4 * count bs + 1 + u8At bs (4 + 4 * count bs) ≤ bs.length))
      (ErrorTruthful bs 203) := by
  unfold Bye.parse
  rcases check_cases 4 203 bs (by omega) with ⟨hc, hw⟩ | ⟨e, hc, ht, hnw⟩
  · have hf := (wellFramed_iff 4 203 bs).mp hw
    rw [hc]
    simp only [R.ok_bind, parseCount_ok bs (by omega), count_toUInt8_toNat]
    split
    · refine .inr ⟨_, rfl, ?_, ?_⟩
      · simp only [ErrorTruthful]; omega
      · rintro ⟨_, h, _⟩; omega
    · split
      · rename_i h1 h2
        rw [idx_ok bs _ h2]
        simp only [R.ok_bind]
        have hu : (bs.getD (4 + 4 * count bs) 0).toNat = u8At bs (4 + 4 * count bs) := rfl
        rw [hu]
        split
        · refine .inr ⟨_, rfl, ?_, ?_⟩
          · simp only [ErrorTruthful]; omega
          · rintro ⟨_, _, h⟩; have := h h2; omega
        · exact .inl ⟨rfl, hw, by omega, fun _ => by omega⟩
      · exact .inl ⟨rfl, hw, by omega, fun h => by omega⟩
  · rw [hc]
    exact .inr ⟨e, rfl, ht, fun h => hnw h.1⟩

/-! ### APP / feedback / third-party: framing, then room for the announced padding -/

theorem custom_outcome (pt : UInt8) (min : Nat) (h4 : 4 ≤ min) (bs : Bytes) :
    Outcome (Custom.parse pt min bs) bs (WellFramed min pt bs ∧ min + padLen bs ≤ bs.length)
      (ErrorTruthful bs pt) := by
  unfold Custom.parse
  rcases check_cases min pt bs h4 with ⟨hc, hw⟩ | ⟨e, hc, ht, hnw⟩
  · have hf := (wellFramed_iff min pt bs).mp hw
    rw [hc]
    simp only [R.ok_bind, parsePadding_ok bs hf.2.1 hf.2.2.2.2.1]
    unfold padLen
    cases hp : paddingOf bs with
    | none =>
      simp only [Option.getD_none]
      exact .inl ⟨rfl, hw, by simp; omega⟩
    | some p =>
      simp only [Option.getD_some]
      split
      · refine .inr ⟨_, rfl, ?_, ?_⟩
        · simp only [ErrorTruthful]; assumption
        · rintro ⟨_, h⟩; omega
      · exact .inl ⟨rfl, hw, by omega⟩
  · rw [hc]
    exact .inr ⟨e, rfl, ht, fun h => hnw h.1⟩

theorem app_eq_custom (bs : Bytes) : App.parse bs = Custom.parse 204 12 bs := rfl
theorem fb_eq_custom (k : FbKind) (bs : Bytes) : Fb.parse k bs = Custom.parse k.pt 12 bs := rfl

/-! ### Unknown -/

theorem unknown_outcome (bs : Bytes) :
    Outcome (Unknown.parse bs) bs (UnknownFramed bs)
      (fun e => ErrorTruthful bs 0 e ∧ (∀ a r, e ≠ .packetTypeMismatch a r)) := by
  unfold Unknown.parse
  rw [unknownFramed_iff]
  by_cases h1 : bs.length < 4
  · simp only [h1, if_true]
    refine .inr ⟨_, rfl, ⟨?_, ?_⟩, ?_⟩
    · simp only [ErrorTruthful]; assumption
    · intro a r h; cases h
    · rintro ⟨h, _⟩; omega
  · have hlen : 4 ≤ bs.length := by omega
    simp only [h1, if_false, parseVersion_ok bs (by omega), R.ok_bind, bne2, shr6,
      parseLength_ok bs hlen]
    have hv : (bs.getD 0 0).toNat / 64 = version bs := rfl
    rw [hv]
    by_cases h2 : version bs = 2
    · simp only [h2, ne_eq, not_true_eq_false, decide_false, if_false, Bool.false_eq_true]
      split
      · refine .inr ⟨_, rfl, ⟨?_, ?_⟩, ?_⟩
        · simp only [ErrorTruthful]; assumption
        · intro a r h; cases h
        · rintro ⟨_, _, h⟩; omega
      · split
        · refine .inr ⟨_, rfl, ⟨?_, ?_⟩, ?_⟩
          · simp only [ErrorTruthful]; assumption
          · intro a r h; cases h
          · rintro ⟨_, _, h⟩; omega
        · exact .inl ⟨rfl, hlen, trivial, by omega⟩
    · simp only [h2, ne_eq, not_false_eq_true, decide_true, if_true]
      refine .inr ⟨_, rfl, ⟨?_, ?_⟩, ?_⟩
      · simp only [ErrorTruthful]
        refine ⟨by omega, ?_, shr6_ne2 _ h2⟩
        rw [shr6]; rfl
      · intro a r h; cases h
      · rintro ⟨_, h, _⟩; exact h

/-! ### report block -/

theorem rb_outcome (bs : Bytes) :
    Outcome (ReportBlock.parse bs) bs (bs.length = 24)
      (fun e => e = (if bs.length < 24 then .truncated 24 bs.length else .tooLarge 24 bs.length) ∧
        bs.length ≠ 24) := by
  unfold ReportBlock.parse
  by_cases h1 : bs.length < 24
  · simp only [h1, if_true]
    exact .inr ⟨_, rfl, ⟨rfl, by omega⟩, by omega⟩
  · by_cases h2 : bs.length > 24
    · simp only [h1, h2, if_false, if_true]
      exact .inr ⟨_, rfl, ⟨rfl, by omega⟩, by omega⟩
    · simp only [h1, h2, if_false]
      exact .inl ⟨rfl, by omega⟩

/-! ## typed parsers: accepted ⇔ framed and body large enough (C08); the view is the input (C09) -/

theorem sr_parse_ok_iff (bs v : Bytes) :
    Sr.parse bs = .ok v ↔ v = bs ∧ WellFramed 28 200 bs ∧ 28 + 24 * count bs ≤ bs.length :=
  (sr_outcome bs).ok_iff v

theorem rr_parse_ok_iff (bs v : Bytes) :
    Rr.parse bs = .ok v ↔ v = bs ∧ WellFramed 8 201 bs ∧ 8 + 24 * count bs ≤ bs.length :=
  (rr_outcome bs).ok_iff v

theorem bye_parse_ok_iff (bs v : Bytes) :
    Bye.parse bs = .ok v ↔ v = bs ∧ WellFramed 4 203 bs ∧ 4 + 4 * count bs ≤ bs.length ∧
      (4 + 4 * count bs < bs.length → 4 + 4 * count bs + 1 + u8At bs (4 + 4 * count bs) ≤ bs.length) :=
  (bye_outcome bs).ok_iff v

theorem app_parse_ok_iff (bs v : Bytes) :
    App.parse bs = .ok v ↔ v = bs ∧ WellFramed 12 204 bs ∧ 12 + padLen bs ≤ bs.length := by
  rw [app_eq_custom]
  exact (custom_outcome 204 12 (by omega) bs).ok_iff v

theorem fb_parse_ok_iff (k : FbKind) (bs v : Bytes) :
    Fb.parse k bs = .ok v ↔ v = bs ∧ WellFramed 12 k.pt bs ∧ 12 + padLen bs ≤ bs.length := by
  rw [fb_eq_custom]
  exact (custom_outcome k.pt 12 (by omega) bs).ok_iff v

theorem unknown_parse_ok_iff (bs v : Bytes) :
    Unknown.parse bs = .ok v ↔ v = bs ∧ UnknownFramed bs :=
  (unknown_outcome bs).ok_iff v

theorem custom_parse_ok_iff (pt : UInt8) (min : Nat) (h4 : 4 ≤ min) (bs v : Bytes) :
    Custom.parse pt min bs = .ok v ↔ v = bs ∧ WellFramed min pt bs ∧ min + padLen bs ≤ bs.length :=
  (custom_outcome pt min h4 bs).ok_iff v

theorem rb_parse_ok_iff (bs v : Bytes) : ReportBlock.parse bs = .ok v ↔ v = bs ∧ bs.length = 24 :=
  (rb_outcome bs).ok_iff v

/-! ## no parser panics, whatever the bytes (C01) -/

theorem parsers_no_panic (bs : Bytes) :
    Sr.parse bs ≠ .panic ∧ Rr.parse bs ≠ .panic ∧ Bye.parse bs ≠ .panic ∧ App.parse bs ≠ .panic ∧
    Fb.parse .transport bs ≠ .panic ∧ Fb.parse .payload bs ≠ .panic ∧ Unknown.parse bs ≠ .panic ∧
    ReportBlock.parse bs ≠ .panic :=
  ⟨(sr_outcome bs).no_panic, (rr_outcome bs).no_panic, (bye_outcome bs).no_panic,
   (custom_outcome 204 12 (by omega) bs).no_panic,
   (custom_outcome FbKind.transport.pt 12 (by omega) bs).no_panic,
   (custom_outcome FbKind.payload.pt 12 (by omega) bs).no_panic,
   (unknown_outcome bs).no_panic, (rb_outcome bs).no_panic⟩

/-! ## errors are truthful (C18) -/

theorem sr_err_truthful (bs : Bytes) (e : ParseError) (h : Sr.parse bs = .err e) : ErrorTruthful bs 200 e :=
  (sr_outcome bs).err e h
theorem rr_err_truthful (bs : Bytes) (e : ParseError) (h : Rr.parse bs = .err e) : ErrorTruthful bs 201 e :=
  (rr_outcome bs).err e h
theorem bye_err_truthful (bs : Bytes) (e : ParseError) (h : Bye.parse bs = .err e) : ErrorTruthful bs 203 e :=
  (bye_outcome bs).err e h
theorem app_err_truthful (bs : Bytes) (e : ParseError) (h : App.parse bs = .err e) : ErrorTruthful bs 204 e :=
  (custom_outcome 204 12 (by omega) bs).err e h
theorem fb_err_truthful (k : FbKind) (bs : Bytes) (e : ParseError) (h : Fb.parse k bs = .err e) :
    ErrorTruthful bs k.pt e :=
  (custom_outcome k.pt 12 (by omega) bs).err e h
theorem unknown_err_truthful (bs : Bytes) (e : ParseError) (h : Unknown.parse bs = .err e) :
    ErrorTruthful bs 0 e ∧ (∀ a r, e ≠ .packetTypeMismatch a r) :=
  (unknown_outcome bs).err e h
theorem rb_err_truthful (bs : Bytes) (e : ParseError) (h : ReportBlock.parse bs = .err e) :
    e = (if bs.length < 24 then .truncated 24 bs.length else .tooLarge 24 bs.length) ∧ bs.length ≠ 24 :=
  (rb_outcome bs).err e h

end Rtcp.Proofs
