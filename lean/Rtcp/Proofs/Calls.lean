/-
  Proofs for Rtcp/Props/Calls.lean (closed forms of builder call sequences, C20).
-/
import Rtcp.Impl.Calls
import Rtcp.Spec.Calls
import Rtcp.Proofs.Setters


namespace Rtcp.Proofs
open Rtcp Rtcp.Impl Rtcp.Spec

theorem lastSome_cons {κ α : Type} (f : κ → Option α) (c : κ) (cs : List κ) (d : α) :
    lastSome f (c :: cs) d = lastSome f cs (match f c with | some v => v | none => d) := rfl

theorem lastSome_nil {κ α : Type} (f : κ → Option α) (d : α) : lastSome f [] d = d := rfl

theorem lastSome_append {κ α : Type} (f : κ → Option α) (as bs : List κ) (d : α) :
    lastSome f (as ++ bs) d = lastSome f bs (lastSome f as d) := by
  simp [lastSome, List.foldl_append]

theorem lastSome_none {κ α : Type} (f : κ → Option α) (cs : List κ) (d : α)
    (h : ∀ c ∈ cs, f c = none) : lastSome f cs d = d := by
  induction cs generalizing d with
  | nil => rfl
  | cons c cs ih =>
    rw [lastSome_cons, h c (by simp)]
    exact ih d (fun c hc => h c (by simp [hc]))

theorem rb_run (b : ReportBlockBuilder) (cs : List RbCall) :
    b.run cs =
      { ssrc := b.ssrc
        fractionLost := lastSome (fun | .fl v => some v | _ => none) cs b.fractionLost
        cumulativeLost := lastSome (fun | .cl v => some v | _ => none) cs b.cumulativeLost
        extendedSequenceNumber := lastSome (fun | .esn v => some v | _ => none) cs b.extendedSequenceNumber
        interarrivalJitter := lastSome (fun | .jit v => some v | _ => none) cs b.interarrivalJitter
        lastSenderReportTimestamp := lastSome (fun | .lsr v => some v | _ => none) cs b.lastSenderReportTimestamp
        delaySinceLastSenderReportTimestamp :=
          lastSome (fun | .dlsr v => some v | _ => none) cs b.delaySinceLastSenderReportTimestamp } := by
  induction cs generalizing b with
  | nil => rfl
  | cons c cs ih =>
    show (ReportBlockBuilder.run (RbCall.apply b c) cs) = _
    rw [ih]
    cases c <;> rfl

theorem sr_run (b : SrBuilder) (cs : List SrCall) :
    b.run cs =
      { ssrc := b.ssrc
        padding := lastSome (fun | .padding v => some v | _ => none) cs b.padding
        ntp := lastSome (fun | .ntp v => some v | _ => none) cs b.ntp
        rtp := lastSome (fun | .rtp v => some v | _ => none) cs b.rtp
        packetCount := lastSome (fun | .packetCount v => some v | _ => none) cs b.packetCount
        octetCount := lastSome (fun | .octetCount v => some v | _ => none) cs b.octetCount
        reportBlocks := b.reportBlocks ++ cs.filterMap (fun | .addReportBlock rb => some rb | _ => none) } := by
  induction cs generalizing b with
  | nil => simp [SrBuilder.run, lastSome]
  | cons c cs ih =>
    show (SrBuilder.run (SrCall.apply b c) cs) = _
    rw [ih]
    cases c <;> simp [SrCall.apply, lastSome_cons, SrBuilder.setPadding, SrBuilder.setNtp, SrBuilder.setRtp, SrBuilder.setPacketCount, SrBuilder.setOctetCount, SrBuilder.addReportBlock]

theorem rr_run (b : RrBuilder) (cs : List RrCall) :
    b.run cs =
      { ssrc := b.ssrc
        padding := lastSome (fun | .padding v => some v | _ => none) cs b.padding
        reportBlocks := b.reportBlocks ++ cs.filterMap (fun | .addReportBlock rb => some rb | _ => none) } := by
  induction cs generalizing b with
  | nil => simp [RrBuilder.run, lastSome]
  | cons c cs ih =>
    show (RrBuilder.run (RrCall.apply b c) cs) = _
    rw [ih]
    cases c <;> simp [RrCall.apply, lastSome_cons, RrBuilder.setPadding, RrBuilder.addReportBlock]

theorem app_run (b : AppBuilder) (cs : List AppCall) :
    b.run cs =
      { ssrc := b.ssrc, name := b.name
        padding := lastSome (fun | .padding v => some v | _ => none) cs b.padding
        subtype := lastSome (fun | .subtype v => some v | _ => none) cs b.subtype
        data := lastSome (fun | .data v => some v | _ => none) cs b.data } := by
  induction cs generalizing b with
  | nil => simp [AppBuilder.run, lastSome]
  | cons c cs ih =>
    show (AppBuilder.run (AppCall.apply b c) cs) = _
    rw [ih]
    cases c <;> simp [AppCall.apply, lastSome_cons, AppBuilder.setPadding, AppBuilder.setSubtype, AppBuilder.setData]

theorem bye_run (b : ByeBuilder) (cs : List ByeCall) :
    b.run cs =
      { padding := lastSome (fun | .padding v => some v | _ => none) cs b.padding
        sources := b.sources ++ cs.filterMap (fun | .addSource s => some s | _ => none)
        reason := lastSome (fun | .reason r => some r | .reasonOwned r => some r | _ => none) cs b.reason } := by
  induction cs generalizing b with
  | nil => simp [ByeBuilder.run, lastSome]
  | cons c cs ih =>
    show (ByeBuilder.run (ByeCall.apply b c) cs) = _
    rw [ih]
    cases c <;> simp [ByeCall.apply, lastSome_cons, ByeBuilder.setPadding, ByeBuilder.addSource, ByeBuilder.setReason, ByeBuilder.reasonOwned]

theorem unknown_run (b : UnknownBuilder) (cs : List UnknownCall) :
    b.run cs =
      { type := b.type, data := b.data
        padding := lastSome (fun | .padding v => some v | _ => none) cs b.padding
        count := lastSome (fun | .count v => some v | _ => none) cs b.count } := by
  induction cs generalizing b with
  | nil => simp [UnknownBuilder.run, lastSome]
  | cons c cs ih =>
    show (UnknownBuilder.run (UnknownCall.apply b c) cs) = _
    rw [ih]
    cases c <;> simp [UnknownCall.apply, lastSome_cons, UnknownBuilder.setPadding, UnknownBuilder.setCount]

theorem item_run (b : SdesItemBuilder) (cs : List ItemCall) :
    b.run cs =
      { type := b.type, value := b.value
        prefix_ := lastSome (fun | .prefix_ p => some p | _ => none) cs b.prefix_ } := by
  induction cs generalizing b with
  | nil => simp [SdesItemBuilder.run, lastSome]
  | cons c cs ih =>
    show (SdesItemBuilder.run (ItemCall.apply b c) cs) = _
    rw [ih]
    cases c <;> simp [ItemCall.apply, lastSome_cons, SdesItemBuilder.setPrefix, SdesItemBuilder.intoOwned]

theorem chunk_run (b : SdesChunkBuilder) (cs : List ChunkCall) :
    b.run cs =
      { ssrc := b.ssrc
        items := b.items ++ cs.map (fun | .addItem it => it | .addItemOwned it => it) } := by
  induction cs generalizing b with
  | nil => simp [SdesChunkBuilder.run]
  | cons c cs ih =>
    show (SdesChunkBuilder.run (ChunkCall.apply b c) cs) = _
    rw [ih]
    cases c <;> simp [ChunkCall.apply, SdesChunkBuilder.addItem, SdesChunkBuilder.addItemOwned, SdesItemBuilder.intoOwned]

theorem sdes_run (b : SdesBuilder) (cs : List SdesCall) :
    b.run cs =
      { padding := lastSome (fun | .padding v => some v | _ => none) cs b.padding
        chunks := b.chunks ++ cs.filterMap (fun | .addChunk c => some c | _ => none) } := by
  induction cs generalizing b with
  | nil => simp [SdesBuilder.run, lastSome]
  | cons c cs ih =>
    show (SdesBuilder.run (SdesCall.apply b c) cs) = _
    rw [ih]
    cases c <;> simp [SdesCall.apply, lastSome_cons, SdesBuilder.setPadding, SdesBuilder.addChunk]

theorem fb_run (b : FbBuilder) (cs : List FbCall) :
    b.run cs =
      { kind := b.kind, fci := b.fci
        padding := lastSome (fun | .padding v => some v | _ => none) cs b.padding
        senderSsrc := lastSome (fun | .senderSsrc v => some v | _ => none) cs b.senderSsrc
        mediaSsrc := lastSome (fun | .mediaSsrc v => some v | _ => none) cs b.mediaSsrc } := by
  induction cs generalizing b with
  | nil => simp [FbBuilder.run, lastSome]
  | cons c cs ih =>
    show (FbBuilder.run (FbCall.apply b c) cs) = _
    rw [ih]
    cases c <;> simp [FbCall.apply, lastSome_cons, FbBuilder.setPadding, FbBuilder.setSenderSsrc, FbBuilder.setMediaSsrc]

theorem rpsi_run (b : RpsiBuilder) (cs : List RpsiCall) :
    b.run cs =
      { payloadType := lastSome (fun | .payloadType v => some v | _ => none) cs b.payloadType
        nativeBitString :=
          (lastSome (fun | .nativeData d k => some (d, k) | .nativeDataOwned d k => some (d, k) | _ => none) cs
            (b.nativeBitString, b.nativeBitOverrun)).1
        nativeBitOverrun :=
          (lastSome (fun | .nativeData d k => some (d, k) | .nativeDataOwned d k => some (d, k) | _ => none) cs
            (b.nativeBitString, b.nativeBitOverrun)).2 } := by
  induction cs generalizing b with
  | nil => simp [RpsiBuilder.run, lastSome]
  | cons c cs ih =>
    show (RpsiBuilder.run (RpsiCall.apply b c) cs) = _
    rw [ih]
    cases c <;> simp [RpsiCall.apply, lastSome_cons, RpsiBuilder.setPayloadType, RpsiBuilder.nativeData, RpsiBuilder.nativeDataOwned]

theorem nack_run_gen (ss : List UInt16) (b : NackBuilder) (hb : b.rtpSeq.Pairwise (· < ·)) :
    (NackBuilder.run b ss).rtpSeq.Pairwise (· < ·) ∧
      ∀ x, x ∈ (NackBuilder.run b ss).rtpSeq ↔ x ∈ b.rtpSeq ∨ x ∈ ss := by
  induction ss generalizing b with
  | nil => simp [NackBuilder.run, hb]
  | cons s ss ih =>
    show (NackBuilder.run (b.addRtpSequence s) ss).rtpSeq.Pairwise (· < ·) ∧
      ∀ x, x ∈ (NackBuilder.run (b.addRtpSequence s) ss).rtpSeq ↔ _
    have h1 : (b.addRtpSequence s).rtpSeq.Pairwise (· < ·) := sortedInsert_pairwise _ _ hb
    refine ⟨(ih _ h1).1, ?_⟩
    intro x
    rw [(ih _ h1).2 x, nack_add_mem]
    simp only [List.mem_cons]
    constructor
    · rintro ((h | h) | h) <;> simp [h]
    · rintro (h | h | h) <;> simp [h]

theorem nack_run (ss : List UInt16) :
    let b := NackBuilder.run {} ss
    b.rtpSeq.Pairwise (· < ·) ∧ ∀ x, x ∈ b.rtpSeq ↔ x ∈ ss := by
  exact nack_run_gen ss {} List.Pairwise.nil |>.imp id (fun h x => by simpa using h x)

theorem nack_run_same_set (ss ss' : List UInt16) (h : ∀ x, x ∈ ss ↔ x ∈ ss') :
    NackBuilder.run {} ss = NackBuilder.run {} ss' := by
  have h1 := nack_run ss
  have h2 := nack_run ss'
  simp only at h1 h2
  have : (NackBuilder.run {} ss).rtpSeq = (NackBuilder.run {} ss').rtpSeq :=
    sorted_ext _ _ h1.1 h2.1 (fun z => by rw [h1.2 z, h2.2 z, h z])
  cases hx : NackBuilder.run {} ss
  cases hy : NackBuilder.run {} ss'
  rw [hx, hy] at this
  simpa using this

theorem snoc_ind {α : Type} {P : List α → Prop} (hnil : P [])
    (hsnoc : ∀ l a, P l → P (l ++ [a])) : ∀ l, P l := by
  intro l
  have : ∀ r : List α, P r.reverse := by
    intro r
    induction r with
    | nil => exact hnil
    | cons a r ih => rw [List.reverse_cons]; exact hsnoc _ _ ih
  simpa using this l.reverse

theorem eraseDups_nodup (l : List UInt32) : l.eraseDups.Pairwise (· ≠ ·) := by
  generalize hn : l.length = n
  induction n using Nat.strongRecOn generalizing l with
  | _ n ih =>
    cases l with
    | nil => simp
    | cons a as =>
      rw [List.eraseDups_cons, List.pairwise_cons]
      constructor
      · intro x hx
        rw [List.mem_eraseDups, List.mem_filter] at hx
        intro hax
        subst hax
        simp at hx
      · have hlen : (as.filter (fun b => !b == a)).length < n := by
          have := List.length_filter_le (fun b => !b == a) as
          simp at hn; omega
        exact ih _ hlen _ rfl

theorem upsert_map (k : UInt32) (v : UInt8) (h : UInt32 → UInt8) (D : List UInt32)
    (hD : D.Pairwise (· ≠ ·)) :
    FirBuilder.upsert k v (D.map (fun k' => (k', h k'))) =
      D.map (fun k' => (k', if k' == k then v else h k')) ++ (if k ∈ D then [] else [(k, v)]) := by
  induction D with
  | nil => simp [FirBuilder.upsert]
  | cons a D ih =>
    rw [List.pairwise_cons] at hD
    by_cases hak : a = k
    · subst hak
      have hn : a ∉ D := fun hm => hD.1 a hm rfl
      have : D.map (fun k' => (k', if k' == a then v else h k')) = D.map (fun k' => (k', h k')) := by
        apply List.map_congr_left
        intro x hx
        have : x ≠ a := fun e => hn (e ▸ hx)
        simp [this]
      simp only [List.map_cons, FirBuilder.upsert, beq_self_eq_true, if_true, this, List.mem_cons,
        true_or, List.append_nil]
    · have h1 : (a == k) = false := by simpa using hak
      have h2 : ¬ k = a := fun e => hak e.symm
      simp only [List.map_cons, FirBuilder.upsert, h1, Bool.false_eq_true, if_false, ih hD.2,
        List.mem_cons, h2, false_or, List.cons_append]

theorem fir_run (es : List (UInt32 × UInt8)) :
    (FirBuilder.run {} es).ssrcSeq =
      (es.map Prod.fst).eraseDups.map
        (fun k => (k, lastSome (fun e => if e.1 == k then some e.2 else none) es 0)) := by
  induction es using snoc_ind with
  | hnil => rfl
  | hsnoc es e ih =>
    obtain ⟨k, v⟩ := e
    have hl : (FirBuilder.run {} (es ++ [(k, v)])).ssrcSeq
        = FirBuilder.upsert k v (FirBuilder.run {} es).ssrcSeq := by
      simp [FirBuilder.run, List.foldl_append, FirBuilder.addSsrc]
    rw [hl, ih, upsert_map _ _ _ _ (eraseDups_nodup _)]
    rw [List.map_append, List.eraseDups_append]
    simp only [lastSome_append, lastSome_cons, lastSome_nil, List.map_cons, List.map_nil,
      List.map_append, List.mem_eraseDups]
    by_cases hk : k ∈ es.map Prod.fst
    · have : [k].removeAll (es.map Prod.fst) = [] := by
        simp [List.removeAll, hk]
      rw [this]
      simp only [hk, if_true, List.eraseDups_nil, List.map_nil, List.append_nil]
      apply List.map_congr_left
      intro x hx
      by_cases hxk : x = k
      · subst hxk; simp
      · have : ¬ k = x := fun e => hxk e.symm
        simp [hxk, this]
    · have : [k].removeAll (es.map Prod.fst) = [k] := by
        simp [List.removeAll, hk]
      rw [this]
      simp only [hk, if_false]
      have : [k].eraseDups = [k] := by simp [List.eraseDups_cons]
      rw [this]
      simp only [List.map_cons, List.map_nil, beq_self_eq_true, if_true]
      congr 1
      apply List.map_congr_left
      intro x hx
      by_cases hxk : x = k
      · subst hxk; simp
      · have : ¬ k = x := fun e => hxk e.symm
        simp [hxk, this]

theorem sli_run (b : SliBuilder) (es : List (UInt16 × UInt16 × UInt8)) :
    (b.run es).lostMbs = b.lostMbs ++ es.map (fun e => ⟨e.1, e.2.1, e.2.2⟩) := by
  exact (adders_preserve_order {ssrc := 0} {ssrc := 0} {} {} {ssrc := 0} b [] [] [] [] [] es []).2.2.2.2.2.1

theorem sr_same_summary (b : SrBuilder) (cs cs' : List SrCall)
    (hp : lastSome (fun | .padding v => some v | _ => none) cs b.padding
        = lastSome (fun | .padding v => some v | _ => none) cs' b.padding)
    (hn : lastSome (fun | .ntp v => some v | _ => none) cs b.ntp = lastSome (fun | .ntp v => some v | _ => none) cs' b.ntp)
    (hr : lastSome (fun | .rtp v => some v | _ => none) cs b.rtp = lastSome (fun | .rtp v => some v | _ => none) cs' b.rtp)
    (hc : lastSome (fun | .packetCount v => some v | _ => none) cs b.packetCount
        = lastSome (fun | .packetCount v => some v | _ => none) cs' b.packetCount)
    (ho : lastSome (fun | .octetCount v => some v | _ => none) cs b.octetCount
        = lastSome (fun | .octetCount v => some v | _ => none) cs' b.octetCount)
    (hb : cs.filterMap (fun | .addReportBlock rb => some rb | _ => none)
        = cs'.filterMap (fun | .addReportBlock rb => some rb | _ => none)) :
    b.run cs = b.run cs' ∧ (b.run cs).calcSize = (b.run cs').calcSize ∧
      ∀ buf, (b.run cs).toWriter.writeInto buf = (b.run cs').toWriter.writeInto buf := by
  have : b.run cs = b.run cs' := by
    rw [sr_run, sr_run, hp, hn, hr, hc, ho, hb]
  rw [this]
  exact ⟨rfl, rfl, fun _ => rfl⟩

theorem bye_same_summary (b : ByeBuilder) (cs cs' : List ByeCall)
    (hp : lastSome (fun | .padding v => some v | _ => none) cs b.padding
        = lastSome (fun | .padding v => some v | _ => none) cs' b.padding)
    (hs : cs.filterMap (fun | .addSource s => some s | _ => none)
        = cs'.filterMap (fun | .addSource s => some s | _ => none))
    (hr : lastSome (fun | .reason r => some r | .reasonOwned r => some r | _ => none) cs b.reason
        = lastSome (fun | .reason r => some r | .reasonOwned r => some r | _ => none) cs' b.reason) :
    b.run cs = b.run cs' ∧ (b.run cs).calcSize = (b.run cs').calcSize ∧
      ∀ buf, (b.run cs).toWriter.writeInto buf = (b.run cs').toWriter.writeInto buf := by
  have : b.run cs = b.run cs' := by
    rw [bye_run, bye_run, hp, hs, hr]
  rw [this]
  exact ⟨rfl, rfl, fun _ => rfl⟩

theorem sr_padding_anywhere (b : SrBuilder) (pre post : List SrCall) (v : UInt8)
    (h : ∀ c ∈ post, ∀ w, c ≠ .padding w) :
    b.run (pre ++ .padding v :: post) = b.run (pre ++ post ++ [.padding v]) := by
  have hpost : lastSome (fun | SrCall.padding v => some v | _ => none) post v = v := by
    apply lastSome_none
    intro c hc
    cases c <;> first | rfl | exact absurd rfl (h _ hc _)
  rw [sr_run, sr_run]
  simp only [lastSome_append, lastSome_cons, lastSome_nil, List.filterMap_append, List.filterMap_cons,
    List.filterMap_nil, List.append_nil, hpost]

end Rtcp.Proofs
