/-
  Proofs: layout clauses of the packet image (C07).
-/
import Rtcp.Spec.All
import Rtcp.Proofs.RoundTripAux

namespace Rtcp.Proofs
open Rtcp Rtcp.Impl Rtcp.Spec

theorem layout_packet_length (pt : UInt8) (c : Nat) (p : UInt8) (body : Bytes) :
    (packet pt c p body).length = 4 + body.length + p.toNat := by
  sorry

theorem layout_packet_header (pt : UInt8) (c : Nat) (p : UInt8) (body : Bytes) (hc : c ≤ 31)
    (h4 : (body.length + p.toNat) % 4 = 0) (hs : 4 + body.length + p.toNat ≤ 262144) :
    let img := packet pt c p body
    version img = 2 ∧ (pbit img = true ↔ p ≠ 0) ∧ count img = c ∧ ptype img = pt ∧
    (img.getD 2 0).toNat * 256 + (img.getD 3 0).toNat = img.length / 4 - 1 ∧
    lengthField img = img.length := by
  sorry

theorem layout_packet_body_trailer (pt : UInt8) (c : Nat) (p : UInt8) (body : Bytes) :
    let img := packet pt c p body
    range img 4 (4 + body.length) = body ∧
    (p ≠ 0 → img.drop (4 + body.length) = List.replicate (p.toNat - 1) 0 ++ [p]) ∧
    (p = 0 → img.drop (4 + body.length) = []) := by
  sorry

theorem layout_be_layout (x : UInt32) (y : UInt16) :
    be32 x = [(x.toNat / 16777216).toUInt8, (x.toNat / 65536 % 256).toUInt8, (x.toNat / 256 % 256).toUInt8,
              (x.toNat % 256).toUInt8] ∧
    be16 y = [(y.toNat / 256).toUInt8, (y.toNat % 256).toUInt8] := by
  sorry

theorem layout_chunk_layout (c : SdesChunkBuilder) :
    ∃ fill, chunkImage c = be32 c.ssrc ++ (c.items.map itemImage).flatten ++ [0] ++ List.replicate fill 0 ∧
      fill < 4 ∧ (chunkImage c).length % 4 = 0 := by
  sorry

end Rtcp.Proofs
