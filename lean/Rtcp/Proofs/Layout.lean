/-
  Proofs: layout clauses of the packet image (C07).
-/
import Rtcp.Spec.All
import Rtcp.Proofs.RoundTripAux

namespace Rtcp.Proofs
open Rtcp Rtcp.Impl Rtcp.Spec

theorem layout_packet_length (pt : UInt8) (c : Nat) (p : UInt8) (body : Bytes) :
    (packet pt c p body).length = 4 + body.length + p.toNat :=
  packet_length pt c p body

theorem layout_packet_header (pt : UInt8) (c : Nat) (p : UInt8) (body : Bytes) (hc : c ≤ 31)
    (h4 : (body.length + p.toNat) % 4 = 0) (hs : 4 + body.length + p.toNat ≤ 262144) :
    let img := packet pt c p body
    version img = 2 ∧ (pbit img = true ↔ p ≠ 0) ∧ count img = c ∧ ptype img = pt ∧
    (img.getD 2 0).toNat * 256 + (img.getD 3 0).toNat = img.length / 4 - 1 ∧
    lengthField img = img.length := by
  intro img
  have hbytes : (img.getD 2 0).toNat * 256 + (img.getD 3 0).toNat = img.length / 4 - 1 := by
    show ((packet pt c p body).getD 2 0).toNat * 256 + ((packet pt c p body).getD 3 0).toNat
      = (packet pt c p body).length / 4 - 1
    rw [packet_length, RT.packet_cons, trailer_length]
    simp only [List.getD_cons_succ, List.getD_cons_zero]
    have h1 : ((4 + body.length + p.toNat) / 4 - 1) % 65536 = (4 + body.length + p.toNat) / 4 - 1 := by
      omega
    rw [h1, Read.toUInt16_toNat _ (by omega), RT.toUInt8_toNat_lt (by omega),
      RT.toUInt8_toNat_lt (by omega)]
    omega
  refine ⟨RT.version_packet pt c p body, ?_, ?_, RT.ptype_packet pt c p body, hbytes, ?_⟩
  · show pbit (packet pt c p body) = true ↔ p ≠ 0
    rw [RT.pbit_packet]
    simp
  · show count (packet pt c p body) = c
    rw [RT.count_packet]
    omega
  · have hl : img.length = 4 + body.length + p.toNat := packet_length pt c p body
    unfold lengthField
    rw [hbytes, hl]
    omega

theorem layout_packet_body_trailer (pt : UInt8) (c : Nat) (p : UInt8) (body : Bytes) :
    let img := packet pt c p body
    range img 4 (4 + body.length) = body ∧
    (p ≠ 0 → img.drop (4 + body.length) = List.replicate (p.toNat - 1) 0 ++ [p]) ∧
    (p = 0 → img.drop (4 + body.length) = []) := by
  intro img
  obtain ⟨hdr, hlen, himg⟩ := RT.packet_decomp pt c p body
  have himg' : img = hdr ++ body ++ trailer p := himg
  have hdrop : img.drop (4 + body.length) = trailer p := by
    rw [himg']
    have : (hdr ++ body).length = 4 + body.length := by simp [hlen]
    rw [← this, List.drop_left]
  refine ⟨?_, ?_, ?_⟩
  · rw [himg']
    unfold range
    have : (hdr ++ body).length = 4 + body.length := by simp [hlen]
    rw [← this, List.take_left, ← hlen, List.drop_left]
  · intro hp
    rw [hdrop]
    simp [trailer, hp]
  · intro hp
    rw [hdrop]
    simp [trailer, hp]

theorem layout_be_layout (x : UInt32) (y : UInt16) :
    be32 x = [(x.toNat / 16777216).toUInt8, (x.toNat / 65536 % 256).toUInt8, (x.toNat / 256 % 256).toUInt8,
              (x.toNat % 256).toUInt8] ∧
    be16 y = [(y.toNat / 256).toUInt8, (y.toNat % 256).toUInt8] := by
  have hx := x.toNat_lt
  have hy := y.toNat_lt
  have h1 : x.toNat / 16777216 % 256 = x.toNat / 16777216 := by omega
  have h2 : y.toNat / 256 % 256 = y.toNat / 256 := by omega
  constructor
  · simp only [be32, h1]
  · simp only [be16, h2]

theorem layout_chunk_layout (c : SdesChunkBuilder) :
    ∃ fill, chunkImage c = be32 c.ssrc ++ (c.items.map itemImage).flatten ++ [0] ++ List.replicate fill 0 ∧
      fill < 4 ∧ (chunkImage c).length % 4 = 0 := by
  refine ⟨pad4 (be32 c.ssrc ++ (c.items.map itemImage).flatten ++ [0]).length
      - (be32 c.ssrc ++ (c.items.map itemImage).flatten ++ [0]).length, rfl, ?_, ?_⟩
  · have := pad4_lt (be32 c.ssrc ++ (c.items.map itemImage).flatten ++ [0]).length
    omega
  · unfold chunkImage
    rw [zfill_length]
    exact pad4_mod _

end Rtcp.Proofs
