/-
  Tail-writer specifications of the five FCI builders (PLI, FIR, SLI, RPSI, NACK).
-/
import Rtcp.Proofs.BufLemmas2

namespace Rtcp.Proofs.Var
open Rtcp Rtcp.Impl Rtcp.Spec Rtcp.Props

/-! ## PLI -/
theorem pli_tail : TailSpec pliFci.w.write [] := by
  intro r _; simp [pliFci]

/-! ## FIR -/

theorem length_firImage (es : List (UInt32 × UInt8)) :
    ((es.map firEntryImage).flatten).length = 8 * es.length := by
  induction es with
  | nil => rfl
  | cons e es ih => simp [firEntryImage, ih]; omega

theorem fir_writeEntries (es : List (UInt32 × UInt8)) : ∀ (d r : Bytes) (i : Nat), i = d.length →
    8 * es.length ≤ r.length →
    FirBuilder.writeEntries es (d ++ r) i
      = .ok ((d ++ (es.map firEntryImage).flatten) ++ r.drop (8 * es.length), i + 8 * es.length) := by
  induction es with
  | nil => intro d r i hi _; simp [FirBuilder.writeEntries]
  | cons e es ih =>
    intro d r i hi hr
    obtain ⟨ssrc, seq⟩ := e
    simp only [List.length_cons] at hr
    unfold FirBuilder.writeEntries
    rw [copyAt_app d r (be32 ssrc) i (i + 4) hi (by simp [hi]) (by simp; omega)]
    simp only
    rw [copyAt_app _ _ [seq, 0, 0, 0] (i + 4) (i + 8) (by simp [hi]) (by simp [hi]) (by simp; omega)]
    simp only
    rw [ih _ _ (i + 8) (by simp [hi]) (by simp; omega)]
    simp [firEntryImage, List.drop_drop]
    constructor
    · congr 1; omega
    · omega

theorem fir_tail (b : FirBuilder) : TailSpec b.toFci.w.write (firImage b) := by
  intro r hr
  rw [firImage, length_firImage] at *
  have := fir_writeEntries b.ssrcSeq [] r 0 rfl hr
  simpa [FirBuilder.toFci, FirBuilder.writeUnchecked, firImage] using this

/-! ## SLI -/

theorem sli_encode_eq (e : MacroBlockEntry) : e.encode = sliEntryImage e := by
  obtain ⟨s, c, p⟩ := e
  have hs := s.toNat_lt
  have hc := c.toNat_lt
  have hp := p.toNat_lt
  simp only [MacroBlockEntry.encode, sliEntryImage, be32, Nat.toUInt32, UInt32.toNat_ofNat']
  generalize s.toNat = s at *
  generalize c.toNat = c at *
  generalize p.toNat = p at *
  have hN : (s % 8192 * 524288 + c % 8192 * 64 + p % 64) % 2 ^ 32
      = s % 8192 * 524288 + c % 8192 * 64 + p % 64 := by omega
  rw [hN]
  have h0 : s / 32 % 256 = (s % 8192 * 524288 + c % 8192 * 64 + p % 64) / 16777216 % 256 := by omega
  have h1 : s % 32 * 8 + c / 1024 % 8 = (s % 8192 * 524288 + c % 8192 * 64 + p % 64) / 65536 % 256 := by omega
  have h2 : c / 4 % 256 = (s % 8192 * 524288 + c % 8192 * 64 + p % 64) / 256 % 256 := by omega
  have h3 : c % 4 * 64 + p % 64 = (s % 8192 * 524288 + c % 8192 * 64 + p % 64) % 256 := by omega
  rw [h0, h1, h2, h3]

theorem length_sliImage (es : List MacroBlockEntry) :
    ((es.map sliEntryImage).flatten).length = 4 * es.length := by
  induction es with
  | nil => rfl
  | cons e es ih => simp [sliEntryImage, ih]; omega

theorem sli_writeEntries (es : List MacroBlockEntry) : ∀ (d r : Bytes) (i : Nat), i = d.length →
    4 * es.length ≤ r.length →
    SliBuilder.writeEntries es (d ++ r) i
      = .ok ((d ++ (es.map sliEntryImage).flatten) ++ r.drop (4 * es.length), i + 4 * es.length) := by
  induction es with
  | nil => intro d r i hi _; simp [SliBuilder.writeEntries]
  | cons e es ih =>
    intro d r i hi hr
    simp only [List.length_cons] at hr
    have himg : sliEntryImage e = e.encode := (sli_encode_eq e).symm
    unfold SliBuilder.writeEntries
    simp only [List.map_cons, List.flatten_cons, himg]
    simp only [MacroBlockEntry.encode, bind, R.bind]
    rw [setByte_app d r i _ hi (by omega)]
    simp only
    rw [setByte_app _ _ (i + 1) _ (by simp [hi]) (by simp; omega)]
    simp only
    rw [setByte_app _ _ (i + 2) _ (by simp [hi]) (by simp; omega)]
    simp only
    rw [setByte_app _ _ (i + 3) _ (by simp [hi]) (by simp; omega)]
    simp only
    rw [ih _ _ (i + 4) (by simp [hi]) (by simp; omega)]
    simp [List.drop_drop]
    constructor
    · congr 1; omega
    · omega

theorem sli_tail (b : SliBuilder) : TailSpec b.toFci.w.write (sliImage b) := by
  intro r hr
  rw [sliImage, length_sliImage] at *
  have := sli_writeEntries b.lostMbs [] r 0 rfl hr
  simpa [SliBuilder.toFci, SliBuilder.writeUnchecked, sliImage] using this

end Rtcp.Proofs.Var
