/-
  Proofs: the SDES scanner against the reference tokeniser.
-/
import Rtcp.Spec.All
import Rtcp.Proofs.SdesScan

namespace Rtcp.Proofs
open Rtcp Rtcp.Impl Rtcp.Spec

/-- the reference tokeniser accepts exactly the reference encoder's images: must-accept (C10) -/
theorem refTok_encode (cs : List SdesChunkBuilder)
    (h : ∀ c ∈ cs, ∀ it ∈ c.items, itemRules it = [] ∧ it.type ≠ 0) :
    refTok ((cs.map chunkImage).flatten) = some (cs.map chunkCfgAsRef) := by
  sorry

/-- the encoded length of a well-formed chunk is what `length()` reports for it -/
theorem chunkImage_length (c : SdesChunkBuilder) :
    (chunkImage c).length = pad4 (4 + (c.items.map (fun it => (itemImage it).length)).sum + 1) := by
  sorry

theorem sdes_roundtrip {ε : Type} (b : SdesBuilder) (h : sdesRules b = [])
    (hz : ∀ c ∈ b.chunks, ∀ it ∈ c.items, it.type ≠ 0) :
    ∃ v, Sdes.parse (sdesImage b) = .ok v ∧
      v.chunks.map chunkAsRef = b.chunks.map chunkCfgAsRef ∧
      (Sdes.padding v : R ε (Option UInt8)) = .ok (getPaddingOf b.padding) := by
  sorry

/-- a PRIV prefix that overruns its item is rejected -/
theorem ref_rejects_priv_overrun (fuel pos : Nat) (l pl : UInt8) (rest : Bytes)
    (hl : l.toNat ≤ rest.length + 1) (h1 : 1 ≤ l.toNat) (h : l.toNat - 1 < pl.toNat) :
    refItems (fuel + 1) pos (8 :: l :: pl :: rest) = none := by
  sorry

/-- non-zero bytes in a chunk's fill are rejected -/
theorem ref_rejects_nonzero_fill (fuel pos : Nat) (rest : Bytes)
    (h : ∃ i, i < (4 - (pos + 1) % 4) % 4 ∧ i < rest.length ∧ rest.getD i 0 ≠ 0) :
    refItems (fuel + 1) pos (0 :: rest) = none := by
  sorry

end Rtcp.Proofs
