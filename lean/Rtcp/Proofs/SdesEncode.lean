/-
  Proofs: the SDES scanner against the reference tokeniser.
-/
import Rtcp.Spec.All
import Rtcp.Proofs.SdesScan
import Rtcp.Proofs.ReadLemmas
import Rtcp.Proofs.BufLemmas

/-! ## helper lemmas (own namespace, to avoid clashes with sibling proof files) -/

namespace Rtcp.Proofs.SdesEnc
open Rtcp Rtcp.Impl Rtcp.Spec

/-! ### the tokeniser on encoder images -/

theorem u8_of_lt {n : Nat} (h : n < 256) : (n % 256).toUInt8.toNat = n := by
  simp [Nat.toUInt8]; omega

theorem be32_decode (x : UInt32) : ∃ a b c d, be32 x = [a, b, c, d] ∧
    (a.toNat * 16777216 + b.toNat * 65536 + c.toNat * 256 + d.toNat).toUInt32 = x := by
  refine ⟨_, _, _, _, rfl, ?_⟩
  apply UInt32.toNat_inj.mp
  have := x.toNat_lt
  simp only [Nat.toUInt32, Nat.toUInt8, UInt32.toNat_ofNat', UInt8.toNat_ofNat']
  omega

/-- a raw item followed by anything: the tokeniser consumes exactly the item -/
theorem refItems_raw (fuel pos : Nat) (t l : UInt8) (data R : Bytes)
    (ht : t ≠ 0) (hl : l.toNat = data.length)
    (hs : t = 8 → RefItem.privSplit ⟨t, data⟩ ≠ none) :
    refItems (fuel + 1) pos (t :: l :: (data ++ R)) =
      match refItems fuel (pos + 2 + data.length) R with
      | some (its, after) => some (⟨t, data⟩ :: its, after)
      | none => none := by
  simp only [refItems, ht, if_false, hl, List.length_append]
  rw [if_neg (by omega), List.take_left, List.drop_left, if_neg (fun h => hs h.1 h.2)]
  rfl

theorem itemImage_shape (it : SdesItemBuilder) (hr : itemRules it = []) :
    ∃ l data, itemImage it = it.type :: l :: data ∧ l.toNat = data.length ∧
      itemCfgAsRef it = ⟨it.type, data⟩ ∧ (it.type = 8 → RefItem.privSplit ⟨it.type, data⟩ ≠ none) := by
  unfold itemRules at hr
  unfold itemImage itemCfgAsRef
  by_cases h8 : it.type = 8
  · simp only [h8, if_true] at hr ⊢
    split at hr; · cases hr
    split at hr; · cases hr
    rename_i hp hv
    refine ⟨((it.prefix_.length + 1 + it.value.length) % 256).toUInt8,
      (it.prefix_.length % 256).toUInt8 :: (it.prefix_ ++ it.value), by simp, ?_, rfl, ?_⟩
    · rw [u8_of_lt (by omega)]; simp; omega
    · intro _
      simp [RefItem.privSplit, u8_of_lt (show it.prefix_.length < 256 by omega)]
  · simp only [h8, if_false] at hr ⊢
    split at hr; · cases hr
    rename_i hv
    refine ⟨_, it.value, rfl, ?_, rfl, ?_⟩
    · rw [u8_of_lt (by omega)]
    · intro h; exact h.elim


theorem refItems_term (fuel pos k : Nat) (tail : Bytes) (hk : k = (4 - (pos + 1) % 4) % 4) :
    refItems (fuel + 1) pos (0 :: (List.replicate k 0 ++ tail)) = some ([], tail) := by
  subst hk
  simp only [refItems, if_true, List.length_append, List.length_replicate]
  rw [if_neg (by omega), List.take_left' (by simp), List.drop_left' (by simp), if_pos (by simp)]

theorem refItems_items (its : List SdesItemBuilder) :
    ∀ (fuel pos k : Nat) (tail : Bytes),
      (∀ it ∈ its, itemRules it = [] ∧ it.type ≠ 0) →
      ((its.map itemImage).flatten).length < fuel →
      k = (4 - (pos + ((its.map itemImage).flatten).length + 1) % 4) % 4 →
      refItems fuel pos ((its.map itemImage).flatten ++ 0 :: (List.replicate k 0 ++ tail))
        = some (its.map itemCfgAsRef, tail) := by
  induction its with
  | nil =>
    intro fuel pos k tail _ hf hk
    obtain ⟨f, rfl⟩ : ∃ f, fuel = f + 1 := ⟨fuel - 1, by omega⟩
    simp only [List.map_nil, List.flatten_nil, List.nil_append, List.length_nil, Nat.add_zero] at hk ⊢
    exact refItems_term f pos k tail hk
  | cons it its ih =>
    intro fuel pos k tail h hf hk
    obtain ⟨f, rfl⟩ : ∃ f, fuel = f + 1 := ⟨fuel - 1, by omega⟩
    have hit := h it (List.mem_cons_self ..)
    obtain ⟨l, data, himg, hl, hcfg, hs⟩ := itemImage_shape it hit.1
    simp only [List.map_cons, List.flatten_cons, List.length_append, List.append_assoc] at hf hk ⊢
    rw [himg] at hf hk ⊢
    simp only [List.cons_append, List.length_cons] at hf hk ⊢
    rw [refItems_raw f pos it.type l data _ hit.2 hl hs,
      ih f (pos + 2 + data.length) k tail (fun x hx => h x (List.mem_cons_of_mem _ hx)) (by omega)
        (by rw [hk]; congr 3; omega), hcfg]


theorem chunkImage_app (c : SdesChunkBuilder) (R : Bytes) :
    ∃ k, k = (4 - (4 + ((c.items.map itemImage).flatten).length + 1) % 4) % 4 ∧
      chunkImage c ++ R = be32 c.ssrc ++ ((c.items.map itemImage).flatten ++ 0 ::
        (List.replicate k 0 ++ R)) := by
  refine ⟨_, ?_, by simp only [chunkImage, zfill, List.append_assoc, List.cons_append, List.nil_append]; rfl⟩
  simp only [List.length_append, be32_length, List.length_cons, List.length_nil, pad4]
  omega

theorem refChunks_chunks (cs : List SdesChunkBuilder) :
    ∀ (fuel : Nat), (∀ c ∈ cs, ∀ it ∈ c.items, itemRules it = [] ∧ it.type ≠ 0) →
      ((cs.map chunkImage).flatten).length ≤ fuel →
      refChunks fuel ((cs.map chunkImage).flatten) = some (cs.map chunkCfgAsRef) := by
  induction cs with
  | nil => intro fuel _ _; simp [refChunks]
  | cons c cs ih =>
    intro fuel h hf
    have hc := h c (List.mem_cons_self ..)
    obtain ⟨a, b, c', d, hbe, hdec⟩ := be32_decode c.ssrc
    obtain ⟨k, hk, himg⟩ := chunkImage_app c ((cs.map chunkImage).flatten)
    simp only [List.map_cons, List.flatten_cons] at hf ⊢
    rw [himg] at hf ⊢
    rw [hbe] at hf ⊢
    simp only [List.cons_append, List.nil_append, List.length_cons, List.length_append,
      List.length_replicate] at hf
    obtain ⟨f, rfl⟩ : ∃ f, fuel = f + 1 := ⟨fuel - 1, by omega⟩
    simp only [List.cons_append, List.nil_append, refChunks]
    rw [refItems_items c.items _ 4 k _ hc (by simp <;> omega) hk]
    simp only
    rw [ih f (fun x hx => h x (List.mem_cons_of_mem _ hx)) (by omega), hdec]
    rfl


/-! ### framing facts about `packet` images -/

theorem b0_toNat (pb : Bool) (count : Nat) :
    ((128 + (if pb then 32 else 0) + count % 32).toUInt8).toNat = 128 + (if pb then 32 else 0) + count % 32 := by
  simp only [Nat.toUInt8, UInt8.toNat_ofNat']
  cases pb <;> simp <;> omega

theorem packet_cons (pt : UInt8) (count : Nat) (p : UInt8) (body : Bytes) :
    packet pt count p body =
      (128 + (if (p != 0) = true then 32 else 0) + count % 32).toUInt8 :: pt ::
      (((4 + body.length + p.toNat) / 4 - 1) % 65536 / 256 % 256).toUInt8 ::
      (((4 + body.length + p.toNat) / 4 - 1) % 65536 % 256).toUInt8 :: (body ++ trailer p) := by
  have e : (((4 + body.length + p.toNat) / 4 - 1) % 65536).toUInt16.toNat
      = ((4 + body.length + p.toNat) / 4 - 1) % 65536 := by
    simp only [Nat.toUInt16, UInt16.toNat_ofNat']; omega
  simp only [packet, header, be16, trailer_length, e, List.cons_append, List.nil_append]

theorem pk_version (pt : UInt8) (count : Nat) (p : UInt8) (body : Bytes) :
    version (packet pt count p body) = 2 := by
  rw [packet_cons]; simp only [version, List.getD_cons_zero, b0_toNat]
  split <;> omega

theorem pk_ptype (pt : UInt8) (count : Nat) (p : UInt8) (body : Bytes) :
    ptype (packet pt count p body) = pt := by
  rw [packet_cons]; simp [ptype]

theorem pk_pbit (pt : UInt8) (count : Nat) (p : UInt8) (body : Bytes) :
    pbit (packet pt count p body) = (p != 0) := by
  rw [packet_cons]; simp only [pbit, List.getD_cons_zero, b0_toNat]
  cases h : (p != 0) <;> simp <;> omega

theorem pk_lengthField (pt : UInt8) (count : Nat) (p : UInt8) (body : Bytes)
    (h4 : (4 + body.length + p.toNat) % 4 = 0) (hs : 4 + body.length + p.toNat ≤ 262144) :
    lengthField (packet pt count p body) = 4 + body.length + p.toNat := by
  rw [packet_cons]
  simp only [lengthField, List.getD_cons_zero, List.getD_cons_succ, Nat.toUInt8, UInt8.toNat_ofNat']
  omega

theorem pk_lastByte (pt : UInt8) (count : Nat) (p : UInt8) (body : Bytes) (hp : p ≠ 0) :
    lastByte (packet pt count p body) = p := by
  simp [lastByte, packet, trailer, hp]

theorem pk_paddingOf (pt : UInt8) (count : Nat) (p : UInt8) (body : Bytes) :
    paddingOf (packet pt count p body) = getPaddingOf p := by
  unfold paddingOf getPaddingOf
  rw [pk_pbit]
  by_cases hp : p = 0
  · simp [hp]
  · simp [hp, pk_lastByte]

theorem pk_padLen (pt : UInt8) (count : Nat) (p : UInt8) (body : Bytes) :
    padLen (packet pt count p body) = p.toNat := by
  unfold padLen; rw [pk_paddingOf]; unfold getPaddingOf
  by_cases hp : p = 0 <;> simp [hp]

theorem pk_sdesBody (pt : UInt8) (count : Nat) (p : UInt8) (body : Bytes) :
    sdesBody (packet pt count p body) = body := by
  unfold sdesBody
  rw [pk_padLen, packet_length]
  simp only [range, packet]
  rw [show 4 + body.length + p.toNat - p.toNat = (header pt (p != 0) count (4 + body.length + (trailer p).length) ++ body).length by simp <;> omega]
  rw [List.take_left, List.drop_left' (by simp)]

/-! ### the SDES rules -/

theorem chunks_length_mod (cs : List SdesChunkBuilder) : ((cs.map chunkImage).flatten).length % 4 = 0 := by
  induction cs with
  | nil => rfl
  | cons c cs ih =>
    simp only [List.map_cons, List.flatten_cons, List.length_append]
    have : (chunkImage c).length % 4 = 0 := by
      unfold chunkImage; rw [zfill_length]; exact pad4_mod _
    omega

theorem sdesRules_nil (b : SdesBuilder) (h : sdesRules b = []) :
    b.padding.toNat % 4 = 0 ∧ (∀ c ∈ b.chunks, ∀ it ∈ c.items, itemRules it = []) ∧
    4 + ((b.chunks.map chunkImage).flatten).length + b.padding.toNat ≤ 262144 := by
  unfold sdesRules at h
  simp only at h
  rw [List.append_eq_nil_iff] at h
  obtain ⟨hb, hs⟩ := h
  rw [if_pos hb] at hs
  rw [List.append_eq_nil_iff, List.append_eq_nil_iff] at hb
  obtain ⟨⟨_, hp⟩, hc⟩ := hb
  refine ⟨?_, ?_, ?_⟩
  · unfold padRule at hp
    split at hp
    · cases hp
    · omega
  · intro c hc' it hit
    rw [List.flatten_eq_nil_iff] at hc
    have := hc (chunkRules c) (List.mem_map_of_mem hc')
    unfold chunkRules at this
    rw [List.flatten_eq_nil_iff] at this
    exact this _ (List.mem_map_of_mem hit)
  · unfold sizeRule at hs
    split at hs
    · cases hs
    · omega

end Rtcp.Proofs.SdesEnc

namespace Rtcp.Proofs
open Rtcp Rtcp.Impl Rtcp.Spec

/-- the reference tokeniser accepts exactly the reference encoder's images: must-accept (C10) -/
theorem refTok_encode (cs : List SdesChunkBuilder)
    (h : ∀ c ∈ cs, ∀ it ∈ c.items, itemRules it = [] ∧ it.type ≠ 0) :
    refTok ((cs.map chunkImage).flatten) = some (cs.map chunkCfgAsRef) :=
  SdesEnc.refChunks_chunks cs _ h (Nat.le_refl _)

/-- the encoded length of a well-formed chunk is what `length()` reports for it -/
theorem chunkImage_length (c : SdesChunkBuilder) :
    (chunkImage c).length = pad4 (4 + (c.items.map (fun it => (itemImage it).length)).sum + 1) := by
  unfold chunkImage
  rw [zfill_length]
  simp only [List.length_append, be32_length, List.length_flatten, List.map_map, Function.comp_def,
    List.length_cons, List.length_nil]

theorem sdes_roundtrip {ε : Type} (b : SdesBuilder) (h : sdesRules b = [])
    (hz : ∀ c ∈ b.chunks, ∀ it ∈ c.items, it.type ≠ 0) :
    ∃ v, Sdes.parse (sdesImage b) = .ok v ∧
      v.chunks.map chunkAsRef = b.chunks.map chunkCfgAsRef ∧
      (Sdes.padding v : R ε (Option UInt8)) = .ok (getPaddingOf b.padding) := by
  obtain ⟨hp4, hrules, hsize⟩ := SdesEnc.sdesRules_nil b h
  have hmod := SdesEnc.chunks_length_mod b.chunks
  have himg : sdesImage b = packet 202 b.chunks.length b.padding (b.chunks.map chunkImage).flatten := rfl
  have hlen : (sdesImage b).length = 4 + ((b.chunks.map chunkImage).flatten).length + b.padding.toNat := by
    rw [himg, packet_length]
  have hlf : lengthField (sdesImage b) = (sdesImage b).length := by
    rw [hlen, himg]; exact SdesEnc.pk_lengthField _ _ _ _ (by omega) hsize
  have hpad : padLen (sdesImage b) = b.padding.toNat := by rw [himg, SdesEnc.pk_padLen]
  have hframed : WellFramed 4 202 (sdesImage b) := by
    rw [Read.wellFramed_iff]
    refine ⟨by omega, by omega, ?_, ?_, hlf, ?_⟩
    · rw [himg, SdesEnc.pk_version]
    · rw [himg, SdesEnc.pk_ptype]
    · rw [himg, SdesEnc.pk_pbit]
      intro hp
      have hp' : b.padding ≠ 0 := by simpa using hp
      rw [SdesEnc.pk_lastByte _ _ _ _ hp']
      exact hp'
  have htok : refTok (sdesBody (sdesImage b)) = some (b.chunks.map chunkCfgAsRef) := by
    rw [himg, SdesEnc.pk_sdesBody]
    exact refTok_encode b.chunks (fun c hc it hit => ⟨hrules c hc it hit, hz c hc it hit⟩)
  cases hparse : Sdes.parse (sdesImage b) with
  | ok v =>
    obtain ⟨hdata, _, _, ht, _⟩ := sdes_parse_accepts (sdesImage b) v hparse
    refine ⟨v, rfl, ?_, ?_⟩
    · rw [htok] at ht
      exact (Option.some.inj ht).symm
    · unfold Sdes.padding
      rw [hdata, Read.parsePadding_ok _ (by omega) hlf, himg, SdesEnc.pk_paddingOf]
  | err e =>
    exact absurd ⟨hframed, by omega, by rw [htok]; rfl⟩ (sdes_parse_rejects (sdesImage b) e hparse)
  | panic => exact absurd hparse (sdes_parse_no_panic (sdesImage b))

/-- a PRIV prefix that overruns its item is rejected -/
theorem ref_rejects_priv_overrun (fuel pos : Nat) (l pl : UInt8) (rest : Bytes)
    (hl : l.toNat ≤ rest.length + 1) (h1 : 1 ≤ l.toNat) (h : l.toNat - 1 < pl.toNat) :
    refItems (fuel + 1) pos (8 :: l :: pl :: rest) = none := by
  obtain ⟨k, hk⟩ : ∃ k, l.toNat = k + 1 := ⟨l.toNat - 1, by omega⟩
  have h8 : (8 : UInt8) ≠ 0 := by decide
  have hsplit : RefItem.privSplit ⟨8, pl :: rest.take k⟩ = none := by
    simp only [RefItem.privSplit, List.length_take]
    rw [if_neg]
    omega
  simp only [refItems, h8, if_false, List.length_cons, hk, List.take_succ_cons]
  rw [if_neg (by omega)]
  simp [hsplit]

/-- non-zero bytes in a chunk's fill are rejected -/
theorem ref_rejects_nonzero_fill (fuel pos : Nat) (rest : Bytes)
    (h : ∃ i, i < (4 - (pos + 1) % 4) % 4 ∧ i < rest.length ∧ rest.getD i 0 ≠ 0) :
    refItems (fuel + 1) pos (0 :: rest) = none := by
  obtain ⟨i, hi, hir, hne⟩ := h
  simp only [refItems, if_true]
  split
  · rfl
  · rw [if_neg]
    intro hall
    rw [List.all_eq_true] at hall
    have hmem : rest[i] ∈ rest.take ((4 - (pos + 1) % 4) % 4) := by
      rw [List.mem_take_iff_getElem]
      exact ⟨i, by omega, rfl⟩
    have := hall _ hmem
    apply hne
    simpa [List.getD_eq_getElem?_getD, List.getElem?_eq_getElem hir] using this

end Rtcp.Proofs
