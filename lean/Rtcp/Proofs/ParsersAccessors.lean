/-
  Proofs: accessors of the fixed-layout views
-/
import Rtcp.Spec.All
import Rtcp.Proofs.ReadLemmas
import Rtcp.Proofs.ParsersFraming

namespace Rtcp.Proofs
open Rtcp Rtcp.Impl Rtcp.Spec

/-! ## accessors: exactly the bytes on the wire, never a panic on an accepted view (C09, C01) -/

theorem sr_accessors {ε : Type} (bs : Bytes) (h : Sr.parse bs = .ok bs) :
    (Sr.ssrc bs : R ε UInt32) = .ok (u32At bs 4).toUInt32 ∧
    (Sr.ntp bs : R ε UInt64) = .ok (u64At bs 8).toUInt64 ∧
    (Sr.rtp bs : R ε UInt32) = .ok (u32At bs 16).toUInt32 ∧
    (Sr.packetCount bs : R ε UInt32) = .ok (u32At bs 20).toUInt32 ∧
    (Sr.octetCount bs : R ε UInt32) = .ok (u32At bs 24).toUInt32 ∧
    (Sr.nReports bs : R ε UInt8) = .ok (count bs).toUInt8 ∧
    (Sr.padding bs : R ε (Option UInt8)) = .ok (paddingOf bs) ∧
    (Sr.reportBlocks bs : R ε (List Bytes)) =
      .ok ((List.range (count bs)).map (fun i => range bs (28 + 24 * i) (28 + 24 * i + 24))) := by
  sorry

theorem rr_accessors {ε : Type} (bs : Bytes) (h : Rr.parse bs = .ok bs) :
    (Rr.ssrc bs : R ε UInt32) = .ok (u32At bs 4).toUInt32 ∧
    (Rr.nReports bs : R ε UInt8) = .ok (count bs).toUInt8 ∧
    (Rr.padding bs : R ε (Option UInt8)) = .ok (paddingOf bs) ∧
    (Rr.reportBlocks bs : R ε (List Bytes)) =
      .ok ((List.range (count bs)).map (fun i => range bs (8 + 24 * i) (8 + 24 * i + 24))) := by
  sorry

theorem rb_accessors {ε : Type} (bs : Bytes) (h : bs.length = 24) :
    (ReportBlock.ssrc bs : R ε UInt32) = .ok (u32At bs 0).toUInt32 ∧
    (ReportBlock.fractionLost bs : R ε UInt8) = .ok (u8At bs 4).toUInt8 ∧
    (ReportBlock.cumulativeLost bs : R ε UInt32) = .ok (u32At bs 4 % 16777216).toUInt32 ∧
    (ReportBlock.extendedSequenceNumber bs : R ε UInt32) = .ok (u32At bs 8).toUInt32 ∧
    (ReportBlock.interarrivalJitter bs : R ε UInt32) = .ok (u32At bs 12).toUInt32 ∧
    (ReportBlock.lastSenderReportTimestamp bs : R ε UInt32) = .ok (u32At bs 16).toUInt32 ∧
    (ReportBlock.delaySinceLastSenderReportTimestamp bs : R ε UInt32) = .ok (u32At bs 20).toUInt32 := by
  sorry

theorem app_accessors {ε : Type} (bs : Bytes) (h : App.parse bs = .ok bs) :
    (App.ssrc bs : R ε UInt32) = .ok (u32At bs 4).toUInt32 ∧
    (App.name bs : R ε Bytes) = .ok (range bs 8 12) ∧
    (App.padding bs : R ε (Option UInt8)) = .ok (paddingOf bs) ∧
    (App.data bs : R ε Slice) = .ok ⟨12, range bs 12 (bs.length - padLen bs)⟩ ∧
    12 ≤ bs.length - padLen bs := by
  sorry

theorem bye_accessors {ε : Type} (bs : Bytes) (h : Bye.parse bs = .ok bs) :
    (Bye.ssrcs bs : R ε (List UInt32)) = .ok ((List.range (count bs)).map (fun i => (u32At bs (4 + 4 * i)).toUInt32)) ∧
    (Bye.padding bs : R ε (Option UInt8)) = .ok (paddingOf bs) ∧
    (let off := 4 + 4 * count bs
     (Bye.reason bs : R ε (Option Slice)) =
       .ok (if bs.length ≤ off + 1 + padLen bs then none
            else some ⟨off + 1, range bs (off + 1) (off + 1 + u8At bs off)⟩)) ∧
    (4 + 4 * count bs < bs.length → 4 + 4 * count bs + 1 + u8At bs (4 + 4 * count bs) ≤ bs.length) := by
  sorry

theorem fb_accessors {ε : Type} (k : FbKind) (bs : Bytes) (h : Fb.parse k bs = .ok bs) :
    (Fb.senderSsrc bs : R ε UInt32) = .ok (u32At bs 4).toUInt32 ∧
    (Fb.mediaSsrc bs : R ε UInt32) = .ok (u32At bs 8).toUInt32 ∧
    (Fb.padding bs : R ε (Option UInt8)) = .ok (paddingOf bs) := by
  sorry

theorem unknown_accessors {ε : Type} (bs : Bytes) :
    (Unknown.data bs : R ε Slice) = .ok ⟨0, bs⟩ := by
  sorry

theorem slices_within (bs : Bytes) :
    (∀ s, (App.data bs : R Unit Slice) = .ok s → SubSlice s bs) ∧
    (∀ s, (Bye.reason bs : R Unit (Option Slice)) = .ok (some s) → SubSlice s bs) ∧
    (∀ s, (Unknown.data bs : R Unit Slice) = .ok s → SubSlice s bs) := by
  sorry

end Rtcp.Proofs
