/-
  Proofs: accessors of the fixed-layout views
-/
import Rtcp.Spec.All
import Rtcp.Proofs.ReadLemmas
import Rtcp.Proofs.ParsersFraming
import Rtcp.Proofs.ParsersAccessorsAux

namespace Rtcp.Proofs
open Rtcp Rtcp.Impl Rtcp.Spec
open Rtcp.Proofs.Read Rtcp.Proofs.Acc

/-! ## accessors: exactly the bytes on the wire, never a panic on an accepted view (C09, C01) -/

theorem sr_accessors {ε : Type} (bs : Bytes) (h : Sr.parse bs = .ok bs) :
    (Sr.ssrc bs : R ε UInt32) = .ok (u32At bs 4).toUInt32 ∧
    (Sr.ntp bs : R ε UInt64) = .ok (u64At bs 8).toUInt64 ∧
    (Sr.rtp bs : R ε UInt32) = .ok (u32At bs 16).toUInt32 ∧
    (Sr.packetCount bs : R ε UInt32) = .ok (u32At bs 20).toUInt32 ∧
    (Sr.octetCount bs : R ε UInt32) = .ok (u32At bs 24).toUInt32 ∧
    (Sr.nReports bs : R ε UInt8) = .ok (count bs).toUInt8 ∧
    (Sr.padding bs : R ε (Option UInt8)) = .ok (paddingOf bs) ∧
    (Sr.reportBlocks bs : R ε (List Bytes)) =
      .ok ((List.range (count bs)).map (fun i => range bs (28 + 24 * i) (28 + 24 * i + 24))) := by
  obtain ⟨-, hw, hc⟩ := (sr_parse_ok_iff bs bs).mp h
  obtain ⟨hm, h4, -, -, hl, -⟩ := (wellFramed_iff 28 200 bs).mp hw
  refine ⟨parseSsrc_ok bs (by omega), ?_, read32 bs 16 20 rfl (by omega), read32 bs 20 24 rfl (by omega),
    read32 bs 24 28 rfl (by omega), hCount_ok bs h4, parsePadding_ok bs h4 hl,
    reportBlocksAt_ok 28 bs h4 hc⟩
  simp only [Sr.ntp, slice_ok bs 8 16 ⟨by omega, by omega⟩, R.ok_bind]
  exact fromBe64_range bs 8 (by omega)

theorem rr_accessors {ε : Type} (bs : Bytes) (h : Rr.parse bs = .ok bs) :
    (Rr.ssrc bs : R ε UInt32) = .ok (u32At bs 4).toUInt32 ∧
    (Rr.nReports bs : R ε UInt8) = .ok (count bs).toUInt8 ∧
    (Rr.padding bs : R ε (Option UInt8)) = .ok (paddingOf bs) ∧
    (Rr.reportBlocks bs : R ε (List Bytes)) =
      .ok ((List.range (count bs)).map (fun i => range bs (8 + 24 * i) (8 + 24 * i + 24))) := by
  obtain ⟨-, hw, hc⟩ := (rr_parse_ok_iff bs bs).mp h
  obtain ⟨hm, h4, -, -, hl, -⟩ := (wellFramed_iff 8 201 bs).mp hw
  exact ⟨parseSsrc_ok bs (by omega), hCount_ok bs h4, parsePadding_ok bs h4 hl,
    reportBlocksAt_ok 8 bs h4 hc⟩

theorem rb_accessors {ε : Type} (bs : Bytes) (h : bs.length = 24) :
    (ReportBlock.ssrc bs : R ε UInt32) = .ok (u32At bs 0).toUInt32 ∧
    (ReportBlock.fractionLost bs : R ε UInt8) = .ok (u8At bs 4).toUInt8 ∧
    (ReportBlock.cumulativeLost bs : R ε UInt32) = .ok (u32At bs 4 % 16777216).toUInt32 ∧
    (ReportBlock.extendedSequenceNumber bs : R ε UInt32) = .ok (u32At bs 8).toUInt32 ∧
    (ReportBlock.interarrivalJitter bs : R ε UInt32) = .ok (u32At bs 12).toUInt32 ∧
    (ReportBlock.lastSenderReportTimestamp bs : R ε UInt32) = .ok (u32At bs 16).toUInt32 ∧
    (ReportBlock.delaySinceLastSenderReportTimestamp bs : R ε UInt32) = .ok (u32At bs 20).toUInt32 := by
  refine ⟨read32 bs 0 4 rfl (by omega), ?_, ?_, read32 bs 8 12 rfl (by omega),
    read32 bs 12 16 rfl (by omega), read32 bs 16 20 rfl (by omega), read32 bs 20 24 rfl (by omega)⟩
  · simp only [ReportBlock.fractionLost, idx_ok bs 4 (by omega), u8At, toNat_toUInt8]
  · have h32 : u32At bs 4 < 4294967296 := by
      have := u16At_lt bs 4; have := u16At_lt bs (4 + 2); unfold u32At; omega
    have e : (u32At bs 4).toUInt32.toNat = u32At bs 4 := by
      simp only [Nat.toUInt32, UInt32.toNat_ofNat']
      omega
    simp only [ReportBlock.cumulativeLost, slice_ok bs 4 8 ⟨by omega, by omega⟩, R.ok_bind,
      fromBe32_range bs 4 (by omega), R.pure_eq, e]

theorem app_accessors {ε : Type} (bs : Bytes) (h : App.parse bs = .ok bs) :
    (App.ssrc bs : R ε UInt32) = .ok (u32At bs 4).toUInt32 ∧
    (App.name bs : R ε Bytes) = .ok (range bs 8 12) ∧
    (App.padding bs : R ε (Option UInt8)) = .ok (paddingOf bs) ∧
    (App.data bs : R ε Slice) = .ok ⟨12, range bs 12 (bs.length - padLen bs)⟩ ∧
    12 ≤ bs.length - padLen bs := by
  obtain ⟨-, hw, hc⟩ := (app_parse_ok_iff bs bs).mp h
  obtain ⟨hm, h4, -, -, hl, -⟩ := (wellFramed_iff 12 204 bs).mp hw
  refine ⟨parseSsrc_ok bs (by omega), slice_ok bs 8 12 ⟨by omega, by omega⟩, parsePadding_ok bs h4 hl,
    ?_, by omega⟩
  have hp : ((paddingOf bs).getD 0).toNat = padLen bs := rfl
  simp only [App.data, parsePadding_ok bs h4 hl, R.ok_bind, hp, usub_ok bs.length (padLen bs) (by omega)]
  rw [sliceS_ok 0 bs 12 _ ⟨by omega, by omega⟩]

theorem bye_accessors {ε : Type} (bs : Bytes) (h : Bye.parse bs = .ok bs) :
    (Bye.ssrcs bs : R ε (List UInt32)) = .ok ((List.range (count bs)).map (fun i => (u32At bs (4 + 4 * i)).toUInt32)) ∧
    (Bye.padding bs : R ε (Option UInt8)) = .ok (paddingOf bs) ∧
    (let off := 4 + 4 * count bs
     (Bye.reason bs : R ε (Option Slice)) =
       .ok (if bs.length ≤ off + 1 + padLen bs then none
            else some ⟨off + 1, range bs (off + 1) (off + 1 + u8At bs off)⟩)) ∧
    (4 + 4 * count bs < bs.length → 4 + 4 * count bs + 1 + u8At bs (4 + 4 * count bs) ≤ bs.length) := by
  obtain ⟨-, hw, hc, hr⟩ := (bye_parse_ok_iff bs bs).mp h
  obtain ⟨hm, h4, -, -, hl, -⟩ := (wellFramed_iff 4 203 bs).mp hw
  refine ⟨?_, parsePadding_ok bs h4 hl, ?_, hr⟩
  · simp only [Bye.ssrcs, hCount_ok bs h4, R.ok_bind, count_toUInt8_toNat]
    rw [slice_ok bs 4 _ ⟨by omega, by omega⟩]
    simp only [R.ok_bind]
    rw [chunksExact_range 4 (by omega) bs (count bs) 4 (by omega)]
    apply mapM_map_ok
    intro i hi
    have hi : i < count bs := by simpa using hi
    exact fromBe32_range bs (4 + 4 * i) (by omega)
  · have hp : ((paddingOf bs).getD 0).toNat = padLen bs := rfl
    have ho : count bs * 4 + 4 = 4 + 4 * count bs := by omega
    simp only [Bye.reason, hCount_ok bs h4, R.ok_bind, count_toUInt8_toNat, hLength_ok bs h4, hl,
      parsePadding_ok bs h4 hl, hp, ho]
    by_cases hlt : bs.length ≤ 4 + 4 * count bs + 1 + padLen bs
    · rw [if_pos hlt]
      by_cases h1 : bs.length < 4 + 4 * count bs + 1 + padLen bs
      · rw [if_pos h1]; rfl
      · rw [if_neg h1, if_pos (by omega)]; rfl
    · rw [if_neg hlt, if_neg (by omega), if_neg (by omega)]
      have hr' := hr (by omega)
      rw [idx_ok bs _ (by omega)]
      simp only [R.ok_bind]
      rw [sliceS_ok 0 bs _ _ ⟨by omega, by unfold u8At at hr'; omega⟩]
      simp [u8At]

theorem fb_accessors {ε : Type} (k : FbKind) (bs : Bytes) (h : Fb.parse k bs = .ok bs) :
    (Fb.senderSsrc bs : R ε UInt32) = .ok (u32At bs 4).toUInt32 ∧
    (Fb.mediaSsrc bs : R ε UInt32) = .ok (u32At bs 8).toUInt32 ∧
    (Fb.padding bs : R ε (Option UInt8)) = .ok (paddingOf bs) := by
  obtain ⟨-, hw, hc⟩ := (fb_parse_ok_iff k bs bs).mp h
  obtain ⟨hm, h4, -, -, hl, -⟩ := (wellFramed_iff 12 k.pt bs).mp hw
  refine ⟨parseSsrc_ok bs (by omega), ?_, parsePadding_ok bs h4 hl⟩
  have hs : (sliceFrom bs 4 : R ε Bytes) = .ok (bs.drop 4) := by simp [sliceFrom]; omega
  simp only [Fb.mediaSsrc, hs, R.ok_bind]
  rw [parseSsrc_ok _ (by simp; omega), u32At_drop]

theorem unknown_accessors {ε : Type} (bs : Bytes) :
    (Unknown.data bs : R ε Slice) = .ok ⟨0, bs⟩ := by
  simp only [Unknown.data]
  rw [sliceS_ok 0 bs 0 _ ⟨by omega, by omega⟩]
  simp [range]

theorem slices_within (bs : Bytes) :
    (∀ s, (App.data bs : R Unit Slice) = .ok s → SubSlice s bs) ∧
    (∀ s, (Bye.reason bs : R Unit (Option Slice)) = .ok (some s) → SubSlice s bs) ∧
    (∀ s, (Unknown.data bs : R Unit Slice) = .ok s → SubSlice s bs) := by
  refine ⟨?_, ?_, ?_⟩
  · intro s hs
    unfold App.data at hs
    obtain ⟨p, -, hs⟩ := bind_eq_ok _ _ _ hs
    obtain ⟨e, -, hs⟩ := bind_eq_ok _ _ _ hs
    exact sliceS_subSlice _ _ _ _ hs
  · intro s hs
    unfold Bye.reason at hs
    obtain ⟨c, -, hs⟩ := bind_eq_ok _ _ _ hs
    obtain ⟨len, -, hs⟩ := bind_eq_ok _ _ _ hs
    obtain ⟨p, -, hs⟩ := bind_eq_ok _ _ _ hs
    dsimp only at hs
    split at hs
    · cases hs
    · split at hs
      · cases hs
      · obtain ⟨rl, -, hs⟩ := bind_eq_ok _ _ _ hs
        obtain ⟨s', hs', hs⟩ := bind_eq_ok _ _ _ hs
        injection hs with hs
        injection hs with hs
        subst hs
        exact sliceS_subSlice _ _ _ _ hs'
  · intro s hs
    exact sliceS_subSlice _ _ _ _ hs

end Rtcp.Proofs
