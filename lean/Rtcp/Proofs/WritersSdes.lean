/-
  Proofs: SDES, FCI, feedback and compound builders refine their RFC images.
-/
import Rtcp.Proofs.WritersFixed
import Rtcp.Proofs.BufLemmas2

namespace Rtcp.Proofs
open Rtcp Rtcp.Impl Rtcp.Spec Rtcp.Props

theorem item_refines (b : SdesItemBuilder) :
    Refines ⟨b.calcSize, b.writeUnchecked, none⟩ (itemImage b) := by sorry

theorem chunk_refines (b : SdesChunkBuilder) :
    Refines ⟨b.calcSize, b.writeUnchecked, none⟩ (chunkImage b) := by sorry

theorem sdes_refines (b : SdesBuilder) : Refines b.toWriter (sdesImage b) := by sorry

end Rtcp.Proofs
