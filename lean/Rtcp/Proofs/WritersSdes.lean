/-
  Proofs: SDES, FCI, feedback and compound builders refine their RFC images.
-/
import Rtcp.Proofs.WritersFixed
import Rtcp.Proofs.BufLemmas2

namespace Rtcp.Proofs
open Rtcp Rtcp.Impl Rtcp.Spec Rtcp.Props

theorem item_calcSize_ne_panic (b : SdesItemBuilder) : b.calcSize ≠ .panic := by
  unfold SdesItemBuilder.calcSize
  simp only []
  repeat' split
  all_goals simp

theorem sdesw_setByte_0 {ε : Type} (x v : UInt8) (r : Bytes) :
    (setByte (x :: r) 0 v : R ε Bytes) = .ok (v :: r) := by simp [setByte]
theorem sdesw_setByte_1 {ε : Type} (a x v : UInt8) (r : Bytes) :
    (setByte (a :: x :: r) 1 v : R ε Bytes) = .ok (a :: v :: r) := by simp [setByte]
theorem sdesw_setByte_2 {ε : Type} (a b x v : UInt8) (r : Bytes) :
    (setByte (a :: b :: x :: r) 2 v : R ε Bytes) = .ok (a :: b :: v :: r) := by simp [setByte]

theorem sdesw_copyAt_c3 {ε : Type} (a b c : UInt8) (r src : Bytes) (e : Nat) (he : e = src.length + 3)
    (hr : src.length ≤ r.length) :
    (copyAt (a :: b :: c :: r) 3 e src : R ε Bytes) = .ok ([a, b, c] ++ src ++ r.drop src.length) := by
  have := Var.copyAt_app (ε := ε) [a, b, c] r src 3 e rfl (by simp; omega) hr
  simpa using this

theorem sdesw_copyAt_c2 {ε : Type} (a b : UInt8) (r src : Bytes) (e : Nat) (he : e = src.length + 2)
    (hr : src.length ≤ r.length) :
    (copyAt (a :: b :: r) 2 e src : R ε Bytes) = .ok ([a, b] ++ src ++ r.drop src.length) := by
  have := Var.copyAt_app (ε := ε) [a, b] r src 2 e rfl (by simp; omega) hr
  simpa using this

theorem item_tail (b : SdesItemBuilder) (n : Nat) (h : b.calcSize = .ok n) :
    (itemImage b).length = n ∧ Var.TailSpec b.writeUnchecked (itemImage b) := by
  unfold SdesItemBuilder.calcSize at h
  simp only [SdesItem.PRIV] at h
  by_cases hp : b.type = 8
  · simp only [hp, beq_self_eq_true, ↓reduceIte] at h
    split at h
    · cases h
    split at h
    · cases h
    cases h
    have hl : (itemImage b).length = 3 + b.prefix_.length + b.value.length := by
      simp [itemImage, hp]; omega
    refine ⟨hl, ?_⟩
    intro r hr
    rw [hl] at hr ⊢
    rcases r with _ | ⟨x, _ | ⟨y, _ | ⟨z, rest⟩⟩⟩
    · simp at hr
    · simp at hr; omega
    · simp at hr; omega
    simp only [List.length_cons] at hr
    unfold SdesItemBuilder.writeUnchecked
    simp only [SdesItem.PRIV, hp, beq_self_eq_true, ↓reduceIte]
    rw [sdesw_setByte_0]; simp only [R.ok_bind]
    rw [sdesw_setByte_1]; simp only [R.ok_bind]
    rw [sdesw_setByte_2]; simp only [R.ok_bind]
    rw [sdesw_copyAt_c3 _ _ _ _ _ _ rfl (by omega)]
    simp only [R.ok_bind]
    rw [Var.copyAt_app _ _ b.value _ _ (by simp) (by simp) (by simp; omega)]
    simp only [R.ok_bind, R.pure_eq]
    rw [show 3 + b.prefix_.length + b.value.length = (b.prefix_.length + b.value.length) + 1 + 1 + 1 by omega]
    simp [itemImage, hp, List.drop_drop]
    omega
  · have hp' : (b.type == 8) = false := by simpa using hp
    simp only [hp', Bool.false_eq_true, ↓reduceIte] at h
    split at h
    · cases h
    cases h
    have hl : (itemImage b).length = 2 + b.value.length := by
      simp [itemImage, hp]; omega
    refine ⟨hl, ?_⟩
    intro r hr
    rw [hl] at hr ⊢
    rcases r with _ | ⟨x, _ | ⟨y, rest⟩⟩
    · simp at hr
    · simp at hr; omega
    simp only [List.length_cons] at hr
    unfold SdesItemBuilder.writeUnchecked
    simp only [SdesItem.PRIV, hp', Bool.false_eq_true, ↓reduceIte]
    rw [sdesw_setByte_0]; simp only [R.ok_bind]
    rw [sdesw_setByte_1]; simp only [R.ok_bind]
    rw [sdesw_copyAt_c2 _ _ _ _ _ rfl (by omega)]
    simp only [R.ok_bind, R.pure_eq]
    rw [show 2 + b.value.length = b.value.length + 1 + 1 by omega]
    simp [itemImage, hp]

theorem item_refines (b : SdesItemBuilder) :
    Refines ⟨b.calcSize, b.writeUnchecked, none⟩ (itemImage b) :=
  Var.refines_of_tail _ _ _ _ (item_calcSize_ne_panic b) (item_tail b)

/-! ## chunk -/

theorem itemSizes_ne_panic (items : List SdesItemBuilder) (acc : Nat) :
    SdesChunkBuilder.itemSizes items acc ≠ .panic := by
  induction items generalizing acc with
  | nil => simp [SdesChunkBuilder.itemSizes]
  | cons it rest ih =>
    unfold SdesChunkBuilder.itemSizes
    cases h : it.calcSize with
    | ok n => exact ih _
    | err e => simp
    | panic => exact absurd h (item_calcSize_ne_panic it)

theorem itemSizes_ok (items : List SdesItemBuilder) (acc n : Nat)
    (h : SdesChunkBuilder.itemSizes items acc = .ok n) :
    n = acc + ((items.map itemImage).flatten).length ∧
      ∀ it ∈ items, Var.TailSpec it.writeUnchecked (itemImage it) := by
  induction items generalizing acc with
  | nil => simp [SdesChunkBuilder.itemSizes] at h; simp [h]
  | cons it rest ih =>
    unfold SdesChunkBuilder.itemSizes at h
    cases h' : it.calcSize with
    | ok k =>
      simp only [h'] at h
      obtain ⟨h1, h2⟩ := ih _ h
      obtain ⟨h3, h4⟩ := item_tail it k h'
      constructor
      · simp only [List.map_cons, List.flatten_cons, List.length_append]; omega
      · intro x hx
        rcases List.mem_cons.mp hx with rfl | hx
        · exact h4
        · exact h2 x hx
    | err e => simp only [h'] at h; cases h
    | panic => simp only [h'] at h; cases h

theorem writeItems_app (items : List SdesItemBuilder) (d r : Bytes) (i : Nat) (hi : i = d.length)
    (ht : ∀ it ∈ items, Var.TailSpec it.writeUnchecked (itemImage it))
    (hr : ((items.map itemImage).flatten).length ≤ r.length) :
    SdesChunkBuilder.writeItems items (d ++ r) i
      = .ok (d ++ (items.map itemImage).flatten ++ r.drop ((items.map itemImage).flatten).length,
          i + ((items.map itemImage).flatten).length) := by
  induction items generalizing d r i with
  | nil => simp [SdesChunkBuilder.writeItems]
  | cons it rest ih =>
    simp only [List.map_cons, List.flatten_cons, List.length_append] at hr ⊢
    unfold SdesChunkBuilder.writeItems
    have h1 := ht it (by simp) r (by omega)
    rw [Var.withTail_app_ok d r _ _ i _ hi h1]
    simp only []
    rw [← List.append_assoc]
    rw [ih (d ++ itemImage it) _ _ (by simp; omega) (fun x hx => ht x (by simp [hx]))
      (by simp [-List.length_flatten]; omega)]
    simp only [List.append_assoc, List.drop_drop, Nat.add_assoc]

theorem sdesw_pad4_succ_gt (i : Nat) : i < pad4 (i + 1) := by unfold pad4; omega

theorem chunk_calcSize_ne_panic (b : SdesChunkBuilder) : b.calcSize ≠ .panic := by
  unfold SdesChunkBuilder.calcSize
  cases h : SdesChunkBuilder.itemSizes b.items 0 with
  | ok n => simp
  | err e => simp
  | panic => exact absurd h (itemSizes_ne_panic _ _)

theorem chunk_tail (b : SdesChunkBuilder) (n : Nat) (h : b.calcSize = .ok n) :
    (chunkImage b).length = n ∧ Var.TailSpec b.writeUnchecked (chunkImage b) := by
  unfold SdesChunkBuilder.calcSize at h
  cases hs : SdesChunkBuilder.itemSizes b.items 0 with
  | err e => simp [hs] at h
  | panic => simp [hs] at h
  | ok k =>
    simp only [hs, R.ok_bind, R.pure_eq, R.ok.injEq] at h
    obtain ⟨hk, ht⟩ := itemSizes_ok _ _ _ hs
    have hl : (chunkImage b).length = pad4 (4 + ((b.items.map itemImage).flatten).length + 1) := by
      rw [chunkImage, Var.length_zfill]
      simp [-List.length_flatten, Nat.add_assoc]
    refine ⟨by rw [hl, ← h, hk]; simp [-List.length_flatten, Nat.add_assoc], ?_⟩
    intro r hr
    rw [hl] at hr ⊢
    generalize hS : ((b.items.map itemImage).flatten).length = S at *
    have hp := sdesw_pad4_succ_gt (4 + S)
    unfold SdesChunkBuilder.writeUnchecked
    rw [copyAt_zero (by simp) (by omega)]
    simp only [R.ok_bind]
    rw [writeItems_app _ _ _ _ (by simp) ht (by simp [-List.length_flatten]; omega)]
    simp only [R.ok_bind, hS]
    rw [if_pos hp]
    rw [Var.fillAt_app _ _ _ _ (pad4 (4 + S + 1) - (4 + S)) 0 (by simp [-List.length_flatten, hS])
      (by simp [-List.length_flatten, hS]; omega) (by simp; omega)]
    simp only [R.ok_bind, R.pure_eq]
    have e1 : pad4 (4 + S + 1) - (4 + S) = (pad4 (4 + S + 1) - (4 + S + 1)) + 1 := by omega
    have e2 : (be32 b.ssrc ++ (b.items.map itemImage).flatten ++ [0]).length = 4 + S + 1 := by
      simp [-List.length_flatten, hS]; omega
    rw [chunkImage, zfill, e2, e1, List.replicate_succ]
    simp only [List.drop_drop, List.append_assoc, List.cons_append, List.nil_append]
    rw [show 4 + S + (pad4 (4 + S + 1) - (4 + S + 1) + 1) = pad4 (4 + S + 1) by omega]

theorem chunk_refines (b : SdesChunkBuilder) :
    Refines ⟨b.calcSize, b.writeUnchecked, none⟩ (chunkImage b) :=
  Var.refines_of_tail _ _ _ _ (chunk_calcSize_ne_panic b) (chunk_tail b)

/-! ## SDES packet -/

theorem chunkSizes_ne_panic (cs : List SdesChunkBuilder) (acc : Nat) :
    SdesBuilder.chunkSizes cs acc ≠ .panic := by
  induction cs generalizing acc with
  | nil => simp [SdesBuilder.chunkSizes]
  | cons c rest ih =>
    unfold SdesBuilder.chunkSizes
    cases h : c.calcSize with
    | ok n => exact ih _
    | err e => simp
    | panic => exact absurd h (chunk_calcSize_ne_panic c)

theorem chunkSizes_ok (cs : List SdesChunkBuilder) (acc n : Nat)
    (h : SdesBuilder.chunkSizes cs acc = .ok n) :
    n = acc + ((cs.map chunkImage).flatten).length ∧
      ∀ c ∈ cs, Var.TailSpec c.writeUnchecked (chunkImage c) := by
  induction cs generalizing acc with
  | nil => simp [SdesBuilder.chunkSizes] at h; simp [h]
  | cons c rest ih =>
    unfold SdesBuilder.chunkSizes at h
    cases h' : c.calcSize with
    | ok k =>
      simp only [h'] at h
      obtain ⟨h1, h2⟩ := ih _ h
      obtain ⟨h3, h4⟩ := chunk_tail c k h'
      constructor
      · simp only [List.map_cons, List.flatten_cons, List.length_append]; omega
      · intro x hx
        rcases List.mem_cons.mp hx with rfl | hx
        · exact h4
        · exact h2 x hx
    | err e => simp only [h'] at h; cases h
    | panic => simp only [h'] at h; cases h

theorem writeChunks_app (cs : List SdesChunkBuilder) (d r : Bytes) (i : Nat) (hi : i = d.length)
    (ht : ∀ c ∈ cs, Var.TailSpec c.writeUnchecked (chunkImage c))
    (hr : ((cs.map chunkImage).flatten).length ≤ r.length) :
    SdesBuilder.writeChunks cs (d ++ r) i
      = .ok (d ++ (cs.map chunkImage).flatten ++ r.drop ((cs.map chunkImage).flatten).length,
          i + ((cs.map chunkImage).flatten).length) := by
  induction cs generalizing d r i with
  | nil => simp [SdesBuilder.writeChunks]
  | cons c rest ih =>
    simp only [List.map_cons, List.flatten_cons, List.length_append] at hr ⊢
    unfold SdesBuilder.writeChunks
    have h1 := ht c (by simp) r (by omega)
    rw [Var.withTail_app_ok d r _ _ i _ hi h1]
    simp only []
    rw [← List.append_assoc]
    rw [ih (d ++ chunkImage c) _ _ (by simp; omega) (fun x hx => ht x (by simp [hx]))
      (by simp [-List.length_flatten]; omega)]
    simp only [List.append_assoc, List.drop_drop, Nat.add_assoc]

theorem sdes_calcSize_cases (b : SdesBuilder) :
    (∃ e, b.calcSize = .err e) ∨
    (b.chunks.length ≤ 31 ∧ b.padding.toNat % 4 = 0 ∧
      (∀ c ∈ b.chunks, Var.TailSpec c.writeUnchecked (chunkImage c)) ∧
      b.calcSize = .ok (4 + ((b.chunks.map chunkImage).flatten).length + b.padding.toNat)) := by
  unfold SdesBuilder.calcSize
  split
  · exact .inl ⟨_, rfl⟩
  · next hlen =>
    rcases checkPadding_cases b.padding with ⟨hp, h⟩ | ⟨hp, h⟩ <;> simp only [h, R.ok_bind, R.err_bind]
    · cases hs : SdesBuilder.chunkSizes b.chunks 0 with
      | ok n =>
        obtain ⟨h1, h2⟩ := chunkSizes_ok _ _ _ hs
        simp only [R.ok_bind]
        unfold checkPacketLen
        split
        · exact .inl ⟨_, rfl⟩
        · refine .inr ⟨by omega, hp, h2, ?_⟩
          simp [-List.length_flatten, h1]
      | err e => exact .inl ⟨_, rfl⟩
      | panic => exact absurd hs (chunkSizes_ne_panic _ _)
    · exact .inl ⟨_, rfl⟩

theorem sdes_refines (b : SdesBuilder) : Refines b.toWriter (sdesImage b) := by
  rcases sdes_calcSize_cases b with ⟨e, he⟩ | ⟨hlen, hp, ht, hs⟩
  · exact refines_of_err he
  · refine refines_of_ok hs ?_ ?_
    · simp [sdesImage, packet_length, -List.length_flatten]
    · intro buf hl
      show b.writeUnchecked buf = _
      unfold SdesBuilder.writeUnchecked
      rw [writeHeader_spec _ _ _ _ (by omega) (by rw [toUInt8_toNat_of_lt (by omega)]; exact hlen)]
      simp only [R.ok_bind]
      rw [writeChunks_app _ _ _ _ (by simp) ht (by simp [-List.length_flatten]; omega)]
      simp only [R.ok_bind]
      rw [withTail_writePadding_final _ (by simp [-List.length_flatten]) (by simp [-List.length_flatten]; omega)]
      simp only [R.ok_bind, R.pure_eq]
      rw [toUInt8_toNat_of_lt (by omega)]
      unfold sdesImage
      rw [← packet_eq _ _ _ _ (total := buf.length) (by omega)]

end Rtcp.Proofs
