/-
  From a successful `write_into` back to the configuration: whenever `write_into` returns `Ok(n)`,
  `n` is the announced size, the buffer was long enough, and the first `n` bytes are the image; hence
  the round-trip theorems can be stated about the bytes a caller actually holds.
-/
import Rtcp.Props.WriterContract
import Rtcp.Props.Writers
import Rtcp.Props.Rules
import Rtcp.Props.RoundTrip
import Rtcp.Proofs.CompoundE2E
import Rtcp.Props.Sdes

namespace Rtcp.Proofs
open Rtcp Rtcp.Impl Rtcp.Spec Rtcp.Props

theorem writeInto_ok_inv {w : Writer} {img : Bytes} (hw : Refines w img) (buf : Bytes) (n : Nat)
    (h : (w.writeInto buf).2 = .ok n) :
    w.calcSize = .ok n ∧ n ≤ buf.length ∧ ((w.writeInto buf).1).take n = img ∧
      ((w.writeInto buf).1).drop n = buf.drop n := by
  cases hs : w.calcSize with
  | ok k =>
    by_cases hb : k ≤ buf.length
    · rw [Props.writeInto_ok hw hs buf hb] at h
      simp only [R.ok.injEq] at h
      subst h
      exact ⟨rfl, hb, Props.written_eq_image hw hs buf hb, Props.tail_untouched hw hs buf hb⟩
    · rw [Props.writeInto_short hs buf (by omega)] at h
      cases h
  | err e =>
    rw [Props.writeInto_err hs] at h
    cases h
  | panic => exact absurd hs hw.noPanic

theorem member_written (m : Member) (hinv : m.Inv) (buf : Bytes) (n : Nat)
    (h : (m.toWriter.writeInto buf).2 = .ok n) :
    ((m.toWriter.writeInto buf).1).take n = m.image ∧ ((m.toWriter.writeInto buf).1).drop n = buf.drop n ∧
    m.toWriter.calcSize = .ok n ∧ Tile m.image ∧ ∃ p, Packet.parse m.image = .ok p ∧ p.kind? = some m.kind := by
  obtain ⟨hs, _, himg, htail⟩ := writeInto_ok_inv (member_refines m hinv) buf n h
  exact ⟨himg, htail, hs, member_accepted m hinv n hs⟩

theorem sr_written {ε : Type} (b : SrBuilder) (buf : Bytes) (n : Nat) (h : (b.toWriter.writeInto buf).2 = .ok n) :
    ((b.toWriter.writeInto buf).1).take n = srImage b ∧ Sr.parse (srImage b) = .ok (srImage b) ∧
    (Sr.ssrc (srImage b) : R ε UInt32) = .ok b.ssrc ∧ (Sr.ntp (srImage b) : R ε UInt64) = .ok b.ntp ∧
    (Sr.rtp (srImage b) : R ε UInt32) = .ok b.rtp ∧
    (Sr.packetCount (srImage b) : R ε UInt32) = .ok b.packetCount ∧
    (Sr.octetCount (srImage b) : R ε UInt32) = .ok b.octetCount ∧
    (Sr.padding (srImage b) : R ε (Option UInt8)) = .ok (getPaddingOf b.padding) ∧
    (Sr.nReports (srImage b) : R ε UInt8) = .ok b.reportBlocks.length.toUInt8 ∧
    (Sr.reportBlocks (srImage b) : R ε (List Bytes)) = .ok (b.reportBlocks.map rbImage) := by
  obtain ⟨hs, _, himg, _⟩ := writeInto_ok_inv (Props.sr_refines b) buf n h
  exact ⟨himg, Props.sr_roundtrip b ((Props.sr_rules b).accept_iff.mp ⟨n, hs⟩)⟩

theorem rr_written {ε : Type} (b : RrBuilder) (buf : Bytes) (n : Nat) (h : (b.toWriter.writeInto buf).2 = .ok n) :
    ((b.toWriter.writeInto buf).1).take n = rrImage b ∧ Rr.parse (rrImage b) = .ok (rrImage b) ∧
    (Rr.ssrc (rrImage b) : R ε UInt32) = .ok b.ssrc ∧
    (Rr.padding (rrImage b) : R ε (Option UInt8)) = .ok (getPaddingOf b.padding) ∧
    (Rr.nReports (rrImage b) : R ε UInt8) = .ok b.reportBlocks.length.toUInt8 ∧
    (Rr.reportBlocks (rrImage b) : R ε (List Bytes)) = .ok (b.reportBlocks.map rbImage) := by
  obtain ⟨hs, _, himg, _⟩ := writeInto_ok_inv (Props.rr_refines b) buf n h
  exact ⟨himg, Props.rr_roundtrip b ((Props.rr_rules b).accept_iff.mp ⟨n, hs⟩)⟩

theorem bye_written {ε : Type} (b : ByeBuilder) (buf : Bytes) (n : Nat) (h : (b.toWriter.writeInto buf).2 = .ok n) :
    ((b.toWriter.writeInto buf).1).take n = byeImage b ∧ Bye.parse (byeImage b) = .ok (byeImage b) ∧
    (Bye.ssrcs (byeImage b) : R ε (List UInt32)) = .ok b.sources ∧
    (Bye.reason (byeImage b) : R ε (Option Slice)) =
      .ok (if b.reason = [] then none else some ⟨4 + 4 * b.sources.length + 1, b.reason⟩) ∧
    (Bye.padding (byeImage b) : R ε (Option UInt8)) = .ok (getPaddingOf b.padding) := by
  obtain ⟨hs, _, himg, _⟩ := writeInto_ok_inv (Props.bye_refines b) buf n h
  exact ⟨himg, Props.bye_roundtrip b ((Props.bye_rules b).accept_iff.mp ⟨n, hs⟩)⟩

theorem app_written {ε : Type} (b : AppBuilder) (buf : Bytes) (n : Nat) (h : (b.toWriter.writeInto buf).2 = .ok n) :
    ((b.toWriter.writeInto buf).1).take n = appImage b ∧ App.parse (appImage b) = .ok (appImage b) ∧
    (App.ssrc (appImage b) : R ε UInt32) = .ok b.ssrc ∧
    (hCount (appImage b) : R ε UInt8) = .ok b.subtype ∧
    (App.name (appImage b) : R ε Bytes) = .ok (b.name ++ List.replicate (4 - b.name.length) 0) ∧
    (App.data (appImage b) : R ε Slice) = .ok ⟨12, b.data⟩ ∧
    (App.padding (appImage b) : R ε (Option UInt8)) = .ok (getPaddingOf b.padding) := by
  obtain ⟨hs, _, himg, _⟩ := writeInto_ok_inv (Props.app_refines b) buf n h
  exact ⟨himg, Props.app_roundtrip b ((Props.app_rules b).accept_iff.mp ⟨n, hs⟩)⟩

theorem sdes_written {ε : Type} (b : SdesBuilder) (hz : ∀ c ∈ b.chunks, ∀ it ∈ c.items, it.type ≠ 0)
    (buf : Bytes) (n : Nat) (h : (b.toWriter.writeInto buf).2 = .ok n) :
    ((b.toWriter.writeInto buf).1).take n = sdesImage b ∧
    ∃ v, Sdes.parse (sdesImage b) = .ok v ∧
      v.chunks.map chunkAsRef = b.chunks.map chunkCfgAsRef ∧
      (Sdes.padding v : R ε (Option UInt8)) = .ok (getPaddingOf b.padding) := by
  obtain ⟨hs, _, himg, _⟩ := writeInto_ok_inv (Props.sdes_refines b) buf n h
  exact ⟨himg, Props.sdes_roundtrip b ((Props.sdes_rules b).accept_iff.mp ⟨n, hs⟩) hz⟩

theorem fb_written {ε : Type} (k : FbKind) (f : FciB) (hf : FciOk f) (p : UInt8) (s m : UInt32)
    (buf : Bytes) (n : Nat) (h : ((FbBuilder.toWriter ⟨k, f.toFci, p, s, m⟩).writeInto buf).2 = .ok n) :
    (((FbBuilder.toWriter ⟨k, f.toFci, p, s, m⟩).writeInto buf).1).take n = fbImage k f p s m ∧
    Fb.parse k (fbImage k f p s m) = .ok (fbImage k f p s m) ∧
    (Fb.senderSsrc (fbImage k f p s m) : R ε UInt32) = .ok s ∧
    (Fb.mediaSsrc (fbImage k f p s m) : R ε UInt32) = .ok m ∧
    (Fb.padding (fbImage k f p s m) : R ε (Option UInt8)) = .ok (getPaddingOf p) ∧
    (hCount (fbImage k f p s m) : R ε UInt8) = .ok (fciFormat f).toUInt8 ∧
    Fb.parseFci k (fciTypeOf f) (fbImage k f p s m) = (fciTypeOf f).parse (fciImage f) := by
  obtain ⟨hs, _, himg, _⟩ := writeInto_ok_inv (Props.fb_refines k f hf p s m) buf n h
  exact ⟨himg, Props.fb_roundtrip k f hf p s m ((Props.fb_rules k f hf p s m).accept_iff.mp ⟨n, hs⟩)⟩

end Rtcp.Proofs
