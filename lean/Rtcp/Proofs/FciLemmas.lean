/-
  Helper lemmas for Rtcp/Proofs/Fci.lean: read primitives on in-range arguments, the word
  splitters of Spec/Decode, and the iterator invariants of the FIR / SLI / NACK parsers.
-/
import Rtcp.Spec.All

namespace Rtcp.Proofs
open Rtcp Rtcp.Impl Rtcp.Spec

/-! ## read primitives -/

theorem idx_lt {ε : Type} {bs : Bytes} {i : Nat} (h : i < bs.length) : (idx bs i : R ε UInt8) = .ok bs[i] := by
  simp [idx, h]

theorem sliceFrom_le {ε : Type} {bs : Bytes} {a : Nat} (h : a ≤ bs.length) :
    (sliceFrom bs a : R ε Bytes) = .ok (bs.drop a) := by simp [sliceFrom, h]

theorem idx_drop {ε : Type} (d : Bytes) (i k : Nat) : (idx d (i + k) : R ε UInt8) = idx (d.drop i) k := by
  simp [idx]

/-! ## word splitters -/

theorem words64_short {l : Bytes} (h : l.length < 8) : words64 l = [] := by
  match l, h with
  | [], _ | [_], _ | [_,_], _ | [_,_,_], _ | [_,_,_,_], _ | [_,_,_,_,_], _ | [_,_,_,_,_,_], _ | [_,_,_,_,_,_,_], _ => rfl
  | _::_::_::_::_::_::_::_::_, h => simp at h; omega

theorem exists_cons8 {l : Bytes} (h : 8 ≤ l.length) :
    ∃ a b c d e f g k rest, l = a::b::c::d::e::f::g::k::rest := by
  match l, h with
  | a::b::c::d::e::f::g::k::rest, _ => exact ⟨a,b,c,d,e,f,g,k,rest,rfl⟩
  | [], h | [_], h | [_,_], h | [_,_,_], h | [_,_,_,_], h | [_,_,_,_,_], h | [_,_,_,_,_,_], h | [_,_,_,_,_,_,_], h => simp at h

theorem words32_short {l : Bytes} (h : l.length < 4) : words32 l = [] := by
  match l, h with
  | [], _ | [_], _ | [_,_], _ | [_,_,_], _ => rfl
  | _::_::_::_::_, h => simp at h; omega

theorem exists_cons4 {l : Bytes} (h : 4 ≤ l.length) :
    ∃ a b c d rest, l = a::b::c::d::rest := by
  match l, h with
  | a::b::c::d::rest, _ => exact ⟨a,b,c,d,rest,rfl⟩
  | [], h | [_], h | [_,_], h | [_,_,_], h => simp at h

/-! ## FIR iterator -/

def firG : Bytes × UInt8 → UInt32 × UInt8 := fun (s, q) =>
    ((match s with
     | [a, b, c, e] => a.toNat * 16777216 + b.toNat * 65536 + c.toNat * 256 + e.toNat
     | _ => 0).toUInt32, q)

theorem fir_collect {ε : Type} (d : Bytes) : ∀ (fuel i : Nat) (acc : List (UInt32 × UInt8)),
    d.length - 8 * i < 8 * fuel →
    (Fir.collect d fuel i acc : R ε _) = .ok (acc ++ (words64 (d.drop (8 * i))).map firG, true) := by
  intro fuel
  induction fuel with
  | zero => intro i acc h; omega
  | succ fuel ih =>
    intro i acc h
    unfold Fir.collect Fir.next
    by_cases hlt : i * 8 + 7 ≥ d.length
    · have : words64 (d.drop (8 * i)) = [] := words64_short (by simp; omega)
      simp [hlt, this]
    · have hle : i * 8 ≤ d.length := by omega
      obtain ⟨a,b,c,e,f,g,k,m,rest,hr⟩ := exists_cons8 (l := d.drop (8 * i)) (by simp; omega)
      have hr' : d.drop (i * 8) = a::b::c::e::f::g::k::m::rest := by rw [Nat.mul_comm]; exact hr
      have hnext : d.drop (8 * (i + 1)) = rest := by
        have : 8 * (i + 1) = 8 * i + 8 := by omega
        rw [this, ← List.drop_drop, hr]; rfl
      simp only [hlt, if_false, sliceFrom_le hle, R.ok_bind, hr', R.pure_eq]
      simp only [slice, idx, fromBe32]
      simp
      rw [ih (i + 1) _ (by omega), hnext, hr]
      simp [words64, firG]

/-! ## SLI iterator -/

def sliG : UInt8 × UInt8 × UInt8 × UInt8 → MacroBlockEntry := fun (a, b, c, e) => MacroBlockEntry.decode a b c e

theorem sli_collect {ε : Type} (d : Bytes) : ∀ (fuel i : Nat) (acc : List MacroBlockEntry),
    d.length - i < 4 * fuel →
    (Sli.collect d fuel i acc : R ε _) = .ok (acc ++ (words32 (d.drop i)).map sliG, true) := by
  intro fuel
  induction fuel with
  | zero => intro i acc h; omega
  | succ fuel ih =>
    intro i acc h
    unfold Sli.collect Sli.next
    by_cases hlt : i + 3 ≥ d.length
    · have : words32 (d.drop i) = [] := words32_short (by simp; omega)
      simp [hlt, this]
    · obtain ⟨a,b,c,e,rest,hr⟩ := exists_cons4 (l := d.drop i) (by simp; omega)
      have hnext : d.drop (i + 4) = rest := by
        rw [← List.drop_drop, hr]; rfl
      have h0 : (idx d i : R ε UInt8) = idx (d.drop i) 0 := idx_drop d i 0
      simp only [hlt, if_false, idx_drop, h0, hr, R.pure_eq]
      simp only [idx]
      simp
      rw [ih (i + 4) _ (by omega), hnext]
      simp [words32, sliG]

end Rtcp.Proofs
