/-
  Proofs: the builder-method laws of C20 that need more than `rfl`.
-/
import Rtcp.Impl.Setters
import Rtcp.Props.WriterContract
import Rtcp.Spec.All
import Rtcp.Proofs.WritersCompound

namespace Rtcp.Proofs
open Rtcp Rtcp.Impl Rtcp.Spec Rtcp.Props

theorem adders_preserve_order (sr : SrBuilder) (rr : RrBuilder) (bye : ByeBuilder) (sd : SdesBuilder)
    (ch : SdesChunkBuilder) (sli : SliBuilder) (ms : List Writer)
    (rbs : List ReportBlockBuilder) (ss : List UInt32) (cs : List SdesChunkBuilder) (its : List SdesItemBuilder)
    (es : List (UInt16 × UInt16 × UInt8)) (ws : List Writer) :
    (rbs.foldl SrBuilder.addReportBlock sr).reportBlocks = sr.reportBlocks ++ rbs ∧
    (rbs.foldl RrBuilder.addReportBlock rr).reportBlocks = rr.reportBlocks ++ rbs ∧
    (ss.foldl ByeBuilder.addSource bye).sources = bye.sources ++ ss ∧
    (cs.foldl SdesBuilder.addChunk sd).chunks = sd.chunks ++ cs ∧
    (its.foldl SdesChunkBuilder.addItem ch).items = ch.items ++ its ∧
    (es.foldl (fun b e => b.addLostMacroblock e.1 e.2.1 e.2.2) sli).lostMbs
      = sli.lostMbs ++ es.map (fun e => ⟨e.1, e.2.1, e.2.2⟩) ∧
    ws.foldl CompoundBuilder.addPacket ms = ms ++ ws := by
  sorry

theorem nack_add_idempotent (b : NackBuilder) (s : UInt16) (h : b.rtpSeq.Pairwise (· < ·)) :
    (b.addRtpSequence s).addRtpSequence s = b.addRtpSequence s := by
  sorry

theorem nack_add_comm (b : NackBuilder) (s t : UInt16) (h : b.rtpSeq.Pairwise (· < ·)) :
    (b.addRtpSequence s).addRtpSequence t = (b.addRtpSequence t).addRtpSequence s := by
  sorry

theorem nack_add_mem (b : NackBuilder) (s x : UInt16) :
    x ∈ (b.addRtpSequence s).rtpSeq ↔ x = s ∨ x ∈ b.rtpSeq := by
  sorry

theorem fir_add_last_wins (b : FirBuilder) (k : UInt32) (v v' : UInt8) :
    (b.addSsrc k v).addSsrc k v' = b.addSsrc k v' := by
  sorry

theorem fir_add_comm (b : FirBuilder) (k k' : UInt32) (v v' : UInt8) (hne : k ≠ k')
    (hu : (b.ssrcSeq.map (·.1)).Nodup) :
    ((b.addSsrc k v).addSsrc k' v').ssrcSeq.Perm ((b.addSsrc k' v').addSsrc k v).ssrcSeq := by
  sorry

theorem fir_image_perm (a b : FirBuilder) (h : a.ssrcSeq.Perm b.ssrcSeq) :
    (a.ssrcSeq.map firEntryImage).Perm (b.ssrcSeq.map firEntryImage) ∧ a.calcSize = b.calcSize := by
  sorry

theorem compound_singleton (m : Writer) (img : Bytes) (h : Refines m img) :
    Refines (CompoundBuilder.toWriter [m]) img ∧
    (CompoundBuilder.toWriter [m]).calcSize = m.calcSize ∧
    (CompoundBuilder.toWriter [m]).getPadding = m.getPadding := by
  sorry

end Rtcp.Proofs
