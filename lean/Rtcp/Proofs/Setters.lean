/-
  Proofs: the builder-method laws of C20 that need more than `rfl`.
-/
import Rtcp.Impl.Setters
import Rtcp.Props.WriterContract
import Rtcp.Spec.All
import Rtcp.Proofs.WritersCompound
import Rtcp.Proofs.WritersFci

namespace Rtcp.Proofs
open Rtcp Rtcp.Impl Rtcp.Spec Rtcp.Props

/-! ## helper lemmas -/

theorem sortedInsert_mem_iff (x : UInt16) (l : List UInt16) (z : UInt16) :
    z ∈ sortedInsert x l ↔ z = x ∨ z ∈ l := by
  induction l with
  | nil => simp [sortedInsert]
  | cons y ys ih =>
    unfold sortedInsert
    split
    · simp
    · split
      · next hxy =>
        have : x = y := by simpa using hxy
        subst this
        simp
      · simp only [List.mem_cons, ih]
        constructor
        · rintro (h | h | h) <;> simp [h]
        · rintro (h | h | h) <;> simp [h]

theorem sortedInsert_idem (x : UInt16) (l : List UInt16) :
    sortedInsert x (sortedInsert x l) = sortedInsert x l := by
  induction l with
  | nil => simp [sortedInsert, UInt16.lt_irrefl]
  | cons y ys ih =>
    by_cases h1 : x < y
    · have : sortedInsert x (y :: ys) = x :: y :: ys := by simp [sortedInsert, h1]
      rw [this]
      simp [sortedInsert, UInt16.lt_irrefl]
    · by_cases h2 : (x == y) = true
      · have : sortedInsert x (y :: ys) = y :: ys := by simp [sortedInsert, h1, h2]
        rw [this, this]
      · have : ∀ l', sortedInsert x (y :: l') = y :: sortedInsert x l' := by
          intro l'; simp only [sortedInsert, h1, h2, if_false, Bool.false_eq_true]
        rw [this, this, ih]

/-- strictly ascending lists with the same members are equal -/
theorem sorted_ext (l1 l2 : List UInt16) (h1 : l1.Pairwise (· < ·)) (h2 : l2.Pairwise (· < ·))
    (hm : ∀ z, z ∈ l1 ↔ z ∈ l2) : l1 = l2 := by
  induction l1 generalizing l2 with
  | nil =>
    cases l2 with
    | nil => rfl
    | cons b l2 => exact absurd ((hm b).mpr (by simp)) (by simp)
  | cons a l1 ih =>
    cases l2 with
    | nil => exact absurd ((hm a).mp (by simp)) (by simp)
    | cons b l2 =>
      rw [List.pairwise_cons] at h1 h2
      have hab : a = b := by
        have ha : a ∈ b :: l2 := (hm a).mp (by simp)
        have hb : b ∈ a :: l1 := (hm b).mpr (by simp)
        simp only [List.mem_cons] at ha hb
        rcases ha with ha | ha
        · exact ha
        · rcases hb with hb | hb
          · exact hb.symm
          · exact absurd (h1.1 b hb) (UInt16.lt_asymm (h2.1 a ha))
      subst hab
      congr 1
      apply ih l2 h1.2 h2.2
      intro z
      constructor
      · intro hz
        have := (hm z).mp (by simp [hz])
        simp only [List.mem_cons] at this
        rcases this with rfl | h
        · exact absurd (h1.1 z hz) (UInt16.lt_irrefl _)
        · exact h
      · intro hz
        have := (hm z).mpr (by simp [hz])
        simp only [List.mem_cons] at this
        rcases this with rfl | h
        · exact absurd (h2.1 z hz) (UInt16.lt_irrefl _)
        · exact h

theorem upsert_upsert_same (k : UInt32) (v v' : UInt8) (l : List (UInt32 × UInt8)) :
    FirBuilder.upsert k v' (FirBuilder.upsert k v l) = FirBuilder.upsert k v' l := by
  induction l with
  | nil => simp [FirBuilder.upsert]
  | cons e es ih =>
    obtain ⟨a, b⟩ := e
    by_cases hak : a = k
    · subst hak; simp [FirBuilder.upsert]
    · have : (a == k) = false := by simpa using hak
      simp only [FirBuilder.upsert, this, Bool.false_eq_true, if_false, ih]

theorem upsert_upsert_perm (k k' : UInt32) (v v' : UInt8) (hne : k ≠ k') (l : List (UInt32 × UInt8)) :
    (FirBuilder.upsert k' v' (FirBuilder.upsert k v l)).Perm
      (FirBuilder.upsert k v (FirBuilder.upsert k' v' l)) := by
  have hkk' : (k == k') = false := by simpa using hne
  have hk'k : (k' == k) = false := by simpa using (Ne.symm hne)
  induction l with
  | nil =>
    simp only [FirBuilder.upsert, hkk', hk'k, Bool.false_eq_true, if_false]
    exact List.Perm.swap _ _ _
  | cons e es ih =>
    obtain ⟨a, b⟩ := e
    by_cases hak : a = k
    · subst hak
      simp [FirBuilder.upsert, hkk']
    · have h1 : (a == k) = false := by simpa using hak
      by_cases hak' : a = k'
      · subst hak'
        simp [FirBuilder.upsert, hk'k]
      · have h2 : (a == k') = false := by simpa using hak'
        simp only [FirBuilder.upsert, h1, h2, Bool.false_eq_true, if_false]
        exact List.Perm.cons _ ih

/-! ## the cited theorems -/

theorem adders_preserve_order (sr : SrBuilder) (rr : RrBuilder) (bye : ByeBuilder) (sd : SdesBuilder)
    (ch : SdesChunkBuilder) (sli : SliBuilder) (ms : List Writer)
    (rbs : List ReportBlockBuilder) (ss : List UInt32) (cs : List SdesChunkBuilder) (its : List SdesItemBuilder)
    (es : List (UInt16 × UInt16 × UInt8)) (ws : List Writer) :
    (rbs.foldl SrBuilder.addReportBlock sr).reportBlocks = sr.reportBlocks ++ rbs ∧
    (rbs.foldl RrBuilder.addReportBlock rr).reportBlocks = rr.reportBlocks ++ rbs ∧
    (ss.foldl ByeBuilder.addSource bye).sources = bye.sources ++ ss ∧
    (cs.foldl SdesBuilder.addChunk sd).chunks = sd.chunks ++ cs ∧
    (its.foldl SdesChunkBuilder.addItem ch).items = ch.items ++ its ∧
    (es.foldl (fun b e => b.addLostMacroblock e.1 e.2.1 e.2.2) sli).lostMbs
      = sli.lostMbs ++ es.map (fun e => ⟨e.1, e.2.1, e.2.2⟩) ∧
    ws.foldl CompoundBuilder.addPacket ms = ms ++ ws := by
  refine ⟨?_, ?_, ?_, ?_, ?_, ?_, ?_⟩
  · induction rbs generalizing sr with
    | nil => simp
    | cons x xs ih => simp [List.foldl_cons, ih, SrBuilder.addReportBlock]
  · induction rbs generalizing rr with
    | nil => simp
    | cons x xs ih => simp [List.foldl_cons, ih, RrBuilder.addReportBlock]
  · induction ss generalizing bye with
    | nil => simp
    | cons x xs ih => simp [List.foldl_cons, ih, ByeBuilder.addSource]
  · induction cs generalizing sd with
    | nil => simp
    | cons x xs ih => simp [List.foldl_cons, ih, SdesBuilder.addChunk]
  · induction its generalizing ch with
    | nil => simp
    | cons x xs ih => simp [List.foldl_cons, ih, SdesChunkBuilder.addItem]
  · induction es generalizing sli with
    | nil => simp
    | cons x xs ih =>
      rw [List.foldl_cons, ih]
      simp [SliBuilder.addLostMacroblock]
  · induction ws generalizing ms with
    | nil => simp
    | cons x xs ih => simp [List.foldl_cons, ih, CompoundBuilder.addPacket]

theorem nack_add_idempotent (b : NackBuilder) (s : UInt16) (h : b.rtpSeq.Pairwise (· < ·)) :
    (b.addRtpSequence s).addRtpSequence s = b.addRtpSequence s := by
  have _ := h
  simp only [NackBuilder.addRtpSequence, sortedInsert_idem]

theorem nack_add_comm (b : NackBuilder) (s t : UInt16) (h : b.rtpSeq.Pairwise (· < ·)) :
    (b.addRtpSequence s).addRtpSequence t = (b.addRtpSequence t).addRtpSequence s := by
  simp only [NackBuilder.addRtpSequence]
  congr 1
  apply sorted_ext
  · exact sortedInsert_pairwise _ _ (sortedInsert_pairwise _ _ h)
  · exact sortedInsert_pairwise _ _ (sortedInsert_pairwise _ _ h)
  · intro z
    simp only [sortedInsert_mem_iff]
    constructor
    · rintro (h | h | h) <;> simp [h]
    · rintro (h | h | h) <;> simp [h]

theorem nack_add_mem (b : NackBuilder) (s x : UInt16) :
    x ∈ (b.addRtpSequence s).rtpSeq ↔ x = s ∨ x ∈ b.rtpSeq := by
  simp only [NackBuilder.addRtpSequence, sortedInsert_mem_iff]

theorem fir_add_last_wins (b : FirBuilder) (k : UInt32) (v v' : UInt8) :
    (b.addSsrc k v).addSsrc k v' = b.addSsrc k v' := by
  simp only [FirBuilder.addSsrc, upsert_upsert_same]

theorem fir_add_comm (b : FirBuilder) (k k' : UInt32) (v v' : UInt8) (hne : k ≠ k')
    (hu : (b.ssrcSeq.map (·.1)).Nodup) :
    ((b.addSsrc k v).addSsrc k' v').ssrcSeq.Perm ((b.addSsrc k' v').addSsrc k v).ssrcSeq := by
  have _ := hu
  simp only [FirBuilder.addSsrc]
  exact upsert_upsert_perm k k' v v' hne b.ssrcSeq

theorem fir_image_perm (a b : FirBuilder) (h : a.ssrcSeq.Perm b.ssrcSeq) :
    (a.ssrcSeq.map firEntryImage).Perm (b.ssrcSeq.map firEntryImage) ∧ a.calcSize = b.calcSize := by
  refine ⟨h.map _, ?_⟩
  simp only [FirBuilder.calcSize, h.length_eq]

theorem compound_singleton (m : Writer) (img : Bytes) (h : Refines m img) :
    Refines (CompoundBuilder.toWriter [m]) img ∧
    (CompoundBuilder.toWriter [m]).calcSize = m.calcSize ∧
    (CompoundBuilder.toWriter [m]).getPadding = m.getPadding := by
  refine ⟨?_, ?_, ?_⟩
  · have := compound_refines [m] [img] ⟨rfl, by
      intro i h1 h2
      have : i = 0 := by simpa using h1
      subst this
      simpa using h⟩
    simpa using this
  · show CompoundBuilder.sizeLoop 0 [m] 0 0 = m.calcSize
    simp only [CompoundBuilder.sizeLoop]
    cases hc : m.calcSize with
    | ok n => simp
    | err e => rfl
    | panic => rfl
  · simp [CompoundBuilder.toWriter, CompoundBuilder.getPadding]

end Rtcp.Proofs
