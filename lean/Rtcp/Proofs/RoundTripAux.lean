/-
  Helper lemmas for the round-trip proofs: what the header reads of `Rtcp.Spec.Framing` and the
  parser helpers of utils.rs return on a `Spec.packet` image.
-/
import Rtcp.Spec.All
import Rtcp.Proofs.ReadLemmas
import Rtcp.Proofs.BufLemmas

namespace Rtcp.Proofs.RT
open Rtcp Rtcp.Impl Rtcp.Spec Rtcp.Proofs.Read

/-! ## big-endian round trips -/

theorem toUInt8_toNat_lt {n : Nat} (h : n < 256) : n.toUInt8.toNat = n := by
  simp [Nat.toUInt8, UInt8.toNat_ofNat']; omega

theorem fromBe32_be32 {ε : Type} (x : UInt32) : (fromBe32 (be32 x) : R ε UInt32) = .ok x := by
  have hx := x.toNat_lt
  simp only [be32, fromBe32]
  congr 1
  apply UInt32.toNat_inj.mp
  rw [toUInt8_toNat_lt (by omega), toUInt8_toNat_lt (by omega), toUInt8_toNat_lt (by omega),
    toUInt8_toNat_lt (by omega)]
  simp only [Nat.toUInt32, UInt32.toNat_ofNat']
  omega


theorem fromBe64_be64 {ε : Type} (x : UInt64) : (fromBe64 (be64 x) : R ε UInt64) = .ok x := by
  have hx := x.toNat_lt
  simp only [be64, be32, fromBe64, List.cons_append, List.nil_append]
  congr 1
  apply UInt64.toNat_inj.mp
  simp only [Nat.toUInt32, UInt32.toNat_ofNat', Nat.toUInt64, UInt64.toNat_ofNat']
  rw [toUInt8_toNat_lt (by omega), toUInt8_toNat_lt (by omega), toUInt8_toNat_lt (by omega),
    toUInt8_toNat_lt (by omega), toUInt8_toNat_lt (by omega), toUInt8_toNat_lt (by omega),
    toUInt8_toNat_lt (by omega), toUInt8_toNat_lt (by omega)]
  omega

/-! ## a packet image, byte by byte -/

/-- the first header octet -/
def b0 (pbit : Bool) (count : Nat) : UInt8 := (128 + (if pbit then 32 else 0) + count % 32).toUInt8

theorem b0_toNat (pbit : Bool) (count : Nat) :
    (b0 pbit count).toNat = 128 + (if pbit then 32 else 0) + count % 32 := by
  unfold b0
  apply toUInt8_toNat_lt
  split <;> omega

theorem packet_cons (pt : UInt8) (count : Nat) (p : UInt8) (body : Bytes) :
    packet pt count p body =
      b0 (p != 0) count :: pt ::
        ((((4 + body.length + (trailer p).length) / 4 - 1) % 65536).toUInt16.toNat / 256 % 256).toUInt8 ::
        ((((4 + body.length + (trailer p).length) / 4 - 1) % 65536).toUInt16.toNat % 256).toUInt8 ::
        (body ++ trailer p) := by
  simp [packet, header, be16, b0]


theorem version_packet (pt : UInt8) (c : Nat) (p : UInt8) (body : Bytes) :
    version (packet pt c p body) = 2 := by
  rw [packet_cons]
  simp only [version, List.getD_cons_zero, b0_toNat]
  split <;> omega

theorem ptype_packet (pt : UInt8) (c : Nat) (p : UInt8) (body : Bytes) :
    ptype (packet pt c p body) = pt := by
  rw [packet_cons]
  simp only [ptype, List.getD_cons_succ, List.getD_cons_zero]

theorem count_packet (pt : UInt8) (c : Nat) (p : UInt8) (body : Bytes) :
    count (packet pt c p body) = c % 32 := by
  rw [packet_cons]
  simp only [count, List.getD_cons_zero, b0_toNat]
  split <;> omega

theorem pbit_packet (pt : UInt8) (c : Nat) (p : UInt8) (body : Bytes) :
    pbit (packet pt c p body) = (p != 0) := by
  rw [packet_cons]
  simp only [pbit, List.getD_cons_zero, b0_toNat]
  cases (p != 0) <;> simp <;> omega

theorem lengthField_packet (pt : UInt8) (c : Nat) (p : UInt8) (body : Bytes)
    (hp : p.toNat % 4 = 0) (hb : body.length % 4 = 0) (hs : 4 + body.length + p.toNat ≤ 262144) :
    lengthField (packet pt c p body) = (packet pt c p body).length := by
  rw [packet_length, packet_cons, trailer_length]
  simp only [lengthField, List.getD_cons_succ, List.getD_cons_zero]
  have h1 : ((4 + body.length + p.toNat) / 4 - 1) % 65536 = (4 + body.length + p.toNat) / 4 - 1 := by
    omega
  rw [h1, toUInt16_toNat _ (by omega), toUInt8_toNat_lt (by omega), toUInt8_toNat_lt (by omega)]
  omega

theorem u8_ne_zero_toNat {p : UInt8} (h : p ≠ 0) : p.toNat ≠ 0 :=
  fun h' => h (UInt8.toNat_inj.mp (by simpa using h'))

theorem lastByte_packet (pt : UInt8) (c : Nat) (p : UInt8) (body : Bytes) (h : p ≠ 0) :
    lastByte (packet pt c p body) = p := by
  simp [lastByte, packet, trailer, h, List.getLastD_eq_getLast?]

theorem paddingOf_packet (pt : UInt8) (c : Nat) (p : UInt8) (body : Bytes) :
    paddingOf (packet pt c p body) = getPaddingOf p := by
  unfold paddingOf getPaddingOf
  rw [pbit_packet]
  by_cases h : p = 0
  · simp [h]
  · simp [h, lastByte_packet pt c p body h]

theorem padLen_packet (pt : UInt8) (c : Nat) (p : UInt8) (body : Bytes) :
    padLen (packet pt c p body) = p.toNat := by
  unfold padLen
  rw [paddingOf_packet]
  unfold getPaddingOf
  by_cases h : p = 0 <;> simp [h]


/-! ## reads in a decomposed byte string -/

theorem slice_decomp {ε : Type} {bs : Bytes} (pre mid post : Bytes) {a b : Nat}
    (h : bs = pre ++ mid ++ post) (ha : a = pre.length) (hb : b = a + mid.length) :
    (slice bs a b : R ε Bytes) = .ok mid := by
  subst h ha hb
  simp [slice, List.append_assoc, List.take_length_add_append]

theorem sliceS_decomp {ε : Type} {bs : Bytes} (pre mid post : Bytes) {base a b : Nat}
    (h : bs = pre ++ mid ++ post) (ha : a = pre.length) (hb : b = a + mid.length) :
    (sliceS base bs a b : R ε Slice) = .ok ⟨base + a, mid⟩ := by
  subst h ha hb
  simp [sliceS, List.append_assoc, List.take_length_add_append]

theorem idx_decomp {ε : Type} {bs : Bytes} (pre : Bytes) (x : UInt8) (post : Bytes) {i : Nat}
    (h : bs = pre ++ x :: post) (hi : i = pre.length) :
    (idx bs i : R ε UInt8) = .ok x := by
  subst h hi
  simp [idx]

theorem sliceFrom_decomp {ε : Type} {bs : Bytes} (pre post : Bytes) {a : Nat}
    (h : bs = pre ++ post) (ha : a = pre.length) :
    (sliceFrom bs a : R ε Bytes) = .ok post := by
  subst h ha
  simp [sliceFrom]

/-! ## the parser helpers on a packet image -/

/-- the side conditions under which `packet` is consistently framed -/
structure Fits (p : UInt8) (body : Bytes) : Prop where
  hpad : p.toNat % 4 = 0
  hbody : body.length % 4 = 0
  hsize : 4 + body.length + p.toNat ≤ 262144

theorem packet_len4 (pt : UInt8) (c : Nat) (p : UInt8) (body : Bytes) :
    4 ≤ (packet pt c p body).length := by
  rw [packet_length]; omega

theorem parsePadding_packet {ε : Type} (pt : UInt8) (c : Nat) (p : UInt8) (body : Bytes)
    (hf : Fits p body) :
    (parsePadding (packet pt c p body) : R ε (Option UInt8)) = .ok (getPaddingOf p) := by
  rw [parsePadding_ok _ (packet_len4 pt c p body)
    (lengthField_packet pt c p body hf.hpad hf.hbody hf.hsize), paddingOf_packet]

theorem parseCount_packet {ε : Type} (pt : UInt8) (c : Nat) (p : UInt8) (body : Bytes) :
    (parseCount (packet pt c p body) : R ε UInt8) = .ok (c % 32).toUInt8 := by
  rw [parseCount_ok _ (by have := packet_len4 pt c p body; omega), count_packet]

theorem hCount_eq {ε : Type} (d : Bytes) (h : 4 ≤ d.length) :
    (hCount d : R ε UInt8) = parseCount d := by
  match d, h with
  | a :: b :: c :: e :: rest, _ => simp [hCount, headerData, slice, parseCount, idx]

theorem hLength_eq {ε : Type} (d : Bytes) (h : 4 ≤ d.length) :
    (hLength d : R ε Nat) = parseLength d := by
  match d, h with
  | a :: b :: c :: e :: rest, _ => simp [hLength, headerData, slice, parseLength]

theorem hCount_packet {ε : Type} (pt : UInt8) (c : Nat) (p : UInt8) (body : Bytes) :
    (hCount (packet pt c p body) : R ε UInt8) = .ok (c % 32).toUInt8 := by
  rw [hCount_eq _ (packet_len4 pt c p body), parseCount_packet]

theorem hLength_packet {ε : Type} (pt : UInt8) (c : Nat) (p : UInt8) (body : Bytes)
    (hf : Fits p body) :
    (hLength (packet pt c p body) : R ε Nat) = .ok (packet pt c p body).length := by
  rw [hLength_eq _ (packet_len4 pt c p body), parseLength_ok _ (packet_len4 pt c p body),
    lengthField_packet pt c p body hf.hpad hf.hbody hf.hsize]

theorem checkPacket_packet (min : Nat) (pt : UInt8) (c : Nat) (p : UInt8) (body : Bytes)
    (h4 : 4 ≤ min) (hf : Fits p body) (hmin : min ≤ 4 + body.length + p.toNat) :
    checkPacket min pt (packet pt c p body) = .ok () := by
  rw [checkPacket_eval min pt _ h4, version_packet, ptype_packet,
    lengthField_packet pt c p body hf.hpad hf.hbody hf.hsize, pbit_packet, packet_length]
  have h1 : ¬ (4 + body.length + p.toNat < min) := by omega
  simp only [h1, if_false, ne_eq, not_true_eq_false, Nat.lt_irrefl, gt_iff_lt]
  by_cases h : p = 0
  · simp [h]
  · simp [h, lastByte_packet pt c p body h]

/-- the packet as header ++ body ++ trailer with an opaque 4-byte header -/
theorem packet_decomp (pt : UInt8) (c : Nat) (p : UInt8) (body : Bytes) :
    ∃ hdr : Bytes, hdr.length = 4 ∧ packet pt c p body = hdr ++ body ++ trailer p :=
  ⟨_, header_length _ _ _ _, rfl⟩


/-! ## chunks -/

theorem chunksExact_flatten (k : Nat) (hk : 0 < k) (ls : List Bytes) (h : ∀ l ∈ ls, l.length = k) :
    chunksExact k ls.flatten = ls := by
  induction ls with
  | nil => unfold chunksExact; simp; omega
  | cons l ls ih =>
    have hl : l.length = k := h l (by simp)
    unfold chunksExact
    have hc : 0 < k ∧ k ≤ (l :: ls).flatten.length := by simp; omega
    rw [dif_pos hc]
    simp only [List.flatten_cons]
    rw [← hl, List.take_left' rfl, List.drop_left' rfl, hl, ih (fun x hx => h x (by simp [hx]))]

theorem unwrapBlocks_ok {ε : Type} (ls : List Bytes) (h : ∀ l ∈ ls, l.length = 24) :
    (unwrapBlocks ls : R ε (List Bytes)) = .ok ls := by
  induction ls with
  | nil => rfl
  | cons l ls ih =>
    have hl : l.length = 24 := h l (by simp)
    unfold unwrapBlocks
    simp only [ReportBlock.parse, hl, Nat.lt_irrefl, if_false, gt_iff_lt]
    rw [ih (fun x hx => h x (by simp [hx]))]

theorem mapM_loop_be32 {ε : Type} (xs : List UInt32) (acc : List UInt32) :
    (List.mapM.loop (m := R ε) fromBe32 (xs.map be32) acc) = .ok (acc.reverse ++ xs) := by
  induction xs generalizing acc with
  | nil => simp [List.mapM.loop]
  | cons x xs ih =>
    simp only [List.map_cons, List.mapM.loop, fromBe32_be32, R.ok_bind]
    rw [ih]
    simp

theorem mapM_be32 {ε : Type} (xs : List UInt32) :
    ((xs.map be32).mapM fromBe32 : R ε (List UInt32)) = .ok xs := by
  simp [List.mapM, mapM_loop_be32]

end Rtcp.Proofs.RT
