/-
  Proofs: SDES, FCI, feedback and compound builders refine their RFC images.
-/
import Rtcp.Proofs.WritersFixed
import Rtcp.Proofs.VarFci

namespace Rtcp.Proofs
open Rtcp Rtcp.Impl Rtcp.Spec Rtcp.Props

/-! ## NACK: the sorted set -/

theorem mem_sortedInsert (x : UInt16) (l : List UInt16) :
    ∀ z, z ∈ sortedInsert x l → z = x ∨ z ∈ l := by
  induction l with
  | nil => intro z hz; simp [sortedInsert] at hz; exact .inl hz
  | cons y ys ih =>
    intro z hz
    unfold sortedInsert at hz
    split at hz
    · simp at hz; rcases hz with h | h | h <;> simp [h]
    · split at hz
      · exact .inr hz
      · simp at hz
        rcases hz with h | h
        · simp [h]
        · rcases ih z h with h | h <;> simp [h]

theorem sortedInsert_pairwise (x : UInt16) (l : List UInt16) (h : l.Pairwise (· < ·)) :
    (sortedInsert x l).Pairwise (· < ·) := by
  induction l with
  | nil => simp [sortedInsert]
  | cons y ys ih =>
    rw [List.pairwise_cons] at h
    unfold sortedInsert
    split
    · next hxy =>
      rw [List.pairwise_cons]
      refine ⟨?_, List.pairwise_cons.mpr h⟩
      intro z hz
      simp at hz
      rcases hz with rfl | hz
      · exact hxy
      · exact UInt16.lt_trans hxy (h.1 z hz)
    · next hxy =>
      split
      · exact List.pairwise_cons.mpr h
      · next hne =>
        rw [List.pairwise_cons]
        refine ⟨?_, ih h.2⟩
        intro z hz
        rcases mem_sortedInsert x ys z hz with rfl | hz
        · have h1 : ¬ z.toNat < y.toNat := fun hh => hxy (UInt16.lt_iff_toNat_lt.mpr hh)
          have h2 : z.toNat ≠ y.toNat := fun hh => hne (by simp [UInt16.toNat_inj.mp hh])
          exact UInt16.lt_iff_toNat_lt.mpr (by omega)
        · exact h.1 z hz

theorem nack_sorted_add (b : NackBuilder) (s : UInt16) (h : b.rtpSeq.Pairwise (· < ·)) :
    (b.addRtpSequence s).rtpSeq.Pairwise (· < ·) := sortedInsert_pairwise s b.rtpSeq h

/-! ## NACK: entries and writer -/

theorem encodeEntry_eq (base mask : Nat) :
    NackBuilder.encodeEntry base mask = nackWordImage ⟨base, mask⟩ := by
  simp only [NackBuilder.encodeEntry, nackWordImage, be16, Nat.toUInt16, UInt16.toNat_ofNat',
    List.cons_append, List.nil_append]
  have h1 : base % 2 ^ 16 / 256 % 256 = base / 256 % 256 := by omega
  have h2 : base % 2 ^ 16 % 256 = base % 256 := by omega
  have h3 : mask % 2 ^ 16 / 256 % 256 = mask / 256 % 256 := by omega
  have h4 : mask % 2 ^ 16 % 256 = mask % 256 := by omega
  rw [h1, h2, h3, h4]

theorem nack_go_eq (rest : List UInt16) : ∀ (base mask : Nat), (∀ e ∈ rest, base ≤ e.toNat) →
    rest.Pairwise (· < ·) →
    NackBuilder.go base mask rest
      = (nackEncodeFrom base mask (rest.map (·.toNat))).map nackWordImage := by
  induction rest with
  | nil => intro base mask _ _; simp [NackBuilder.go, nackEncodeFrom, encodeEntry_eq]
  | cons e rest ih =>
    intro base mask hb hp
    rw [List.pairwise_cons] at hp
    have he : base ≤ e.toNat := hb e (by simp)
    have hlt := e.toNat_lt
    have hd : (e.toNat + 65536 - base) % 65536 = e.toNat - base := by omega
    have hrest : ∀ x ∈ rest, base ≤ x.toNat := fun x hx => hb x (by simp [hx])
    have hrest' : ∀ x ∈ rest, e.toNat ≤ x.toNat := fun x hx =>
      Nat.le_of_lt (UInt16.lt_iff_toNat_lt.mp (hp.1 x hx))
    unfold NackBuilder.go
    simp only [List.map_cons, nackEncodeFrom, hd]
    by_cases h16 : e.toNat - base > 16
    · simp only [h16, ↓reduceIte, List.map_cons, encodeEntry_eq]
      rw [ih _ _ hrest' hp.2]
    · simp only [h16, ↓reduceIte]
      by_cases h0 : e.toNat - base > 0
      · have h0' : e.toNat > base := by omega
        simp only [h0, h0', ↓reduceIte, Nat.one_shiftLeft]
        exact ih _ _ hrest hp.2
      · have h0' : ¬ e.toNat > base := by omega
        simp only [h0, h0', ↓reduceIte]
        exact ih _ _ hrest hp.2

theorem nack_entries_eq_image (b : NackBuilder) (h : b.rtpSeq.Pairwise (· < ·)) :
    b.entries = (nackEncode (b.rtpSeq.map (·.toNat))).map nackWordImage := by
  unfold NackBuilder.entries
  split
  · next heq => simp [heq, nackEncode]
  · next s rest heq =>
    rw [heq] at h ⊢
    rw [List.pairwise_cons] at h
    simp only [List.map_cons, nackEncode]
    exact nack_go_eq rest _ _
      (fun x hx => Nat.le_of_lt (UInt16.lt_iff_toNat_lt.mp (h.1 x hx))) h.2

theorem nack_writeEntries (es : List Bytes) : ∀ (d r : Bytes) (i : Nat), i = d.length →
    (∀ e ∈ es, e.length = 4) → 4 * es.length ≤ r.length →
    NackBuilder.writeEntries es (d ++ r) i
      = .ok ((d ++ es.flatten) ++ r.drop (4 * es.length), i + 4 * es.length) := by
  induction es with
  | nil => intro d r i hi _ _; simp [NackBuilder.writeEntries]
  | cons e es ih =>
    intro d r i hi h4 hr
    simp only [List.length_cons] at hr
    have he : e.length = 4 := h4 e (by simp)
    unfold NackBuilder.writeEntries
    rw [Var.copyAt_app d r e i (i + 4) hi (by simp [hi, he]) (by omega)]
    simp only
    rw [ih _ _ (i + 4) (by simp [hi, he]) (fun x hx => h4 x (by simp [hx])) (by simp; omega)]
    simp [List.drop_drop, he]
    constructor
    · congr 1; omega
    · omega

theorem nackWordImage_length (w : NackWord) : (nackWordImage w).length = 4 := rfl

theorem nackImage_length (b : NackBuilder) (h : b.rtpSeq.Pairwise (· < ·)) :
    (nackImage b).length = 4 * b.entries.length := by
  rw [nack_entries_eq_image b h, nackImage]
  generalize nackEncode _ = ws
  induction ws with
  | nil => rfl
  | cons w ws ih => simp [nackWordImage_length] at ih ⊢; omega

theorem nack_tail (b : NackBuilder) (h : b.rtpSeq.Pairwise (· < ·)) :
    Var.TailSpec b.toFci.w.write (nackImage b) := by
  intro r hr
  rw [nackImage_length b h] at hr ⊢
  show NackBuilder.writeEntries b.entries r 0 = _
  have := nack_writeEntries b.entries [] r 0 rfl
    (by rw [nack_entries_eq_image b h]; intro e he; simp at he; obtain ⟨w, _, rfl⟩ := he; rfl) hr
  simp only [List.nil_append, Nat.zero_add] at this
  rw [this, nack_entries_eq_image b h, nackImage]

theorem nack_refines (b : NackBuilder) (h : b.rtpSeq.Pairwise (· < ·)) : Refines b.toFci.w (nackImage b) := by
  apply Var.refines_of_tail
  · show b.calcSize ≠ .panic
    simp only [NackBuilder.calcSize]; split <;> simp
  · intro n hn
    refine ⟨?_, nack_tail b h⟩
    simp only [NackBuilder.calcSize] at hn
    split at hn
    · cases hn
    · cases hn
      rw [nackImage_length b h]; omega

theorem fir_refines (b : FirBuilder) : Refines b.toFci.w (firImage b) := by
  apply Var.refines_of_tail
  · show b.calcSize ≠ .panic
    simp only [FirBuilder.calcSize]; split <;> simp
  · intro n hn
    refine ⟨?_, Var.fir_tail b⟩
    simp only [FirBuilder.calcSize] at hn
    split at hn
    · cases hn
    · cases hn
      rw [firImage, Var.length_firImage]; omega

theorem sli_refines (b : SliBuilder) : Refines b.toFci.w (sliImage b) := by
  apply Var.refines_of_tail
  · show b.calcSize ≠ .panic
    simp [SliBuilder.calcSize]
  · intro n hn
    refine ⟨?_, Var.sli_tail b⟩
    unfold SliBuilder.calcSize at hn
    cases hn
    rw [sliImage, Var.length_sliImage]

/-! ## RPSI -/

theorem zeroLoop_app (k : Nat) : ∀ (d r : Bytes) (i : Nat), i = d.length → k ≤ r.length →
    RpsiBuilder.zeroLoop k (d ++ r) i = .ok ((d ++ List.replicate k 0) ++ r.drop k, i + k) := by
  induction k with
  | zero => intro d r i _ _; simp [RpsiBuilder.zeroLoop]
  | succ k ih =>
    intro d r i hi hr
    unfold RpsiBuilder.zeroLoop
    rw [Var.setByte_app d r i 0 hi (by omega)]
    simp only
    rw [ih _ _ (i + 1) (by simp [hi]) (by simp; omega)]
    simp [List.replicate_succ]
    omega

theorem rpsiImage_length (b : RpsiBuilder) :
    (rpsiImage b).length = pad4 (2 + b.nativeBitString.length) := by
  have hp := Var.pad4_ge (2 + b.nativeBitString.length)
  unfold rpsiImage
  rcases List.eq_nil_or_concat b.nativeBitString with h | ⟨init, l, h⟩
  · simp [h]; simp [h] at hp; omega
  · rw [h] at hp ⊢
    simp at hp ⊢
    omega

theorem rpsi_tail (b : RpsiBuilder) : Var.TailSpec b.toFci.w.write (rpsiImage b) := by
  intro r hr
  rw [rpsiImage_length] at hr ⊢
  have hp := Var.pad4_ge (2 + b.nativeBitString.length)
  show b.writeUnchecked r = _
  unfold RpsiBuilder.writeUnchecked
  simp only [bind, R.bind, pure]
  have h0 := Var.setByte_app (ε := WriteError) [] r 0
    ((8 * (pad4 (2 + b.nativeBitString.length) - b.nativeBitString.length - 2)
      + b.nativeBitOverrun.toNat) % 256).toUInt8 rfl (by omega)
  simp only [List.nil_append] at h0
  rw [h0]
  simp only
  rw [Var.setByte_app _ _ 1 b.payloadType (by simp) (by simp; omega)]
  simp only
  rw [Var.copyAt_app _ _ b.nativeBitString 2 _ (by simp) (by simp) (by simp; omega)]
  simp only
  generalize hv0 : ((8 * (pad4 (2 + b.nativeBitString.length) - b.nativeBitString.length - 2)
      + b.nativeBitOverrun.toNat) % 256).toUInt8 = v0
  rcases List.eq_nil_or_concat b.nativeBitString with h | ⟨init, l, h⟩
  · simp only [h, List.isEmpty_nil, Bool.not_true, Bool.false_eq_true, ↓reduceIte]
    rw [zeroLoop_app _ _ _ _ (by simp) (by simp [h] at hr hp ⊢; omega)]
    subst hv0
    simp [rpsiImage, h, List.drop_drop, show pad4 2 = 4 from rfl]
  · rw [List.concat_eq_append] at h
    have hne : (!b.nativeBitString.isEmpty) = true := by simp [h]
    simp only [hne, ↓reduceIte]
    subst hv0
    simp only [rpsiImage, h, List.length_append, List.length_singleton] at hr hp ⊢
    have e1 : ∀ (v : UInt8) (t : Bytes), [v] ++ [b.payloadType] ++ (init ++ [l]) ++ t
        = ([v, b.payloadType] ++ init) ++ l :: t := by intro v t; simp
    rw [e1]
    rw [Var.idx_app _ _ _ _ (by simp; omega)]
    simp only
    rw [Var.setByte_mid _ _ _ _ _ (by simp; omega)]
    simp only
    have e2 : ∀ (d t : Bytes) (x : UInt8), d ++ x :: t = (d ++ [x]) ++ t := by intro d t x; simp
    rw [e2, zeroLoop_app _ _ _ _ (by simp; omega) (by simp; omega)]
    simp [List.drop_drop]
    refine ⟨?_, by omega⟩
    congr 2 <;> omega

theorem rpsi_refines (b : RpsiBuilder) : Refines b.toFci.w (rpsiImage b) := by
  apply Var.refines_of_tail
  · show b.calcSize ≠ .panic
    unfold RpsiBuilder.calcSize; split
    · simp
    · split <;> simp
  · intro n hn
    refine ⟨?_, rpsi_tail b⟩
    unfold RpsiBuilder.calcSize at hn
    split at hn
    · cases hn
    · split at hn
      · cases hn
      · cases hn
        exact rpsiImage_length b

theorem pli_refines : Refines pliFci.w [] := by
  apply Var.refines_of_tail
  · simp
  · intro n hn
    cases hn
    exact ⟨rfl, Var.pli_tail⟩

/-! ## feedback packets -/

theorem fbType_and_comm (a b : FbType) : FbType.and a b = FbType.and b a := by
  simp [FbType.and, Bool.and_comm]

/-- what the feedback writer needs from an FCI builder -/
structure FciGood (fci : Fci) (img : Bytes) : Prop where
  fmt : fci.format.toNat ≤ 31
  noPanic : fci.w.calcSize ≠ .panic
  size : ∀ n, fci.w.calcSize = .ok n → img.length = n ∧ n % 4 = 0
  tail : Var.TailSpec fci.w.write img

theorem fb_refines_gen (k : FbKind) (fci : Fci) (img : Bytes) (hg : FciGood fci img)
    (p : UInt8) (s m : UInt32) :
    Refines (FbBuilder.toWriter ⟨k, fci, p, s, m⟩)
      (packet k.pt fci.format.toNat p (be32 s ++ be32 m ++ img)) := by
  rcases checkPadding_cases p with ⟨hp, hcp⟩ | ⟨hp, hcp⟩
  case inr =>
    exact refines_of_err (e := .invalidPadding p) (by
      show FbBuilder.calcSize _ = _
      simp only [FbBuilder.calcSize, hcp, R.err_bind])
  by_cases hty : (FbType.and fci.supports k.ty == FbType.none) = true
  · exact refines_of_err (e := .fciWrongFeedbackPacketType) (by
      show FbBuilder.calcSize _ = _
      simp only [FbBuilder.calcSize, hcp, R.ok_bind, hty, ↓reduceIte])
  cases hcs : fci.w.calcSize with
  | panic => exact absurd hcs hg.noPanic
  | err e =>
    exact refines_of_err (e := e) (by
      show FbBuilder.calcSize _ = _
      simp only [FbBuilder.calcSize, hcp, R.ok_bind, hty, hcs, R.err_bind]
      rfl)
  | ok n =>
    obtain ⟨hl, hn4⟩ := hg.size n hcs
    have hpad : pad4 n = n := Var.pad4_of_mod hn4
    have hcalc : FbBuilder.calcSize ⟨k, fci, p, s, m⟩ = checkPacketLen (12 + n + p.toNat) := by
      simp only [FbBuilder.calcSize, hcp, R.ok_bind, hty, hcs, hpad]
      rfl
    unfold checkPacketLen at hcalc
    split at hcalc
    · exact refines_of_err hcalc
    · refine refines_of_ok hcalc ?_ ?_
      · simp [packet_length, hl]; omega
      · intro buf hb
        show FbBuilder.writeUnchecked _ buf = _
        have hty' : ¬ (FbType.and k.ty fci.supports == FbType.none) = true := by
          rw [fbType_and_comm]; exact hty
        have hfmt : ¬ fci.format > 0x1f := by
          have := hg.fmt
          simp [UInt8.lt_iff_toNat_lt]; omega
        simp only [FbBuilder.writeUnchecked, hty', hfmt, ↓reduceIte, Bool.false_eq_true]
        rw [writeHeader_spec _ _ _ _ (by omega) hg.fmt]
        simp only [R.ok_bind]
        rw [copyAt_append (by simp) (by simp) (by simp; omega)]
        simp only [R.ok_bind]
        rw [copyAt_append (by simp) (by simp) (by simp; omega)]
        simp only [R.ok_bind]
        rw [withTail_append (by simp) (hg.tail _ (by simp; omega))]
        simp only [R.ok_bind]
        rw [← List.append_assoc]
        rw [withTail_writePadding_final _ (by simp; omega) (by simp; omega)]
        simp only [R.ok_bind, R.pure_eq]
        rw [← packet_eq _ _ _ _ (total := buf.length) (by simp; omega)]
        simp [List.append_assoc, hl]

theorem fciGood_of_refines {fci : Fci} {img : Bytes} (hfmt : fci.format.toNat ≤ 31)
    (hr : Refines fci.w img) (h4 : img.length % 4 = 0) (ht : Var.TailSpec fci.w.write img) :
    FciGood fci img :=
  ⟨hfmt, hr.noPanic, fun n hn => by have := (hr.exact n hn).1; exact ⟨this, by omega⟩, ht⟩

theorem fb_refines (k : FbKind) (f : FciB)
    (hf : match f with | .nack b => b.rtpSeq.Pairwise (· < ·) | _ => True) (p : UInt8) (s m : UInt32) :
    Refines (FbBuilder.toWriter ⟨k, f.toFci, p, s, m⟩) (fbImage k f p s m) := by
  unfold fbImage
  cases f with
  | nack b =>
    exact fb_refines_gen k _ _ (fciGood_of_refines (by simp [NackBuilder.toFci]) (nack_refines b hf)
      (by rw [nackImage_length b hf]; omega) (nack_tail b hf)) p s m
  | fir b =>
    exact fb_refines_gen k _ _ (fciGood_of_refines (by simp [FirBuilder.toFci]) (fir_refines b)
      (by rw [firImage, Var.length_firImage]; omega) (Var.fir_tail b)) p s m
  | sli b =>
    exact fb_refines_gen k _ _ (fciGood_of_refines (by simp [SliBuilder.toFci]) (sli_refines b)
      (by rw [sliImage, Var.length_sliImage]; omega) (Var.sli_tail b)) p s m
  | rpsi b =>
    exact fb_refines_gen k _ _ (fciGood_of_refines (by simp [RpsiBuilder.toFci]) (rpsi_refines b)
      (by rw [rpsiImage_length]; exact Var.pad4_mod _) (rpsi_tail b)) p s m
  | pli =>
    exact fb_refines_gen k _ _ (fciGood_of_refines (by decide) pli_refines rfl Var.pli_tail) p s m

end Rtcp.Proofs
