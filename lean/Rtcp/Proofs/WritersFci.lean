/-
  Proofs: SDES, FCI, feedback and compound builders refine their RFC images.
-/
import Rtcp.Proofs.WritersFixed
import Rtcp.Proofs.VarFci

namespace Rtcp.Proofs
open Rtcp Rtcp.Impl Rtcp.Spec Rtcp.Props

theorem nack_sorted_add (b : NackBuilder) (s : UInt16) (h : b.rtpSeq.Pairwise (· < ·)) :
    (b.addRtpSequence s).rtpSeq.Pairwise (· < ·) := by sorry

theorem nack_refines (b : NackBuilder) (h : b.rtpSeq.Pairwise (· < ·)) : Refines b.toFci.w (nackImage b) := by sorry

theorem fir_refines (b : FirBuilder) : Refines b.toFci.w (firImage b) := by sorry

theorem sli_refines (b : SliBuilder) : Refines b.toFci.w (sliImage b) := by sorry

theorem rpsi_refines (b : RpsiBuilder) : Refines b.toFci.w (rpsiImage b) := by sorry

theorem pli_refines : Refines pliFci.w [] := by sorry

theorem fb_refines (k : FbKind) (f : FciB)
    (hf : match f with | .nack b => b.rtpSeq.Pairwise (· < ·) | _ => True) (p : UInt8) (s m : UInt32) :
    Refines (FbBuilder.toWriter ⟨k, f.toFci, p, s, m⟩) (fbImage k f p s m) := by sorry

end Rtcp.Proofs
