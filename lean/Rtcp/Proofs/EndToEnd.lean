/-
  Proofs: end-to-end compositions (C05), remaining error clauses (C18), generic-parser padding (C13),
  iterator offsets (C11), SDES bounds (C01).
-/
import Rtcp.Spec.All
import Rtcp.Props.Writers
import Rtcp.Proofs.Parsers
import Rtcp.Proofs.Sdes
import Rtcp.Proofs.Fci
import Rtcp.Proofs.CompoundParse
import Rtcp.Proofs.RoundTrip
import Rtcp.Proofs.Padding
import Rtcp.Proofs.Rules

namespace Rtcp.Proofs
open Rtcp Rtcp.Impl Rtcp.Spec Rtcp.Props

/-! ## small helpers -/

theorem e2e_map_u16 (l : List UInt16) : (l.map (·.toNat)).map Nat.toUInt16 = l := by
  induction l with
  | nil => rfl
  | cons x xs ih =>
    simp only [List.map_cons, ih]
    congr 1
    apply UInt16.toNat_inj.mp
    simp only [Nat.toUInt16, UInt16.toNat_ofNat']
    have := x.toNat_lt
    omega

theorem e2e_u8_id (x : UInt8) : x.toNat.toUInt8 = x := by
  apply UInt8.toNat_inj.mp
  simp only [Nat.toUInt8, UInt8.toNat_ofNat']
  have := x.toNat_lt
  omega

theorem e2e_u16_id (x : UInt16) : x.toNat.toUInt16 = x := by
  apply UInt16.toNat_inj.mp
  simp only [Nat.toUInt16, UInt16.toNat_ofNat']
  have := x.toNat_lt
  omega

theorem e2e_u32_id (x : UInt32) : x.toNat.toUInt32 = x := by
  apply UInt32.toNat_inj.mp
  simp only [Nat.toUInt32, UInt32.toNat_ofNat']
  have := x.toNat_lt
  omega

theorem e2e_map_fir (l : List (UInt32 × UInt8)) :
    (l.map (fun (s, q) => (s.toNat, q.toNat))).map (fun (s, q) => (s.toUInt32, q.toUInt8)) = l := by
  induction l with
  | nil => rfl
  | cons x xs ih =>
    obtain ⟨a, b⟩ := x
    simp only [List.map_cons, ih, e2e_u32_id, e2e_u8_id]

theorem e2e_map_sli (l : List MacroBlockEntry) :
    (l.map (fun e => (e.start.toNat, e.count.toNat, e.pictureId.toNat))).map
      (fun (a, b, c) => (⟨a.toUInt16, b.toUInt16, c.toUInt8⟩ : MacroBlockEntry)) = l := by
  induction l with
  | nil => rfl
  | cons x xs ih =>
    obtain ⟨a, b, c⟩ := x
    simp only [List.map_cons, ih, e2e_u16_id, e2e_u8_id]

/-- the accepted RPSI image passes the RPSI FCI parser -/
theorem e2e_rpsi_parse (b : RpsiBuilder) (h : rpsiRules b = []) : Rpsi.parse (rpsiImage b) = .ok (rpsiImage b) := by
  rw [rpsi_parse_ok_iff]
  have hl := rpsiImage_len b
  have hp := pad4_bounds (2 + b.nativeBitString.length)
  have hp4 : pad4 (2 + b.nativeBitString.length) % 4 = 0 := by unfold pad4; omega
  obtain ⟨pt, data, k⟩ := b
  simp only [rpsiRules, List.append_eq_nil_iff, ite_eq_right_iff, List.cons_ne_self, imp_false,
    not_or, not_and] at h
  obtain ⟨_, hk, hemp⟩ := h
  simp only at hl hp hp4 hk hemp
  refine ⟨rfl, by omega, ?_⟩
  rw [hl]
  simp only [rpsiImage, u8At, List.cons_append, List.getD_cons_zero]
  rw [toUInt8_toNat_lt _ (by omega)]
  by_cases hd : data = []
  · have := hemp hd
    subst hd
    simp only [List.length_nil] at hp ⊢
    omega
  · have : 0 < data.length := List.length_pos_iff.mpr hd
    omega

/-! ## C05 end to end -/

theorem fb_nack_end_to_end {ε : Type} (b : NackBuilder) (hs : NackSorted b) (p : UInt8) (s m : UInt32)
    (h : fbRules .transport (.nack b) p = []) :
    let img := fbImage .transport (.nack b) p s m
    Fb.parse .transport img = .ok img ∧
    ∃ d, Fb.parseFci .transport .nack img = .ok d ∧
      (Nack.entries d : R ε (List UInt16 × Bool)) = .ok (b.rtpSeq, true) := by
  intro img
  obtain ⟨hp, _, _, _, _, hfci⟩ := fb_roundtrip (ε := ε) .transport (.nack b) hs p s m h
  refine ⟨hp, nackImage b, ?_, ?_⟩
  · exact hfci.trans (nack_parse_ok _)
  · rw [nack_entries_eq, show nackImage b = nackImage ⟨b.rtpSeq⟩ from rfl, nack_roundtrip b.rtpSeq hs,
      e2e_map_u16]

theorem e2e_fciRules {k : FbKind} {f : FciB} {p : UInt8} (h : fbRules k f p = []) : fciRules f = [] := by
  unfold fbRules at h
  simp only [List.append_eq_nil_iff] at h
  exact h.1.2

theorem fb_fir_end_to_end {ε : Type} (b : FirBuilder) (hne : b.ssrcSeq ≠ []) (p : UInt8) (s m : UInt32)
    (h : fbRules .payload (.fir b) p = []) :
    let img := fbImage .payload (.fir b) p s m
    Fb.parse .payload img = .ok img ∧
    ∃ d, Fb.parseFci .payload .fir img = .ok d ∧
      (Fir.entries d : R ε (List (UInt32 × UInt8) × Bool)) = .ok (b.ssrcSeq, true) := by
  intro img
  obtain ⟨hp, _, _, _, _, hfci⟩ := fb_roundtrip (ε := ε) .payload (.fir b) trivial p s m h
  refine ⟨hp, firImage b, ?_, ?_⟩
  · refine hfci.trans ((fir_parse_ok_iff _ _).mpr ⟨rfl, ?_⟩)
    have hl : (firImage b).length = 8 * b.ssrcSeq.length := firImage_len b.ssrcSeq
    have : 0 < b.ssrcSeq.length := List.length_pos_iff.mpr hne
    show 8 ≤ (firImage b).length
    omega
  · rw [fir_entries_eq, show firImage b = firImage ⟨b.ssrcSeq⟩ from rfl, fir_roundtrip, e2e_map_fir]

theorem fb_sli_end_to_end {ε : Type} (b : SliBuilder) (hne : b.lostMbs ≠ [])
    (hr : ∀ e ∈ b.lostMbs, e.start.toNat < 8192 ∧ e.count.toNat < 8192 ∧ e.pictureId.toNat < 64)
    (p : UInt8) (s m : UInt32) (h : fbRules .payload (.sli b) p = []) :
    let img := fbImage .payload (.sli b) p s m
    Fb.parse .payload img = .ok img ∧
    ∃ d, Fb.parseFci .payload .sli img = .ok d ∧
      (Sli.lostMacroblocks d : R ε (List MacroBlockEntry × Bool)) = .ok (b.lostMbs, true) := by
  intro img
  obtain ⟨hp, _, _, _, _, hfci⟩ := fb_roundtrip (ε := ε) .payload (.sli b) trivial p s m h
  refine ⟨hp, sliImage b, ?_, ?_⟩
  · refine hfci.trans ((sli_parse_ok_iff _ _).mpr ⟨rfl, ?_⟩)
    have hl : (sliImage b).length = 4 * b.lostMbs.length := sliImage_len b.lostMbs
    have : 0 < b.lostMbs.length := List.length_pos_iff.mpr hne
    show 4 ≤ (sliImage b).length
    omega
  · rw [sli_entries_eq, show sliImage b = sliImage ⟨b.lostMbs⟩ from rfl, sli_roundtrip _ hr, e2e_map_sli]

theorem fb_rpsi_end_to_end {ε : Type} (b : RpsiBuilder) (p : UInt8) (s m : UInt32)
    (h : fbRules .payload (.rpsi b) p = []) :
    let img := fbImage .payload (.rpsi b) p s m
    Fb.parse .payload img = .ok img ∧
    ∃ d sl k, Fb.parseFci .payload .rpsi img = .ok d ∧
      (Rpsi.payloadType d : R ε UInt8) = .ok b.payloadType ∧
      (Rpsi.bitString 0 d : R ε (Slice × Nat)) = .ok (sl, k) ∧
      (bitsOf sl.bytes).take (8 * sl.bytes.length - k) = rpsiBits b.nativeBitString b.nativeBitOverrun.toNat := by
  intro img
  obtain ⟨hp, _, _, _, _, hfci⟩ := fb_roundtrip (ε := ε) .payload (.rpsi b) trivial p s m h
  have hr : rpsiRules b = [] := e2e_fciRules h
  have hparse := e2e_rpsi_parse b hr
  obtain ⟨pt, bits, sl, k, hdec, hpt, hbs, hbits, _⟩ := rpsi_decode_eq (ε := ε) (rpsiImage b) hparse
  rw [rpsi_roundtrip b hr] at hdec
  simp only [Option.some.injEq, Prod.mk.injEq] at hdec
  obtain ⟨rfl, rfl⟩ := hdec
  refine ⟨hp, rpsiImage b, sl, k, hfci.trans hparse, ?_, hbs, hbits⟩
  rw [hpt, e2e_u8_id]

theorem fb_pli_end_to_end (p : UInt8) (s m : UInt32) (h : fbRules .payload .pli p = []) :
    let img := fbImage .payload .pli p s m
    Fb.parse .payload img = .ok img ∧ Fb.parseFci .payload .pli img = .ok [] := by
  intro img
  obtain ⟨hp, _, _, _, _, hfci⟩ := fb_roundtrip (ε := Unit) .payload .pli trivial p s m h
  exact ⟨hp, hfci.trans ((pli_parse_ok_iff _ _).mpr ⟨rfl, rfl⟩)⟩

end Rtcp.Proofs
