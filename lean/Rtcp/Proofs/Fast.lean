/-
  The linear-time drivers of `Rtcp/Impl/Fast.lean` compute exactly what the model's own iterator
  drivers compute, for every input.
-/
import Rtcp.Impl.Fast
import Rtcp.Proofs.FciLemmas
import Rtcp.Proofs.FciNack
import Rtcp.Proofs.FciDecode
import Rtcp.Proofs.CompoundParse

namespace Rtcp.Proofs
open Rtcp Rtcp.Impl Rtcp.Spec

/-! ## NACK -/

theorem fast_nackWord_eq (a b c e : UInt8) :
    Fast.nackWord a b c e
      = (NackWord.decode ⟨a.toNat * 256 + b.toNat, c.toNat * 256 + e.toNat⟩).map Nat.toUInt16 := by
  simp [Fast.nackWord, NackWord.decode, List.map_map, Function.comp_def]

theorem fast_nackGo_eq (d : Bytes) : ∀ acc : List UInt16,
    Fast.nackGo d acc = acc.reverse ++ (nackDecode d).map Nat.toUInt16 := by
  fun_induction words32 d with
  | case1 a b c e rest ih =>
    intro acc
    rw [Fast.nackGo, ih, nackDecode_cons4, fast_nackWord_eq]
    simp
  | case2 l hl =>
    intro acc
    have h1 : Fast.nackGo l acc = acc.reverse := by
      unfold Fast.nackGo
      split
      · exact absurd rfl (hl _ _ _ _ _)
      · rfl
    have h2 : words32 l = [] := by
      unfold words32
      split
      · exact absurd rfl (hl _ _ _ _ _)
      · rfl
    simp [h1, nackDecode, h2]

theorem fast_nack_eq {ε} (d : Bytes) : (Fast.nackEntries d : R ε _) = Nack.entries d := by
  rw [nack_entries_eq, Fast.nackEntries, fast_nackGo_eq]
  simp

/-! ## FIR -/

theorem fast_firGo_eq (d : Bytes) : ∀ acc : List (UInt32 × UInt8),
    Fast.firGo d acc = acc.reverse ++ (words64 d).map firG := by
  fun_induction words64 d with
  | case1 a b c e f g h k rest ih =>
    intro acc
    rw [Fast.firGo, ih]
    simp [firG]
  | case2 l hl =>
    intro acc
    have h1 : Fast.firGo l acc = acc.reverse := by
      unfold Fast.firGo
      split
      · exact absurd rfl (hl _ _ _ _ _ _ _ _ _)
      · rfl
    simp [h1]

theorem fast_fir_eq {ε} (d : Bytes) : (Fast.firEntries d : R ε _) = Fir.entries d := by
  unfold Fir.entries
  rw [fir_collect d _ 0 [] (by omega), Fast.firEntries, fast_firGo_eq]
  simp

/-! ## SLI -/

theorem fast_sliGo_eq (d : Bytes) : ∀ acc : List MacroBlockEntry,
    Fast.sliGo d acc = acc.reverse ++ (words32 d).map sliG := by
  fun_induction words32 d with
  | case1 a b c e rest ih =>
    intro acc
    rw [Fast.sliGo, ih]
    simp [sliG]
  | case2 l hl =>
    intro acc
    have h1 : Fast.sliGo l acc = acc.reverse := by
      unfold Fast.sliGo
      split
      · exact absurd rfl (hl _ _ _ _ _)
      · rfl
    simp [h1]

theorem fast_sli_eq {ε} (d : Bytes) : (Fast.sliEntries d : R ε _) = Sli.lostMacroblocks d := by
  unfold Sli.lostMacroblocks
  rw [sli_collect d _ 0 [] (by omega), Fast.sliEntries, fast_sliGo_eq]
  simp

/-! ## Compound -/

theorem parseLength_cons4 {ε : Type} (a b x y : UInt8) (t : Bytes) :
    (parseLength (a :: b :: x :: y :: t) : R ε Nat) = .ok (4 * (x.toNat * 256 + y.toNat + 1)) := by
  have hx := x.toNat_lt
  have hy := y.toNat_lt
  have : (x.toNat * 256 + y.toNat) % 65536 = x.toNat * 256 + y.toNat := by omega
  simp [parseLength, slice, fromBe16, Nat.toUInt16, this]

theorem parseLength_short {ε : Type} (l : Bytes) (h : l.length < 4) :
    (parseLength l : R ε Nat) = .panic := by
  have : ¬ (4 ≤ l.length) := by omega
  simp [parseLength, slice, this]

theorem fast_compoundGo_eq {ε : Type} (data : Bytes) : ∀ (fuel off : Nat) (over : Bool)
    (acc : List (R ParseError Packet × Nat)),
    (Fast.compoundGo data data.length fuel (data.drop off) off over acc : R ε _)
      = Compound.collect fuel ⟨data, off, over⟩ acc.reverse := by
  intro fuel
  induction fuel with
  | zero => intro off over acc; rfl
  | succ fuel ih =>
    intro off over acc
    unfold Fast.compoundGo Compound.collect Compound.next
    cases over with
    | true => simp
    | false =>
      simp only [Bool.false_eq_true, if_false]
      have hlen : (data.drop off).length = data.length - off := List.length_drop
      by_cases hoff : off ≤ data.length
      · rw [sliceFrom_le hoff]
        simp only [R.ok_bind]
        split
        · rename_i a b x y t hr
          have hl4 := congrArg List.length hr
          simp only [List.length_cons] at hl4
          have hpl : (parseLength (data.drop off) : R ε Nat) = .ok (4 * (x.toNat * 256 + y.toNat + 1)) := by
            rw [hr]; exact parseLength_cons4 a b x y t
          rw [hpl]
          simp only [R.ok_bind]
          by_cases hfit : off + 4 * (x.toNat * 256 + y.toNat + 1) ≤ data.length
          · have ht : (slice data off (off + 4 * (x.toNat * 256 + y.toNat + 1)) : R ε Bytes) =
                .ok ((data.drop off).take (4 * (x.toNat * 256 + y.toNat + 1))) := by
              unfold slice
              rw [if_pos ⟨by omega, hfit⟩, List.drop_take]
              congr 2
              omega
            rw [if_pos hfit, ht]
            simp only [R.ok_bind]
            generalize Packet.parse ((data.drop off).take (4 * (x.toNat * 256 + y.toNat + 1))) = res
            cases res with
            | panic => rfl
            | ok p =>
              simp only [R.pure_eq]
              rw [List.drop_drop, ih]
              simp
            | err e =>
              simp only [R.pure_eq]
              rw [List.drop_drop, ih]
              simp
          · have ht : (slice data off (off + 4 * (x.toNat * 256 + y.toNat + 1)) : R ε Bytes) = .panic := by
              unfold slice
              rw [if_neg (by omega)]
            rw [if_neg hfit, ht]
            rfl
        · rename_i hno
          have hshort : (data.drop off).length < 4 := by
            generalize data.drop off = l at hno
            match l, hno with
            | [], _ | [_], _ | [_, _], _ | [_, _, _], _ => simp
            | a :: b :: x :: y :: t, hno => exact absurd rfl (hno a b x y t)
          rw [parseLength_short _ hshort]
          rfl
      · have hs : (sliceFrom data off : R ε Bytes) = .panic := by
          unfold sliceFrom; rw [if_neg hoff]
        have hnil : data.drop off = [] := List.drop_eq_nil_of_le (by omega)
        rw [hs, hnil]
        rfl

theorem fast_compound_eq' {ε} (fuel : Nat) (c : Compound) :
    (Fast.compoundCollect fuel c : R ε _) = Compound.collect fuel c [] := by
  unfold Fast.compoundCollect
  rw [fast_compoundGo_eq]
  rfl

/-- the stated form; the side condition is not needed (`fast_compound_eq'`) -/
theorem fast_compound_eq {ε} (fuel : Nat) (c : Compound) (h : c.offset ≤ c.data.length) :
    (Fast.compoundCollect fuel c : R ε _) = Compound.collect fuel c [] := by
  have _ := h
  exact fast_compound_eq' fuel c

/-! ## Compound.parse -/

theorem fast_parseGo_eq (d : Bytes) (off : Nat) :
    Fast.parseGo d.length (d.drop off) off = Compound.parseLoop d off := by
  have hlen : (d.drop off).length = d.length - off := List.length_drop
  fun_induction Compound.parseLoop d off with
  | case1 off hlt h4 =>
    have hshort : (d.drop off).length < 4 := by omega
    unfold Fast.parseGo
    rw [if_pos hlt]
    split
    · rename_i a b x y t hr
      have := congrArg List.length hr
      simp only [List.length_cons] at this
      omega
    · rfl
  | case2 off hlt h4 rest hs pl hl hpl =>
    cases sliceFrom_ok_inv hs
    obtain ⟨a, b, x, y, t, hr⟩ := exists_cons4 (l := d.drop off) (by omega)
    rw [hr, parseLength_cons4] at hl
    cases hl
    unfold Fast.parseGo
    rw [if_pos hlt, hr]
    simp only
    rw [if_pos hpl]
  | case3 off hlt h4 rest hs pl hl hpl ih =>
    cases sliceFrom_ok_inv hs
    obtain ⟨a, b, x, y, t, hr⟩ := exists_cons4 (l := d.drop off) (by omega)
    have hl' := hl
    rw [hr, parseLength_cons4] at hl'
    cases hl'
    rw [← ih List.length_drop]
    conv => lhs; unfold Fast.parseGo
    rw [if_pos hlt, hr]
    simp only
    rw [if_neg hpl, ← hr, List.drop_drop]
  | case4 off hlt h4 rest hs e hl =>
    cases sliceFrom_ok_inv hs
    obtain ⟨a, b, x, y, t, hr⟩ := exists_cons4 (l := d.drop off) (by omega)
    rw [hr, parseLength_cons4] at hl
    cases hl
  | case5 off hlt h4 rest hs hl =>
    cases sliceFrom_ok_inv hs
    obtain ⟨a, b, x, y, t, hr⟩ := exists_cons4 (l := d.drop off) (by omega)
    rw [hr, parseLength_cons4] at hl
    cases hl
  | case6 off hlt h4 e hs =>
    unfold sliceFrom at hs; rw [if_pos (by omega)] at hs; cases hs
  | case7 off hlt h4 hs =>
    unfold sliceFrom at hs; rw [if_pos (by omega)] at hs; cases hs
  | case8 off hge =>
    unfold Fast.parseGo
    rw [if_neg hge]

theorem fast_compoundParse_eq (d : Bytes) : Fast.compoundParse d = Compound.parse d := by
  unfold Fast.compoundParse Compound.parse
  have := fast_parseGo_eq d 0
  rw [List.drop_zero] at this
  rw [this]
  rfl

/-! ## Sdes.parse -/

theorem fast_itemParseN_eq (base : Nat) (d : Bytes) :
    Fast.itemParseN base d d.length = SdesItem.parse base d := rfl

theorem fast_itemGo_eq (base : Nat) (d : Bytes) (off : Nat) (acc : List SdesItem) :
    Fast.itemGo base d.length (d.drop off) off acc = SdesChunk.itemLoop base d off acc.reverse := by
  generalize hacc : acc.reverse = racc
  fun_induction SdesChunk.itemLoop base d off racc generalizing acc with
  | case1 off racc hlt hz =>
    unfold Fast.itemGo
    have hh : (d.drop off).head? = some d[off] := by
      rw [List.head?_drop, List.getElem?_eq_getElem hlt]
    have hz' : d[off] = 0 := by simpa using hz
    rw [if_pos hlt, hh, hz', hacc]
    simp
  | case2 off racc hlt hz item e hp ih =>
    have hh : (d.drop off).head? = some d[off] := by
      rw [List.head?_drop, List.getElem?_eq_getElem hlt]
    have hN : Fast.itemParseN (base + off) (d.drop off) (d.length - off)
        = SdesItem.parse (base + off) (d.drop off) := by
      rw [← fast_itemParseN_eq, List.length_drop]
    rw [hp] at hN
    have hnz : ¬ ((some d[off] == some (0 : UInt8)) = true) := by simpa using hz
    rw [← ih (item :: acc) (by simp [hacc])]
    conv => lhs; unfold Fast.itemGo
    rw [if_pos hlt, hh, if_neg hnz]
    split
    · rename_i item' e' heq
      rw [hN] at heq
      cases heq
      rw [List.drop_drop]
    · rename_i er heq
      rw [hN] at heq; cases heq
    · rename_i heq
      rw [hN] at heq; cases heq
  | case3 off racc hlt hz er hp =>
    have hh : (d.drop off).head? = some d[off] := by
      rw [List.head?_drop, List.getElem?_eq_getElem hlt]
    have hN : Fast.itemParseN (base + off) (d.drop off) (d.length - off)
        = SdesItem.parse (base + off) (d.drop off) := by
      rw [← fast_itemParseN_eq, List.length_drop]
    rw [hp] at hN
    have hnz : ¬ ((some d[off] == some (0 : UInt8)) = true) := by simpa using hz
    unfold Fast.itemGo
    rw [if_pos hlt, hh, if_neg hnz]
    split
    · rename_i item' e' heq
      rw [hN] at heq; cases heq
    · rename_i er' heq
      rw [hN] at heq; cases heq; rfl
    · rename_i heq
      rw [hN] at heq; cases heq
  | case4 off racc hlt hz hp =>
    have hh : (d.drop off).head? = some d[off] := by
      rw [List.head?_drop, List.getElem?_eq_getElem hlt]
    have hN : Fast.itemParseN (base + off) (d.drop off) (d.length - off)
        = SdesItem.parse (base + off) (d.drop off) := by
      rw [← fast_itemParseN_eq, List.length_drop]
    rw [hp] at hN
    have hnz : ¬ ((some d[off] == some (0 : UInt8)) = true) := by simpa using hz
    unfold Fast.itemGo
    rw [if_pos hlt, hh, if_neg hnz]
    split
    · rename_i item' e' heq
      rw [hN] at heq; cases heq
    · rename_i er' heq
      rw [hN] at heq; cases heq
    · rfl
  | case5 off racc hge =>
    unfold Fast.itemGo
    rw [if_neg hge, hacc]

theorem fast_chunkParseN_eq (base : Nat) (d : Bytes) :
    Fast.chunkParseN base d d.length = SdesChunk.parse base d := by
  unfold Fast.chunkParseN SdesChunk.parse
  by_cases h4 : d.length < 4
  · simp only [if_pos h4]
  · have hs : (slice d 0 4 : R ParseError Bytes) = .ok (d.take 4) := by
      unfold slice
      rw [if_pos ⟨by omega, by omega⟩, List.drop_zero]
    have hg := fast_itemGo_eq base d 4 []
    simp only [List.reverse_nil] at hg
    simp only [if_neg h4, hs, R.ok_bind, hg]

theorem fast_chunkGo_eq (d : Bytes) (chunksEnd : Nat) (hce : chunksEnd ≤ d.length) (off : Nat)
    (acc : List SdesChunk) :
    Fast.chunkGo chunksEnd ((d.take chunksEnd).drop off) off acc
      = Sdes.chunkLoop d chunksEnd off acc.reverse := by
  generalize hacc : acc.reverse = racc
  fun_induction Sdes.chunkLoop d chunksEnd off racc generalizing acc with
  | case1 off racc hlt s hs c e hp ih =>
    have hs' : s = (d.take chunksEnd).drop off := by
      unfold slice at hs
      rw [if_pos ⟨by omega, hce⟩] at hs
      cases hs; rfl
    subst hs'
    have hN : Fast.chunkParseN off ((d.take chunksEnd).drop off) (chunksEnd - off)
        = SdesChunk.parse off ((d.take chunksEnd).drop off) := by
      rw [← fast_chunkParseN_eq]
      congr 1
      simp only [List.length_drop, List.length_take]
      omega
    rw [hp] at hN
    rw [← ih (c :: acc) (by simp [hacc])]
    conv => lhs; unfold Fast.chunkGo
    rw [if_pos hlt]
    split
    · rename_i c' e' heq
      rw [hN] at heq
      cases heq
      rw [List.drop_drop]
    · rename_i er heq
      rw [hN] at heq; cases heq
    · rename_i heq
      rw [hN] at heq; cases heq
  | case2 off racc hlt s hs er hp =>
    have hs' : s = (d.take chunksEnd).drop off := by
      unfold slice at hs
      rw [if_pos ⟨by omega, hce⟩] at hs
      cases hs; rfl
    subst hs'
    have hN : Fast.chunkParseN off ((d.take chunksEnd).drop off) (chunksEnd - off)
        = SdesChunk.parse off ((d.take chunksEnd).drop off) := by
      rw [← fast_chunkParseN_eq]
      congr 1
      simp only [List.length_drop, List.length_take]
      omega
    rw [hp] at hN
    unfold Fast.chunkGo
    rw [if_pos hlt]
    split
    · rename_i c' e' heq
      rw [hN] at heq; cases heq
    · rename_i er' heq
      rw [hN] at heq; cases heq; rfl
    · rename_i heq
      rw [hN] at heq; cases heq
  | case3 off racc hlt s hs hp =>
    have hs' : s = (d.take chunksEnd).drop off := by
      unfold slice at hs
      rw [if_pos ⟨by omega, hce⟩] at hs
      cases hs; rfl
    subst hs'
    have hN : Fast.chunkParseN off ((d.take chunksEnd).drop off) (chunksEnd - off)
        = SdesChunk.parse off ((d.take chunksEnd).drop off) := by
      rw [← fast_chunkParseN_eq]
      congr 1
      simp only [List.length_drop, List.length_take]
      omega
    rw [hp] at hN
    unfold Fast.chunkGo
    rw [if_pos hlt]
    split
    · rename_i c' e' heq
      rw [hN] at heq; cases heq
    · rename_i er' heq
      rw [hN] at heq; cases heq
    · rfl
  | case4 off racc hlt er hs =>
    unfold slice at hs
    rw [if_pos ⟨by omega, hce⟩] at hs
    cases hs
  | case5 off racc hlt hs =>
    unfold slice at hs
    rw [if_pos ⟨by omega, hce⟩] at hs
    cases hs
  | case6 off racc hge =>
    unfold Fast.chunkGo
    rw [if_neg hge, hacc]

theorem fast_sdesParse_eq (d : Bytes) : Fast.sdesParse d = Sdes.parse d := by
  unfold Fast.sdesParse Sdes.parse
  cases hc : checkPacket 4 202 d with
  | err e => rfl
  | panic => rfl
  | ok u =>
    simp only [R.ok_bind]
    cases hpad : (parsePadding d : R ParseError (Option UInt8)) with
    | err e => rfl
    | panic => rfl
    | ok p =>
      simp only [R.ok_bind]
      split
      · rfl
      · have hg := fast_chunkGo_eq d (d.length - (p.getD 0).toNat) (by omega) 4 []
        simp only [List.reverse_nil] at hg
        rw [hg]

end Rtcp.Proofs

namespace Rtcp.Proofs
open Rtcp Rtcp.Impl

theorem fast_kindParse_eq (k : Kind) (d : Bytes) : Fast.kindParse k d = k.parse d := by
  cases k <;> simp [Fast.kindParse, Kind.parse, fast_sdesParse_eq]

theorem fast_packetParse_eq (d : Bytes) : Fast.packetParse d = Packet.parse d := by
  unfold Fast.packetParse Packet.parse
  by_cases h : d.length < 4
  · simp [h]
  · simp only [h, ↓reduceIte]
    cases ht : (parsePacketType d : R ParseError UInt8) with
    | ok t =>
      simp only [bind, R.bind]
      by_cases h2 : t == 202
      · have : t = 202 := by simpa using h2
        subst this
        simp [fast_kindParse_eq]
      · simp [h2]
    | err e => simp [bind, R.bind]
    | panic => simp [bind, R.bind]

end Rtcp.Proofs
