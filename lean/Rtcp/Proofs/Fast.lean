/-
  The linear-time drivers of `Rtcp/Impl/Fast.lean` compute exactly what the model's own iterator
  drivers compute, for every input.
-/
import Rtcp.Impl.Fast
import Rtcp.Proofs.FciLemmas
import Rtcp.Proofs.FciNack
import Rtcp.Proofs.FciDecode
import Rtcp.Proofs.CompoundParse

namespace Rtcp.Proofs
open Rtcp Rtcp.Impl Rtcp.Spec

/-! ## NACK -/

theorem fast_nackWord_eq (a b c e : UInt8) :
    Fast.nackWord a b c e
      = (NackWord.decode ⟨a.toNat * 256 + b.toNat, c.toNat * 256 + e.toNat⟩).map Nat.toUInt16 := by
  simp [Fast.nackWord, NackWord.decode, List.map_map, Function.comp_def]

theorem fast_nackGo_eq (d : Bytes) : ∀ acc : List UInt16,
    Fast.nackGo d acc = acc.reverse ++ (nackDecode d).map Nat.toUInt16 := by
  fun_induction words32 d with
  | case1 a b c e rest ih =>
    intro acc
    rw [Fast.nackGo, ih, nackDecode_cons4, fast_nackWord_eq]
    simp
  | case2 l hl =>
    intro acc
    have h1 : Fast.nackGo l acc = acc.reverse := by
      unfold Fast.nackGo
      split
      · exact absurd rfl (hl _ _ _ _ _)
      · rfl
    have h2 : words32 l = [] := by
      unfold words32
      split
      · exact absurd rfl (hl _ _ _ _ _)
      · rfl
    simp [h1, nackDecode, h2]

theorem fast_nack_eq {ε} (d : Bytes) : (Fast.nackEntries d : R ε _) = Nack.entries d := by
  rw [nack_entries_eq, Fast.nackEntries, fast_nackGo_eq]
  simp

/-! ## FIR -/

theorem fast_firGo_eq (d : Bytes) : ∀ acc : List (UInt32 × UInt8),
    Fast.firGo d acc = acc.reverse ++ (words64 d).map firG := by
  fun_induction words64 d with
  | case1 a b c e f g h k rest ih =>
    intro acc
    rw [Fast.firGo, ih]
    simp [firG]
  | case2 l hl =>
    intro acc
    have h1 : Fast.firGo l acc = acc.reverse := by
      unfold Fast.firGo
      split
      · exact absurd rfl (hl _ _ _ _ _ _ _ _ _)
      · rfl
    simp [h1]

theorem fast_fir_eq {ε} (d : Bytes) : (Fast.firEntries d : R ε _) = Fir.entries d := by
  unfold Fir.entries
  rw [fir_collect d _ 0 [] (by omega), Fast.firEntries, fast_firGo_eq]
  simp

/-! ## SLI -/

theorem fast_sliGo_eq (d : Bytes) : ∀ acc : List MacroBlockEntry,
    Fast.sliGo d acc = acc.reverse ++ (words32 d).map sliG := by
  fun_induction words32 d with
  | case1 a b c e rest ih =>
    intro acc
    rw [Fast.sliGo, ih]
    simp [sliG]
  | case2 l hl =>
    intro acc
    have h1 : Fast.sliGo l acc = acc.reverse := by
      unfold Fast.sliGo
      split
      · exact absurd rfl (hl _ _ _ _ _)
      · rfl
    simp [h1]

theorem fast_sli_eq {ε} (d : Bytes) : (Fast.sliEntries d : R ε _) = Sli.lostMacroblocks d := by
  unfold Sli.lostMacroblocks
  rw [sli_collect d _ 0 [] (by omega), Fast.sliEntries, fast_sliGo_eq]
  simp

/-! ## Compound -/

theorem parseLength_cons4 {ε : Type} (a b x y : UInt8) (t : Bytes) :
    (parseLength (a :: b :: x :: y :: t) : R ε Nat) = .ok (4 * (x.toNat * 256 + y.toNat + 1)) := by
  have hx := x.toNat_lt
  have hy := y.toNat_lt
  have : (x.toNat * 256 + y.toNat) % 65536 = x.toNat * 256 + y.toNat := by omega
  simp [parseLength, slice, fromBe16, Nat.toUInt16, this]

theorem parseLength_short {ε : Type} (l : Bytes) (h : l.length < 4) :
    (parseLength l : R ε Nat) = .panic := by
  have : ¬ (4 ≤ l.length) := by omega
  simp [parseLength, slice, this]

theorem fast_compoundGo_eq {ε : Type} (data : Bytes) : ∀ (fuel off : Nat) (over : Bool)
    (acc : List (R ParseError Packet × Nat)),
    (Fast.compoundGo data data.length fuel (data.drop off) off over acc : R ε _)
      = Compound.collect fuel ⟨data, off, over⟩ acc.reverse := by
  intro fuel
  induction fuel with
  | zero => intro off over acc; rfl
  | succ fuel ih =>
    intro off over acc
    unfold Fast.compoundGo Compound.collect Compound.next
    cases over with
    | true => simp
    | false =>
      simp only [Bool.false_eq_true, if_false]
      have hlen : (data.drop off).length = data.length - off := List.length_drop
      by_cases hoff : off ≤ data.length
      · rw [sliceFrom_le hoff]
        simp only [R.ok_bind]
        split
        · rename_i a b x y t hr
          have hl4 := congrArg List.length hr
          simp only [List.length_cons] at hl4
          have hpl : (parseLength (data.drop off) : R ε Nat) = .ok (4 * (x.toNat * 256 + y.toNat + 1)) := by
            rw [hr]; exact parseLength_cons4 a b x y t
          rw [hpl]
          simp only [R.ok_bind]
          by_cases hfit : off + 4 * (x.toNat * 256 + y.toNat + 1) ≤ data.length
          · have ht : (slice data off (off + 4 * (x.toNat * 256 + y.toNat + 1)) : R ε Bytes) =
                .ok ((data.drop off).take (4 * (x.toNat * 256 + y.toNat + 1))) := by
              unfold slice
              rw [if_pos ⟨by omega, hfit⟩, List.drop_take]
              congr 2
              omega
            rw [if_pos hfit, ht]
            simp only [R.ok_bind]
            generalize Packet.parse ((data.drop off).take (4 * (x.toNat * 256 + y.toNat + 1))) = res
            cases res with
            | panic => rfl
            | ok p =>
              simp only [R.pure_eq]
              rw [List.drop_drop, ih]
              simp
            | err e =>
              simp only [R.pure_eq]
              rw [List.drop_drop, ih]
              simp
          · have ht : (slice data off (off + 4 * (x.toNat * 256 + y.toNat + 1)) : R ε Bytes) = .panic := by
              unfold slice
              rw [if_neg (by omega)]
            rw [if_neg hfit, ht]
            rfl
        · rename_i hno
          have hshort : (data.drop off).length < 4 := by
            generalize data.drop off = l at hno
            match l, hno with
            | [], _ | [_], _ | [_, _], _ | [_, _, _], _ => simp
            | a :: b :: x :: y :: t, hno => exact absurd rfl (hno a b x y t)
          rw [parseLength_short _ hshort]
          rfl
      · have hs : (sliceFrom data off : R ε Bytes) = .panic := by
          unfold sliceFrom; rw [if_neg hoff]
        have hnil : data.drop off = [] := List.drop_eq_nil_of_le (by omega)
        rw [hs, hnil]
        rfl

theorem fast_compound_eq' {ε} (fuel : Nat) (c : Compound) :
    (Fast.compoundCollect fuel c : R ε _) = Compound.collect fuel c [] := by
  unfold Fast.compoundCollect
  rw [fast_compoundGo_eq]
  rfl

/-- the stated form; the side condition is not needed (`fast_compound_eq'`) -/
theorem fast_compound_eq {ε} (fuel : Nat) (c : Compound) (h : c.offset ≤ c.data.length) :
    (Fast.compoundCollect fuel c : R ε _) = Compound.collect fuel c [] := by
  have _ := h
  exact fast_compound_eq' fuel c

end Rtcp.Proofs
