/-
  Proofs: generic dispatch and conversion matrix
-/
import Rtcp.Spec.All
import Rtcp.Proofs.ReadLemmas

namespace Rtcp.Proofs
open Rtcp Rtcp.Impl Rtcp.Spec

/-! ## generic dispatch and the conversion matrix (C12) -/

/-- the generic parser's outcome (value or error) is the typed parser's outcome for the variant
    named by the type octet, and `Unknown`'s for every other type -/
theorem packet_parse_eq (bs : Bytes) (h : 4 ≤ bs.length) :
    Packet.parse bs = (match kindOfType (ptype bs) with
                       | some k => k.parse bs
                       | none => Packet.unknown <$> Unknown.parse bs) := by
  have hlt : ¬ bs.length < 4 := by omega
  unfold Packet.parse kindOfType
  simp only [hlt, if_false, Read.parsePacketType_ok bs (by omega), R.ok_bind, beq_iff_eq]
  generalize ptype bs = t
  by_cases h1 : t = 204
  · subst h1; rfl
  by_cases h2 : t = 203
  · subst h2; rfl
  by_cases h3 : t = 201
  · subst h3; rfl
  by_cases h4 : t = 202
  · subst h4; rfl
  by_cases h5 : t = 200
  · subst h5; rfl
  by_cases h6 : t = 206
  · subst h6; rfl
  by_cases h7 : t = 205
  · subst h7; rfl
  simp only [h1, h2, h3, h4, h5, h6, h7, if_false]

theorem packet_parse_short (bs : Bytes) (h : bs.length < 4) :
    Packet.parse bs = .err (.truncated 4 bs.length) := by
  unfold Packet.parse
  simp only [h, if_true]

theorem R.map_eq_ok {ε α β : Type} {f : α → β} {x : R ε α} {b : β} (h : f <$> x = .ok b) :
    ∃ a, x = .ok a ∧ b = f a := by
  cases x with
  | ok a => simp only [R.map_ok, R.ok.injEq] at h; exact ⟨a, rfl, h.symm⟩
  | err e => simp only [R.map_err] at h; cases h
  | panic => simp only [R.map_panic] at h; cases h

theorem sdes_parse_data (bs : Bytes) (v : Sdes) (h : Sdes.parse bs = .ok v) : v.data = bs := by
  unfold Sdes.parse at h
  simp only [bind, R.bind, pure] at h
  split at h <;> try cases h
  split at h <;> try cases h
  split at h <;> try cases h
  split at h
  · split at h <;> cases h
    rfl
  · cases h
    rfl

theorem sr_parse_data (bs v : Bytes) (h : Sr.parse bs = .ok v) : v = bs := by
  unfold Sr.parse at h
  simp only [bind, R.bind, pure] at h
  repeat (split at h <;> try cases h)
  rfl

theorem rr_parse_data (bs v : Bytes) (h : Rr.parse bs = .ok v) : v = bs := by
  unfold Rr.parse at h
  simp only [bind, R.bind, pure] at h
  repeat (split at h <;> try cases h)
  rfl

theorem bye_parse_data (bs v : Bytes) (h : Bye.parse bs = .ok v) : v = bs := by
  unfold Bye.parse at h
  simp only [bind, R.bind, pure] at h
  repeat (split at h <;> try cases h)
  all_goals rfl

theorem app_parse_data (bs v : Bytes) (h : App.parse bs = .ok v) : v = bs := by
  unfold App.parse at h
  simp only [bind, R.bind, pure] at h
  repeat (split at h <;> try cases h)
  all_goals rfl

theorem fb_parse_data (k : FbKind) (bs v : Bytes) (h : Fb.parse k bs = .ok v) : v = bs := by
  unfold Fb.parse at h
  simp only [bind, R.bind, pure] at h
  repeat (split at h <;> try cases h)
  all_goals rfl

theorem unknown_parse_data (bs v : Bytes) (h : Unknown.parse bs = .ok v) : v = bs := by
  unfold Unknown.parse at h
  simp only [bind, R.bind, pure] at h
  repeat (split at h <;> try cases h)
  all_goals rfl

/-- a typed parser's value has that parser's kind and holds the input -/
theorem kind_parse_ok (k : Kind) (bs : Bytes) (p : Packet) (h : k.parse bs = .ok p) :
    p.kind? = some k ∧ p.data = bs := by
  cases k <;> simp only [Kind.parse] at h <;> obtain ⟨v, hv, rfl⟩ := R.map_eq_ok h <;>
    refine ⟨rfl, ?_⟩ <;> simp only [Packet.data]
  · exact app_parse_data bs v hv
  · exact bye_parse_data bs v hv
  · exact rr_parse_data bs v hv
  · exact sdes_parse_data bs v hv
  · exact sr_parse_data bs v hv
  · exact fb_parse_data _ bs v hv
  · exact fb_parse_data _ bs v hv

/-- the three possible shapes of an accepted generic parse -/
theorem packet_parse_ok_cases (bs : Bytes) (p : Packet) (h : Packet.parse bs = .ok p) :
    4 ≤ bs.length ∧
    ((∃ k, kindOfType (ptype bs) = some k ∧ k.parse bs = .ok p) ∨
     (kindOfType (ptype bs) = none ∧ ∃ v, Unknown.parse bs = .ok v ∧ p = .unknown v)) := by
  by_cases hl : bs.length < 4
  · rw [packet_parse_short bs hl] at h; cases h
  · have h4 : 4 ≤ bs.length := by omega
    refine ⟨h4, ?_⟩
    rw [packet_parse_eq bs h4] at h
    cases hk : kindOfType (ptype bs) with
    | some k => rw [hk] at h; exact .inl ⟨k, rfl, h⟩
    | none =>
      rw [hk] at h
      obtain ⟨v, hv, rfl⟩ := R.map_eq_ok h
      exact .inr ⟨rfl, v, hv, rfl⟩

/-- an unknown packet exposes the input unchanged -/
theorem packet_unknown_data (bs u : Bytes) (h : Packet.parse bs = .ok (.unknown u)) : u = bs := by
  obtain ⟨_, ⟨k, _, hk⟩ | ⟨_, v, hv, hp⟩⟩ := packet_parse_ok_cases bs _ h
  · have := (kind_parse_ok k bs _ hk).1
    simp [Packet.kind?] at this
  · cases hp
    exact unknown_parse_data bs u hv

/-- every parsed packet holds exactly the input bytes -/
theorem packet_data (bs : Bytes) (p : Packet) (h : Packet.parse bs = .ok p) : p.data = bs := by
  obtain ⟨_, ⟨k, _, hk⟩ | ⟨_, v, hv, rfl⟩⟩ := packet_parse_ok_cases bs _ h
  · exact (kind_parse_ok k bs _ hk).2
  · exact unknown_parse_data bs v hv

/-- the variant chosen carries the type octet's kind -/
theorem packet_kind (bs : Bytes) (p : Packet) (h : Packet.parse bs = .ok p) :
    p.kind? = kindOfType (ptype bs) := by
  obtain ⟨_, ⟨k, hkt, hk⟩ | ⟨hkt, v, hv, rfl⟩⟩ := packet_parse_ok_cases bs _ h
  · rw [hkt]; exact (kind_parse_ok k bs _ hk).1
  · rw [hkt]; rfl

/-- conversion to the variant's own type returns the already-parsed value -/
theorem tryAs_same (p : Packet) (k : Kind) (h : p.kind? = some k) : p.tryAs k = .ok p := by
  cases p <;> simp only [Packet.kind?] at h <;> cases h <;> simp [Packet.tryAs, Packet.kind?]

theorem kindOfType_pt (t : UInt8) (k : Kind) (h : kindOfType t = some k) : t = k.pt := by
  unfold kindOfType at h
  repeat (split at h; · cases h; subst_vars; rfl)
  cases h

theorem hType_ok {ε : Type} (bs : Bytes) (h : 4 ≤ bs.length) : (hType bs : R ε UInt8) = .ok (ptype bs) := by
  unfold hType headerData
  rw [Read.slice_ok bs 0 4 ⟨by omega, h⟩]
  simp only [R.ok_bind]
  rw [Read.parsePacketType_ok _ (by rw [Read.range_length _ _ _ h]; omega)]
  simp only [ptype]
  rw [Read.getD_range bs 0 4 1 (by omega)]

/-- conversion to a different known type: a mismatch error naming both types -/
theorem tryAs_mismatch (bs : Bytes) (p : Packet) (k k' : Kind) (hp : Packet.parse bs = .ok p)
    (h : p.kind? = some k') (hne : k' ≠ k) :
    p.tryAs k = .err (.packetTypeMismatch k'.pt k.pt) := by
  have hd := packet_data bs p hp
  have hk := packet_kind bs p hp
  have h4 := (packet_parse_ok_cases bs p hp).1
  rw [h] at hk
  have hpt := kindOfType_pt _ _ hk.symm
  have hne' : ¬ (p.kind? = some k) := by rw [h]; intro e; exact hne (Option.some.inj e)
  have ht : (hType p.data : R ParseError UInt8) = .ok k'.pt := by rw [hd, hType_ok bs h4, hpt]
  cases p <;> simp only [Packet.kind?] at h <;>
    simp only [Packet.tryAs, hne', if_false, ht, R.ok_bind] <;> cases h

/-- conversion of an unknown packet: exactly what the typed parser returns on the same bytes -/
theorem tryAs_unknown (u : Bytes) (k : Kind) : (Packet.unknown u).tryAs k = k.parse u := by
  rfl

end Rtcp.Proofs
