/-
  Proofs: generic dispatch and conversion matrix
-/
import Rtcp.Spec.All
import Rtcp.Proofs.ReadLemmas
import Rtcp.Proofs.ParsersFraming

namespace Rtcp.Proofs
open Rtcp Rtcp.Impl Rtcp.Spec

/-! ## generic dispatch and the conversion matrix (C12) -/

/-- the generic parser's outcome (value or error) is the typed parser's outcome for the variant
    named by the type octet, and `Unknown`'s for every other type -/
theorem packet_parse_eq (bs : Bytes) (h : 4 ≤ bs.length) :
    Packet.parse bs = (match kindOfType (ptype bs) with
                       | some k => k.parse bs
                       | none => Packet.unknown <$> Unknown.parse bs) := by
  sorry

theorem packet_parse_short (bs : Bytes) (h : bs.length < 4) :
    Packet.parse bs = .err (.truncated 4 bs.length) := by
  sorry

/-- an unknown packet exposes the input unchanged -/
theorem packet_unknown_data (bs u : Bytes) (h : Packet.parse bs = .ok (.unknown u)) : u = bs := by
  sorry

/-- every parsed packet holds exactly the input bytes -/
theorem packet_data (bs : Bytes) (p : Packet) (h : Packet.parse bs = .ok p) : p.data = bs := by
  sorry

/-- conversion to the variant's own type returns the already-parsed value -/
theorem tryAs_same (p : Packet) (k : Kind) (h : p.kind? = some k) : p.tryAs k = .ok p := by
  sorry

/-- conversion to a different known type: a mismatch error naming both types -/
theorem tryAs_mismatch (bs : Bytes) (p : Packet) (k k' : Kind) (hp : Packet.parse bs = .ok p)
    (h : p.kind? = some k') (hne : k' ≠ k) :
    p.tryAs k = .err (.packetTypeMismatch k'.pt k.pt) := by
  sorry

/-- conversion of an unknown packet: exactly what the typed parser returns on the same bytes -/
theorem tryAs_unknown (u : Bytes) (k : Kind) : (Packet.unknown u).tryAs k = k.parse u := by
  sorry

/-- the variant chosen carries the type octet's kind -/
theorem packet_kind (bs : Bytes) (p : Packet) (h : Packet.parse bs = .ok p) :
    p.kind? = kindOfType (ptype bs) := by
  sorry

end Rtcp.Proofs
