/-
  Proofs: framing helper, fixed-layout parsers, accessors, dispatch.
-/
import Rtcp.Spec.All

namespace Rtcp.Proofs
open Rtcp Rtcp.Impl Rtcp.Spec

/-! ## `check_packet::<P>` for every declared type and minimum size ≥ 4 (C08, C19) -/

theorem checkPacket_ok_iff (min : Nat) (pt : UInt8) (bs : Bytes) (h4 : 4 ≤ min) :
    checkPacket min pt bs = .ok () ↔ WellFramed min pt bs := by
  sorry

theorem checkPacket_no_panic (min : Nat) (pt : UInt8) (bs : Bytes) (h4 : 4 ≤ min) :
    checkPacket min pt bs ≠ .panic := by
  sorry

/-- C18: every error of the framing check is accurate -/
theorem checkPacket_err_truthful (min : Nat) (pt : UInt8) (bs : Bytes) (h4 : 4 ≤ min) (e : ParseError)
    (h : checkPacket min pt bs = .err e) : ErrorTruthful bs pt e := by
  sorry

/-- C18: shorter than the minimum ⇒ truncated with exactly that minimum and the real length -/
theorem checkPacket_short (min : Nat) (pt : UInt8) (bs : Bytes) (h : bs.length < min) :
    checkPacket min pt bs = .err (.truncated min bs.length) := by
  sorry

/-- C18: version 2, right type, but a length field that disagrees ⇒ truncated / too large with
    exactly the header length and the real length -/
theorem checkPacket_length_mismatch (min : Nat) (pt : UInt8) (bs : Bytes) (h4 : 4 ≤ min)
    (hm : min ≤ bs.length) (hv : version bs = 2) (ht : ptype bs = pt) (hl : lengthField bs ≠ bs.length) :
    checkPacket min pt bs =
      .err (if bs.length < lengthField bs then .truncated (lengthField bs) bs.length
            else .tooLarge (lengthField bs) bs.length) := by
  sorry

/-! ## header accessors on any well-framed packet (C08) -/

theorem header_accessors {ε : Type} (min : Nat) (pt : UInt8) (bs : Bytes) (h4 : 4 ≤ min)
    (h : WellFramed min pt bs) :
    (hVersion bs : R ε UInt8) = .ok 2 ∧ (hType bs : R ε UInt8) = .ok pt ∧
    (hCount bs : R ε UInt8) = .ok (count bs).toUInt8 ∧ (hLength bs : R ε Nat) = .ok bs.length ∧
    (parsePadding bs : R ε (Option UInt8)) = .ok (paddingOf bs) ∧
    (∀ p, paddingOf bs = some p → p ≠ 0) := by
  sorry

/-! ## typed parsers: accepted ⇔ framed and body large enough (C08); the view is the input (C09) -/

theorem sr_parse_ok_iff (bs v : Bytes) :
    Sr.parse bs = .ok v ↔ v = bs ∧ WellFramed 28 200 bs ∧ 28 + 24 * count bs ≤ bs.length := by
  sorry

theorem rr_parse_ok_iff (bs v : Bytes) :
    Rr.parse bs = .ok v ↔ v = bs ∧ WellFramed 8 201 bs ∧ 8 + 24 * count bs ≤ bs.length := by
  sorry

theorem bye_parse_ok_iff (bs v : Bytes) :
    Bye.parse bs = .ok v ↔ v = bs ∧ WellFramed 4 203 bs ∧ 4 + 4 * count bs ≤ bs.length ∧
      (4 + 4 * count bs < bs.length → 4 + 4 * count bs + 1 + u8At bs (4 + 4 * count bs) ≤ bs.length) := by
  sorry

theorem app_parse_ok_iff (bs v : Bytes) :
    App.parse bs = .ok v ↔ v = bs ∧ WellFramed 12 204 bs ∧ 12 + padLen bs ≤ bs.length := by
  sorry

theorem fb_parse_ok_iff (k : FbKind) (bs v : Bytes) :
    Fb.parse k bs = .ok v ↔ v = bs ∧ WellFramed 12 k.pt bs ∧ 12 + padLen bs ≤ bs.length := by
  sorry

theorem unknown_parse_ok_iff (bs v : Bytes) :
    Unknown.parse bs = .ok v ↔ v = bs ∧ UnknownFramed bs := by
  sorry

theorem custom_parse_ok_iff (pt : UInt8) (min : Nat) (h4 : 4 ≤ min) (bs v : Bytes) :
    Custom.parse pt min bs = .ok v ↔ v = bs ∧ WellFramed min pt bs ∧ min + padLen bs ≤ bs.length := by
  sorry

theorem rb_parse_ok_iff (bs v : Bytes) : ReportBlock.parse bs = .ok v ↔ v = bs ∧ bs.length = 24 := by
  sorry

/-! ## no parser panics, whatever the bytes (C01) -/

theorem parsers_no_panic (bs : Bytes) :
    Sr.parse bs ≠ .panic ∧ Rr.parse bs ≠ .panic ∧ Bye.parse bs ≠ .panic ∧ App.parse bs ≠ .panic ∧
    Fb.parse .transport bs ≠ .panic ∧ Fb.parse .payload bs ≠ .panic ∧ Unknown.parse bs ≠ .panic ∧
    ReportBlock.parse bs ≠ .panic := by
  sorry

/-! ## errors are truthful (C18) -/

theorem sr_err_truthful (bs : Bytes) (e : ParseError) (h : Sr.parse bs = .err e) : ErrorTruthful bs 200 e := by
  sorry
theorem rr_err_truthful (bs : Bytes) (e : ParseError) (h : Rr.parse bs = .err e) : ErrorTruthful bs 201 e := by
  sorry
theorem bye_err_truthful (bs : Bytes) (e : ParseError) (h : Bye.parse bs = .err e) : ErrorTruthful bs 203 e := by
  sorry
theorem app_err_truthful (bs : Bytes) (e : ParseError) (h : App.parse bs = .err e) : ErrorTruthful bs 204 e := by
  sorry
theorem fb_err_truthful (k : FbKind) (bs : Bytes) (e : ParseError) (h : Fb.parse k bs = .err e) :
    ErrorTruthful bs k.pt e := by
  sorry
theorem unknown_err_truthful (bs : Bytes) (e : ParseError) (h : Unknown.parse bs = .err e) :
    ErrorTruthful bs 0 e ∧ (∀ a r, e ≠ .packetTypeMismatch a r) := by
  sorry
theorem rb_err_truthful (bs : Bytes) (e : ParseError) (h : ReportBlock.parse bs = .err e) :
    e = (if bs.length < 24 then .truncated 24 bs.length else .tooLarge 24 bs.length) ∧ bs.length ≠ 24 := by
  sorry

/-! ## accessors: exactly the bytes on the wire, never a panic on an accepted view (C09, C01) -/

theorem sr_accessors {ε : Type} (bs : Bytes) (h : Sr.parse bs = .ok bs) :
    (Sr.ssrc bs : R ε UInt32) = .ok (u32At bs 4).toUInt32 ∧
    (Sr.ntp bs : R ε UInt64) = .ok (u64At bs 8).toUInt64 ∧
    (Sr.rtp bs : R ε UInt32) = .ok (u32At bs 16).toUInt32 ∧
    (Sr.packetCount bs : R ε UInt32) = .ok (u32At bs 20).toUInt32 ∧
    (Sr.octetCount bs : R ε UInt32) = .ok (u32At bs 24).toUInt32 ∧
    (Sr.nReports bs : R ε UInt8) = .ok (count bs).toUInt8 ∧
    (Sr.padding bs : R ε (Option UInt8)) = .ok (paddingOf bs) ∧
    (Sr.reportBlocks bs : R ε (List Bytes)) =
      .ok ((List.range (count bs)).map (fun i => range bs (28 + 24 * i) (28 + 24 * i + 24))) := by
  sorry

theorem rr_accessors {ε : Type} (bs : Bytes) (h : Rr.parse bs = .ok bs) :
    (Rr.ssrc bs : R ε UInt32) = .ok (u32At bs 4).toUInt32 ∧
    (Rr.nReports bs : R ε UInt8) = .ok (count bs).toUInt8 ∧
    (Rr.padding bs : R ε (Option UInt8)) = .ok (paddingOf bs) ∧
    (Rr.reportBlocks bs : R ε (List Bytes)) =
      .ok ((List.range (count bs)).map (fun i => range bs (8 + 24 * i) (8 + 24 * i + 24))) := by
  sorry

theorem rb_accessors {ε : Type} (bs : Bytes) (h : bs.length = 24) :
    (ReportBlock.ssrc bs : R ε UInt32) = .ok (u32At bs 0).toUInt32 ∧
    (ReportBlock.fractionLost bs : R ε UInt8) = .ok (u8At bs 4).toUInt8 ∧
    (ReportBlock.cumulativeLost bs : R ε UInt32) = .ok (u32At bs 4 % 16777216).toUInt32 ∧
    (ReportBlock.extendedSequenceNumber bs : R ε UInt32) = .ok (u32At bs 8).toUInt32 ∧
    (ReportBlock.interarrivalJitter bs : R ε UInt32) = .ok (u32At bs 12).toUInt32 ∧
    (ReportBlock.lastSenderReportTimestamp bs : R ε UInt32) = .ok (u32At bs 16).toUInt32 ∧
    (ReportBlock.delaySinceLastSenderReportTimestamp bs : R ε UInt32) = .ok (u32At bs 20).toUInt32 := by
  sorry

theorem app_accessors {ε : Type} (bs : Bytes) (h : App.parse bs = .ok bs) :
    (App.ssrc bs : R ε UInt32) = .ok (u32At bs 4).toUInt32 ∧
    (App.name bs : R ε Bytes) = .ok (range bs 8 12) ∧
    (App.padding bs : R ε (Option UInt8)) = .ok (paddingOf bs) ∧
    (App.data bs : R ε Slice) = .ok ⟨12, range bs 12 (bs.length - padLen bs)⟩ ∧
    12 ≤ bs.length - padLen bs := by
  sorry

theorem bye_accessors {ε : Type} (bs : Bytes) (h : Bye.parse bs = .ok bs) :
    (Bye.ssrcs bs : R ε (List UInt32)) = .ok ((List.range (count bs)).map (fun i => (u32At bs (4 + 4 * i)).toUInt32)) ∧
    (Bye.padding bs : R ε (Option UInt8)) = .ok (paddingOf bs) ∧
    (let off := 4 + 4 * count bs
     (Bye.reason bs : R ε (Option Slice)) =
       .ok (if bs.length ≤ off + 1 + padLen bs then none
            else some ⟨off + 1, range bs (off + 1) (off + 1 + u8At bs off)⟩)) ∧
    (4 + 4 * count bs < bs.length → 4 + 4 * count bs + 1 + u8At bs (4 + 4 * count bs) ≤ bs.length) := by
  sorry

theorem fb_accessors {ε : Type} (k : FbKind) (bs : Bytes) (h : Fb.parse k bs = .ok bs) :
    (Fb.senderSsrc bs : R ε UInt32) = .ok (u32At bs 4).toUInt32 ∧
    (Fb.mediaSsrc bs : R ε UInt32) = .ok (u32At bs 8).toUInt32 ∧
    (Fb.padding bs : R ε (Option UInt8)) = .ok (paddingOf bs) := by
  sorry

theorem unknown_accessors {ε : Type} (bs : Bytes) :
    (Unknown.data bs : R ε Slice) = .ok ⟨0, bs⟩ := by
  sorry

theorem slices_within (bs : Bytes) :
    (∀ s, (App.data bs : R Unit Slice) = .ok s → SubSlice s bs) ∧
    (∀ s, (Bye.reason bs : R Unit (Option Slice)) = .ok (some s) → SubSlice s bs) ∧
    (∀ s, (Unknown.data bs : R Unit Slice) = .ok s → SubSlice s bs) := by
  sorry

/-! ## generic dispatch and the conversion matrix (C12) -/

/-- the generic parser's outcome (value or error) is the typed parser's outcome for the variant
    named by the type octet, and `Unknown`'s for every other type -/
theorem packet_parse_eq (bs : Bytes) (h : 4 ≤ bs.length) :
    Packet.parse bs = (match kindOfType (ptype bs) with
                       | some k => k.parse bs
                       | none => Packet.unknown <$> Unknown.parse bs) := by
  sorry

theorem packet_parse_short (bs : Bytes) (h : bs.length < 4) :
    Packet.parse bs = .err (.truncated 4 bs.length) := by
  sorry

/-- an unknown packet exposes the input unchanged -/
theorem packet_unknown_data (bs u : Bytes) (h : Packet.parse bs = .ok (.unknown u)) : u = bs := by
  sorry

/-- every parsed packet holds exactly the input bytes -/
theorem packet_data (bs : Bytes) (p : Packet) (h : Packet.parse bs = .ok p) : p.data = bs := by
  sorry

/-- conversion to the variant's own type returns the already-parsed value -/
theorem tryAs_same (p : Packet) (k : Kind) (h : p.kind? = some k) : p.tryAs k = .ok p := by
  sorry

/-- conversion to a different known type: a mismatch error naming both types -/
theorem tryAs_mismatch (bs : Bytes) (p : Packet) (k k' : Kind) (hp : Packet.parse bs = .ok p)
    (h : p.kind? = some k') (hne : k' ≠ k) :
    p.tryAs k = .err (.packetTypeMismatch k'.pt k.pt) := by
  sorry

/-- conversion of an unknown packet: exactly what the typed parser returns on the same bytes -/
theorem tryAs_unknown (u : Bytes) (k : Kind) : (Packet.unknown u).tryAs k = k.parse u := by
  sorry

/-- the variant chosen carries the type octet's kind -/
theorem packet_kind (bs : Bytes) (p : Packet) (h : Packet.parse bs = .ok p) :
    p.kind? = kindOfType (ptype bs) := by
  sorry

end Rtcp.Proofs
