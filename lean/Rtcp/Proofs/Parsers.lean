/-
  Proofs: framing helper, fixed-layout parsers, accessors, dispatch (split over three files).
-/
import Rtcp.Proofs.ParsersFraming
import Rtcp.Proofs.ParsersAccessors
import Rtcp.Proofs.ParsersDispatch
