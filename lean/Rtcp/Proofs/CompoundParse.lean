/-
  Proofs: compound parsing and iteration.
-/
import Rtcp.Spec.All
import Rtcp.Proofs.ReadLemmas

namespace Rtcp.Proofs
open Rtcp Rtcp.Impl Rtcp.Spec

/-! ## the reference tiling, unfolded -/

theorem lengthField_ge (bs : Bytes) : 4 ≤ lengthField bs := by
  unfold lengthField; omega

theorem tilingAux_nil (fuel : Nat) : tilingAux fuel [] = some [] := by
  cases fuel <;> rfl

theorem tilingAux_step (fuel : Nat) (bs : Bytes) (hne : bs ≠ []) :
    tilingAux (fuel + 1) bs =
      if bs.length < 4 then none
      else if bs.length < lengthField bs then none
      else (tilingAux fuel (bs.drop (lengthField bs))).map (fun ts => bs.take (lengthField bs) :: ts) := by
  cases bs with
  | nil => exact absurd rfl hne
  | cons b bs => rfl

/-- enough fuel is as good as exactly enough -/
theorem tilingAux_fuel (fuel : Nat) : ∀ (bs : Bytes), bs.length ≤ fuel →
    tilingAux fuel bs = tilingAux bs.length bs := by
  induction fuel using Nat.strongRecOn with
  | ind fuel ih =>
    intro bs hle
    by_cases hne : bs = []
    · subst hne; rw [tilingAux_nil, tilingAux_nil]
    · have hpos : 0 < bs.length := List.length_pos_iff.mpr hne
      obtain ⟨f, rfl⟩ : ∃ f, fuel = f + 1 := ⟨fuel - 1, by omega⟩
      obtain ⟨m, hm⟩ : ∃ m, bs.length = m + 1 := ⟨bs.length - 1, by omega⟩
      rw [hm, tilingAux_step f bs hne, tilingAux_step m bs hne]
      by_cases h4 : bs.length < 4
      · simp only [h4, if_true]
      · by_cases hn : bs.length < lengthField bs
        · simp only [hn, if_true, h4, if_false]
        · simp only [h4, hn, if_false]
          have hg := lengthField_ge bs
          have hd : (bs.drop (lengthField bs)).length = bs.length - lengthField bs := List.length_drop
          rw [ih f (by omega) _ (by omega), ih m (by omega) _ (by omega)]

theorem tiling_nil : tiling [] = some [] := rfl

theorem tiling_step (bs : Bytes) (hne : bs ≠ []) :
    tiling bs =
      if bs.length < 4 then none
      else if bs.length < lengthField bs then none
      else (tiling (bs.drop (lengthField bs))).map (fun ts => bs.take (lengthField bs) :: ts) := by
  have hpos : 0 < bs.length := List.length_pos_iff.mpr hne
  obtain ⟨m, hm⟩ : ∃ m, bs.length = m + 1 := ⟨bs.length - 1, by omega⟩
  have e : tiling bs = tilingAux (m + 1) bs := by unfold tiling; rw [hm]
  rw [e, tilingAux_step m bs hne]
  unfold tiling
  by_cases h4 : bs.length < 4
  · simp only [h4, if_true]
  · by_cases hn : bs.length < lengthField bs
    · simp only [hn, if_true, h4, if_false]
    · simp only [h4, hn, if_false]
      have hg := lengthField_ge bs
      have hd : (bs.drop (lengthField bs)).length = bs.length - lengthField bs := List.length_drop
      rw [tilingAux_fuel m _ (by omega)]

theorem tiling_cons (bs : Bytes) (ts : List Bytes) (hne : bs ≠ []) (h : tiling bs = some ts) :
    4 ≤ bs.length ∧ lengthField bs ≤ bs.length ∧
    ∃ ts', ts = bs.take (lengthField bs) :: ts' ∧ tiling (bs.drop (lengthField bs)) = some ts' := by
  rw [tiling_step bs hne] at h
  split at h
  · cases h
  · split at h
    · cases h
    · refine ⟨by omega, by omega, ?_⟩
      cases ht : tiling (bs.drop (lengthField bs)) with
      | none => rw [ht] at h; cases h
      | some ts' =>
        rw [ht] at h
        simp only [Option.map_some, Option.some.injEq] at h
        exact ⟨ts', h.symm, rfl⟩

theorem lengthField_take (bs : Bytes) (n : Nat) (h : 4 ≤ n) : lengthField (bs.take n) = lengthField bs := by
  unfold lengthField
  simp only [List.getD_eq_getElem?_getD, List.getElem?_take]
  rw [if_pos (by omega), if_pos (by omega)]

/-- the tiles concatenate to the input and each has its header's length -/
theorem tiling_sound (bs : Bytes) (ts : List Bytes) (h : tiling bs = some ts) :
    ts.flatten = bs ∧ ∀ t ∈ ts, 4 ≤ t.length ∧ lengthField t = t.length := by
  induction ts generalizing bs with
  | nil =>
    by_cases hne : bs = []
    · subst hne; simp
    · obtain ⟨_, _, ts', h1, _⟩ := tiling_cons bs _ hne h
      cases h1
  | cons t ts ih =>
    by_cases hne : bs = []
    · subst hne; rw [tiling_nil] at h; cases h
    · obtain ⟨h4, hn, ts', h1, h2⟩ := tiling_cons bs _ hne h
      cases h1
      obtain ⟨ihf, iht⟩ := ih _ h2
      have hg := lengthField_ge bs
      refine ⟨?_, ?_⟩
      · rw [List.flatten_cons, ihf, List.take_append_drop]
      · intro t ht
        rcases List.mem_cons.mp ht with rfl | ht
        · rw [lengthField_take bs _ hg, List.length_take, Nat.min_eq_left hn]
          exact ⟨hg, rfl⟩
        · exact iht t ht

/-! ## compound parsing (C11) -/

theorem sliceFrom_ok_inv {ε : Type} {d rest : Bytes} {off : Nat}
    (h : (sliceFrom d off : R ε Bytes) = .ok rest) : rest = d.drop off := by
  unfold sliceFrom at h
  split at h <;> cases h
  rfl

/-- the validation loop either accepts, and the rest of the string tiles, or reports a truncation
    beyond the end of the string, and the rest does not tile -/
theorem parseLoop_spec (d : Bytes) (off : Nat) (hle : off ≤ d.length) :
    (Compound.parseLoop d off = .ok () ∧ (tiling (d.drop off)).isSome = true) ∨
    (∃ ex, Compound.parseLoop d off = .err (.truncated ex d.length) ∧ d.length < ex ∧
      tiling (d.drop off) = none) := by
  fun_induction Compound.parseLoop d off with
  | case1 off hlt h4 =>
    right
    refine ⟨off + 4, rfl, h4, ?_⟩
    have hne : d.drop off ≠ [] := by
      intro e; have := congrArg List.length e; simp only [List.length_drop, List.length_nil] at this; omega
    rw [tiling_step _ hne, if_pos (by simp only [List.length_drop]; omega)]
  | case2 off hlt h4 rest hs pl hl hpl =>
    right
    cases sliceFrom_ok_inv hs
    have hlen : (d.drop off).length = d.length - off := List.length_drop
    rw [Read.parseLength_ok _ (by omega)] at hl
    cases hl
    refine ⟨_, rfl, hpl, ?_⟩
    have hne : d.drop off ≠ [] := by
      intro e; have := congrArg List.length e; simp only [List.length_nil] at this; omega
    rw [tiling_step _ hne, if_neg (by omega), if_pos (by omega)]
  | case3 off hlt h4 rest hs pl hl hpl ih =>
    cases sliceFrom_ok_inv hs
    have hlen : (d.drop off).length = d.length - off := List.length_drop
    rw [Read.parseLength_ok _ (by omega)] at hl
    cases hl
    have hne : d.drop off ≠ [] := by
      intro e; have := congrArg List.length e; simp only [List.length_nil] at this; omega
    rw [tiling_step _ hne, if_neg (by omega), if_neg (by omega), List.drop_drop]
    rcases ih (by omega) with ⟨h1, h2⟩ | ⟨ex, h1, h2, h3⟩
    · left
      refine ⟨h1, ?_⟩
      rw [Option.isSome_map]; exact h2
    · right
      refine ⟨ex, h1, h2, ?_⟩
      rw [h3]; rfl
  | case4 off hlt h4 rest hs e hl =>
    cases sliceFrom_ok_inv hs
    have hlen : (d.drop off).length = d.length - off := List.length_drop
    rw [Read.parseLength_ok _ (by omega)] at hl
    cases hl
  | case5 off hlt h4 rest hs hl =>
    cases sliceFrom_ok_inv hs
    have hlen : (d.drop off).length = d.length - off := List.length_drop
    rw [Read.parseLength_ok _ (by omega)] at hl
    cases hl
  | case6 off hlt h4 e hs =>
    unfold sliceFrom at hs; rw [if_pos hle] at hs; cases hs
  | case7 off hlt h4 hs =>
    unfold sliceFrom at hs; rw [if_pos hle] at hs; cases hs
  | case8 off hge =>
    left
    have : d.drop off = [] := List.drop_eq_nil_of_le (by omega)
    rw [this]
    exact ⟨rfl, rfl⟩

theorem compound_parse_cases (bs : Bytes) :
    (bs ≠ [] ∧ Compound.parse bs = .ok ⟨bs, 0, false⟩ ∧ (tiling bs).isSome = true) ∨
    (∃ ex, Compound.parse bs = .err (.truncated ex bs.length) ∧ bs.length < ex ∧
      (bs = [] ∨ tiling bs = none)) := by
  unfold Compound.parse
  cases bs with
  | nil => right; exact ⟨4, rfl, by simp, .inl rfl⟩
  | cons b bs =>
    simp only [List.isEmpty_cons, Bool.false_eq_true, if_false]
    rcases parseLoop_spec (b :: bs) 0 (Nat.zero_le _) with ⟨h1, h2⟩ | ⟨ex, h1, h2, h3⟩
    · left
      rw [h1]
      exact ⟨by simp, rfl, h2⟩
    · right
      rw [h1]
      exact ⟨ex, rfl, h2, .inr h3⟩

/-- accepted exactly when non-empty and the chain of length fields tiles the string -/
theorem compound_parse_ok_iff (bs : Bytes) (c : Compound) :
    Compound.parse bs = .ok c ↔ c = ⟨bs, 0, false⟩ ∧ bs ≠ [] ∧ (tiling bs).isSome := by
  rcases compound_parse_cases bs with ⟨h1, h2, h3⟩ | ⟨ex, h1, h2, h3⟩
  · rw [h2]
    constructor
    · intro h; cases h; exact ⟨rfl, h1, h3⟩
    · rintro ⟨rfl, _, _⟩; rfl
  · rw [h1]
    constructor
    · intro h; cases h
    · rintro ⟨_, hne, hs⟩
      rcases h3 with h3 | h3
      · exact absurd h3 hne
      · rw [h3] at hs; cases hs

theorem compound_parse_no_panic (bs : Bytes) : Compound.parse bs ≠ .panic := by
  rcases compound_parse_cases bs with ⟨h1, h2, h3⟩ | ⟨ex, h1, h2, h3⟩
  · rw [h2]; intro h; cases h
  · rw [h1]; intro h; cases h

/-- C18: the errors of compound parsing are truncations with expected > actual -/
theorem compound_err_truthful (bs : Bytes) (e : ParseError) (h : Compound.parse bs = .err e) :
    ∃ ex, e = .truncated ex bs.length ∧ bs.length < ex := by
  rcases compound_parse_cases bs with ⟨h1, h2, h3⟩ | ⟨ex, h1, h2, h3⟩
  · rw [h2] at h; cases h
  · rw [h1] at h; cases h; exact ⟨ex, rfl, h2⟩

theorem next_step {ε : Type} (bs : Bytes) (off : Nat) (h4 : 4 ≤ (bs.drop off).length)
    (hn : lengthField (bs.drop off) ≤ (bs.drop off).length)
    (hnp : Packet.parse ((bs.drop off).take (lengthField (bs.drop off))) ≠ .panic) :
    (Compound.next ⟨bs, off, false⟩ : R ε _) =
      .ok (some (Packet.parse ((bs.drop off).take (lengthField (bs.drop off))), off),
        ⟨bs, off + lengthField (bs.drop off),
          !(Packet.parse ((bs.drop off).take (lengthField (bs.drop off)))).isOk ||
            decide (off + lengthField (bs.drop off) ≥ bs.length)⟩) := by
  have hlen : (bs.drop off).length = bs.length - off := List.length_drop
  unfold Compound.next
  simp only [Bool.false_eq_true, if_false]
  have hs : (sliceFrom bs off : R ε Bytes) = .ok (bs.drop off) := by
    unfold sliceFrom; rw [if_pos (by omega)]
  rw [hs]
  simp only [R.ok_bind, Read.parseLength_ok _ h4]
  have ht : (slice bs off (off + lengthField (bs.drop off)) : R ε Bytes) =
      .ok ((bs.drop off).take (lengthField (bs.drop off))) := by
    unfold slice
    rw [if_pos ⟨by omega, by omega⟩, List.drop_take]
    congr 2
    omega
  rw [ht]
  simp only [R.ok_bind]
  generalize Packet.parse ((bs.drop off).take (lengthField (bs.drop off))) = res at hnp ⊢
  cases res with
  | ok p => rfl
  | err e => rfl
  | panic => exact absurd rfl hnp

theorem collect_over {ε : Type} (fuel : Nat) (c : Compound) (h : c.isOver = true)
    (acc : List (R ParseError Packet × Nat)) :
    (Compound.collect (fuel + 1) c acc : R ε _) = .ok (acc, true, c) := by
  unfold Compound.collect
  unfold Compound.next
  rw [if_pos h]

theorem collect_step {ε : Type} (fuel : Nat) (c c' : Compound) (it : R ParseError Packet × Nat)
    (acc : List (R ParseError Packet × Nat)) (h : (Compound.next c : R ε _) = .ok (some it, c')) :
    (Compound.collect (fuel + 1) c acc : R ε _) = Compound.collect fuel c' (acc ++ [it]) := by
  conv => lhs; unfold Compound.collect
  rw [h]

theorem compound_collect_spec {ε : Type} (bs : Bytes) : ∀ (ts : List Bytes) (off fuel : Nat)
    (acc : List (R ParseError Packet × Nat)),
    off < bs.length → tiling (bs.drop off) = some ts → (∀ t ∈ ts, Packet.parse t ≠ .panic) →
    ts.length < fuel →
    ∃ items c', (Compound.collect fuel ⟨bs, off, false⟩ acc : R ε _) = .ok (acc ++ items, true, c') ∧
      items.map (·.1) = throughFirstErr (ts.map Packet.parse) ∧
      items.length ≤ ts.length ∧ c'.isOver = true := by
  intro ts
  induction ts with
  | nil =>
    intro off fuel acc hlt ht _ _
    have hne : bs.drop off ≠ [] := by
      intro e; have := congrArg List.length e
      simp only [List.length_drop, List.length_nil] at this; omega
    obtain ⟨_, _, ts', h1, _⟩ := tiling_cons _ _ hne ht
    cases h1
  | cons t ts ih =>
    intro off fuel acc hlt ht hnp hf
    have hlen : (bs.drop off).length = bs.length - off := List.length_drop
    have hne : bs.drop off ≠ [] := by
      intro e; have := congrArg List.length e
      simp only [List.length_nil] at this; omega
    obtain ⟨h4, hn, ts', h1, h2⟩ := tiling_cons _ _ hne ht
    cases h1
    have hg := lengthField_ge (bs.drop off)
    simp only [List.length_cons] at hf
    obtain ⟨f, rfl⟩ : ∃ f, fuel = f + 2 := ⟨fuel - 2, by omega⟩
    have hnp0 := hnp _ (List.mem_cons_self)
    have hstep := next_step (ε := ε) bs off h4 hn hnp0
    rw [collect_step (f + 1) _ _ _ acc hstep]
    rw [List.drop_drop] at h2
    simp only [List.map_cons]
    generalize hres : Packet.parse ((bs.drop off).take (lengthField (bs.drop off))) = res at hnp0 ⊢
    cases res with
    | panic => exact absurd rfl hnp0
    | err e =>
      have hov : (!(R.err e : R ParseError Packet).isOk ||
          decide (off + lengthField (bs.drop off) ≥ bs.length)) = true := by simp [R.isOk]
      rw [hov]
      refine ⟨[(.err e, off)], ⟨bs, off + lengthField (bs.drop off), true⟩, ?_, rfl, by simp, rfl⟩
      rw [collect_over f _ rfl]
    | ok p =>
      by_cases hend : off + lengthField (bs.drop off) ≥ bs.length
      · have hov : (!(R.ok p : R ParseError Packet).isOk ||
            decide (off + lengthField (bs.drop off) ≥ bs.length)) = true := by simp [hend]
        rw [hov]
        refine ⟨[(.ok p, off)], ⟨bs, off + lengthField (bs.drop off), true⟩, ?_, ?_, by simp, rfl⟩
        · rw [collect_over f _ rfl]
        · have hnil : bs.drop (off + lengthField (bs.drop off)) = [] := List.drop_eq_nil_of_le hend
          rw [hnil, tiling_nil] at h2
          cases h2
          rfl
      · have hd : (!(R.ok p : R ParseError Packet).isOk ||
            decide (off + lengthField (bs.drop off) ≥ bs.length)) = false := by
          simp [R.isOk, hend]
        rw [hd]
        obtain ⟨items, c', e1, e2, e3, e4⟩ := ih (off + lengthField (bs.drop off)) (f + 1)
          (acc ++ [(.ok p, off)]) (by omega) h2 (fun t ht => hnp t (List.mem_cons_of_mem _ ht))
          (by omega)
        refine ⟨(.ok p, off) :: items, c', ?_, ?_, ?_, e4⟩
        · rw [e1, List.append_assoc]; rfl
        · simp only [List.map_cons, throughFirstErr, e2]
        · simp only [List.length_cons]; omega

/-- iterating an accepted compound yields, in order, exactly what the generic parser returns for
    each tile, stopping after the first failing tile (yielding that error); never more items than
    tiles; and the iterator is then finished for good -/
theorem compound_iter {ε : Type} (bs : Bytes) (ts : List Bytes) (hne : bs ≠ []) (ht : tiling bs = some ts)
    (hnp : ∀ t ∈ ts, Packet.parse t ≠ .panic) (fuel : Nat) (hf : ts.length < fuel) :
    ∃ items c', (Compound.collect fuel ⟨bs, 0, false⟩ [] : R ε _) = .ok (items, true, c') ∧
      items.map (·.1) = throughFirstErr (ts.map Packet.parse) ∧
      items.length ≤ ts.length ∧ c'.isOver = true := by
  have hpos : 0 < bs.length := List.length_pos_iff.mpr hne
  obtain ⟨items, c', e1, e2, e3, e4⟩ :=
    compound_collect_spec (ε := ε) bs ts 0 fuel [] hpos (by rw [List.drop_zero]; exact ht) hnp hf
  exact ⟨items, c', by rw [e1, List.nil_append], e2, e3, e4⟩

/-- once finished, `next` keeps returning end-of-iteration and the state does not change -/
theorem compound_fused {ε : Type} (c : Compound) (h : c.isOver = true) :
    (Compound.next c : R ε _) = .ok (none, c) := by
  unfold Compound.next
  rw [if_pos h]

end Rtcp.Proofs
