/-
  Proofs: compound parsing and iteration.
-/
import Rtcp.Spec.All

namespace Rtcp.Proofs
open Rtcp Rtcp.Impl Rtcp.Spec

/-! ## compound parsing (C11) -/

/-- accepted exactly when non-empty and the chain of length fields tiles the string -/
theorem compound_parse_ok_iff (bs : Bytes) (c : Compound) :
    Compound.parse bs = .ok c ↔ c = ⟨bs, 0, false⟩ ∧ bs ≠ [] ∧ (tiling bs).isSome := by
  sorry

theorem compound_parse_no_panic (bs : Bytes) : Compound.parse bs ≠ .panic := by
  sorry

/-- C18: the errors of compound parsing are truncations with expected > actual -/
theorem compound_err_truthful (bs : Bytes) (e : ParseError) (h : Compound.parse bs = .err e) :
    ∃ ex, e = .truncated ex bs.length ∧ bs.length < ex := by
  sorry

/-- the tiles concatenate to the input and each has its header's length -/
theorem tiling_sound (bs : Bytes) (ts : List Bytes) (h : tiling bs = some ts) :
    ts.flatten = bs ∧ ∀ t ∈ ts, 4 ≤ t.length ∧ lengthField t = t.length := by
  sorry

/-- iterating an accepted compound yields, in order, exactly what the generic parser returns for
    each tile, stopping after the first failing tile (yielding that error); never more items than
    tiles; and the iterator is then finished for good -/
theorem compound_iter {ε : Type} (bs : Bytes) (ts : List Bytes) (hne : bs ≠ []) (ht : tiling bs = some ts)
    (hnp : ∀ t ∈ ts, Packet.parse t ≠ .panic) (fuel : Nat) (hf : ts.length < fuel) :
    ∃ items c', (Compound.collect fuel ⟨bs, 0, false⟩ [] : R ε _) = .ok (items, true, c') ∧
      items.map (·.1) = throughFirstErr (ts.map Packet.parse) ∧
      items.length ≤ ts.length ∧ c'.isOver = true := by
  sorry

/-- once finished, `next` keeps returning end-of-iteration and the state does not change -/
theorem compound_fused {ε : Type} (c : Compound) (h : c.isOver = true) :
    (Compound.next c : R ε _) = .ok (none, c) := by
  sorry

end Rtcp.Proofs
