/-
  Helper lemmas for the accessor proofs: header reads through `headerData`, `chunksExact` over a
  byte range, `unwrapBlocks`, `List.mapM` on all-ok inputs, sub-slices.
-/
import Rtcp.Spec.All
import Rtcp.Proofs.ReadLemmas

namespace Rtcp.Proofs.Acc
open Rtcp Rtcp.Impl Rtcp.Spec
open Rtcp.Proofs.Read

theorem parseSsrc_ok {ε : Type} (bs : Bytes) (h : 8 ≤ bs.length) :
    (parseSsrc bs : R ε UInt32) = .ok (u32At bs 4).toUInt32 := read32 bs 4 8 rfl h

theorem getD_header (bs : Bytes) (k : Nat) (hk : k < 4) :
    (range bs 0 4).getD k 0 = bs.getD k 0 := by
  have := getD_range bs 0 4 k (by omega)
  simpa using this

theorem header_length (bs : Bytes) (h : 4 ≤ bs.length) : (range bs 0 4).length = 4 := by
  rw [range_length bs 0 4 h]

theorem hCount_ok {ε : Type} (bs : Bytes) (h : 4 ≤ bs.length) :
    (hCount bs : R ε UInt8) = .ok (count bs).toUInt8 := by
  simp only [hCount, headerData, slice_ok bs 0 4 ⟨by omega, h⟩, R.ok_bind]
  rw [parseCount_ok _ (by rw [header_length bs h]; omega)]
  unfold count
  rw [getD_header bs 0 (by omega)]

theorem hLength_ok {ε : Type} (bs : Bytes) (h : 4 ≤ bs.length) :
    (hLength bs : R ε Nat) = .ok (lengthField bs) := by
  simp only [hLength, headerData, slice_ok bs 0 4 ⟨by omega, h⟩, R.ok_bind]
  rw [parseLength_ok _ (by rw [header_length bs h]; omega)]
  unfold lengthField
  rw [getD_header bs 2 (by omega), getD_header bs 3 (by omega)]

/-! ## chunks -/

theorem take_range (bs : Bytes) (a b k : Nat) (h : a + k ≤ b) :
    (range bs a b).take k = range bs a (a + k) := by
  have := range_range bs a b 0 k h
  simpa [range] using this

theorem drop_range (bs : Bytes) (a b k : Nat) :
    (range bs a b).drop k = range bs (a + k) b := by
  simp only [range, List.drop_drop]

theorem chunksExact_range (k : Nat) (hk : 0 < k) (bs : Bytes) (n a : Nat) (h : a + n * k ≤ bs.length) :
    chunksExact k (range bs a (a + n * k)) =
      (List.range n).map (fun i => range bs (a + k * i) (a + k * i + k)) := by
  induction n generalizing a with
  | zero =>
    have : (range bs a (a + 0 * k)).length = 0 := by
      rw [range_length _ _ _ (by omega)]; omega
    rw [chunksExact, dif_neg (by omega)]
    rfl
  | succ n ih =>
    have hlen : (range bs a (a + (n + 1) * k)).length = (n + 1) * k := by
      rw [range_length _ _ _ h]; omega
    have hk' : k ≤ (n + 1) * k := by rw [Nat.succ_mul]; omega
    rw [chunksExact, dif_pos ⟨hk, by omega⟩, List.range_succ_eq_map, List.map_cons, List.map_map]
    rw [take_range bs a _ k (by omega), drop_range]
    have e : a + (n + 1) * k = (a + k) + n * k := by rw [Nat.succ_mul]; omega
    rw [e, ih (a + k) (by omega)]
    congr 1
    apply List.map_congr_left
    intro i _
    simp only [Function.comp, Nat.succ_eq_add_one, Nat.mul_succ]
    congr 1 <;> omega

theorem unwrapBlocks_ok {ε : Type} (cs : List Bytes) (h : ∀ c ∈ cs, c.length = 24) :
    (unwrapBlocks cs : R ε (List Bytes)) = .ok cs := by
  induction cs with
  | nil => rfl
  | cons c cs ih =>
    have hc : c.length = 24 := h c (by simp)
    have := ih (fun x hx => h x (by simp [hx]))
    simp [unwrapBlocks, ReportBlock.parse, hc, this]

theorem reportBlocksAt_ok {ε : Type} (min : Nat) (bs : Bytes) (h4 : 4 ≤ bs.length)
    (h : min + 24 * count bs ≤ bs.length) :
    (reportBlocksAt min bs : R ε (List Bytes)) =
      .ok ((List.range (count bs)).map (fun i => range bs (min + 24 * i) (min + 24 * i + 24))) := by
  simp only [reportBlocksAt, hCount_ok bs h4, R.ok_bind, count_toUInt8_toNat]
  rw [slice_ok bs min _ ⟨by omega, by omega⟩]
  simp only [R.ok_bind]
  rw [chunksExact_range 24 (by omega) bs (count bs) min (by omega)]
  apply unwrapBlocks_ok
  intro c hc
  simp only [List.mem_map, List.mem_range] at hc
  obtain ⟨i, hi, rfl⟩ := hc
  rw [range_length]
  · omega
  · omega

theorem mapM_loop_ok {ε α β : Type} (f : α → R ε β) (g : α → β) (as : List α) (acc : List β)
    (h : ∀ a ∈ as, f a = .ok (g a)) :
    List.mapM.loop f as acc = .ok (acc.reverse ++ as.map g) := by
  induction as generalizing acc with
  | nil => simp [List.mapM.loop]
  | cons a as ih =>
    simp only [List.mapM.loop, h a (by simp), R.ok_bind]
    rw [ih _ (fun x hx => h x (by simp [hx]))]
    simp

theorem mapM_ok {ε α β : Type} (f : α → R ε β) (g : α → β) (as : List α)
    (h : ∀ a ∈ as, f a = .ok (g a)) : as.mapM f = .ok (as.map g) := by
  simp [List.mapM, mapM_loop_ok f g as [] h]

theorem mapM_map_ok {ε ι α β : Type} (f : α → R ε β) (r : ι → α) (g : ι → β) (xs : List ι)
    (h : ∀ x ∈ xs, f (r x) = .ok (g x)) : (xs.map r).mapM f = .ok (xs.map g) := by
  have key : ∀ acc : List β, List.mapM.loop f (xs.map r) acc = .ok (acc.reverse ++ xs.map g) := by
    induction xs with
    | nil => intro acc; simp [List.mapM.loop]
    | cons a as ih =>
      intro acc
      simp only [List.map_cons, List.mapM.loop, h a (by simp), R.ok_bind]
      rw [ih (fun x hx => h x (by simp [hx]))]
      simp
  simp [List.mapM, key []]

/-! ## reads in a dropped string -/

theorem u8At_drop (bs : Bytes) (a i : Nat) : u8At (bs.drop a) i = u8At bs (a + i) := by
  simp [u8At, List.getD_eq_getElem?_getD, List.getElem?_drop]

theorem u32At_drop (bs : Bytes) (a i : Nat) : u32At (bs.drop a) i = u32At bs (a + i) := by
  simp only [u32At, u16At, u8At_drop, Nat.add_assoc]

/-! ## sub-slices -/

theorem bind_eq_ok {ε α β : Type} (x : R ε α) (f : α → R ε β) (b : β) (h : (x >>= f) = .ok b) :
    ∃ a, x = .ok a ∧ f a = .ok b := by
  cases x with
  | ok a => exact ⟨a, rfl, h⟩
  | err e => cases h
  | panic => cases h


theorem sliceS_subSlice {ε : Type} (d : Bytes) (a b : Nat) (s : Slice)
    (h : (sliceS 0 d a b : R ε Slice) = .ok s) : SubSlice s d := by
  unfold sliceS at h
  split at h
  · rename_i hc
    injection h with h
    subst h
    have hl : ((d.take b).drop a).length = b - a := by
      simp [List.length_drop, List.length_take, Nat.min_eq_left hc.2]
    simp only [SubSlice, hl, range]
    have e : 0 + a + (b - a) = b := by omega
    rw [e]
    exact ⟨hc.2, by simp⟩
  · cases h

end Rtcp.Proofs.Acc
