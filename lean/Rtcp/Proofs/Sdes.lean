/-
  Proofs (split over several files).
-/
import Rtcp.Proofs.SdesScan
import Rtcp.Proofs.SdesEncode
