/-
  Proofs: SDES, FCI, feedback and compound builders refine their RFC images.
-/
import Rtcp.Proofs.WritersFixed

namespace Rtcp.Proofs
open Rtcp Rtcp.Impl Rtcp.Spec Rtcp.Props

theorem item_refines (b : SdesItemBuilder) :
    Refines ⟨b.calcSize, b.writeUnchecked, none⟩ (itemImage b) := by sorry

theorem chunk_refines (b : SdesChunkBuilder) :
    Refines ⟨b.calcSize, b.writeUnchecked, none⟩ (chunkImage b) := by sorry

theorem sdes_refines (b : SdesBuilder) : Refines b.toWriter (sdesImage b) := by sorry

theorem nack_sorted_add (b : NackBuilder) (s : UInt16) (h : b.rtpSeq.Pairwise (· < ·)) :
    (b.addRtpSequence s).rtpSeq.Pairwise (· < ·) := by sorry

theorem nack_refines (b : NackBuilder) (h : b.rtpSeq.Pairwise (· < ·)) : Refines b.toFci.w (nackImage b) := by sorry
theorem fir_refines (b : FirBuilder) : Refines b.toFci.w (firImage b) := by sorry
theorem sli_refines (b : SliBuilder) : Refines b.toFci.w (sliImage b) := by sorry
theorem rpsi_refines (b : RpsiBuilder) : Refines b.toFci.w (rpsiImage b) := by sorry
theorem pli_refines : Refines pliFci.w [] := by sorry

theorem fb_refines (k : FbKind) (f : FciB)
    (hf : match f with | .nack b => b.rtpSeq.Pairwise (· < ·) | _ => True) (p : UInt8) (s m : UInt32) :
    Refines (FbBuilder.toWriter ⟨k, f.toFci, p, s, m⟩) (fbImage k f p s m) := by sorry

theorem compound_refines (ms : List Writer) (imgs : List Bytes)
    (h : (List.length ms = List.length imgs) ∧ ∀ i (h1 : i < ms.length) (h2 : i < imgs.length), Refines ms[i] imgs[i]) :
    Refines (CompoundBuilder.toWriter ms) imgs.flatten := by sorry

theorem compound_size_sum (ms : List Writer) (n : Nat) (h : CompoundBuilder.calcSize ms = .ok n) :
    ∃ sizes : List Nat, sizes.length = ms.length ∧ sizes.sum = n ∧
      ∀ i (hi : i < ms.length), ms[i].calcSize = .ok (sizes.getD i 0) := by sorry

theorem compound_accept_iff (ms : List Writer) (hnp : ∀ m ∈ ms, m.calcSize ≠ .panic) :
    (∃ n, CompoundBuilder.calcSize ms = .ok n) ↔
      (∀ m ∈ ms, ∃ k, m.calcSize = .ok k) ∧
      (∀ i (hi : i < ms.length), i + 1 < ms.length → (ms[i].getPadding.getD 0) = 0) := by sorry

end Rtcp.Proofs
