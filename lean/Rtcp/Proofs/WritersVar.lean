/-
  Proofs (split over several files).
-/
import Rtcp.Proofs.WritersSdes
import Rtcp.Proofs.WritersFci
import Rtcp.Proofs.WritersCompound
