/-
  Helper lemmas for the variable-layout writers (SDES, FCI, feedback, compound).

  Style: the buffer is viewed as `d ++ r` (`d` = bytes already written, `r` = the rest) and the
  next write happens at offset `d.length`.  Everything lives in `Rtcp.Proofs.Var` so that it cannot
  clash with the sibling file `BufLemmas.lean`.
-/
import Rtcp.Props.WriterContract
import Rtcp.Spec.Wire

namespace Rtcp.Proofs.Var
open Rtcp Rtcp.Impl Rtcp.Spec Rtcp.Props

/-! ## buffer primitives on `d ++ r` -/

theorem setByte_app {ε : Type} (d r : Bytes) (i : Nat) (v : UInt8) (hi : i = d.length)
    (hr : 0 < r.length) :
    (setByte (d ++ r) i v : R ε Bytes) = .ok ((d ++ [v]) ++ r.drop 1) := by
  subst hi
  unfold setByte
  cases r with
  | nil => simp at hr
  | cons x xs => simp

theorem copyAt_app {ε : Type} (d r src : Bytes) (a b : Nat) (ha : a = d.length)
    (hb : b = d.length + src.length) (hr : src.length ≤ r.length) :
    (copyAt (d ++ r) a b src : R ε Bytes) = .ok ((d ++ src) ++ r.drop src.length) := by
  subst ha hb
  unfold copyAt
  have h : d.length ≤ d.length + src.length ∧ d.length + src.length ≤ (d ++ r).length ∧
      d.length + src.length - d.length = src.length := by
    simp only [List.length_append]; omega
  rw [if_pos h]
  simp [List.drop_append]

theorem fillAt_app {ε : Type} (d r : Bytes) (a b k : Nat) (v : UInt8) (ha : a = d.length)
    (hb : b = d.length + k) (hr : k ≤ r.length) :
    (fillAt (d ++ r) a b v : R ε Bytes) = .ok ((d ++ List.replicate k v) ++ r.drop k) := by
  subst ha hb
  unfold fillAt
  have h : d.length ≤ d.length + k ∧ d.length + k ≤ (d ++ r).length := by
    simp only [List.length_append]; omega
  rw [if_pos h]
  simp [List.drop_append]

theorem idx_app {ε : Type} (d r : Bytes) (x : UInt8) (i : Nat) (hi : i = d.length) :
    (idx (d ++ x :: r) i : R ε UInt8) = .ok x := by
  subst hi
  unfold idx
  simp

theorem setByte_mid {ε : Type} (d r : Bytes) (x v : UInt8) (i : Nat) (hi : i = d.length) :
    (setByte (d ++ x :: r) i v : R ε Bytes) = .ok (d ++ v :: r) := by
  subst hi
  unfold setByte
  simp

theorem withTail_app {ε α : Type} (d r : Bytes) (i : Nat) (f : Bytes → R ε (Bytes × α))
    (hi : i = d.length) :
    withTail (d ++ r) i f =
      match f r with
      | .ok (t, x) => .ok (d ++ t, x)
      | .err e => .err e
      | .panic => .panic := by
  subst hi
  unfold withTail
  simp only [List.length_append, Nat.le_add_right, ↓reduceIte, List.drop_left', List.take_left']
  rcases f r with ⟨t, x⟩ | e | _ <;> rfl

theorem withTail_app_ok {ε α : Type} (d r t : Bytes) (x : α) (i : Nat) (f : Bytes → R ε (Bytes × α))
    (hi : i = d.length) (hf : f r = .ok (t, x)) :
    withTail (d ++ r) i f = .ok (d ++ t, x) := by
  rw [withTail_app d r i f hi, hf]

theorem withRange_app_ok {ε α : Type} (d r t : Bytes) (x : α) (a b k : Nat) (f : Bytes → R ε (Bytes × α))
    (ha : a = d.length) (hb : b = d.length + k) (hk : k ≤ r.length) (hf : f (r.take k) = .ok (t, x)) :
    withRange (d ++ r) a b f = .ok ((d ++ t) ++ r.drop k, x) := by
  subst ha hb
  unfold withRange
  have h : d.length ≤ d.length + k ∧ d.length + k ≤ (d ++ r).length := by
    simp only [List.length_append]; omega
  rw [if_pos h]
  have e1 : List.drop d.length (List.take (d.length + k) (d ++ r)) = r.take k := by
    simp [List.take_append]
  have e2 : List.drop (d.length + k) (d ++ r) = r.drop k := by
    simp [List.drop_append]
  have e3 : List.take d.length (d ++ r) = d := by simp
  rw [e1, hf, e2, e3]

/-! ## pad4 -/

theorem pad4_ge (n : Nat) : n ≤ pad4 n := by unfold pad4; omega
theorem pad4_mod (n : Nat) : pad4 n % 4 = 0 := by unfold pad4; omega
theorem pad4_lt (n : Nat) : pad4 n < n + 4 := by unfold pad4; omega
theorem pad4_of_mod {n : Nat} (h : n % 4 = 0) : pad4 n = n := by unfold pad4; omega

/-! ## lengths -/

@[simp] theorem length_be16 (x : UInt16) : (be16 x).length = 2 := rfl
@[simp] theorem length_be32 (x : UInt32) : (be32 x).length = 4 := rfl
@[simp] theorem length_header (pt : UInt8) (p : Bool) (c t : Nat) : (Spec.header pt p c t).length = 4 := rfl

theorem u8_eq_zero_of_toNat {p : UInt8} (h : p.toNat = 0) : p = 0 :=
  UInt8.toNat_inj.mp (by simpa using h)

theorem u8_pos_iff (p : UInt8) : p > 0 ↔ p ≠ 0 := by
  constructor
  · intro h he; subst he; exact absurd h (by decide)
  · intro h
    have : (0 : UInt8) < p ↔ (0 : UInt8).toNat < p.toNat := UInt8.lt_iff_toNat_lt
    apply this.mpr
    have h0 : p.toNat ≠ 0 := fun e => h (u8_eq_zero_of_toNat e)
    simp; omega

theorem length_trailer (p : UInt8) : (Spec.trailer p).length = p.toNat := by
  unfold Spec.trailer
  split
  · next h => subst h; rfl
  · next h =>
    have : p.toNat ≠ 0 := fun e => h (u8_eq_zero_of_toNat e)
    simp; omega

theorem length_zfill (b : Bytes) : (Spec.zfill b).length = pad4 b.length := by
  unfold Spec.zfill
  have := pad4_ge b.length
  simp; omega

/-! ## the tail-writer contract: a writer that is handed `&mut buf[i..]` -/

/-- `f` writes `img` at the start of any slice that is long enough, leaves the rest, returns the size. -/
def TailSpec (f : Bytes → R WriteError (Bytes × Nat)) (img : Bytes) : Prop :=
  ∀ r : Bytes, img.length ≤ r.length → f r = .ok (img ++ r.drop img.length, img.length)

theorem TailSpec.exact {f : Bytes → R WriteError (Bytes × Nat)} {img : Bytes} (h : TailSpec f img)
    (buf : Bytes) (n : Nat) (hl : img.length = n) (hb : buf.length = n) : f buf = .ok (img, n) := by
  have := h buf (by omega)
  rw [this]
  have : List.drop img.length buf = [] := by
    apply List.drop_eq_nil_of_le; omega
  rw [this, hl]; simp

theorem refines_of_tail (cs : R WriteError Nat) (f : Bytes → R WriteError (Bytes × Nat))
    (g : Option UInt8) (img : Bytes) (hnp : cs ≠ .panic)
    (h : ∀ n, cs = .ok n → img.length = n ∧ TailSpec f img) : Refines ⟨cs, f, g⟩ img where
  noPanic := hnp
  exact := by
    intro n hn
    obtain ⟨hl, ht⟩ := h n hn
    exact ⟨hl, fun buf hb => ht.exact buf n hl hb⟩

/-! ## header and padding trailer -/

theorem b0_fin : ∀ n : Fin 32,
    (((2 : UInt8) <<< 6) ||| 0x20 ||| n.val.toUInt8 = (128 + 32 + n.val % 32).toUInt8) ∧
    (((2 : UInt8) <<< 6) ||| 0 ||| n.val.toUInt8 = (128 + 0 + n.val % 32).toUInt8) := by
  decide +kernel

theorem b0_eq (c : UInt8) (hc : c.toNat ≤ 31) :
    (((2 : UInt8) <<< 6) ||| 0x20 ||| c = (128 + 32 + c.toNat % 32).toUInt8) ∧
    (((2 : UInt8) <<< 6) ||| 0 ||| c = (128 + 0 + c.toNat % 32).toUInt8) := by
  have := b0_fin ⟨c.toNat, by omega⟩
  have hcc : c.toNat.toUInt8 = c := by simp [Nat.toUInt8]
  simpa [hcc] using this

theorem writeHeader_app {ε : Type} (pt padding count : UInt8) (buf : Bytes)
    (h4 : 4 ≤ buf.length) (hc : count.toNat ≤ 31) :
    (writeHeader pt padding count buf : R ε Bytes)
      = .ok (Spec.header pt (padding != 0) count.toNat buf.length ++ buf.drop 4) := by
  match buf, h4 with
  | a :: b :: c :: e :: rest, _ =>
    have hb := b0_eq count hc
    have h1 : 1 ≤ (rest.length + 1 + 1 + 1 + 1) / 4 := by omega
    unfold writeHeader Spec.header
    simp only [setByte, copyAt, usub, bind, R.bind]
    by_cases hp : padding > 0
    · have hp' : (padding != 0) = true := by
        simp only [bne_iff_ne, ne_eq]; exact (u8_pos_iff padding).mp hp
      simp [hp, hp', hb.1, h1]
    · have hp' : (padding != 0) = false := by
        have : ¬ padding ≠ 0 := fun h => hp ((u8_pos_iff padding).mpr h)
        simpa using this
      simp [hp, hp', h1]
      simpa using hb.2

theorem writePadding_app {ε : Type} (padding : UInt8) (buf : Bytes) (h : padding.toNat ≤ buf.length) :
    (writePadding padding buf : R ε (Bytes × Nat))
      = .ok (Spec.trailer padding ++ buf.drop padding.toNat, padding.toNat) := by
  unfold writePadding Spec.trailer
  by_cases hp : padding > 0
  · have hne : padding ≠ 0 := (u8_pos_iff padding).mp hp
    have hn : padding.toNat ≠ 0 := fun e => hne (u8_eq_zero_of_toNat e)
    simp only [hp, hne, ↓reduceIte, bind, R.bind, pure]
    have := fillAt_app (ε := ε) [] buf 0 (padding.toNat - 1) (padding.toNat - 1) 0 rfl (by simp) (by omega)
    simp only [List.nil_append] at this
    rw [this]
    simp only
    rw [setByte_app _ _ _ _ (by simp) (by simp; omega)]
    simp only [List.drop_drop]
    have : padding.toNat - 1 + 1 = padding.toNat := by omega
    rw [this]
  · have hne : padding = 0 := by
      apply Classical.byContradiction; intro h; exact hp ((u8_pos_iff padding).mpr h)
    subst hne
    simp

theorem checkPadding_ok {p : UInt8} (h : checkPadding p = .ok ()) : p.toNat % 4 = 0 := by
  unfold checkPadding at h
  split at h
  · cases h
  · next hh =>
    simp at hh
    have := congrArg UInt8.toNat hh
    simpa using this

end Rtcp.Proofs.Var
