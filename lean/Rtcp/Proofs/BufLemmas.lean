/-
  Reusable lemmas about the buffer primitives of `Rtcp.Basic`, in the "sequential write" style:
  the buffer is `done ++ rest` and the next write happens at offset `done.length`.

  All offset hypotheses are stated as equations (`done.length = a`, `a + src.length = b`) so that
  the lemmas can be used with concrete offsets (`rw [copyAt_append (by simp) (by simp) (by simp; omega)]`).
-/
import Rtcp.Spec.Wire
import Rtcp.Props.WriterContract

namespace Rtcp.Proofs
open Rtcp Rtcp.Impl

/-- side conditions of the buffer lemmas: `omega`, or `simp` (with extra lemmas) then `omega` -/
syntax "buf_side" ("[" Lean.Parser.Tactic.simpLemma,* "]")? : tactic
macro_rules
  | `(tactic| buf_side) => `(tactic| first | omega | (simp [-List.length_flatten] <;> omega))
  | `(tactic| buf_side [$ls,*]) =>
    `(tactic| first | omega | (simp [-List.length_flatten, $ls,*] <;> omega))

/-! ## lengths of encoders and images -/

@[simp] theorem be16_length (x : UInt16) : (be16 x).length = 2 := rfl
@[simp] theorem be32_length (x : UInt32) : (be32 x).length = 4 := rfl
@[simp] theorem be64_length (x : UInt64) : (be64 x).length = 8 := by simp [be64]

@[simp] theorem header_length (pt : UInt8) (pbit : Bool) (count total : Nat) :
    (Spec.header pt pbit count total).length = 4 := rfl

theorem trailer_length (p : UInt8) : (Spec.trailer p).length = p.toNat := by
  unfold Spec.trailer
  split
  · next h => subst h; rfl
  · next h =>
    have : p.toNat ≠ 0 := fun h' => h (UInt8.toNat_inj.mp (by simpa using h'))
    simp; omega

theorem packet_length (pt : UInt8) (count : Nat) (padding : UInt8) (body : Bytes) :
    (Spec.packet pt count padding body).length = 4 + body.length + padding.toNat := by
  simp [Spec.packet, trailer_length]; omega

/-! ## pad4 -/

theorem pad4_mod (n : Nat) : pad4 n % 4 = 0 := by unfold pad4; omega
theorem le_pad4 (n : Nat) : n ≤ pad4 n := by unfold pad4; omega
theorem pad4_lt (n : Nat) : pad4 n < n + 4 := by unfold pad4; omega
theorem pad4_of_mod {n : Nat} (h : n % 4 = 0) : pad4 n = n := by unfold pad4; omega
theorem pad4_add_of_mod {m : Nat} (n : Nat) (h : m % 4 = 0) : pad4 (m + n) = m + pad4 n := by
  unfold pad4; omega

theorem zfill_length (b : Bytes) : (Spec.zfill b).length = pad4 b.length := by
  have := le_pad4 b.length
  simp [Spec.zfill]; omega

/-! ## writes at offset `done.length` of `done ++ rest` -/

theorem setByte_append {ε : Type} {done rest : Bytes} {i : Nat} (v : UInt8)
    (hi : done.length = i) (hr : 0 < rest.length) :
    (setByte (done ++ rest) i v : R ε Bytes) = .ok (done ++ v :: rest.drop 1) := by
  subst hi
  cases rest with
  | nil => simp at hr
  | cons x xs => simp [setByte]

/-- the same, with the overwritten byte visible -/
theorem setByte_append_cons {ε : Type} {done rest : Bytes} {i : Nat} (x v : UInt8)
    (hi : done.length = i) :
    (setByte (done ++ x :: rest) i v : R ε Bytes) = .ok (done ++ v :: rest) := by
  subst hi; simp [setByte]

/-- overwrite the first byte of the block `mid` written just before -/
theorem setByte_mid {ε : Type} {done mid rest : Bytes} {i : Nat} (v : UInt8)
    (hi : done.length = i) (hm : 0 < mid.length) :
    (setByte (done ++ mid ++ rest) i v : R ε Bytes) = .ok (done ++ (v :: mid.drop 1) ++ rest) := by
  subst hi
  cases mid with
  | nil => simp at hm
  | cons x xs => simp [setByte]

theorem copyAt_append {ε : Type} {done rest src : Bytes} {a b : Nat}
    (ha : done.length = a) (hb : a + src.length = b) (hr : src.length ≤ rest.length) :
    (copyAt (done ++ rest) a b src : R ε Bytes) = .ok (done ++ src ++ rest.drop src.length) := by
  subst ha; subst hb
  have h : done.length ≤ done.length + src.length ∧ done.length + src.length ≤ (done ++ rest).length ∧
      done.length + src.length - done.length = src.length := by
    simp; omega
  simp only [copyAt, h, and_self, ↓reduceIte]
  simp [List.drop_append]

theorem copyFrom_append {ε : Type} {done rest src : Bytes} {a : Nat}
    (ha : done.length = a) (hr : src.length = rest.length) :
    (copyFrom (done ++ rest) a src : R ε Bytes) = .ok (done ++ src) := by
  subst ha
  have h : done.length ≤ (done ++ rest).length ∧ (done ++ rest).length - done.length = src.length := by
    simp; omega
  simp only [copyFrom, h, and_self, ↓reduceIte]
  simp

theorem fillAt_append {ε : Type} {done rest : Bytes} {a b : Nat} (v : UInt8)
    (ha : done.length = a) (hab : a ≤ b) (hr : b - a ≤ rest.length) :
    (fillAt (done ++ rest) a b v : R ε Bytes)
      = .ok (done ++ List.replicate (b - a) v ++ rest.drop (b - a)) := by
  subst ha
  have h : done.length ≤ b ∧ b ≤ (done ++ rest).length := by simp; omega
  simp only [fillAt, h, and_self, ↓reduceIte]
  simp [List.drop_append]
  omega

/-- the guarded fill `if a < b { buf[a..b].fill(v) }` (also matches `if b > a`) -/
theorem fillAt_append_if {ε : Type} {done rest : Bytes} {a b : Nat} (v : UInt8)
    (ha : done.length = a) (hab : a ≤ b) (hr : b - a ≤ rest.length) :
    ((if a < b then fillAt (done ++ rest) a b v else pure (done ++ rest)) : R ε Bytes)
      = .ok (done ++ List.replicate (b - a) v ++ rest.drop (b - a)) := by
  split
  · exact fillAt_append v ha hab hr
  · have : b - a = 0 := by omega
    simp [this]

/-- the guarded fill as the `do` elaborator produces it (continuation duplicated in both branches) -/
theorem fillAt_append_if_bind {ε β : Type} {done rest : Bytes} {a b : Nat} (v : UInt8)
    (k : Bytes → R ε β)
    (ha : done.length = a) (hab : a ≤ b) (hr : b - a ≤ rest.length) :
    (if a < b then (fillAt (done ++ rest) a b v : R ε Bytes) >>= k else pure (done ++ rest) >>= k)
      = k (done ++ List.replicate (b - a) v ++ rest.drop (b - a)) := by
  split
  · rw [fillAt_append v ha hab hr]; rfl
  · have : b - a = 0 := by omega
    simp [this]

theorem withTail_append {ε α : Type} {done rest t : Bytes} {a : Nat} {r : α}
    {f : Bytes → R ε (Bytes × α)} (ha : done.length = a) (hf : f rest = .ok (t, r)) :
    withTail (done ++ rest) a f = .ok (done ++ t, r) := by
  subst ha
  simp [withTail, hf]

theorem withTail_append_err {ε α : Type} {done rest : Bytes} {a : Nat} {e : ε}
    {f : Bytes → R ε (Bytes × α)} (ha : done.length = a) (hf : f rest = .err e) :
    withTail (done ++ rest) a f = .err e := by
  subst ha
  simp [withTail, hf]

theorem withRange_append {ε α : Type} {done rest t : Bytes} {a b : Nat} {r : α}
    {f : Bytes → R ε (Bytes × α)} (ha : done.length = a) (hab : a ≤ b) (hr : b - a ≤ rest.length)
    (hf : f (rest.take (b - a)) = .ok (t, r)) :
    withRange (done ++ rest) a b f = .ok (done ++ t ++ rest.drop (b - a), r) := by
  subst ha
  obtain ⟨k, rfl⟩ := Nat.exists_eq_add_of_le hab
  have hk : done.length + k - done.length = k := by omega
  rw [hk] at hf hr ⊢
  have h : done.length ≤ done.length + k ∧ done.length + k ≤ (done ++ rest).length := by simp; omega
  have h2 : List.drop done.length (List.take (done.length + k) (done ++ rest)) = rest.take k := by
    simp [List.take_length_add_append]
  simp only [withRange, h, and_self, ↓reduceIte, h2, hf]
  simp [List.drop_append]

/-! ## writes at offset 0 -/

theorem copyAt_zero {ε : Type} {buf src : Bytes} {b : Nat} (hb : src.length = b) (hr : b ≤ buf.length) :
    (copyAt buf 0 b src : R ε Bytes) = .ok (src ++ buf.drop b) := by
  have := copyAt_append (ε := ε) (done := []) (rest := buf) (src := src) (a := 0) (b := b) rfl
    (by simpa using hb) (by omega)
  simpa [hb] using this

theorem fillAt_zero {ε : Type} {buf : Bytes} {b : Nat} (v : UInt8) (hr : b ≤ buf.length) :
    (fillAt buf 0 b v : R ε Bytes) = .ok (List.replicate b v ++ buf.drop b) := by
  have := fillAt_append (ε := ε) (done := []) (rest := buf) (a := 0) (b := b) v rfl (by omega) (by omega)
  simpa using this

/-! ## `drop` bookkeeping -/

theorem drop_eq_nil_of_length {α : Type} {l : List α} {n : Nat} (h : l.length = n) : l.drop n = [] := by
  subst h; simp

/-! ## the header byte -/

/-- to decide a statement over all bytes: `apply u8_forall; decide +kernel` -/
theorem u8_forall {P : UInt8 → Prop} (h : ∀ n : Fin 256, P n.val.toUInt8) : ∀ c, P c := by
  intro c
  have := h ⟨c.toNat, c.toNat_lt⟩
  simpa [Nat.toUInt8] using this

theorem header_byte_nopad : ∀ c : UInt8, c.toNat ≤ 31 →
    ((2 : UInt8) <<< 6) ||| 0 ||| c = (128 + 0 + c.toNat % 32).toUInt8 := by
  apply u8_forall; decide +kernel

theorem header_byte_pad : ∀ c : UInt8, c.toNat ≤ 31 →
    ((2 : UInt8) <<< 6) ||| 0x20 ||| c = (128 + 32 + c.toNat % 32).toUInt8 := by
  apply u8_forall; decide +kernel

theorem u8_pos_iff_ne_zero (p : UInt8) : (p > 0) ↔ p ≠ 0 := by
  revert p; apply u8_forall; decide +kernel

theorem u8_mod4_bne : ∀ p : UInt8, (p % 4 != 0) = (p.toNat % 4 != 0) := by
  apply u8_forall; decide +kernel

theorem header_byte (padding count : UInt8) (hc : count.toNat ≤ 31) :
    ((2 : UInt8) <<< 6) ||| (if padding > 0 then 0x20 else 0) ||| count
      = (128 + (if (padding != 0) = true then 32 else 0) + count.toNat % 32).toUInt8 := by
  by_cases hp : padding = 0
  · subst hp
    simpa using header_byte_nopad count hc
  · have h1 : padding > 0 := (u8_pos_iff_ne_zero padding).mpr hp
    simp only [h1, ↓reduceIte, bne_iff_ne, ne_eq, hp, not_false_eq_true]
    exact header_byte_pad count hc

/-! ## `write_header_unchecked` / `write_padding_unchecked` / `check_padding` -/

/-- `writeHeader` on any buffer of at least 4 bytes, any count. -/
theorem writeHeader_ok {ε : Type} (pt padding count : UInt8) (buf : Bytes) (h4 : 4 ≤ buf.length) :
    (writeHeader pt padding count buf : R ε Bytes)
      = .ok ([((2 : UInt8) <<< 6) ||| (if padding > 0 then 0x20 else 0) ||| count, pt]
          ++ be16 ((buf.length / 4 - 1) % 65536).toUInt16 ++ buf.drop 4) := by
  rcases buf with _ | ⟨a, _ | ⟨b, _ | ⟨c, _ | ⟨d, rest⟩⟩⟩⟩ <;> simp at h4
  have h1 : 1 ≤ (rest.length + 1 + 1 + 1 + 1) / 4 := by omega
  simp [writeHeader, setByte, usub, copyAt, h1]

/-- = `writeHeader_spec` of WritersFixed (which re-exports it under that name) -/
theorem writeHeader_eq {ε : Type} (pt padding count : UInt8) (buf : Bytes)
    (h4 : 4 ≤ buf.length) (hc : count.toNat ≤ 31) :
    (writeHeader pt padding count buf : R ε Bytes)
      = .ok (Spec.header pt (padding != 0) count.toNat buf.length ++ buf.drop 4) := by
  rw [writeHeader_ok pt padding count buf h4, header_byte padding count hc]
  rfl

theorem writeHeader_panic_iff_lt {ε : Type} (pt padding count : UInt8) (buf : Bytes) :
    (writeHeader pt padding count buf : R ε Bytes) = .panic ↔ buf.length < 4 := by
  constructor
  · intro h
    by_cases h4 : 4 ≤ buf.length
    · rw [writeHeader_ok pt padding count buf h4] at h
      cases h
    · omega
  · intro h
    rcases buf with _ | ⟨a, _ | ⟨b, _ | ⟨c, _ | ⟨d, rest⟩⟩⟩⟩
    · simp [writeHeader, setByte]
    · simp [writeHeader, setByte]
    · simp [writeHeader, setByte, usub]
    · simp [writeHeader, setByte, usub]
    · simp at h; omega

/-- = `writePadding_spec` of WritersFixed -/
theorem writePadding_eq {ε : Type} (padding : UInt8) (buf : Bytes) (h : padding.toNat ≤ buf.length) :
    (writePadding padding buf : R ε (Bytes × Nat))
      = .ok (Spec.trailer padding ++ buf.drop padding.toNat, padding.toNat) := by
  by_cases hp : padding = 0
  · subst hp
    simp [writePadding, Spec.trailer]
  · have h1 : padding > 0 := (u8_pos_iff_ne_zero padding).mpr hp
    have h2 : padding.toNat ≠ 0 := fun h' => hp (UInt8.toNat_inj.mp (by simpa using h'))
    simp only [writePadding, h1, ↓reduceIte, Spec.trailer, hp]
    rw [fillAt_zero 0 (by omega)]
    simp only [R.ok_bind]
    rw [setByte_append padding (by simp) (by simp; omega)]
    simp only [R.ok_bind, R.pure_eq, List.drop_drop]
    have : padding.toNat - 1 + 1 = padding.toNat := by omega
    simp [this]

/-- `writePadding` spliced at the end of the bytes written so far. -/
theorem withTail_writePadding {ε : Type} {done rest : Bytes} {a : Nat} (padding : UInt8)
    (ha : done.length = a) (hr : padding.toNat ≤ rest.length) :
    (withTail (done ++ rest) a (writePadding padding) : R ε (Bytes × Nat))
      = .ok (done ++ (Spec.trailer padding ++ rest.drop padding.toNat), padding.toNat) :=
  withTail_append ha (writePadding_eq padding rest hr)

/-- the last step of every packet writer: the padding fills the remaining bytes exactly -/
theorem withTail_writePadding_final {ε : Type} {done rest : Bytes} {a : Nat} (padding : UInt8)
    (ha : done.length = a) (hr : rest.length = padding.toNat) :
    (withTail (done ++ rest) a (writePadding padding) : R ε (Bytes × Nat))
      = .ok (done ++ Spec.trailer padding, padding.toNat) := by
  rw [withTail_writePadding padding ha (by omega), drop_eq_nil_of_length hr, List.append_nil]

theorem toUInt8_toNat_of_lt {n : Nat} (h : n < 256) : (n % 256).toUInt8.toNat = n := by
  simp [Nat.toUInt8]; omega

/-- assembling a packet image from its header (for a buffer of the right total size), body and trailer -/
theorem packet_eq (pt : UInt8) (count : Nat) (padding : UInt8) (body : Bytes) {total : Nat}
    (ht : total = 4 + body.length + padding.toNat) :
    Spec.header pt (padding != 0) count total ++ body ++ Spec.trailer padding
      = Spec.packet pt count padding body := by
  subst ht
  simp [Spec.packet, trailer_length]

/-- overwrite the packet type of a header just written (`UnknownBuilder`) -/
theorem setByte_header_pt {ε : Type} (pt v : UInt8) (pbit : Bool) (count total : Nat) (rest : Bytes) :
    (setByte (Spec.header pt pbit count total ++ rest) 1 v : R ε Bytes)
      = .ok (Spec.header v pbit count total ++ rest) := by
  simp [Spec.header, setByte]

/-! ## building `Refines` from a case analysis of `calcSize` -/

theorem refines_of_err {w : Writer} {img : Bytes} {e : WriteError} (h : w.calcSize = .err e) :
    Props.Refines w img :=
  ⟨by rw [h]; simp, by intro n hn; rw [h] at hn; cases hn⟩

theorem refines_of_ok {w : Writer} {img : Bytes} {n : Nat} (h : w.calcSize = .ok n)
    (hl : img.length = n) (hw : ∀ buf : Bytes, buf.length = n → w.write buf = .ok (img, n)) :
    Props.Refines w img :=
  ⟨by rw [h]; simp, by intro m hm; rw [h] at hm; cases hm; exact ⟨hl, hw⟩⟩

theorem checkPadding_ok_iff_mod (p : UInt8) : checkPadding p = .ok () ↔ p.toNat % 4 = 0 := by
  unfold checkPadding
  rw [u8_mod4_bne]
  by_cases h : p.toNat % 4 = 0 <;> simp [h]

theorem checkPadding_cases (p : UInt8) :
    (p.toNat % 4 = 0 ∧ checkPadding p = .ok ()) ∨
    (p.toNat % 4 ≠ 0 ∧ checkPadding p = .err (.invalidPadding p)) := by
  unfold checkPadding
  rw [u8_mod4_bne]
  by_cases h : p.toNat % 4 = 0 <;> simp [h]

end Rtcp.Proofs
