/-
  Proofs: FCI decoders and codecs.
-/
import Rtcp.Spec.All
import Rtcp.Proofs.FciLemmas

namespace Rtcp.Proofs
open Rtcp Rtcp.Impl Rtcp.Spec

theorem fir_entries_eq {ε : Type} (d : Bytes) :
    (Fir.entries d : R ε (List (UInt32 × UInt8) × Bool))
      = .ok ((firDecode d).map (fun (s, q) => (s.toUInt32, q.toUInt8)), true) := by
  unfold Fir.entries
  rw [fir_collect d _ 0 [] (by omega)]
  simp [firDecode, List.map_map]
  intro a b _
  simp [firG]
  split <;> simp_all

theorem sli_entries_eq {ε : Type} (d : Bytes) :
    (Sli.lostMacroblocks d : R ε (List MacroBlockEntry × Bool))
      = .ok ((sliDecode d).map (fun (a, b, c) => ⟨a.toUInt16, b.toUInt16, c.toUInt8⟩), true) := by
  unfold Sli.lostMacroblocks
  rw [sli_collect d _ 0 [] (by omega)]
  simp [sliDecode, List.map_map]
  intro a b c e _
  simp only [sliG, MacroBlockEntry.decode, MacroBlockEntry.mk.injEq]
  have := a.toNat_lt; have := b.toNat_lt; have := c.toNat_lt; have := e.toNat_lt
  refine ⟨?_, ?_, ?_⟩
  · congr 1; omega
  · congr 1; omega
  · congr 1; omega

/- RPSI: on every accepted FCI the payload type is the low 7 bits and the bit string, with the
    reported number of trailing bits dropped, is the reference bit string; the slice lies in the input -/

theorem rpsi_decode_eq {ε : Type} (d : Bytes) (h : Rpsi.parse d = .ok d) :
    ∃ pt bits s k, rpsiDecode d = some (pt, bits) ∧
      (Rpsi.payloadType d : R ε UInt8) = .ok pt.toUInt8 ∧
      (Rpsi.bitString 0 d : R ε (Slice × Nat)) = .ok (s, k) ∧
      (bitsOf s.bytes).take (8 * s.bytes.length - k) = bits ∧ SubSlice s d := by
  sorry

theorem rpsi_parse_ok_iff (d v : Bytes) :
    Rpsi.parse d = .ok v ↔ v = d ∧ 4 ≤ d.length ∧ u8At d 0 / 8 + 2 ≤ d.length := by
  unfold Rpsi.parse Rpsi.paddingBytes
  by_cases h4 : d.length < 4
  · simp [h4]; omega
  · have h0 : 0 < d.length := by omega
    simp only [h4, if_false, idx_lt h0, R.ok_bind, R.pure_eq, u8At]
    simp only [List.getD_eq_getElem?_getD, List.getElem?_eq_getElem h0, Option.getD_some]
    split
    · simp; omega
    · simp; constructor
      · intro h; exact ⟨h.symm, by omega, by omega⟩
      · intro h; exact h.1.symm

/-- PLI accepts only an empty body -/
theorem pli_parse_ok_iff (d v : Bytes) : Pli.parse d = .ok v ↔ v = d ∧ d = [] := by
  unfold Pli.parse
  cases d with
  | nil => simp
  | cons x xs => simp

theorem fir_parse_ok_iff (d v : Bytes) : Fir.parse d = .ok v ↔ v = d ∧ 8 ≤ d.length := by
  unfold Fir.parse
  split
  · simp; omega
  · simp; constructor
    · intro h; exact ⟨h.symm, by omega⟩
    · intro h; exact h.1.symm

theorem sli_parse_ok_iff (d v : Bytes) : Sli.parse d = .ok v ↔ v = d ∧ 4 ≤ d.length := by
  unfold Sli.parse
  split
  · simp; omega
  · simp; constructor
    · intro h; exact ⟨h.symm, by omega⟩
    · intro h; exact h.1.symm

theorem nack_parse_ok (d : Bytes) : Nack.parse d = .ok d := by
  rfl

theorem fci_parsers_no_panic (f : Fb.FciType) (d : Bytes) : f.parse d ≠ .panic := by
  cases f
  · simp [Fb.FciType.parse, Nack.parse]
  · simp only [Fb.FciType.parse, Fir.parse]; split <;> simp
  · simp only [Fb.FciType.parse, Sli.parse]; split <;> simp
  · simp only [Fb.FciType.parse]
    intro h
    unfold Rpsi.parse Rpsi.paddingBytes at h
    by_cases h4 : d.length < 4
    · simp [h4] at h
    · have h0 : 0 < d.length := by omega
      simp only [h4, if_false, idx_lt h0, R.ok_bind, R.pure_eq] at h
      split at h <;> simp at h
  · simp only [Fb.FciType.parse, Pli.parse]; split <;> simp

/- `parse_fci::<F>`: succeeds only if the packet's kind and format number match `F`; then it is
    `F::parse` on exactly the bytes between the two SSRCs and the padding. All 32 formats, both kinds. -/

theorem parseFci_eq (k : FbKind) (f : Fb.FciType) (d : Bytes) (h : Fb.parse k d = .ok d) :
    Fb.parseFci k f d =
      (if (f = .nack ↔ k = .transport) ∧ count d = f.format.toNat
       then f.parse (range d 12 (d.length - padLen d))
       else .err .wrongImplementation) := by
  sorry

/-- FIR: one entry per map entry (any order of the map gives the corresponding order of entries) -/
theorem fir_roundtrip (entries : List (UInt32 × UInt8)) :
    firDecode (firImage ⟨entries⟩) = entries.map (fun (s, q) => (s.toNat, q.toNat)) := by
  sorry

/-- the FIR map: key-unique, re-adding an SSRC keeps the last sequence -/
theorem fir_upsert_lookup (m : List (UInt32 × UInt8)) (k k' : UInt32) (v : UInt8) :
    (FirBuilder.upsert k v m).lookup k' = if k' = k then some v else m.lookup k' := by
  sorry

theorem fir_upsert_keys_unique (m : List (UInt32 × UInt8)) (k : UInt32) (v : UInt8)
    (h : (m.map (·.1)).Nodup) : ((FirBuilder.upsert k v m).map (·.1)).Nodup := by
  sorry

/-- SLI: the same (first, number, picture-id) entries in order, within the 13/13/6-bit ranges -/
theorem sli_roundtrip (es : List MacroBlockEntry)
    (h : ∀ e ∈ es, e.start.toNat < 8192 ∧ e.count.toNat < 8192 ∧ e.pictureId.toNat < 64) :
    sliDecode (sliImage ⟨es⟩) = es.map (fun e => (e.start.toNat, e.count.toNat, e.pictureId.toNat)) := by
  sorry

/-- RPSI: the same payload type and the same bit string bit for bit -/
theorem rpsi_roundtrip (b : RpsiBuilder) (h : rpsiRules b = []) :
    rpsiDecode (rpsiImage b) = some (b.payloadType.toNat, rpsiBits b.nativeBitString b.nativeBitOverrun.toNat) := by
  sorry

end Rtcp.Proofs
