/-
  Proofs: FCI decoders and codecs.
-/
import Rtcp.Spec.All
import Rtcp.Proofs.FciLemmas
import Rtcp.Proofs.ReadLemmas
import Rtcp.Proofs.ParsersFraming

namespace Rtcp.Proofs
open Rtcp Rtcp.Impl Rtcp.Spec

/-! ## helpers -/

theorem toUInt8_toNat_lt (n : Nat) (h : n < 256) : n.toUInt8.toNat = n := by
  simp [Nat.toUInt8, UInt8.toNat_ofNat']; omega

theorem toUInt32_toNat_lt (n : Nat) (h : n < 4294967296) : n.toUInt32.toNat = n := by
  simp [Nat.toUInt32, UInt32.toNat_ofNat']; omega

def byteBits (b : UInt8) : List Bool := (List.range 8).map (fun i => b.toNat.testBit (7 - i))

theorem byteBits_length (b : UInt8) : (byteBits b).length = 8 := by simp [byteBits]

theorem bitsOf_nil : bitsOf [] = [] := rfl
theorem bitsOf_cons (x : UInt8) (xs : Bytes) : bitsOf (x :: xs) = byteBits x ++ bitsOf xs := by
  simp [bitsOf, byteBits]

theorem bitsOf_append (xs ys : Bytes) : bitsOf (xs ++ ys) = bitsOf xs ++ bitsOf ys := by
  simp [bitsOf]

theorem bitsOf_length (xs : Bytes) : (bitsOf xs).length = 8 * xs.length := by
  induction xs with
  | nil => rfl
  | cons x xs ih => rw [bitsOf_cons, List.length_append, byteBits_length, ih, List.length_cons]; omega

theorem bitsOf_take (xs : Bytes) (m : Nat) : bitsOf (xs.take m) = (bitsOf xs).take (8 * m) := by
  induction xs generalizing m with
  | nil => simp [bitsOf_nil]
  | cons x xs ih =>
    cases m with
    | zero => simp [bitsOf_nil]
    | succ m =>
      rw [List.take_succ_cons, bitsOf_cons, bitsOf_cons, ih, List.take_append, byteBits_length]
      have h1 : (byteBits x).take (8 * (m + 1)) = byteBits x :=
        List.take_of_length_le (by rw [byteBits_length]; omega)
      rw [h1, show 8 * (m + 1) - 8 = 8 * m by omega]

theorem mask_bits : ∀ k : Fin 9, ∀ n : Fin 256,
    (byteBits (n.val / 2 ^ k.val * 2 ^ k.val % 256).toUInt8).take (8 - k.val)
      = (byteBits n.val.toUInt8).take (8 - k.val) := by
  decide +kernel

theorem mask_bits' (l : UInt8) (k : Nat) (hk : k ≤ 8) :
    (byteBits (l.toNat / 2 ^ k * 2 ^ k % 256).toUInt8).take (8 - k) = (byteBits l).take (8 - k) := by
  have := mask_bits ⟨k, by omega⟩ ⟨l.toNat, l.toNat_lt⟩
  simpa [Read.toNat_toUInt8] using this


theorem pad4_bounds (n : Nat) : n ≤ pad4 n ∧ pad4 n < n + 4 := by
  unfold pad4; omega

theorem upsert_keys_mem (m : List (UInt32 × UInt8)) (k : UInt32) (v : UInt8) (x : UInt32) :
    x ∈ (FirBuilder.upsert k v m).map (·.1) ↔ x = k ∨ x ∈ m.map (·.1) := by
  induction m with
  | nil => simp [FirBuilder.upsert]
  | cons e es ih =>
    obtain ⟨a, b⟩ := e
    simp only [FirBuilder.upsert]
    by_cases hak : a = k
    · subst hak; simp
    · have : (a == k) = false := by simpa using hak
      simp only [this, Bool.false_eq_true, if_false, List.map_cons, List.mem_cons, ih]
      constructor
      · rintro (h | h | h) <;> simp [h]
      · rintro (h | h | h) <;> simp [h]


theorem fir_entries_eq {ε : Type} (d : Bytes) :
    (Fir.entries d : R ε (List (UInt32 × UInt8) × Bool))
      = .ok ((firDecode d).map (fun (s, q) => (s.toUInt32, q.toUInt8)), true) := by
  unfold Fir.entries
  rw [fir_collect d _ 0 [] (by omega)]
  simp [firDecode, List.map_map]
  intro a b _
  simp [firG]
  split <;> simp_all

theorem sli_entries_eq {ε : Type} (d : Bytes) :
    (Sli.lostMacroblocks d : R ε (List MacroBlockEntry × Bool))
      = .ok ((sliDecode d).map (fun (a, b, c) => ⟨a.toUInt16, b.toUInt16, c.toUInt8⟩), true) := by
  unfold Sli.lostMacroblocks
  rw [sli_collect d _ 0 [] (by omega)]
  simp [sliDecode, List.map_map]
  intro a b c e _
  simp only [sliG, MacroBlockEntry.decode, MacroBlockEntry.mk.injEq]
  have := a.toNat_lt; have := b.toNat_lt; have := c.toNat_lt; have := e.toNat_lt
  refine ⟨?_, ?_, ?_⟩
  · congr 1; omega
  · congr 1; omega
  · congr 1; omega

/- RPSI: on every accepted FCI the payload type is the low 7 bits and the bit string, with the
    reported number of trailing bits dropped, is the reference bit string; the slice lies in the input -/


theorem rpsi_parse_ok_iff (d v : Bytes) :
    Rpsi.parse d = .ok v ↔ v = d ∧ 4 ≤ d.length ∧ u8At d 0 / 8 + 2 ≤ d.length := by
  unfold Rpsi.parse Rpsi.paddingBytes
  by_cases h4 : d.length < 4
  · simp [h4]; omega
  · have h0 : 0 < d.length := by omega
    simp only [h4, if_false, idx_lt h0, R.ok_bind, R.pure_eq, u8At]
    simp only [List.getD_eq_getElem?_getD, List.getElem?_eq_getElem h0, Option.getD_some]
    split
    · simp; omega
    · simp; constructor
      · intro h; exact ⟨h.symm, by omega, by omega⟩
      · intro h; exact h.1.symm

theorem rpsi_decode_eq {ε : Type} (d : Bytes) (h : Rpsi.parse d = .ok d) :
    ∃ pt bits s k, rpsiDecode d = some (pt, bits) ∧
      (Rpsi.payloadType d : R ε UInt8) = .ok pt.toUInt8 ∧
      (Rpsi.bitString 0 d : R ε (Slice × Nat)) = .ok (s, k) ∧
      (bitsOf s.bytes).take (8 * s.bytes.length - k) = bits ∧ SubSlice s d := by
  obtain ⟨_, h4, hpb⟩ := (rpsi_parse_ok_iff d d).mp h
  match d, h4, hpb with
  | pb :: pt :: rest, h4, hpb =>
    simp only [u8At, List.getD_cons_zero, List.length_cons] at hpb h4
    refine ⟨pt.toNat % 128, _, ⟨2, rest.take (rest.length - pb.toNat / 8)⟩, pb.toNat % 8, rfl, ?_, ?_, ?_, ?_⟩
    · simp [Rpsi.payloadType, idx]
    · simp only [Rpsi.bitString, Rpsi.paddingBytes, idx, List.getElem?_cons_zero, R.ok_bind, R.pure_eq]
      rw [Read.usub_ok _ _ (by omega), Read.usub_ok _ _ (by simp only [List.length_cons]; omega)]
      simp only [R.ok_bind, sliceS, List.length_cons]
      rw [if_pos (by omega), show rest.length + 1 + 1 - pb.toNat / 8 = (rest.length - pb.toNat / 8) + 2 by omega]
      simp only [R.ok_bind, List.take_succ_cons, List.drop_succ_cons, List.drop_zero]
      congr 2; omega
    · simp only
      rw [bitsOf_take, List.take_take, List.length_take]
      congr 1; omega
    · simp only [SubSlice, range, List.length_take, List.length_cons]
      refine ⟨by omega, ?_⟩
      rw [show 2 + min (rest.length - pb.toNat / 8) rest.length = (rest.length - pb.toNat / 8) + 2 by omega]
      simp only [List.take_succ_cons, List.drop_succ_cons, List.drop_zero]

/-- PLI accepts only an empty body -/
theorem pli_parse_ok_iff (d v : Bytes) : Pli.parse d = .ok v ↔ v = d ∧ d = [] := by
  unfold Pli.parse
  cases d with
  | nil => simp
  | cons x xs => simp

theorem fir_parse_ok_iff (d v : Bytes) : Fir.parse d = .ok v ↔ v = d ∧ 8 ≤ d.length := by
  unfold Fir.parse
  split
  · simp; omega
  · simp; constructor
    · intro h; exact ⟨h.symm, by omega⟩
    · intro h; exact h.1.symm

theorem sli_parse_ok_iff (d v : Bytes) : Sli.parse d = .ok v ↔ v = d ∧ 4 ≤ d.length := by
  unfold Sli.parse
  split
  · simp; omega
  · simp; constructor
    · intro h; exact ⟨h.symm, by omega⟩
    · intro h; exact h.1.symm

theorem nack_parse_ok (d : Bytes) : Nack.parse d = .ok d := by
  rfl

theorem fci_parsers_no_panic (f : Fb.FciType) (d : Bytes) : f.parse d ≠ .panic := by
  cases f
  · simp [Fb.FciType.parse, Nack.parse]
  · simp only [Fb.FciType.parse, Fir.parse]; split <;> simp
  · simp only [Fb.FciType.parse, Sli.parse]; split <;> simp
  · simp only [Fb.FciType.parse]
    intro h
    unfold Rpsi.parse Rpsi.paddingBytes at h
    by_cases h4 : d.length < 4
    · simp [h4] at h
    · have h0 : 0 < d.length := by omega
      simp only [h4, if_false, idx_lt h0, R.ok_bind, R.pure_eq] at h
      split at h <;> simp at h
  · simp only [Fb.FciType.parse, Pli.parse]; split <;> simp

/- `parse_fci::<F>`: succeeds only if the packet's kind and format number match `F`; then it is
    `F::parse` on exactly the bytes between the two SSRCs and the padding. All 32 formats, both kinds. -/

theorem parseFci_eq (k : FbKind) (f : Fb.FciType) (d : Bytes) (h : Fb.parse k d = .ok d) :
    Fb.parseFci k f d =
      (if (f = .nack ↔ k = .transport) ∧ count d = f.format.toNat
       then f.parse (range d 12 (d.length - padLen d))
       else .err .wrongImplementation) := by
  obtain ⟨_, hwf, hpad⟩ := (fb_parse_ok_iff k d d).mp h
  obtain ⟨h12, h4, _, _, hlf, _⟩ := (Read.wellFramed_iff 12 k.pt d).mp hwf
  unfold Fb.parseFci
  rw [Read.parseCount_ok d (by omega), Read.parsePadding_ok d h4 hlf]
  simp only [R.ok_bind]
  have hpl : ((paddingOf d).getD 0).toNat = padLen d := rfl
  rw [hpl, Read.usub_ok _ _ (by omega), R.ok_bind, Read.slice_ok _ _ _ ⟨by omega, by omega⟩, R.ok_bind]
  have hc : ((count d).toUInt8 != f.format) = decide (count d ≠ f.format.toNat) := by
    have := Read.count_toUInt8_toNat d
    by_cases hh : (count d).toUInt8 = f.format
    · have : count d = f.format.toNat := by rw [← hh, this]
      simp [this]
    · have h2 : count d ≠ f.format.toNat := by
        intro hx; apply hh; apply UInt8.toNat_inj.mp; rw [this, hx]
      simp [hh, h2]
  rw [hc]
  cases f <;> cases k <;>
    simp [Fb.FciType.packetType, FbKind.ty, FbType.and, FbType.none, FbType.TRANSPORT, FbType.PAYLOAD]

/-- FIR: one entry per map entry (any order of the map gives the corresponding order of entries) -/
theorem fir_roundtrip (entries : List (UInt32 × UInt8)) :
    firDecode (firImage ⟨entries⟩) = entries.map (fun (s, q) => (s.toNat, q.toNat)) := by
  induction entries with
  | nil => rfl
  | cons e es ih =>
    obtain ⟨s, q⟩ := e
    have ih' : firDecode (List.map firEntryImage es).flatten = es.map (fun (s, q) => (s.toNat, q.toNat)) := ih
    simp only [firImage, List.map_cons, List.flatten_cons, firEntryImage, be32, List.cons_append,
      List.nil_append, firDecode, words64, List.map_cons]
    have := s.toNat_lt
    rw [show List.map _ (words64 (List.map firEntryImage es).flatten) = _ from ih']
    congr 1
    rw [toUInt8_toNat_lt _ (by omega), toUInt8_toNat_lt _ (by omega), toUInt8_toNat_lt _ (by omega), toUInt8_toNat_lt _ (by omega)]
    congr 1
    omega

/-- the FIR map: key-unique, re-adding an SSRC keeps the last sequence -/
theorem fir_upsert_lookup (m : List (UInt32 × UInt8)) (k k' : UInt32) (v : UInt8) :
    (FirBuilder.upsert k v m).lookup k' = if k' = k then some v else m.lookup k' := by
  induction m with
  | nil => 
    simp only [FirBuilder.upsert, List.lookup]
    by_cases h : k' = k
    · simp [h]
    · have : (k' == k) = false := by simpa using h
      simp [h, this]
  | cons e es ih =>
    obtain ⟨a, b⟩ := e
    simp only [FirBuilder.upsert]
    by_cases hak : a = k
    · subst hak
      simp only [beq_self_eq_true, if_true, List.lookup]
      by_cases h : k' = a
      · simp [h]
      · have : (k' == a) = false := by simpa using h
        simp [h, this]
    · have : (a == k) = false := by simpa using hak
      simp only [this, Bool.false_eq_true, if_false, List.lookup, ih]
      by_cases h : k' = a
      · subst h; simp [hak]
      · have : (k' == a) = false := by simpa using h
        simp [this]

theorem fir_upsert_keys_unique (m : List (UInt32 × UInt8)) (k : UInt32) (v : UInt8)
    (h : (m.map (·.1)).Nodup) : ((FirBuilder.upsert k v m).map (·.1)).Nodup := by
  induction m with
  | nil => simp [FirBuilder.upsert]
  | cons e es ih =>
    obtain ⟨a, b⟩ := e
    simp only [List.map_cons, List.nodup_cons] at h
    simp only [FirBuilder.upsert]
    by_cases hak : a = k
    · subst hak; simpa using h
    · have : (a == k) = false := by simpa using hak
      simp only [this, Bool.false_eq_true, if_false, List.map_cons, List.nodup_cons]
      refine ⟨?_, ih h.2⟩
      rw [upsert_keys_mem]
      intro hh
      rcases hh with hh | hh
      · exact hak hh
      · exact h.1 hh

/-- SLI: the same (first, number, picture-id) entries in order, within the 13/13/6-bit ranges -/
theorem sli_roundtrip (es : List MacroBlockEntry)
    (h : ∀ e ∈ es, e.start.toNat < 8192 ∧ e.count.toNat < 8192 ∧ e.pictureId.toNat < 64) :
    sliDecode (sliImage ⟨es⟩) = es.map (fun e => (e.start.toNat, e.count.toNat, e.pictureId.toNat)) := by
  induction es with
  | nil => rfl
  | cons e es ih =>
    have ih' : sliDecode (List.map sliEntryImage es).flatten
        = es.map (fun e => (e.start.toNat, e.count.toNat, e.pictureId.toNat)) :=
      ih (fun e he => h e (List.mem_cons_of_mem _ he))
    obtain ⟨h1, h2, h3⟩ := h e List.mem_cons_self
    simp only [sliImage, List.map_cons, List.flatten_cons, sliEntryImage, be32, List.cons_append,
      List.nil_append, sliDecode, words32, List.map_cons]
    rw [show List.map _ (words32 (List.map sliEntryImage es).flatten) = _ from ih']
    congr 1
    rw [toUInt32_toNat_lt _ (by omega)]
    rw [toUInt8_toNat_lt _ (by omega), toUInt8_toNat_lt _ (by omega), toUInt8_toNat_lt _ (by omega), toUInt8_toNat_lt _ (by omega)]
    refine Prod.ext ?_ (Prod.ext ?_ ?_) <;> simp only <;> omega

/-- RPSI: the same payload type and the same bit string bit for bit -/
theorem rpsi_roundtrip (b : RpsiBuilder) (h : rpsiRules b = []) :
    rpsiDecode (rpsiImage b) = some (b.payloadType.toNat, rpsiBits b.nativeBitString b.nativeBitOverrun.toNat) := by
  obtain ⟨pt, data, k⟩ := b
  simp only [rpsiRules, List.append_eq_nil_iff, ite_eq_right_iff, List.cons_ne_self, imp_false,
    not_or, not_and] at h
  obtain ⟨hpt, hk, hemp⟩ := h
  have hp := pad4_bounds (2 + data.length)
  simp only [rpsiImage, rpsiDecode, List.cons_append, List.nil_append, rpsiBits]
  rw [toUInt8_toNat_lt _ (by omega)]
  congr 1
  refine Prod.ext (by simp only; omega) ?_
  simp only
  rcases List.eq_nil_or_concat data with hd | ⟨init, l, hd⟩
  · subst hd
    have : k.toNat = 0 := by have := hemp rfl; omega
    simp only [List.getLast?_nil, List.nil_append, List.length_nil, List.length_replicate, this,
      bitsOf_nil, List.take_nil] at hp ⊢
    rw [show 8 * (pad4 (2 + 0) - 0 - 2) - (8 * (pad4 (2 + 0) - 0 - 2) + 0) % 256 = 0 by omega]
    rfl
  · rw [List.concat_eq_append] at hd
    subst hd
    simp only [List.getLast?_append, List.getLast?_singleton, Option.some_or, List.dropLast_concat,
      List.length_append, List.length_singleton, List.length_replicate, bitsOf_append] at hp ⊢
    rw [show 8 * (init.length + 1 + (pad4 (2 + (init.length + 1)) - (init.length + 1) - 2))
        - (8 * (pad4 (2 + (init.length + 1)) - (init.length + 1) - 2) + k.toNat) % 256
        = (bitsOf init).length + (8 - k.toNat) by rw [bitsOf_length]; omega,
      show 8 * (init.length + 1) - k.toNat = (bitsOf init).length + (8 - k.toNat) by
        rw [bitsOf_length]; omega]
    rw [List.append_assoc, List.take_length_add_append, List.take_length_add_append]
    congr 1
    rw [List.take_append_of_le_length (by rw [bitsOf_length]; simp)]
    simp only [bitsOf_cons, bitsOf_nil, List.append_nil]
    exact mask_bits' l k.toNat (by omega)

end Rtcp.Proofs
