/-
  Proofs: FCI decoders and codecs.
-/
import Rtcp.Spec.All
import Rtcp.Proofs.FciLemmas

namespace Rtcp.Proofs
open Rtcp Rtcp.Impl Rtcp.Spec

/-! ## the NACK iterator -/

/-- the sequence numbers of word `(pid, blp)` from mask position `m` (1-based) on -/
def nackTail (pid blp m : Nat) : List Nat :=
  ((List.range' (m - 1) (17 - m)).filter (fun k => blp.testBit k)).map (fun k => (pid + k + 1) % 65536)

theorem decode_eq_tail (pid blp : Nat) : NackWord.decode ⟨pid, blp⟩ = pid :: nackTail pid blp 1 := by
  simp [NackWord.decode, nackTail, List.range_eq_range']

theorem findBit_spec (pid blp m : Nat) (hm : 1 ≤ m) :
    match Nack.findBit blp m with
    | some j => m ≤ j ∧ j ≤ 16 ∧ nackTail pid blp m = (pid + j) % 65536 :: nackTail pid blp (j + 1)
    | none => nackTail pid blp m = [] := by
  fun_induction Nack.findBit blp m with
  | case1 k hk =>
    have : 17 - k = 0 := by omega
    simp [nackTail, this]
  | case2 k hk hbit =>
    refine ⟨Nat.le_refl _, by omega, ?_⟩
    have e1 : 17 - k = (17 - (k + 1)) + 1 := by omega
    have e2 : k - 1 + 1 = k := by omega
    have e3 : pid + (k - 1) + 1 = pid + k := by omega
    unfold nackTail
    rw [e1, List.range'_succ, List.filter_cons, if_pos hbit, List.map_cons, e2, e3]
    simp
  | case3 k hk hbit ih =>
    have ih := ih (by omega)
    have e1 : 17 - k = (17 - (k + 1)) + 1 := by omega
    have e2 : k - 1 + 1 = k := by omega
    have step : nackTail pid blp k = nackTail pid blp (k + 1) := by
      unfold nackTail
      rw [e1, List.range'_succ, List.filter_cons, if_neg hbit, e2]
      simp
    rw [step]
    split at ih
    · exact ⟨by omega, ih.2.1, ih.2.2⟩
    · exact ih


theorem drop_len {d : Bytes} {i : Nat} {a b c e : UInt8} {rest : Bytes}
    (hr : d.drop (i * 4) = a :: b :: c :: e :: rest) : ¬ (i * 4 + 3 ≥ d.length) ∧ i * 4 ≤ d.length := by
  have := congrArg List.length hr
  simp at this
  omega

theorem next_end {ε : Type} (d : Bytes) (i : Nat) (h : i * 4 + 3 ≥ d.length) :
    (Nack.next d (i, 0) : R ε _) = .ok (none, (i, 0)) := by
  simp [Nack.next, h]

theorem next_start {ε : Type} (d : Bytes) (i : Nat) {a b c e : UInt8} {rest : Bytes}
    (hr : d.drop (i * 4) = a :: b :: c :: e :: rest) :
    (Nack.next d (i, 0) : R ε _) = .ok (some (a.toNat * 256 + b.toNat).toUInt16, (i, 1)) := by
  obtain ⟨h1, h2⟩ := drop_len hr
  simp [Nack.next, h1, sliceFrom_le h2, hr, slice, fromBe16]

theorem next_wrap {ε : Type} (d : Bytes) (i m : Nat) (hm : m > 16) :
    (Nack.next d (i, m) : R ε _) = Nack.next d (i + 1, 0) := by
  simp [Nack.next, hm]

theorem next_zero {ε : Type} (d : Bytes) (i : Nat) :
    (Nack.next d (i, 0) : R ε _) =
      (if i * 4 + 3 ≥ d.length then pure (none, (i, 0))
       else do
          let e ← sliceFrom d (i * 4)
          let base ← fromBe16 (← slice e 0 2)
          let _ ← (fromBe16 (← slice e 2 4) : R ε UInt16)
          pure (some base, (i, 1))) := by
  simp [Nack.next]

theorem next_mid {ε : Type} (d : Bytes) (i m : Nat) (hm1 : 1 ≤ m) (hm : m ≤ 16) {a b c e : UInt8} {rest : Bytes}
    (hr : d.drop (i * 4) = a :: b :: c :: e :: rest) :
    (Nack.next d (i, m) : R ε _) =
      match Nack.findBit (c.toNat * 256 + e.toNat) m with
      | some j => .ok (some ((a.toNat * 256 + b.toNat + j) % 65536).toUInt16, (i, j + 1))
      | none => Nack.next d (i + 1, 0) := by
  obtain ⟨h1, h2⟩ := drop_len hr
  have hm' : ¬ m > 16 := by omega
  have hm0 : (m == 0) = false := by simp; omega
  have ha := a.toNat_lt
  have hb := b.toNat_lt
  have hc := c.toNat_lt
  have he := e.toNat_lt
  rw [next_zero]
  unfold Nack.next
  simp only [hm', if_false, h1, sliceFrom_le h2, hr, R.ok_bind]
  simp only [slice, fromBe16, hm0]
  have hmod : (c.toNat * 256 + e.toNat) % 65536 = c.toNat * 256 + e.toNat := Nat.mod_eq_of_lt (by omega)
  cases hfb : Nack.findBit (c.toNat * 256 + e.toNat) m <;> simp [hmod, hfb]

theorem collect_some {ε : Type} (d : Bytes) (fuel : Nat) (st st' : Nack.St) (v : UInt16) (acc : List UInt16)
    (h : (Nack.next d st : R ε _) = .ok (some v, st')) :
    (Nack.collect d (fuel + 1) st acc : R ε _) = Nack.collect d fuel st' (acc ++ [v]) := by
  simp only [Nack.collect, h]

theorem collect_none {ε : Type} (d : Bytes) (fuel : Nat) (st st' : Nack.St) (acc : List UInt16)
    (h : (Nack.next d st : R ε _) = .ok (none, st')) :
    (Nack.collect d (fuel + 1) st acc : R ε _) = .ok (acc, true) := by
  simp only [Nack.collect, h]

theorem collect_congr {ε : Type} (d : Bytes) (fuel : Nat) (st st' : Nack.St) (acc : List UInt16)
    (h : (Nack.next d st : R ε _) = Nack.next d st') :
    (Nack.collect d (fuel + 1) st acc : R ε _) = Nack.collect d (fuel + 1) st' acc := by
  simp only [Nack.collect, h]

theorem drop_next {d : Bytes} {i : Nat} {a b c e : UInt8} {rest : Bytes}
    (hr : d.drop (i * 4) = a :: b :: c :: e :: rest) :
    d.drop ((i + 1) * 4) = rest ∧ d.length - 4 * i = rest.length + 4 := by
  constructor
  · have : (i + 1) * 4 = i * 4 + 4 := by omega
    rw [this, ← List.drop_drop, hr]; rfl
  · have := congrArg List.length hr
    simp at this
    omega

theorem nackDecode_cons4 (a b c e : UInt8) (rest : Bytes) :
    nackDecode (a :: b :: c :: e :: rest)
      = NackWord.decode ⟨a.toNat * 256 + b.toNat, c.toNat * 256 + e.toNat⟩ ++ nackDecode rest := by
  simp [nackDecode, words32]

theorem nackTail_17 (pid blp : Nat) : nackTail pid blp 17 = [] := by simp [nackTail]

theorem collect_spec {ε : Type} (d : Bytes) : ∀ fuel : Nat,
    (∀ (i : Nat) (acc : List UInt16), 5 * (d.length - 4 * i) + 1 ≤ fuel →
      (Nack.collect d fuel (i, 0) acc : R ε _)
        = .ok (acc ++ (nackDecode (d.drop (i * 4))).map Nat.toUInt16, true)) ∧
    (∀ (i m : Nat) (acc : List UInt16) (a b c e : UInt8) (rest : Bytes),
      d.drop (i * 4) = a :: b :: c :: e :: rest → 1 ≤ m → m ≤ 17 → (17 - m) + 5 * rest.length + 1 ≤ fuel →
      (Nack.collect d fuel (i, m) acc : R ε _)
        = .ok (acc ++ (nackTail (a.toNat * 256 + b.toNat) (c.toNat * 256 + e.toNat) m).map Nat.toUInt16
                ++ (nackDecode rest).map Nat.toUInt16, true)) := by
  intro fuel
  induction fuel with
  | zero =>
    exact ⟨fun i acc h => by omega, fun i m acc a b c e rest _ _ _ h => by omega⟩
  | succ fuel ih =>
    have P1 : ∀ (i : Nat) (acc : List UInt16), 5 * (d.length - 4 * i) + 1 ≤ fuel + 1 →
        (Nack.collect d (fuel + 1) (i, 0) acc : R ε _)
          = .ok (acc ++ (nackDecode (d.drop (i * 4))).map Nat.toUInt16, true) := by
      intro i acc hf
      by_cases hlt : i * 4 + 3 ≥ d.length
      · rw [collect_none d fuel _ _ acc (next_end d i hlt)]
        have : words32 (d.drop (i * 4)) = [] := words32_short (by simp; omega)
        simp [nackDecode, this]
      · obtain ⟨a, b, c, e, rest, hr⟩ := exists_cons4 (l := d.drop (i * 4)) (by simp; omega)
        obtain ⟨_, hlen⟩ := drop_next hr
        rw [collect_some d fuel _ _ _ acc (next_start d i hr),
          ih.2 i 1 _ a b c e rest hr (Nat.le_refl _) (by omega) (by omega),
          hr, nackDecode_cons4, decode_eq_tail]
        simp
    refine ⟨P1, ?_⟩
    intro i m acc a b c e rest hr hm1 hm17 hf
    obtain ⟨hdrop, hlen⟩ := drop_next hr
    by_cases hm : m = 17
    · subst hm
      rw [collect_congr d fuel _ _ acc (next_wrap d i 17 (by omega)), P1 (i + 1) acc (by omega),
        hdrop, nackTail_17]
      simp
    · have hspec := findBit_spec (a.toNat * 256 + b.toNat) (c.toNat * 256 + e.toNat) m hm1
      have hnext := next_mid (ε := ε) d i m hm1 (by omega) hr
      cases hfb : Nack.findBit (c.toNat * 256 + e.toNat) m with
      | none =>
        rw [hfb] at hspec hnext
        simp only at hspec hnext
        rw [collect_congr d fuel _ _ acc hnext, P1 (i + 1) acc (by omega), hdrop, hspec]
        simp
      | some j =>
        rw [hfb] at hspec hnext
        simp only at hspec hnext
        obtain ⟨hj1, hj2, htail⟩ := hspec
        rw [collect_some d fuel _ _ _ acc hnext,
          ih.2 i (j + 1) _ a b c e rest hr (by omega) (by omega) (by omega), htail]
        simp

/-- NACK: the iterator yields, for every byte string, exactly the reference decoding, and stops -/
theorem nack_entries_eq {ε : Type} (d : Bytes) :
    (Nack.entries d : R ε (List UInt16 × Bool)) = .ok ((nackDecode d).map Nat.toUInt16, true) := by
  unfold Nack.entries
  rw [(collect_spec d _).1 0 [] (by omega)]
  simp

/-! ## the greedy encoder decodes to its input -/

theorem filter_or_pow (blp j : Nat) (hb : blp < 2 ^ j) (hj : j < 16) :
    (List.range 16).filter (fun k => (blp ||| 2 ^ j).testBit k)
      = (List.range 16).filter (fun k => blp.testBit k) ++ [j] := by
  have hsplit : List.range 16 = List.range' 0 j ++ (j :: List.range' (j + 1) (15 - j)) := by
    have e1 : (16 : Nat) = j + ((15 - j) + 1) := by omega
    rw [List.range_eq_range']
    conv => lhs; rw [e1]
    rw [← List.range'_append_1, List.range'_succ, Nat.zero_add]
  have hfalse : ∀ k, j ≤ k → blp.testBit k = false := fun k hk =>
    Nat.testBit_lt_two_pow (Nat.lt_of_lt_of_le hb (Nat.pow_le_pow_right (by omega) hk))
  rw [hsplit, List.filter_append, List.filter_append, List.filter_cons, List.filter_cons]
  have h1 : (List.range' 0 j).filter (fun k => (blp ||| 2 ^ j).testBit k)
      = (List.range' 0 j).filter (fun k => blp.testBit k) := by
    apply List.filter_congr
    intro k hk
    have : k < j := by have := List.mem_range'_1.mp hk; omega
    rw [Nat.testBit_or, Nat.testBit_two_pow]
    have : decide (j = k) = false := decide_eq_false (by omega)
    rw [this, Bool.or_false]
  have h2 : (List.range' (j + 1) (15 - j)).filter (fun k => (blp ||| 2 ^ j).testBit k) = [] := by
    rw [List.filter_eq_nil_iff]
    intro k hk
    have : j + 1 ≤ k := (List.mem_range'_1.mp hk).1
    rw [Nat.testBit_or, Nat.testBit_two_pow, hfalse k (by omega)]
    have : decide (j = k) = false := decide_eq_false (by omega)
    simp [this]
  have h3 : (List.range' (j + 1) (15 - j)).filter (fun k => blp.testBit k) = [] := by
    rw [List.filter_eq_nil_iff]
    intro k hk
    have : j + 1 ≤ k := (List.mem_range'_1.mp hk).1
    simp [hfalse k (by omega)]
  have h4 : (blp ||| 2 ^ j).testBit j = true := by
    rw [Nat.testBit_or, Nat.testBit_two_pow]; simp
  rw [h1, h2, h3, h4, hfalse j (Nat.le_refl _)]
  simp

theorem decode_or (pid blp j : Nat) (hb : blp < 2 ^ j) (hj : j < 16) :
    NackWord.decode ⟨pid, blp ||| 2 ^ j⟩ = NackWord.decode ⟨pid, blp⟩ ++ [(pid + j + 1) % 65536] := by
  simp only [NackWord.decode, filter_or_pow blp j hb hj, List.map_append, List.map_cons, List.map_nil,
    List.cons_append]

theorem decode_zero (pid : Nat) : NackWord.decode ⟨pid, 0⟩ = [pid] := by
  simp [NackWord.decode]

/-- the words of the greedy encoder decode to the list they were made from -/
theorem nackEncodeFrom_decode (rest : List Nat) : ∀ (pid blp hi : Nat),
    pid ≤ hi → blp < 2 ^ (hi - pid) → (hi :: rest).Pairwise (· < ·) → (∀ s ∈ rest, s < 65536) →
    ((nackEncodeFrom pid blp rest).map NackWord.decode).flatten = NackWord.decode ⟨pid, blp⟩ ++ rest := by
  induction rest with
  | nil => intro pid blp hi _ _ _ _; simp [nackEncodeFrom]
  | cons s rest ih =>
    intro pid blp hi hle hb hp hlt
    have hs : hi < s := (List.pairwise_cons.mp hp).1 s (List.mem_cons_self ..)
    have hp' : (s :: rest).Pairwise (· < ·) := (List.pairwise_cons.mp hp).2
    have hlt' : ∀ x ∈ rest, x < 65536 := fun x hx => hlt x (List.mem_cons_of_mem _ hx)
    have hs6 : s < 65536 := hlt s (List.mem_cons_self ..)
    unfold nackEncodeFrom
    split
    · rw [List.map_cons, List.flatten_cons, ih s 0 s (Nat.le_refl _) (by simp) hp' hlt', decode_zero]
      simp
    · rename_i h16
      rw [if_pos (by omega : s > pid)]
      have hb' : blp < 2 ^ (s - pid - 1) :=
        Nat.lt_of_lt_of_le hb (Nat.pow_le_pow_right (by omega) (by omega))
      have hor : blp ||| 2 ^ (s - pid - 1) < 2 ^ (s - pid) := by
        apply Nat.or_lt_two_pow
        · exact Nat.lt_of_lt_of_le hb (Nat.pow_le_pow_right (by omega) (by omega))
        · exact Nat.pow_lt_pow_right (by omega) (by omega)
      rw [ih pid _ s (by omega) hor hp' hlt', decode_or pid blp _ hb' (by omega)]
      have : (pid + (s - pid - 1) + 1) % 65536 = s := by
        have : pid + (s - pid - 1) + 1 = s := by omega
        rw [this]; exact Nat.mod_eq_of_lt hs6
      rw [this]; simp

theorem nackEncode_decode (l : List Nat) (h : l.Pairwise (· < ·)) (hb : ∀ s ∈ l, s < 65536) :
    ((nackEncode l).map NackWord.decode).flatten = l := by
  cases l with
  | nil => simp [nackEncode]
  | cons s rest =>
    unfold nackEncode
    rw [nackEncodeFrom_decode rest s 0 s (Nat.le_refl _) (by simp) h
      (fun x hx => hb x (List.mem_cons_of_mem _ hx)), decode_zero]
    simp

theorem nackEncodeFrom_bounds (rest : List Nat) : ∀ (pid blp : Nat),
    pid < 65536 → blp < 65536 → (∀ s ∈ rest, s < 65536) →
    ∀ w ∈ nackEncodeFrom pid blp rest, w.pid < 65536 ∧ w.blp < 65536 := by
  induction rest with
  | nil => intro pid blp hp hb _ w hw; simp [nackEncodeFrom] at hw; subst hw; exact ⟨hp, hb⟩
  | cons s rest ih =>
    intro pid blp hp hb hlt w hw
    have hlt' : ∀ x ∈ rest, x < 65536 := fun x hx => hlt x (List.mem_cons_of_mem _ hx)
    have hs6 : s < 65536 := hlt s (List.mem_cons_self ..)
    unfold nackEncodeFrom at hw
    split at hw
    · rcases List.mem_cons.mp hw with h | h
      · subst h; exact ⟨hp, hb⟩
      · exact ih s 0 hs6 (by omega) hlt' w h
    · split at hw
      · refine ih pid _ hp ?_ hlt' w hw
        have : (65536 : Nat) = 2 ^ 16 := by decide
        rw [this] at hb ⊢
        apply Nat.or_lt_two_pow hb
        exact Nat.pow_lt_pow_right (by omega) (by omega)
      · exact ih pid blp hp hb hlt' w hw

theorem nackDecode_image (ws : List NackWord) (h : ∀ w ∈ ws, w.pid < 65536 ∧ w.blp < 65536) :
    nackDecode ((ws.map nackWordImage).flatten) = (ws.map NackWord.decode).flatten := by
  induction ws with
  | nil => simp [nackDecode, words32]
  | cons w ws ih =>
    have ⟨hp, hb⟩ := h w (List.mem_cons_self ..)
    have ih' := ih (fun x hx => h x (List.mem_cons_of_mem _ hx))
    unfold nackDecode at ih' ⊢
    rw [List.map_cons, List.flatten_cons, List.map_cons, List.flatten_cons, ← ih']
    simp only [nackWordImage, be16, List.cons_append, List.nil_append, words32, List.map_cons,
      List.flatten_cons]
    congr 2
    cases w with
    | mk pid blp =>
      simp only at hp hb
      simp only [Nat.toUInt16, Nat.toUInt8, UInt16.toNat_ofNat', UInt8.toNat_ofNat', NackWord.mk.injEq]
      omega

/-- NACK: exactly the set, ascending, each once -/
theorem nack_roundtrip (seqs : List UInt16) (h : seqs.Pairwise (· < ·)) :
    nackDecode (nackImage ⟨seqs⟩) = seqs.map (·.toNat) := by
  have hp : (seqs.map (·.toNat)).Pairwise (· < ·) := by
    rw [List.pairwise_map]
    exact h.imp (fun hab => UInt16.lt_iff_toNat_lt.mp hab)
  have hb : ∀ s ∈ seqs.map (·.toNat), s < 65536 := by
    intro s hs
    obtain ⟨x, _, rfl⟩ := List.mem_map.mp hs
    exact x.toNat_lt
  unfold nackImage
  rw [nackDecode_image, nackEncode_decode _ hp hb]
  intro w hw
  generalize seqs.map (·.toNat) = l at hw hb
  cases l with
  | nil => simp [nackEncode] at hw
  | cons s rest =>
    exact nackEncodeFrom_bounds rest s 0 (hb s (List.mem_cons_self ..)) (by omega)
      (fun x hx => hb x (List.mem_cons_of_mem _ hx)) w hw

/-! ## the greedy encoder: increasing PIDs, fewest words -/

/-! ## the greedy encoder -/

theorem nackEncodeFrom_pid_mem (rest : List Nat) : ∀ (pid blp : Nat) (w : NackWord),
    w ∈ nackEncodeFrom pid blp rest → w.pid = pid ∨ w.pid ∈ rest := by
  induction rest with
  | nil => intro pid blp w hw; simp [nackEncodeFrom] at hw; simp [hw]
  | cons s rest ih =>
    intro pid blp w hw
    unfold nackEncodeFrom at hw
    split at hw
    · rcases List.mem_cons.mp hw with h | h
      · simp [h]
      · rcases ih _ _ _ h with h | h <;> simp [h]
    · split at hw
      · rcases ih _ _ _ hw with h | h <;> simp [h]
      · rcases ih _ _ _ hw with h | h <;> simp [h]

theorem nackEncodeFrom_increasing (rest : List Nat) : ∀ (pid blp : Nat),
    (pid :: rest).Pairwise (· < ·) → ((nackEncodeFrom pid blp rest).map (·.pid)).Pairwise (· < ·) := by
  induction rest with
  | nil => intro pid blp _; simp [nackEncodeFrom]
  | cons s rest ih =>
    intro pid blp h
    have h1 : (s :: rest).Pairwise (· < ·) := (List.pairwise_cons.mp h).2
    have h2 : (pid :: rest).Pairwise (· < ·) := by
      rw [List.pairwise_cons] at h ⊢
      exact ⟨fun a ha => h.1 a (List.mem_cons_of_mem _ ha), (List.pairwise_cons.mp h.2).2⟩
    unfold nackEncodeFrom
    split
    · rw [List.map_cons, List.pairwise_cons]
      refine ⟨?_, ih _ _ h1⟩
      intro a ha
      obtain ⟨w, hw, rfl⟩ := List.mem_map.mp ha
      have := nackEncodeFrom_pid_mem rest s 0 w hw
      have hm : w.pid ∈ s :: rest := by
        rcases this with h | h
        · simp [h]
        · exact List.mem_cons_of_mem _ h
      exact (List.pairwise_cons.mp h).1 _ hm
    · split
      · exact ih _ _ h2
      · exact ih _ _ h2

/-- NACK: the words are strictly increasing in PID -/
theorem nack_words_increasing (l : List Nat) (h : l.Pairwise (· < ·)) :
    ((nackEncode l).map (·.pid)).Pairwise (· < ·) := by
  cases l with
  | nil => simp [nackEncode]
  | cons s rest => exact nackEncodeFrom_increasing rest s 0 h

theorem nackEncodeFrom_length (rest : List Nat) : ∀ (pid blp : Nat),
    (nackEncodeFrom pid blp rest).length
      = 1 + (nackEncode (rest.dropWhile (fun s => decide (s - pid ≤ 16)))).length := by
  induction rest with
  | nil => intro pid blp; simp [nackEncodeFrom, nackEncode]
  | cons s rest ih =>
    intro pid blp
    unfold nackEncodeFrom
    split
    · rename_i hgt
      have : decide (s - pid ≤ 16) = false := decide_eq_false (by omega)
      rw [List.dropWhile_cons, this]
      simp only [List.length_cons, nackEncode, Bool.false_eq_true, if_false]
      omega
    · rename_i hle
      have : decide (s - pid ≤ 16) = true := decide_eq_true (by omega)
      rw [List.dropWhile_cons, this]
      simp only [if_true]
      split
      · exact ih _ _
      · exact ih _ _

theorem decode_mem_le (w : NackWord) (x : Nat) (hx : x ∈ w.decode) : x - w.pid ≤ 16 := by
  unfold NackWord.decode at hx
  rcases List.mem_cons.mp hx with h | h
  · omega
  · obtain ⟨k, hk, rfl⟩ := List.mem_map.mp h
    have hk16 : k < 16 := by
      have := (List.mem_filter.mp hk).1
      simpa using this
    have := Nat.mod_le (w.pid + k + 1) 65536
    omega

theorem suffix_append_cases {α : Type} (A B l' : List α) (h : l' <:+ A ++ B) :
    l' <:+ B ∨ ∃ A', A' <:+ A ∧ l' = A' ++ B := by
  induction A with
  | nil => left; simpa using h
  | cons a A ih =>
    rw [List.cons_append, List.suffix_cons_iff] at h
    rcases h with h | h
    · right; exact ⟨a :: A, List.suffix_refl _, by simp [h]⟩
    · rcases ih h with h | ⟨A', hA', hl⟩
      · left; exact h
      · right; exact ⟨A', hA'.trans (List.suffix_cons _ _), hl⟩

theorem nack_minimal_aux (ws : List NackWord) : ∀ (l' : List Nat),
    ((ws.map NackWord.decode).flatten).Pairwise (· < ·) →
    l' <:+ (ws.map NackWord.decode).flatten →
    (nackEncode l').length ≤ ws.length := by
  induction ws with
  | nil =>
    intro l' _ hs
    simp at hs
    simp [hs, nackEncode]
  | cons w ws ih =>
    intro l' hp hs
    rw [List.map_cons, List.flatten_cons] at hp hs
    obtain ⟨hpw, hp1, _⟩ := List.pairwise_append.mp hp
    cases l' with
    | nil => simp [nackEncode]
    | cons s rest =>
      have hlen : (nackEncode (s :: rest)).length
          = 1 + (nackEncode (rest.dropWhile (fun x => decide (x - s ≤ 16)))).length :=
        nackEncodeFrom_length rest s 0
      rw [hlen, List.length_cons]
      have key : rest.dropWhile (fun x => decide (x - s ≤ 16)) <:+ (ws.map NackWord.decode).flatten := by
        rcases suffix_append_cases _ _ _ hs with h | ⟨A', hA', hl⟩
        · exact (List.dropWhile_suffix _).trans ((List.suffix_cons _ _).trans h)
        · cases A' with
          | nil =>
            rw [List.nil_append] at hl
            rw [← hl]
            exact (List.dropWhile_suffix _).trans (List.suffix_cons _ _)
          | cons a A'' =>
            rw [List.cons_append] at hl
            injection hl with h1 h2
            subst h1
            rw [h2]
            have hsub : ∀ x ∈ s :: A'', x ∈ w.decode := fun x hx => hA'.subset hx
            have hpid : w.pid ≤ s := by
              have hs' := hsub s (List.mem_cons_self ..)
              unfold NackWord.decode at hs' hpw
              rcases List.mem_cons.mp hs' with h | h
              · omega
              · exact Nat.le_of_lt ((List.pairwise_cons.mp hpw).1 _ h)
            rw [List.dropWhile_append_of_pos]
            · exact List.dropWhile_suffix _
            · intro x hx
              have := decode_mem_le w x (hsub x (List.mem_cons_of_mem _ hx))
              exact decide_eq_true (by omega)
      have := ih _ hp1 key
      omega

/-- NACK: no list of words that decodes to the same ascending list is shorter -/
theorem nack_minimal (l : List Nat) (h : l.Pairwise (· < ·)) (hb : ∀ s ∈ l, s < 65536)
    (ws : List NackWord) (hd : (ws.map NackWord.decode).flatten = l) :
    (nackEncode l).length ≤ ws.length := by
  subst hd
  exact nack_minimal_aux ws _ h (List.suffix_refl _)

end Rtcp.Proofs
