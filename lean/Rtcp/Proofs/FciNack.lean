/-
  Proofs: FCI decoders and codecs.
-/
import Rtcp.Spec.All
import Rtcp.Proofs.FciLemmas

namespace Rtcp.Proofs
open Rtcp Rtcp.Impl Rtcp.Spec

/-- NACK: the iterator yields, for every byte string, exactly the reference decoding, and stops -/
theorem nack_entries_eq {ε : Type} (d : Bytes) :
    (Nack.entries d : R ε (List UInt16 × Bool)) = .ok ((nackDecode d).map Nat.toUInt16, true) := by
  sorry

/-- NACK: exactly the set, ascending, each once -/
theorem nack_roundtrip (seqs : List UInt16) (h : seqs.Pairwise (· < ·)) :
    nackDecode (nackImage ⟨seqs⟩) = seqs.map (·.toNat) := by
  sorry

/-- NACK: the words are strictly increasing in PID -/
theorem nack_words_increasing (l : List Nat) (h : l.Pairwise (· < ·)) :
    ((nackEncode l).map (·.pid)).Pairwise (· < ·) := by
  sorry

/-- NACK: no list of words that decodes to the same ascending list is shorter -/
theorem nack_minimal (l : List Nat) (h : l.Pairwise (· < ·)) (hb : ∀ s ∈ l, s < 65536)
    (ws : List NackWord) (hd : (ws.map NackWord.decode).flatten = l) :
    (nackEncode l).length ≤ ws.length := by
  sorry

end Rtcp.Proofs
