/-
  Proofs: end-to-end compositions (C05), remaining error clauses (C18), generic-parser padding (C13),
  iterator offsets (C11), SDES bounds (C01).
-/
import Rtcp.Spec.All
import Rtcp.Props.Writers
import Rtcp.Proofs.Parsers
import Rtcp.Proofs.Sdes
import Rtcp.Proofs.Fci
import Rtcp.Proofs.CompoundParse
import Rtcp.Proofs.RoundTrip
import Rtcp.Proofs.Padding

namespace Rtcp.Proofs
open Rtcp Rtcp.Impl Rtcp.Spec Rtcp.Props

theorem fci_err_truthful (f : Fb.FciType) (d : Bytes) (e : ParseError) (h : f.parse d = .err e) :
    (∃ ex, e = .truncated ex d.length ∧ d.length < ex) ∨ (e = .tooLarge 0 d.length ∧ 0 < d.length) := by
  cases f
  · simp [Fb.FciType.parse, Nack.parse] at h
  · simp only [Fb.FciType.parse, Fir.parse] at h
    split at h
    · simp only [R.err.injEq] at h; subst h; exact .inl ⟨8, rfl, by assumption⟩
    · simp at h
  · simp only [Fb.FciType.parse, Sli.parse] at h
    split at h
    · simp only [R.err.injEq] at h; subst h; exact .inl ⟨4, rfl, by assumption⟩
    · simp at h
  · simp only [Fb.FciType.parse] at h
    unfold Rpsi.parse Rpsi.paddingBytes at h
    by_cases h4 : d.length < 4
    · simp only [h4, if_true, R.err.injEq] at h; subst h; exact .inl ⟨4, rfl, h4⟩
    · have h0 : 0 < d.length := by omega
      simp only [h4, if_false, idx_lt h0, R.ok_bind, R.pure_eq] at h
      split at h
      · simp only [R.err.injEq] at h; subst h; exact .inl ⟨_, rfl, by omega⟩
      · simp at h
  · simp only [Fb.FciType.parse, Pli.parse] at h
    split at h
    · simp only [R.err.injEq] at h; subst h
      refine .inr ⟨rfl, ?_⟩
      cases d with
      | nil => simp at *
      | cons x xs => simp
    · simp at h

theorem parseFci_err_truthful (k : FbKind) (f : Fb.FciType) (d : Bytes) (e : ParseError)
    (hp : Fb.parse k d = .ok d) (h : Fb.parseFci k f d = .err e) :
    e = .wrongImplementation ∨ (∃ ex a, e = .truncated ex a ∧ a < ex) ∨ (∃ a, e = .tooLarge 0 a ∧ 0 < a) := by
  rw [parseFci_eq k f d hp] at h
  split at h
  · rcases fci_err_truthful f _ e h with ⟨ex, h1, h2⟩ | ⟨h1, h2⟩
    · exact .inr (.inl ⟨ex, _, h1, h2⟩)
    · exact .inr (.inr ⟨_, h1, h2⟩)
  · simp only [R.err.injEq] at h; exact .inl h.symm

theorem R.map_eq_err {ε α β : Type} {f : α → β} {x : R ε α} {e : ε} (h : f <$> x = .err e) :
    x = .err e := by
  cases x with
  | ok a => simp only [R.map_ok] at h; cases h
  | err e' => simp only [R.map_err, R.err.injEq] at h; rw [h]
  | panic => simp only [R.map_panic] at h; cases h

theorem kind_err_truthful (k : Kind) (bs : Bytes) (e : ParseError) (h : k.parse bs = .err e) :
    ErrorTruthful bs k.pt e := by
  cases k <;> simp only [Kind.parse] at h <;> have h' := R.map_eq_err h
  · exact app_err_truthful bs e h'
  · exact bye_err_truthful bs e h'
  · exact rr_err_truthful bs e h'
  · exact sdes_err_truthful bs e h'
  · exact sr_err_truthful bs e h'
  · exact fb_err_truthful .transport bs e h'
  · exact fb_err_truthful .payload bs e h'

theorem errorTruthful_own_type (bs : Bytes) (e : ParseError) (h : ErrorTruthful bs (ptype bs) e) :
    ∀ a r, e ≠ .packetTypeMismatch a r := by
  intro a r he
  subst he
  simp only [ErrorTruthful] at h
  obtain ⟨_, h1, h2, h3⟩ := h
  exact h3 (h1.trans h2.symm)

theorem errorTruthful_any_type (bs : Bytes) (pt pt' : UInt8) (e : ParseError) (h : ErrorTruthful bs pt e)
    (hn : ∀ a r, e ≠ .packetTypeMismatch a r) : ErrorTruthful bs pt' e := by
  cases e <;> first | exact h | exact absurd rfl (hn _ _)

theorem packet_err_truthful (bs : Bytes) (e : ParseError) (h : Packet.parse bs = .err e) :
    ErrorTruthful bs (ptype bs) e ∧ (∀ a r, e ≠ .packetTypeMismatch a r) := by
  suffices hs : ErrorTruthful bs (ptype bs) e from ⟨hs, errorTruthful_own_type bs e hs⟩
  by_cases hl : bs.length < 4
  · rw [packet_parse_short bs hl] at h
    simp only [R.err.injEq] at h; subst h
    simp only [ErrorTruthful]; exact hl
  · rw [packet_parse_eq bs (by omega)] at h
    cases hk : kindOfType (ptype bs) with
    | some k =>
      rw [hk] at h
      have := kind_err_truthful k bs e h
      rwa [← kindOfType_pt _ _ hk] at this
    | none =>
      rw [hk] at h
      obtain ⟨h1, h2⟩ := unknown_err_truthful bs e (R.map_eq_err h)
      exact errorTruthful_any_type bs 0 _ e h1 h2

theorem kind_pad_ok {p q : Bytes} {n : Nat} (F : Pad.Facts p q n) (k : Kind) (pk : Packet)
    (h : k.parse p = .ok pk) : ∃ pk', k.parse q = .ok pk' := by
  cases k <;> simp only [Kind.parse] at h ⊢ <;> obtain ⟨v, hv, -⟩ := R.map_eq_ok h
  · cases app_parse_data p v hv
    rw [(Pad.app_pad (ε := ParseError) F hv).1]; exact ⟨_, rfl⟩
  · cases bye_parse_data p v hv
    rw [(Pad.bye_pad (ε := ParseError) F hv).1]; exact ⟨_, rfl⟩
  · cases rr_parse_data p v hv
    rw [(Pad.rr_pad (ε := ParseError) F hv).1]; exact ⟨_, rfl⟩
  · obtain ⟨v', hv', -⟩ := Pad.sdes_pad (ε := ParseError) F v hv
    rw [hv']; exact ⟨_, rfl⟩
  · cases sr_parse_data p v hv
    rw [(Pad.sr_pad (ε := ParseError) F hv).1]; exact ⟨_, rfl⟩
  · cases fb_parse_data _ p v hv
    rw [(Pad.fb_pad (ε := ParseError) F _ hv).1]; exact ⟨_, rfl⟩
  · cases fb_parse_data _ p v hv
    rw [(Pad.fb_pad (ε := ParseError) F _ hv).1]; exact ⟨_, rfl⟩

theorem packet_pad_transparent (p : Bytes) (n : Nat) (pk : Packet) (h : Packet.parse p = .ok pk)
    (hk : pk.kind? ≠ none) (hn : PadOk p n) :
    ∃ pk', Packet.parse (addPadding p n) = .ok pk' ∧ pk'.kind? = pk.kind? ∧ pk'.data = addPadding p n := by
  obtain ⟨h4, ⟨k, hkt, hkp⟩ | ⟨-, v, -, rfl⟩⟩ := packet_parse_ok_cases p pk h
  · have F := Pad.facts p n h4 hn
    have hpt : ptype (addPadding p n) = ptype p := (addPadding_shape p n h4 hn).2.2.2.2.2.2.1
    obtain ⟨pk', hpk'⟩ := kind_pad_ok F k pk hkp
    have hq : Packet.parse (addPadding p n) = .ok pk' := by
      rw [packet_parse_eq _ (by rw [F.len]; omega), hpt, hkt]; exact hpk'
    obtain ⟨h1, h2⟩ := kind_parse_ok k _ pk' hpk'
    exact ⟨pk', hq, by rw [h1, (kind_parse_ok k p pk hkp).1], h2⟩
  · exact absurd rfl hk

theorem compound_collect_offsets {ε : Type} (bs : Bytes) : ∀ (ts : List Bytes) (off fuel : Nat)
    (acc : List (R ParseError Packet × Nat)),
    off < bs.length → tiling (bs.drop off) = some ts → (∀ t ∈ ts, Packet.parse t ≠ .panic) →
    ts.length < fuel →
    ∃ items c', (Compound.collect fuel ⟨bs, off, false⟩ acc : R ε _) = .ok (acc ++ items, true, c') ∧
      ∀ i (hi : i < items.length), (items[i]).2 = off + ((ts.take i).map List.length).sum := by
  intro ts
  induction ts with
  | nil =>
    intro off fuel acc hlt ht _ _
    have hne : bs.drop off ≠ [] := by
      intro e; have := congrArg List.length e
      simp only [List.length_drop, List.length_nil] at this; omega
    obtain ⟨_, _, ts', h1, _⟩ := tiling_cons _ _ hne ht
    cases h1
  | cons t ts ih =>
    intro off fuel acc hlt ht hnp hf
    have hlen : (bs.drop off).length = bs.length - off := List.length_drop
    have hne : bs.drop off ≠ [] := by
      intro e; have := congrArg List.length e
      simp only [List.length_nil] at this; omega
    obtain ⟨h4, hn, ts', h1, h2⟩ := tiling_cons _ _ hne ht
    cases h1
    have hg := lengthField_ge (bs.drop off)
    simp only [List.length_cons] at hf
    obtain ⟨f, rfl⟩ : ∃ f, fuel = f + 2 := ⟨fuel - 2, by omega⟩
    have hnp0 := hnp _ (List.mem_cons_self)
    have hstep := next_step (ε := ε) bs off h4 hn hnp0
    rw [collect_step (f + 1) _ _ _ acc hstep]
    rw [List.drop_drop] at h2
    have htl : ((bs.drop off).take (lengthField (bs.drop off))).length = lengthField (bs.drop off) := by
      rw [List.length_take]; omega
    generalize hres : Packet.parse ((bs.drop off).take (lengthField (bs.drop off))) = res at hnp0 ⊢
    have hone : ∀ (x : R ParseError Packet × Nat), x.2 = off →
        ∀ i (hi : i < [x].length), ([x][i]).2 = off +
          ((((bs.drop off).take (lengthField (bs.drop off)) :: ts).take i).map List.length).sum := by
      intro x hx i hi
      simp only [List.length_singleton] at hi
      obtain rfl : i = 0 := by omega
      simp [hx]
    cases res with
    | panic => exact absurd rfl hnp0
    | err e =>
      have hov : (!(R.err e : R ParseError Packet).isOk ||
          decide (off + lengthField (bs.drop off) ≥ bs.length)) = true := by simp [R.isOk]
      rw [hov]
      refine ⟨[(.err e, off)], ⟨bs, off + lengthField (bs.drop off), true⟩, ?_, hone _ rfl⟩
      rw [collect_over f _ rfl]
    | ok p =>
      by_cases hend : off + lengthField (bs.drop off) ≥ bs.length
      · have hov : (!(R.ok p : R ParseError Packet).isOk ||
            decide (off + lengthField (bs.drop off) ≥ bs.length)) = true := by simp [hend]
        rw [hov]
        refine ⟨[(.ok p, off)], ⟨bs, off + lengthField (bs.drop off), true⟩, ?_, hone _ rfl⟩
        rw [collect_over f _ rfl]
      · have hd : (!(R.ok p : R ParseError Packet).isOk ||
            decide (off + lengthField (bs.drop off) ≥ bs.length)) = false := by
          simp [R.isOk, hend]
        rw [hd]
        obtain ⟨items, c', e1, e2⟩ := ih (off + lengthField (bs.drop off)) (f + 1)
          (acc ++ [(.ok p, off)]) (by omega) h2 (fun t ht => hnp t (List.mem_cons_of_mem _ ht))
          (by omega)
        refine ⟨(.ok p, off) :: items, c', ?_, ?_⟩
        · rw [e1, List.append_assoc]; rfl
        · intro i hi
          cases i with
          | zero => simp
          | succ j =>
            simp only [List.length_cons] at hi
            simp only [List.getElem_cons_succ, List.take_succ_cons, List.map_cons, List.sum_cons, htl]
            rw [e2 j (by omega)]
            omega

theorem compound_iter_offsets {ε : Type} (bs : Bytes) (ts : List Bytes) (hne : bs ≠ []) (ht : tiling bs = some ts)
    (hnp : ∀ t ∈ ts, Packet.parse t ≠ .panic) (fuel : Nat) (hf : ts.length < fuel) :
    ∃ items c', (Compound.collect fuel ⟨bs, 0, false⟩ [] : R ε _) = .ok (items, true, c') ∧
      ∀ i (hi : i < items.length), (items[i]).2 = ((ts.take i).map List.length).sum := by
  have hpos : 0 < bs.length := List.length_pos_iff.mpr hne
  obtain ⟨items, c', e1, e2⟩ :=
    compound_collect_offsets (ε := ε) bs ts 0 fuel [] hpos (by rw [List.drop_zero]; exact ht) hnp hf
  refine ⟨items, c', by rw [e1, List.nil_append], ?_⟩
  intro i hi
  rw [e2 i hi, Nat.zero_add]

namespace SdesBound

theorem itemLoop_bound (base : Nat) (d : Bytes) (off : Nat) (acc : List SdesItem)
    {items : List SdesItem} {e : Nat} (hle : off ≤ d.length)
    (h : SdesChunk.itemLoop base d off acc = .ok (items, e)) :
    2 * items.length + off ≤ 2 * acc.length + e ∧ e ≤ d.length := by
  fun_induction SdesChunk.itemLoop base d off acc with
  | case1 off acc hlt hz => cases h; omega
  | case2 off acc hlt hz item e' hp ih =>
    have hc := SdesItem.parse_consumed hp
    simp only [List.length_drop] at hc
    have := ih (by omega) h
    simp only [List.length_append, List.length_singleton] at this
    omega
  | case3 off acc hlt hz er hp => cases h
  | case4 off acc hlt hz hp => cases h
  | case5 off acc hge => cases h; omega

theorem skipZeros_le (d : Bytes) (off fillEnd : Nat) :
    SdesChunk.skipZeros d off fillEnd ≤ max off fillEnd := by
  fun_induction SdesChunk.skipZeros d off fillEnd with
  | case1 off h ih => omega
  | case2 off h => omega

theorem chunk_bound {base : Nat} {d : Bytes} {c : SdesChunk} {e : Nat}
    (h : SdesChunk.parse base d = .ok (c, e)) : 4 + 2 * c.items.length ≤ e ∧ e ≤ d.length := by
  unfold SdesChunk.parse at h
  simp only [bind, R.bind, pure] at h
  split at h
  · cases h
  · split at h <;> try cases h
    split at h <;> try cases h
    split at h
    · split at h <;> try cases h
      rename_i a hloop
      obtain ⟨items, off⟩ := a
      split at h <;> try cases h
      have h1 := itemLoop_bound _ _ _ _ (by omega) hloop
      have h2 := Sdes.skipZeros_ge d off (min (pad4 off) d.length)
      have h3 := skipZeros_le d off (min (pad4 off) d.length)
      simp only [List.length_nil] at h1
      simp only at h2 h3 ⊢
      omega
    · split at h <;> cases h
      simp only [List.length_nil]
      omega

def nItems (cs : List SdesChunk) : Nat := (cs.map (·.items.length)).sum

theorem nItems_snoc (cs : List SdesChunk) (c : SdesChunk) : nItems (cs ++ [c]) = nItems cs + c.items.length := by
  simp [nItems]

theorem chunkLoop_bound (d : Bytes) (ce off : Nat) (acc : List SdesChunk) {cs : List SdesChunk}
    (hle : off ≤ ce) (h : Sdes.chunkLoop d ce off acc = .ok cs) :
    4 * cs.length + off ≤ 4 * acc.length + ce ∧ 2 * nItems cs + off ≤ 2 * nItems acc + ce := by
  fun_induction Sdes.chunkLoop d ce off acc with
  | case1 off acc hlt s hs ck e hp ih =>
    have hb := chunk_bound hp
    have hsl : s.length = ce - off := by
      unfold slice at hs
      split at hs
      · cases hs; simp only [List.length_drop, List.length_take]; omega
      · cases hs
    have := ih (by omega) h
    simp only [List.length_append, List.length_singleton, nItems_snoc] at this
    omega
  | case2 off acc hlt s hs er hp => cases h
  | case3 off acc hlt s hs hp => cases h
  | case4 off acc hlt er hs => cases h
  | case5 off acc hlt hs => cases h
  | case6 off acc hge => cases h; omega

end SdesBound

theorem sdes_sizes_bounded (bs : Bytes) (v : Sdes) (h : Sdes.parse bs = .ok v) :
    4 * v.chunks.length ≤ bs.length ∧ 2 * ((v.chunks.map (·.items.length)).sum) ≤ bs.length := by
  obtain ⟨-, hw, hpl, -, -⟩ := sdes_parse_accepts bs v h
  rw [SdesAux.sdes_parse_framed bs hw, if_neg (by omega)] at h
  obtain ⟨cs, hcs, hv⟩ := Acc.bind_eq_ok _ _ _ h
  cases hv
  show 4 * cs.length ≤ bs.length ∧ 2 * SdesBound.nItems cs ≤ bs.length
  split at hcs
  · have := SdesBound.chunkLoop_bound bs _ 4 [] (by omega) hcs
    simp only [List.length_nil, SdesBound.nItems, List.map_nil, List.sum_nil] at this ⊢
    omega
  · cases hcs
    simp [SdesBound.nItems]

end Rtcp.Proofs
