/-
  Proofs: round trips of the fixed-layout packets.
-/
import Rtcp.Spec.All
import Rtcp.Proofs.RoundTripAux

namespace Rtcp.Proofs
open Rtcp Rtcp.Impl Rtcp.Spec Rtcp.Proofs.Read Rtcp.Proofs.RT

theorem rbImage_len (b : ReportBlockBuilder) : (rbImage b).length = 24 := by
  simp [rbImage]

theorem rbImages_len (rbs : List ReportBlockBuilder) :
    ((rbs.map rbImage).flatten).length = 24 * rbs.length := by
  induction rbs with
  | nil => rfl
  | cons rb rest ih => simp [rbImage_len, ih]; omega

theorem be32s_len (xs : List UInt32) : ((xs.map be32).flatten).length = 4 * xs.length := by
  induction xs with
  | nil => rfl
  | cons x rest ih => simp [ih]; omega

theorem trailer_head (p : UInt8) (h : 2 ≤ p.toNat) : ∃ t, trailer p = 0 :: t := by
  have hp : p ≠ 0 := by intro h0; subst h0; simp at h
  unfold trailer
  rw [if_neg hp]
  obtain ⟨k, hk⟩ : ∃ k, p.toNat - 1 = k + 1 := ⟨p.toNat - 2, by omega⟩
  rw [hk, List.replicate_succ]
  exact ⟨_, rfl⟩

theorem getPaddingOf_getD (p : UInt8) : ((getPaddingOf p).getD 0).toNat = p.toNat := by
  unfold getPaddingOf
  by_cases h : p = 0 <;> simp [h]

theorem flatten_len_mod4 (ls : List Bytes) (h : ∀ l ∈ ls, l.length % 4 = 0) :
    ls.flatten.length % 4 = 0 := by
  induction ls with
  | nil => rfl
  | cons l ls ih =>
    have h1 := h l (by simp)
    have h2 := ih (fun x hx => h x (by simp [hx]))
    simp only [List.flatten_cons, List.length_append]
    omega

theorem fciImage_len_mod4 (f : FciB) : (fciImage f).length % 4 = 0 := by
  cases f with
  | nack b =>
    apply flatten_len_mod4
    intro l hl
    simp only [List.mem_map] at hl
    obtain ⟨w, _, rfl⟩ := hl
    simp [nackWordImage]
  | fir b =>
    apply flatten_len_mod4
    intro l hl
    simp only [List.mem_map] at hl
    obtain ⟨w, _, rfl⟩ := hl
    simp [firEntryImage]
  | sli b =>
    apply flatten_len_mod4
    intro l hl
    simp only [List.mem_map] at hl
    obtain ⟨w, _, rfl⟩ := hl
    simp [sliEntryImage]
  | rpsi b =>
    have h1 := pad4_mod (2 + b.nativeBitString.length)
    have h2 := le_pad4 (2 + b.nativeBitString.length)
    simp only [fciImage, rpsiImage]
    cases hl : b.nativeBitString.getLast? with
    | none =>
      have : b.nativeBitString = [] := List.getLast?_eq_none_iff.mp hl
      simp [this] at h1 h2 ⊢
      omega
    | some l =>
      have : b.nativeBitString ≠ [] := by
        intro h0; rw [h0] at hl; simp at hl
      have : 0 < b.nativeBitString.length := List.length_pos_iff.mpr this
      simp
      omega
  | pli => rfl

theorem unknown_parse_packet (pt : UInt8) (c : Nat) (p : UInt8) (body : Bytes) (hf : Fits p body) :
    Unknown.parse (packet pt c p body) = .ok (packet pt c p body) := by
  have h4 := packet_len4 pt c p body
  have hv : ((packet pt c p body).getD 0 0 >>> 6 != 2) = false := by
    rw [bne2, shr6]
    have := version_packet pt c p body
    unfold version at this
    rw [this]; rfl
  simp only [Unknown.parse, if_neg (show ¬ (packet pt c p body).length < 4 by omega),
    parseVersion_ok _ (show 1 ≤ (packet pt c p body).length by omega), R.ok_bind, hv,
    parseLength_ok _ h4, lengthField_packet pt c p body hf.hpad hf.hbody hf.hsize,
    Nat.lt_irrefl, gt_iff_lt, if_false, Bool.false_eq_true]
  rfl

theorem packet_parse_unknown (pt : UInt8) (c : Nat) (p : UInt8) (body : Bytes) (hf : Fits p body)
    (hk : kindOfType pt = none) :
    Packet.parse (packet pt c p body) = .ok (.unknown (packet pt c p body)) := by
  have h4 := packet_len4 pt c p body
  have hne : pt ≠ 204 ∧ pt ≠ 203 ∧ pt ≠ 201 ∧ pt ≠ 202 ∧ pt ≠ 200 ∧ pt ≠ 206 ∧ pt ≠ 205 := by
    unfold kindOfType at hk
    refine ⟨?_, ?_, ?_, ?_, ?_, ?_, ?_⟩ <;> (intro h0; subst h0; simp at hk)
  obtain ⟨h1, h2, h3, h4', h5, h6, h7⟩ := hne
  simp only [Packet.parse, if_neg (show ¬ (packet pt c p body).length < 4 by omega),
    parsePacketType_ok _ (show 2 ≤ (packet pt c p body).length by omega), ptype_packet, R.ok_bind,
    beq_iff_eq, h1, h2, h3, h4', h5, h6, h7, if_false, unknown_parse_packet pt c p body hf, R.map_ok]

theorem rb_cumulativeLost {ε : Type} (b : ReportBlockBuilder) (h : b.cumulativeLost.toNat < 16777216) :
    ((do
      let x ← (fromBe32 ([b.fractionLost] ++ (be32 b.cumulativeLost).drop 1) : R ε UInt32)
      pure (x.toNat % 16777216).toUInt32) : R ε UInt32) = .ok b.cumulativeLost := by
  have hf := b.fractionLost.toNat_lt
  simp only [be32, fromBe32, List.drop_succ_cons, List.drop_zero, List.cons_append, List.nil_append,
    R.ok_bind, R.pure_eq]
  congr 1
  apply UInt32.toNat_inj.mp
  rw [toUInt8_toNat_lt (by omega), toUInt8_toNat_lt (by omega), toUInt8_toNat_lt (by omega)]
  simp only [Nat.toUInt32, UInt32.toNat_ofNat']
  omega

/-- C02: all seven block fields over their full ranges (24-bit cumulative loss) -/
theorem rb_roundtrip {ε : Type} (b : ReportBlockBuilder) (h : rbRules b = []) :
    ReportBlock.parse (rbImage b) = .ok (rbImage b) ∧
    (ReportBlock.ssrc (rbImage b) : R ε UInt32) = .ok b.ssrc ∧
    (ReportBlock.fractionLost (rbImage b) : R ε UInt8) = .ok b.fractionLost ∧
    (ReportBlock.cumulativeLost (rbImage b) : R ε UInt32) = .ok b.cumulativeLost ∧
    (ReportBlock.extendedSequenceNumber (rbImage b) : R ε UInt32) = .ok b.extendedSequenceNumber ∧
    (ReportBlock.interarrivalJitter (rbImage b) : R ε UInt32) = .ok b.interarrivalJitter ∧
    (ReportBlock.lastSenderReportTimestamp (rbImage b) : R ε UInt32) = .ok b.lastSenderReportTimestamp ∧
    (ReportBlock.delaySinceLastSenderReportTimestamp (rbImage b) : R ε UInt32)
      = .ok b.delaySinceLastSenderReportTimestamp := by
  have hc : b.cumulativeLost.toNat < 16777216 := by
    unfold rbRules at h
    split at h
    · cases h
    · omega
  refine ⟨?_, ?_, ?_, ?_, ?_, ?_, ?_, ?_⟩
  · simp [ReportBlock.parse, rbImage_len]
  · have e : (slice (rbImage b) 0 4 : R ε Bytes) = .ok (be32 b.ssrc) :=
      slice_decomp [] _ _ (by simp [rbImage]; rfl) rfl rfl
    simp only [ReportBlock.ssrc, e, R.ok_bind, fromBe32_be32]
  · unfold ReportBlock.fractionLost
    exact idx_decomp (be32 b.ssrc) _ _ (by simp [rbImage]; rfl) rfl
  · have e : (slice (rbImage b) 4 8 : R ε Bytes)
        = .ok ([b.fractionLost] ++ (be32 b.cumulativeLost).drop 1) :=
      slice_decomp (be32 b.ssrc) _ _ (by simp [rbImage]; rfl) rfl (by simp [be32])
    simp only [ReportBlock.cumulativeLost, e, R.ok_bind]
    exact rb_cumulativeLost b hc
  · have e : (slice (rbImage b) 8 12 : R ε Bytes) = .ok (be32 b.extendedSequenceNumber) :=
      slice_decomp (be32 b.ssrc ++ [b.fractionLost] ++ (be32 b.cumulativeLost).drop 1) _ _
        (by simp [rbImage]; rfl) (by simp [be32]) rfl
    simp only [ReportBlock.extendedSequenceNumber, e, R.ok_bind, fromBe32_be32]
  · have e : (slice (rbImage b) 12 16 : R ε Bytes) = .ok (be32 b.interarrivalJitter) :=
      slice_decomp (be32 b.ssrc ++ [b.fractionLost] ++ (be32 b.cumulativeLost).drop 1
          ++ be32 b.extendedSequenceNumber) _ _
        (by simp [rbImage]; rfl) (by simp [be32]) rfl
    simp only [ReportBlock.interarrivalJitter, e, R.ok_bind, fromBe32_be32]
  · have e : (slice (rbImage b) 16 20 : R ε Bytes) = .ok (be32 b.lastSenderReportTimestamp) :=
      slice_decomp (be32 b.ssrc ++ [b.fractionLost] ++ (be32 b.cumulativeLost).drop 1
          ++ be32 b.extendedSequenceNumber ++ be32 b.interarrivalJitter) _ _
        (by simp [rbImage]; rfl) (by simp [be32]) rfl
    simp only [ReportBlock.lastSenderReportTimestamp, e, R.ok_bind, fromBe32_be32]
  · have e : (slice (rbImage b) 20 24 : R ε Bytes)
        = .ok (be32 b.delaySinceLastSenderReportTimestamp) :=
      slice_decomp (be32 b.ssrc ++ [b.fractionLost] ++ (be32 b.cumulativeLost).drop 1
          ++ be32 b.extendedSequenceNumber ++ be32 b.interarrivalJitter
          ++ be32 b.lastSenderReportTimestamp) _ []
        (by simp [rbImage]) (by simp [be32]) rfl
    simp only [ReportBlock.delaySinceLastSenderReportTimestamp, e, R.ok_bind, fromBe32_be32]

/-- C02: sender report -/
theorem sr_roundtrip {ε : Type} (b : SrBuilder) (h : srRules b = []) :
    Sr.parse (srImage b) = .ok (srImage b) ∧
    (Sr.ssrc (srImage b) : R ε UInt32) = .ok b.ssrc ∧
    (Sr.ntp (srImage b) : R ε UInt64) = .ok b.ntp ∧
    (Sr.rtp (srImage b) : R ε UInt32) = .ok b.rtp ∧
    (Sr.packetCount (srImage b) : R ε UInt32) = .ok b.packetCount ∧
    (Sr.octetCount (srImage b) : R ε UInt32) = .ok b.octetCount ∧
    (Sr.padding (srImage b) : R ε (Option UInt8)) = .ok (getPaddingOf b.padding) ∧
    (Sr.nReports (srImage b) : R ε UInt8) = .ok b.reportBlocks.length.toUInt8 ∧
    (Sr.reportBlocks (srImage b) : R ε (List Bytes)) = .ok (b.reportBlocks.map rbImage) := by
  have hn : b.reportBlocks.length ≤ 31 := by
    unfold srRules at h
    by_cases hh : b.reportBlocks.length > 31
    · simp [hh] at h
    · omega
  have hp : b.padding.toNat % 4 = 0 := by
    unfold srRules padRule at h
    by_cases hh : b.padding.toNat % 4 = 0
    · exact hh
    · simp [hh] at h
  have hpl := b.padding.toNat_lt
  generalize hbody : be32 b.ssrc ++ be64 b.ntp ++ be32 b.rtp ++ be32 b.packetCount ++ be32 b.octetCount
      ++ (b.reportBlocks.map rbImage).flatten = body
  have himg : srImage b = packet 200 b.reportBlocks.length b.padding body := by
    rw [← hbody]; rfl
  have hbl : body.length = 24 + 24 * b.reportBlocks.length := by
    rw [← hbody]; simp only [List.length_append, be32_length, be64_length, rbImages_len]
  have hf : Fits b.padding body := ⟨hp, by omega, by omega⟩
  have hcnt : (b.reportBlocks.length % 32).toUInt8.toNat = b.reportBlocks.length := by
    rw [toUInt8_toNat_lt (by omega)]; omega
  obtain ⟨hdr, hhl, hdec⟩ := packet_decomp 200 b.reportBlocks.length b.padding body
  rw [himg]
  refine ⟨?_, ?_, ?_, ?_, ?_, ?_, ?_, ?_, ?_⟩
  · simp only [Sr.parse, checkPacket_packet 28 200 _ _ _ (by omega) hf (by omega), R.ok_bind,
      parseCount_packet, hcnt, packet_length]
    rw [if_neg (by omega)]; rfl
  · have e : (slice (packet 200 b.reportBlocks.length b.padding body) 4 8 : R ε Bytes)
        = .ok (be32 b.ssrc) :=
      slice_decomp hdr _ _ (by rw [hdec, ← hbody]; simp only [List.append_assoc]; rfl) (by omega) rfl
    simp only [Sr.ssrc, parseSsrc, e, R.ok_bind, fromBe32_be32]
  · have e : (slice (packet 200 b.reportBlocks.length b.padding body) 8 16 : R ε Bytes)
        = .ok (be64 b.ntp) :=
      slice_decomp (hdr ++ be32 b.ssrc) _ _
        (by rw [hdec, ← hbody]; simp only [List.append_assoc]; rfl) (by simp; omega) (by simp)
    simp only [Sr.ntp, e, R.ok_bind, fromBe64_be64]
  · have e : (slice (packet 200 b.reportBlocks.length b.padding body) 16 20 : R ε Bytes)
        = .ok (be32 b.rtp) :=
      slice_decomp (hdr ++ be32 b.ssrc ++ be64 b.ntp) _ _
        (by rw [hdec, ← hbody]; simp only [List.append_assoc]; rfl) (by simp; omega) (by simp)
    simp only [Sr.rtp, e, R.ok_bind, fromBe32_be32]
  · have e : (slice (packet 200 b.reportBlocks.length b.padding body) 20 24 : R ε Bytes)
        = .ok (be32 b.packetCount) :=
      slice_decomp (hdr ++ be32 b.ssrc ++ be64 b.ntp ++ be32 b.rtp) _ _
        (by rw [hdec, ← hbody]; simp only [List.append_assoc]; rfl) (by simp; omega) (by simp)
    simp only [Sr.packetCount, e, R.ok_bind, fromBe32_be32]
  · have e : (slice (packet 200 b.reportBlocks.length b.padding body) 24 28 : R ε Bytes)
        = .ok (be32 b.octetCount) :=
      slice_decomp (hdr ++ be32 b.ssrc ++ be64 b.ntp ++ be32 b.rtp ++ be32 b.packetCount) _ _
        (by rw [hdec, ← hbody]; simp only [List.append_assoc]; rfl) (by simp; omega) (by simp)
    simp only [Sr.octetCount, e, R.ok_bind, fromBe32_be32]
  · exact parsePadding_packet _ _ _ _ hf
  · simp only [Sr.nReports, hCount_packet]
    congr 2; omega
  · have e : (slice (packet 200 b.reportBlocks.length b.padding body) 28
          (28 + b.reportBlocks.length * 24) : R ε Bytes)
        = .ok (b.reportBlocks.map rbImage).flatten :=
      slice_decomp (hdr ++ be32 b.ssrc ++ be64 b.ntp ++ be32 b.rtp ++ be32 b.packetCount
          ++ be32 b.octetCount) _ _
        (by rw [hdec, ← hbody]; simp only [List.append_assoc]; rfl) (by simp; omega)
        (by rw [rbImages_len]; omega)
    simp only [Sr.reportBlocks, reportBlocksAt, hCount_packet, R.ok_bind, hcnt, e]
    rw [chunksExact_flatten 24 (by omega) _ (by simp [rbImage_len])]
    exact unwrapBlocks_ok _ (by simp [rbImage_len])

/-- C02: receiver report -/
theorem rr_roundtrip {ε : Type} (b : RrBuilder) (h : rrRules b = []) :
    Rr.parse (rrImage b) = .ok (rrImage b) ∧
    (Rr.ssrc (rrImage b) : R ε UInt32) = .ok b.ssrc ∧
    (Rr.padding (rrImage b) : R ε (Option UInt8)) = .ok (getPaddingOf b.padding) ∧
    (Rr.nReports (rrImage b) : R ε UInt8) = .ok b.reportBlocks.length.toUInt8 ∧
    (Rr.reportBlocks (rrImage b) : R ε (List Bytes)) = .ok (b.reportBlocks.map rbImage) := by
  have hn : b.reportBlocks.length ≤ 31 := by
    unfold rrRules at h
    by_cases hh : b.reportBlocks.length > 31
    · simp [hh] at h
    · omega
  have hp : b.padding.toNat % 4 = 0 := by
    unfold rrRules padRule at h
    by_cases hh : b.padding.toNat % 4 = 0
    · exact hh
    · simp [hh] at h
  have hpl := b.padding.toNat_lt
  generalize hbody : be32 b.ssrc ++ (b.reportBlocks.map rbImage).flatten = body
  have himg : rrImage b = packet 201 b.reportBlocks.length b.padding body := by
    rw [← hbody]; rfl
  have hbl : body.length = 4 + 24 * b.reportBlocks.length := by
    rw [← hbody]; simp only [List.length_append, be32_length, rbImages_len]
  have hf : Fits b.padding body := ⟨hp, by omega, by omega⟩
  have hcnt : (b.reportBlocks.length % 32).toUInt8.toNat = b.reportBlocks.length := by
    rw [toUInt8_toNat_lt (by omega)]; omega
  obtain ⟨hdr, hhl, hdec⟩ := packet_decomp 201 b.reportBlocks.length b.padding body
  rw [himg]
  refine ⟨?_, ?_, ?_, ?_, ?_⟩
  · simp only [Rr.parse, checkPacket_packet 8 201 _ _ _ (by omega) hf (by omega), R.ok_bind,
      parseCount_packet, hcnt, packet_length]
    rw [if_neg (by omega)]; rfl
  · have e : (slice (packet 201 b.reportBlocks.length b.padding body) 4 8 : R ε Bytes)
        = .ok (be32 b.ssrc) :=
      slice_decomp hdr _ _ (by rw [hdec, ← hbody]; simp only [List.append_assoc]; rfl) (by omega) rfl
    simp only [Rr.ssrc, parseSsrc, e, R.ok_bind, fromBe32_be32]
  · exact parsePadding_packet _ _ _ _ hf
  · simp only [Rr.nReports, hCount_packet]
    congr 2; omega
  · have e : (slice (packet 201 b.reportBlocks.length b.padding body) 8
          (8 + b.reportBlocks.length * 24) : R ε Bytes)
        = .ok (b.reportBlocks.map rbImage).flatten :=
      slice_decomp (hdr ++ be32 b.ssrc) _ _
        (by rw [hdec, ← hbody]; simp only [List.append_assoc]; rfl) (by simp; omega)
        (by rw [rbImages_len]; omega)
    simp only [Rr.reportBlocks, reportBlocksAt, hCount_packet, R.ok_bind, hcnt, e]
    rw [chunksExact_flatten 24 (by omega) _ (by simp [rbImage_len])]
    exact unwrapBlocks_ok _ (by simp [rbImage_len])

/-- C04: BYE — sources in order, the reason bytes (absent when none was set), padding -/
theorem bye_roundtrip {ε : Type} (b : ByeBuilder) (h : byeRules b = []) :
    Bye.parse (byeImage b) = .ok (byeImage b) ∧
    (Bye.ssrcs (byeImage b) : R ε (List UInt32)) = .ok b.sources ∧
    (Bye.reason (byeImage b) : R ε (Option Slice)) =
      .ok (if b.reason = [] then none else some ⟨4 + 4 * b.sources.length + 1, b.reason⟩) ∧
    (Bye.padding (byeImage b) : R ε (Option UInt8)) = .ok (getPaddingOf b.padding) := by
  have hn : b.sources.length ≤ 31 := by
    unfold byeRules at h
    by_cases hh : b.sources.length > 31
    · simp [hh] at h
    · omega
  have hp : b.padding.toNat % 4 = 0 := by
    unfold byeRules padRule at h
    by_cases hh : b.padding.toNat % 4 = 0
    · exact hh
    · simp [hh] at h
  have hr : b.reason.length ≤ 255 := by
    unfold byeRules at h
    by_cases hh : b.reason.length > 255
    · simp [hh] at h
    · omega
  have hpl := b.padding.toNat_lt
  have hsl : ((b.sources.map be32).flatten).length = 4 * b.sources.length := be32s_len _
  have hcnt : (b.sources.length % 32).toUInt8.toNat = b.sources.length := by
    rw [toUInt8_toNat_lt (by omega)]; omega
  generalize htail : (if b.reason.isEmpty then []
      else zfill ((b.reason.length % 256).toUInt8 :: b.reason)) = tail
  have himg : byeImage b = packet 203 b.sources.length b.padding
      ((b.sources.map be32).flatten ++ tail) := by
    rw [← htail]; rfl
  have htl : tail.length % 4 = 0 ∧ tail.length ≤ 260 := by
    rw [← htail]
    split
    · simp
    · rw [zfill_length]
      simp only [List.length_cons]
      have := pad4_mod (b.reason.length + 1)
      have := pad4_lt (b.reason.length + 1)
      omega
  have hf : Fits b.padding ((b.sources.map be32).flatten ++ tail) :=
    ⟨hp, by simp only [List.length_append, hsl]; omega, by simp only [List.length_append, hsl]; omega⟩
  obtain ⟨hdr, hhl, hdec⟩ := packet_decomp 203 b.sources.length b.padding
    ((b.sources.map be32).flatten ++ tail)
  rw [himg]
  refine ⟨?_, ?_, ?_, ?_⟩
  · simp only [Bye.parse, checkPacket_packet 4 203 _ _ _ (by omega) hf (by omega), R.ok_bind,
      parseCount_packet, hcnt, packet_length, List.length_append, hsl]
    rw [if_neg (by omega)]
    by_cases hlt : 4 + 4 * b.sources.length < 4 + (4 * b.sources.length + tail.length) + b.padding.toNat
    · rw [if_pos hlt]
      have hidx : ∃ rl : UInt8, (idx (packet 203 b.sources.length b.padding
            ((b.sources.map be32).flatten ++ tail)) (4 + 4 * b.sources.length) : R ParseError UInt8)
            = .ok rl ∧ 1 + rl.toNat ≤ tail.length + b.padding.toNat := by
        by_cases hre : b.reason = []
        · have ht : tail = [] := by rw [← htail]; simp [hre]
          subst ht
          simp only [List.length_nil] at hlt
          obtain ⟨t, ht⟩ := trailer_head b.padding (by omega)
          refine ⟨0, idx_decomp (hdr ++ (b.sources.map be32).flatten) 0 t ?_ ?_, by simp; omega⟩
          · rw [hdec, ht]; simp
          · simp [hsl]; omega
        · have ht : tail = (b.reason.length % 256).toUInt8 ::
              (b.reason ++ List.replicate (pad4 (b.reason.length + 1) - (b.reason.length + 1)) 0) := by
            rw [← htail]; simp [hre, zfill]
          refine ⟨(b.reason.length % 256).toUInt8,
            idx_decomp (hdr ++ (b.sources.map be32).flatten) _
              (b.reason ++ List.replicate (pad4 (b.reason.length + 1) - (b.reason.length + 1)) 0
                ++ trailer b.padding) ?_ ?_, ?_⟩
          · rw [hdec, ht]; simp only [List.append_assoc, List.cons_append]
          · simp [hsl]; omega
          · rw [toUInt8_toNat_of_lt (by omega), ht]
            have := le_pad4 (b.reason.length + 1)
            simp; omega
      obtain ⟨rl, h1, h2⟩ := hidx
      simp only [h1, R.ok_bind]
      rw [if_neg (by omega)]; rfl
    · rw [if_neg hlt]; rfl
  · have e : (slice (packet 203 b.sources.length b.padding ((b.sources.map be32).flatten ++ tail)) 4
          (4 + b.sources.length * 4) : R ε Bytes)
        = .ok (b.sources.map be32).flatten :=
      slice_decomp hdr _ _
        (by rw [hdec]; simp only [List.append_assoc]; rfl) (by omega)
        (by rw [hsl]; omega)
    simp only [Bye.ssrcs, hCount_packet, R.ok_bind, hcnt, e]
    rw [chunksExact_flatten 4 (by omega) _ (by simp)]
    exact mapM_be32 _
  · simp only [Bye.reason, hCount_packet, R.ok_bind, hcnt, hLength_packet _ _ _ _ hf,
      parsePadding_packet _ _ _ _ hf, getPaddingOf_getD, packet_length, List.length_append, hsl,
      R.pure_eq]
    by_cases hre : b.reason = []
    · have ht : tail = [] := by rw [← htail]; simp [hre]
      subst ht
      rw [if_pos (by simp only [List.length_nil]; omega), if_pos hre]
    · have ht : tail = (b.reason.length % 256).toUInt8 ::
          (b.reason ++ List.replicate (pad4 (b.reason.length + 1) - (b.reason.length + 1)) 0) := by
        rw [← htail]; simp [hre, zfill]
      have hrl : 0 < b.reason.length := List.length_pos_iff.mpr hre
      have htl2 : tail.length = pad4 (b.reason.length + 1) := by
        have := le_pad4 (b.reason.length + 1)
        rw [ht]; simp; omega
      have := le_pad4 (b.reason.length + 1)
      rw [if_neg (by omega), if_neg (by omega), if_neg hre]
      have e1 : (idx (packet 203 b.sources.length b.padding
            ((b.sources.map be32).flatten ++ tail)) (b.sources.length * 4 + 4) : R ε UInt8)
            = .ok (b.reason.length % 256).toUInt8 :=
        idx_decomp (hdr ++ (b.sources.map be32).flatten) _
          (b.reason ++ List.replicate (pad4 (b.reason.length + 1) - (b.reason.length + 1)) 0
            ++ trailer b.padding)
          (by rw [hdec, ht]; simp only [List.append_assoc, List.cons_append])
          (by simp [hsl]; omega)
      simp only [e1, R.ok_bind, toUInt8_toNat_of_lt (show b.reason.length < 256 by omega)]
      have e2 : (sliceS 0 (packet 203 b.sources.length b.padding
            ((b.sources.map be32).flatten ++ tail)) (b.sources.length * 4 + 4 + 1)
            (b.sources.length * 4 + 4 + 1 + b.reason.length) : R ε Slice)
            = .ok ⟨0 + (b.sources.length * 4 + 4 + 1), b.reason⟩ :=
        sliceS_decomp (hdr ++ (b.sources.map be32).flatten ++ [(b.reason.length % 256).toUInt8]) _
          (List.replicate (pad4 (b.reason.length + 1) - (b.reason.length + 1)) 0
            ++ trailer b.padding)
          (by rw [hdec, ht]; simp only [List.append_assoc, List.cons_append, List.nil_append])
          (by simp [hsl]; omega) rfl
      rw [e2]
      simp only [R.ok_bind]
      have e3 : 0 + (b.sources.length * 4 + 4 + 1) = 4 + 4 * b.sources.length + 1 := by omega
      rw [e3]
  · exact parsePadding_packet _ _ _ _ hf

/-- C04: APP — SSRC, subtype, name zero-filled to 4 bytes, payload, padding -/
theorem app_roundtrip {ε : Type} (b : AppBuilder) (h : appRules b = []) :
    App.parse (appImage b) = .ok (appImage b) ∧
    (App.ssrc (appImage b) : R ε UInt32) = .ok b.ssrc ∧
    (hCount (appImage b) : R ε UInt8) = .ok b.subtype ∧
    (App.name (appImage b) : R ε Bytes) = .ok (b.name ++ List.replicate (4 - b.name.length) 0) ∧
    (App.data (appImage b) : R ε Slice) = .ok ⟨12, b.data⟩ ∧
    (App.padding (appImage b) : R ε (Option UInt8)) = .ok (getPaddingOf b.padding) := by
  have hrules : b.subtype.toNat ≤ 31 ∧ b.name.length ≤ 4 ∧ b.data.length % 4 = 0 ∧
      b.padding.toNat % 4 = 0 ∧ 12 + b.padding.toNat + b.data.length ≤ 262144 := by
    unfold appRules at h
    simp only [List.append_eq_nil_iff] at h
    obtain ⟨⟨⟨⟨h1, h2⟩, h3⟩, h4⟩, h5⟩ := h
    simp only [h1, h2, h3, h4] at h5
    unfold padRule at h4
    unfold sizeRule at h5
    refine ⟨?_, ?_, ?_, ?_, ?_⟩
    · by_cases hh : b.subtype.toNat > 31
      · simp [hh] at h1
      · omega
    · by_cases hh : b.name.length > 4
      · simp [hh] at h2
      · omega
    · by_cases hh : b.data.length % 4 = 0
      · exact hh
      · simp [hh] at h3
    · by_cases hh : b.padding.toNat % 4 = 0
      · exact hh
      · simp [hh] at h4
    · by_cases hh : 12 + b.padding.toNat + b.data.length > 262144
      · simp [hh] at h5
      · omega
  obtain ⟨hst, hnl, hdl, hp, hsz⟩ := hrules
  have hpl := b.padding.toNat_lt
  generalize hbody : be32 b.ssrc ++ b.name ++ List.replicate (4 - b.name.length) 0 ++ b.data = body
  have himg : appImage b = packet 204 b.subtype.toNat b.padding body := by
    rw [← hbody]; rfl
  have hbl : body.length = 8 + b.data.length := by
    rw [← hbody]; simp; omega
  have hf : Fits b.padding body := ⟨hp, by omega, by omega⟩
  obtain ⟨hdr, hhl, hdec⟩ := packet_decomp 204 b.subtype.toNat b.padding body
  rw [himg]
  refine ⟨?_, ?_, ?_, ?_, ?_, ?_⟩
  · simp only [App.parse, checkPacket_packet 12 204 _ _ _ (by omega) hf (by omega), R.ok_bind,
      parsePadding_packet _ _ _ _ hf, packet_length]
    by_cases hp0 : b.padding = 0
    · simp [getPaddingOf, hp0]
    · simp only [getPaddingOf, beq_iff_eq, hp0, if_false]
      rw [if_neg (by omega)]; rfl
  · have e : (slice (packet 204 b.subtype.toNat b.padding body) 4 8 : R ε Bytes)
        = .ok (be32 b.ssrc) :=
      slice_decomp hdr _ _ (by rw [hdec, ← hbody]; simp only [List.append_assoc]; rfl) (by omega) rfl
    simp only [App.ssrc, parseSsrc, e, R.ok_bind, fromBe32_be32]
  · rw [hCount_packet]
    congr 1
    rw [Nat.mod_eq_of_lt (by omega)]
    exact toNat_toUInt8 _
  · exact slice_decomp (hdr ++ be32 b.ssrc) _ _
      (by rw [hdec, ← hbody]; simp only [List.append_assoc]; rfl) (by simp; omega)
      (by simp; omega)
  · simp only [App.data, parsePadding_packet _ _ _ _ hf, R.ok_bind, getPaddingOf_getD,
      packet_length, usub_ok _ _ (show b.padding.toNat ≤ 4 + body.length + b.padding.toNat by omega)]
    have e : (sliceS 0 (packet 204 b.subtype.toNat b.padding body) 12
          (4 + body.length + b.padding.toNat - b.padding.toNat) : R ε Slice)
          = .ok ⟨0 + 12, b.data⟩ :=
      sliceS_decomp (hdr ++ be32 b.ssrc ++ b.name ++ List.replicate (4 - b.name.length) 0) _
        (trailer b.padding)
        (by rw [hdec, ← hbody]; simp only [List.append_assoc]) (by simp; omega) (by omega)
    rw [e]
  · exact parsePadding_packet _ _ _ _ hf

/-- C05 (packet level): sender SSRC, media SSRC, format, padding; and `parse_fci` hands exactly
    the FCI image to the matching FCI parser, padding excluded -/
theorem fb_roundtrip {ε : Type} (k : FbKind) (f : FciB)
    (hf : match f with | .nack b => b.rtpSeq.Pairwise (· < ·) | _ => True)
    (p : UInt8) (s m : UInt32) (h : fbRules k f p = []) :
    let img := fbImage k f p s m
    Fb.parse k img = .ok img ∧
    (Fb.senderSsrc img : R ε UInt32) = .ok s ∧
    (Fb.mediaSsrc img : R ε UInt32) = .ok m ∧
    (Fb.padding img : R ε (Option UInt8)) = .ok (getPaddingOf p) ∧
    (hCount img : R ε UInt8) = .ok (fciFormat f).toUInt8 ∧
    Fb.parseFci k (fciTypeOf f) img = (fciTypeOf f).parse (fciImage f) := by
  intro img
  have hrules : p.toNat % 4 = 0 ∧ fciKind f = k ∧ 12 + (fciImage f).length + p.toNat ≤ 262144 := by
    unfold fbRules at h
    simp only [List.append_eq_nil_iff] at h
    obtain ⟨⟨⟨h1, h2⟩, h3⟩, h5⟩ := h
    simp only [h1, h2, h3] at h5
    unfold padRule at h1
    unfold sizeRule at h5
    refine ⟨?_, ?_, ?_⟩
    · by_cases hh : p.toNat % 4 = 0
      · exact hh
      · simp [hh] at h1
    · by_cases hh : fciKind f = k
      · exact hh
      · simp [hh] at h2
    · by_cases hh : 12 + (fciImage f).length + p.toNat > 262144
      · simp [hh] at h5
      · omega
  obtain ⟨hp, hk, hsz⟩ := hrules
  have hpl := p.toNat_lt
  have hfl := fciImage_len_mod4 f
  generalize hbody : be32 s ++ be32 m ++ fciImage f = body
  have himg : img = packet k.pt (fciFormat f) p body := by
    rw [← hbody]; rfl
  have hbl : body.length = 8 + (fciImage f).length := by
    rw [← hbody]; simp; omega
  have hf : Fits p body := ⟨hp, by omega, by omega⟩
  obtain ⟨hdr, hhl, hdec⟩ := packet_decomp k.pt (fciFormat f) p body
  rw [himg]
  refine ⟨?_, ?_, ?_, ?_, ?_, ?_⟩
  · simp only [Fb.parse, checkPacket_packet 12 k.pt _ _ _ (by omega) hf (by omega), R.ok_bind,
      parsePadding_packet _ _ _ _ hf, packet_length]
    by_cases hp0 : p = 0
    · simp [getPaddingOf, hp0]
    · simp only [getPaddingOf, beq_iff_eq, hp0, if_false]
      rw [if_neg (by omega)]; rfl
  · have e : (slice (packet k.pt (fciFormat f) p body) 4 8 : R ε Bytes) = .ok (be32 s) :=
      slice_decomp hdr _ _ (by rw [hdec, ← hbody]; simp only [List.append_assoc]; rfl) (by omega) rfl
    simp only [Fb.senderSsrc, parseSsrc, e, R.ok_bind, fromBe32_be32]
  · have e1 : (sliceFrom (packet k.pt (fciFormat f) p body) 4 : R ε Bytes)
        = .ok (be32 s ++ be32 m ++ (fciImage f ++ trailer p)) :=
      sliceFrom_decomp hdr _ (by rw [hdec, ← hbody]; simp only [List.append_assoc]) (by omega)
    have e2 : (slice (be32 s ++ be32 m ++ (fciImage f ++ trailer p)) 4 8 : R ε Bytes) = .ok (be32 m) :=
      slice_decomp (be32 s) _ _ rfl rfl rfl
    simp only [Fb.mediaSsrc, parseSsrc, e1, e2, R.ok_bind, fromBe32_be32]
  · exact parsePadding_packet _ _ _ _ hf
  · rw [hCount_packet]
    cases f <;> rfl
  · have hgate : (FbType.and (fciTypeOf f).packetType k.ty == FbType.none) = false := by
      rw [← hk]; cases f <;> rfl
    have hfmt : ((fciFormat f % 32).toUInt8 != (fciTypeOf f).format) = false := by
      cases f <;> rfl
    simp only [Fb.parseFci, hgate, parseCount_packet, R.ok_bind, hfmt, parsePadding_packet _ _ _ _ hf,
      getPaddingOf_getD, packet_length,
      usub_ok _ _ (show p.toNat ≤ 4 + body.length + p.toNat by omega)]
    have e : (slice (packet k.pt (fciFormat f) p body) 12
          (4 + body.length + p.toNat - p.toNat) : R ParseError Bytes) = .ok (fciImage f) :=
      slice_decomp (hdr ++ be32 s ++ be32 m) _ (trailer p)
        (by rw [hdec, ← hbody]; simp only [List.append_assoc]) (by simp; omega) (by omega)
    simp only [e, R.ok_bind, Bool.false_eq_true, if_false]

/-- C19: raw packets from the unknown-packet builder are accepted by the generic parser as
    unknown packets exposing the exact bytes (for every type the crate does not know) -/
theorem unknown_roundtrip (b : UnknownBuilder) (h : unknownRules b = []) (hk : kindOfType b.type = none) :
    Packet.parse (unknownImage b) = .ok (.unknown (unknownImage b)) := by
  have hrules : b.padding.toNat % 4 = 0 ∧ b.data.length % 4 = 0 ∧
      4 + b.data.length + b.padding.toNat ≤ 262144 := by
    unfold unknownRules at h
    simp only [List.append_eq_nil_iff] at h
    obtain ⟨⟨⟨h1, h2⟩, h3⟩, h5⟩ := h
    simp only [h1, h2, h3] at h5
    unfold padRule at h2
    unfold sizeRule at h5
    refine ⟨?_, ?_, ?_⟩
    · by_cases hh : b.padding.toNat % 4 = 0
      · exact hh
      · simp [hh] at h2
    · by_cases hh : b.data.length % 4 = 0
      · exact hh
      · simp [hh] at h3
    · by_cases hh : 4 + b.data.length + b.padding.toNat > 262144
      · simp [hh] at h5
      · omega
  obtain ⟨hp, hd, hsz⟩ := hrules
  exact packet_parse_unknown b.type b.count.toNat b.padding b.data ⟨hp, hd, hsz⟩ hk

/-- C19: the third-party family converts back with every field intact, directly and through the
    generic parser -/
theorem custom_roundtrip {ε : Type} (b : CustomBuilder) (h : customRules b = []) (h4 : 4 ≤ b.min)
    (hm : b.min % 4 = 0) (hs : b.bodyEnd + b.padding.toNat ≤ 262144) :
    Custom.parse b.pt b.min (customImage b) = .ok (customImage b) ∧
    (Custom.body (customImage b) : R ε Slice)
      = .ok ⟨4, b.body ++ List.replicate (b.min - 4 - b.body.length) 0⟩ ∧
    (Custom.padding (customImage b) : R ε (Option UInt8)) = .ok (getPaddingOf b.padding) ∧
    (kindOfType b.pt = none → Packet.parse (customImage b) = .ok (.unknown (customImage b))) := by
  have hrules : b.padding.toNat % 4 = 0 ∧ b.body.length % 4 = 0 := by
    unfold customRules at h
    simp only [List.append_eq_nil_iff] at h
    obtain ⟨h1, h2⟩ := h
    unfold padRule at h1
    refine ⟨?_, ?_⟩
    · by_cases hh : b.padding.toNat % 4 = 0
      · exact hh
      · simp [hh] at h1
    · by_cases hh : b.body.length % 4 = 0
      · exact hh
      · simp [hh] at h2
  obtain ⟨hp, hd⟩ := hrules
  have hpl := b.padding.toNat_lt
  have hbe : b.bodyEnd = max (4 + b.body.length) b.min := rfl
  generalize hbody : b.body ++ List.replicate (b.min - 4 - b.body.length) 0 = body
  have himg : customImage b = packet b.pt 0 b.padding body := by
    rw [← hbody]; rfl
  have hbl : 4 + body.length = b.bodyEnd := by
    rw [← hbody, hbe]; simp; omega
  have hf : Fits b.padding body := ⟨hp, by omega, by omega⟩
  obtain ⟨hdr, hhl, hdec⟩ := packet_decomp b.pt 0 b.padding body
  rw [himg]
  refine ⟨?_, ?_, ?_, ?_⟩
  · simp only [Custom.parse, checkPacket_packet b.min b.pt _ _ _ h4 hf (by omega), R.ok_bind,
      parsePadding_packet _ _ _ _ hf, packet_length]
    by_cases hp0 : b.padding = 0
    · simp [getPaddingOf, hp0]
    · simp only [getPaddingOf, beq_iff_eq, hp0, if_false]
      rw [if_neg (by omega)]; rfl
  · simp only [Custom.body, parsePadding_packet _ _ _ _ hf, R.ok_bind, getPaddingOf_getD,
      packet_length, usub_ok _ _ (show b.padding.toNat ≤ 4 + body.length + b.padding.toNat by omega)]
    have e : (sliceS 0 (packet b.pt 0 b.padding body) 4
          (4 + body.length + b.padding.toNat - b.padding.toNat) : R ε Slice)
          = .ok ⟨0 + 4, body⟩ :=
      sliceS_decomp hdr _ (trailer b.padding) hdec (by omega) (by omega)
    rw [e]
  · exact parsePadding_packet _ _ _ _ hf
  · exact packet_parse_unknown b.pt 0 b.padding body hf

end Rtcp.Proofs
