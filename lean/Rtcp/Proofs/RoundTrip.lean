/-
  Proofs: round trips of the fixed-layout packets.
-/
import Rtcp.Spec.All

namespace Rtcp.Proofs
open Rtcp Rtcp.Impl Rtcp.Spec

/-- C02: all seven block fields over their full ranges (24-bit cumulative loss) -/
theorem rb_roundtrip {ε : Type} (b : ReportBlockBuilder) (h : rbRules b = []) :
    ReportBlock.parse (rbImage b) = .ok (rbImage b) ∧
    (ReportBlock.ssrc (rbImage b) : R ε UInt32) = .ok b.ssrc ∧
    (ReportBlock.fractionLost (rbImage b) : R ε UInt8) = .ok b.fractionLost ∧
    (ReportBlock.cumulativeLost (rbImage b) : R ε UInt32) = .ok b.cumulativeLost ∧
    (ReportBlock.extendedSequenceNumber (rbImage b) : R ε UInt32) = .ok b.extendedSequenceNumber ∧
    (ReportBlock.interarrivalJitter (rbImage b) : R ε UInt32) = .ok b.interarrivalJitter ∧
    (ReportBlock.lastSenderReportTimestamp (rbImage b) : R ε UInt32) = .ok b.lastSenderReportTimestamp ∧
    (ReportBlock.delaySinceLastSenderReportTimestamp (rbImage b) : R ε UInt32)
      = .ok b.delaySinceLastSenderReportTimestamp := by
  sorry

/-- C02: sender report -/
theorem sr_roundtrip {ε : Type} (b : SrBuilder) (h : srRules b = []) :
    Sr.parse (srImage b) = .ok (srImage b) ∧
    (Sr.ssrc (srImage b) : R ε UInt32) = .ok b.ssrc ∧
    (Sr.ntp (srImage b) : R ε UInt64) = .ok b.ntp ∧
    (Sr.rtp (srImage b) : R ε UInt32) = .ok b.rtp ∧
    (Sr.packetCount (srImage b) : R ε UInt32) = .ok b.packetCount ∧
    (Sr.octetCount (srImage b) : R ε UInt32) = .ok b.octetCount ∧
    (Sr.padding (srImage b) : R ε (Option UInt8)) = .ok (getPaddingOf b.padding) ∧
    (Sr.nReports (srImage b) : R ε UInt8) = .ok b.reportBlocks.length.toUInt8 ∧
    (Sr.reportBlocks (srImage b) : R ε (List Bytes)) = .ok (b.reportBlocks.map rbImage) := by
  sorry

/-- C02: receiver report -/
theorem rr_roundtrip {ε : Type} (b : RrBuilder) (h : rrRules b = []) :
    Rr.parse (rrImage b) = .ok (rrImage b) ∧
    (Rr.ssrc (rrImage b) : R ε UInt32) = .ok b.ssrc ∧
    (Rr.padding (rrImage b) : R ε (Option UInt8)) = .ok (getPaddingOf b.padding) ∧
    (Rr.nReports (rrImage b) : R ε UInt8) = .ok b.reportBlocks.length.toUInt8 ∧
    (Rr.reportBlocks (rrImage b) : R ε (List Bytes)) = .ok (b.reportBlocks.map rbImage) := by
  sorry

/-- C04: BYE — sources in order, the reason bytes (absent when none was set), padding -/
theorem bye_roundtrip {ε : Type} (b : ByeBuilder) (h : byeRules b = []) :
    Bye.parse (byeImage b) = .ok (byeImage b) ∧
    (Bye.ssrcs (byeImage b) : R ε (List UInt32)) = .ok b.sources ∧
    (Bye.reason (byeImage b) : R ε (Option Slice)) =
      .ok (if b.reason = [] then none else some ⟨4 + 4 * b.sources.length + 1, b.reason⟩) ∧
    (Bye.padding (byeImage b) : R ε (Option UInt8)) = .ok (getPaddingOf b.padding) := by
  sorry

/-- C04: APP — SSRC, subtype, name zero-filled to 4 bytes, payload, padding -/
theorem app_roundtrip {ε : Type} (b : AppBuilder) (h : appRules b = []) :
    App.parse (appImage b) = .ok (appImage b) ∧
    (App.ssrc (appImage b) : R ε UInt32) = .ok b.ssrc ∧
    (hCount (appImage b) : R ε UInt8) = .ok b.subtype ∧
    (App.name (appImage b) : R ε Bytes) = .ok (b.name ++ List.replicate (4 - b.name.length) 0) ∧
    (App.data (appImage b) : R ε Slice) = .ok ⟨12, b.data⟩ ∧
    (App.padding (appImage b) : R ε (Option UInt8)) = .ok (getPaddingOf b.padding) := by
  sorry

/-- C05 (packet level): sender SSRC, media SSRC, format, padding; and `parse_fci` hands exactly
    the FCI image to the matching FCI parser, padding excluded -/
theorem fb_roundtrip {ε : Type} (k : FbKind) (f : FciB)
    (hf : match f with | .nack b => b.rtpSeq.Pairwise (· < ·) | _ => True)
    (p : UInt8) (s m : UInt32) (h : fbRules k f p = []) :
    let img := fbImage k f p s m
    Fb.parse k img = .ok img ∧
    (Fb.senderSsrc img : R ε UInt32) = .ok s ∧
    (Fb.mediaSsrc img : R ε UInt32) = .ok m ∧
    (Fb.padding img : R ε (Option UInt8)) = .ok (getPaddingOf p) ∧
    (hCount img : R ε UInt8) = .ok (fciFormat f).toUInt8 ∧
    Fb.parseFci k (fciTypeOf f) img = (fciTypeOf f).parse (fciImage f) := by
  sorry

/-- C19: raw packets from the unknown-packet builder are accepted by the generic parser as
    unknown packets exposing the exact bytes (for every type the crate does not know) -/
theorem unknown_roundtrip (b : UnknownBuilder) (h : unknownRules b = []) (hk : kindOfType b.type = none) :
    Packet.parse (unknownImage b) = .ok (.unknown (unknownImage b)) := by
  sorry

/-- C19: the third-party family converts back with every field intact, directly and through the
    generic parser -/
theorem custom_roundtrip {ε : Type} (b : CustomBuilder) (h : customRules b = []) (h4 : 4 ≤ b.min)
    (hm : b.min % 4 = 0) (hs : b.bodyEnd + b.padding.toNat ≤ 262144) :
    Custom.parse b.pt b.min (customImage b) = .ok (customImage b) ∧
    (Custom.body (customImage b) : R ε Slice)
      = .ok ⟨4, b.body ++ List.replicate (b.min - 4 - b.body.length) 0⟩ ∧
    (Custom.padding (customImage b) : R ε (Option UInt8)) = .ok (getPaddingOf b.padding) ∧
    (kindOfType b.pt = none → Packet.parse (customImage b) = .ok (.unknown (customImage b))) := by
  sorry

end Rtcp.Proofs
