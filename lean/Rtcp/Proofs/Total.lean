/-
  Proofs: the totality summary of C01, derived from the parser characterisations.
-/
import Rtcp.Spec.All
import Rtcp.Proofs.Parsers
import Rtcp.Proofs.Sdes
import Rtcp.Proofs.Fci
import Rtcp.Proofs.CompoundParse

namespace Rtcp.Proofs
open Rtcp Rtcp.Impl Rtcp.Spec

/-! ## small helpers -/

theorem ne_panic_of_ok {ε α : Type} {x : R ε α} {a : α} (h : x = .ok a) : x ≠ .panic := by
  rw [h]; intro e; cases e

theorem map_ne_panic {ε α β : Type} (f : α → β) {x : R ε α} (h : x ≠ .panic) : f <$> x ≠ .panic := by
  cases x with
  | ok a => intro e; cases e
  | err e => intro e'; cases e'
  | panic => exact absurd rfl h

theorem kind_parse_no_panic (k : Kind) (bs : Bytes) : k.parse bs ≠ .panic := by
  obtain ⟨hsr, hrr, hbye, happ, htfb, hpfb, _, _⟩ := parsers_no_panic bs
  cases k <;> simp only [Kind.parse]
  · exact map_ne_panic _ happ
  · exact map_ne_panic _ hbye
  · exact map_ne_panic _ hrr
  · exact map_ne_panic _ (sdes_parse_no_panic bs)
  · exact map_ne_panic _ hsr
  · exact map_ne_panic _ htfb
  · exact map_ne_panic _ hpfb

theorem packet_parse_no_panic (bs : Bytes) : Packet.parse bs ≠ .panic := by
  by_cases h : bs.length < 4
  · rw [packet_parse_short bs h]; intro e; cases e
  · rw [packet_parse_eq bs (by omega)]
    cases kindOfType (ptype bs) with
    | some k => exact kind_parse_no_panic k bs
    | none => exact map_ne_panic _ (parsers_no_panic bs).2.2.2.2.2.2.1

theorem entry_points_total (bs : Bytes) :
    Compound.parse bs ≠ .panic ∧ Packet.parse bs ≠ .panic ∧
    (∀ k : Kind, k.parse bs ≠ .panic) ∧ Unknown.parse bs ≠ .panic ∧ ReportBlock.parse bs ≠ .panic ∧
    (∀ f : Fb.FciType, f.parse bs ≠ .panic) ∧
    (∀ (pt : UInt8) (min : Nat), 4 ≤ min → Custom.parse pt min bs ≠ .panic) := by
  obtain ⟨_, _, _, _, _, _, hunk, hrb⟩ := parsers_no_panic bs
  exact ⟨compound_parse_no_panic bs, packet_parse_no_panic bs, fun k => kind_parse_no_panic k bs, hunk, hrb,
    fun f => fci_parsers_no_panic f bs, fun pt min h4 => (custom_outcome pt min h4 bs).no_panic⟩

theorem parseFci_total (k : FbKind) (f : Fb.FciType) (d : Bytes) (h : Fb.parse k d = .ok d) :
    Fb.parseFci k f d ≠ .panic := by
  rw [parseFci_eq k f d h]
  split
  · exact fci_parsers_no_panic f _
  · intro e; cases e

theorem header_accessors_total {ε : Type} (bs : Bytes) (p : Packet) (h : Packet.parse bs = .ok p) :
    (hVersion bs : R ε UInt8) ≠ .panic ∧ (hType bs : R ε UInt8) ≠ .panic ∧
    (hCount bs : R ε UInt8) ≠ .panic ∧ (hLength bs : R ε Nat) ≠ .panic := by
  have h4 : 4 ≤ bs.length := (packet_parse_ok_cases bs p h).1
  refine ⟨?_, ne_panic_of_ok (hType_ok bs h4), ne_panic_of_ok (Acc.hCount_ok bs h4),
    ne_panic_of_ok (Acc.hLength_ok bs h4)⟩
  simp only [hVersion, headerData, Read.slice_ok bs 0 4 ⟨by omega, h4⟩, R.ok_bind]
  rw [Read.parseVersion_ok _ (by rw [Acc.header_length bs h4]; omega)]
  intro e; cases e

theorem sr_accessors_total {ε : Type} (bs : Bytes) (h : Sr.parse bs = .ok bs) :
    (Sr.ssrc bs : R ε UInt32) ≠ .panic ∧ (Sr.ntp bs : R ε UInt64) ≠ .panic ∧ (Sr.rtp bs : R ε UInt32) ≠ .panic ∧
    (Sr.packetCount bs : R ε UInt32) ≠ .panic ∧ (Sr.octetCount bs : R ε UInt32) ≠ .panic ∧
    (Sr.nReports bs : R ε UInt8) ≠ .panic ∧ (Sr.padding bs : R ε (Option UInt8)) ≠ .panic ∧
    (∃ rbs, (Sr.reportBlocks bs : R ε (List Bytes)) = .ok rbs ∧ rbs.length ≤ 31 ∧ ∀ rb ∈ rbs, rb.length = 24) := by
  obtain ⟨h1, h2, h3, h4, h5, h6, h7, h8⟩ := sr_accessors (ε := ε) bs h
  obtain ⟨-, hw, hc⟩ := (sr_parse_ok_iff bs bs).mp h
  refine ⟨ne_panic_of_ok h1, ne_panic_of_ok h2, ne_panic_of_ok h3, ne_panic_of_ok h4, ne_panic_of_ok h5,
    ne_panic_of_ok h6, ne_panic_of_ok h7, _, h8, ?_, ?_⟩
  · have := Read.count_lt bs
    simp only [List.length_map, List.length_range]; omega
  · intro rb hrb
    simp only [List.mem_map, List.mem_range] at hrb
    obtain ⟨i, hi, rfl⟩ := hrb
    rw [Read.range_length _ _ _ (by omega)]; omega

theorem rr_accessors_total {ε : Type} (bs : Bytes) (h : Rr.parse bs = .ok bs) :
    (Rr.ssrc bs : R ε UInt32) ≠ .panic ∧ (Rr.nReports bs : R ε UInt8) ≠ .panic ∧
    (Rr.padding bs : R ε (Option UInt8)) ≠ .panic ∧
    (∃ rbs, (Rr.reportBlocks bs : R ε (List Bytes)) = .ok rbs ∧ rbs.length ≤ 31 ∧ ∀ rb ∈ rbs, rb.length = 24) := by
  obtain ⟨h1, h2, h3, h4⟩ := rr_accessors (ε := ε) bs h
  obtain ⟨-, hw, hc⟩ := (rr_parse_ok_iff bs bs).mp h
  refine ⟨ne_panic_of_ok h1, ne_panic_of_ok h2, ne_panic_of_ok h3, _, h4, ?_, ?_⟩
  · have := Read.count_lt bs
    simp only [List.length_map, List.length_range]; omega
  · intro rb hrb
    simp only [List.mem_map, List.mem_range] at hrb
    obtain ⟨i, hi, rfl⟩ := hrb
    rw [Read.range_length _ _ _ (by omega)]; omega

theorem rb_accessors_total {ε : Type} (bs : Bytes) (h : bs.length = 24) :
    (ReportBlock.ssrc bs : R ε UInt32) ≠ .panic ∧ (ReportBlock.fractionLost bs : R ε UInt8) ≠ .panic ∧
    (ReportBlock.cumulativeLost bs : R ε UInt32) ≠ .panic ∧
    (ReportBlock.extendedSequenceNumber bs : R ε UInt32) ≠ .panic ∧
    (ReportBlock.interarrivalJitter bs : R ε UInt32) ≠ .panic ∧
    (ReportBlock.lastSenderReportTimestamp bs : R ε UInt32) ≠ .panic ∧
    (ReportBlock.delaySinceLastSenderReportTimestamp bs : R ε UInt32) ≠ .panic := by
  obtain ⟨h1, h2, h3, h4, h5, h6, h7⟩ := rb_accessors (ε := ε) bs h
  exact ⟨ne_panic_of_ok h1, ne_panic_of_ok h2, ne_panic_of_ok h3, ne_panic_of_ok h4, ne_panic_of_ok h5,
    ne_panic_of_ok h6, ne_panic_of_ok h7⟩

theorem app_accessors_total {ε : Type} (bs : Bytes) (h : App.parse bs = .ok bs) :
    (App.ssrc bs : R ε UInt32) ≠ .panic ∧ (App.name bs : R ε Bytes) ≠ .panic ∧
    (App.padding bs : R ε (Option UInt8)) ≠ .panic ∧ (App.data bs : R ε Slice) ≠ .panic := by
  obtain ⟨h1, h2, h3, h4, _⟩ := app_accessors (ε := ε) bs h
  exact ⟨ne_panic_of_ok h1, ne_panic_of_ok h2, ne_panic_of_ok h3, ne_panic_of_ok h4⟩

theorem bye_accessors_total {ε : Type} (bs : Bytes) (h : Bye.parse bs = .ok bs) :
    (∃ l, (Bye.ssrcs bs : R ε (List UInt32)) = .ok l ∧ l.length ≤ 31) ∧
    (Bye.padding bs : R ε (Option UInt8)) ≠ .panic ∧ (Bye.reason bs : R ε (Option Slice)) ≠ .panic := by
  obtain ⟨h1, h2, h3, _⟩ := bye_accessors (ε := ε) bs h
  refine ⟨⟨_, h1, ?_⟩, ne_panic_of_ok h2, ne_panic_of_ok h3⟩
  have := Read.count_lt bs
  simp only [List.length_map, List.length_range]; omega

theorem fb_accessors_total {ε : Type} (k : FbKind) (bs : Bytes) (h : Fb.parse k bs = .ok bs) :
    (Fb.senderSsrc bs : R ε UInt32) ≠ .panic ∧ (Fb.mediaSsrc bs : R ε UInt32) ≠ .panic ∧
    (Fb.padding bs : R ε (Option UInt8)) ≠ .panic := by
  obtain ⟨h1, h2, h3⟩ := fb_accessors (ε := ε) k bs h
  exact ⟨ne_panic_of_ok h1, ne_panic_of_ok h2, ne_panic_of_ok h3⟩

theorem sdes_accessors_total {ε : Type} (bs : Bytes) (v : Sdes) (h : Sdes.parse bs = .ok v) :
    (Sdes.padding v : R ε (Option UInt8)) ≠ .panic ∧
    ∀ c ∈ v.chunks, (c.length : R ε Nat) ≠ .panic ∧
      ∀ it ∈ c.items, (it.type : R ε UInt8) ≠ .panic ∧ (it.length : R ε Nat) ≠ .panic ∧
        (it.value : R ε Slice) ≠ .panic ∧
        ((it.type : R ε UInt8) = .ok 8 →
          (it.privPrefixLen : R ε UInt8) ≠ .panic ∧ (it.privPrefix : R ε Slice) ≠ .panic) := by
  obtain ⟨hd, hw, _, _, hall⟩ := sdes_parse_accepts bs v h
  obtain ⟨_, h4, _, _, hl, _⟩ := (Read.wellFramed_iff 4 202 bs).mp hw
  refine ⟨?_, ?_⟩
  · unfold Sdes.padding
    rw [hd]
    exact ne_panic_of_ok (Read.parsePadding_ok bs h4 hl)
  · intro c hc
    refine ⟨ne_panic_of_ok (chunk_length bs c (hall c hc)), ?_⟩
    intro it hit
    obtain ⟨ht, hlen, hv, hpriv⟩ := item_accessors (ε := ε) bs it (hall c hc it hit)
    refine ⟨ne_panic_of_ok ht, ne_panic_of_ok hlen, ?_, ?_⟩
    · by_cases h8 : u8At it.data 0 = 8
      · exact ne_panic_of_ok (hpriv h8).2.2.1
      · exact ne_panic_of_ok (hv h8)
    · intro ht8
      rw [ht] at ht8
      have h8 : u8At it.data 0 = 8 := by
        injection ht8 with ht8
        unfold u8At at ht8 ⊢
        rw [Read.toNat_toUInt8] at ht8
        rw [ht8]; rfl
      exact ⟨ne_panic_of_ok (hpriv h8).1, ne_panic_of_ok (hpriv h8).2.1⟩

theorem words32_length : ∀ d : Bytes, 4 * (words32 d).length ≤ d.length
  | a :: b :: c :: e :: rest => by
    have := words32_length rest
    simp only [words32, List.length_cons]; omega
  | [] | [_] | [_, _] | [_, _, _] => by simp [words32]

theorem words64_length : ∀ d : Bytes, 8 * (words64 d).length ≤ d.length
  | a :: b :: c :: e :: f :: g :: h :: i :: rest => by
    have := words64_length rest
    simp only [words64, List.length_cons]; omega
  | [] | [_] | [_, _] | [_, _, _] | [_, _, _, _] | [_, _, _, _, _] | [_, _, _, _, _, _]
  | [_, _, _, _, _, _, _] => by simp [words64]

theorem nackWord_decode_length (w : NackWord) : w.decode.length ≤ 17 := by
  have := List.length_filter_le (fun k => w.blp.testBit k) (List.range 16)
  simp only [NackWord.decode, List.length_cons, List.length_map, List.length_range] at this ⊢
  omega

theorem flatten_map_length_le {α β : Type} (f : α → List β) (n : Nat) (hf : ∀ a, (f a).length ≤ n) :
    ∀ ws : List α, ((ws.map f).flatten).length ≤ n * ws.length
  | [] => by simp
  | w :: ws => by
    have := flatten_map_length_le f n hf ws
    have := hf w
    simp only [List.map_cons, List.flatten_cons, List.length_append, List.length_cons, Nat.mul_succ]
    omega

theorem nackDecode_length (d : Bytes) : (nackDecode d).length ≤ 17 * (d.length / 4) := by
  have h1 := words32_length d
  have h2 := flatten_map_length_le (fun (x : UInt8 × UInt8 × UInt8 × UInt8) =>
    NackWord.decode ⟨x.1.toNat * 256 + x.2.1.toNat, x.2.2.1.toNat * 256 + x.2.2.2.toNat⟩) 17
    (fun _ => nackWord_decode_length _) (words32 d)
  have h3 : (words32 d).length ≤ d.length / 4 := by omega
  unfold nackDecode
  exact Nat.le_trans h2 (Nat.mul_le_mul_left 17 h3)

theorem fci_iterators_finish {ε : Type} (d : Bytes) :
    (∃ l, (Nack.entries d : R ε (List UInt16 × Bool)) = .ok (l, true) ∧ l.length ≤ 17 * (d.length / 4)) ∧
    (∃ l, (Fir.entries d : R ε (List (UInt32 × UInt8) × Bool)) = .ok (l, true) ∧ 8 * l.length ≤ d.length) ∧
    (∃ l, (Sli.lostMacroblocks d : R ε (List MacroBlockEntry × Bool)) = .ok (l, true) ∧ 4 * l.length ≤ d.length) := by
  refine ⟨⟨_, nack_entries_eq d, ?_⟩, ⟨_, fir_entries_eq d, ?_⟩, ⟨_, sli_entries_eq d, ?_⟩⟩
  · rw [List.length_map]; exact nackDecode_length d
  · rw [List.length_map]; unfold firDecode; rw [List.length_map]; exact words64_length d
  · rw [List.length_map]; unfold sliDecode; rw [List.length_map]; exact words32_length d

theorem rpsi_accessors_total {ε : Type} (d : Bytes) (h : Rpsi.parse d = .ok d) :
    (Rpsi.payloadType d : R ε UInt8) ≠ .panic ∧ (Rpsi.bitString 0 d : R ε (Slice × Nat)) ≠ .panic := by
  obtain ⟨pt, bits, s, k, _, h1, h2, _⟩ := rpsi_decode_eq (ε := ε) d h
  exact ⟨ne_panic_of_ok h1, ne_panic_of_ok h2⟩

theorem tryAs_total (bs : Bytes) (p : Packet) (k : Kind) (h : Packet.parse bs = .ok p) :
    p.tryAs k ≠ .panic := by
  cases hk : p.kind? with
  | none =>
    cases p <;> simp only [Packet.kind?] at hk <;> try cases hk
    rw [tryAs_unknown]
    exact kind_parse_no_panic k _
  | some k' =>
    by_cases hkk : k' = k
    · subst hkk
      exact ne_panic_of_ok (tryAs_same p k' hk)
    · rw [tryAs_mismatch bs p k k' h hk hkk]
      intro e; cases e

theorem flatten_length_ge (ts : List Bytes) (h : ∀ t ∈ ts, 4 ≤ t.length) :
    4 * ts.length ≤ ts.flatten.length := by
  induction ts with
  | nil => simp
  | cons t ts ih =>
    have h1 := h t (by simp)
    have h2 := ih (fun x hx => h x (by simp [hx]))
    simp only [List.flatten_cons, List.length_append, List.length_cons]
    omega

theorem tiling_length (bs : Bytes) (ts : List Bytes) (h : tiling bs = some ts) : 4 * ts.length ≤ bs.length := by
  obtain ⟨hf, ht⟩ := tiling_sound bs ts h
  have := flatten_length_ge ts (fun t hx => (ht t hx).1)
  rw [hf] at this
  exact this

theorem compound_iterator_total {ε : Type} (bs : Bytes) (c : Compound) (h : Compound.parse bs = .ok c) :
    ∃ items c', (Compound.collect (bs.length / 4 + 2) c [] : R ε _) = .ok (items, true, c') ∧
      4 * items.length ≤ bs.length ∧ c'.isOver = true ∧ (Compound.next c' : R ε _) = .ok (none, c') := by
  obtain ⟨rfl, hne, hs⟩ := (compound_parse_ok_iff bs c).mp h
  obtain ⟨ts, ht⟩ := Option.isSome_iff_exists.mp hs
  have hlen := tiling_length bs ts ht
  obtain ⟨items, c', e1, _, e3, e4⟩ := compound_iter (ε := ε) bs ts hne ht
    (fun t _ => packet_parse_no_panic t) (bs.length / 4 + 2) (by omega)
  exact ⟨items, c', e1, by omega, e4, compound_fused c' e4⟩

end Rtcp.Proofs
