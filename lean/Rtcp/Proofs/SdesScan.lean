/-
  Proofs: the SDES scanner against the reference tokeniser.
-/
import Rtcp.Spec.All
import Rtcp.Proofs.ReadLemmas
import Rtcp.Proofs.ParsersFraming
import Rtcp.Proofs.SdesScanAux

namespace Rtcp.Proofs
open Rtcp Rtcp.Impl Rtcp.Spec

namespace SdesAux
open Rtcp.Proofs.Read

/-- on a packet that is not well framed the parser returns the error of the framing check -/
theorem sdes_parse_unframed (bs : Bytes) (hf : ¬ WellFramed 4 202 bs) :
    ∃ e, Sdes.parse bs = .err e ∧ checkPacket 4 202 bs = .err e := by
  cases hc : checkPacket 4 202 bs with
  | ok u => exact absurd ((checkPacket_ok_iff 4 202 bs (by omega)).1 hc) hf
  | err e => exact ⟨e, by simp [Sdes.parse, hc], rfl⟩
  | panic => exact absurd hc (checkPacket_no_panic 4 202 bs (by omega))

/-- on a well-framed packet: the padding check, then the chunk loop -/
theorem sdes_parse_framed (bs : Bytes) (hf : WellFramed 4 202 bs) :
    Sdes.parse bs =
      if bs.length < 4 + padLen bs then .err (.truncated (4 + padLen bs) bs.length)
      else (if bs.length - padLen bs > 4 then Sdes.chunkLoop bs (bs.length - padLen bs) 4 []
            else .ok []) >>= fun cs => .ok ⟨bs, cs⟩ := by
  have hc := (checkPacket_ok_iff 4 202 bs (by omega)).2 hf
  obtain ⟨_, h4, _, _, hl, _⟩ := (wellFramed_iff 4 202 bs).1 hf
  unfold Sdes.parse
  rw [hc, parsePadding_ok bs h4 hl]
  simp only [R.ok_bind, R.pure_eq]
  unfold padLen
  split
  · rfl
  · split <;> simp

theorem sdes_parse_sim (bs : Bytes) (hf : WellFramed 4 202 bs) (hp : 4 + padLen bs ≤ bs.length) :
    (∀ cs, refTok (sdesBody bs) = some cs →
      ∃ cks, Sdes.parse bs = .ok ⟨bs, cks⟩ ∧ cks.map chunkAsRef = cs ∧
        ∀ c ∈ cks, ∀ it ∈ c.items, ItemOk bs it) ∧
    (refTok (sdesBody bs) = none → ∃ er, Sdes.parse bs = .err er ∧ ScanErr er) := by
  rw [sdes_parse_framed bs hf]
  have hlt : ¬ bs.length < 4 + padLen bs := by omega
  simp only [hlt, if_false, refTok, sdesBody]
  have hlen := range_length bs 4 (bs.length - padLen bs) (by omega)
  rw [hlen]
  by_cases hgt : bs.length - padLen bs > 4
  · simp only [hgt, if_true]
    have hsim := chunkLoop_sim bs (bs.length - padLen bs) 4 [] (by omega) (by omega)
      (bs.length - padLen bs - 4) (Nat.le_refl _)
    constructor
    · intro cs h
      obtain ⟨cks, hok, hmap, hall⟩ := hsim.1 cs h
      rw [hok]
      exact ⟨cks, by simp, hmap, hall⟩
    · intro h
      obtain ⟨er, herr, hse⟩ := hsim.2 h
      rw [herr]
      exact ⟨er, rfl, hse⟩
  · have h0 : bs.length - padLen bs - 4 = 0 := by omega
    have hnil : range bs 4 (bs.length - padLen bs) = [] := by
      rw [h0] at hlen; simpa using hlen
    simp only [hgt, if_false, h0, hnil, refChunks, R.ok_bind]
    constructor
    · intro cs h
      cases h
      exact ⟨[], rfl, rfl, by simp⟩
    · intro h; cases h

end SdesAux
open SdesAux

/-- accepted ⇒ framed, padding within the packet, and the chunks are the reference tokenisation -/
theorem sdes_parse_accepts (bs : Bytes) (v : Sdes) (h : Sdes.parse bs = .ok v) :
    v.data = bs ∧ WellFramed 4 202 bs ∧ 4 + padLen bs ≤ bs.length ∧
    refTok (sdesBody bs) = some (v.chunks.map chunkAsRef) ∧
    (∀ c ∈ v.chunks, ∀ it ∈ c.items, ItemOk bs it) := by
  by_cases hf : WellFramed 4 202 bs
  · by_cases hp : 4 + padLen bs ≤ bs.length
    · have hsim := sdes_parse_sim bs hf hp
      cases hr : refTok (sdesBody bs) with
      | none =>
        obtain ⟨er, herr, _⟩ := hsim.2 hr
        rw [herr] at h; cases h
      | some cs =>
        obtain ⟨cks, hok, hmap, hall⟩ := hsim.1 cs hr
        rw [hok] at h; cases h
        exact ⟨rfl, hf, hp, by rw [hmap], hall⟩
    · rw [sdes_parse_framed bs hf] at h
      have : bs.length < 4 + padLen bs := by omega
      simp [this] at h
  · obtain ⟨e, he, _⟩ := sdes_parse_unframed bs hf
    rw [he] at h; cases h

/-- rejected ⇒ not framed, or the padding overruns, or the reference tokeniser rejects too -/
theorem sdes_parse_rejects (bs : Bytes) (e : ParseError) (h : Sdes.parse bs = .err e) :
    ¬ (WellFramed 4 202 bs ∧ 4 + padLen bs ≤ bs.length ∧ (refTok (sdesBody bs)).isSome) := by
  rintro ⟨hf, hp, hs⟩
  have hsim := sdes_parse_sim bs hf hp
  cases hr : refTok (sdesBody bs) with
  | none => rw [hr] at hs; cases hs
  | some cs =>
    obtain ⟨cks, hok, _⟩ := hsim.1 cs hr
    rw [hok] at h; cases h

theorem sdes_parse_no_panic (bs : Bytes) : Sdes.parse bs ≠ .panic := by
  intro h
  by_cases hf : WellFramed 4 202 bs
  · by_cases hp : 4 + padLen bs ≤ bs.length
    · have hsim := sdes_parse_sim bs hf hp
      cases hr : refTok (sdesBody bs) with
      | none =>
        obtain ⟨er, herr, _⟩ := hsim.2 hr
        rw [herr] at h; cases h
      | some cs =>
        obtain ⟨cks, hok, _⟩ := hsim.1 cs hr
        rw [hok] at h; cases h
    · rw [sdes_parse_framed bs hf] at h
      have : bs.length < 4 + padLen bs := by omega
      simp [this] at h
  · obtain ⟨e, he, _⟩ := sdes_parse_unframed bs hf
    rw [he] at h; cases h

/-- C18: the errors of the SDES parser are truthful -/
theorem sdes_err_truthful (bs : Bytes) (e : ParseError) (h : Sdes.parse bs = .err e) :
    ErrorTruthful bs 202 e := by
  by_cases hf : WellFramed 4 202 bs
  · by_cases hp : 4 + padLen bs ≤ bs.length
    · have hsim := sdes_parse_sim bs hf hp
      cases hr : refTok (sdesBody bs) with
      | none =>
        obtain ⟨er, herr, hse⟩ := hsim.2 hr
        rw [herr] at h; cases h
        exact hse.truthful bs 202
      | some cs =>
        obtain ⟨cks, hok, _⟩ := hsim.1 cs hr
        rw [hok] at h; cases h
    · rw [sdes_parse_framed bs hf] at h
      have hlt : bs.length < 4 + padLen bs := by omega
      simp only [hlt, if_true] at h
      cases h
      exact hlt
  · obtain ⟨e', he, hc⟩ := sdes_parse_unframed bs hf
    rw [he] at h; cases h
    exact checkPacket_err_truthful 4 202 bs (by omega) e hc

/- every accessor of a parsed item returns normally, with exactly the bytes on the wire; PRIV
    items split into prefix and value as the reference says -/

theorem item_accessors {ε : Type} (bs : Bytes) (it : SdesItem) (h : ItemOk bs it) :
    (it.type : R ε UInt8) = .ok (u8At it.data 0).toUInt8 ∧
    (it.length : R ε Nat) = .ok (it.data.length - 2) ∧
    (u8At it.data 0 ≠ 8 →
      (it.value : R ε Slice) = .ok ⟨it.off + 2, it.data.drop 2⟩) ∧
    (u8At it.data 0 = 8 →
      (it.privPrefixLen : R ε UInt8) = .ok (u8At it.data 2).toUInt8 ∧
      (it.privPrefix : R ε Slice) = .ok ⟨it.off + 3, (it.data.drop 3).take (u8At it.data 2)⟩ ∧
      (it.value : R ε Slice) = .ok ⟨it.off + 3 + u8At it.data 2, it.data.drop (3 + u8At it.data 2)⟩ ∧
      (itemAsRef it).privSplit = some ((it.data.drop 3).take (u8At it.data 2), it.data.drop (3 + u8At it.data 2))) := by
  obtain ⟨off, data⟩ := it
  obtain ⟨h2, _, _, h1, h8⟩ := h
  simp only at h2 h1 h8 ⊢
  match data, h2 with
  | t :: l :: rest, _ =>
    simp only [u8At, List.getD_cons_zero, List.getD_cons_succ, List.length_cons] at h1 h8 ⊢
    have ht8 : t.toNat = 8 ↔ t = 8 := ⟨fun h => UInt8.toNat_inj.mp h, fun h => by rw [h]; rfl⟩
    refine ⟨?_, ?_, ?_, ?_⟩
    · simp [SdesItem.type, idx]
    · simp only [SdesItem.length, idx, List.getElem?_cons_succ, List.getElem?_cons_zero, R.ok_bind,
        R.pure_eq]
      congr 1
      omega
    · intro hne
      have hne' : ¬ t = 8 := fun h => hne (ht8.2 h)
      simp [SdesItem.value, SdesItem.type, idx, SdesItem.PRIV, hne', sliceS]
    · intro he
      have he' : t = 8 := ht8.1 he
      subst he'
      obtain ⟨h3, hpl⟩ := h8 rfl
      match rest, h3 with
      | pl :: r, _ =>
        simp only [List.getD_cons_zero, List.length_cons] at hpl h1 ⊢
        have hle : pl.toNat ≤ r.length := by omega
        refine ⟨?_, ?_, ?_, ?_⟩
        · simp [SdesItem.privPrefixLen, SdesItem.type, idx, SdesItem.PRIV]
        · simp only [SdesItem.privPrefix, SdesItem.privPrefixLen, SdesItem.type, idx, SdesItem.PRIV,
            List.getElem?_cons_zero, List.getElem?_cons_succ, R.ok_bind, bne_self_eq_false,
            Bool.false_eq_true, if_false, sliceS, List.length_cons]
          have : 3 ≤ 3 + pl.toNat ∧ 3 + pl.toNat ≤ r.length + 1 + 1 + 1 := by omega
          simp only [this, and_self, if_true]
          rw [show 3 + pl.toNat = pl.toNat + 1 + 1 + 1 by omega]
          simp
        · simp only [SdesItem.value, SdesItem.privValueOffset, SdesItem.privPrefixLen, SdesItem.type,
            idx, SdesItem.PRIV, List.getElem?_cons_zero, List.getElem?_cons_succ, R.ok_bind,
            bne_self_eq_false, beq_self_eq_true, Bool.false_eq_true, if_false, if_true, sliceS,
            List.length_cons, R.pure_eq]
          have : pl.toNat + 3 ≤ r.length + 1 + 1 + 1 := by omega
          simp only [this, Nat.le_refl, and_self, if_true]
          rw [show 3 + pl.toNat = pl.toNat + 1 + 1 + 1 by omega,
            show pl.toNat + 3 = pl.toNat + 1 + 1 + 1 by omega]
          simp
          omega
        · simp only [itemAsRef, RefItem.privSplit, List.drop_succ_cons, List.drop_zero, hle, if_true]
          rw [show 3 + pl.toNat = pl.toNat + 1 + 1 + 1 by omega]
          simp

theorem mapM_length_loop {ε : Type} (bs : Bytes) (items : List SdesItem)
    (h : ∀ it ∈ items, ItemOk bs it) (acc : List Nat) :
    (List.mapM.loop (fun it : SdesItem => (it.length : R ε Nat)) items acc) =
      .ok (acc.reverse ++ items.map (fun it => it.data.length - 2)) := by
  induction items generalizing acc with
  | nil => simp [List.mapM.loop]
  | cons it rest ih =>
    have hl := (item_accessors (ε := ε) bs it (h it (by simp))).2.1
    simp only [List.mapM.loop, hl, R.ok_bind]
    rw [ih (fun it' h' => h it' (by simp [h']))]
    simp

/- each chunk reports its own encoded length: SSRC, items with their two header octets, the
    terminator, rounded up to 32 bits -/

theorem chunk_length {ε : Type} (bs : Bytes) (c : SdesChunk) (h : ∀ it ∈ c.items, ItemOk bs it) :
    (c.length : R ε Nat) = .ok (pad4 (4 + (c.items.map (·.data.length)).sum + 1)) := by
  unfold SdesChunk.length List.mapM
  rw [mapM_length_loop bs c.items h []]
  simp only [List.reverse_nil, List.nil_append, R.ok_bind, R.pure_eq, List.map_map]
  congr 3
  have : ∀ items : List SdesItem, (∀ it ∈ items, ItemOk bs it) →
      (items.map ((fun x => 2 + x) ∘ fun it => it.data.length - 2)).sum =
        (items.map (·.data.length)).sum := by
    intro items hi
    induction items with
    | nil => rfl
    | cons it rest ih =>
      have := (hi it (by simp)).1
      simp only [List.map_cons, List.sum_cons, Function.comp]
      rw [← ih (fun it' h' => hi it' (by simp [h']))]
      omega
  rw [this c.items h]

/- C03: every SDES packet the builder accepts (item types ≠ 0) is accepted by the parser and
    yields exactly the configured chunks, items (type, value, PRIV prefix) and padding -/

end Rtcp.Proofs
