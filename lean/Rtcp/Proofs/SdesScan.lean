/-
  Proofs: the SDES scanner against the reference tokeniser.
-/
import Rtcp.Spec.All
import Rtcp.Proofs.ReadLemmas

namespace Rtcp.Proofs
open Rtcp Rtcp.Impl Rtcp.Spec

/-- accepted ⇒ framed, padding within the packet, and the chunks are the reference tokenisation -/
theorem sdes_parse_accepts (bs : Bytes) (v : Sdes) (h : Sdes.parse bs = .ok v) :
    v.data = bs ∧ WellFramed 4 202 bs ∧ 4 + padLen bs ≤ bs.length ∧
    refTok (sdesBody bs) = some (v.chunks.map chunkAsRef) ∧
    (∀ c ∈ v.chunks, ∀ it ∈ c.items, ItemOk bs it) := by
  sorry

/-- rejected ⇒ not framed, or the padding overruns, or the reference tokeniser rejects too -/
theorem sdes_parse_rejects (bs : Bytes) (e : ParseError) (h : Sdes.parse bs = .err e) :
    ¬ (WellFramed 4 202 bs ∧ 4 + padLen bs ≤ bs.length ∧ (refTok (sdesBody bs)).isSome) := by
  sorry

theorem sdes_parse_no_panic (bs : Bytes) : Sdes.parse bs ≠ .panic := by
  sorry

/-- C18: the errors of the SDES parser are truthful -/
theorem sdes_err_truthful (bs : Bytes) (e : ParseError) (h : Sdes.parse bs = .err e) :
    ErrorTruthful bs 202 e := by
  sorry

/- every accessor of a parsed item returns normally, with exactly the bytes on the wire; PRIV
    items split into prefix and value as the reference says -/

theorem item_accessors {ε : Type} (bs : Bytes) (it : SdesItem) (h : ItemOk bs it) :
    (it.type : R ε UInt8) = .ok (u8At it.data 0).toUInt8 ∧
    (it.length : R ε Nat) = .ok (it.data.length - 2) ∧
    (u8At it.data 0 ≠ 8 →
      (it.value : R ε Slice) = .ok ⟨it.off + 2, it.data.drop 2⟩) ∧
    (u8At it.data 0 = 8 →
      (it.privPrefixLen : R ε UInt8) = .ok (u8At it.data 2).toUInt8 ∧
      (it.privPrefix : R ε Slice) = .ok ⟨it.off + 3, (it.data.drop 3).take (u8At it.data 2)⟩ ∧
      (it.value : R ε Slice) = .ok ⟨it.off + 3 + u8At it.data 2, it.data.drop (3 + u8At it.data 2)⟩ ∧
      (itemAsRef it).privSplit = some ((it.data.drop 3).take (u8At it.data 2), it.data.drop (3 + u8At it.data 2))) := by
  sorry

/- each chunk reports its own encoded length: SSRC, items with their two header octets, the
    terminator, rounded up to 32 bits -/

theorem chunk_length {ε : Type} (bs : Bytes) (c : SdesChunk) (h : ∀ it ∈ c.items, ItemOk bs it) :
    (c.length : R ε Nat) = .ok (pad4 (4 + (c.items.map (·.data.length)).sum + 1)) := by
  sorry

/- C03: every SDES packet the builder accepts (item types ≠ 0) is accepted by the parser and
    yields exactly the configured chunks, items (type, value, PRIV prefix) and padding -/

end Rtcp.Proofs
