/-
  C14 end to end, for compounds whose members are built-in packet builders: assembled from
  `compound_refines`, `writeInto_ok`, `compound_accept_iff`, the `*_rules` theorems, the `*_image_tile`
  theorems and `compound_parse_back_all`.
-/
import Rtcp.Props.WriterContract
import Rtcp.Props.Writers
import Rtcp.Props.Rules
import Rtcp.Props.Compose
import Rtcp.Props.Members


namespace Rtcp.Proofs
open Rtcp Rtcp.Impl Rtcp.Spec Rtcp.Props

theorem member_refines (m : Member) (h : m.Inv) : Refines m.toWriter m.image := by
  cases m with
  | sr b => exact Props.sr_refines b
  | rr b => exact Props.rr_refines b
  | bye b => exact Props.bye_refines b
  | app b => exact Props.app_refines b
  | sdes b => exact Props.sdes_refines b
  | fb k f p s m => exact Props.fb_refines k f h p s m

theorem member_accepted (m : Member) (h : m.Inv) (k : Nat) (hk : m.toWriter.calcSize = .ok k) :
    Tile m.image ∧ ∃ p, Packet.parse m.image = .ok p ∧ p.kind? = some m.kind := by
  cases m with
  | sr b =>
    have hr := (Props.sr_rules b).accept_iff.mp ⟨k, hk⟩
    have ht := Props.sr_image_tile b hr
    exact ⟨ht.1, _, ht.2, rfl⟩
  | rr b =>
    have hr := (Props.rr_rules b).accept_iff.mp ⟨k, hk⟩
    have ht := Props.rr_image_tile b hr
    exact ⟨ht.1, _, ht.2, rfl⟩
  | bye b =>
    have hr := (Props.bye_rules b).accept_iff.mp ⟨k, hk⟩
    have ht := Props.bye_image_tile b hr
    exact ⟨ht.1, _, ht.2, rfl⟩
  | app b =>
    have hr := (Props.app_rules b).accept_iff.mp ⟨k, hk⟩
    have ht := Props.app_image_tile b hr
    exact ⟨ht.1, _, ht.2, rfl⟩
  | sdes b =>
    have hr := (Props.sdes_rules b).accept_iff.mp ⟨k, hk⟩
    obtain ⟨ht, v, hv, _⟩ := Props.sdes_image_tile b hr h
    exact ⟨ht, _, hv, rfl⟩
  | fb kd f p s m =>
    have hr := (Props.fb_rules kd f h p s m).accept_iff.mp ⟨k, hk⟩
    have ht := Props.fb_image_tile kd f p s m hr
    refine ⟨ht.1, _, ht.2, ?_⟩
    cases kd <;> rfl

theorem compound_end_to_end {ε : Type} (ms : List Member) (hne : ms ≠ []) (hinv : ∀ m ∈ ms, m.Inv) (n : Nat)
    (hs : CompoundBuilder.calcSize (ms.map Member.toWriter) = .ok n) (buf : Bytes) (hb : n ≤ buf.length)
    (fuel : Nat) (hf : ms.length < fuel) :
    (CompoundBuilder.toWriter (ms.map Member.toWriter)).writeInto buf
        = ((ms.map Member.image).flatten ++ buf.drop n, .ok n) ∧
    (ms.map Member.image).flatten.length = n ∧
    Compound.parse (ms.map Member.image).flatten = .ok ⟨(ms.map Member.image).flatten, 0, false⟩ ∧
    (∀ m ∈ ms, ∃ p, Packet.parse m.image = .ok p ∧ p.kind? = some m.kind) ∧
    ∃ items c', (Compound.collect fuel ⟨(ms.map Member.image).flatten, 0, false⟩ [] : R ε _) = .ok (items, true, c') ∧
      items.map (·.1) = ms.map (fun m => Packet.parse m.image) ∧ items.length = ms.length := by
  have hall : AllRefine (ms.map Member.toWriter) (ms.map Member.image) := by
    refine ⟨by simp, ?_⟩
    intro i h1 h2
    simp only [List.length_map] at h1
    simp only [List.getElem_map]
    exact member_refines ms[i] (hinv _ (List.getElem_mem h1))
  have href := Props.compound_refines _ _ hall
  have hs' : (CompoundBuilder.toWriter (ms.map Member.toWriter)).calcSize = .ok n := hs
  have hw := Props.writeInto_ok href hs' buf hb
  have hlen := (href.exact n hs').1
  -- every member is accepted on its own
  have hnp : ∀ w ∈ ms.map Member.toWriter, w.calcSize ≠ .panic := by
    intro w hw
    obtain ⟨m, hm, rfl⟩ := List.mem_map.mp hw
    exact (member_refines m (hinv m hm)).noPanic
  have hacc := ((Props.compound_accept_iff _ hnp).mp ⟨n, hs⟩).1
  have hmem : ∀ m ∈ ms, Tile m.image ∧ ∃ p, Packet.parse m.image = .ok p ∧ p.kind? = some m.kind := by
    intro m hm
    obtain ⟨k, hk⟩ := hacc m.toWriter (List.mem_map.mpr ⟨m, hm, rfl⟩)
    exact member_accepted m (hinv m hm) k hk
  have hne' : ms.map Member.image ≠ [] := by simpa using hne
  have htile : ∀ t ∈ ms.map Member.image, Tile t := by
    intro t ht
    obtain ⟨m, hm, rfl⟩ := List.mem_map.mp ht
    exact (hmem m hm).1
  have hok : ∀ t ∈ ms.map Member.image, ∃ p, Packet.parse t = .ok p := by
    intro t ht
    obtain ⟨m, hm, rfl⟩ := List.mem_map.mp ht
    obtain ⟨p, hp, _⟩ := (hmem m hm).2
    exact ⟨p, hp⟩
  have hnpp : ∀ t ∈ ms.map Member.image, Packet.parse t ≠ .panic := by
    intro t ht
    obtain ⟨p, hp⟩ := hok t ht
    rw [hp]; simp
  have hback := Props.compound_parse_back (ε := ε) _ hne' htile hnpp fuel (by simpa using hf)
  obtain ⟨items, c', hcol, hmap, hlen'⟩ :=
    Props.compound_parse_back_all (ε := ε) _ hne' htile hok fuel (by simpa using hf)
  refine ⟨hw, hlen, hback.1, fun m hm => (hmem m hm).2, items, c', hcol, ?_, ?_⟩
  · simpa [List.map_map, Function.comp_def] using hmap
  · simpa using hlen'

end Rtcp.Proofs
