/-
  Proofs: padding transparency (C13).
-/
import Rtcp.Spec.All
import Rtcp.Proofs.ReadLemmas
import Rtcp.Proofs.ParsersFraming
import Rtcp.Proofs.ParsersAccessors

namespace Rtcp.Proofs
open Rtcp Rtcp.Impl Rtcp.Spec


theorem addPadding_shape (p : Bytes) (n : Nat) (h4 : 4 ≤ p.length) (hn : PadOk p n) :
    (addPadding p n).length = p.length + n ∧
    (addPadding p n).drop 4 = p.drop 4 ++ List.replicate (n - 1) 0 ++ [n.toUInt8] ∧
    pbit (addPadding p n) = true ∧ lastByte (addPadding p n) = n.toUInt8 ∧
    count (addPadding p n) = count p ∧ version (addPadding p n) = version p ∧
    ptype (addPadding p n) = ptype p ∧
    (lengthField p = p.length → lengthField (addPadding p n) = p.length + n) := by
  sorry

theorem sr_pad_transparent {ε : Type} (p : Bytes) (n : Nat) (h : Sr.parse p = .ok p) (hn : PadOk p n) :
    let q := addPadding p n
    Sr.parse q = .ok q ∧ (Sr.padding q : R ε (Option UInt8)) = .ok (some n.toUInt8) ∧
    (Sr.ssrc q : R ε UInt32) = Sr.ssrc p ∧ (Sr.ntp q : R ε UInt64) = Sr.ntp p ∧
    (Sr.rtp q : R ε UInt32) = Sr.rtp p ∧ (Sr.packetCount q : R ε UInt32) = Sr.packetCount p ∧
    (Sr.octetCount q : R ε UInt32) = Sr.octetCount p ∧ (Sr.nReports q : R ε UInt8) = Sr.nReports p ∧
    (Sr.reportBlocks q : R ε (List Bytes)) = Sr.reportBlocks p := by
  sorry

theorem rr_pad_transparent {ε : Type} (p : Bytes) (n : Nat) (h : Rr.parse p = .ok p) (hn : PadOk p n) :
    let q := addPadding p n
    Rr.parse q = .ok q ∧ (Rr.padding q : R ε (Option UInt8)) = .ok (some n.toUInt8) ∧
    (Rr.ssrc q : R ε UInt32) = Rr.ssrc p ∧ (Rr.nReports q : R ε UInt8) = Rr.nReports p ∧
    (Rr.reportBlocks q : R ε (List Bytes)) = Rr.reportBlocks p := by
  sorry

theorem bye_pad_transparent {ε : Type} (p : Bytes) (n : Nat) (h : Bye.parse p = .ok p) (hn : PadOk p n) :
    let q := addPadding p n
    Bye.parse q = .ok q ∧ (Bye.padding q : R ε (Option UInt8)) = .ok (some n.toUInt8) ∧
    (Bye.ssrcs q : R ε (List UInt32)) = Bye.ssrcs p ∧
    (Bye.reason q : R ε (Option Slice)) = Bye.reason p := by
  sorry

theorem app_pad_transparent {ε : Type} (p : Bytes) (n : Nat) (h : App.parse p = .ok p) (hn : PadOk p n) :
    let q := addPadding p n
    App.parse q = .ok q ∧ (App.padding q : R ε (Option UInt8)) = .ok (some n.toUInt8) ∧
    (App.ssrc q : R ε UInt32) = App.ssrc p ∧ (hCount q : R ε UInt8) = hCount p ∧
    (App.name q : R ε Bytes) = App.name p ∧ (App.data q : R ε Slice) = App.data p := by
  sorry

theorem fb_pad_transparent {ε : Type} (k : FbKind) (p : Bytes) (n : Nat) (h : Fb.parse k p = .ok p)
    (hn : PadOk p n) :
    let q := addPadding p n
    Fb.parse k q = .ok q ∧ (Fb.padding q : R ε (Option UInt8)) = .ok (some n.toUInt8) ∧
    (Fb.senderSsrc q : R ε UInt32) = Fb.senderSsrc p ∧ (Fb.mediaSsrc q : R ε UInt32) = Fb.mediaSsrc p ∧
    (hCount q : R ε UInt8) = hCount p ∧
    (∀ f : Fb.FciType, Fb.parseFci k f q = Fb.parseFci k f p) := by
  sorry

theorem sdes_pad_transparent {ε : Type} (p : Bytes) (n : Nat) (v : Sdes) (h : Sdes.parse p = .ok v)
    (hn : PadOk p n) :
    let q := addPadding p n
    ∃ v', Sdes.parse q = .ok v' ∧ v'.data = q ∧ v'.chunks = v.chunks ∧
      (Sdes.padding v' : R ε (Option UInt8)) = .ok (some n.toUInt8) := by
  sorry

theorem custom_pad_transparent {ε : Type} (pt : UInt8) (min : Nat) (h4 : 4 ≤ min) (p : Bytes) (n : Nat)
    (h : Custom.parse pt min p = .ok p) (hn : PadOk p n) :
    let q := addPadding p n
    Custom.parse pt min q = .ok q ∧ (Custom.padding q : R ε (Option UInt8)) = .ok (some n.toUInt8) ∧
    (Custom.body q : R ε Slice) = Custom.body p := by
  sorry

end Rtcp.Proofs
