/-
  Proofs: padding transparency (C13).
-/
import Rtcp.Spec.All
import Rtcp.Proofs.ReadLemmas
import Rtcp.Proofs.ParsersFraming
import Rtcp.Proofs.ParsersAccessors
import Rtcp.Proofs.FciDecode
import Rtcp.Proofs.SdesScan

namespace Rtcp.Proofs
open Rtcp Rtcp.Impl Rtcp.Spec
open Rtcp.Proofs.Read Rtcp.Proofs.Acc

namespace Pad

theorem or20_pbit : ∀ b : UInt8, (b ||| 0x20).toNat / 32 % 2 = 1 := by
  apply u8_forall; decide +kernel
theorem or20_count : ∀ b : UInt8, (b ||| 0x20).toNat % 32 = b.toNat % 32 := by
  apply u8_forall; decide +kernel
theorem or20_version : ∀ b : UInt8, (b ||| 0x20).toNat / 64 = b.toNat / 64 := by
  apply u8_forall; decide +kernel

end Pad
open Pad

theorem addPadding_shape (p : Bytes) (n : Nat) (h4 : 4 ≤ p.length) (hn : PadOk p n) :
    (addPadding p n).length = p.length + n ∧
    (addPadding p n).drop 4 = p.drop 4 ++ List.replicate (n - 1) 0 ++ [n.toUInt8] ∧
    pbit (addPadding p n) = true ∧ lastByte (addPadding p n) = n.toUInt8 ∧
    count (addPadding p n) = count p ∧ version (addPadding p n) = version p ∧
    ptype (addPadding p n) = ptype p ∧
    (lengthField p = p.length → lengthField (addPadding p n) = p.length + n) := by
  obtain ⟨hp, hn4, hge, hle, hlen⟩ := hn
  have hn0 : n ≠ 0 := by omega
  match p, h4 with
  | b0 :: b1 :: l0 :: l1 :: rest, _ =>
    simp only [addPadding, hn0, if_false, List.cons_append]
    refine ⟨?_, ?_, ?_, ?_, ?_, ?_, ?_, ?_⟩
    · simp; omega
    · simp
    · simp only [pbit, List.getD_cons_zero, or20_pbit, decide_true]
    · simp only [lastByte, List.getLastD_eq_getLast?]
      rw [← List.cons_append, ← List.cons_append, ← List.cons_append, ← List.cons_append,
        List.getLast?_append]
      simp
    · simp only [count, List.getD_cons_zero, or20_count]
    · simp only [version, List.getD_cons_zero, or20_version]
    · simp only [ptype, List.getD_cons_zero, List.getD_cons_succ]
    · simp only [lengthField, List.getD_cons_zero, List.getD_cons_succ, List.length_cons,
        Nat.toUInt8, UInt8.toNat_ofNat']
      have := l0.toNat_lt; have := l1.toNat_lt
      simp only [List.length_cons] at hlen
      omega

namespace Pad

theorem getD_drop (bs : Bytes) (k i : Nat) (h : k ≤ i) : bs.getD i 0 = (bs.drop k).getD (i - k) 0 := by
  simp only [List.getD_eq_getElem?_getD, List.getElem?_drop]
  rw [show k + (i - k) = i by omega]

theorem range_drop (bs : Bytes) (k a b : Nat) : range (bs.drop k) a b = range bs (k + a) (k + b) := by
  simp only [range, List.take_drop, List.drop_drop]

theorem range_append_left (A B : Bytes) (a b : Nat) (h : b ≤ A.length) :
    range (A ++ B) a b = range A a b := by
  simp only [range, List.take_append_of_le_length h]

/-- everything the transparency proofs need to know about `q = addPadding p n` -/
structure Facts (p q : Bytes) (n : Nat) : Prop where
  h4 : 4 ≤ p.length
  n4 : 4 ≤ n
  n252 : n ≤ 252
  len : q.length = p.length + n
  count : count q = count p
  getD : ∀ i, 4 ≤ i → i < p.length → q.getD i 0 = p.getD i 0
  zero : ∀ i, p.length ≤ i → i + 1 < p.length + n → q.getD i 0 = 0
  range : ∀ a b, 4 ≤ a → a ≤ b → b ≤ p.length → range q a b = range p a b
  padq : paddingOf q = some n.toUInt8
  padLenq : padLen q = n
  padp : paddingOf p = none
  padLenp : padLen p = 0
  wf : ∀ min pt, WellFramed min pt p → WellFramed min pt q

theorem toUInt8_toNat (n : Nat) (h : n < 256) : n.toUInt8.toNat = n := by
  simp only [Nat.toUInt8, UInt8.toNat_ofNat']
  omega

theorem facts (p : Bytes) (n : Nat) (h4 : 4 ≤ p.length) (hn : PadOk p n) :
    Facts p (addPadding p n) n := by
  obtain ⟨hlen, hdrop, hpb, hlast, hcount, hver, hpt, hlf⟩ := addPadding_shape p n h4 hn
  obtain ⟨hp, hn4, hge, hle, hmax⟩ := hn
  have hdl : (p.drop 4).length = p.length - 4 := List.length_drop
  have hnn : n.toUInt8.toNat = n := toUInt8_toNat n (by omega)
  have hpq : paddingOf (addPadding p n) = some n.toUInt8 := by
    simp only [paddingOf, hpb, if_true, hlast]
  have hpp : paddingOf p = none := by
    simp only [paddingOf, hp, Bool.false_eq_true, if_false]
  refine ⟨h4, hge, hle, hlen, hcount, ?_, ?_, ?_, hpq, ?_, hpp, ?_, ?_⟩
  · intro i h4i hi
    rw [getD_drop _ 4 i h4i, getD_drop p 4 i h4i, hdrop, List.append_assoc]
    simp only [List.getD_eq_getElem?_getD]
    rw [List.getElem?_append_left (by omega)]
  · intro i hi1 hi2
    rw [getD_drop _ 4 i (by omega), hdrop]
    simp only [List.getD_eq_getElem?_getD]
    rw [List.getElem?_append_left (by simp; omega), List.getElem?_append_right (by omega)]
    rw [List.getElem?_replicate]
    simp only [List.length_drop]
    split <;> rfl
  · intro a b ha hab hb
    obtain ⟨a', rfl⟩ : ∃ a', a = 4 + a' := ⟨a - 4, by omega⟩
    obtain ⟨b', rfl⟩ : ∃ b', b = 4 + b' := ⟨b - 4, by omega⟩
    rw [← range_drop, ← range_drop, hdrop, List.append_assoc, range_append_left _ _ _ _ (by omega)]
  · simp only [padLen, hpq, Option.getD_some, hnn]
  · simp only [padLen, hpp, Option.getD_none]; rfl
  · intro min pt hw
    obtain ⟨hm, _, hv, ht, hl, _⟩ := (wellFramed_iff min pt p).mp hw
    refine (wellFramed_iff min pt _).mpr ⟨by omega, by omega, by rw [hver, hv], by rw [hpt, ht], ?_, ?_⟩
    · rw [hlf hl, hlen]
    · intro _
      rw [hlast]
      intro h0
      rw [h0] at hnn
      simp at hnn
      omega


namespace Facts
variable {p q : Bytes} {n : Nat}

theorem u8At_eq (F : Facts p q n) (i : Nat) (h1 : 4 ≤ i) (h2 : i < p.length) : u8At q i = u8At p i := by
  unfold u8At
  rw [F.getD i h1 h2]

theorem u32At_eq (F : Facts p q n) (i : Nat) (h1 : 4 ≤ i) (h2 : i + 4 ≤ p.length) :
    u32At q i = u32At p i := by
  unfold u32At u16At
  rw [F.u8At_eq i h1 (by omega), F.u8At_eq (i + 1) (by omega) (by omega),
    F.u8At_eq (i + 2) (by omega) (by omega), F.u8At_eq (i + 2 + 1) (by omega) (by omega)]

theorem u64At_eq (F : Facts p q n) (i : Nat) (h1 : 4 ≤ i) (h2 : i + 8 ≤ p.length) :
    u64At q i = u64At p i := by
  unfold u64At
  rw [F.u32At_eq i h1 (by omega), F.u32At_eq (i + 4) (by omega) (by omega)]

end Facts

theorem sr_pad {ε : Type} {p q : Bytes} {n : Nat} (F : Facts p q n) (h : Sr.parse p = .ok p) :
    Sr.parse q = .ok q ∧ (Sr.padding q : R ε (Option UInt8)) = .ok (some n.toUInt8) ∧
    (Sr.ssrc q : R ε UInt32) = Sr.ssrc p ∧ (Sr.ntp q : R ε UInt64) = Sr.ntp p ∧
    (Sr.rtp q : R ε UInt32) = Sr.rtp p ∧ (Sr.packetCount q : R ε UInt32) = Sr.packetCount p ∧
    (Sr.octetCount q : R ε UInt32) = Sr.octetCount p ∧ (Sr.nReports q : R ε UInt8) = Sr.nReports p ∧
    (Sr.reportBlocks q : R ε (List Bytes)) = Sr.reportBlocks p := by
  obtain ⟨-, hw, hc⟩ := (sr_parse_ok_iff p p).mp h
  obtain ⟨hm, -⟩ := (wellFramed_iff 28 200 p).mp hw
  have hq : Sr.parse q = .ok q :=
    (sr_parse_ok_iff q q).mpr ⟨rfl, F.wf _ _ hw, by rw [F.count, F.len]; omega⟩
  obtain ⟨a1, a2, a3, a4, a5, a6, a7, a8⟩ := sr_accessors (ε := ε) p h
  obtain ⟨b1, b2, b3, b4, b5, b6, b7, b8⟩ := sr_accessors (ε := ε) q hq
  refine ⟨hq, ?_, ?_, ?_, ?_, ?_, ?_, ?_, ?_⟩
  · rw [b7, F.padq]
  · rw [a1, b1, F.u32At_eq 4 (by omega) (by omega)]
  · rw [a2, b2, F.u64At_eq 8 (by omega) (by omega)]
  · rw [a3, b3, F.u32At_eq 16 (by omega) (by omega)]
  · rw [a4, b4, F.u32At_eq 20 (by omega) (by omega)]
  · rw [a5, b5, F.u32At_eq 24 (by omega) (by omega)]
  · rw [a6, b6, F.count]
  · rw [a8, b8, F.count]
    refine congrArg R.ok (List.map_congr_left ?_)
    intro i hi
    have : i < count p := List.mem_range.mp hi
    exact F.range _ _ (by omega) (by omega) (by omega)

theorem rr_pad {ε : Type} {p q : Bytes} {n : Nat} (F : Facts p q n) (h : Rr.parse p = .ok p) :
    Rr.parse q = .ok q ∧ (Rr.padding q : R ε (Option UInt8)) = .ok (some n.toUInt8) ∧
    (Rr.ssrc q : R ε UInt32) = Rr.ssrc p ∧ (Rr.nReports q : R ε UInt8) = Rr.nReports p ∧
    (Rr.reportBlocks q : R ε (List Bytes)) = Rr.reportBlocks p := by
  obtain ⟨-, hw, hc⟩ := (rr_parse_ok_iff p p).mp h
  obtain ⟨hm, -⟩ := (wellFramed_iff 8 201 p).mp hw
  have hq : Rr.parse q = .ok q :=
    (rr_parse_ok_iff q q).mpr ⟨rfl, F.wf _ _ hw, by rw [F.count, F.len]; omega⟩
  obtain ⟨a1, a2, a3, a4⟩ := rr_accessors (ε := ε) p h
  obtain ⟨b1, b2, b3, b4⟩ := rr_accessors (ε := ε) q hq
  refine ⟨hq, ?_, ?_, ?_, ?_⟩
  · rw [b3, F.padq]
  · rw [a1, b1, F.u32At_eq 4 (by omega) (by omega)]
  · rw [a2, b2, F.count]
  · rw [a4, b4, F.count]
    refine congrArg R.ok (List.map_congr_left ?_)
    intro i hi
    have : i < count p := List.mem_range.mp hi
    exact F.range _ _ (by omega) (by omega) (by omega)

theorem bye_pad {ε : Type} {p q : Bytes} {n : Nat} (F : Facts p q n) (h : Bye.parse p = .ok p) :
    Bye.parse q = .ok q ∧ (Bye.padding q : R ε (Option UInt8)) = .ok (some n.toUInt8) ∧
    (Bye.ssrcs q : R ε (List UInt32)) = Bye.ssrcs p ∧
    (Bye.reason q : R ε (Option Slice)) = Bye.reason p := by
  obtain ⟨-, hw, hc, hr⟩ := (bye_parse_ok_iff p p).mp h
  have hn4 := F.n4
  have hq : Bye.parse q = .ok q := by
    refine (bye_parse_ok_iff q q).mpr ⟨rfl, F.wf _ _ hw, by rw [F.count, F.len]; omega, ?_⟩
    rw [F.count, F.len]
    intro _
    by_cases hlt : 4 + 4 * count p < p.length
    · rw [F.u8At_eq _ (by omega) hlt]
      have := hr hlt
      omega
    · have e : 4 + 4 * count p = p.length := by omega
      rw [e]
      unfold u8At
      rw [F.zero p.length (Nat.le_refl _) (by omega)]
      show p.length + 1 + 0 ≤ p.length + n
      omega
  obtain ⟨a1, a2, a3, a4⟩ := bye_accessors (ε := ε) p h
  obtain ⟨b1, b2, b3, b4⟩ := bye_accessors (ε := ε) q hq
  refine ⟨hq, ?_, ?_, ?_⟩
  · rw [b2, F.padq]
  · rw [a1, b1, F.count]
    refine congrArg R.ok (List.map_congr_left ?_)
    intro i hi
    have : i < count p := List.mem_range.mp hi
    rw [F.u32At_eq _ (by omega) (by omega)]
  · simp only [] at a3 b3
    rw [a3, b3, F.count, F.len, F.padLenq, F.padLenp]
    by_cases hle : p.length ≤ 4 + 4 * count p + 1
    · rw [if_pos (by omega), if_pos (by omega)]
    · rw [if_neg (by omega), if_neg (by omega)]
      have := hr (by omega)
      rw [F.u8At_eq _ (by omega) (by omega), F.range _ _ (by omega) (by omega) this]

theorem app_pad {ε : Type} {p q : Bytes} {n : Nat} (F : Facts p q n) (h : App.parse p = .ok p) :
    App.parse q = .ok q ∧ (App.padding q : R ε (Option UInt8)) = .ok (some n.toUInt8) ∧
    (App.ssrc q : R ε UInt32) = App.ssrc p ∧ (hCount q : R ε UInt8) = hCount p ∧
    (App.name q : R ε Bytes) = App.name p ∧ (App.data q : R ε Slice) = App.data p := by
  obtain ⟨-, hw, hc⟩ := (app_parse_ok_iff p p).mp h
  obtain ⟨hm, -⟩ := (wellFramed_iff 12 204 p).mp hw
  have hq : App.parse q = .ok q :=
    (app_parse_ok_iff q q).mpr ⟨rfl, F.wf _ _ hw, by rw [F.padLenq, F.len]; omega⟩
  obtain ⟨a1, a2, a3, a4, -⟩ := app_accessors (ε := ε) p h
  obtain ⟨b1, b2, b3, b4, -⟩ := app_accessors (ε := ε) q hq
  refine ⟨hq, ?_, ?_, ?_, ?_, ?_⟩
  · rw [b3, F.padq]
  · rw [a1, b1, F.u32At_eq 4 (by omega) (by omega)]
  · rw [hCount_ok q (by rw [F.len]; omega), hCount_ok p (by omega), F.count]
  · rw [a2, b2, F.range _ _ (by omega) (by omega) (by omega)]
  · rw [a4, b4, F.padLenq, F.padLenp, F.len, Nat.add_sub_cancel, Nat.sub_zero,
      F.range _ _ (by omega) (by omega) (Nat.le_refl _)]

theorem fb_pad {ε : Type} {p q : Bytes} {n : Nat} (F : Facts p q n) (k : FbKind)
    (h : Fb.parse k p = .ok p) :
    Fb.parse k q = .ok q ∧ (Fb.padding q : R ε (Option UInt8)) = .ok (some n.toUInt8) ∧
    (Fb.senderSsrc q : R ε UInt32) = Fb.senderSsrc p ∧ (Fb.mediaSsrc q : R ε UInt32) = Fb.mediaSsrc p ∧
    (hCount q : R ε UInt8) = hCount p ∧
    (∀ f : Fb.FciType, Fb.parseFci k f q = Fb.parseFci k f p) := by
  obtain ⟨-, hw, hc⟩ := (fb_parse_ok_iff k p p).mp h
  obtain ⟨hm, -⟩ := (wellFramed_iff 12 k.pt p).mp hw
  have hq : Fb.parse k q = .ok q :=
    (fb_parse_ok_iff k q q).mpr ⟨rfl, F.wf _ _ hw, by rw [F.padLenq, F.len]; omega⟩
  obtain ⟨a1, a2, a3⟩ := fb_accessors (ε := ε) k p h
  obtain ⟨b1, b2, b3⟩ := fb_accessors (ε := ε) k q hq
  refine ⟨hq, ?_, ?_, ?_, ?_, ?_⟩
  · rw [b3, F.padq]
  · rw [a1, b1, F.u32At_eq 4 (by omega) (by omega)]
  · rw [a2, b2, F.u32At_eq 8 (by omega) (by omega)]
  · rw [hCount_ok q (by rw [F.len]; omega), hCount_ok p (by omega), F.count]
  · intro f
    rw [parseFci_eq k f q hq, parseFci_eq k f p h, F.count, F.padLenq, F.padLenp, F.len,
      Nat.add_sub_cancel, Nat.sub_zero, F.range _ _ (by omega) (by omega) (Nat.le_refl _)]

theorem custom_body_ok {ε : Type} (pt : UInt8) (min : Nat) (h4 : 4 ≤ min) (bs : Bytes)
    (h : Custom.parse pt min bs = .ok bs) :
    (Custom.padding bs : R ε (Option UInt8)) = .ok (paddingOf bs) ∧
    (Custom.body bs : R ε Slice) = .ok ⟨4, range bs 4 (bs.length - padLen bs)⟩ := by
  obtain ⟨-, hw, hc⟩ := (custom_parse_ok_iff pt min h4 bs bs).mp h
  obtain ⟨hm, hl4, -, -, hl, -⟩ := (wellFramed_iff min pt bs).mp hw
  refine ⟨parsePadding_ok bs hl4 hl, ?_⟩
  have hp : ((paddingOf bs).getD 0).toNat = padLen bs := rfl
  simp only [Custom.body, parsePadding_ok bs hl4 hl, R.ok_bind, hp, usub_ok bs.length (padLen bs) (by omega)]
  rw [sliceS_ok 0 bs 4 _ ⟨by omega, by omega⟩]

theorem custom_pad {ε : Type} {p q : Bytes} {n : Nat} (F : Facts p q n) (pt : UInt8) (min : Nat)
    (h4 : 4 ≤ min) (h : Custom.parse pt min p = .ok p) :
    Custom.parse pt min q = .ok q ∧ (Custom.padding q : R ε (Option UInt8)) = .ok (some n.toUInt8) ∧
    (Custom.body q : R ε Slice) = Custom.body p := by
  obtain ⟨-, hw, hc⟩ := (custom_parse_ok_iff pt min h4 p p).mp h
  obtain ⟨hm, -⟩ := (wellFramed_iff min pt p).mp hw
  have hq : Custom.parse pt min q = .ok q :=
    (custom_parse_ok_iff pt min h4 q q).mpr ⟨rfl, F.wf _ _ hw, by rw [F.padLenq, F.len]; omega⟩
  obtain ⟨a1, a2⟩ := custom_body_ok (ε := ε) pt min h4 p h
  obtain ⟨b1, b2⟩ := custom_body_ok (ε := ε) pt min h4 q hq
  refine ⟨hq, ?_, ?_⟩
  · rw [b1, F.padq]
  · rw [a2, b2, F.padLenq, F.padLenp, F.len, Nat.add_sub_cancel, Nat.sub_zero,
      F.range _ _ (by omega) (by omega) (Nat.le_refl _)]


theorem chunkLoop_congr (d d' : Bytes) (ce off : Nat) (acc : List SdesChunk)
    (h : ∀ o, off ≤ o → o < ce → (slice d o ce : R ParseError Bytes) = slice d' o ce) :
    Sdes.chunkLoop d ce off acc = Sdes.chunkLoop d' ce off acc := by
  fun_induction Sdes.chunkLoop d ce off acc with
  | case1 off acc hlt s hs ck e hp ih =>
    have hge := Sdes.chunk_consumed hp
    rw [ih (fun o ho => h o (by omega))]
    symm
    rw [Sdes.chunkLoop]
    rw [h off (Nat.le_refl _) hlt] at hs
    simp only [hlt, dite_true]
    split
    · rename_i s' hs'
      rw [hs] at hs'
      cases hs'
      split
      · rename_i c' e' hp'
        rw [hp] at hp'
        cases hp'
        rfl
      · rename_i er hp'
        rw [hp] at hp'
        cases hp'
      · rename_i hp'
        rw [hp] at hp'
        cases hp'
    · rename_i er hs'
      rw [hs] at hs'
      cases hs'
    · rename_i hs'
      rw [hs] at hs'
      cases hs'
  | case2 off acc hlt s hs er hp =>
    symm
    rw [Sdes.chunkLoop]
    rw [h off (Nat.le_refl _) hlt] at hs
    simp only [hlt, dite_true]
    split
    · rename_i s' hs'
      rw [hs] at hs'
      cases hs'
      split
      · rename_i c' e' hp'
        rw [hp] at hp'
        cases hp'
      · rename_i er hp'
        rw [hp] at hp'
        cases hp'
        rfl
      · rename_i hp'
        rw [hp] at hp'
        cases hp'
    · rename_i er hs'
      rw [hs] at hs'
      cases hs'
    · rename_i hs'
      rw [hs] at hs'
      cases hs'
  | case3 off acc hlt s hs hp =>
    symm
    rw [Sdes.chunkLoop]
    rw [h off (Nat.le_refl _) hlt] at hs
    simp only [hlt, dite_true]
    split
    · rename_i s' hs'
      rw [hs] at hs'
      cases hs'
      split
      · rename_i c' e' hp'
        rw [hp] at hp'
        cases hp'
      · rename_i er hp'
        rw [hp] at hp'
        cases hp'
      · rfl
    · rename_i er hs'
      rw [hs] at hs'
      cases hs'
    · rfl
  | case4 off acc hlt er hs =>
    symm
    rw [Sdes.chunkLoop]
    rw [h off (Nat.le_refl _) hlt] at hs
    simp only [hlt, dite_true]
    split
    · rename_i s' hs'
      rw [hs] at hs'
      cases hs'
    · rename_i er hs'
      rw [hs] at hs'
      cases hs'
      rfl
    · rename_i hs'
      rw [hs] at hs'
      cases hs'
  | case5 off acc hlt hs =>
    symm
    rw [Sdes.chunkLoop]
    rw [h off (Nat.le_refl _) hlt] at hs
    simp only [hlt, dite_true]
    split
    · rename_i s' hs'
      rw [hs] at hs'
      cases hs'
    · rename_i er hs'
      rw [hs] at hs'
      cases hs'
    · rfl
  | case6 off acc hge =>
    rw [Sdes.chunkLoop]
    simp only [hge, dite_false]


theorem sdes_pad {ε : Type} {p q : Bytes} {n : Nat} (F : Facts p q n) (v : Sdes)
    (h : Sdes.parse p = .ok v) :
    ∃ v', Sdes.parse q = .ok v' ∧ v'.data = q ∧ v'.chunks = v.chunks ∧
      (Sdes.padding v' : R ε (Option UInt8)) = .ok (some n.toUInt8) := by
  obtain ⟨hd, hw, hpl, -, -⟩ := sdes_parse_accepts p v h
  have hwq := F.wf _ _ hw
  obtain ⟨-, hq4, -, -, hlq, -⟩ := (wellFramed_iff 4 202 q).mp hwq
  have h4 := F.h4
  have hn4 := F.n4
  rw [SdesAux.sdes_parse_framed p hw, F.padLenp] at h
  have hcl : Sdes.chunkLoop q p.length 4 [] = Sdes.chunkLoop p p.length 4 [] := by
    apply chunkLoop_congr
    intro o ho1 ho2
    rw [slice_ok q o p.length ⟨by omega, by rw [F.len]; omega⟩,
      slice_ok p o p.length ⟨by omega, Nat.le_refl _⟩, F.range _ _ ho1 (by omega) (Nat.le_refl _)]
  rw [if_neg (by omega), Nat.sub_zero] at h
  obtain ⟨cs, hcs, hv⟩ := bind_eq_ok _ _ _ h
  cases hv
  refine ⟨⟨q, cs⟩, ?_, rfl, rfl, ?_⟩
  · rw [SdesAux.sdes_parse_framed q hwq, F.padLenq, F.len, if_neg (by omega), Nat.add_sub_cancel, hcl, hcs]
    rfl
  · show (parsePadding q : R ε (Option UInt8)) = _
    rw [parsePadding_ok q hq4 hlq, F.padq]

end Pad
open Pad

theorem sr_pad_transparent {ε : Type} (p : Bytes) (n : Nat) (h : Sr.parse p = .ok p) (hn : PadOk p n) :
    let q := addPadding p n
    Sr.parse q = .ok q ∧ (Sr.padding q : R ε (Option UInt8)) = .ok (some n.toUInt8) ∧
    (Sr.ssrc q : R ε UInt32) = Sr.ssrc p ∧ (Sr.ntp q : R ε UInt64) = Sr.ntp p ∧
    (Sr.rtp q : R ε UInt32) = Sr.rtp p ∧ (Sr.packetCount q : R ε UInt32) = Sr.packetCount p ∧
    (Sr.octetCount q : R ε UInt32) = Sr.octetCount p ∧ (Sr.nReports q : R ε UInt8) = Sr.nReports p ∧
    (Sr.reportBlocks q : R ε (List Bytes)) = Sr.reportBlocks p := by
  intro q
  have hw := ((sr_parse_ok_iff p p).mp h).2.1
  have h4 := ((wellFramed_iff 28 200 p).mp hw).2.1
  exact sr_pad (facts p n h4 hn) h

theorem rr_pad_transparent {ε : Type} (p : Bytes) (n : Nat) (h : Rr.parse p = .ok p) (hn : PadOk p n) :
    let q := addPadding p n
    Rr.parse q = .ok q ∧ (Rr.padding q : R ε (Option UInt8)) = .ok (some n.toUInt8) ∧
    (Rr.ssrc q : R ε UInt32) = Rr.ssrc p ∧ (Rr.nReports q : R ε UInt8) = Rr.nReports p ∧
    (Rr.reportBlocks q : R ε (List Bytes)) = Rr.reportBlocks p := by
  intro q
  have hw := ((rr_parse_ok_iff p p).mp h).2.1
  have h4 := ((wellFramed_iff 8 201 p).mp hw).2.1
  exact rr_pad (facts p n h4 hn) h

theorem bye_pad_transparent {ε : Type} (p : Bytes) (n : Nat) (h : Bye.parse p = .ok p) (hn : PadOk p n) :
    let q := addPadding p n
    Bye.parse q = .ok q ∧ (Bye.padding q : R ε (Option UInt8)) = .ok (some n.toUInt8) ∧
    (Bye.ssrcs q : R ε (List UInt32)) = Bye.ssrcs p ∧
    (Bye.reason q : R ε (Option Slice)) = Bye.reason p := by
  intro q
  have hw := ((bye_parse_ok_iff p p).mp h).2.1
  have h4 := ((wellFramed_iff 4 203 p).mp hw).2.1
  exact bye_pad (facts p n h4 hn) h

theorem app_pad_transparent {ε : Type} (p : Bytes) (n : Nat) (h : App.parse p = .ok p) (hn : PadOk p n) :
    let q := addPadding p n
    App.parse q = .ok q ∧ (App.padding q : R ε (Option UInt8)) = .ok (some n.toUInt8) ∧
    (App.ssrc q : R ε UInt32) = App.ssrc p ∧ (hCount q : R ε UInt8) = hCount p ∧
    (App.name q : R ε Bytes) = App.name p ∧ (App.data q : R ε Slice) = App.data p := by
  intro q
  have hw := ((app_parse_ok_iff p p).mp h).2.1
  have h4 := ((wellFramed_iff 12 204 p).mp hw).2.1
  exact app_pad (facts p n h4 hn) h

theorem fb_pad_transparent {ε : Type} (k : FbKind) (p : Bytes) (n : Nat) (h : Fb.parse k p = .ok p)
    (hn : PadOk p n) :
    let q := addPadding p n
    Fb.parse k q = .ok q ∧ (Fb.padding q : R ε (Option UInt8)) = .ok (some n.toUInt8) ∧
    (Fb.senderSsrc q : R ε UInt32) = Fb.senderSsrc p ∧ (Fb.mediaSsrc q : R ε UInt32) = Fb.mediaSsrc p ∧
    (hCount q : R ε UInt8) = hCount p ∧
    (∀ f : Fb.FciType, Fb.parseFci k f q = Fb.parseFci k f p) := by
  intro q
  have hw := ((fb_parse_ok_iff k p p).mp h).2.1
  have h4 := ((wellFramed_iff 12 k.pt p).mp hw).2.1
  exact fb_pad (facts p n h4 hn) k h

theorem sdes_pad_transparent {ε : Type} (p : Bytes) (n : Nat) (v : Sdes) (h : Sdes.parse p = .ok v)
    (hn : PadOk p n) :
    let q := addPadding p n
    ∃ v', Sdes.parse q = .ok v' ∧ v'.data = q ∧ v'.chunks = v.chunks ∧
      (Sdes.padding v' : R ε (Option UInt8)) = .ok (some n.toUInt8) := by
  intro q
  have hw := (sdes_parse_accepts p v h).2.1
  have h4 := ((wellFramed_iff 4 202 p).mp hw).2.1
  exact sdes_pad (facts p n h4 hn) v h

theorem custom_pad_transparent {ε : Type} (pt : UInt8) (min : Nat) (h4 : 4 ≤ min) (p : Bytes) (n : Nat)
    (h : Custom.parse pt min p = .ok p) (hn : PadOk p n) :
    let q := addPadding p n
    Custom.parse pt min q = .ok q ∧ (Custom.padding q : R ε (Option UInt8)) = .ok (some n.toUInt8) ∧
    (Custom.body q : R ε Slice) = Custom.body p := by
  intro q
  have hw := ((custom_parse_ok_iff pt min h4 p p).mp h).2.1
  have hl4 := ((wellFramed_iff min pt p).mp hw).2.1
  exact custom_pad (facts p n hl4 hn) pt min h4 h

end Rtcp.Proofs
