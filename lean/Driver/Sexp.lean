/-
  S-expression reader and value decoders for the request protocol (PROTOCOL.md §1).
  Part of the trusted tie (not of the model): no theorems are stated about it.
-/
import Rtcp.Basic

namespace Driver
open Rtcp

inductive Sexp where
  | atom (s : String)
  | list (xs : List Sexp)
deriving Repr, Inhabited

/-- Tokens: "(" ")" or an atom. -/
def tokenize (s : String) : Array String := Id.run do
  let mut toks : Array String := #[]
  let mut cur : String := ""
  for c in s.toList do
    if c == '(' || c == ')' then
      if !cur.isEmpty then
        toks := toks.push cur
        cur := ""
      toks := toks.push (String.singleton c)
    else if c == ' ' || c == '\t' || c == '\n' || c == '\r' then
      if !cur.isEmpty then
        toks := toks.push cur
        cur := ""
    else
      cur := cur.push c
  if !cur.isEmpty then toks := toks.push cur
  return toks

/-- Parse a token array into one s-expression (stack based, no recursion). -/
def parseTokens (toks : Array String) : Option Sexp := Id.run do
  let mut stack : List (List Sexp) := []   -- reversed partial lists
  let mut result : Option Sexp := none
  for t in toks do
    if result.isSome then return none      -- trailing garbage
    if t == "(" then
      stack := [] :: stack
    else if t == ")" then
      match stack with
      | [] => return none
      | top :: rest =>
        let done := Sexp.list top.reverse
        match rest with
        | [] => result := some done; stack := []
        | parent :: rest' => stack := (done :: parent) :: rest'
    else
      match stack with
      | [] => result := some (Sexp.atom t)
      | top :: rest => stack := (Sexp.atom t :: top) :: rest
  if stack.isEmpty then return result else return none

def parseSexp (line : String) : Option Sexp := parseTokens (tokenize line)

def hexVal (c : Char) : Option Nat :=
  if '0' ≤ c ∧ c ≤ '9' then some (c.toNat - 48)
  else if 'a' ≤ c ∧ c ≤ 'f' then some (c.toNat - 87)
  else if 'A' ≤ c ∧ c ≤ 'F' then some (c.toNat - 55)
  else none

def hexToBytes (s : String) : Option Bytes :=
  let rec go : List Char → Array UInt8 → Option (Array UInt8)
    | [], acc => some acc
    | [_], _ => none
    | a :: b :: rest, acc =>
      match hexVal a, hexVal b with
      | some x, some y => go rest (acc.push (x * 16 + y).toUInt8)
      | _, _ => none
  (go s.toList #[]).map (·.toList)

def Sexp.toNat? : Sexp → Option Nat
  | .atom s => s.toNat?
  | _ => none

partial def Sexp.toBytes? : Sexp → Option Bytes
  | .atom "-" => some []
  | .atom s => hexToBytes s
  | .list [.atom "rep", .atom hh, n] =>
    match hexToBytes hh, n.toNat? with
    | some [b], some k => some (List.replicate k b)
    | _, _ => none
  | .list (.atom "cat" :: parts) =>
    parts.foldlM (fun acc p => do let b ← p.toBytes?; pure (acc ++ b)) []
  | _ => none

def hexDigit (n : Nat) : Char :=
  if n < 10 then Char.ofNat (48 + n) else Char.ofNat (87 + n)

def hexOf (bs : Bytes) : String :=
  if bs.isEmpty then "-"
  else bs.foldl (fun s b => (s.push (hexDigit (b.toNat / 16))).push (hexDigit (b.toNat % 16))) ""

end Driver
