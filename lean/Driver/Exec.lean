/-
  Request interpreter (PROTOCOL.md §4): builder call sequences are replayed on the model's
  builder structures; parse / pad / build requests produce transcripts.
-/
import Driver.Render
import Rtcp.Spec.Padding
import Rtcp.Spec.Rules
import Rtcp.Spec.Decode
import Rtcp.Spec.Framing
import Rtcp.Impl.Calls
import Rtcp.Impl.FastWrite

namespace Driver
open Rtcp Rtcp.Impl

/-- A builder as configured by a call sequence. -/
inductive Cfg where
  | app (b : AppBuilder)
  | bye (b : ByeBuilder)
  | rr (b : RrBuilder)
  | sr (b : SrBuilder)
  | sdes (b : SdesBuilder)
  | unknown (b : UnknownBuilder)
  | fb (kind : FbKind) (fci : FciB) (padding : UInt8) (sender media : UInt32)
  | pb (inner : Cfg)
  | compound (ms : List Cfg)
  | custom (b : CustomBuilder) (some0 : Bool) (count : Nat)
  | chunk (b : SdesChunkBuilder)
  | item (b : SdesItemBuilder)
  | fci (f : FciB)
deriving Inhabited

def u8 (n : Nat) : UInt8 := n.toUInt8
def u16 (n : Nat) : UInt16 := n.toUInt16
def u32 (n : Nat) : UInt32 := n.toUInt32
def u64 (n : Nat) : UInt64 := n.toUInt64

/-- parse a call list into reified calls (Rtcp/Impl/Calls.lean); `(probe)` is an observation of the
    harness only and no call on the model -/
def parseCalls {κ : Type} (f : Sexp → Option κ) (calls : List Sexp) : Option (List κ) :=
  (calls.filter (fun c => match c with | .list [.atom "probe"] => false | _ => true)).mapM f

/-- `(via_default)` (PROTOCOL.md §4.3): the harness constructs the builder with `Default::default()`
    instead of the constructor function; a no-op on the model. Allowed only as the first CALL of
    `nack` / `fir` / `rpsi` / `sdes` / `compound` (checked for the whole request by `viaDefaultOk`);
    `stripViaDefault` drops it from the head of such a call list. -/
def stripViaDefault : List Sexp → List Sexp
  | .list [.atom "via_default"] :: rest => rest
  | l => l

def viaDefaultHeads : List String := ["nack", "fir", "rpsi", "sdes", "compound"]

/-- every list headed by the atom `via_default` is exactly `(via_default)` and the first element
    after the head of a `nack` / `fir` / `rpsi` / `sdes` / `compound` list -/
partial def viaDefaultOk : Sexp → Bool
  | .atom _ => true
  | .list (.atom "via_default" :: _) => false   -- an occurrence nobody skipped
  | .list (.atom h :: args) =>
    (if viaDefaultHeads.contains h then stripViaDefault args else args).all viaDefaultOk
  | .list xs => xs.all viaDefaultOk

def parseRbCall : Sexp → Option RbCall
  | .list [.atom "fl", n] => do pure (RbCall.fl (u8 (← n.toNat?)))
  | .list [.atom "cl", n] => do pure (RbCall.cl (u32 (← n.toNat?)))
  | .list [.atom "esn", n] => do pure (RbCall.esn (u32 (← n.toNat?)))
  | .list [.atom "jit", n] => do pure (RbCall.jit (u32 (← n.toNat?)))
  | .list [.atom "lsr", n] => do pure (RbCall.lsr (u32 (← n.toNat?)))
  | .list [.atom "dlsr", n] => do pure (RbCall.dlsr (u32 (← n.toNat?)))
  | _ => none

def evalRb : Sexp → Option ReportBlockBuilder
  | .list (.atom "rb" :: ssrc :: calls) => do
    let s ← ssrc.toNat?
    pure ((ReportBlockBuilder.new (u32 s)).run (← calls.mapM parseRbCall))
  | _ => none

def parseItemCall : Sexp → Option ItemCall
  | .list [.atom "prefix", p] => do pure (ItemCall.prefix_ (← p.toBytes?))
  | .list [.atom "into_owned"] => pure ItemCall.intoOwned
  | _ => none

def evalItem : Sexp → Option SdesItemBuilder
  | .list (.atom "item" :: ty :: value :: calls) => do
    let t ← ty.toNat?
    let v ← value.toBytes?
    pure ((SdesItemBuilder.new (u8 t) v).run (← calls.mapM parseItemCall))
  | _ => none

def parseChunkCall : Sexp → Option ChunkCall
  | .list [.atom "add_item", it] => do pure (ChunkCall.addItem (← evalItem it))
  | .list [.atom "add_item_owned", it] => do pure (ChunkCall.addItemOwned (← evalItem it))
  | _ => none

def evalChunk : Sexp → Option SdesChunkBuilder
  | .list (.atom "chunk" :: ssrc :: calls) => do
    let s ← ssrc.toNat?
    -- `Fast.chunkRun b cs = b.run cs` (Props.fast_chunkRun_eq): the adders append, `run` is quadratic
    pure (Fast.chunkRun (SdesChunkBuilder.new (u32 s)) (← calls.mapM parseChunkCall))
  | _ => none

def parseRpsiCall : Sexp → Option RpsiCall
  | .list [.atom "payload_type", n] => do pure (RpsiCall.payloadType (u8 (← n.toNat?)))
  | .list [.atom "native_data", d, k] => do pure (RpsiCall.nativeData (← d.toBytes?) (u8 (← k.toNat?)))
  | .list [.atom "native_data_vec", d, k] => do pure (RpsiCall.nativeData (← d.toBytes?) (u8 (← k.toNat?)))
  | .list [.atom "native_data_owned", d, k] => do pure (RpsiCall.nativeDataOwned (← d.toBytes?) (u8 (← k.toNat?)))
  | _ => none

def evalFci : Sexp → Option FciB
  | .list (.atom "nack" :: calls) => do
    let calls := stripViaDefault calls
    let ss ← parseCalls (fun c => match c with
      | .list [.atom "add", n] => do pure (u16 (← n.toNat?))
      | _ => none) calls
    pure (.nack (NackBuilder.run {} ss))
  | .list (.atom "fir" :: calls) => do
    let calls := stripViaDefault calls
    let es ← parseCalls (fun c => match c with
      | .list [.atom "add", s, q] => do pure (u32 (← s.toNat?), u8 (← q.toNat?))
      | _ => none) calls
    pure (.fir (FirBuilder.run {} es))
  | .list (.atom "sli" :: calls) => do
    let es ← parseCalls (fun c => match c with
      | .list [.atom "add", f, n, p] => do pure (u16 (← f.toNat?), u16 (← n.toNat?), u8 (← p.toNat?))
      | _ => none) calls
    -- `SliBuilder.run {} es` without its quadratic appends (Props.sli_run: the two are equal)
    pure (.sli ⟨es.map (fun e => ⟨e.1, e.2.1, e.2.2⟩)⟩)
  | .list (.atom "rpsi" :: calls) => do
    pure (.rpsi (RpsiBuilder.run {} (← parseCalls parseRpsiCall (stripViaDefault calls))))
  | .list [.atom "pli"] => some .pli
  | _ => none

def parseFbCall : Sexp → Option FbCall
  | .list [.atom "padding", n] => do pure (FbCall.padding (u8 (← n.toNat?)))
  | .list [.atom "sender_ssrc", n] => do pure (FbCall.senderSsrc (u32 (← n.toNat?)))
  | .list [.atom "media_ssrc", n] => do pure (FbCall.mediaSsrc (u32 (← n.toNat?)))
  | _ => none

def evalFb (k : FbKind) (mode : String) (fci : Sexp) (calls : List Sexp) : Option Cfg :=
  if mode == "borrowed" || mode == "owned" then do
    let f ← evalFci fci
    let b := (FbBuilder.new k f.toFci).run (← parseCalls parseFbCall calls)
    pure (.fb k f b.padding b.senderSsrc b.mediaSsrc)
  else none

def parseAppCall : Sexp → Option AppCall
  | .list [.atom "padding", n] => do pure (AppCall.padding (u8 (← n.toNat?)))
  | .list [.atom "subtype", n] => do pure (AppCall.subtype (u8 (← n.toNat?)))
  | .list [.atom "data", d] => do pure (AppCall.data (← d.toBytes?))
  | _ => none

def parseByeCall : Sexp → Option ByeCall
  | .list [.atom "padding", n] => do pure (ByeCall.padding (u8 (← n.toNat?)))
  | .list [.atom "add_source", n] => do pure (ByeCall.addSource (u32 (← n.toNat?)))
  | .list [.atom "reason", r] => do pure (ByeCall.reason (← r.toBytes?))
  | .list [.atom "reason_owned", r] => do pure (ByeCall.reasonOwned (← r.toBytes?))
  | _ => none

def parseRrCall : Sexp → Option RrCall
  | .list [.atom "padding", n] => do pure (RrCall.padding (u8 (← n.toNat?)))
  | .list [.atom "add_report_block", rb] => do pure (RrCall.addReportBlock (← evalRb rb))
  | _ => none

def parseSrCall : Sexp → Option SrCall
  | .list [.atom "padding", n] => do pure (SrCall.padding (u8 (← n.toNat?)))
  | .list [.atom "ntp", n] => do pure (SrCall.ntp (u64 (← n.toNat?)))
  | .list [.atom "rtp", n] => do pure (SrCall.rtp (u32 (← n.toNat?)))
  | .list [.atom "packet_count", n] => do pure (SrCall.packetCount (u32 (← n.toNat?)))
  | .list [.atom "octet_count", n] => do pure (SrCall.octetCount (u32 (← n.toNat?)))
  | .list [.atom "add_report_block", rb] => do pure (SrCall.addReportBlock (← evalRb rb))
  | _ => none

def parseSdesCall : Sexp → Option SdesCall
  | .list [.atom "padding", n] => do pure (SdesCall.padding (u8 (← n.toNat?)))
  | .list [.atom "add_chunk", ch] => do pure (SdesCall.addChunk (← evalChunk ch))
  | _ => none

def parseUnknownCall : Sexp → Option UnknownCall
  | .list [.atom "padding", n] => do pure (UnknownCall.padding (u8 (← n.toNat?)))
  | .list [.atom "count", n] => do pure (UnknownCall.count (u8 (← n.toNat?)))
  | _ => none

/-- `(custom PT MIN BODY CALL*)` / `(custom16 PT MIN BODY CALL*)` (PROTOCOL.md §6) -/
def evalCustom (pt min body : Sexp) (calls : List Sexp) : Option Cfg := do
  let p ← pt.toNat?
  let m ← min.toNat?
  let bd ← body.toBytes?
  let (b, some0, count) ← calls.foldlM (fun ((b, some0, count) : CustomBuilder × Bool × Nat) c =>
    match c with
    | .list [.atom "probe"] => pure (b, some0, count)
    | .list [.atom "padding", n] => do pure (b.setPadding (u8 (← n.toNat?)), some0, count)
    | .list [.atom "pad_style", .atom "some0"] => pure (b, true, count)
    -- `(count N)`: the count the third-party writer hands to `write_header_unchecked`
    | .list [.atom "count", n] => do pure (b, some0, ← n.toNat?)
    | _ => none) (({ pt := u8 p, min := m, body := bd } : CustomBuilder), false, 0)
  pure (.custom b some0 count)

partial def evalBuilder : Sexp → Option Cfg
  | .list (.atom "app" :: ssrc :: name :: calls) => do
    let s ← ssrc.toNat?
    let n ← name.toBytes?
    pure (.app ((AppBuilder.new (u32 s) n).run (← parseCalls parseAppCall calls)))
  | .list (.atom "bye" :: calls) => do
    pure (.bye (ByeBuilder.new.run (← parseCalls parseByeCall calls)))
  | .list (.atom "rr" :: ssrc :: calls) => do
    let s ← ssrc.toNat?
    pure (.rr ((RrBuilder.new (u32 s)).run (← parseCalls parseRrCall calls)))
  | .list (.atom "sr" :: ssrc :: calls) => do
    let s ← ssrc.toNat?
    pure (.sr ((SrBuilder.new (u32 s)).run (← parseCalls parseSrCall calls)))
  | .list (.atom "sdes" :: calls) => do
    pure (.sdes (SdesBuilder.new.run (← parseCalls parseSdesCall (stripViaDefault calls))))
  | .list (.atom "unknown" :: ty :: data :: calls) => do
    let t ← ty.toNat?
    let d ← data.toBytes?
    pure (.unknown ((UnknownBuilder.new (u8 t) d).run (← parseCalls parseUnknownCall calls)))
  | .list (.atom "tfb" :: .atom mode :: fci :: calls) => evalFb FbKind.transport mode fci calls
  | .list (.atom "pfb" :: .atom mode :: fci :: calls) => evalFb FbKind.payload mode fci calls
  | .list [.atom "pb", inner] => do
    let i ← evalBuilder inner
    match i with
    | .app _ | .bye _ | .rr _ | .sr _ | .sdes _ | .unknown _ | .fb .. => pure (.pb i)
    | _ => none
  | .list (.atom "compound" :: ms) => do
    -- `(probe)` between members is a no-op on the model
    let ms := (stripViaDefault ms).filter (fun m => match m with | .list [.atom "probe"] => false | _ => true)
    let l ← ms.mapM evalBuilder
    if l.all (fun c => match c with | .chunk _ | .item _ | .fci _ => false | _ => true) then pure (.compound l) else none
  | .list (.atom "custom" :: pt :: min :: body :: calls) => evalCustom pt min body calls
  -- `custom16` (the family overriding `MAX_COUNT` with 16) is `custom` on the model, which has no
  -- notion of `MAX_COUNT`
  | .list (.atom "custom16" :: pt :: min :: body :: calls) => evalCustom pt min body calls
  | .list [.atom "unit", pt] => do
    -- the zero-sized third-party writer: exactly `(custom PT 8 00000000)`
    let p ← pt.toNat?
    pure (.custom ({ pt := u8 p, min := 8, body := [0, 0, 0, 0] } : CustomBuilder) false 0)
  | s@(.list (.atom "chunk" :: _)) => do pure (.chunk (← evalChunk s))
  | s@(.list (.atom "item" :: _)) => do pure (.item (← evalItem s))
  | s => do pure (.fci (← evalFci s))

def fbBuilder (k : FbKind) (f : FciB) (p : UInt8) (s m : UInt32) : FbBuilder :=
  { kind := k, fci := f.toFci, padding := p, senderSsrc := s, mediaSsrc := m }

instance : Inhabited Writer := ⟨⟨.panic, fun _ => .panic, none⟩⟩

/-- `CustomBuilder.writeUnchecked` with the header count `count` instead of 0 (PROTOCOL.md §6,
    `(count N)`): the count octet is `count & 0x1f` (the model has no notion of `MAX_COUNT`). -/
def customWrite (b : CustomBuilder) (count : UInt8) (buf : Bytes) : R WriteError (Bytes × Nat) := do
  let buf ← writeHeader b.pt b.padding (count &&& 0x1f) buf
  let e := 4 + b.body.length
  let buf ← copyAt buf 4 e b.body
  let buf ← fillAt buf e b.bodyEnd 0
  let (buf, k) ← withTail buf b.bodyEnd (writePadding b.padding)
  pure (buf, b.bodyEnd + k)

/-- The model writer a configuration denotes. -/
partial def Cfg.toWriter : Cfg → Writer
  | .app b => b.toWriter
  | .bye b => b.toWriter
  | .rr b => b.toWriter
  | .sr b => b.toWriter
  | .sdes b =>
    -- `Fast.sdesWriter b = b.toWriter` (Props.fast_sdesWriter_eq); the model's own writer threads the
    -- whole buffer once per item, so it is kept for configurations of ordinary size only
    if (b.chunks.map (·.items.length)).sum > 512 then Fast.sdesWriter b else b.toWriter
  | .unknown b => b.toWriter
  | .fb k f p s m => (fbBuilder k f p s m).toWriter
  | .pb inner =>
    match inner with
    | .app b => (PacketBuilder.app b).toWriter
    | .bye b => (PacketBuilder.bye b).toWriter
    | .rr b => (PacketBuilder.rr b).toWriter
    | .sr b => (PacketBuilder.sr b).toWriter
    | .sdes b => (PacketBuilder.sdes b).toWriter
    | .unknown b => (PacketBuilder.unknown b).toWriter
    | .fb .transport f p s m => (PacketBuilder.tfb (fbBuilder .transport f p s m)).toWriter
    | .fb .payload f p s m => (PacketBuilder.pfb (fbBuilder .payload f p s m)).toWriter
    | other => other.toWriter
  | .compound ms => CompoundBuilder.toWriter (ms.map Cfg.toWriter)
  | .custom b some0 count =>
    -- `(count N)`: the model's custom writer passes count 0; with another count the same writer
    -- (`CustomBuilder.writeUnchecked`) is replayed with that count in its `writeHeader` call
    let w := if count == 0 then b.toWriter else { b.toWriter with write := customWrite b (u8 count) }
    -- `(pad_style some0)`: the third-party writer answers `Some(padding)` even for padding 0
    if some0 then { w with getPadding := some b.padding } else w
  | .chunk b => if b.items.length > 512 then Fast.chunkWriter b else ⟨b.calcSize, b.writeUnchecked, none⟩
  | .item b => ⟨b.calcSize, b.writeUnchecked, none⟩
  | .fci f => f.toFci.w

/-- which parser reads back what this builder writes -/
partial def Cfg.rtKind : Cfg → Option PKind
  | .app _ => some .app
  | .bye _ => some .bye
  | .rr _ => some .rr
  | .sr _ => some .sr
  | .sdes _ => some .sdes
  | .unknown _ => some .packet
  | .fb .transport .. => some .tfb
  | .fb .payload .. => some .pfb
  | .pb inner => inner.rtKind
  | .compound _ => some .compound
  | .custom b _ _ => some (.custom b.pt b.min)
  | .chunk _ | .item _ | .fci _ => none

def fillBuf (len : Nat) (fill : Sexp) : Option Bytes :=
  match fill with
  | .atom "pat" => some ((List.range len).map (fun i => ((i * 31 + 7) % 256).toUInt8))
  | .atom hh =>
    match hexToBytes hh with
    | some [b] => some (List.replicate len b)
    | _ => none
  | _ => none

def resW (r : R WriteError Nat) : String :=
  match r with
  | .ok n => "ok:" ++ toString n
  | .err e => "err:" ++ renderWriteError e
  | .panic => "panic"

def parsePKind : Sexp → Option PKind
  | .atom "app" => some .app | .atom "bye" => some .bye | .atom "rr" => some .rr | .atom "sr" => some .sr
  | .atom "sdes" => some .sdes | .atom "tfb" => some .tfb | .atom "pfb" => some .pfb
  | .atom "unknown" => some .unknown | .atom "packet" => some .packet | .atom "compound" => some .compound
  | .atom "rb" => some .rb | .atom "nack" => some .nack | .atom "fir" => some .fir | .atom "sli" => some .sli
  | .atom "rpsi" => some .rpsi | .atom "pli" => some .pli
  | .list [.atom "custom", pt, min] => do pure (.custom (u8 (← pt.toNat?)) (← min.toNat?))
  -- the model has no notion of `MAX_COUNT`: `custom16` is `custom`
  | .list [.atom "custom16", pt, min] => do pure (.custom (u8 (← pt.toNat?)) (← min.toNat?))
  | _ => none

def customPts : List Nat := [0, 192, 199, 200, 204, 207, 208, 242, 255]

def customGrid (pt : UInt8) (min : Nat) : Bool :=
  customPts.contains pt.toNat && [4, 6, 8, 12, 13, 20].contains min

/-- the first third-party builder (in request order) that is off the grid (`custom-grid`) or asks
    for a count above 31 (`custom-count`); `none` when all are fine -/
partial def Cfg.customsBad : Cfg → Option String
  | .custom b _ count =>
    if !customGrid b.pt b.min then some "custom-grid"
    else if count > 31 then some "custom-count"
    else none
  | .compound ms => ms.findSome? Cfg.customsBad
  | _ => none

/-- the RFC image of a configuration (Spec layer) -/
partial def Cfg.image : Cfg → Bytes
  | .app b => Spec.appImage b
  | .bye b => Spec.byeImage b
  | .rr b => Spec.rrImage b
  | .sr b => Spec.srImage b
  | .sdes b => Spec.sdesImage b
  | .unknown b => Spec.unknownImage b
  | .fb k f p s m => Spec.fbImage k f p s m
  | .pb inner => inner.image
  | .compound ms => (ms.map Cfg.image).flatten
  | .custom b _ count =>
    -- `Spec.customImage` with the count of `(count N)` (0 without one) in the header
    Spec.packet b.pt count b.padding (b.body ++ List.replicate (b.min - 4 - b.body.length) 0)
  | .chunk b => Spec.chunkImage b
  | .item b => Spec.itemImage b
  | .fci f => Spec.fciImage f

/-- `get_padding()` as the configuration says -/
partial def Cfg.effPadding : Cfg → UInt8
  | .app b => b.padding | .bye b => b.padding | .rr b => b.padding | .sr b => b.padding
  | .sdes b => b.padding | .unknown b => b.padding | .fb _ _ p _ _ => p
  | .pb inner => inner.effPadding
  | .compound ms => match ms.getLast? with | some m => m.effPadding | none => 0
  | .custom b _ _ => b.padding
  | _ => 0

/-- the violated rules (Spec layer) -/
partial def Cfg.violations : Cfg → List WriteError
  | .app b => Spec.appRules b
  | .bye b => Spec.byeRules b
  | .rr b => Spec.rrRules b
  | .sr b => Spec.srRules b
  | .sdes b => Spec.sdesRules b
  | .unknown b => Spec.unknownRules b
  | .fb k f p _ _ => Spec.fbRules k f p
  | .pb inner => inner.violations
  | .compound ms =>
    let n := ms.length
    ((ms.zipIdx).map (fun (m, i) =>
      m.violations ++ (if i + 1 != n && m.effPadding != 0 then [WriteError.nonLastCompoundPacketPadding] else []))).flatten
  | .custom b _ _ => Spec.customRules b
  | .chunk b => Spec.chunkRules b
  | .item b => Spec.itemRules b
  | .fci f => Spec.fciRules f

/-- `spec.*` lines: the Spec layer's verdict on the configuration -/
def specLines (cfg : Cfg) : Out :=
  let v := cfg.violations
  let o : Out := #[("spec.viol", if v.isEmpty then "-" else String.intercalate ";" (v.map renderWriteError))]
  if v.isEmpty then o.push ("spec.image", hexOf cfg.image) else o

def execBuild (b : Sexp) (bufs : List Sexp) : Out := Id.run do
  if !viaDefaultOk b then return #[("bad-request", "via_default")]
  match evalBuilder b with
  | none => return #[("bad-request", "builder")]
  | some cfg =>
    if let some why := cfg.customsBad then return #[("bad-request", why)]
    let w := cfg.toWriter
    let mut o : Out := #[]
    let standalone := match cfg with | .chunk _ | .item _ => true | _ => false
    if !standalone then
      o := o.push ("size", resW w.calcSize)
      o := o.push ("getpad", optPad w.getPadding)
      -- the model has one `calculate_size`: the trait path is the same function
      o := o.push ("size_trait_same", "true")
    let mut j := 0
    for spec in bufs do
      match spec with
      | .list [len, fill] =>
        match len.toNat?, (len.toNat?).bind (fun l => fillBuf l fill) with
        | some _, some buf =>
          let (buf', r) := w.writeInto buf
          o := o.push (s!"w{j}.res", resW r)
          match r with
          | .panic => pure ()
          | _ => o := o.push (s!"w{j}.buf", hexOf buf')
          -- second write of the same builder into the same (corrupted) slice: the model's writer
          -- is a function of the builder and the buffer length
          match r with
          | .ok _ => o := o.push (s!"w{j}.rewrite_same", "true")
          | _ => pure ()
          -- the same write through the trait path (`RtcpPacketWriterExt::write_into`): the model
          -- has one writer; chunk / item builders have no trait path, a panicked write no repeat
          match r with
          | .panic => pure ()
          | _ => if !standalone then o := o.push (s!"w{j}.trait_same", "true")
        | _, _ => return #[("bad-request", "bufspec")]
      | _ => return #[("bad-request", "bufspec")]
      j := j + 1
    -- round trip
    match cfg.rtKind, w.calcSize with
    | some kind, .ok n =>
      let (buf', r) := w.writeInto (List.replicate n 0xa5)
      match r with
      | .ok m => o := o ++ dumpViewAgain "rt." kind (buf'.take m)
      | .err e => o := o.push ("rt.res", "write-err:" ++ renderWriteError e)
      | .panic => o := o.push ("rt.res", "panic-write")
    | _, _ => pure ()
    -- specification side
    o := o ++ specLines cfg
    return o

/-- a whole packet (a `compound` MEMBER): what `(interleave A B)` accepts -/
def Cfg.isPacket : Cfg → Bool
  | .chunk _ | .item _ | .fci _ => false
  | _ => true

/-- `(interleave A B)` (PROTOCOL.md §4.5): the model's builders are values, A and B are evaluated
    independently; the written image is that of a build request with `(bufs (n ee))`. -/
def execInterleave (a b : Sexp) : Out := Id.run do
  if !viaDefaultOk a || !viaDefaultOk b then return #[("bad-request", "via_default")]
  match evalBuilder a, evalBuilder b with
  | some ca, some cb =>
    if let some why := ca.customsBad <|> cb.customsBad then return #[("bad-request", why)]
    if !ca.isPacket || !cb.isPacket then return #[("bad-request", "interleave")]
    let wa := ca.toWriter
    let wb := cb.toWriter
    let mut o : Out := #[("a.size", resW wa.calcSize), ("b.size", resW wb.calcSize)]
    match wa.calcSize, wb.calcSize with
    | .ok na, .ok nb =>
      for (pfx, w, n) in [("a", wa, na), ("b", wb, nb)] do
        let (buf', r) := w.writeInto (List.replicate n 0xee)
        o := o.push (pfx ++ ".res", resW r)
        match r with
        | .panic => pure ()
        | _ => o := o.push (pfx ++ ".buf", hexOf buf')
    | _, _ => pure ()
    return o
  | _, _ => return #[("bad-request", "builder")]

def addPadding (p : Bytes) (n : Nat) : Bytes := Rtcp.Spec.addPadding p n

def refItemStr (it : Spec.RefItem) : String :=
  let priv :=
    if it.type == 8 then
      match it.privSplit with
      | some (p, v) => s!"{p.length}:{hexOf p}:{hexOf v}"
      | none => "bad"
    else "-"
  s!"{it.type}/{hexOf it.data}/{priv}"

def refChunkStr (c : Spec.RefChunk) : String :=
  s!"{c.ssrc}[" ++ String.intercalate "," (c.items.map refItemStr) ++ "]"

/-- `spec.*` lines for parse requests: the reference decoders' verdict on the same bytes -/
def specParseLines (k : PKind) (d : Bytes) : Out :=
  match k with
  | .nack => #[("spec.nack", listStr ((Spec.nackDecode d).map toString))]
  | .fir => #[("spec.fir", listStr ((Spec.firDecode d).map (fun (s, q) => s!"{s}:{q}")))]
  | .sli => #[("spec.sli", listStr ((Spec.sliDecode d).map (fun (a, b, c) => s!"{a}:{b}:{c}")))]
  | .rpsi =>
    match Spec.rpsiDecode d with
    | some (pt, bits) => #[("spec.rpsi", s!"{pt};" ++ String.ofList (bits.map (fun b => if b then '1' else '0')))]
    | none => #[("spec.rpsi", "none")]
  | .sdes =>
    -- framing as the parser sees it, then the reference tokeniser on the chunk region
    let framed := decide (Spec.WellFramed 4 202 d)
    let padding := (Spec.paddingOf d).getD 0
    if !framed then #[("spec.tok", "unframed")]
    else if d.length < 4 + padding.toNat then #[("spec.tok", "padding-overrun")]
    else
      let body := (d.take (d.length - padding.toNat)).drop 4
      -- the reference tokeniser measures the remaining bytes at every item (quadratic): informational
      -- line, left out for very long inputs
      if d.length > 70000 then #[] else
      match Spec.refTok body with
      | some cs => #[("spec.tok", "accept:" ++ String.intercalate ";" (cs.map refChunkStr))]
      | none => #[("spec.tok", "reject")]
  | .compound =>
    -- the reference tiling measures the remaining bytes at every tile (quadratic): informational
    -- line, left out for very long inputs
    if d.length > 70000 then #[] else
    match Spec.tiling d with
    | some ts => #[("spec.tiles", if d.isEmpty then "none" else listStr (ts.map (fun t => toString t.length)))]
    | none => #[("spec.tiles", "none")]
  | _ => #[]

/-- `(helper NAME ARGS...)` (PROTOCOL.md §4.4): the model's counterparts of the crate's public
    `utils::writer` / `utils::parser` helpers. -/
def execHelper (args : List Sexp) : Out :=
  let bad : Out := #[("bad-request", "helper-args")]
  let maxLen := 1 <<< 20
  match args with
  | [.atom "write_header", pt, padding, count, len, fill] =>
    -- P: a bare PT (`Custom<PT, 4>`) or the third-party type itself, `(custom PT MIN)` /
    -- `(custom16 PT MIN)`; only its packet type reaches the header
    let ptOf : Option (Nat × Nat) :=
      match pt with
      | .list [.atom fam, p, m] =>
        if fam == "custom" || fam == "custom16" then do pure (← p.toNat?, ← m.toNat?) else none
      | _ => do pure (← pt.toNat?, 4)
    match ptOf, padding.toNat?, count.toNat?, len.toNat? with
    | some (pt, min), some p, some c, some l =>
      if l > maxLen then bad
      else
        match fillBuf l fill with
        | none => bad
        | some buf =>
          if !customGrid (u8 pt) min || pt > 255 then #[("bad-request", "custom-grid")]
          else
            match (writeHeader (u8 pt) (u8 p) (u8 c) buf : R Unit Bytes) with
            -- the Rust returns the number of header bytes
            | .ok b => #[("res", "ok:4"), ("buf", hexOf b)]
            | _ => #[("res", "panic")]
    | _, _, _, _ => bad
  | [.atom "write_padding", padding, len, fill] =>
    match padding.toNat?, len.toNat? with
    | some p, some l =>
      if l > maxLen then bad
      else
        match fillBuf l fill with
        | none => bad
        | some buf =>
          match (writePadding (u8 p) buf : R Unit (Bytes × Nat)) with
          | .ok (b, n) => #[("res", "ok:" ++ toString n), ("buf", hexOf b)]
          | _ => #[("res", "panic")]
    | _, _ => bad
  | [.atom "check_padding", p] =>
    match p.toNat? with
    | some p =>
      match checkPadding (u8 p) with
      | .ok _ => #[("res", "ok")]
      | .err e => #[("res", "err:" ++ renderWriteError e)]
      | .panic => #[("res", "panic")]
    | none => bad
  | [.atom "pad_to_4bytes", n] =>
    -- `utils::pad_to_4bytes` is `pub(crate)` in the crate: the harness cannot call it
    match n.toNat? with
    | some _ => #[("bad-request", "not-exported")]
    | none => bad
  | [.atom "parse_fields", bytes] =>
    match bytes.toBytes? with
    | some d =>
      #[("version", acc (parseVersion d) toString),
        ("pbit", acc (parsePaddingBit d) toString),
        ("count", acc (parseCount d) toString),
        ("ptype", acc (parsePacketType d) toString),
        ("length", acc (parseLength d) toString),
        ("padding", acc (parsePadding d) optPad),
        ("ssrc", acc (parseSsrc d) toString)]
    | none => bad
  | _ => bad

def execRequest (line : String) : Out :=
  match parseSexp line with
  | some (.list [.atom "parse", kind, bytes]) =>
    match parsePKind kind, bytes.toBytes? with
    | some k, some d =>
      -- alignment independence (PROTOCOL.md §4.1): the model has no addresses, the three shifted
      -- dumps are the normal one; not reported for inputs longer than 70000 bytes
      let shift : Out := if d.length > 70000 then #[] else #[("shift_same", "true")]
      match k with
      | .custom pt min => if customGrid pt min then dumpViewAgain "" k d ++ shift else #[("bad-request", "custom-grid")]
      | _ => dumpViewAgain "" k d ++ shift ++ specParseLines k d
    | _, _ => #[("bad-request", "parse-args")]
  | some (.list [.atom "pad", kind, bytes, n]) =>
    match parsePKind kind, bytes.toBytes?, n.toNat? with
    | some k, some d, some n =>
      let q := addPadding d n
      #[("padded", hexOf q)] ++ dumpView "a." k d ++ dumpView "b." k q
    | _, _, _ => #[("bad-request", "pad-args")]
  | some (.list [.atom "build", b, .list (.atom "bufs" :: bufs)]) => execBuild b bufs
  -- `(rt_first)` only changes the order of the harness's calls
  | some (.list [.atom "build", b, .list (.atom "bufs" :: bufs), .list [.atom "rt_first"]]) => execBuild b bufs
  | some (.list [.atom "interleave", a, b]) => execInterleave a b
  | some (.list [.atom "size", b]) =>
    if !viaDefaultOk b then #[("bad-request", "via_default")] else
    match evalBuilder b with
    | none => #[("bad-request", "builder")]
    | some cfg =>
      if let some why := cfg.customsBad then #[("bad-request", why)]
      else
        match cfg with
        | .chunk _ | .item _ => #[]
        | _ =>
          let w := cfg.toWriter
          let v := cfg.violations
          #[("size", resW w.calcSize), ("getpad", optPad w.getPadding), ("size_trait_same", "true"),
            ("spec.viol", if v.isEmpty then "-" else String.intercalate ";" (v.map renderWriteError))]
  | some (.list (.atom "helper" :: args)) => execHelper args
  | _ => #[("bad-request", "syntax")]

end Driver
