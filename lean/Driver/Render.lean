/-
  Transcript rendering (PROTOCOL.md §3, §5): errors, results, slices, and the view dumps of
  every parser kind, computed from the `Impl` model.
-/
import Rtcp.Impl.Compound
import Driver.Sexp
import Rtcp.Impl.Fast

namespace Driver
open Rtcp Rtcp.Impl

abbrev Out := Array (String × String)

def renderParseError : ParseError → String
  | .unsupportedVersion v => s!"UnsupportedVersion({v})"
  | .truncated e a => s!"Truncated({e},{a})"
  | .tooLarge e a => s!"TooLarge({e},{a})"
  | .invalidPadding => "InvalidPadding"
  | .sdesValueTooLarge l m => s!"SdesValueTooLarge({l},{m})"
  | .sdesPrivContentTruncated l m => s!"SdesPrivContentTruncated({l},{m})"
  | .sdesPrivPrefixTooLarge l a => s!"SdesPrivPrefixTooLarge({l},{a})"
  | .wrongImplementation => "WrongImplementation"
  | .packetTypeMismatch a r => s!"PacketTypeMismatch({a},{r})"

def renderWriteError : WriteError → String
  | .outputTooSmall n => s!"OutputTooSmall({n})"
  | .invalidPadding p => s!"InvalidPadding({p})"
  | .appSubtypeOutOfRange s m => s!"AppSubtypeOutOfRange({s},{m})"
  | .invalidName => "InvalidName"
  | .dataLen32bitMultiple n => s!"DataLen32bitMultiple({n})"
  | .tooManySources c m => s!"TooManySources({c},{m})"
  | .reasonLenTooLarge l m => s!"ReasonLenTooLarge({l},{m})"
  | .cumulativeLostTooLarge v m => s!"CumulativeLostTooLarge({v},{m})"
  | .tooManyReportBlocks c m => s!"TooManyReportBlocks({c},{m})"
  | .tooManySdesChunks c m => s!"TooManySdesChunks({c},{m})"
  | .sdesValueTooLarge l m => s!"SdesValueTooLarge({l},{m})"
  | .sdesPrivPrefixTooLarge l m => s!"SdesPrivPrefixTooLarge({l},{m})"
  | .countOutOfRange c m => s!"CountOutOfRange({c},{m})"
  | .nonLastCompoundPacketPadding => "NonLastCompoundPacketPadding"
  | .missingFci => "MissingFci"
  | .tooManyNack => "TooManyNack"
  | .fciWrongFeedbackPacketType => "FciWrongFeedbackPacketType"
  | .payloadTypeInvalid => "PayloadTypeInvalid"
  | .paddingBitsTooLarge => "PaddingBitsTooLarge"
  | .tooManyFir => "TooManyFir"
  | .packetTooLarge s m => s!"PacketTooLarge({s},{m})"

/-- An accessor result: value or `panic` (an `err` cannot come out of an accessor). -/
def acc {α : Type} (r : R Unit α) (f : α → String) : String :=
  match r with
  | .ok a => f a
  | .err _ => "err?"
  | .panic => "panic"

def resP {α : Type} (r : R ParseError α) : String :=
  match r with
  | .ok _ => "ok"
  | .err e => "err:" ++ renderParseError e
  | .panic => "panic"

def optPad (o : Option UInt8) : String :=
  match o with
  | none => "none"
  | some n => toString n

def sliceStr (base : Nat) (s : Slice) : String := hexOf s.bytes ++ "@" ++ toString (base + s.off)

def listStr (xs : List String) : String := if xs.isEmpty then "-" else String.intercalate "," xs

/-- The `<key>.adapt` value (PROTOCOL.md §5, iterator adaptors) from the full list of rendered
    elements: `count;last;skip(1);nth(2);step_by(2);next() then nth(1);next() then count();`
    `skip(1).count();peekable() peek() for_each;zip of two;`
    `next() k times then count();next() k times then last()` (k = 0 .. min(n, 20)). The model has
    no separate adaptors, they are the list operations. -/
def adaptStr (xs : List String) : String :=
  let opt (o : Option String) : String := o.getD "none"
  let evens := (xs.zipIdx.filter (fun p => p.2 % 2 == 0)).map (·.1)
  let n := xs.length
  let ks := List.range (min n 20 + 1)
  let last := opt xs.getLast?
  String.intercalate ";" [toString n, last, listStr xs.tail, opt xs[2]?,
    listStr evens, opt xs[2]?,
    -- the rest after one `next()`, `skip(1)`: one element less (truncated subtraction);
    -- `peek()` does not consume; two iterators of the same list zip to its length
    toString (n - 1), toString (n - 1), listStr xs, toString n,
    -- advanced by k calls of `next()`: `n - k` elements are left, the last one is the last of the
    -- whole list unless nothing is left
    String.intercalate "," (ks.map (fun k => toString (n - k))),
    String.intercalate "|" (ks.map (fun k => if k < n then last else "none"))]

/-- The elements an iterator yields, rendered; `cap` if the model ran out of fuel. -/
inductive Elems where
  | ok (xs : List String)
  | cap
  | panic

def Elems.str : Elems → String
  | .ok xs => listStr xs
  | .cap => "cap"
  | .panic => "panic"

def Elems.adapt : Elems → String
  | .ok xs => adaptStr xs
  | .cap => "cap"
  | .panic => "panic"

/-- `String::from_utf8(bytes)`: `ok:<hex>` when the bytes are valid UTF-8, else `err`. -/
def utf8Str (b : Bytes) : String :=
  if (ByteArray.mk b.toArray).validateUTF8 then "ok:" ++ hexOf b else "err"

/-- header keys through RtcpPacketParserExt + `padding` -/
def dumpHeader (pfx : String) (d : Bytes) (padding : Option (R Unit (Option UInt8))) : Out :=
  let o : Out := #[
    (pfx ++ "version", acc (hVersion d) toString),
    (pfx ++ "type", acc (hType d) toString),
    (pfx ++ "count", acc (hCount d) toString),
    (pfx ++ "subtype", acc (hCount d) toString),
    (pfx ++ "length", acc (hLength d) toString)]
  match padding with
  | some p => o.push (pfx ++ "padding", acc p optPad)
  | none => o

def rbStr (b : Bytes) : String :=
  let f (r : R Unit UInt32) := acc r toString
  String.intercalate "," [
    f (ReportBlock.ssrc b), acc (ReportBlock.fractionLost b) toString, f (ReportBlock.cumulativeLost b),
    f (ReportBlock.extendedSequenceNumber b), f (ReportBlock.interarrivalJitter b),
    f (ReportBlock.lastSenderReportTimestamp b), f (ReportBlock.delaySinceLastSenderReportTimestamp b)]

def dumpBlocks (pfx : String) (r : R Unit (List Bytes)) : Out :=
  match r with
  | .ok bs =>
    let strs := bs.map rbStr
    let o : Out := #[(pfx ++ "rbs", toString bs.length), (pfx ++ "rbs.adapt", adaptStr strs)]
    (strs.zipIdx).foldl (fun o (b, i) => o.push (pfx ++ "rb" ++ toString i, b)) o
  | _ => #[(pfx ++ "rbs", "panic"), (pfx ++ "rbs.adapt", "panic")]

def dumpAppView (pfx : String) (base : Nat) (d : Bytes) : Out :=
  #[(pfx ++ "ssrc", acc (App.ssrc d) toString),
    (pfx ++ "name", acc (App.name d) hexOf),
    (pfx ++ "data", acc (App.data d) (sliceStr base)),
    (pfx ++ "strs", "ok"),
    -- `get_name_string()`: the name bytes up to the first 0 byte
    (pfx ++ "name_str", acc (App.name d) (fun n => utf8Str (n.takeWhile (· != 0))))]

def dumpByeView (pfx : String) (base : Nat) (d : Bytes) : Out :=
  #[(pfx ++ "ssrcs", acc (Bye.ssrcs d) (fun l => listStr (l.map toString))),
    (pfx ++ "ssrcs.adapt", acc (Bye.ssrcs d) (fun l => adaptStr (l.map toString))),
    (pfx ++ "reason", acc (Bye.reason d) (fun o => match o with | none => "none" | some s => sliceStr base s)),
    (pfx ++ "strs", "ok"),
    (pfx ++ "reason_str", acc (Bye.reason d) (fun o => match o with | none => "none" | some s => utf8Str s.bytes))]

def dumpRrView (pfx : String) (d : Bytes) : Out :=
  #[(pfx ++ "ssrc", acc (Rr.ssrc d) toString),
    (pfx ++ "n_reports", acc (Rr.nReports d) toString)] ++ dumpBlocks pfx (Rr.reportBlocks d)

def dumpSrView (pfx : String) (d : Bytes) : Out :=
  #[(pfx ++ "ssrc", acc (Sr.ssrc d) toString),
    (pfx ++ "n_reports", acc (Sr.nReports d) toString),
    (pfx ++ "ntp", acc (Sr.ntp d) toString),
    (pfx ++ "rtp", acc (Sr.rtp d) toString),
    (pfx ++ "pc", acc (Sr.packetCount d) toString),
    (pfx ++ "oc", acc (Sr.octetCount d) toString)] ++ dumpBlocks pfx (Sr.reportBlocks d)

def itemStr (base : Nat) (it : SdesItem) : String :=
  let ty : R Unit UInt8 := it.type
  let priv :=
    match ty with
    | .ok 8 => acc (it.privPrefixLen) toString ++ ":" ++ acc (it.privPrefix) (sliceStr base)
    | _ => "-"
  String.intercalate "," [acc ty toString, acc it.length toString, acc it.value (sliceStr base), priv]

def dumpSdesView (pfx : String) (base : Nat) (s : Sdes) : Out := Id.run do
  let mut o : Out := #[(pfx ++ "chunks", toString s.chunks.length),
    (pfx ++ "chunks.adapt", adaptStr (s.chunks.map (fun c => toString c.ssrc)))]
  let mut i := 0
  for c in s.chunks do
    let cp := pfx ++ "c" ++ toString i ++ "."
    o := o.push (cp ++ "ssrc", toString c.ssrc)
    o := o.push (cp ++ "length", acc c.length toString)
    o := o.push (cp ++ "items", toString c.items.length)
    o := o.push (cp ++ "items.adapt", adaptStr (c.items.map (fun it => acc it.type toString)))
    let mut j := 0
    for it in c.items do
      o := o.push (cp ++ "i" ++ toString j, itemStr base it)
      -- `get_value_string()`: `String::from_utf8` of the value bytes
      o := o.push (cp ++ "i" ++ toString j ++ ".str", acc it.value (fun v => utf8Str v.bytes))
      j := j + 1
    i := i + 1
  o := o.push (pfx ++ "strs", "ok")
  return o

def nackElems (d : Bytes) : Elems :=
  match (Fast.nackEntries d : R Unit _) with
  | .ok (l, true) => .ok (l.map toString)
  | .ok (_, false) => .cap
  | _ => .panic

def firElems (d : Bytes) : Elems :=
  match (Fast.firEntries d : R Unit _) with
  | .ok (l, true) => .ok (l.map (fun (s, q) => toString s ++ ":" ++ toString q))
  | .ok (_, false) => .cap
  | _ => .panic

def sliElems (d : Bytes) : Elems :=
  match (Fast.sliEntries d : R Unit _) with
  | .ok (l, true) => .ok (l.map (fun e => s!"{e.start}:{e.count}:{e.pictureId}"))
  | .ok (_, false) => .cap
  | _ => .panic

def nackStr (d : Bytes) : String := (nackElems d).str
def firStr (d : Bytes) : String := (firElems d).str
def sliStr (d : Bytes) : String := (sliElems d).str

/-- the entry list of the FCI kinds that have one -/
def fciElems (f : Fb.FciType) (d : Bytes) : Option Elems :=
  match f with
  | .nack => some (nackElems d)
  | .fir => some (firElems d)
  | .sli => some (sliElems d)
  | _ => none

def rpsiStr (base : Nat) (d : Bytes) : String :=
  let bs : R Unit (Slice × Nat) := Rpsi.bitString 0 d
  acc (Rpsi.payloadType d) toString ++ ";" ++ acc bs (fun x => sliceStr base x.1) ++ ";" ++ acc bs (fun x => toString x.2)

def fciStr (base : Nat) (f : Fb.FciType) (d : Bytes) : String :=
  match f with
  | .nack => nackStr d
  | .fir => firStr d
  | .sli => sliStr d
  | .rpsi => rpsiStr base d
  | .pli => ""

def fciName : Fb.FciType → String
  | .nack => "nack" | .fir => "fir" | .sli => "sli" | .rpsi => "rpsi" | .pli => "pli"

def dumpFbView (pfx : String) (base : Nat) (k : FbKind) (d : Bytes) : Out := Id.run do
  let mut o : Out := #[
    (pfx ++ "sender_ssrc", acc (Fb.senderSsrc d) toString),
    (pfx ++ "media_ssrc", acc (Fb.mediaSsrc d) toString)]
  for f in [Fb.FciType.nack, .fir, .sli, .rpsi, .pli] do
    let v :=
      match Fb.parseFci k f d with
      | .ok fd => if f == .pli then "ok" else "ok:" ++ fciStr (base + 12) f fd
      | .err e => "err:" ++ renderParseError e
      | .panic => "panic"
    o := o.push (pfx ++ "fci." ++ fciName f, v)
    -- no `fci.fir.adapt` in the round trip of a build request: `FirBuilder` writes in `HashMap` order
    let skip := f == .fir && pfx.startsWith "rt."
    match Fb.parseFci k f d with
    | .ok fd =>
      match (if skip then none else fciElems f fd) with
      | some es => o := o.push (pfx ++ "fci." ++ fciName f ++ ".adapt", es.adapt)
      | none => pure ()
    | _ => pure ()
  return o

def kindName : Kind → String
  | .app => "app" | .bye => "bye" | .rr => "rr" | .sdes => "sdes" | .sr => "sr" | .tfb => "tfb" | .pfb => "pfb"

def dumpUnknownView (pfx : String) (base : Nat) (d : Bytes) : Out := Id.run do
  let mut o : Out := #[(pfx ++ "data", acc (Unknown.data d) (sliceStr base))]
  for k in Kind.all do
    o := o.push (pfx ++ "as." ++ kindName k, resP (k.parse d))
    -- the owned `TryFrom<Unknown>`: the model has one conversion function
    o := o.push (pfx ++ "aso." ++ kindName k, resP (k.parse d))
  return o

def variantName : Packet → String
  | .app _ => "app" | .bye _ => "bye" | .rr _ => "rr" | .sdes _ => "sdes" | .sr _ => "sr"
  | .tfb _ => "tfb" | .pfb _ => "pfb" | .unknown _ => "unknown"

/-- keys of the inner view (without `res` and header) -/
def dumpInner (pfx : String) (base : Nat) (p : Packet) : Out :=
  match p with
  | .app d => dumpAppView pfx base d
  | .bye d => dumpByeView pfx base d
  | .rr d => dumpRrView pfx d
  | .sdes s => dumpSdesView pfx base s
  | .sr d => dumpSrView pfx d
  | .tfb d => dumpFbView pfx base .transport d
  | .pfb d => dumpFbView pfx base .payload d
  | .unknown d => dumpUnknownView pfx base d

def paddingOf (p : Packet) : Option (R Unit (Option UInt8)) :=
  match p with
  | .unknown _ => none
  | _ => some (parsePadding p.data)

/-- the `packet` view (after `res`): variant, header, inner keys, optionally the conversion matrix -/
def dumpPacketView (pfx : String) (base : Nat) (p : Packet) (bytes : Bytes) (full : Bool) : Out := Id.run do
  let mut o : Out := #[(pfx ++ "variant", variantName p),
    (pfx ++ "is_unknown", match p with | .unknown _ => "true" | _ => "false")]
  o := o ++ dumpHeader pfx p.data (paddingOf p)
  o := o ++ dumpInner pfx base p
  if full then
    -- the typed view taken out (`try_as`) and wrapped again (`Packet::from`): the same variant
    match p with
    | .unknown _ => pure ()
    | _ => o := o.push (pfx ++ "pfrom.variant", variantName p)
    for k in Kind.all do
      let typed := Fast.kindParse k bytes
      let conv := p.tryAs k
      o := o.push (pfx ++ "typed." ++ kindName k, resP typed)
      o := o.push (pfx ++ "conv." ++ kindName k, resP conv)
      let same :=
        match typed, conv with
        | .panic, _ => "panic"
        | _, .panic => "panic"
        | _, _ => if decide (typed = conv) then "true" else "false"
      o := o.push (pfx ++ "conv_same." ++ kindName k, same)
      -- the owned `TryFrom<Packet>`: the model has one conversion function (`Packet.tryAs`)
      o := o.push (pfx ++ "convo." ++ kindName k, resP conv)
      o := o.push (pfx ++ "convo_same." ++ kindName k, same)
  return o

inductive PKind where
  | app | bye | rr | sr | sdes | tfb | pfb | unknown | packet | compound | rb
  | nack | fir | sli | rpsi | pli
  | custom (pt : UInt8) (min : Nat)
deriving Repr, DecidableEq

def dumpCompound (pfx : String) (d : Bytes) : Out := Id.run do
  let r := Fast.compoundParse d
  let mut o : Out := #[(pfx ++ "res", resP r)]
  match r with
  | .ok c =>
    match (Fast.compoundCollect (d.length / 4 + 8) c : R Unit _) with
    | .ok (items, finished, c') =>
      if !finished then
        o := o.push (pfx ++ "n", "cap")
        o := o.push (pfx ++ "adapt", "cap")
      else
        o := o.push (pfx ++ "n", toString items.length)
        o := o.push (pfx ++ "adapt", adaptStr (items.map (fun it => resP it.1)))
        -- members: built one by one and appended by a fold over an accumulator that stays unique
        -- (appending inside the loop above copied the whole array per member: quadratic)
        let member (i : Nat) (it : R ParseError Packet × Nat) : Out :=
          let ip := pfx ++ "p" ++ toString i ++ "."
          let head : Out := #[(ip ++ "res", resP it.1)]
          match it.1 with
          -- the tile's bytes are the packet's own (`Props.packet_data`); no re-slicing of `d`
          | .ok p => head ++ dumpPacketView ip it.2 p p.data false
          | _ => head
        o := (items.zipIdx.map (fun (it, i) => member i it)).foldl (fun acc x => acc ++ x) o
        -- three further calls
        let mut st := c'
        let mut after : List String := []
        for _ in [0, 1, 2] do
          match (Compound.next st : R Unit _) with
          | .ok (none, st') => after := after ++ ["none"]; st := st'
          | .ok (some _, st') => after := after ++ ["some"]; st := st'
          | _ => after := after ++ ["panic"]
        o := o.push (pfx ++ "after", String.intercalate "," after)
    | _ =>
      o := o.push (pfx ++ "n", "panic")
      o := o.push (pfx ++ "adapt", "panic")
  | _ => pure ()
  return o

def dumpCustom (pfx : String) (base : Nat) (pt : UInt8) (min : Nat) (d : Bytes) : Out := Id.run do
  let r := Custom.parse pt min d
  let mut o : Out := #[(pfx ++ "res", resP r)]
  -- via Packet::parse then try_as::<Custom>: only an Unknown packet converts
  let via : Option (R ParseError Bytes) :=
    match Packet.parse d with
    | .ok (.unknown u) => some (Custom.parse pt min u)
    | .ok p =>
      some (match (hType p.data : R ParseError UInt8) with
            | .ok t => .err (.packetTypeMismatch t pt)
            | .err e => .err e
            | .panic => .panic)
    | .err _ => none
    | .panic => some .panic
  match via with
  | none =>
    o := o.push (pfx ++ "via_packet", "n/a")
    o := o.push (pfx ++ "via_packet_same", "n/a")
  | some v =>
    o := o.push (pfx ++ "via_packet", resP v)
    o := o.push (pfx ++ "via_packet_same", if decide (v = r) then "true" else "false")
  match r with
  | .ok v =>
    o := o ++ dumpHeader pfx v (some (Custom.padding v))
    o := o.push (pfx ++ "body", acc (Custom.body v) (sliceStr base))
  | _ => pure ()
  return o

/-- The view dump of PROTOCOL.md §5 for `kind` on `d`, keys prefixed by `pfx`, without the `debug`
    key. -/
def dumpViewKeys (pfx : String) (kind : PKind) (d : Bytes) : Out :=
  let typed (k : Kind) : Out :=
    let r := Fast.kindParse k d
    let o : Out := #[(pfx ++ "res", resP r)]
    match r with
    | .ok p => o ++ dumpHeader pfx p.data (paddingOf p) ++ dumpInner pfx 0 p
    | _ => o
  let fci (f : Fb.FciType) (key : String) : Out :=
    let r := f.parse d
    let o : Out := #[(pfx ++ "res", resP r)]
    match r with
    | .ok fd =>
      if f == .pli then o
      else
        let o := o.push (pfx ++ key, fciStr 0 f fd)
        match fciElems f fd with
        | some es => o.push (pfx ++ key ++ ".adapt", es.adapt)
        | none => o
    | _ => o
  match kind with
  | .app => typed .app
  | .bye => typed .bye
  | .rr => typed .rr
  | .sr => typed .sr
  | .sdes => typed .sdes
  | .tfb => typed .tfb
  | .pfb => typed .pfb
  | .unknown =>
    let r := Unknown.parse d
    let o : Out := #[(pfx ++ "res", resP r)]
    match r with
    | .ok u =>
      -- `Packet::from(unknown)` and the conversions out of it: the model has one conversion function
      let pfrom : Out := (Kind.all.map (fun k =>
        [(pfx ++ "pfrom.as." ++ kindName k, resP (k.parse u)),
         (pfx ++ "pfrom.aso." ++ kindName k, resP (k.parse u))])).flatten.toArray
      o ++ dumpHeader pfx u none ++ dumpUnknownView pfx 0 u ++ pfrom
    | _ => o
  | .packet =>
    let r := Fast.packetParse d
    let o : Out := #[(pfx ++ "res", resP r)]
    -- `typed.unknown`, and the seven `typed.<k>` also when the generic parser refused the bytes
    let tu : Out := #[(pfx ++ "typed.unknown", resP (Unknown.parse d))]
    match r with
    | .ok p => o ++ dumpPacketView pfx 0 p d true ++ tu
    | .err _ => o ++ (Kind.all.map (fun k => (pfx ++ "typed." ++ kindName k, resP (Fast.kindParse k d)))).toArray ++ tu
    | .panic => o
  | .compound => dumpCompound pfx d
  | .rb =>
    let r := ReportBlock.parse d
    let o : Out := #[(pfx ++ "res", resP r)]
    match r with
    | .ok b => o.push (pfx ++ "rb", rbStr b)
    | _ => o
  | .nack => fci .nack "entries"
  | .fir => fci .fir "entries"
  | .sli => fci .sli "entries"
  | .rpsi => fci .rpsi "rpsi"
  | .pli => fci .pli ""
  | .custom pt min => dumpCustom pfx 0 pt min d

/-- The view dump of PROTOCOL.md §5. `debug` (the harness formats every parsed value with `{:?}` and
    `{:#?}`; the model's values have no `Debug` text to panic in): `debug=ok` exactly when the
    view's `res` is `ok`. -/
def dumpView (pfx : String) (kind : PKind) (d : Bytes) : Out :=
  let o := dumpViewKeys pfx kind d
  -- every view starts with its `res` key
  if o[0]? == some (pfx ++ "res", "ok") then o.push (pfx ++ "debug", "ok") else o

/-- `dumpView` followed by `again_same` (PROTOCOL.md §4.1): the model's accessors are functions of
    the parsed value, a second call or another call order cannot change them: always `true`; not
    reported for inputs longer than 70000 bytes. -/
def dumpViewAgain (pfx : String) (kind : PKind) (d : Bytes) : Out :=
  let o := dumpView pfx kind d
  if d.length > 70000 then o else o.push (pfx ++ "again_same", "true")

end Driver
