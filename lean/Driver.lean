import Driver.Sexp
import Driver.Render
import Driver.Exec
