//! Executes the request protocol of /verif/PROTOCOL.md against the real `rtcp-types` crate.

mod ast;
mod build;
mod custom;
mod helper;
mod render;
mod sexp;
mod view;

use std::io::{self, BufRead, BufWriter, Write};
use std::panic::{catch_unwind, AssertUnwindSafe};

use ast::{Kind, Request};
use render::{hex, Out};

/// PROTOCOL.md §4.2
fn add_padding(p: &[u8], n: u8) -> Vec<u8> {
    let mut q = p.to_vec();
    if p.len() < 4 || n == 0 {
        return q;
    }
    q[0] |= 0x20;
    let old = u16::from_be_bytes([p[2], p[3]]);
    let new = old.wrapping_add((n / 4) as u16);
    q[2..4].copy_from_slice(&new.to_be_bytes());
    q.resize(q.len() + n as usize - 1, 0);
    q.push(n);
    q
}

fn run_pad(out: &mut Out, kind: Kind, p: &[u8], n: u8) {
    let q = add_padding(p, n);
    out.kv("", "padded", &hex(&q));
    view::dump_kind(out, "a", kind, p);
    view::dump_kind(out, "b", kind, &q);
}

/// The transcript lines of one request (without the `#k` line).
fn handle(line: &str) -> String {
    let Some(sexp) = sexp::parse(line) else {
        return "bad-request=syntax\n".to_string();
    };
    let req = match ast::request(&sexp) {
        Ok(r) => r,
        Err(reason) => return format!("bad-request={reason}\n"),
    };
    drop(sexp);
    let mut out = Out::new();
    match &req {
        Request::Parse(kind, bytes) => view::dump_kind(&mut out, "", *kind, bytes),
        Request::Pad(kind, bytes, n) => run_pad(&mut out, *kind, bytes, *n),
        Request::Build(b, bufs) => build::run_build(&mut out, b, bufs),
        Request::Size(b) => build::run_size(&mut out, b),
        Request::Helper(h) => helper::run_helper(&mut out, h),
    }
    out.buf
}

fn run() -> io::Result<()> {
    let stdin = io::stdin();
    let mut rd = stdin.lock();
    let stdout = io::stdout();
    let mut w = BufWriter::with_capacity(1 << 20, stdout.lock());

    let mut raw: Vec<u8> = Vec::new();
    let mut k: u64 = 0;
    loop {
        raw.clear();
        if rd.read_until(b'\n', &mut raw)? == 0 {
            break;
        }
        let text = String::from_utf8_lossy(&raw);
        let line = text.trim();
        if line.is_empty() || line.starts_with(';') {
            continue;
        }
        writeln!(w, "#{k}")?;
        k += 1;
        match catch_unwind(AssertUnwindSafe(|| handle(line))) {
            Ok(s) => w.write_all(s.as_bytes())?,
            Err(_) => w.write_all(b"bad-request=harness-panic\n")?,
        }
    }
    w.flush()
}

fn main() {
    // panics are part of the observed behaviour: keep them silent
    std::panic::set_hook(Box::new(|_| {}));

    // generous stack: nested builders are replayed recursively
    let t = std::thread::Builder::new()
        .stack_size(256 << 20)
        .spawn(run)
        .expect("spawn");
    match t.join() {
        Ok(Ok(())) => {}
        Ok(Err(e)) => {
            if e.kind() != io::ErrorKind::BrokenPipe {
                eprintln!("harness: i/o error: {e}");
                std::process::exit(1);
            }
        }
        Err(_) => {
            eprintln!("harness: internal panic outside of a request");
            std::process::exit(2);
        }
    }
}
