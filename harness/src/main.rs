//! Executes the request protocol of /verif/PROTOCOL.md against the real `rtcp-types` crate.

mod ast;
mod bufs;
mod build;
mod custom;
mod helper;
mod render;
mod sexp;
mod view;

use std::io::{self, BufRead, BufWriter, Write};
use std::panic::{catch_unwind, AssertUnwindSafe};

use ast::{Kind, Request};
use bufs::Bufs;
use render::{hex, Out};

/// PROTOCOL.md §4.2
fn add_padding(p: &[u8], n: u8) -> Vec<u8> {
    let mut q = p.to_vec();
    if p.len() < 4 || n == 0 {
        return q;
    }
    q[0] |= 0x20;
    let old = u16::from_be_bytes([p[2], p[3]]);
    let new = old.wrapping_add((n / 4) as u16);
    q[2..4].copy_from_slice(&new.to_be_bytes());
    q.resize(q.len() + n as usize - 1, 0);
    q.push(n);
    q
}

/// `p` is parsed at the start of the long-lived receive buffer, its padded variant `q` at the
/// start of the second one (PROTOCOL.md §7).
fn run_pad(out: &mut Out, bufs: &mut Bufs, kind: Kind, p: &[u8], n: u8) {
    let q = add_padding(p, n);
    out.kv("", "padded", &hex(&q));
    view::dump_kind(out, "a", kind, bufs.rx.load(p));
    view::dump_kind(out, "b", kind, bufs.rx2.load(&q));
}

/// A copy of a byte string whose first byte sits at address `8*m + k` (PROTOCOL.md §4.1,
/// alignment independence): the copy lives in an over-allocated `Vec<u8>` and starts at the
/// first address of that allocation with `addr % 8 == k`.
struct Placed {
    store: Vec<u8>,
    start: usize,
    len: usize,
}

impl Placed {
    fn new(bytes: &[u8], k: usize) -> Placed {
        debug_assert!(k < 8);
        let mut store = vec![0u8; bytes.len() + 16];
        let addr = store.as_ptr() as usize;
        let start = (k + 8 - addr % 8) % 8;
        store[start..start + bytes.len()].copy_from_slice(bytes);
        Placed {
            store,
            start,
            len: bytes.len(),
        }
    }

    fn bytes(&self) -> &[u8] {
        &self.store[self.start..self.start + self.len]
    }
}

/// Inputs longer than this are dumped once only (no `shift_same` key).
const SHIFT_MAX_LEN: usize = 70000;

fn key_of(line: &str) -> &str {
    line.split('=').next().unwrap_or(line)
}

/// The key of the first line in which two dumps differ (the normal dump's line at that position;
/// the other dump's line when the normal dump has no line there).
fn first_diff_key<'a>(normal: &'a str, other: &'a str) -> &'a str {
    let mut a = normal.lines();
    let mut b = other.lines();
    loop {
        match (a.next(), b.next()) {
            (Some(x), Some(y)) if x == y => continue,
            (Some(x), _) => return key_of(x),
            (None, Some(y)) => return key_of(y),
            (None, None) => return "",
        }
    }
}

/// PROTOCOL.md §4.1: the view dump from an 8-byte aligned start (the start of the long-lived
/// receive buffer, §7), then the same dump on copies at addresses `8*m + 1`, `+ 2`, `+ 3`,
/// reported in the one key `shift_same`; the accessors called again on the same object and
/// last-to-first on a fresh one (parsed from the same slice of the receive buffer), reported in
/// `again_same`.
fn run_parse(out: &mut Out, bufs: &mut Bufs, kind: Kind, bytes: &[u8]) {
    let aligned = bufs.rx.load(bytes);
    debug_assert_eq!(aligned.as_ptr() as usize % 8, 0);
    // the normal dump (pass A) and pass B; nothing more for more than 70000 bytes
    let Some(ab) = view::dump_kind_ab(out, "", kind, aligned) else {
        return;
    };
    debug_assert!(bytes.len() <= SHIFT_MAX_LEN);
    let mut verdict = "true".to_string();
    for k in 1..=3usize {
        let shifted = Placed::new(bytes, k);
        debug_assert_eq!(shifted.bytes().as_ptr() as usize % 8, k);
        let mut other = Out::new();
        view::dump_kind(&mut other, "", kind, shifted.bytes());
        if other.buf != out.buf {
            verdict = format!("false:{k}:{}", first_diff_key(&out.buf, &other.buf));
            break;
        }
    }
    // pass C last: the last parse of the request reads the receive buffer like the first one
    let again = view::again_verdict(ab, "", kind, aligned);
    out.kv("", "shift_same", &verdict);
    out.kv("", "again_same", &again);
}

/// The transcript lines of one request (without the `#k` line).
fn handle(line: &str, bufs: &mut Bufs) -> String {
    let Some(sexp) = sexp::parse(line) else {
        return "bad-request=syntax\n".to_string();
    };
    let req = match ast::request(&sexp) {
        Ok(r) => r,
        Err(reason) => return format!("bad-request={reason}\n"),
    };
    drop(sexp);
    let mut out = Out::new();
    match &req {
        Request::Parse(kind, bytes) => run_parse(&mut out, bufs, *kind, bytes),
        Request::Pad(kind, bytes, n) => run_pad(&mut out, bufs, *kind, bytes, *n),
        Request::Build(b, specs, rt_first) => build::run_build(&mut out, bufs, b, specs, *rt_first),
        Request::Interleave(a, b) => build::run_interleave(&mut out, bufs, a, b),
        Request::Size(b) => build::run_size(&mut out, bufs, b),
        Request::Helper(h) => helper::run_helper(&mut out, h),
    }
    out.buf
}

fn run() -> io::Result<()> {
    let stdin = io::stdin();
    let mut rd = stdin.lock();
    let stdout = io::stdout();
    let mut w = BufWriter::with_capacity(1 << 20, stdout.lock());

    // the receive / output buffers every request reuses (PROTOCOL.md §7)
    let mut bufs = Bufs::new();
    let mut raw: Vec<u8> = Vec::new();
    let mut k: u64 = 0;
    loop {
        raw.clear();
        if rd.read_until(b'\n', &mut raw)? == 0 {
            break;
        }
        let text = String::from_utf8_lossy(&raw);
        let line = text.trim();
        if line.is_empty() || line.starts_with(';') {
            continue;
        }
        writeln!(w, "#{k}")?;
        k += 1;
        match catch_unwind(AssertUnwindSafe(|| handle(line, &mut bufs))) {
            Ok(s) => w.write_all(s.as_bytes())?,
            Err(_) => w.write_all(b"bad-request=harness-panic\n")?,
        }
    }
    w.flush()
}

fn main() {
    // panics are part of the observed behaviour: keep them silent
    std::panic::set_hook(Box::new(|_| {}));

    // generous stack: nested builders are replayed recursively
    let t = std::thread::Builder::new()
        .stack_size(256 << 20)
        .spawn(run)
        .expect("spawn");
    match t.join() {
        Ok(Ok(())) => {}
        Ok(Err(e)) => {
            if e.kind() != io::ErrorKind::BrokenPipe {
                eprintln!("harness: i/o error: {e}");
                std::process::exit(1);
            }
        }
        Err(_) => {
            eprintln!("harness: internal panic outside of a request");
            std::process::exit(2);
        }
    }
}

#[cfg(test)]
mod tests {
    use super::*;

    #[test]
    fn placed_copies_sit_at_the_requested_residue() {
        for len in [0usize, 1, 4, 7, 8, 33] {
            let data: Vec<u8> = (0..len).map(|i| (i * 31 + 7) as u8).collect();
            for k in 0..8 {
                let p = Placed::new(&data, k);
                assert_eq!(p.bytes(), &data[..]);
                assert_eq!(p.bytes().as_ptr() as usize % 8, k);
            }
        }
    }

    #[test]
    fn first_differing_key() {
        assert_eq!(first_diff_key("res=ok\nssrc=1\n", "res=ok\nssrc=2\n"), "ssrc");
        assert_eq!(first_diff_key("res=ok\n", "res=ok\ndata=-@4\n"), "data");
        assert_eq!(first_diff_key("res=ok\ndata=-@4\n", "res=ok\n"), "data");
        assert_eq!(first_diff_key("res=ok\nn=1\n", "res=err:InvalidPadding\n"), "res");
        assert_eq!(first_diff_key("a.b=x=y\n", "a.b=x=z\n"), "a.b");
    }
}
