//! Value rendering (PROTOCOL.md §3) and the per-request output buffer.

use std::panic::{catch_unwind, AssertUnwindSafe};

use rtcp_types::{RtcpParseError, RtcpWriteError};

/// Runs `f`, turning a panic into `None`.
pub fn guard<T>(f: impl FnOnce() -> T) -> Option<T> {
    catch_unwind(AssertUnwindSafe(f)).ok()
}

/// Output of one request: `key=value` lines.
pub struct Out {
    pub buf: String,
}

impl Out {
    pub fn new() -> Self {
        Out {
            buf: String::with_capacity(1024),
        }
    }

    /// Emits `P.key=val` (`key=val` for the empty prefix).
    pub fn kv(&mut self, pfx: &str, key: &str, val: &str) {
        if !pfx.is_empty() {
            self.buf.push_str(pfx);
            self.buf.push('.');
        }
        self.buf.push_str(key);
        self.buf.push('=');
        self.buf.push_str(val);
        self.buf.push('\n');
    }
}

/// `P.s` / `s` for the empty prefix.
pub fn join(pfx: &str, s: &str) -> String {
    if pfx.is_empty() {
        s.to_string()
    } else {
        format!("{pfx}.{s}")
    }
}

const HEX: &[u8; 16] = b"0123456789abcdef";

pub fn hex(b: &[u8]) -> String {
    if b.is_empty() {
        return "-".to_string();
    }
    let mut s = Vec::with_capacity(b.len() * 2);
    for x in b {
        s.push(HEX[(x >> 4) as usize]);
        s.push(HEX[(x & 0xf) as usize]);
    }
    // only ASCII was pushed
    String::from_utf8(s).unwrap()
}

/// Pointer and length of the byte string given to the outermost parser of the request.
#[derive(Clone, Copy)]
pub struct Base {
    ptr: usize,
    len: usize,
}

impl Base {
    pub fn of(b: &[u8]) -> Base {
        Base {
            ptr: b.as_ptr() as usize,
            len: b.len(),
        }
    }

    pub fn len(&self) -> usize {
        self.len
    }
}

/// SLICE rendering: `<hex>@<off>` / `<hex>@ext`.
pub fn slice(base: Base, s: &[u8]) -> String {
    let p = s.as_ptr() as usize;
    let mut r = hex(s);
    if p >= base.ptr && p <= base.ptr + base.len {
        r.push('@');
        r.push_str(&(p - base.ptr).to_string());
    } else {
        r.push_str("@ext");
    }
    r
}

pub fn opt_pad(p: Option<u8>) -> String {
    match p {
        None => "none".to_string(),
        Some(n) => n.to_string(),
    }
}

pub fn list(items: Vec<String>) -> String {
    if items.is_empty() {
        "-".to_string()
    } else {
        items.join(",")
    }
}

/// Number-like value computed under `catch_unwind`.
pub fn num<T: ToString>(f: impl FnOnce() -> T) -> String {
    match guard(f) {
        Some(v) => v.to_string(),
        None => "panic".to_string(),
    }
}

pub fn perr(e: &RtcpParseError) -> String {
    use RtcpParseError::*;
    match e {
        UnsupportedVersion(v) => format!("UnsupportedVersion({v})"),
        Truncated { expected, actual } => format!("Truncated({expected},{actual})"),
        TooLarge { expected, actual } => format!("TooLarge({expected},{actual})"),
        InvalidPadding => "InvalidPadding".to_string(),
        SdesValueTooLarge { len, max } => format!("SdesValueTooLarge({len},{max})"),
        SdesPrivContentTruncated { len, min } => format!("SdesPrivContentTruncated({len},{min})"),
        SdesPrivPrefixTooLarge { len, available } => {
            format!("SdesPrivPrefixTooLarge({len},{available})")
        }
        WrongImplementation => "WrongImplementation".to_string(),
        PacketTypeMismatch { actual, requested } => {
            format!("PacketTypeMismatch({actual},{requested})")
        }
    }
}

pub fn werr(e: &RtcpWriteError) -> String {
    use RtcpWriteError::*;
    match e {
        OutputTooSmall(n) => format!("OutputTooSmall({n})"),
        InvalidPadding { padding } => format!("InvalidPadding({padding})"),
        AppSubtypeOutOfRange { subtype, max } => format!("AppSubtypeOutOfRange({subtype},{max})"),
        InvalidName => "InvalidName".to_string(),
        DataLen32bitMultiple(n) => format!("DataLen32bitMultiple({n})"),
        TooManySources { count, max } => format!("TooManySources({count},{max})"),
        ReasonLenTooLarge { len, max } => format!("ReasonLenTooLarge({len},{max})"),
        CumulativeLostTooLarge { value, max } => format!("CumulativeLostTooLarge({value},{max})"),
        TooManyReportBlocks { count, max } => format!("TooManyReportBlocks({count},{max})"),
        TooManySdesChunks { count, max } => format!("TooManySdesChunks({count},{max})"),
        SdesValueTooLarge { len, max } => format!("SdesValueTooLarge({len},{max})"),
        SdesPrivPrefixTooLarge { len, max } => format!("SdesPrivPrefixTooLarge({len},{max})"),
        CountOutOfRange { count, max } => format!("CountOutOfRange({count},{max})"),
        NonLastCompoundPacketPadding => "NonLastCompoundPacketPadding".to_string(),
        MissingFci => "MissingFci".to_string(),
        TooManyNack => "TooManyNack".to_string(),
        FciWrongFeedbackPacketType => "FciWrongFeedbackPacketType".to_string(),
        PayloadTypeInvalid => "PayloadTypeInvalid".to_string(),
        PaddingBitsTooLarge => "PaddingBitsTooLarge".to_string(),
        TooManyFir => "TooManyFir".to_string(),
        PacketTooLarge { size, max } => format!("PacketTooLarge({size},{max})"),
    }
}

/// `ok` | `err:<E>` | `panic` for a guarded parse result, ignoring the value.
pub fn pres<T>(r: &Option<Result<T, RtcpParseError>>) -> String {
    match r {
        None => "panic".to_string(),
        Some(Ok(_)) => "ok".to_string(),
        Some(Err(e)) => format!("err:{}", perr(e)),
    }
}

/// `ok:<n>` | `err:<E>` | `panic` for a guarded write/size result.
pub fn wres(r: &Option<Result<usize, RtcpWriteError>>) -> String {
    match r {
        None => "panic".to_string(),
        Some(Ok(n)) => format!("ok:{n}"),
        Some(Err(e)) => format!("err:{}", werr(e)),
    }
}

#[cfg(test)]
mod tests {
    use super::*;

    #[test]
    fn panics_render_as_panic() {
        std::panic::set_hook(Box::new(|_| {}));
        let v: Vec<u8> = vec![1, 2, 3];
        let idx = v.len() + 2;
        assert_eq!(num(|| v[idx]), "panic");
        assert_eq!(num(|| v[1]), "2");
        // overflow checks must be on in the profile under test
        let x = u8::MAX;
        let one = v[0];
        assert_eq!(num(|| x + one), "panic");
        let r: Option<Result<usize, RtcpWriteError>> = guard(|| panic!("boom"));
        assert_eq!(wres(&r), "panic");
    }

    #[test]
    fn slices() {
        let input = vec![0xabu8, 0xcd, 0xef];
        let other = vec![0x01u8];
        let base = Base::of(&input);
        assert_eq!(slice(base, &input[1..]), "cdef@1");
        assert_eq!(slice(base, &input[3..]), "-@3");
        assert_eq!(slice(base, &other), "01@ext");
        assert_eq!(hex(&[]), "-");
    }
}
