//! The long-lived buffers of the harness (PROTOCOL.md §7): like a long-running receiver /
//! sender the harness reuses ONE receive buffer for everything it hands to the crate's parsers
//! and ONE output buffer for everything it asks the crate's writers to fill, request after
//! request. Process-wide or thread-local state of the crate keyed on the ADDRESS (and length) of
//! a slice therefore meets the same address again in the next request.

/// Capacity the buffers start with; they only grow for a larger input / output.
pub const CAPACITY: usize = 1 << 20;

/// A buffer that lives as long as the harness. Its *window* starts at the first 8-byte aligned
/// address of the allocation (with every common allocator: its first byte) and is handed out in
/// prefixes, so consecutive users see the same address, and users of equal length the same
/// address and length.
pub struct Long {
    store: Vec<u8>,
    start: usize,
}

impl Long {
    pub fn new() -> Long {
        let mut l = Long {
            store: Vec::new(),
            start: 0,
        };
        l.allocate(CAPACITY);
        l
    }

    /// A fresh allocation with room for `n` bytes behind an 8-byte aligned start.
    fn allocate(&mut self, n: usize) {
        self.store = vec![0u8; n + 8];
        self.start = (8 - self.store.as_ptr() as usize % 8) % 8;
    }

    /// Grows (moves) only when `n` bytes do not fit.
    fn reserve(&mut self, n: usize) {
        if self.store.len() - self.start < n {
            self.allocate(n.max(CAPACITY));
        }
    }

    /// Copies `bytes` to the start of the window and returns that prefix of the window.
    pub fn load(&mut self, bytes: &[u8]) -> &[u8] {
        self.reserve(bytes.len());
        let w = &mut self.store[self.start..self.start + bytes.len()];
        w.copy_from_slice(bytes);
        w
    }

    /// The first `len` bytes of the window, as they are.
    pub fn prefix(&mut self, len: usize) -> &mut [u8] {
        self.reserve(len);
        &mut self.store[self.start..self.start + len]
    }
}

/// All long-lived buffers; created once in `main`'s worker and passed to every request.
pub struct Bufs {
    /// the receive buffer: every byte string given to a parser of the crate is copied to its start
    pub rx: Long,
    /// second receive buffer: the padded variant `q` of a `pad` request
    pub rx2: Long,
    /// the output buffer: every `write_into` of a `build` request writes to a prefix of it
    pub tx: Long,
}

impl Bufs {
    pub fn new() -> Bufs {
        Bufs {
            rx: Long::new(),
            rx2: Long::new(),
            tx: Long::new(),
        }
    }
}

#[cfg(test)]
mod tests {
    use super::*;

    #[test]
    fn same_address_for_every_user() {
        let mut l = Long::new();
        let a = l.load(&[1, 2, 3]).as_ptr() as usize;
        assert_eq!(a % 8, 0);
        let b = l.load(&[9; 4000]).as_ptr() as usize;
        assert_eq!(a, b);
        assert_eq!(l.load(&[]).as_ptr() as usize, a);
        assert_eq!(l.prefix(17).as_ptr() as usize, a);
        assert_eq!(l.load(&[7, 8]), &[7, 8]);
        // a larger user moves it once, then it stays again
        let big = vec![5u8; CAPACITY + 1];
        let c = l.load(&big).as_ptr() as usize;
        assert_eq!(c % 8, 0);
        assert_eq!(l.load(&[1]).as_ptr() as usize, c);
        assert_eq!(l.prefix(CAPACITY + 1).len(), CAPACITY + 1);
        assert_eq!(l.prefix(CAPACITY + 1).as_ptr() as usize, c);
    }
}
