//! `(helper NAME ARGS...)` (PROTOCOL.md §4.4): direct calls of the crate's public helpers
//! `utils::writer::*` / `utils::parser::*`, each under `catch_unwind`.

use rtcp_types::utils::{parser, writer};

use crate::ast::{Fam, Helper};
use crate::build::make_buf;
use crate::custom::{Custom, Custom16};
use crate::render::*;

/// `write_header_unchecked::<P>` for `P = Custom<PT, MIN>` (default `MAX_COUNT`).
fn write_header_for<const PT: u8, const MIN: usize>(padding: u8, count: u8, buf: &mut [u8]) -> usize {
    writer::write_header_unchecked::<Custom<'static, PT, MIN>>(padding, count, buf)
}

/// `write_header_unchecked::<P>` for `P = Custom16<PT, MIN>` (`MAX_COUNT = 16`).
fn write_header_for16<const PT: u8, const MIN: usize>(padding: u8, count: u8, buf: &mut [u8]) -> usize {
    writer::write_header_unchecked::<Custom16<'static, PT, MIN>>(padding, count, buf)
}

/// `res=ok:<n>|panic` and, unless it panicked, `buf=<hex>`.
fn written(out: &mut Out, r: Option<usize>, buf: &[u8]) {
    match r {
        Some(n) => {
            out.kv("", "res", &format!("ok:{n}"));
            out.kv("", "buf", &hex(buf));
        }
        None => out.kv("", "res", "panic"),
    }
}

fn opt_val<T>(f: impl FnOnce() -> T, show: impl FnOnce(T) -> String) -> String {
    match guard(f) {
        Some(v) => show(v),
        None => "panic".to_string(),
    }
}

pub fn run_helper(out: &mut Out, h: &Helper) {
    match h {
        Helper::WriteHeader {
            fam,
            pt,
            min,
            padding,
            count,
            len,
            fill,
        } => {
            let mut buf = make_buf(*len, *fill);
            let (padding, count) = (*padding, *count);
            let r = guard(|| {
                let b = &mut buf[..];
                // a bare PT is `Custom<PT, 4>` (only `PACKET_TYPE` matters to today's helper)
                match fam {
                    Fam::Custom => {
                        crate::with_grid!(*pt, *min, write_header_for, [], (padding, count, b))
                    }
                    Fam::Custom16 => {
                        crate::with_grid!(*pt, *min, write_header_for16, [], (padding, count, b))
                    }
                }
            });
            written(out, r, &buf);
        }
        Helper::WritePadding { padding, len, fill } => {
            let mut buf = make_buf(*len, *fill);
            let r = guard(|| writer::write_padding_unchecked(*padding, &mut buf));
            written(out, r, &buf);
        }
        Helper::CheckPadding(p) => {
            let v = opt_val(
                || writer::check_padding(*p),
                |r| match r {
                    Ok(()) => "ok".to_string(),
                    Err(e) => format!("err:{}", werr(&e)),
                },
            );
            out.kv("", "res", &v);
        }
        Helper::ParseFields(bytes) => {
            let d = &bytes[..];
            out.kv("", "version", &num(|| parser::parse_version(d)));
            out.kv("", "pbit", &num(|| parser::parse_padding_bit(d)));
            out.kv("", "count", &num(|| parser::parse_count(d)));
            out.kv("", "ptype", &num(|| parser::parse_packet_type(d)));
            out.kv("", "length", &num(|| parser::parse_length(d)));
            out.kv("", "padding", &opt_val(|| parser::parse_padding(d), opt_pad));
            out.kv("", "ssrc", &num(|| parser::parse_ssrc(d)));
        }
    }
}
