//! Replays builder ASTs on the real builder API (PROTOCOL.md §4.3).
//!
//! The concrete builder is handed to a [`Visitor`], so that `add_packet` / `PacketBuilder::from`
//! are always called on the crate's own types (no wrapper in between).
//!
//! `calculate_size()` / `get_padding()` / `write_into()` / `write_into_unchecked()` are called
//! the way a user of the crate writes them: with METHOD-CALL SYNTAX ON THE CONCRETE BUILDER TYPE
//! (`builder.write_into(&mut buf)`), never on a type parameter `T: RtcpPacketWriter`. In generic
//! code those calls always resolve to the trait methods (`RtcpPacketWriterExt::write_into`); on
//! the concrete type an inherent `pub fn write_into` (a fast path a later version of the crate
//! may add to e.g. `SdesBuilder`) shadows the trait method and is what a user gets. The calls
//! live in [`Concrete`], implemented once per concrete builder type by `impl_concrete!` (the
//! macro body contains `b.calculate_size()`, `b.get_padding()`, `b.write_into(buf)` with `b` of
//! the concrete type), and in `probed!`, expanded at the concrete call sites. Against today's
//! crate, where those methods are the trait's, both spellings are the same call.

use std::cell::Cell;

use rtcp_types::prelude::*;
use rtcp_types::{
    App, AppBuilder, Bye, ByeBuilder, Compound, Fir, FirBuilder, Nack, NackBuilder, PacketBuilder,
    PayloadFeedback, PayloadFeedbackBuilder, Pli, PliBuilder, ReceiverReport,
    ReceiverReportBuilder, ReportBlock, ReportBlockBuilder, Rpsi, RpsiBuilder, Sdes, SdesBuilder,
    SdesChunk, SdesChunkBuilder, SdesItem, SdesItemBuilder, SenderReport, SenderReportBuilder, Sli,
    RtcpWriteError, SliBuilder, TransportFeedback, TransportFeedbackBuilder, Unknown,
    UnknownBuilder,
};

use crate::ast::*;
use crate::bufs::{Bufs, Long};
use crate::custom::{Custom, Custom16, Custom16Builder, CustomBuilder, UnitPkt};
use crate::render::*;
use crate::view::dump_kind_again;

// ---------------------------------------------------------------------------------------------
// the crate calls of the protocol, on the concrete builder types

/// The calls a request makes on a packet-level builder. `c_*`: method-call syntax on the
/// concrete type (an inherent method of that name wins over the trait's); `t_*`: the same call
/// through the trait path, spelled out (`w<j>.trait_same`, `size_trait_same`). Object safe: the
/// protocol code works on `&dyn Concrete`, the vtable leads to the per-type bodies below.
pub trait Concrete: RtcpPacketWriter {
    /// `b.calculate_size()`
    fn c_size(&self) -> Result<usize, RtcpWriteError>;
    /// `b.get_padding()`
    fn c_getpad(&self) -> Option<u8>;
    /// `b.write_into(buf)`
    fn c_write(&self, buf: &mut [u8]) -> Result<usize, RtcpWriteError>;
    /// `b.write_into_unchecked(buf)`
    fn c_unchecked(&self, buf: &mut [u8]) -> usize;
    /// `RtcpPacketWriter::calculate_size(&b)`
    fn t_size(&self) -> Result<usize, RtcpWriteError>;
    /// `RtcpPacketWriterExt::write_into(&b, buf)`
    fn t_write(&self, buf: &mut [u8]) -> Result<usize, RtcpWriteError>;
}

/// `impl Concrete for <concrete builder type>`: expanded once per type, so that every method
/// call below has a receiver of that concrete type (`b: &AppBuilder<'a>`, ..), never a type
/// parameter.
macro_rules! impl_concrete {
    ($([$($g:tt)*] $t:ty;)*) => {$(
        impl<$($g)*> Concrete for $t {
            fn c_size(&self) -> Result<usize, RtcpWriteError> {
                let b: &$t = self;
                b.calculate_size()
            }
            fn c_getpad(&self) -> Option<u8> {
                let b: &$t = self;
                b.get_padding()
            }
            fn c_write(&self, buf: &mut [u8]) -> Result<usize, RtcpWriteError> {
                let b: &$t = self;
                b.write_into(buf)
            }
            fn c_unchecked(&self, buf: &mut [u8]) -> usize {
                let b: &$t = self;
                b.write_into_unchecked(buf)
            }
            fn t_size(&self) -> Result<usize, RtcpWriteError> {
                let b: &$t = self;
                rtcp_types::RtcpPacketWriter::calculate_size(b)
            }
            fn t_write(&self, buf: &mut [u8]) -> Result<usize, RtcpWriteError> {
                let b: &$t = self;
                rtcp_types::RtcpPacketWriterExt::write_into(b, buf)
            }
        }
    )*};
}

impl_concrete! {
    ['a] AppBuilder<'a>;
    ['a] ByeBuilder<'a>;
    [] ReceiverReportBuilder;
    [] SenderReportBuilder;
    ['a] SdesBuilder<'a>;
    ['a] UnknownBuilder<'a>;
    ['a] TransportFeedbackBuilder<'a>;
    ['a] PayloadFeedbackBuilder<'a>;
    ['a] PacketBuilder<'a>;
    ['a] rtcp_types::CompoundBuilder<'a>;
    [] NackBuilder;
    [] FirBuilder;
    [] SliBuilder;
    ['a] RpsiBuilder<'a>;
    [] PliBuilder;
    ['a, const PT: u8, const MIN: usize] CustomBuilder<'a, PT, MIN>;
    ['a, const PT: u8, const MIN: usize] Custom16Builder<'a, PT, MIN>;
    [const PT: u8] UnitPkt<PT>;
}

// ---------------------------------------------------------------------------------------------
// `(probe)`

/// Largest size a `(probe)` writes.
const PROBE_MAX: usize = 1 << 20;

/// `$b` after `(probe)`: `calculate_size()` on the builder as configured so far and, if that is
/// `Ok(n)` with `n <= 1 << 20`, `write_into` an `n`-byte buffer; each under `catch_unwind`,
/// results discarded. The builder is only borrowed: the caller goes on applying the remaining
/// calls to it. Expanded where `$b` is a local of the concrete builder type (method-call syntax
/// on the concrete type, see the module documentation).
macro_rules! probed {
    ($b:ident) => {{
        if let Some(Ok(n)) = guard(|| $b.calculate_size()) {
            if n <= PROBE_MAX {
                let mut buf = vec![0x5au8; n];
                let _ = guard(|| $b.write_into(&mut buf));
            }
        }
        $b
    }};
}

// ---------------------------------------------------------------------------------------------
// leaf builders

fn mk_rb(rb: &Rb) -> ReportBlockBuilder {
    let mut b = ReportBlock::builder(rb.ssrc);
    for c in &rb.calls {
        b = match c {
            RbCall::Fl(n) => b.fraction_lost(*n),
            RbCall::Cl(n) => b.cumulative_lost(*n),
            RbCall::Esn(n) => b.extended_sequence_number(*n),
            RbCall::Jit(n) => b.interarrival_jitter(*n),
            RbCall::Lsr(n) => b.last_sender_report_timestamp(*n),
            RbCall::Dlsr(n) => b.delay_since_last_sender_report_timestamp(*n),
        };
    }
    b
}

fn mk_item(it: &Item) -> SdesItemBuilder<'_> {
    let mut b = SdesItem::builder(it.type_, &it.value);
    for c in &it.calls {
        b = match c {
            ItemCall::Prefix(p) => b.prefix(&p[..]),
            ItemCall::IntoOwned => b.into_owned(),
        };
    }
    b
}

fn mk_chunk(ch: &Chunk) -> SdesChunkBuilder<'_> {
    let mut b = SdesChunk::builder(ch.ssrc);
    for c in &ch.calls {
        b = match c {
            ChunkCall::AddItem(it) => b.add_item(mk_item(it)),
            ChunkCall::AddItemOwned(it) => b.add_item_owned(mk_item(it)),
        };
    }
    b
}

fn mk_app<'a>(ssrc: u32, name: &'a str, calls: &'a [AppCall]) -> AppBuilder<'a> {
    let mut b = App::builder(ssrc, name);
    for c in calls {
        b = match c {
            AppCall::Probe => probed!(b),
            AppCall::Padding(n) => b.padding(*n),
            AppCall::Subtype(n) => b.subtype(*n),
            AppCall::Data(d) => b.data(d),
        };
    }
    b
}

fn mk_bye(calls: &[ByeCall]) -> ByeBuilder<'_> {
    let mut b = Bye::builder();
    for c in calls {
        b = match c {
            ByeCall::Probe => probed!(b),
            ByeCall::Padding(n) => b.padding(*n),
            ByeCall::AddSource(n) => b.add_source(*n),
            ByeCall::Reason(s) => b.reason(s.as_str()),
            ByeCall::ReasonOwned(s) => b.reason_owned(s.as_str()),
        };
    }
    b
}

fn mk_rr(ssrc: u32, calls: &[RrCall]) -> ReceiverReportBuilder {
    let mut b = ReceiverReport::builder(ssrc);
    for c in calls {
        b = match c {
            RrCall::Probe => probed!(b),
            RrCall::Padding(n) => b.padding(*n),
            RrCall::AddRb(rb) => b.add_report_block(mk_rb(rb)),
        };
    }
    b
}

fn mk_sr(ssrc: u32, calls: &[SrCall]) -> SenderReportBuilder {
    let mut b = SenderReport::builder(ssrc);
    for c in calls {
        b = match c {
            SrCall::Probe => probed!(b),
            SrCall::Padding(n) => b.padding(*n),
            SrCall::Ntp(n) => b.ntp_timestamp(*n),
            SrCall::Rtp(n) => b.rtp_timestamp(*n),
            SrCall::Pc(n) => b.packet_count(*n),
            SrCall::Oc(n) => b.octet_count(*n),
            SrCall::AddRb(rb) => b.add_report_block(mk_rb(rb)),
        };
    }
    b
}

fn mk_sdes(calls: &[SdesCall]) -> SdesBuilder<'_> {
    // `(via_default)` (first call only, checked by the request parser): `Default::default()`
    let mut b = match calls.first() {
        Some(SdesCall::ViaDefault) => SdesBuilder::default(),
        _ => Sdes::builder(),
    };
    for c in calls {
        b = match c {
            SdesCall::ViaDefault => b,
            SdesCall::Probe => probed!(b),
            SdesCall::Padding(n) => b.padding(*n),
            SdesCall::AddChunk(ch) => b.add_chunk(mk_chunk(ch)),
        };
    }
    b
}

fn mk_unknown<'a>(type_: u8, data: &'a [u8], calls: &[UnkCall]) -> UnknownBuilder<'a> {
    let mut b = Unknown::builder(type_, data);
    for c in calls {
        b = match c {
            UnkCall::Probe => probed!(b),
            UnkCall::Padding(n) => b.padding(*n),
            UnkCall::Count(n) => b.count(*n),
        };
    }
    b
}

fn mk_nack(calls: &[FciCall<u16>]) -> NackBuilder {
    let mut b = match calls.first() {
        Some(FciCall::ViaDefault) => NackBuilder::default(),
        _ => Nack::builder(),
    };
    for c in calls {
        b = match c {
            FciCall::ViaDefault => b,
            FciCall::Probe => probed!(b),
            FciCall::Add(s) => b.add_rtp_sequence(*s),
        };
    }
    b
}

fn mk_fir(calls: &[FciCall<(u32, u8)>]) -> FirBuilder {
    let mut b = match calls.first() {
        Some(FciCall::ViaDefault) => FirBuilder::default(),
        _ => Fir::builder(),
    };
    for c in calls {
        b = match c {
            FciCall::ViaDefault => b,
            FciCall::Probe => probed!(b),
            FciCall::Add((ssrc, seq)) => b.add_ssrc(*ssrc, *seq),
        };
    }
    b
}

fn mk_sli(calls: &[FciCall<(u16, u16, u8)>]) -> SliBuilder {
    let mut b = Sli::builder();
    for c in calls {
        b = match c {
            // `SliBuilder` has no `Default`: the request parser never produces this for `sli`
            FciCall::ViaDefault => b,
            FciCall::Probe => probed!(b),
            FciCall::Add((first, number, pid)) => b.add_lost_macroblock(*first, *number, *pid),
        };
    }
    b
}

/// `native_data` borrows from the AST.
fn mk_rpsi(calls: &[RpsiCall]) -> RpsiBuilder<'_> {
    let mut b = match calls.first() {
        Some(RpsiCall::ViaDefault) => RpsiBuilder::default(),
        _ => Rpsi::builder(),
    };
    for c in calls {
        b = match c {
            RpsiCall::ViaDefault => b,
            RpsiCall::Probe => probed!(b),
            RpsiCall::PayloadType(n) => b.payload_type(*n),
            RpsiCall::NativeData(d, k) => b.native_data(&d[..], *k),
            RpsiCall::NativeDataVec(d, k) => b.native_data(d.clone(), *k),
            RpsiCall::NativeDataOwned(d, k) => b.native_data_owned(&d[..], *k),
        };
    }
    b
}

/// `native_data` is given an owned `Vec<u8>`, so that the builder is `'static`.
fn mk_rpsi_static(calls: &[RpsiCall]) -> RpsiBuilder<'static> {
    let mut b: RpsiBuilder<'static> = match calls.first() {
        Some(RpsiCall::ViaDefault) => RpsiBuilder::default(),
        _ => Rpsi::builder(),
    };
    for c in calls {
        b = match c {
            RpsiCall::ViaDefault => b,
            RpsiCall::Probe => probed!(b),
            RpsiCall::PayloadType(n) => b.payload_type(*n),
            RpsiCall::NativeData(d, k) | RpsiCall::NativeDataVec(d, k) => {
                b.native_data(d.clone(), *k)
            }
            RpsiCall::NativeDataOwned(d, k) => b.native_data_owned(&d[..], *k),
        };
    }
    b
}

fn apply_tfb<'x>(
    mut b: TransportFeedbackBuilder<'x>,
    calls: &[FbCall],
) -> TransportFeedbackBuilder<'x> {
    for c in calls {
        b = match c {
            FbCall::Probe => probed!(b),
            FbCall::SenderSsrc(n) => b.sender_ssrc(*n),
            FbCall::MediaSsrc(n) => b.media_ssrc(*n),
            FbCall::Padding(n) => b.padding(*n),
        };
    }
    b
}

fn apply_pfb<'x>(mut b: PayloadFeedbackBuilder<'x>, calls: &[FbCall]) -> PayloadFeedbackBuilder<'x> {
    for c in calls {
        b = match c {
            FbCall::Probe => probed!(b),
            FbCall::SenderSsrc(n) => b.sender_ssrc(*n),
            FbCall::MediaSsrc(n) => b.media_ssrc(*n),
            FbCall::Padding(n) => b.padding(*n),
        };
    }
    b
}

// ---------------------------------------------------------------------------------------------
// borrowed FCI builders must outlive the feedback builders referring to them: they are all built
// up front (depth first, in request order) into an arena which is then only borrowed.

pub enum FciB<'a> {
    Nack(NackBuilder),
    Fir(FirBuilder),
    Sli(SliBuilder),
    Rpsi(RpsiBuilder<'a>),
    Pli(PliBuilder),
}

impl<'a> FciB<'a> {
    fn new(f: &'a Fci) -> FciB<'a> {
        match f {
            Fci::Nack(v) => FciB::Nack(mk_nack(v)),
            Fci::Fir(v) => FciB::Fir(mk_fir(v)),
            Fci::Sli(v) => FciB::Sli(mk_sli(v)),
            Fci::Rpsi(v) => FciB::Rpsi(mk_rpsi(v)),
            Fci::Pli => FciB::Pli(Pli::builder()),
        }
    }

    fn as_dyn(&'a self) -> &'a dyn FciBuilder<'a> {
        match self {
            FciB::Nack(b) => b,
            FciB::Fir(b) => b,
            FciB::Sli(b) => b,
            FciB::Rpsi(b) => b,
            FciB::Pli(b) => b,
        }
    }
}

fn collect_fcis<'a>(b: &'a B, arena: &mut Vec<FciB<'a>>) {
    match b {
        B::Fb {
            owned: false, fci, ..
        } => arena.push(FciB::new(fci)),
        B::Pb(inner) => collect_fcis(inner, arena),
        B::Compound(members) => {
            for m in members {
                if let Member::Packet(m) = m {
                    collect_fcis(m, arena);
                }
            }
        }
        _ => {}
    }
}

struct Ctx<'r> {
    arena: &'r [FciB<'r>],
    next: Cell<usize>,
}

impl<'r> Ctx<'r> {
    fn next_fci(&self) -> &'r dyn FciBuilder<'r> {
        let i = self.next.get();
        self.next.set(i + 1);
        self.arena[i].as_dyn()
    }
}

// ---------------------------------------------------------------------------------------------
// visitors

/// Receives the concrete builder of a whole packet.
trait Visitor<'r>: Sized {
    type Out;
    fn visit<T: Concrete + 'r>(self, t: T) -> Self::Out;
}

/// One of the eight builders `PacketBuilder` can be made `from`.
trait Basic<'r>: Concrete + 'r {
    type Pb: Concrete + 'r;
    fn into_pb(self) -> Self::Pb;
}

macro_rules! impl_basic {
    ($t:ident) => {
        impl<'r, 'x: 'r> Basic<'r> for $t<'x> {
            type Pb = PacketBuilder<'x>;
            fn into_pb(self) -> PacketBuilder<'x> {
                PacketBuilder::from(self)
            }
        }
    };
}

impl_basic!(AppBuilder);
impl_basic!(ByeBuilder);
impl_basic!(SdesBuilder);
impl_basic!(UnknownBuilder);
impl_basic!(TransportFeedbackBuilder);
impl_basic!(PayloadFeedbackBuilder);

impl<'r> Basic<'r> for ReceiverReportBuilder {
    type Pb = PacketBuilder<'r>;
    fn into_pb(self) -> PacketBuilder<'r> {
        PacketBuilder::from(self)
    }
}

impl<'r> Basic<'r> for SenderReportBuilder {
    type Pb = PacketBuilder<'r>;
    fn into_pb(self) -> PacketBuilder<'r> {
        PacketBuilder::from(self)
    }
}

trait BasicVisitor<'r>: Sized {
    type Out;
    fn visit_basic<T: Basic<'r>>(self, t: T) -> Self::Out;
}

/// Passes the builder on as it is.
struct Plain<V>(V);

impl<'r, V: Visitor<'r>> BasicVisitor<'r> for Plain<V> {
    type Out = V::Out;
    fn visit_basic<T: Basic<'r>>(self, t: T) -> V::Out {
        self.0.visit(t)
    }
}

/// `(pb BUILDER)`: passes on `PacketBuilder::from(builder)`.
struct AsPb<V>(V);

impl<'r, V: Visitor<'r>> BasicVisitor<'r> for AsPb<V> {
    type Out = V::Out;
    fn visit_basic<T: Basic<'r>>(self, t: T) -> V::Out {
        self.0.visit(t.into_pb())
    }
}

/// `add_packet(member)` on a compound builder.
struct AddTo<'r>(rtcp_types::CompoundBuilder<'r>);

impl<'r> Visitor<'r> for AddTo<'r> {
    type Out = rtcp_types::CompoundBuilder<'r>;
    fn visit<T: Concrete + 'r>(self, t: T) -> Self::Out {
        self.0.add_packet(t)
    }
}

fn build_basic<'r, V: BasicVisitor<'r>>(b: &'r B, ctx: &Ctx<'r>, v: V) -> V::Out {
    match b {
        B::App { ssrc, name, calls } => v.visit_basic(mk_app(*ssrc, name, calls)),
        B::Bye { calls } => v.visit_basic(mk_bye(calls)),
        B::Rr { ssrc, calls } => v.visit_basic(mk_rr(*ssrc, calls)),
        B::Sr { ssrc, calls } => v.visit_basic(mk_sr(*ssrc, calls)),
        B::Sdes { calls } => v.visit_basic(mk_sdes(calls)),
        B::Unknown { type_, data, calls } => v.visit_basic(mk_unknown(*type_, data, calls)),
        B::Fb {
            transport,
            owned: false,
            calls,
            ..
        } => {
            let fci = ctx.next_fci();
            if *transport {
                v.visit_basic(apply_tfb(TransportFeedback::builder(fci), calls))
            } else {
                v.visit_basic(apply_pfb(PayloadFeedback::builder(fci), calls))
            }
        }
        B::Fb {
            transport,
            owned: true,
            fci,
            calls,
        } => {
            macro_rules! owned {
                ($fci:expr) => {{
                    let fci = $fci;
                    if *transport {
                        v.visit_basic(apply_tfb(TransportFeedback::builder_owned(fci), calls))
                    } else {
                        v.visit_basic(apply_pfb(PayloadFeedback::builder_owned(fci), calls))
                    }
                }};
            }
            match fci {
                Fci::Nack(e) => owned!(mk_nack(e)),
                Fci::Fir(e) => owned!(mk_fir(e)),
                Fci::Sli(e) => owned!(mk_sli(e)),
                Fci::Rpsi(c) => owned!(mk_rpsi_static(c)),
                Fci::Pli => owned!(Pli::builder()),
            }
        }
        _ => unreachable!("not a basic builder"),
    }
}

/// The builder of one third-party family (`custom_visit`: `Custom`, `custom16_visit`:
/// `Custom16`), expanded once per family so that `probed!` sees a local of the concrete type.
macro_rules! custom_visit_fn {
    ($name:ident, $View:ident) => {
        fn $name<'r, const PT: u8, const MIN: usize, V: Visitor<'r>>(
            v: V,
            body: &'r [u8],
            calls: &[CustomCall],
        ) -> V::Out {
            let mut b = $View::<PT, MIN>::builder(body);
            for c in calls {
                b = match c {
                    CustomCall::Probe => probed!(b),
                    CustomCall::Padding(p) => b.padding(*p),
                    CustomCall::PadStyleSome0 => b.pad_style_some0(),
                    CustomCall::Count(n) => b.count(*n),
                };
            }
            v.visit(b)
        }
    };
}

custom_visit_fn!(custom_visit, Custom);
custom_visit_fn!(custom16_visit, Custom16);

/// `(unit PT)`: every one of them is the same zero-sized value.
fn unit_visit<'r, const PT: u8, V: Visitor<'r>>(v: V) -> V::Out {
    v.visit(UnitPkt::<PT>)
}

fn build_with<'r, V: Visitor<'r>>(b: &'r B, ctx: &Ctx<'r>, v: V) -> V::Out {
    match b {
        B::Pb(inner) => build_basic(inner, ctx, AsPb(v)),
        B::Compound(members) => {
            let mut cb = match members.first() {
                Some(Member::ViaDefault) => rtcp_types::CompoundBuilder::default(),
                _ => Compound::builder(),
            };
            for m in members {
                cb = match m {
                    Member::ViaDefault => cb,
                    Member::Probe => probed!(cb),
                    Member::Packet(m) => build_with(m, ctx, AddTo(cb)),
                };
            }
            v.visit(cb)
        }
        B::Custom {
            fam: Fam::Custom,
            pt,
            min,
            body,
            calls,
        } => crate::with_grid!(*pt, *min, custom_visit, [V], (v, body, calls)),
        B::Custom {
            fam: Fam::Custom16,
            pt,
            min,
            body,
            calls,
        } => crate::with_grid!(*pt, *min, custom16_visit, [V], (v, body, calls)),
        B::Unit { pt } => crate::with_grid_pt!(*pt, unit_visit, [V], (v)),
        B::Fci(f) => match f {
            Fci::Nack(e) => v.visit(mk_nack(e)),
            Fci::Fir(e) => v.visit(mk_fir(e)),
            Fci::Sli(e) => v.visit(mk_sli(e)),
            Fci::Rpsi(c) => v.visit(mk_rpsi(c)),
            Fci::Pli => v.visit(Pli::builder()),
        },
        B::Chunk(_) | B::Item(_) => unreachable!("not an RtcpPacketWriter"),
        _ => build_basic(b, ctx, Plain(v)),
    }
}

// ---------------------------------------------------------------------------------------------
// the `build` request

pub fn make_buf(len: usize, fill: Fill) -> Vec<u8> {
    match fill {
        Fill::Const(b) => vec![b; len],
        Fill::Pat => (0..len).map(|i| (i * 31 + 7) as u8).collect(),
    }
}

/// Fills `buf` as FILL says.
fn fill_buf(buf: &mut [u8], fill: Fill) {
    match fill {
        Fill::Const(b) => buf.fill(b),
        Fill::Pat => {
            for (i, x) in buf.iter_mut().enumerate() {
                *x = (i * 31 + 7) as u8;
            }
        }
    }
}

/// A `write_into` of the request's builder, as a closure created where the builder has its
/// concrete type.
type WriteFn<'f> = &'f dyn Fn(&mut [u8]) -> Result<usize, RtcpWriteError>;

/// The `w<j>.*` keys. Every `(N FILL)` buffer is the prefix `tx[..N]` of the long-lived output
/// buffer (PROTOCOL.md §7), filled with FILL: every write of every request goes to the same
/// address. `write` is the concrete-type call `b.write_into(buf)`. After a successful write the
/// same builder object writes the same (corrupted) slice a second time: `w<j>.rewrite_same`.
/// Then, unless the first write panicked, `write_trait` (the trait path
/// `RtcpPacketWriterExt::write_into(&b, ..)`; `None` for chunk / item builders, whose
/// `write_into` is inherent only) writes a fresh copy of the buffer as it was BEFORE the first
/// write: `w<j>.trait_same`.
fn write_keys(
    out: &mut Out,
    tx: &mut Long,
    bufs: &[(usize, Fill)],
    write: WriteFn,
    write_trait: Option<WriteFn>,
) {
    for (j, (len, fill)) in bufs.iter().enumerate() {
        let buf = tx.prefix(*len);
        fill_buf(buf, *fill);
        let r = guard(|| write(&mut *buf));
        out.kv("", &format!("w{j}.res"), &wres(&r));
        if r.is_none() {
            continue;
        }
        out.kv("", &format!("w{j}.buf"), &hex(buf));
        // what the concrete-type call left in the buffer
        let first = buf.to_vec();
        if let Some(Ok(n)) = r {
            let verdict = rewrite_same(buf, &first, n, write);
            out.kv("", &format!("w{j}.rewrite_same"), &verdict);
        }
        if let Some(write_trait) = write_trait {
            let verdict = trait_same(*len, *fill, &r, &first, write_trait);
            out.kv("", &format!("w{j}.trait_same"), &verdict);
        }
    }
}

/// `i` / `none`: the index of the first byte in which two buffers of equal length differ.
fn first_diff(a: &[u8], b: &[u8]) -> Option<usize> {
    a.iter().zip(b.iter()).position(|(x, y)| x != y)
}

fn diff_str(d: Option<usize>) -> String {
    match d {
        Some(i) => i.to_string(),
        None => "none".to_string(),
    }
}

/// `w<j>.rewrite_same` (PROTOCOL.md §4.3): `buf` holds what a first `write_into` returning
/// `Ok(n)` left in it (`first` is a copy of that). Bytes `[8..n)` are flipped in place and the
/// same builder object writes the same slice again: it has to return `Ok(n)` and to leave the
/// same bytes as the first time (a writer that believes the buffer "already holds the packet"
/// does not).
fn rewrite_same(buf: &mut [u8], first: &[u8], n: usize, write: WriteFn) -> String {
    let end = n.min(buf.len());
    if end > 8 {
        for x in &mut buf[8..end] {
            *x ^= 0xff;
        }
    }
    let r = guard(|| write(&mut *buf));
    let diff = first_diff(first, buf);
    match (&r, diff) {
        (Some(Ok(m)), None) if *m == n => "true".to_string(),
        _ => format!("false:{}:{}", wres(&r), diff_str(diff)),
    }
}

/// `w<j>.trait_same` (PROTOCOL.md §4.3): the write the concrete-type call `b.write_into(buf)`
/// made (result `concrete`, buffer afterwards `first`) is repeated through the trait path,
/// `RtcpPacketWriterExt::write_into(&b, &mut copy)`, on a fresh copy of the ORIGINAL buffer
/// contents (`len` bytes filled as `fill`, in a `Vec` of its own): result and resulting buffer
/// have to be the same. An inherent `write_into` that shadows the trait method on the concrete
/// type and does something else shows up here (and in the keys of the concrete-type call).
fn trait_same(
    len: usize,
    fill: Fill,
    concrete: &Option<Result<usize, RtcpWriteError>>,
    first: &[u8],
    write_trait: WriteFn,
) -> String {
    let mut copy = make_buf(len, fill);
    let r = guard(|| write_trait(&mut copy));
    let diff = first_diff(first, &copy);
    if r == *concrete && diff.is_none() {
        "true".to_string()
    } else {
        format!("false:{}:{}", wres(&r), diff_str(diff))
    }
}

/// Runs the protocol of §4.3 on the top-level builder.
struct Run<'o> {
    out: &'o mut Out,
    io: &'o mut Bufs,
    bufs: &'o [(usize, Fill)],
    rt: Option<Kind>,
    size_only: bool,
    /// `(rt_first)`: the round trip is made before the `bufs` writes
    rt_first: bool,
}

impl<'r, 'o> Visitor<'r> for Run<'o> {
    type Out = ();

    fn visit<T: Concrete + 'r>(self, t: T) {
        // every call below goes through `Concrete`: method-call syntax on the concrete type
        self.run(&t)
    }
}

impl<'o> Run<'o> {
    fn run(self, t: &dyn Concrete) {
        let out = self.out;
        let size = guard(|| t.c_size());
        out.kv("", "size", &wres(&size));
        let getpad = match guard(|| t.c_getpad()) {
            Some(p) => opt_pad(p),
            None => "panic".to_string(),
        };
        out.kv("", "getpad", &getpad);
        // the same size query through the trait path
        let size_trait = guard(|| t.t_size());
        let same = if size_trait == size {
            "true".to_string()
        } else {
            format!("false:{}", wres(&size_trait))
        };
        out.kv("", "size_trait_same", &same);
        if self.size_only {
            return;
        }

        let Bufs { rx, tx, .. } = self.io;
        let write: WriteFn = &|buf| t.c_write(buf);
        let write_trait: WriteFn = &|buf| t.t_write(buf);
        if self.rt_first {
            // the keys are the same; the last `write_into` of the request is then the one into
            // the last `bufs` entry
            let mut rt = Out::new();
            round_trip(&mut rt, rx, tx, self.rt, &size, write);
            write_keys(out, tx, self.bufs, write, Some(write_trait));
            out.buf.push_str(&rt.buf);
        } else {
            write_keys(out, tx, self.bufs, write, Some(write_trait));
            round_trip(out, rx, tx, self.rt, &size, write);
        }
    }
}

/// The `rt.*` keys (PROTOCOL.md §4.3). The round trip writes to the long-lived output buffer as
/// well (`write`: the concrete-type call `b.write_into(buf)`); what it wrote is received like
/// every other parser input: copied to the start of the receive buffer.
fn round_trip(
    out: &mut Out,
    rx: &mut Long,
    tx: &mut Long,
    rt: Option<Kind>,
    size: &Option<Result<usize, RtcpWriteError>>,
    write: WriteFn,
) {
    let (Some(kind), Some(Ok(n))) = (rt, size) else {
        return;
    };
    let buf = tx.prefix(*n);
    buf.fill(0xa5);
    match guard(|| write(&mut *buf)) {
        None => out.kv("rt", "res", "panic-write"),
        Some(Err(e)) => out.kv("rt", "res", &format!("write-err:{}", werr(&e))),
        Some(Ok(m)) => match buf.get(..m) {
            Some(written) => dump_kind_again(out, "rt", kind, rx.load(written)),
            None => out.kv("rt", "res", &format!("bad-len:{m}")),
        },
    }
}

/// Hands the concrete builder on as a `dyn Concrete` (its vtable leads to the per-type bodies
/// of `impl_concrete!`: method-call syntax on the crate's own type).
struct WithDyn<'f, 'r>(&'f mut dyn FnMut(&(dyn Concrete + 'r)));

impl<'f, 'r> Visitor<'r> for WithDyn<'f, 'r> {
    type Out = ();
    fn visit<T: Concrete + 'r>(self, t: T) {
        (self.0)(&t)
    }
}

fn usize_res(r: &Option<usize>) -> String {
    match r {
        Some(n) => format!("ok:{n}"),
        None => "panic".to_string(),
    }
}

/// `(interleave A B)` (PROTOCOL.md §4.5): both builders exist before anything is asked of them;
/// `a.calculate_size()`, `b.calculate_size()`, then `a.write_into_unchecked(bufA)`,
/// `b.write_into_unchecked(bufB)` with nothing in between, on two disjoint regions of the
/// long-lived output buffer (all four with method-call syntax on the concrete builder types:
/// `Concrete`).
pub fn run_interleave(out: &mut Out, io: &mut Bufs, a: &B, b: &B) {
    let mut arena = Vec::new();
    collect_fcis(a, &mut arena);
    collect_fcis(b, &mut arena);
    let ctx = Ctx {
        arena: &arena,
        next: Cell::new(0),
    };
    let tx = &mut io.tx;
    build_with(
        a,
        &ctx,
        WithDyn(&mut |ta| {
            build_with(b, &ctx, WithDyn(&mut |tb| interleave(out, tx, ta, tb)));
        }),
    );
}

fn interleave(out: &mut Out, tx: &mut Long, a: &dyn Concrete, b: &dyn Concrete) {
    let sa = guard(|| a.c_size());
    let sb = guard(|| b.c_size());
    out.kv("a", "size", &wres(&sa));
    out.kv("b", "size", &wres(&sb));
    let (Some(Ok(na)), Some(Ok(nb))) = (sa, sb) else {
        return;
    };
    let both = tx.prefix(na + nb);
    both.fill(0xee);
    let (buf_a, buf_b) = both.split_at_mut(na);
    let ra = guard(|| a.c_unchecked(&mut *buf_a));
    let rb = guard(|| b.c_unchecked(&mut *buf_b));
    out.kv("a", "res", &usize_res(&ra));
    if ra.is_some() {
        out.kv("a", "buf", &hex(buf_a));
    }
    out.kv("b", "res", &usize_res(&rb));
    if rb.is_some() {
        out.kv("b", "buf", &hex(buf_b));
    }
}

pub fn run_size(out: &mut Out, io: &mut Bufs, b: &B) {
    run_build_opt(out, io, b, &[], true, false)
}

pub fn run_build(out: &mut Out, io: &mut Bufs, b: &B, bufs: &[(usize, Fill)], rt_first: bool) {
    run_build_opt(out, io, b, bufs, false, rt_first)
}

fn run_build_opt(
    out: &mut Out,
    io: &mut Bufs,
    b: &B,
    bufs: &[(usize, Fill)],
    size_only: bool,
    rt_first: bool,
) {
    match b {
        // not `RtcpPacketWriter`s: only the inherent `write_into` is public
        B::Chunk(ch) => {
            let cb = mk_chunk(ch);
            write_keys(out, &mut io.tx, bufs, &|buf| cb.write_into(buf), None);
        }
        B::Item(it) => {
            let ib = mk_item(it);
            write_keys(out, &mut io.tx, bufs, &|buf| ib.write_into(buf), None);
        }
        _ => {
            let mut arena = Vec::new();
            collect_fcis(b, &mut arena);
            let ctx = Ctx {
                arena: &arena,
                next: Cell::new(0),
            };
            build_with(
                b,
                &ctx,
                Run {
                    out,
                    io,
                    bufs,
                    rt: b.rt_kind(),
                    size_only,
                    rt_first,
                },
            );
        }
    }
}
