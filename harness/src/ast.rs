//! Owned request AST (PROTOCOL.md §4). Everything a builder later borrows lives here.

use crate::sexp::Sexp;

/// `bad-request=<reason>`
pub type Bad = &'static str;

pub const CUSTOM_PTS: [u64; 9] = [0, 192, 199, 200, 204, 207, 208, 242, 255];
pub const CUSTOM_MINS: [u64; 6] = [4, 6, 8, 12, 13, 20];

/// Which of the two third-party families (PROTOCOL.md §6): `custom` leaves `RtcpPacket::MAX_COUNT`
/// at the trait's default (0x1f), `custom16` overrides it with 16.
#[derive(Debug, Clone, Copy, PartialEq, Eq)]
pub enum Fam {
    Custom,
    Custom16,
}

impl Fam {
    /// The family a list head (`custom` / `custom16`) names.
    pub fn of_head(head: &str) -> Option<Fam> {
        match head {
            "custom" => Some(Fam::Custom),
            "custom16" => Some(Fam::Custom16),
            _ => None,
        }
    }
}

#[derive(Debug, Clone, Copy, PartialEq, Eq)]
pub enum Kind {
    App,
    Bye,
    Rr,
    Sr,
    Sdes,
    Tfb,
    Pfb,
    Unknown,
    Packet,
    Compound,
    Rb,
    Nack,
    Fir,
    Sli,
    Rpsi,
    Pli,
    /// `(custom PT MIN)` / `(custom16 PT MIN)`
    Custom(Fam, u8, usize),
}

#[derive(Debug, Clone, Copy)]
pub enum Fill {
    Const(u8),
    Pat,
}

#[derive(Debug)]
pub enum Request {
    Parse(Kind, Vec<u8>),
    Pad(Kind, Vec<u8>, u8),
    /// builder, buffer specs, `(rt_first)`: the round trip before the `bufs` writes
    Build(B, Vec<(usize, Fill)>, bool),
    /// `(interleave A B)`: two whole-packet builders alive at the same time
    Interleave(B, B),
    /// only `calculate_size()` and `get_padding()`
    Size(B),
    Helper(Helper),
}

/// `(helper NAME ARGS...)`: a direct call of one of the crate's public `utils` helpers.
#[derive(Debug)]
pub enum Helper {
    WriteHeader {
        /// the `P` of `write_header_unchecked::<P>`: `Custom<PT, MIN>` / `Custom16<PT, MIN>`
        fam: Fam,
        pt: u8,
        min: usize,
        padding: u8,
        count: u8,
        len: usize,
        fill: Fill,
    },
    WritePadding {
        padding: u8,
        len: usize,
        fill: Fill,
    },
    CheckPadding(u8),
    ParseFields(Vec<u8>),
}

/// Largest LEN of a helper buffer.
pub const HELPER_MAX_LEN: u64 = 1 << 20;

#[derive(Debug)]
pub enum AppCall {
    Probe,
    Padding(u8),
    Subtype(u8),
    Data(Vec<u8>),
}

#[derive(Debug)]
pub enum ByeCall {
    Probe,
    Padding(u8),
    AddSource(u32),
    Reason(String),
    ReasonOwned(String),
}

#[derive(Debug)]
pub enum RbCall {
    Fl(u8),
    Cl(u32),
    Esn(u32),
    Jit(u32),
    Lsr(u32),
    Dlsr(u32),
}

#[derive(Debug)]
pub struct Rb {
    pub ssrc: u32,
    pub calls: Vec<RbCall>,
}

#[derive(Debug)]
pub enum RrCall {
    Probe,
    Padding(u8),
    AddRb(Rb),
}

#[derive(Debug)]
pub enum SrCall {
    Probe,
    Padding(u8),
    Ntp(u64),
    Rtp(u32),
    Pc(u32),
    Oc(u32),
    AddRb(Rb),
}

#[derive(Debug)]
pub enum ItemCall {
    Prefix(Vec<u8>),
    IntoOwned,
}

#[derive(Debug)]
pub struct Item {
    pub type_: u8,
    pub value: String,
    pub calls: Vec<ItemCall>,
}

#[derive(Debug)]
pub enum ChunkCall {
    AddItem(Item),
    AddItemOwned(Item),
}

#[derive(Debug)]
pub struct Chunk {
    pub ssrc: u32,
    pub calls: Vec<ChunkCall>,
}

#[derive(Debug)]
pub enum SdesCall {
    /// `(via_default)`, first call only: the builder is `SdesBuilder::default()`
    ViaDefault,
    Probe,
    Padding(u8),
    AddChunk(Chunk),
}

#[derive(Debug)]
pub enum UnkCall {
    Probe,
    Padding(u8),
    Count(u8),
}

#[derive(Debug)]
pub enum FbCall {
    Probe,
    SenderSsrc(u32),
    MediaSsrc(u32),
    Padding(u8),
}

#[derive(Debug)]
pub enum RpsiCall {
    /// `(via_default)`, first call only: the builder is `RpsiBuilder::default()`
    ViaDefault,
    Probe,
    PayloadType(u8),
    /// `native_data(&[u8], k)` (`Cow::Borrowed`)
    NativeData(Vec<u8>, u8),
    /// `native_data(Vec<u8>, k)` (`Cow::Owned`)
    NativeDataVec(Vec<u8>, u8),
    NativeDataOwned(Vec<u8>, u8),
}

/// An FCALL of `nack` / `fir` / `sli`: the single adder of that builder, or `(probe)`.
#[derive(Debug)]
pub enum FciCall<T> {
    Add(T),
    Probe,
    /// `(via_default)`, first call only (`nack`, `fir`; never `sli`): the builder is
    /// `NackBuilder::default()` / `FirBuilder::default()`
    ViaDefault,
}

#[derive(Debug)]
pub enum Fci {
    Nack(Vec<FciCall<u16>>),
    Fir(Vec<FciCall<(u32, u8)>>),
    Sli(Vec<FciCall<(u16, u16, u8)>>),
    Rpsi(Vec<RpsiCall>),
    Pli,
}

/// A CALL of the third-party builder `(custom ...)`.
#[derive(Debug)]
pub enum CustomCall {
    Probe,
    Padding(u8),
    /// `(pad_style some0)`: `get_padding()` returns `Some(0)` instead of `None` for padding 0
    PadStyleSome0,
    /// `(count N)`, N in 0..=31: the count the writer passes to `write_header_unchecked`
    Count(u8),
}

/// An element of `(compound ...)`.
#[derive(Debug)]
pub enum Member {
    Packet(B),
    /// `(probe)` on the `CompoundBuilder` holding the members added so far
    Probe,
    /// `(via_default)`, first element only: the builder is `CompoundBuilder::default()`
    ViaDefault,
}

/// A builder: constructor plus the calls made on it, in order.
#[derive(Debug)]
pub enum B {
    App {
        ssrc: u32,
        name: String,
        calls: Vec<AppCall>,
    },
    Bye {
        calls: Vec<ByeCall>,
    },
    Rr {
        ssrc: u32,
        calls: Vec<RrCall>,
    },
    Sr {
        ssrc: u32,
        calls: Vec<SrCall>,
    },
    Sdes {
        calls: Vec<SdesCall>,
    },
    Unknown {
        type_: u8,
        data: Vec<u8>,
        calls: Vec<UnkCall>,
    },
    Fb {
        transport: bool,
        owned: bool,
        fci: Fci,
        calls: Vec<FbCall>,
    },
    Pb(Box<B>),
    Compound(Vec<Member>),
    Custom {
        fam: Fam,
        pt: u8,
        min: usize,
        body: Vec<u8>,
        calls: Vec<CustomCall>,
    },
    /// `(unit PT)`: the zero-sized third-party writer `UnitPkt<PT>`
    Unit {
        pt: u8,
    },
    Chunk(Chunk),
    Item(Item),
    Fci(Fci),
}

impl B {
    /// One of the eight builders that convert into a `PacketBuilder`.
    pub fn is_basic(&self) -> bool {
        matches!(
            self,
            B::App { .. }
                | B::Bye { .. }
                | B::Rr { .. }
                | B::Sr { .. }
                | B::Sdes { .. }
                | B::Unknown { .. }
                | B::Fb { .. }
        )
    }

    /// A whole packet, usable as a compound member.
    pub fn is_member(&self) -> bool {
        self.is_basic()
            || matches!(
                self,
                B::Pb(_) | B::Compound(_) | B::Custom { .. } | B::Unit { .. }
            )
    }

    /// The parser used for the round trip, `None` when there is no round trip.
    pub fn rt_kind(&self) -> Option<Kind> {
        Some(match self {
            B::App { .. } => Kind::App,
            B::Bye { .. } => Kind::Bye,
            B::Rr { .. } => Kind::Rr,
            B::Sr { .. } => Kind::Sr,
            B::Sdes { .. } => Kind::Sdes,
            B::Unknown { .. } => Kind::Packet,
            B::Fb { transport, .. } => {
                if *transport {
                    Kind::Tfb
                } else {
                    Kind::Pfb
                }
            }
            B::Pb(inner) => return inner.rt_kind(),
            B::Compound(_) => Kind::Compound,
            B::Custom { fam, pt, min, .. } => Kind::Custom(*fam, *pt, *min),
            // what it writes reads back as `(custom PT 8)`
            B::Unit { pt } => Kind::Custom(Fam::Custom, *pt, 8),
            B::Chunk(_) | B::Item(_) | B::Fci(_) => return None,
        })
    }
}

// ---------------------------------------------------------------------------------------------
// lexical helpers

fn is_lower_hex(c: u8) -> bool {
    matches!(c, b'0'..=b'9' | b'a'..=b'f')
}

fn hex_val(c: u8) -> u8 {
    match c {
        b'0'..=b'9' => c - b'0',
        _ => c - b'a' + 10,
    }
}

fn hex_atom(s: &str, out: &mut Vec<u8>) -> Result<(), Bad> {
    let b = s.as_bytes();
    if b.is_empty() || b.len() % 2 != 0 || !b.iter().all(|c| is_lower_hex(*c)) {
        return Err("bytes");
    }
    out.reserve(b.len() / 2);
    for p in b.chunks_exact(2) {
        out.push(hex_val(p[0]) << 4 | hex_val(p[1]));
    }
    Ok(())
}

pub fn num(s: &Sexp) -> Result<u64, Bad> {
    let a = s.atom().ok_or("num")?;
    if a.is_empty() || !a.bytes().all(|c| c.is_ascii_digit()) {
        return Err("num");
    }
    a.parse::<u64>().map_err(|_| "num")
}

fn bytes_into(s: &Sexp, out: &mut Vec<u8>) -> Result<(), Bad> {
    match s {
        Sexp::Atom(a) => {
            if a == "-" {
                Ok(())
            } else {
                hex_atom(a, out)
            }
        }
        Sexp::List(_) => {
            let (head, args) = s.call().ok_or("bytes")?;
            match head {
                "rep" => {
                    if args.len() != 2 {
                        return Err("bytes");
                    }
                    let mut one = Vec::new();
                    hex_atom(args[0].atom().ok_or("bytes")?, &mut one)?;
                    if one.len() != 1 {
                        return Err("bytes");
                    }
                    let n = num(&args[1])? as usize;
                    let new_len = out.len().checked_add(n).ok_or("bytes")?;
                    out.resize(new_len, one[0]);
                    Ok(())
                }
                "cat" => {
                    for a in args {
                        bytes_into(a, out)?;
                    }
                    Ok(())
                }
                _ => Err("bytes"),
            }
        }
    }
}

pub fn bytes(s: &Sexp) -> Result<Vec<u8>, Bad> {
    let mut out = Vec::new();
    bytes_into(s, &mut out)?;
    Ok(out)
}

fn string(s: &Sexp) -> Result<String, Bad> {
    String::from_utf8(bytes(s)?).map_err(|_| "utf8")
}

fn arity(args: &[Sexp], n: usize) -> Result<(), Bad> {
    if args.len() == n {
        Ok(())
    } else {
        Err("arity")
    }
}

/// `(name N)` helper: exactly one numeric argument.
fn one_num(args: &[Sexp]) -> Result<u64, Bad> {
    arity(args, 1)?;
    num(&args[0])
}

/// `(probe)`: the pseudo-call, no arguments.
fn is_probe(h: &str, a: &[Sexp]) -> Result<bool, Bad> {
    if h == "probe" {
        arity(a, 0)?;
        Ok(true)
    } else {
        Ok(false)
    }
}

/// `(via_default)` in the position where the pre-scan `via_default_ok` allows it.
fn is_via_default(s: &Sexp) -> bool {
    matches!(s.call(), Some(("via_default", [])))
}

/// The builders whose Rust type implements `Default` publicly (`NackBuilder`, `FirBuilder`,
/// `RpsiBuilder`, `SdesBuilder`, `CompoundBuilder`): `(via_default)` may be their first CALL.
const VIA_DEFAULT_HEADS: [&str; 5] = ["nack", "fir", "rpsi", "sdes", "compound"];

/// PROTOCOL.md §4.3, `(via_default)`: every list headed by the atom `via_default` has to be
/// exactly `(via_default)` and the first element after the head of a `nack` / `fir` / `rpsi` /
/// `sdes` / `compound` list. (Iterative: requests nest deeply.)
pub fn via_default_ok(root: &Sexp) -> bool {
    let mut todo = vec![root];
    while let Some(s) = todo.pop() {
        let Some(l) = s.list() else { continue };
        let mut args = l;
        if let Some((head, rest)) = s.call() {
            if head == "via_default" {
                // an occurrence nobody skipped: not in an allowed position
                return false;
            }
            args = rest;
            if VIA_DEFAULT_HEADS.contains(&head) && args.first().is_some_and(is_via_default) {
                args = &args[1..];
            }
        }
        todo.extend(args.iter());
    }
    true
}

fn custom_grid(pt: &Sexp, min: &Sexp) -> Result<(u8, usize), Bad> {
    let pt = num(pt)?;
    let min = num(min)?;
    if !CUSTOM_PTS.contains(&pt) || !CUSTOM_MINS.contains(&min) {
        return Err("custom-grid");
    }
    Ok((pt as u8, min as usize))
}

/// `(custom PT MIN)` / `(custom16 PT MIN)`: `None` for anything else, `Err` off the grid.
fn custom_kind(s: &Sexp) -> Option<Result<(Fam, u8, usize), Bad>> {
    let (head, args) = s.call()?;
    let fam = Fam::of_head(head)?;
    if args.len() != 2 {
        return None;
    }
    Some(custom_grid(&args[0], &args[1]).map(|(pt, min)| (fam, pt, min)))
}

// ---------------------------------------------------------------------------------------------
// requests

pub fn kind(s: &Sexp) -> Result<Kind, Bad> {
    match s {
        Sexp::Atom(a) => Ok(match a.as_str() {
            "app" => Kind::App,
            "bye" => Kind::Bye,
            "rr" => Kind::Rr,
            "sr" => Kind::Sr,
            "sdes" => Kind::Sdes,
            "tfb" => Kind::Tfb,
            "pfb" => Kind::Pfb,
            "unknown" => Kind::Unknown,
            "packet" => Kind::Packet,
            "compound" => Kind::Compound,
            "rb" => Kind::Rb,
            "nack" => Kind::Nack,
            "fir" => Kind::Fir,
            "sli" => Kind::Sli,
            "rpsi" => Kind::Rpsi,
            "pli" => Kind::Pli,
            _ => return Err("kind"),
        }),
        Sexp::List(_) => {
            let (fam, pt, min) = custom_kind(s).ok_or("kind")??;
            Ok(Kind::Custom(fam, pt, min))
        }
    }
}

/// FILL of a buffer spec: `HH` or `pat`.
fn fill(s: &Sexp) -> Result<Fill, Bad> {
    let f = s.atom().ok_or("bufs")?;
    if f == "pat" {
        return Ok(Fill::Pat);
    }
    let mut one = Vec::new();
    hex_atom(f, &mut one).map_err(|_| "bufs")?;
    if one.len() != 1 {
        return Err("bufs");
    }
    Ok(Fill::Const(one[0]))
}

/// `(helper NAME ARGS...)` (PROTOCOL.md §4.4). Every malformed form is `helper-args`.
fn helper(args: &[Sexp]) -> Result<Helper, Bad> {
    const BAD: Bad = "helper-args";
    let (name, a) = args.split_first().ok_or(BAD)?;
    let name = name.atom().ok_or(BAD)?;
    let n = |i: usize| -> Result<u64, Bad> { num(a.get(i).ok_or(BAD)?).map_err(|_| BAD) };
    let len_fill = |i: usize| -> Result<(usize, Fill), Bad> {
        let len = n(i)?;
        if len > HELPER_MAX_LEN {
            return Err(BAD);
        }
        let f = fill(a.get(i + 1).ok_or(BAD)?).map_err(|_| BAD)?;
        Ok((len as usize, f))
    };
    let want = |k: usize| if a.len() == k { Ok(()) } else { Err(BAD) };
    match name {
        "write_header" => {
            want(5)?;
            let (padding, count) = (n(1)?, n(2)?);
            let (len, fill) = len_fill(3)?;
            // P: a bare PT is `Custom<PT, 4>`; `(custom PT MIN)` / `(custom16 PT MIN)` name the
            // third-party type itself
            let (fam, pt, min) = match &a[0] {
                Sexp::Atom(_) => {
                    let pt = n(0)?;
                    if !CUSTOM_PTS.contains(&pt) {
                        return Err("custom-grid");
                    }
                    (Fam::Custom, pt as u8, 4)
                }
                k => custom_kind(k).ok_or(BAD)?.map_err(|e| if e == "custom-grid" { e } else { BAD })?,
            };
            Ok(Helper::WriteHeader {
                fam,
                pt,
                min,
                padding: padding as u8,
                count: count as u8,
                len,
                fill,
            })
        }
        "write_padding" => {
            want(3)?;
            let padding = n(0)?;
            let (len, fill) = len_fill(1)?;
            Ok(Helper::WritePadding {
                padding: padding as u8,
                len,
                fill,
            })
        }
        "check_padding" => {
            want(1)?;
            Ok(Helper::CheckPadding(n(0)? as u8))
        }
        // `utils::pad_to_4bytes` is `pub(crate)`: not callable from outside the crate
        "pad_to_4bytes" => {
            want(1)?;
            n(0)?;
            Err("not-exported")
        }
        "parse_fields" => {
            want(1)?;
            Ok(Helper::ParseFields(bytes(&a[0]).map_err(|_| BAD)?))
        }
        _ => Err(BAD),
    }
}

pub fn request(s: &Sexp) -> Result<Request, Bad> {
    let (head, args) = s.call().ok_or("request")?;
    match head {
        "parse" => {
            arity(args, 2)?;
            Ok(Request::Parse(kind(&args[0])?, bytes(&args[1])?))
        }
        "pad" => {
            arity(args, 3)?;
            let k = kind(&args[0])?;
            if matches!(
                k,
                Kind::Compound
                    | Kind::Rb
                    | Kind::Nack
                    | Kind::Fir
                    | Kind::Sli
                    | Kind::Rpsi
                    | Kind::Pli
            ) {
                return Err("pad-kind");
            }
            let b = bytes(&args[1])?;
            let n = num(&args[2])?;
            if n > 255 {
                return Err("pad-n");
            }
            Ok(Request::Pad(k, b, n as u8))
        }
        "build" => {
            // `(rt_first)`: optional flag behind the `bufs` list
            let mut args = args;
            let mut rt_first = false;
            if args.len() == 3 {
                if !matches!(args[2].call(), Some(("rt_first", []))) {
                    return Err("arity");
                }
                rt_first = true;
                args = &args[..2];
            }
            if args.is_empty() || args.len() > 2 {
                return Err("arity");
            }
            if !via_default_ok(&args[0]) {
                return Err("via_default");
            }
            let b = builder(&args[0])?;
            let mut specs = Vec::new();
            if let Some(bs) = args.get(1) {
                let (h, list) = bs.call().ok_or("bufs")?;
                if h != "bufs" {
                    return Err("bufs");
                }
                for spec in list {
                    let l = spec.list().ok_or("bufs")?;
                    if l.len() != 2 {
                        return Err("bufs");
                    }
                    let len = num(&l[0]).map_err(|_| "bufs")? as usize;
                    specs.push((len, fill(&l[1])?));
                }
            }
            Ok(Request::Build(b, specs, rt_first))
        }
        "size" => {
            arity(args, 1)?;
            if !via_default_ok(&args[0]) {
                return Err("via_default");
            }
            Ok(Request::Size(builder(&args[0])?))
        }
        "interleave" => {
            arity(args, 2)?;
            if !via_default_ok(&args[0]) || !via_default_ok(&args[1]) {
                return Err("via_default");
            }
            let a = builder(&args[0])?;
            let b = builder(&args[1])?;
            // whole packets only: not chunk / item / bare FCI builders
            if !a.is_member() || !b.is_member() {
                return Err("interleave");
            }
            Ok(Request::Interleave(a, b))
        }
        "helper" => Ok(Request::Helper(helper(args)?)),
        _ => Err("request"),
    }
}

// ---------------------------------------------------------------------------------------------
// builders

fn rb(s: &Sexp) -> Result<Rb, Bad> {
    let (head, args) = s.call().ok_or("builder")?;
    if head != "rb" || args.is_empty() {
        return Err("builder");
    }
    let ssrc = num(&args[0])? as u32;
    let mut calls = Vec::new();
    for c in &args[1..] {
        let (h, a) = c.call().ok_or("call")?;
        let n = one_num(a)?;
        calls.push(match h {
            "fl" => RbCall::Fl(n as u8),
            "cl" => RbCall::Cl(n as u32),
            "esn" => RbCall::Esn(n as u32),
            "jit" => RbCall::Jit(n as u32),
            "lsr" => RbCall::Lsr(n as u32),
            "dlsr" => RbCall::Dlsr(n as u32),
            _ => return Err("call"),
        });
    }
    Ok(Rb { ssrc, calls })
}

fn item(s: &Sexp) -> Result<Item, Bad> {
    let (head, args) = s.call().ok_or("builder")?;
    if head != "item" || args.len() < 2 {
        return Err("builder");
    }
    let type_ = num(&args[0])? as u8;
    let value = string(&args[1])?;
    let mut calls = Vec::new();
    for c in &args[2..] {
        let (h, a) = c.call().ok_or("call")?;
        calls.push(match h {
            "prefix" => {
                arity(a, 1)?;
                ItemCall::Prefix(bytes(&a[0])?)
            }
            "into_owned" => {
                arity(a, 0)?;
                ItemCall::IntoOwned
            }
            _ => return Err("call"),
        });
    }
    Ok(Item {
        type_,
        value,
        calls,
    })
}

fn chunk(s: &Sexp) -> Result<Chunk, Bad> {
    let (head, args) = s.call().ok_or("builder")?;
    if head != "chunk" || args.is_empty() {
        return Err("builder");
    }
    let ssrc = num(&args[0])? as u32;
    let mut calls = Vec::new();
    for c in &args[1..] {
        let (h, a) = c.call().ok_or("call")?;
        arity(a, 1)?;
        calls.push(match h {
            "add_item" => ChunkCall::AddItem(item(&a[0])?),
            "add_item_owned" => ChunkCall::AddItemOwned(item(&a[0])?),
            _ => return Err("call"),
        });
    }
    Ok(Chunk { ssrc, calls })
}

fn fci(s: &Sexp) -> Result<Fci, Bad> {
    let (head, args) = s.call().ok_or("builder")?;
    match head {
        "nack" => {
            let mut v = Vec::with_capacity(args.len());
            for (i, c) in args.iter().enumerate() {
                if i == 0 && is_via_default(c) {
                    v.push(FciCall::ViaDefault);
                    continue;
                }
                let (h, a) = c.call().ok_or("call")?;
                if is_probe(h, a)? {
                    v.push(FciCall::Probe);
                    continue;
                }
                if h != "add" {
                    return Err("call");
                }
                v.push(FciCall::Add(one_num(a)? as u16));
            }
            Ok(Fci::Nack(v))
        }
        "fir" => {
            let mut v = Vec::with_capacity(args.len());
            for (i, c) in args.iter().enumerate() {
                if i == 0 && is_via_default(c) {
                    v.push(FciCall::ViaDefault);
                    continue;
                }
                let (h, a) = c.call().ok_or("call")?;
                if is_probe(h, a)? {
                    v.push(FciCall::Probe);
                    continue;
                }
                if h != "add" {
                    return Err("call");
                }
                arity(a, 2)?;
                v.push(FciCall::Add((num(&a[0])? as u32, num(&a[1])? as u8)));
            }
            Ok(Fci::Fir(v))
        }
        "sli" => {
            let mut v = Vec::with_capacity(args.len());
            for c in args {
                let (h, a) = c.call().ok_or("call")?;
                if is_probe(h, a)? {
                    v.push(FciCall::Probe);
                    continue;
                }
                if h != "add" {
                    return Err("call");
                }
                arity(a, 3)?;
                v.push(FciCall::Add((
                    num(&a[0])? as u16,
                    num(&a[1])? as u16,
                    num(&a[2])? as u8,
                )));
            }
            Ok(Fci::Sli(v))
        }
        "rpsi" => {
            let mut v = Vec::with_capacity(args.len());
            for (i, c) in args.iter().enumerate() {
                if i == 0 && is_via_default(c) {
                    v.push(RpsiCall::ViaDefault);
                    continue;
                }
                let (h, a) = c.call().ok_or("call")?;
                v.push(match h {
                    "probe" => {
                        arity(a, 0)?;
                        RpsiCall::Probe
                    }
                    "payload_type" => RpsiCall::PayloadType(one_num(a)? as u8),
                    "native_data_vec" => {
                        arity(a, 2)?;
                        RpsiCall::NativeDataVec(bytes(&a[0])?, num(&a[1])? as u8)
                    }
                    "native_data" => {
                        arity(a, 2)?;
                        RpsiCall::NativeData(bytes(&a[0])?, num(&a[1])? as u8)
                    }
                    "native_data_owned" => {
                        arity(a, 2)?;
                        RpsiCall::NativeDataOwned(bytes(&a[0])?, num(&a[1])? as u8)
                    }
                    _ => return Err("call"),
                });
            }
            Ok(Fci::Rpsi(v))
        }
        "pli" => {
            arity(args, 0)?;
            Ok(Fci::Pli)
        }
        _ => Err("builder"),
    }
}

pub fn builder(s: &Sexp) -> Result<B, Bad> {
    let (head, args) = s.call().ok_or("builder")?;
    match head {
        "app" => {
            if args.len() < 2 {
                return Err("arity");
            }
            let ssrc = num(&args[0])? as u32;
            let name = string(&args[1])?;
            let mut calls = Vec::new();
            for c in &args[2..] {
                let (h, a) = c.call().ok_or("call")?;
                calls.push(match h {
                    "probe" => {
                        arity(a, 0)?;
                        AppCall::Probe
                    }
                    "padding" => AppCall::Padding(one_num(a)? as u8),
                    "subtype" => AppCall::Subtype(one_num(a)? as u8),
                    "data" => {
                        arity(a, 1)?;
                        AppCall::Data(bytes(&a[0])?)
                    }
                    _ => return Err("call"),
                });
            }
            Ok(B::App { ssrc, name, calls })
        }
        "bye" => {
            let mut calls = Vec::new();
            for c in args {
                let (h, a) = c.call().ok_or("call")?;
                calls.push(match h {
                    "probe" => {
                        arity(a, 0)?;
                        ByeCall::Probe
                    }
                    "padding" => ByeCall::Padding(one_num(a)? as u8),
                    "add_source" => ByeCall::AddSource(one_num(a)? as u32),
                    "reason" => {
                        arity(a, 1)?;
                        ByeCall::Reason(string(&a[0])?)
                    }
                    "reason_owned" => {
                        arity(a, 1)?;
                        ByeCall::ReasonOwned(string(&a[0])?)
                    }
                    _ => return Err("call"),
                });
            }
            Ok(B::Bye { calls })
        }
        "rr" => {
            if args.is_empty() {
                return Err("arity");
            }
            let ssrc = num(&args[0])? as u32;
            let mut calls = Vec::new();
            for c in &args[1..] {
                let (h, a) = c.call().ok_or("call")?;
                calls.push(match h {
                    "probe" => {
                        arity(a, 0)?;
                        RrCall::Probe
                    }
                    "padding" => RrCall::Padding(one_num(a)? as u8),
                    "add_report_block" => {
                        arity(a, 1)?;
                        RrCall::AddRb(rb(&a[0])?)
                    }
                    _ => return Err("call"),
                });
            }
            Ok(B::Rr { ssrc, calls })
        }
        "sr" => {
            if args.is_empty() {
                return Err("arity");
            }
            let ssrc = num(&args[0])? as u32;
            let mut calls = Vec::new();
            for c in &args[1..] {
                let (h, a) = c.call().ok_or("call")?;
                calls.push(match h {
                    "probe" => {
                        arity(a, 0)?;
                        SrCall::Probe
                    }
                    "padding" => SrCall::Padding(one_num(a)? as u8),
                    "ntp" => SrCall::Ntp(one_num(a)?),
                    "rtp" => SrCall::Rtp(one_num(a)? as u32),
                    "packet_count" => SrCall::Pc(one_num(a)? as u32),
                    "octet_count" => SrCall::Oc(one_num(a)? as u32),
                    "add_report_block" => {
                        arity(a, 1)?;
                        SrCall::AddRb(rb(&a[0])?)
                    }
                    _ => return Err("call"),
                });
            }
            Ok(B::Sr { ssrc, calls })
        }
        "sdes" => {
            let mut calls = Vec::new();
            for (i, c) in args.iter().enumerate() {
                if i == 0 && is_via_default(c) {
                    calls.push(SdesCall::ViaDefault);
                    continue;
                }
                let (h, a) = c.call().ok_or("call")?;
                calls.push(match h {
                    "probe" => {
                        arity(a, 0)?;
                        SdesCall::Probe
                    }
                    "padding" => SdesCall::Padding(one_num(a)? as u8),
                    "add_chunk" => {
                        arity(a, 1)?;
                        SdesCall::AddChunk(chunk(&a[0])?)
                    }
                    _ => return Err("call"),
                });
            }
            Ok(B::Sdes { calls })
        }
        "unknown" => {
            if args.len() < 2 {
                return Err("arity");
            }
            let type_ = num(&args[0])? as u8;
            let data = bytes(&args[1])?;
            let mut calls = Vec::new();
            for c in &args[2..] {
                let (h, a) = c.call().ok_or("call")?;
                calls.push(match h {
                    "probe" => {
                        arity(a, 0)?;
                        UnkCall::Probe
                    }
                    "padding" => UnkCall::Padding(one_num(a)? as u8),
                    "count" => UnkCall::Count(one_num(a)? as u8),
                    _ => return Err("call"),
                });
            }
            Ok(B::Unknown { type_, data, calls })
        }
        "tfb" | "pfb" => {
            if args.len() < 2 {
                return Err("arity");
            }
            let owned = match args[0].atom() {
                Some("borrowed") => false,
                Some("owned") => true,
                _ => return Err("mode"),
            };
            let f = fci(&args[1])?;
            let mut calls = Vec::new();
            for c in &args[2..] {
                let (h, a) = c.call().ok_or("call")?;
                calls.push(match h {
                    "probe" => {
                        arity(a, 0)?;
                        FbCall::Probe
                    }
                    "sender_ssrc" => FbCall::SenderSsrc(one_num(a)? as u32),
                    "media_ssrc" => FbCall::MediaSsrc(one_num(a)? as u32),
                    "padding" => FbCall::Padding(one_num(a)? as u8),
                    _ => return Err("call"),
                });
            }
            Ok(B::Fb {
                transport: head == "tfb",
                owned,
                fci: f,
                calls,
            })
        }
        "pb" => {
            arity(args, 1)?;
            let inner = builder(&args[0])?;
            if !inner.is_basic() {
                return Err("pb-inner");
            }
            Ok(B::Pb(Box::new(inner)))
        }
        "compound" => {
            let mut members = Vec::with_capacity(args.len());
            for (i, m) in args.iter().enumerate() {
                if i == 0 && is_via_default(m) {
                    members.push(Member::ViaDefault);
                    continue;
                }
                if let Some(("probe", a)) = m.call() {
                    arity(a, 0)?;
                    members.push(Member::Probe);
                    continue;
                }
                let b = builder(m)?;
                if !b.is_member() {
                    return Err("member");
                }
                members.push(Member::Packet(b));
            }
            Ok(B::Compound(members))
        }
        "custom" | "custom16" => {
            let fam = Fam::of_head(head).ok_or("builder")?;
            if args.len() < 3 {
                return Err("arity");
            }
            let (pt, min) = custom_grid(&args[0], &args[1])?;
            let body = bytes(&args[2])?;
            let mut calls = Vec::new();
            for c in &args[3..] {
                let (h, a) = c.call().ok_or("call")?;
                calls.push(match h {
                    "probe" => {
                        arity(a, 0)?;
                        CustomCall::Probe
                    }
                    "padding" => CustomCall::Padding(one_num(a)? as u8),
                    "pad_style" => {
                        arity(a, 1)?;
                        match a[0].atom() {
                            Some("some0") => CustomCall::PadStyleSome0,
                            _ => return Err("call"),
                        }
                    }
                    "count" => {
                        let n = one_num(a)?;
                        if n > 31 {
                            return Err("custom-count");
                        }
                        CustomCall::Count(n as u8)
                    }
                    _ => return Err("call"),
                });
            }
            Ok(B::Custom {
                fam,
                pt,
                min,
                body,
                calls,
            })
        }
        "unit" => {
            arity(args, 1)?;
            let pt = num(&args[0])?;
            if !CUSTOM_PTS.contains(&pt) {
                return Err("custom-grid");
            }
            Ok(B::Unit { pt: pt as u8 })
        }
        "chunk" => Ok(B::Chunk(chunk(s)?)),
        "item" => Ok(B::Item(item(s)?)),
        "nack" | "fir" | "sli" | "rpsi" | "pli" => Ok(B::Fci(fci(s)?)),
        _ => Err("builder"),
    }
}
