//! View dumps (PROTOCOL.md §5). Every accessor call / iterator drive is made under
//! `catch_unwind` individually.

use rtcp_types::prelude::*;
use rtcp_types::{
    App, Bye, Compound, Fir, FirEntry, Nack, Packet, PayloadFeedback, Pli, ReceiverReport, ReportBlock, Rpsi,
    RtcpPacket, RtcpParseError, Sdes, SdesChunk, SdesItem, SenderReport, Sli, TransportFeedback,
    Unknown,
};

use crate::ast::{Fam, Kind};
use crate::custom::{Custom, Custom16};
use crate::render::*;

// ---------------------------------------------------------------------------------------------
// accessor steps (PROTOCOL.md §4.1, `again_same`)

/// One accessor call (or one group of calls that cannot be separated) of a view dump: prints its
/// keys into the transcript. The flag is `true` in a reversed pass: a step that consists of
/// several calls / sub-steps makes them last-to-first then.
type Step<'s> = Box<dyn Fn(&mut Out, bool) + 's>;

/// The accessor calls of a view dump as a list of closures over the parsed object, so that the
/// same code can be run a second time on the same object, or last-to-first on a fresh one.
struct Steps<'s> {
    v: Vec<Step<'s>>,
}

impl<'s> Steps<'s> {
    fn new() -> Self {
        Steps { v: Vec::new() }
    }

    fn step(&mut self, f: impl Fn(&mut Out, bool) + 's) {
        self.v.push(Box::new(f));
    }

    /// A step printing the one key `P.key`; `f` is told whether the pass is a reversed one.
    fn kv(&mut self, pfx: &'s str, key: impl AsRef<str> + 's, f: impl Fn(bool) -> String + 's) {
        self.step(move |out, rev| out.kv(pfx, key.as_ref(), &f(rev)));
    }

    /// First-to-last, or last-to-first when `rev`.
    fn run(&self, out: &mut Out, rev: bool) {
        if rev {
            for s in self.v.iter().rev() {
                s(out, true);
            }
        } else {
            for s in &self.v {
                s(out, false);
            }
        }
    }
}

/// Evaluates the closures first-to-last (last-to-first when `rev`); the values come back in the
/// listed order either way.
fn parts<const N: usize>(rev: bool, fs: [&dyn Fn() -> String; N]) -> [String; N] {
    let mut vals: [String; N] = std::array::from_fn(|_| String::new());
    if rev {
        for i in (0..N).rev() {
            vals[i] = fs[i]();
        }
    } else {
        for i in 0..N {
            vals[i] = fs[i]();
        }
    }
    vals
}

/// One execution of the accessor code of a view (PROTOCOL.md §4.1, `again_same`).
pub struct Run<'o> {
    pub out: &'o mut Out,
    /// pass C: the steps are run last-to-first
    pub rev: bool,
    /// pass B: a further run on an object an earlier run of the same call has used already
    /// (`packet`: the inner typed view is a `clone()`; `compound`: a `clone()` taken before the
    /// first run iterated, if there is such a thing)
    pub second: bool,
    /// set by `dump_runs`: this run could not be made (pass B of a `compound`, which is not
    /// `Clone`); `out` is not to be compared then
    pub skipped: bool,
    /// pass D: the steps are run on a `clone()` of the parsed view (the seven typed views are
    /// `Clone`; kinds that are not run the steps on the object itself)
    pub cloned: bool,
}

impl<'o> Run<'o> {
    pub fn new(out: &'o mut Out, rev: bool, second: bool) -> Self {
        Run {
            out,
            rev,
            second,
            skipped: false,
            cloned: false,
        }
    }

    pub fn on_clone(out: &'o mut Out) -> Self {
        Run {
            out,
            rev: false,
            second: false,
            skipped: false,
            cloned: true,
        }
    }
}

/// `maybe_clone!(r)` for `r: &T` with a concrete `T`: `Some(r.clone())` if `T: Clone`, else
/// `None`; decided at compile time by method resolution (the by-value receiver `&Probe<T>` is
/// tried before the auto-referenced `&&Probe<T>`), so the harness builds either way.
struct Probe<'r, T>(&'r T);

trait ProbeClone<T> {
    fn maybe_clone(&self) -> Option<T>;
}

impl<'r, T: Clone> ProbeClone<T> for Probe<'r, T> {
    fn maybe_clone(&self) -> Option<T> {
        Some(self.0.clone())
    }
}

trait ProbeNoClone<T> {
    fn maybe_clone(&self) -> Option<T>;
}

impl<'r, T> ProbeNoClone<T> for &Probe<'r, T> {
    fn maybe_clone(&self) -> Option<T> {
        None
    }
}

macro_rules! maybe_clone {
    ($r:expr) => {
        (&Probe($r)).maybe_clone()
    };
}

// ---------------------------------------------------------------------------------------------
// `debug` (PROTOCOL.md §5): `Debug` formatting of every parsed value

/// `format!("{:?}", v)` and `format!("{:#?}", v)`; the text is not part of the transcript.
fn fmt_both<T: std::fmt::Debug + ?Sized>(v: &T) {
    drop(format!("{:?}", v));
    drop(format!("{:#?}", v));
}

/// `fmt_if_debug!(r)` for `r: &T` with a concrete `T`: `fmt_both(r)` if `T: Debug`, else nothing;
/// decided at compile time like `maybe_clone!` (`Nack` and `Fir` have no `Debug` impl in today's
/// crate: they are formatted should they get one).
// (dead code as long as no probed type is `Debug`)
struct DbgProbe<'r, T>(#[allow(dead_code)] &'r T);

#[allow(dead_code)]
trait ProbeDebug {
    fn fmt_if_debug(&self);
}

impl<'r, T: std::fmt::Debug> ProbeDebug for DbgProbe<'r, T> {
    fn fmt_if_debug(&self) {
        fmt_both(self.0)
    }
}

trait ProbeNoDebug {
    fn fmt_if_debug(&self);
}

impl<'r, T> ProbeNoDebug for &DbgProbe<'r, T> {
    fn fmt_if_debug(&self) {}
}

macro_rules! fmt_if_debug {
    ($r:expr) => {
        (&DbgProbe($r)).fmt_if_debug()
    };
}

/// Formats at most `cap` elements of an iterator (driven with `next()` only).
fn fmt_elems<I: Iterator>(it: I, cap: usize)
where
    I::Item: std::fmt::Debug,
{
    for e in it.take(cap) {
        fmt_both(&e);
    }
}

/// What the `debug` key formats of a parsed view: the value itself and (`extras`) the values its
/// iterators yield. `len` bounds the walks of the FCI entry iterators.
trait DebugAll: std::fmt::Debug {
    fn extras(&self, _len: usize) {}

    fn debug_all(&self, len: usize) {
        fmt_both(self);
        self.extras(len);
    }
}

impl DebugAll for App<'_> {}
impl DebugAll for Bye<'_> {}
impl DebugAll for Unknown<'_> {}
impl DebugAll for ReportBlock<'_> {}
impl DebugAll for Rpsi<'_> {}
impl DebugAll for Pli<'_> {}
impl<const PT: u8, const MIN: usize> DebugAll for Custom<'_, PT, MIN> {}
impl<const PT: u8, const MIN: usize> DebugAll for Custom16<'_, PT, MIN> {}

impl DebugAll for ReceiverReport<'_> {
    fn extras(&self, _len: usize) {
        fmt_elems(self.report_blocks(), usize::MAX);
    }
}

impl DebugAll for SenderReport<'_> {
    fn extras(&self, _len: usize) {
        fmt_elems(self.report_blocks(), usize::MAX);
    }
}

impl DebugAll for Sdes<'_> {
    fn extras(&self, _len: usize) {
        for chunk in self.chunks() {
            fmt_both(chunk);
            for item in chunk.items() {
                fmt_both(item);
            }
        }
    }
}

impl DebugAll for Sli<'_> {
    fn extras(&self, len: usize) {
        fmt_elems(self.lost_macroblocks(), len + 8);
    }
}

/// `Nack` / `Fir` (no `Debug` today): the value if it can be formatted, and its entries.
fn debug_nack(n: &Nack, len: usize) {
    fmt_if_debug!(n);
    fmt_elems(n.entries(), 5 * len + 8);
}

fn debug_fir(f: &Fir, len: usize) {
    fmt_if_debug!(f);
    fmt_elems(f.entries(), len + 8);
}

/// The five `parse_fci` outcomes of a feedback packet: every `Ok` one like the FCI view of that
/// kind.
fn debug_fcis<'a, T: Feedback<'a>>(fb: &T, len: usize) {
    if let Ok(n) = fb.fci::<Nack>() {
        debug_nack(&n, len);
    }
    if let Ok(f) = fb.fci::<Fir>() {
        debug_fir(&f, len);
    }
    if let Ok(s) = fb.fci::<Sli>() {
        s.debug_all(len);
    }
    if let Ok(r) = fb.fci::<Rpsi>() {
        r.debug_all(len);
    }
    if let Ok(p) = fb.fci::<Pli>() {
        p.debug_all(len);
    }
}

impl DebugAll for TransportFeedback<'_> {
    fn extras(&self, len: usize) {
        debug_fcis(self, len);
    }
}

impl DebugAll for PayloadFeedback<'_> {
    fn extras(&self, len: usize) {
        debug_fcis(self, len);
    }
}

impl DebugAll for Packet<'_> {
    fn extras(&self, len: usize) {
        match self {
            Packet::App(p) => p.extras(len),
            Packet::Bye(p) => p.extras(len),
            Packet::Rr(p) => p.extras(len),
            Packet::Sdes(p) => p.extras(len),
            Packet::Sr(p) => p.extras(len),
            Packet::TransportFeedback(p) => p.extras(len),
            Packet::PayloadFeedback(p) => p.extras(len),
            Packet::Unknown(p) => p.extras(len),
        }
    }
}

fn debug_val(r: Option<()>) -> String {
    if r.is_some() { "ok" } else { "panic" }.to_string()
}

/// The `debug` step of a view: `P.debug=ok|panic`, everything `f` formats under one
/// `catch_unwind`. Pushed after the accessor steps of the view.
fn debug_step<'s>(st: &mut Steps<'s>, pfx: &'s str, f: impl Fn() + 's) {
    st.kv(pfx, "debug", move |_| debug_val(guard(&f)));
}

// ---------------------------------------------------------------------------------------------
// helpers

fn header_steps<'s, 'a: 's, T: RtcpPacketParser<'a>>(st: &mut Steps<'s>, pfx: &'s str, t: &'s T) {
    st.kv(pfx, "version", move |_| num(|| t.version()));
    st.kv(pfx, "type", move |_| num(|| t.type_()));
    st.kv(pfx, "count", move |_| num(|| t.count()));
    st.kv(pfx, "subtype", move |_| num(|| t.subtype()));
    st.kv(pfx, "length", move |_| num(|| t.length()));
}

fn pad_val(f: impl FnOnce() -> Option<u8>) -> String {
    match guard(f) {
        Some(p) => opt_pad(p),
        None => "panic".to_string(),
    }
}

fn slice_val<'s>(base: Base, f: impl FnOnce() -> &'s [u8]) -> String {
    match guard(f) {
        Some(s) => slice(base, s),
        None => "panic".to_string(),
    }
}

fn ok_or_panic(r: Option<()>) -> String {
    if r.is_some() { "ok" } else { "panic" }.to_string()
}

enum Drive<T> {
    Done(Vec<T>),
    Cap,
}

/// At most `cap` calls of `next()`; `Cap` if none of them returned `None`.
fn drive<I: Iterator>(mut it: I, cap: usize) -> Drive<I::Item> {
    let mut v = Vec::new();
    for _ in 0..cap {
        match it.next() {
            Some(x) => v.push(x),
            None => return Drive::Done(v),
        }
    }
    Drive::Cap
}

fn drive_str<T>(r: Option<Drive<T>>, f: impl Fn(&T) -> String) -> String {
    match r {
        None => "panic".to_string(),
        Some(Drive::Cap) => "cap".to_string(),
        Some(Drive::Done(v)) => list(v.iter().map(f).collect()),
    }
}

/// Largest number of `next()` calls made before `count()` / `last()` in parts 11 and 12 of ADAPT.
const ADVANCE_MAX: usize = 20;

/// The `<key>.adapt` value (PROTOCOL.md §5, iterator adaptors), twelve parts joined by `;`:
/// `count();last();skip(1)..;nth(2);step_by(2)..;next() then nth(1);next() then count();`
/// `skip(1).count();peekable() peek() for_each..;zip of two;`
/// `next() k times then count(), k = 0..=min(n, 20);next() k times then last(), same k`.
/// Every part on a fresh iterator from `mk` (part 10 on two of them, alive at the same time;
/// parts 11 and 12 on a fresh one per k), the whole under one `catch_unwind`. The capped
/// collections take at most `cap` calls of `next()` (`cap` if none of them returned `None`). The
/// parts are computed first-to-last, last-to-first when `rev` (the k of parts 11 and 12 then run
/// downwards).
fn adapt<I: Iterator>(
    mk: impl Fn() -> I,
    cap: usize,
    f: impl Fn(&I::Item) -> String,
    rev: bool,
) -> String {
    let opt = |o: Option<I::Item>| match o {
        Some(e) => f(&e),
        None => "none".to_string(),
    };
    let coll = |d: Drive<I::Item>| match d {
        Drive::Cap => "cap".to_string(),
        Drive::Done(v) => list(v.iter().map(&f).collect()),
    };
    // parts 11 and 12: a fresh iterator advanced by k calls of `next()` and then consumed by
    // `finish`, for k = 0..=min(n, 20) where n is what a plain `next()` walk yields
    let advanced = |finish: &dyn Fn(I) -> String, sep: &str| {
        let n = match drive(mk(), cap) {
            Drive::Done(v) => v.len(),
            Drive::Cap => return "cap".to_string(),
        };
        let top = n.min(ADVANCE_MAX);
        let mut vals = vec![String::new(); top + 1];
        let mut one = |k: usize| {
            let mut it = mk();
            for _ in 0..k {
                let _ = it.next();
            }
            vals[k] = finish(it);
        };
        if rev {
            (0..=top).rev().for_each(&mut one);
        } else {
            (0..=top).for_each(&mut one);
        }
        vals.join(sep)
    };
    guard(|| {
        parts(
            rev,
            [
                &|| mk().count().to_string(),
                &|| opt(mk().last()),
                &|| coll(drive(mk().skip(1), cap)),
                &|| opt(mk().nth(2)),
                &|| coll(drive(mk().step_by(2), cap)),
                &|| {
                    let mut it = mk();
                    let _ = it.next();
                    opt(it.nth(1))
                },
                // `count()` of a partly consumed iterator (through `fold`)
                &|| {
                    let mut it = mk();
                    let _ = it.next();
                    it.count().to_string()
                },
                &|| mk().skip(1).count().to_string(),
                // `peek()` does not consume: all elements
                &|| {
                    let mut it = mk().peekable();
                    let _ = it.peek();
                    let mut v = Vec::new();
                    it.for_each(|e| v.push(e));
                    list(v.iter().map(&f).collect())
                },
                // two iterators from the same accessor, alive at the same time
                &|| {
                    let a = mk();
                    let b = mk();
                    a.zip(b).count().to_string()
                },
                // advanced from the front, then counted / consumed to the last element
                &|| advanced(&|it| it.count().to_string(), ","),
                &|| advanced(&|it| opt(it.last()), "|"),
            ],
        )
        .join(";")
    })
    .unwrap_or_else(|| "panic".to_string())
}

/// `get_*_string()` outcome: `ok:<hex of the String's bytes>` | `err` | `panic`.
fn str_val(r: Option<Result<String, std::string::FromUtf8Error>>) -> String {
    match r {
        None => "panic".to_string(),
        Some(Err(_)) => "err".to_string(),
        Some(Ok(s)) => format!("ok:{}", hex(s.as_bytes())),
    }
}

// ---------------------------------------------------------------------------------------------
// report blocks

fn rb_str(rb: &ReportBlock, rev: bool) -> String {
    parts(
        rev,
        [
            &|| num(|| rb.ssrc()),
            &|| num(|| rb.fraction_lost()),
            &|| num(|| rb.cumulative_lost()),
            &|| num(|| rb.extended_sequence_number()),
            &|| num(|| rb.interarrival_jitter()),
            &|| num(|| rb.last_sender_report_timestamp()),
            &|| num(|| rb.delay_since_last_sender_report_timestamp()),
        ],
    )
    .join(",")
}

/// `rbs`, `rb<i>` and `rbs.adapt` of the rr / sr views.
fn rbs_steps<'s, 'r, I: Iterator<Item = ReportBlock<'r>>>(
    st: &mut Steps<'s>,
    pfx: &'s str,
    mk: impl Fn() -> I + Copy + 's,
) {
    st.step(move |out, rev| match guard(|| mk().collect::<Vec<_>>()) {
        None => out.kv(pfx, "rbs", "panic"),
        Some(v) => {
            let n = v.len();
            let mut sub = Steps::new();
            sub.kv(pfx, "rbs", move |_| n.to_string());
            for (i, rb) in v.iter().enumerate() {
                sub.kv(pfx, format!("rb{i}"), move |rev| rb_str(rb, rev));
            }
            sub.run(out, rev);
        }
    });
    st.kv(pfx, "rbs.adapt", move |rev| {
        adapt(mk, usize::MAX, |rb| rb_str(rb, rev), rev)
    });
}

// ---------------------------------------------------------------------------------------------
// bodies (keys after the header keys)

fn app_steps<'s>(st: &mut Steps<'s>, pfx: &'s str, app: &'s App<'s>, base: Base) {
    st.kv(pfx, "ssrc", move |_| num(|| app.ssrc()));
    st.kv(pfx, "name", move |_| match guard(|| app.name()) {
        Some(n) => hex(&n),
        None => "panic".to_string(),
    });
    st.kv(pfx, "data", move |_| slice_val(base, || app.data()));
    st.kv(pfx, "strs", move |_| {
        ok_or_panic(guard(|| {
            let _ = app.get_name_string();
        }))
    });
    st.kv(pfx, "name_str", move |_| str_val(guard(|| app.get_name_string())));
}

fn bye_steps<'s>(st: &mut Steps<'s>, pfx: &'s str, bye: &'s Bye<'s>, base: Base) {
    st.kv(pfx, "ssrcs", move |_| {
        match guard(|| bye.ssrcs().collect::<Vec<u32>>()) {
            Some(v) => list(v.iter().map(|s| s.to_string()).collect()),
            None => "panic".to_string(),
        }
    });
    st.kv(pfx, "ssrcs.adapt", move |rev| {
        adapt(|| bye.ssrcs(), usize::MAX, |s| s.to_string(), rev)
    });
    st.kv(pfx, "reason", move |_| match guard(|| bye.reason()) {
        None => "panic".to_string(),
        Some(None) => "none".to_string(),
        Some(Some(r)) => slice(base, r),
    });
    st.kv(pfx, "strs", move |_| {
        ok_or_panic(guard(|| {
            let _ = bye.get_reason_string();
        }))
    });
    st.kv(pfx, "reason_str", move |_| {
        match guard(|| bye.get_reason_string()) {
            None => "panic".to_string(),
            Some(None) => "none".to_string(),
            Some(Some(r)) => str_val(Some(r)),
        }
    });
}

fn rr_steps<'s>(st: &mut Steps<'s>, pfx: &'s str, rr: &'s ReceiverReport<'s>) {
    st.kv(pfx, "ssrc", move |_| num(|| rr.ssrc()));
    st.kv(pfx, "n_reports", move |_| num(|| rr.n_reports()));
    rbs_steps(st, pfx, move || rr.report_blocks());
}

fn sr_steps<'s>(st: &mut Steps<'s>, pfx: &'s str, sr: &'s SenderReport<'s>) {
    st.kv(pfx, "ssrc", move |_| num(|| sr.ssrc()));
    st.kv(pfx, "n_reports", move |_| num(|| sr.n_reports()));
    st.kv(pfx, "ntp", move |_| num(|| sr.ntp_timestamp()));
    st.kv(pfx, "rtp", move |_| num(|| sr.rtp_timestamp()));
    st.kv(pfx, "pc", move |_| num(|| sr.packet_count()));
    st.kv(pfx, "oc", move |_| num(|| sr.octet_count()));
    rbs_steps(st, pfx, move || sr.report_blocks());
}

/// `<type>,<length()>,<value>,<PRIV>`. The type decides whether the PRIV accessors are called,
/// so a reversed pass asks for it after `value()` and `length()`, and for `priv_prefix()` before
/// `priv_prefix_len()`.
fn item_str(item: &SdesItem, base: Base, rev: bool) -> String {
    let ty_of = || guard(|| item.type_());
    let ty_str = |ty: Option<u8>| match ty {
        Some(t) => t.to_string(),
        None => "panic".to_string(),
    };
    let privs_of = |ty: Option<u8>| {
        if ty == Some(SdesItem::PRIV) {
            let [l, p] = parts(
                rev,
                [
                    &|| num(|| item.priv_prefix_len()),
                    &|| slice_val(base, || item.priv_prefix()),
                ],
            );
            format!("{l}:{p}")
        } else {
            "-".to_string()
        }
    };
    if rev {
        let value = slice_val(base, || item.value());
        let len = num(|| item.length());
        let ty = ty_of();
        let privs = privs_of(ty);
        format!("{},{len},{value},{privs}", ty_str(ty))
    } else {
        let ty = ty_of();
        let len = num(|| item.length());
        let value = slice_val(base, || item.value());
        let privs = privs_of(ty);
        format!("{},{len},{value},{privs}", ty_str(ty))
    }
}

fn chunk_steps<'s>(
    st: &mut Steps<'s>,
    pfx: &'s str,
    i: usize,
    chunk: &'s SdesChunk<'s>,
    base: Base,
) {
    st.kv(pfx, format!("c{i}.ssrc"), move |_| num(|| chunk.ssrc()));
    st.kv(pfx, format!("c{i}.length"), move |_| num(|| chunk.length()));
    st.kv(pfx, format!("c{i}.items.adapt"), move |rev| {
        adapt(|| chunk.items(), usize::MAX, |it| num(|| it.type_()), rev)
    });
    st.step(move |out, rev| {
        match guard(|| chunk.items().collect::<Vec<&SdesItem>>()) {
            None => out.kv(pfx, &format!("c{i}.items"), "panic"),
            Some(items) => {
                let n = items.len();
                let mut sub = Steps::new();
                sub.kv(pfx, format!("c{i}.items"), move |_| n.to_string());
                for (j, item) in items.iter().enumerate() {
                    let item: &SdesItem = item;
                    sub.kv(pfx, format!("c{i}.i{j}"), move |rev| item_str(item, base, rev));
                    sub.kv(pfx, format!("c{i}.i{j}.str"), move |_| {
                        str_val(guard(|| item.get_value_string()))
                    });
                }
                sub.run(out, rev);
            }
        }
    });
}

fn sdes_steps<'s>(st: &mut Steps<'s>, pfx: &'s str, sdes: &'s Sdes<'s>, base: Base) {
    st.kv(pfx, "chunks.adapt", move |rev| {
        adapt(|| sdes.chunks(), usize::MAX, |c| num(|| c.ssrc()), rev)
    });
    st.step(move |out, rev| {
        match guard(|| sdes.chunks().collect::<Vec<&SdesChunk>>()) {
            None => out.kv(pfx, "chunks", "panic"),
            Some(chunks) => {
                let n = chunks.len();
                let mut sub = Steps::new();
                sub.kv(pfx, "chunks", move |_| n.to_string());
                for (i, chunk) in chunks.iter().enumerate() {
                    chunk_steps(&mut sub, pfx, i, chunk, base);
                }
                sub.run(out, rev);
            }
        }
    });
    st.kv(pfx, "strs", move |_| {
        ok_or_panic(guard(|| {
            for chunk in sdes.chunks() {
                for item in chunk.items() {
                    let _ = item.get_value_string();
                }
            }
        }))
    });
}

// ---------------------------------------------------------------------------------------------
// FCI

fn nack_entries(n: &Nack, len: usize) -> String {
    drive_str(guard(|| drive(n.entries(), 5 * len + 8)), |e| e.to_string())
}

fn fir_entry_str(e: &FirEntry, rev: bool) -> String {
    let [ssrc, seq] = parts(rev, [&|| num(|| e.ssrc()), &|| num(|| e.sequence())]);
    format!("{ssrc}:{seq}")
}

fn fir_entries(f: &Fir, len: usize, rev: bool) -> String {
    drive_str(guard(|| drive(f.entries(), len + 8)), |e| fir_entry_str(e, rev))
}

/// `MacroBlockEntry { start: 1, count: 2, picture_id: 3 }` -> `1:2:3`
fn mb_entry_str(dbg: &str) -> String {
    let mut nums: Vec<&str> = Vec::new();
    for label in ["start: ", "count: ", "picture_id: "] {
        let Some(at) = dbg.find(label) else {
            return format!("baddebug<{dbg}>");
        };
        let rest = &dbg[at + label.len()..];
        let end = rest
            .find(|c: char| !c.is_ascii_digit())
            .unwrap_or(rest.len());
        nums.push(&rest[..end]);
    }
    nums.join(":")
}

/// (`MacroBlockEntry` is not exported by the crate: only its `Debug` rendering is observable.)
fn sli_entry_str<E: std::fmt::Debug>(e: &E) -> String {
    match guard(|| format!("{:?}", e)) {
        Some(d) => mb_entry_str(&d),
        None => "panic".to_string(),
    }
}

fn sli_entries(s: &Sli, len: usize) -> String {
    drive_str(guard(|| drive(s.lost_macroblocks(), len + 8)), sli_entry_str)
}

/// The `.adapt` sibling of an entry list `entries` (already rendered): an iterator that ran into
/// the cap is not asked to `count()`.
fn adapt_unless_cap(entries: &str, f: impl FnOnce() -> String) -> String {
    if entries == "cap" {
        "cap".to_string()
    } else {
        f()
    }
}

/// The entry list of a parsed FCI under `key` (the rendered list after `ok`, which is `ok:`
/// inside a feedback view and empty in a direct FCI dump) and, if `with_adapt`, its ADAPT under
/// `key.adapt`. `entries` renders the capped `next()` walk; the adaptors are only called after
/// such a walk has not run into the cap (in a reversed pass, where `key.adapt` comes first, the
/// walk is made once more for `key`).
fn entries_steps<'s>(
    st: &mut Steps<'s>,
    pfx: &'s str,
    key: &'static str,
    ok: &'static str,
    with_adapt: bool,
    entries: impl Fn(bool) -> String + Copy + 's,
    adapt_of: impl Fn(bool) -> String + 's,
) {
    st.kv(pfx, key, move |rev| format!("{ok}{}", entries(rev)));
    if with_adapt {
        st.kv(pfx, format!("{key}.adapt"), move |rev| {
            adapt_unless_cap(&entries(rev), || adapt_of(rev))
        });
    }
}

fn nack_steps<'s>(
    st: &mut Steps<'s>,
    pfx: &'s str,
    key: &'static str,
    ok: &'static str,
    n: &'s Nack<'s>,
    len: usize,
) {
    entries_steps(
        st,
        pfx,
        key,
        ok,
        true,
        move |_| nack_entries(n, len),
        move |rev| adapt(|| n.entries(), 5 * len + 8, |e| e.to_string(), rev),
    );
}

fn fir_steps<'s>(
    st: &mut Steps<'s>,
    pfx: &'s str,
    key: &'static str,
    ok: &'static str,
    with_adapt: bool,
    f: &'s Fir<'s>,
    len: usize,
) {
    entries_steps(
        st,
        pfx,
        key,
        ok,
        with_adapt,
        move |rev| fir_entries(f, len, rev),
        move |rev| adapt(|| f.entries(), len + 8, |e| fir_entry_str(e, rev), rev),
    );
}

fn sli_steps<'s>(
    st: &mut Steps<'s>,
    pfx: &'s str,
    key: &'static str,
    ok: &'static str,
    s: &'s Sli<'s>,
    len: usize,
) {
    entries_steps(
        st,
        pfx,
        key,
        ok,
        true,
        move |_| sli_entries(s, len),
        move |rev| adapt(|| s.lost_macroblocks(), len + 8, sli_entry_str, rev),
    );
}

fn rpsi_str(r: &Rpsi, base: Base, rev: bool) -> String {
    let [pt, bits] = parts(
        rev,
        [
            &|| num(|| r.payload_type()),
            &|| match guard(|| r.bit_string()) {
                Some((s, n)) => format!("{};{n}", slice(base, s)),
                None => "panic;panic".to_string(),
            },
        ],
    );
    format!("{pt};{bits}")
}

fn dump_fci(pfx: &str, kind: Kind, bytes: &[u8], base: Base, runs: &mut [Run]) {
    let len = bytes.len();
    match kind {
        Kind::Nack => {
            let r = guard(|| Nack::parse(bytes));
            for run in runs.iter_mut() {
                run.out.kv(pfx, "res", &pres(&r));
                if let Some(Ok(n)) = &r {
                    let mut st = Steps::new();
                    nack_steps(&mut st, pfx, "entries", "", n, len);
                    debug_step(&mut st, pfx, move || debug_nack(n, len));
                    st.run(run.out, run.rev);
                }
            }
        }
        Kind::Fir => {
            let r = guard(|| Fir::parse(bytes));
            for run in runs.iter_mut() {
                run.out.kv(pfx, "res", &pres(&r));
                if let Some(Ok(f)) = &r {
                    let mut st = Steps::new();
                    fir_steps(&mut st, pfx, "entries", "", true, f, len);
                    debug_step(&mut st, pfx, move || debug_fir(f, len));
                    st.run(run.out, run.rev);
                }
            }
        }
        Kind::Sli => {
            let r = guard(|| Sli::parse(bytes));
            for run in runs.iter_mut() {
                run.out.kv(pfx, "res", &pres(&r));
                if let Some(Ok(s)) = &r {
                    let mut st = Steps::new();
                    sli_steps(&mut st, pfx, "entries", "", s, len);
                    debug_step(&mut st, pfx, move || s.debug_all(len));
                    st.run(run.out, run.rev);
                }
            }
        }
        Kind::Rpsi => {
            let r = guard(|| Rpsi::parse(bytes));
            for run in runs.iter_mut() {
                run.out.kv(pfx, "res", &pres(&r));
                if let Some(Ok(v)) = &r {
                    let mut st = Steps::new();
                    st.kv(pfx, "rpsi", move |rev| rpsi_str(v, base, rev));
                    debug_step(&mut st, pfx, move || v.debug_all(len));
                    st.run(run.out, run.rev);
                }
            }
        }
        Kind::Pli => {
            let r = guard(|| Pli::parse(bytes));
            for run in runs.iter_mut() {
                run.out.kv(pfx, "res", &pres(&r));
                if let Some(Ok(v)) = &r {
                    let mut st = Steps::new();
                    debug_step(&mut st, pfx, move || v.debug_all(len));
                    st.run(run.out, run.rev);
                }
            }
        }
        _ => unreachable!("not an FCI kind"),
    }
}

/// What the tfb / pfb views have in common.
trait Feedback<'a> {
    fn sender(&self) -> u32;
    fn media(&self) -> u32;
    fn fci<F: FciParser<'a>>(&self) -> Result<F, RtcpParseError>;
}

impl<'a> Feedback<'a> for TransportFeedback<'a> {
    fn sender(&self) -> u32 {
        self.sender_ssrc()
    }
    fn media(&self) -> u32 {
        self.media_ssrc()
    }
    fn fci<F: FciParser<'a>>(&self) -> Result<F, RtcpParseError> {
        self.parse_fci::<F>()
    }
}

impl<'a> Feedback<'a> for PayloadFeedback<'a> {
    fn sender(&self) -> u32 {
        self.sender_ssrc()
    }
    fn media(&self) -> u32 {
        self.media_ssrc()
    }
    fn fci<F: FciParser<'a>>(&self) -> Result<F, RtcpParseError> {
        self.parse_fci::<F>()
    }
}

/// `panic` / `err:<E>` of a `parse_fci` outcome, `None` when it is `Ok`.
fn fci_failure<F>(r: &Option<Result<F, RtcpParseError>>) -> Option<String> {
    match r {
        None => Some("panic".to_string()),
        Some(Err(e)) => Some(format!("err:{}", perr(e))),
        Some(Ok(_)) => None,
    }
}

/// Whether `pfx` belongs to the `rt.` dump of a build request (PROTOCOL.md §4.3).
fn in_round_trip(pfx: &str) -> bool {
    pfx == "rt" || pfx.starts_with("rt.")
}

/// One `parse_fci::<F>()` call as a step: the outcome under `fci.<k>` and, for a parsed list,
/// its `fci.<k>.adapt` (`$add` pushes them for the parsed value `$v`).
macro_rules! fci_step {
    ($st:ident, $pfx:ident, $fb:ident, $F:ty, $key:literal, |$sub:ident, $v:ident| $add:expr) => {
        $st.step(move |out, rev| {
            let r = guard(|| $fb.fci::<$F>());
            let mut $sub = Steps::new();
            match &r {
                Some(Ok($v)) => $add,
                other => {
                    let failure = fci_failure(other).unwrap_or_default();
                    $sub.kv($pfx, $key, move |_| failure.clone());
                }
            }
            $sub.run(out, rev);
        });
    };
}

/// `len` is the length of the whole feedback packet: the iterator caps are derived from it.
fn fb_steps<'s, T: Feedback<'s>>(
    st: &mut Steps<'s>,
    pfx: &'s str,
    fb: &'s T,
    base: Base,
    len: usize,
) {
    st.kv(pfx, "sender_ssrc", move |_| num(|| fb.sender()));
    st.kv(pfx, "media_ssrc", move |_| num(|| fb.media()));
    fci_step!(st, pfx, fb, Nack, "fci.nack", |sub, n| nack_steps(
        &mut sub, pfx, "fci.nack", "ok:", n, len
    ));
    // no `fci.fir.adapt` in the round trip of a build request: `FirBuilder` writes its entries
    // in `HashMap` order, an order-sensitive value cannot be compared there
    let fir_adapt = !in_round_trip(pfx);
    fci_step!(st, pfx, fb, Fir, "fci.fir", |sub, f| fir_steps(
        &mut sub, pfx, "fci.fir", "ok:", fir_adapt, f, len
    ));
    fci_step!(st, pfx, fb, Sli, "fci.sli", |sub, s| sli_steps(
        &mut sub, pfx, "fci.sli", "ok:", s, len
    ));
    fci_step!(st, pfx, fb, Rpsi, "fci.rpsi", |sub, v| sub.kv(
        pfx,
        "fci.rpsi",
        move |rev| format!("ok:{}", rpsi_str(v, base, rev))
    ));
    fci_step!(st, pfx, fb, Pli, "fci.pli", |sub, _v| sub.kv(pfx, "fci.pli", |_| "ok"
        .to_string()));
}

// ---------------------------------------------------------------------------------------------
// unknown / packet

/// Prints the pairs first-to-last, last-to-first when `rev`.
fn emit(out: &mut Out, rev: bool, pfx: &str, kvs: &[(&str, &str)]) {
    if rev {
        for (k, v) in kvs.iter().rev() {
            out.kv(pfx, k, v);
        }
    } else {
        for (k, v) in kvs {
            out.kv(pfx, k, v);
        }
    }
}

fn as_step<'s, T>(st: &mut Steps<'s>, pfx: &'s str, k: &'static str, u: &'s Unknown<'s>)
where
    T: RtcpPacket
        + TryFrom<&'s Unknown<'s>, Error = RtcpParseError>
        + TryFrom<Unknown<'s>, Error = RtcpParseError>,
{
    st.step(move |out, rev| {
        let [borrowed, owned] = parts(
            rev,
            [
                &|| pres(&guard(|| u.try_as::<T>())),
                // the owned `TryFrom<Unknown>`: `Unknown` is not `Clone`, so a second one is
                // parsed from the same bytes and consumed
                &|| {
                    pres(&guard(|| {
                        let second: Unknown<'s> = Unknown::parse(u.data())?;
                        <T as TryFrom<Unknown<'s>>>::try_from(second)
                    }))
                },
            ],
        );
        emit(
            out,
            rev,
            pfx,
            &[
                (&format!("as.{k}"), &borrowed),
                (&format!("aso.{k}"), &owned),
            ],
        );
    });
}

/// `pfrom.as.<k>` / `pfrom.aso.<k>` (PROTOCOL.md §5, unknown): the `Unknown` view is wrapped with
/// the public `From<Unknown> for Packet` and converted out of that `Packet` again, borrowed
/// (`Packet::try_as`) and owned (`TryFrom<Packet>`). `Unknown` is not `Clone`: every `Packet` is
/// made from a further `Unknown::parse(u.data())`. (A macro, not a generic function: the
/// borrowed conversion ties the typed view to the `Packet` local it is taken from.)
macro_rules! pfrom_step {
    ($st:ident, $pfx:ident, $k:literal, $u:ident, $T:ty) => {
        $st.step(move |out, rev| {
            let [borrowed, owned] = parts(
                rev,
                [
                    &|| {
                        pres(&guard(|| -> Result<(), RtcpParseError> {
                            let p = Packet::from(Unknown::parse($u.data())?);
                            let r = p.try_as::<$T>().map(|_| ());
                            r
                        }))
                    },
                    &|| {
                        pres(&guard(|| -> Result<$T, RtcpParseError> {
                            let p = Packet::from(Unknown::parse($u.data())?);
                            <$T>::try_from(p)
                        }))
                    },
                ],
            );
            emit(
                out,
                rev,
                $pfx,
                &[
                    (concat!("pfrom.as.", $k), &borrowed),
                    (concat!("pfrom.aso.", $k), &owned),
                ],
            );
        });
    };
}

/// The `pfrom.*` keys of the `unknown` view where it is the view of the request.
fn unknown_pfrom_steps<'s>(st: &mut Steps<'s>, pfx: &'s str, u: &'s Unknown<'s>) {
    pfrom_step!(st, pfx, "app", u, App);
    pfrom_step!(st, pfx, "bye", u, Bye);
    pfrom_step!(st, pfx, "rr", u, ReceiverReport);
    pfrom_step!(st, pfx, "sdes", u, Sdes);
    pfrom_step!(st, pfx, "sr", u, SenderReport);
    pfrom_step!(st, pfx, "tfb", u, TransportFeedback);
    pfrom_step!(st, pfx, "pfb", u, PayloadFeedback);
}

fn unknown_steps<'s>(st: &mut Steps<'s>, pfx: &'s str, u: &'s Unknown<'s>, base: Base) {
    st.kv(pfx, "data", move |_| slice_val(base, || u.data()));
    as_step::<App>(st, pfx, "app", u);
    as_step::<Bye>(st, pfx, "bye", u);
    as_step::<ReceiverReport>(st, pfx, "rr", u);
    as_step::<Sdes>(st, pfx, "sdes", u);
    as_step::<SenderReport>(st, pfx, "sr", u);
    as_step::<TransportFeedback>(st, pfx, "tfb", u);
    as_step::<PayloadFeedback>(st, pfx, "pfb", u);
}

fn conv_step<'s, T>(
    st: &mut Steps<'s>,
    pfx: &'s str,
    k: &'static str,
    pkt: &'s Packet<'s>,
    bytes: &'s [u8],
) where
    T: RtcpPacketParser<'s>
        + TryFrom<&'s Packet<'s>, Error = RtcpParseError>
        + TryFrom<Packet<'s>, Error = RtcpParseError>
        + PartialEq,
{
    st.step(move |out, rev| {
        let typed_of = || guard(|| T::parse(bytes));
        let conv_of = || guard(|| pkt.try_as::<T>());
        // the owned `TryFrom<Packet>`: `Packet` is not `Clone`, so a second one is parsed from
        // the same bytes and consumed
        let convo_of = || {
            guard(|| {
                let second: Packet<'s> = Packet::parse(bytes)?;
                <T as TryFrom<Packet<'s>>>::try_from(second)
            })
        };
        let (typed, conv, convo);
        if rev {
            convo = convo_of();
            conv = conv_of();
            typed = typed_of();
        } else {
            typed = typed_of();
            conv = conv_of();
            convo = convo_of();
        }
        let same_as_typed = |r: &Option<Result<T, RtcpParseError>>| match (&typed, r) {
            (Some(a), Some(b)) => match guard(|| a == b) {
                Some(s) => s.to_string(),
                None => "panic".to_string(),
            },
            _ => "panic".to_string(),
        };
        let [conv_same, convo_same] =
            parts(rev, [&|| same_as_typed(&conv), &|| same_as_typed(&convo)]);
        emit(
            out,
            rev,
            pfx,
            &[
                (&format!("typed.{k}"), &pres(&typed)),
                (&format!("conv.{k}"), &pres(&conv)),
                (&format!("convo.{k}"), &pres(&convo)),
                (&format!("conv_same.{k}"), &conv_same),
                (&format!("convo_same.{k}"), &convo_same),
            ],
        );
    });
}

/// `P.typed.<k>` for the seven typed parsers, without a `Packet` to convert (the `packet` view
/// when `Packet::parse` returned an error).
fn typed_only_steps<'s>(st: &mut Steps<'s>, pfx: &'s str, bytes: &'s [u8]) {
    st.kv(pfx, "typed.app", move |_| pres(&guard(|| App::parse(bytes))));
    st.kv(pfx, "typed.bye", move |_| pres(&guard(|| Bye::parse(bytes))));
    st.kv(pfx, "typed.rr", move |_| pres(&guard(|| ReceiverReport::parse(bytes))));
    st.kv(pfx, "typed.sdes", move |_| pres(&guard(|| Sdes::parse(bytes))));
    st.kv(pfx, "typed.sr", move |_| pres(&guard(|| SenderReport::parse(bytes))));
    st.kv(pfx, "typed.tfb", move |_| pres(&guard(|| TransportFeedback::parse(bytes))));
    st.kv(pfx, "typed.pfb", move |_| pres(&guard(|| PayloadFeedback::parse(bytes))));
}

/// A `Packet` holding a `clone()` of the typed view inside `p`; `None` for a view that is not
/// `Clone` (`Unknown`).
fn clone_inner<'a>(p: &Packet<'a>) -> Option<Packet<'a>> {
    Some(match p {
        Packet::App(v) => Packet::App(maybe_clone!(v)?),
        Packet::Bye(v) => Packet::Bye(maybe_clone!(v)?),
        Packet::Rr(v) => Packet::Rr(maybe_clone!(v)?),
        Packet::Sdes(v) => Packet::Sdes(maybe_clone!(v)?),
        Packet::Sr(v) => Packet::Sr(maybe_clone!(v)?),
        Packet::TransportFeedback(v) => Packet::TransportFeedback(maybe_clone!(v)?),
        Packet::PayloadFeedback(v) => Packet::PayloadFeedback(maybe_clone!(v)?),
        Packet::Unknown(v) => Packet::Unknown(maybe_clone!(v)?),
    })
}

fn variant_name(p: &Packet) -> &'static str {
    match p {
        Packet::App(_) => "app",
        Packet::Bye(_) => "bye",
        Packet::Rr(_) => "rr",
        Packet::Sdes(_) => "sdes",
        Packet::Sr(_) => "sr",
        Packet::TransportFeedback(_) => "tfb",
        Packet::PayloadFeedback(_) => "pfb",
        Packet::Unknown(_) => "unknown",
    }
}

/// `pfrom.variant` (PROTOCOL.md §5, packet): the typed view is taken out of the parsed `Packet`
/// (`try_as::<T>()`) and converted back with the public `From<T> for Packet`; the variant of
/// that second `Packet`. `err:<E>` / `panic` if the way out fails.
fn pfrom_variant<'s, T>(pkt: &'s Packet<'s>) -> String
where
    T: RtcpPacket + TryFrom<&'s Packet<'s>, Error = RtcpParseError>,
    Packet<'s>: From<T>,
{
    match guard(|| pkt.try_as::<T>().map(|v| variant_name(&Packet::from(v)))) {
        None => "panic".to_string(),
        Some(Err(e)) => format!("err:{}", perr(&e)),
        Some(Ok(name)) => name.to_string(),
    }
}

/// The `packet` view after its `res` key. `bytes` are the bytes `pkt` was parsed from. The keys
/// of the inner view (and `padding`) are taken from the typed view inside `inner`: `pkt` itself,
/// or (pass B) a packet of the same variant holding a clone of it.
fn packet_steps<'s>(
    st: &mut Steps<'s>,
    pfx: &'s str,
    pkt: &'s Packet<'s>,
    inner: &'s Packet<'s>,
    bytes: &'s [u8],
    base: Base,
    conv: bool,
) {
    st.kv(pfx, "variant", move |_| variant_name(pkt).to_string());
    st.kv(pfx, "is_unknown", move |_| {
        match guard(|| pkt.is_unknown()) {
            Some(true) => "true",
            Some(false) => "false",
            None => "panic",
        }
        .to_string()
    });
    header_steps(st, pfx, pkt);
    match inner {
        Packet::App(p) => {
            st.kv(pfx, "padding", move |_| pad_val(|| p.padding()));
            app_steps(st, pfx, p, base);
        }
        Packet::Bye(p) => {
            st.kv(pfx, "padding", move |_| pad_val(|| p.padding()));
            bye_steps(st, pfx, p, base);
        }
        Packet::Rr(p) => {
            st.kv(pfx, "padding", move |_| pad_val(|| p.padding()));
            rr_steps(st, pfx, p);
        }
        Packet::Sdes(p) => {
            st.kv(pfx, "padding", move |_| pad_val(|| p.padding()));
            sdes_steps(st, pfx, p, base);
        }
        Packet::Sr(p) => {
            st.kv(pfx, "padding", move |_| pad_val(|| p.padding()));
            sr_steps(st, pfx, p);
        }
        Packet::TransportFeedback(p) => {
            st.kv(pfx, "padding", move |_| pad_val(|| p.padding()));
            fb_steps(st, pfx, p, base, bytes.len());
        }
        Packet::PayloadFeedback(p) => {
            st.kv(pfx, "padding", move |_| pad_val(|| p.padding()));
            fb_steps(st, pfx, p, base, bytes.len());
        }
        Packet::Unknown(p) => unknown_steps(st, pfx, p, base),
    }
    if conv {
        match pkt {
            Packet::App(_) => st.kv(pfx, "pfrom.variant", move |_| pfrom_variant::<App>(pkt)),
            Packet::Bye(_) => st.kv(pfx, "pfrom.variant", move |_| pfrom_variant::<Bye>(pkt)),
            Packet::Rr(_) => {
                st.kv(pfx, "pfrom.variant", move |_| pfrom_variant::<ReceiverReport>(pkt))
            }
            Packet::Sdes(_) => st.kv(pfx, "pfrom.variant", move |_| pfrom_variant::<Sdes>(pkt)),
            Packet::Sr(_) => {
                st.kv(pfx, "pfrom.variant", move |_| pfrom_variant::<SenderReport>(pkt))
            }
            Packet::TransportFeedback(_) => {
                st.kv(pfx, "pfrom.variant", move |_| pfrom_variant::<TransportFeedback>(pkt))
            }
            Packet::PayloadFeedback(_) => {
                st.kv(pfx, "pfrom.variant", move |_| pfrom_variant::<PayloadFeedback>(pkt))
            }
            // nothing to take out of an unknown packet
            Packet::Unknown(_) => {}
        }
        conv_step::<App>(st, pfx, "app", pkt, bytes);
        conv_step::<Bye>(st, pfx, "bye", pkt, bytes);
        conv_step::<ReceiverReport>(st, pfx, "rr", pkt, bytes);
        conv_step::<Sdes>(st, pfx, "sdes", pkt, bytes);
        conv_step::<SenderReport>(st, pfx, "sr", pkt, bytes);
        conv_step::<TransportFeedback>(st, pfx, "tfb", pkt, bytes);
        conv_step::<PayloadFeedback>(st, pfx, "pfb", pkt, bytes);
    }
}

fn packet_runs(pfx: &str, bytes: &[u8], base: Base, runs: &mut [Run]) {
    let r = guard(|| Packet::parse(bytes));
    for run in runs.iter_mut() {
        run.out.kv(pfx, "res", &pres(&r));
        // pass B: the inner typed view is a clone of the one inside the parsed `Packet`
        let cloned = match &r {
            Some(Ok(p)) if run.second => clone_inner(p),
            _ => None,
        };
        let mut st = Steps::new();
        match &r {
            // `typed.<k>` for the seven kinds come with the `conv*` keys
            Some(Ok(p)) => {
                packet_steps(&mut st, pfx, p, cloned.as_ref().unwrap_or(p), bytes, base, true)
            }
            // the typed parsers are asked also when the generic one refused the bytes
            Some(Err(_)) => typed_only_steps(&mut st, pfx, bytes),
            None => {}
        }
        if r.is_some() {
            st.kv(pfx, "typed.unknown", move |_| pres(&guard(|| Unknown::parse(bytes))));
        }
        if let Some(Ok(p)) = &r {
            debug_step(&mut st, pfx, move || p.debug_all(bytes.len()));
        }
        st.run(run.out, run.rev);
    }
}

// ---------------------------------------------------------------------------------------------
// compound

fn next_str(c: &mut Compound) -> &'static str {
    match guard(|| c.next().is_some()) {
        None => "panic",
        Some(true) => "some",
        Some(false) => "none",
    }
}

/// The `compound` view after `res`, on the freshly parsed `c`. Iterating consumes the object:
/// `c` is driven to its end first, the steps (`adapt`, `n`, the members, `after`) then work on
/// what it yielded and on the exhausted iterator.
fn compound_pass(out: &mut Out, pfx: &str, c: Compound, bytes: &[u8], base: Base, rev: bool) {
    let cap = bytes.len() / 4 + 8;
    // `debug`: the `Compound` value as parsed, before anything is asked of it
    let fresh_fmt = guard(|| fmt_both(&c));
    let c = std::cell::RefCell::new(c);
    let driven = guard(|| drive(&mut *c.borrow_mut(), cap));
    let hit_cap = matches!(driven, Some(Drive::Cap));
    let mut st = Steps::new();
    st.kv(pfx, "adapt", move |rev| {
        if hit_cap {
            "cap".to_string()
        } else {
            adapt(
                || Compound::parse(bytes).expect("parsed before"),
                cap,
                |r| match r {
                    Ok(_) => "ok".to_string(),
                    Err(e) => format!("err:{}", perr(e)),
                },
                rev,
            )
        }
    });
    match &driven {
        None => st.kv(pfx, "n", |_| "panic".to_string()),
        Some(Drive::Cap) => st.kv(pfx, "n", |_| "cap".to_string()),
        Some(Drive::Done(items)) => {
            let n = items.len();
            st.kv(pfx, "n", move |_| n.to_string());
            // the i-th member occupies `bytes[off..off + 4 * (be16(bytes[off + 2..off + 4]) + 1)]`
            let mut off = 0usize;
            for (i, item) in items.iter().enumerate() {
                let p = join(pfx, &format!("p{i}"));
                let member = bytes.get(off..).and_then(|rest| {
                    let l = 4 * (u16::from_be_bytes([*rest.get(2)?, *rest.get(3)?]) as usize + 1);
                    rest.get(..l)
                });
                off += member.map_or(0, |m| m.len());
                st.step(move |out, rev| match item {
                    Err(e) => out.kv(&p, "res", &format!("err:{}", perr(e))),
                    Ok(pkt) => {
                        out.kv(&p, "res", "ok");
                        let mut sub = Steps::new();
                        packet_steps(&mut sub, &p, pkt, pkt, member.unwrap_or(bytes), base, false);
                        sub.run(out, rev);
                    }
                });
            }
            let c = &c;
            st.kv(pfx, "after", move |_| {
                let mut c = c.borrow_mut();
                let a1 = next_str(&mut c);
                let a2 = next_str(&mut c);
                let a3 = next_str(&mut c);
                format!("{a1},{a2},{a3}")
            });
        }
    }
    // `debug`: the value before iteration (above) and every `Ok(Packet)` it yielded
    let driven = &driven;
    st.kv(pfx, "debug", move |_| {
        let members = guard(|| {
            if let Some(Drive::Done(items)) = driven {
                for pkt in items.iter().flatten() {
                    pkt.debug_all(bytes.len());
                }
            }
        });
        debug_val(fresh_fmt.and(members))
    });
    st.run(out, rev);
}

fn compound_runs(pfx: &str, bytes: &[u8], base: Base, runs: &mut [Run]) {
    let r = guard(|| Compound::parse(bytes));
    let res = pres(&r);
    let mut fresh = match r {
        Some(Ok(c)) => Some(c),
        _ => None,
    };
    let parsed = fresh.is_some();
    // pass B needs the object pass A consumes: a clone taken before iterating, if `Compound` is
    // `Clone`
    let mut spare: Option<Compound> = if runs.iter().any(|r| r.second) {
        fresh.as_ref().and_then(|c| maybe_clone!(c))
    } else {
        None
    };
    for run in runs.iter_mut() {
        run.out.kv(pfx, "res", &res);
        if !parsed {
            continue;
        }
        let obj = if run.second { spare.take() } else { fresh.take() };
        match obj {
            Some(c) => compound_pass(run.out, pfx, c, bytes, base, run.rev),
            None => run.skipped = true,
        }
    }
}

// ---------------------------------------------------------------------------------------------
// custom

/// The view of one third-party family (`custom_runs`: `Custom`, `custom16_runs`: `Custom16`).
macro_rules! custom_runs_fn {
    ($name:ident, $View:ident) => {
fn $name<const PT: u8, const MIN: usize>(
    pfx: &str,
    bytes: &[u8],
    base: Base,
    runs: &mut [Run],
) {
    let direct = guard(|| $View::<PT, MIN>::parse(bytes));
    for run in runs.iter_mut() {
        run.out.kv(pfx, "res", &pres(&direct));
        let mut st = Steps::new();
        if let Some(Ok(c)) = &direct {
            header_steps(&mut st, pfx, c);
            st.kv(pfx, "padding", move |_| pad_val(|| c.padding()));
            st.kv(pfx, "body", move |_| slice_val(base, || c.body()));
        }
        let direct = &direct;
        st.step(move |out, rev| {
            let (via, same) = match guard(|| Packet::parse(bytes)) {
                None => ("panic".to_string(), "panic".to_string()),
                Some(Err(_)) => ("n/a".to_string(), "n/a".to_string()),
                Some(Ok(p)) => {
                    let conv = guard(|| p.try_as::<$View<PT, MIN>>());
                    let same = match (direct, &conv) {
                        (Some(a), Some(b)) => match guard(|| a == b) {
                            Some(s) => s.to_string(),
                            None => "panic".to_string(),
                        },
                        _ => "panic".to_string(),
                    };
                    (pres(&conv), same)
                }
            };
            emit(out, rev, pfx, &[("via_packet", &via), ("via_packet_same", &same)]);
        });
        if let Some(Ok(c)) = direct {
            debug_step(&mut st, pfx, move || c.debug_all(bytes.len()));
        }
        st.run(run.out, run.rev);
    }
}
    };
}

custom_runs_fn!(custom_runs, Custom);
custom_runs_fn!(custom16_runs, Custom16);

// ---------------------------------------------------------------------------------------------
// entry points

/// `res`, then the header keys, `padding` and the body steps `$body` pushes for the parsed `$p`.
macro_rules! typed_runs {
    ($T:ty, $pfx:ident, $bytes:ident, $runs:ident, |$st:ident, $p:ident| $body:expr) => {{
        let r = guard(|| <$T>::parse($bytes));
        for run in $runs.iter_mut() {
            run.out.kv($pfx, "res", &pres(&r));
            if let Some(Ok(orig)) = &r {
                // pass D: the same steps on `orig.clone()` (a hand-written `Clone` must give a
                // view that answers every accessor like the one it was made from)
                let the_clone: $T;
                let $p: &$T = if run.cloned {
                    match guard(|| maybe_clone!(orig)) {
                        Some(Some(c)) => {
                            the_clone = c;
                            &the_clone
                        }
                        Some(None) => orig,
                        None => {
                            run.out.kv($pfx, "clone", "panic");
                            continue;
                        }
                    }
                } else {
                    orig
                };
                let mut $st = Steps::new();
                header_steps(&mut $st, $pfx, $p);
                $st.kv($pfx, "padding", move |_| pad_val(|| $p.padding()));
                $body;
                debug_step(&mut $st, $pfx, move || $p.debug_all($bytes.len()));
                $st.run(run.out, run.rev);
            }
        }
    }};
}

/// The view dump of `kind` on `bytes` with prefix `pfx`, once per element of `runs`: the bytes
/// are parsed ONCE, every run executes the accessor steps on that same object (first-to-last, or
/// last-to-first for `rev`). `base` describes the byte string given to the outermost parser
/// (here always `bytes` itself).
fn dump_runs(pfx: &str, kind: Kind, bytes: &[u8], runs: &mut [Run]) {
    let base = Base::of(bytes);
    match kind {
        Kind::App => typed_runs!(App, pfx, bytes, runs, |st, p| app_steps(&mut st, pfx, p, base)),
        Kind::Bye => typed_runs!(Bye, pfx, bytes, runs, |st, p| bye_steps(&mut st, pfx, p, base)),
        Kind::Rr => typed_runs!(ReceiverReport, pfx, bytes, runs, |st, p| rr_steps(
            &mut st, pfx, p
        )),
        Kind::Sr => typed_runs!(SenderReport, pfx, bytes, runs, |st, p| sr_steps(
            &mut st, pfx, p
        )),
        Kind::Sdes => typed_runs!(Sdes, pfx, bytes, runs, |st, p| sdes_steps(
            &mut st, pfx, p, base
        )),
        Kind::Tfb => typed_runs!(TransportFeedback, pfx, bytes, runs, |st, p| fb_steps(
            &mut st,
            pfx,
            p,
            base,
            base.len()
        )),
        Kind::Pfb => typed_runs!(PayloadFeedback, pfx, bytes, runs, |st, p| fb_steps(
            &mut st,
            pfx,
            p,
            base,
            base.len()
        )),
        Kind::Unknown => {
            let r = guard(|| Unknown::parse(bytes));
            for run in runs.iter_mut() {
                run.out.kv(pfx, "res", &pres(&r));
                if let Some(Ok(p)) = &r {
                    let mut st = Steps::new();
                    header_steps(&mut st, pfx, p);
                    unknown_steps(&mut st, pfx, p, base);
                    unknown_pfrom_steps(&mut st, pfx, p);
                    debug_step(&mut st, pfx, move || p.debug_all(bytes.len()));
                    st.run(run.out, run.rev);
                }
            }
        }
        Kind::Packet => packet_runs(pfx, bytes, base, runs),
        Kind::Compound => compound_runs(pfx, bytes, base, runs),
        Kind::Rb => {
            let r = guard(|| ReportBlock::parse(bytes));
            for run in runs.iter_mut() {
                run.out.kv(pfx, "res", &pres(&r));
                if let Some(Ok(rb)) = &r {
                    let mut st = Steps::new();
                    st.kv(pfx, "rb", move |rev| rb_str(rb, rev));
                    debug_step(&mut st, pfx, move || rb.debug_all(bytes.len()));
                    st.run(run.out, run.rev);
                }
            }
        }
        Kind::Nack | Kind::Fir | Kind::Sli | Kind::Rpsi | Kind::Pli => {
            dump_fci(pfx, kind, bytes, base, runs)
        }
        Kind::Custom(Fam::Custom, pt, min) => {
            crate::with_grid!(pt, min, custom_runs, [], (pfx, bytes, base, runs))
        }
        Kind::Custom(Fam::Custom16, pt, min) => {
            crate::with_grid!(pt, min, custom16_runs, [], (pfx, bytes, base, runs))
        }
    }
}

/// Prints the view dump of `kind` on `bytes` with prefix `pfx` (every accessor once,
/// first-to-last).
pub fn dump_kind(out: &mut Out, pfx: &str, kind: Kind, bytes: &[u8]) {
    dump_runs(pfx, kind, bytes, &mut [Run::new(out, false, false)]);
}

/// Inputs longer than this get no `again_same` key.
pub const AGAIN_MAX_LEN: usize = 70000;

fn key_of(line: &str) -> &str {
    line.split('=').next().unwrap_or(line)
}

/// Two dumps as SETS of `key=value` lines: the smallest key (byte-wise string order) among the
/// lines that are in one of them only, `None` when the sets are equal.
fn first_set_diff_key<'a>(a: &'a str, b: &'a str) -> Option<&'a str> {
    use std::collections::BTreeSet;
    let sa: BTreeSet<&str> = a.lines().collect();
    let sb: BTreeSet<&str> = b.lines().collect();
    sa.symmetric_difference(&sb).map(|l| key_of(l)).min()
}

/// Passes A and B of `again_same` (PROTOCOL.md §4.1), waiting for pass C.
pub struct PassAb {
    a: String,
    b: String,
    b_skipped: bool,
    /// pass D (on a clone), typed kinds only
    d: Option<String>,
}

/// PROTOCOL.md §4.1, `again_same`, first half: prints the view dump like `dump_kind` (pass A)
/// and runs the same accessor steps a second time on the same parsed object (pass B). `None`
/// (no `again_same` key, nothing to follow) for more than `AGAIN_MAX_LEN` bytes.
pub fn dump_kind_ab(out: &mut Out, pfx: &str, kind: Kind, bytes: &[u8]) -> Option<PassAb> {
    if bytes.len() > AGAIN_MAX_LEN {
        dump_kind(out, pfx, kind, bytes);
        return None;
    }
    let mut a = Out::new();
    let mut b = Out::new();
    let mut d = Out::new();
    let typed = matches!(
        kind,
        Kind::App | Kind::Bye | Kind::Rr | Kind::Sr | Kind::Sdes | Kind::Tfb | Kind::Pfb
    );
    let b_skipped = if typed {
        let mut runs = [
            Run::new(&mut a, false, false),
            Run::new(&mut b, false, true),
            Run::on_clone(&mut d),
        ];
        dump_runs(pfx, kind, bytes, &mut runs);
        runs[1].skipped
    } else {
        let mut runs = [Run::new(&mut a, false, false), Run::new(&mut b, false, true)];
        dump_runs(pfx, kind, bytes, &mut runs);
        runs[1].skipped
    };
    out.buf.push_str(&a.buf);
    Some(PassAb {
        a: a.buf,
        b: b.buf,
        b_skipped,
        d: if typed { Some(d.buf) } else { None },
    })
}

/// Second half: pass C runs the steps last-to-first on an object freshly parsed from the same
/// slice; hands back the value of the `again_same` key (B and C compared with pass A as sets of
/// lines). The caller decides what happens between the two halves: a `parse` request makes its
/// shifted dumps there, so that the first and the last parse of the request both read the
/// long-lived receive buffer (PROTOCOL.md §7).
pub fn again_verdict(ab: PassAb, pfx: &str, kind: Kind, bytes: &[u8]) -> String {
    let mut c = Out::new();
    dump_runs(pfx, kind, bytes, &mut [Run::new(&mut c, true, false)]);
    let d_buf = ab.d.clone().unwrap_or_default();
    for (name, other, skipped) in [
        ("B", &ab.b, ab.b_skipped),
        ("C", &c.buf, false),
        ("D", &d_buf, ab.d.is_none()),
    ] {
        if skipped {
            continue;
        }
        if let Some(key) = first_set_diff_key(&ab.a, other) {
            return format!("false:{name}:{key}");
        }
    }
    "true".to_string()
}

/// Both halves in a row: the dump (pass A) is printed, the value of `again_same` handed back;
/// `None` (no key) for more than `AGAIN_MAX_LEN` bytes.
pub fn dump_kind_verdict(out: &mut Out, pfx: &str, kind: Kind, bytes: &[u8]) -> Option<String> {
    let ab = dump_kind_ab(out, pfx, kind, bytes)?;
    Some(again_verdict(ab, pfx, kind, bytes))
}

/// `dump_kind_verdict` followed by the key `P.again_same`.
pub fn dump_kind_again(out: &mut Out, pfx: &str, kind: Kind, bytes: &[u8]) {
    if let Some(v) = dump_kind_verdict(out, pfx, kind, bytes) {
        out.kv(pfx, "again_same", &v);
    }
}

#[cfg(test)]
mod tests {
    use super::*;

    #[test]
    fn set_difference_key() {
        assert_eq!(first_set_diff_key("a=1\nb=2\n", "b=2\na=1\n"), None);
        assert_eq!(first_set_diff_key("a=1\nb=2\n", "b=3\na=1\n"), Some("b"));
        assert_eq!(first_set_diff_key("a=1\nc=2\n", "a=1\nb=2\nc=3\n"), Some("b"));
        assert_eq!(first_set_diff_key("a=1\n", "a=1\nz.y=x=1\n"), Some("z.y"));
    }

    #[test]
    fn parts_order() {
        let log = std::cell::RefCell::new(Vec::new());
        let v = parts(true, [
            &|| { log.borrow_mut().push(0); "x".to_string() },
            &|| { log.borrow_mut().push(1); "y".to_string() },
        ]);
        assert_eq!(v, ["x".to_string(), "y".to_string()]);
        assert_eq!(*log.borrow(), vec![1, 0]);
    }

    #[test]
    fn debug_probe_and_panicking_debug() {
        std::panic::set_hook(Box::new(|_| {}));
        struct NoDebug;
        struct Bomb;
        impl std::fmt::Debug for Bomb {
            fn fmt(&self, f: &mut std::fmt::Formatter<'_>) -> std::fmt::Result {
                // only the pretty form panics
                assert!(!f.alternate(), "boom");
                f.write_str("Bomb")
            }
        }
        // compiles and does nothing for a type without `Debug`, formats (and panics) with one
        fmt_if_debug!(&NoDebug);
        assert_eq!(debug_val(guard(|| fmt_if_debug!(&5u32))), "ok");
        assert_eq!(debug_val(guard(|| fmt_if_debug!(&Bomb))), "panic");
        assert_eq!(debug_val(guard(|| fmt_elems([1u8, 2].iter(), 1))), "ok");
        assert_eq!(debug_val(guard(|| fmt_elems([Bomb].iter(), 8))), "panic");
        assert_eq!(debug_val(guard(|| fmt_elems([Bomb].iter(), 0))), "ok");
    }

    #[test]
    fn clone_probe() {
        struct NoClone;
        let a = 5u32;
        let b = NoClone;
        assert_eq!(maybe_clone!(&a), Some(5));
        assert!(maybe_clone!(&b).is_none());
    }
}
