//! View dumps (PROTOCOL.md §5). Every accessor call / iterator drive is made under
//! `catch_unwind` individually.

use rtcp_types::prelude::*;
use rtcp_types::{
    App, Bye, Compound, Fir, FirEntry, Nack, Packet, PayloadFeedback, Pli, ReceiverReport, ReportBlock, Rpsi,
    RtcpPacket, RtcpParseError, Sdes, SdesChunk, SdesItem, SenderReport, Sli, TransportFeedback,
    Unknown,
};

use crate::ast::Kind;
use crate::custom::Custom;
use crate::render::*;

// ---------------------------------------------------------------------------------------------
// helpers

/// Prints `P.res` and hands back the parsed value when `ok`.
fn res_of<T>(out: &mut Out, pfx: &str, r: Option<Result<T, RtcpParseError>>) -> Option<T> {
    out.kv(pfx, "res", &pres(&r));
    match r {
        Some(Ok(t)) => Some(t),
        _ => None,
    }
}

fn header<'a, T: RtcpPacketParser<'a>>(out: &mut Out, pfx: &str, t: &T) {
    out.kv(pfx, "version", &num(|| t.version()));
    out.kv(pfx, "type", &num(|| t.type_()));
    out.kv(pfx, "count", &num(|| t.count()));
    out.kv(pfx, "subtype", &num(|| t.subtype()));
    out.kv(pfx, "length", &num(|| t.length()));
}

fn padding_key(out: &mut Out, pfx: &str, f: impl FnOnce() -> Option<u8>) {
    let v = match guard(f) {
        Some(p) => opt_pad(p),
        None => "panic".to_string(),
    };
    out.kv(pfx, "padding", &v);
}

fn slice_val<'s>(base: Base, f: impl FnOnce() -> &'s [u8]) -> String {
    match guard(f) {
        Some(s) => slice(base, s),
        None => "panic".to_string(),
    }
}

enum Drive<T> {
    Done(Vec<T>),
    Cap,
}

/// At most `cap` calls of `next()`; `Cap` if none of them returned `None`.
fn drive<I: Iterator>(mut it: I, cap: usize) -> Drive<I::Item> {
    let mut v = Vec::new();
    for _ in 0..cap {
        match it.next() {
            Some(x) => v.push(x),
            None => return Drive::Done(v),
        }
    }
    Drive::Cap
}

fn drive_str<T>(r: Option<Drive<T>>, f: impl Fn(&T) -> String) -> String {
    match r {
        None => "panic".to_string(),
        Some(Drive::Cap) => "cap".to_string(),
        Some(Drive::Done(v)) => list(v.iter().map(f).collect()),
    }
}

/// The `<key>.adapt` value (PROTOCOL.md §5, iterator adaptors):
/// `count();last();skip(1)..;nth(2);step_by(2)..;next() then nth(1)`, every part on a fresh
/// iterator from `mk`, the whole under one `catch_unwind`. Collections take at most `cap` calls
/// of `next()` (`cap` if none of them returned `None`).
fn adapt<I: Iterator>(
    mk: impl Fn() -> I,
    cap: usize,
    f: impl Fn(&I::Item) -> String,
) -> String {
    let opt = |o: Option<I::Item>| match o {
        Some(e) => f(&e),
        None => "none".to_string(),
    };
    let coll = |d: Drive<I::Item>| match d {
        Drive::Cap => "cap".to_string(),
        Drive::Done(v) => list(v.iter().map(&f).collect()),
    };
    guard(|| {
        let count = mk().count();
        let last = opt(mk().last());
        let skip = coll(drive(mk().skip(1), cap));
        let nth = opt(mk().nth(2));
        let step = coll(drive(mk().step_by(2), cap));
        let mut it = mk();
        let _ = it.next();
        let after = opt(it.nth(1));
        format!("{count};{last};{skip};{nth};{step};{after}")
    })
    .unwrap_or_else(|| "panic".to_string())
}

/// `get_*_string()` outcome: `ok:<hex of the String's bytes>` | `err` | `panic`.
fn str_val(r: Option<Result<String, std::string::FromUtf8Error>>) -> String {
    match r {
        None => "panic".to_string(),
        Some(Err(_)) => "err".to_string(),
        Some(Ok(s)) => format!("ok:{}", hex(s.as_bytes())),
    }
}

// ---------------------------------------------------------------------------------------------
// report blocks

fn rb_str(rb: &ReportBlock) -> String {
    [
        num(|| rb.ssrc()),
        num(|| rb.fraction_lost()),
        num(|| rb.cumulative_lost()),
        num(|| rb.extended_sequence_number()),
        num(|| rb.interarrival_jitter()),
        num(|| rb.last_sender_report_timestamp()),
        num(|| rb.delay_since_last_sender_report_timestamp()),
    ]
    .join(",")
}

fn rbs_keys<'r, I: Iterator<Item = ReportBlock<'r>>>(out: &mut Out, pfx: &str, mk: impl Fn() -> I) {
    let blocks = guard(|| mk().collect::<Vec<_>>());
    out.kv(pfx, "rbs.adapt", &adapt(&mk, usize::MAX, rb_str));
    match blocks {
        None => out.kv(pfx, "rbs", "panic"),
        Some(v) => {
            out.kv(pfx, "rbs", &v.len().to_string());
            for (i, rb) in v.iter().enumerate() {
                out.kv(pfx, &format!("rb{i}"), &rb_str(rb));
            }
        }
    }
}

fn dump_rb(out: &mut Out, pfx: &str, bytes: &[u8]) {
    let Some(rb) = res_of(out, pfx, guard(|| ReportBlock::parse(bytes))) else {
        return;
    };
    out.kv(pfx, "rb", &rb_str(&rb));
}

// ---------------------------------------------------------------------------------------------
// bodies (keys after the header keys)

fn app_body(out: &mut Out, pfx: &str, app: &App, base: Base) {
    out.kv(pfx, "ssrc", &num(|| app.ssrc()));
    let name = match guard(|| app.name()) {
        Some(n) => hex(&n),
        None => "panic".to_string(),
    };
    out.kv(pfx, "name", &name);
    out.kv(pfx, "data", &slice_val(base, || app.data()));
    let strs = guard(|| {
        let _ = app.get_name_string();
    });
    out.kv(pfx, "strs", if strs.is_some() { "ok" } else { "panic" });
    out.kv(pfx, "name_str", &str_val(guard(|| app.get_name_string())));
}

fn bye_body(out: &mut Out, pfx: &str, bye: &Bye, base: Base) {
    let ssrcs = match guard(|| bye.ssrcs().collect::<Vec<u32>>()) {
        Some(v) => list(v.iter().map(|s| s.to_string()).collect()),
        None => "panic".to_string(),
    };
    out.kv(pfx, "ssrcs", &ssrcs);
    out.kv(
        pfx,
        "ssrcs.adapt",
        &adapt(|| bye.ssrcs(), usize::MAX, |s| s.to_string()),
    );
    let reason = match guard(|| bye.reason()) {
        None => "panic".to_string(),
        Some(None) => "none".to_string(),
        Some(Some(r)) => slice(base, r),
    };
    out.kv(pfx, "reason", &reason);
    let strs = guard(|| {
        let _ = bye.get_reason_string();
    });
    out.kv(pfx, "strs", if strs.is_some() { "ok" } else { "panic" });
    let reason_str = match guard(|| bye.get_reason_string()) {
        None => "panic".to_string(),
        Some(None) => "none".to_string(),
        Some(Some(r)) => str_val(Some(r)),
    };
    out.kv(pfx, "reason_str", &reason_str);
}

fn rr_body(out: &mut Out, pfx: &str, rr: &ReceiverReport) {
    out.kv(pfx, "ssrc", &num(|| rr.ssrc()));
    out.kv(pfx, "n_reports", &num(|| rr.n_reports()));
    rbs_keys(out, pfx, || rr.report_blocks());
}

fn sr_body(out: &mut Out, pfx: &str, sr: &SenderReport) {
    out.kv(pfx, "ssrc", &num(|| sr.ssrc()));
    out.kv(pfx, "n_reports", &num(|| sr.n_reports()));
    out.kv(pfx, "ntp", &num(|| sr.ntp_timestamp()));
    out.kv(pfx, "rtp", &num(|| sr.rtp_timestamp()));
    out.kv(pfx, "pc", &num(|| sr.packet_count()));
    out.kv(pfx, "oc", &num(|| sr.octet_count()));
    rbs_keys(out, pfx, || sr.report_blocks());
}

fn item_str(item: &SdesItem, base: Base) -> String {
    let ty = guard(|| item.type_());
    let ty_s = match ty {
        Some(t) => t.to_string(),
        None => "panic".to_string(),
    };
    let len = num(|| item.length());
    let value = slice_val(base, || item.value());
    let privs = if ty == Some(SdesItem::PRIV) {
        format!(
            "{}:{}",
            num(|| item.priv_prefix_len()),
            slice_val(base, || item.priv_prefix())
        )
    } else {
        "-".to_string()
    };
    format!("{ty_s},{len},{value},{privs}")
}

fn sdes_body(out: &mut Out, pfx: &str, sdes: &Sdes, base: Base) {
    out.kv(
        pfx,
        "chunks.adapt",
        &adapt(|| sdes.chunks(), usize::MAX, |c| num(|| c.ssrc())),
    );
    match guard(|| sdes.chunks().collect::<Vec<&SdesChunk>>()) {
        None => out.kv(pfx, "chunks", "panic"),
        Some(chunks) => {
            out.kv(pfx, "chunks", &chunks.len().to_string());
            for (i, chunk) in chunks.iter().enumerate() {
                out.kv(pfx, &format!("c{i}.ssrc"), &num(|| chunk.ssrc()));
                out.kv(pfx, &format!("c{i}.length"), &num(|| chunk.length()));
                out.kv(
                    pfx,
                    &format!("c{i}.items.adapt"),
                    &adapt(|| chunk.items(), usize::MAX, |it| num(|| it.type_())),
                );
                match guard(|| chunk.items().collect::<Vec<&SdesItem>>()) {
                    None => out.kv(pfx, &format!("c{i}.items"), "panic"),
                    Some(items) => {
                        out.kv(pfx, &format!("c{i}.items"), &items.len().to_string());
                        for (j, item) in items.iter().enumerate() {
                            out.kv(pfx, &format!("c{i}.i{j}"), &item_str(item, base));
                            out.kv(
                                pfx,
                                &format!("c{i}.i{j}.str"),
                                &str_val(guard(|| item.get_value_string())),
                            );
                        }
                    }
                }
            }
        }
    }
    let strs = guard(|| {
        for chunk in sdes.chunks() {
            for item in chunk.items() {
                let _ = item.get_value_string();
            }
        }
    });
    out.kv(pfx, "strs", if strs.is_some() { "ok" } else { "panic" });
}

// ---------------------------------------------------------------------------------------------
// FCI

fn nack_entries(n: &Nack, len: usize) -> String {
    drive_str(guard(|| drive(n.entries(), 5 * len + 8)), |e| e.to_string())
}

fn fir_entry_str(e: &FirEntry) -> String {
    format!("{}:{}", num(|| e.ssrc()), num(|| e.sequence()))
}

fn fir_entries(f: &Fir, len: usize) -> String {
    drive_str(guard(|| drive(f.entries(), len + 8)), fir_entry_str)
}

/// `MacroBlockEntry { start: 1, count: 2, picture_id: 3 }` -> `1:2:3`
fn mb_entry_str(dbg: &str) -> String {
    let mut nums: Vec<&str> = Vec::new();
    for label in ["start: ", "count: ", "picture_id: "] {
        let Some(at) = dbg.find(label) else {
            return format!("baddebug<{dbg}>");
        };
        let rest = &dbg[at + label.len()..];
        let end = rest
            .find(|c: char| !c.is_ascii_digit())
            .unwrap_or(rest.len());
        nums.push(&rest[..end]);
    }
    nums.join(":")
}

/// (`MacroBlockEntry` is not exported by the crate: only its `Debug` rendering is observable.)
fn sli_entry_str<E: std::fmt::Debug>(e: &E) -> String {
    match guard(|| format!("{:?}", e)) {
        Some(d) => mb_entry_str(&d),
        None => "panic".to_string(),
    }
}

fn sli_entries(s: &Sli, len: usize) -> String {
    drive_str(guard(|| drive(s.lost_macroblocks(), len + 8)), sli_entry_str)
}

/// The `.adapt` sibling of an entry list `entries` (already rendered): an iterator that ran into
/// the cap is not asked to `count()`.
fn adapt_unless_cap(entries: &str, f: impl FnOnce() -> String) -> String {
    if entries == "cap" {
        "cap".to_string()
    } else {
        f()
    }
}

fn nack_adapt(n: &Nack, len: usize, entries: &str) -> String {
    adapt_unless_cap(entries, || {
        adapt(|| n.entries(), 5 * len + 8, |e| e.to_string())
    })
}

fn fir_adapt(f: &Fir, len: usize, entries: &str) -> String {
    adapt_unless_cap(entries, || adapt(|| f.entries(), len + 8, fir_entry_str))
}

fn sli_adapt(s: &Sli, len: usize, entries: &str) -> String {
    adapt_unless_cap(entries, || {
        adapt(|| s.lost_macroblocks(), len + 8, sli_entry_str)
    })
}

fn rpsi_str(r: &Rpsi, base: Base) -> String {
    let pt = num(|| r.payload_type());
    let (bits, n) = match guard(|| r.bit_string()) {
        Some((s, n)) => (slice(base, s), n.to_string()),
        None => ("panic".to_string(), "panic".to_string()),
    };
    format!("{pt};{bits};{n}")
}

fn dump_fci(out: &mut Out, pfx: &str, kind: Kind, bytes: &[u8], base: Base) {
    let len = bytes.len();
    match kind {
        Kind::Nack => {
            if let Some(n) = res_of(out, pfx, guard(|| Nack::parse(bytes))) {
                let e = nack_entries(&n, len);
                out.kv(pfx, "entries", &e);
                out.kv(pfx, "entries.adapt", &nack_adapt(&n, len, &e));
            }
        }
        Kind::Fir => {
            if let Some(f) = res_of(out, pfx, guard(|| Fir::parse(bytes))) {
                let e = fir_entries(&f, len);
                out.kv(pfx, "entries", &e);
                out.kv(pfx, "entries.adapt", &fir_adapt(&f, len, &e));
            }
        }
        Kind::Sli => {
            if let Some(s) = res_of(out, pfx, guard(|| Sli::parse(bytes))) {
                let e = sli_entries(&s, len);
                out.kv(pfx, "entries", &e);
                out.kv(pfx, "entries.adapt", &sli_adapt(&s, len, &e));
            }
        }
        Kind::Rpsi => {
            if let Some(r) = res_of(out, pfx, guard(|| Rpsi::parse(bytes))) {
                out.kv(pfx, "rpsi", &rpsi_str(&r, base));
            }
        }
        Kind::Pli => {
            let _ = res_of(out, pfx, guard(|| Pli::parse(bytes)));
        }
        _ => unreachable!("not an FCI kind"),
    }
}

/// What the tfb / pfb views have in common.
trait Feedback<'a> {
    fn sender(&self) -> u32;
    fn media(&self) -> u32;
    fn fci<F: FciParser<'a>>(&self) -> Result<F, RtcpParseError>;
}

impl<'a> Feedback<'a> for TransportFeedback<'a> {
    fn sender(&self) -> u32 {
        self.sender_ssrc()
    }
    fn media(&self) -> u32 {
        self.media_ssrc()
    }
    fn fci<F: FciParser<'a>>(&self) -> Result<F, RtcpParseError> {
        self.parse_fci::<F>()
    }
}

impl<'a> Feedback<'a> for PayloadFeedback<'a> {
    fn sender(&self) -> u32 {
        self.sender_ssrc()
    }
    fn media(&self) -> u32 {
        self.media_ssrc()
    }
    fn fci<F: FciParser<'a>>(&self) -> Result<F, RtcpParseError> {
        self.parse_fci::<F>()
    }
}

fn fci_outcome<F>(r: &Option<Result<F, RtcpParseError>>, f: impl FnOnce(&F) -> String) -> String {
    match r {
        None => "panic".to_string(),
        Some(Err(e)) => format!("err:{}", perr(e)),
        Some(Ok(v)) => f(v),
    }
}

/// Whether `pfx` belongs to the `rt.` dump of a build request (PROTOCOL.md §4.3).
fn in_round_trip(pfx: &str) -> bool {
    pfx == "rt" || pfx.starts_with("rt.")
}

/// `len` is the length of the whole feedback packet: the iterator caps are derived from it.
fn fb_body<'a, T: Feedback<'a>>(out: &mut Out, pfx: &str, fb: &T, base: Base, len: usize) {
    out.kv(pfx, "sender_ssrc", &num(|| fb.sender()));
    out.kv(pfx, "media_ssrc", &num(|| fb.media()));
    let r = guard(|| fb.fci::<Nack>());
    out.kv(pfx, "fci.nack", &fci_outcome(&r, |n| format!("ok:{}", nack_entries(n, len))));
    if let Some(Ok(n)) = &r {
        let e = nack_entries(n, len);
        out.kv(pfx, "fci.nack.adapt", &nack_adapt(n, len, &e));
    }
    let r = guard(|| fb.fci::<Fir>());
    out.kv(pfx, "fci.fir", &fci_outcome(&r, |f| format!("ok:{}", fir_entries(f, len))));
    // not in the round trip of a build request: `FirBuilder` writes its entries in `HashMap`
    // order, an order-sensitive value cannot be compared there
    if let (Some(Ok(f)), false) = (&r, in_round_trip(pfx)) {
        let e = fir_entries(f, len);
        out.kv(pfx, "fci.fir.adapt", &fir_adapt(f, len, &e));
    }
    let r = guard(|| fb.fci::<Sli>());
    out.kv(pfx, "fci.sli", &fci_outcome(&r, |s| format!("ok:{}", sli_entries(s, len))));
    if let Some(Ok(s)) = &r {
        let e = sli_entries(s, len);
        out.kv(pfx, "fci.sli.adapt", &sli_adapt(s, len, &e));
    }
    let r = guard(|| fb.fci::<Rpsi>());
    out.kv(pfx, "fci.rpsi", &fci_outcome(&r, |r| format!("ok:{}", rpsi_str(r, base))));
    let r = guard(|| fb.fci::<Pli>());
    out.kv(pfx, "fci.pli", &fci_outcome(&r, |_| "ok".to_string()));
}

// ---------------------------------------------------------------------------------------------
// unknown / packet

fn as_key<'p, T>(out: &mut Out, pfx: &str, k: &str, u: &'p Unknown<'p>)
where
    T: RtcpPacket
        + TryFrom<&'p Unknown<'p>, Error = RtcpParseError>
        + TryFrom<Unknown<'p>, Error = RtcpParseError>,
{
    let r = guard(|| u.try_as::<T>());
    out.kv(pfx, &format!("as.{k}"), &pres(&r));
    // the owned `TryFrom<Unknown>`: `Unknown` is not `Clone`, so a second one is parsed from the
    // same bytes and consumed
    let owned = guard(|| {
        let second: Unknown<'p> = Unknown::parse(u.data())?;
        <T as TryFrom<Unknown<'p>>>::try_from(second)
    });
    out.kv(pfx, &format!("aso.{k}"), &pres(&owned));
}

fn unknown_body(out: &mut Out, pfx: &str, u: &Unknown, base: Base) {
    out.kv(pfx, "data", &slice_val(base, || u.data()));
    as_key::<App>(out, pfx, "app", u);
    as_key::<Bye>(out, pfx, "bye", u);
    as_key::<ReceiverReport>(out, pfx, "rr", u);
    as_key::<Sdes>(out, pfx, "sdes", u);
    as_key::<SenderReport>(out, pfx, "sr", u);
    as_key::<TransportFeedback>(out, pfx, "tfb", u);
    as_key::<PayloadFeedback>(out, pfx, "pfb", u);
}

fn conv_keys<'p, T>(out: &mut Out, pfx: &str, k: &str, pkt: &'p Packet<'p>, bytes: &'p [u8])
where
    T: RtcpPacketParser<'p>
        + TryFrom<&'p Packet<'p>, Error = RtcpParseError>
        + TryFrom<Packet<'p>, Error = RtcpParseError>
        + PartialEq,
{
    let typed = guard(|| T::parse(bytes));
    let conv = guard(|| pkt.try_as::<T>());
    // the owned `TryFrom<Packet>`: `Packet` is not `Clone`, so a second one is parsed from the
    // same bytes and consumed
    let convo = guard(|| {
        let second: Packet<'p> = Packet::parse(bytes)?;
        <T as TryFrom<Packet<'p>>>::try_from(second)
    });
    out.kv(pfx, &format!("typed.{k}"), &pres(&typed));
    out.kv(pfx, &format!("conv.{k}"), &pres(&conv));
    out.kv(pfx, &format!("convo.{k}"), &pres(&convo));
    let same_as_typed = |r: &Option<Result<T, RtcpParseError>>| match (&typed, r) {
        (Some(a), Some(b)) => match guard(|| a == b) {
            Some(s) => s.to_string(),
            None => "panic".to_string(),
        },
        _ => "panic".to_string(),
    };
    out.kv(pfx, &format!("conv_same.{k}"), &same_as_typed(&conv));
    out.kv(pfx, &format!("convo_same.{k}"), &same_as_typed(&convo));
}

/// `P.typed.<k>` for the seven typed parsers, without a `Packet` to convert (the `packet` view
/// when `Packet::parse` returned an error).
fn typed_only_keys(out: &mut Out, pfx: &str, bytes: &[u8]) {
    out.kv(pfx, "typed.app", &pres(&guard(|| App::parse(bytes))));
    out.kv(pfx, "typed.bye", &pres(&guard(|| Bye::parse(bytes))));
    out.kv(pfx, "typed.rr", &pres(&guard(|| ReceiverReport::parse(bytes))));
    out.kv(pfx, "typed.sdes", &pres(&guard(|| Sdes::parse(bytes))));
    out.kv(pfx, "typed.sr", &pres(&guard(|| SenderReport::parse(bytes))));
    out.kv(pfx, "typed.tfb", &pres(&guard(|| TransportFeedback::parse(bytes))));
    out.kv(pfx, "typed.pfb", &pres(&guard(|| PayloadFeedback::parse(bytes))));
}

/// The `packet` view after its `res` key. `bytes` are the bytes `pkt` was parsed from.
fn packet_body(out: &mut Out, pfx: &str, pkt: &Packet, bytes: &[u8], base: Base, conv: bool) {
    let variant = match pkt {
        Packet::App(_) => "app",
        Packet::Bye(_) => "bye",
        Packet::Rr(_) => "rr",
        Packet::Sdes(_) => "sdes",
        Packet::Sr(_) => "sr",
        Packet::TransportFeedback(_) => "tfb",
        Packet::PayloadFeedback(_) => "pfb",
        Packet::Unknown(_) => "unknown",
    };
    out.kv(pfx, "variant", variant);
    out.kv(pfx, "is_unknown", match guard(|| pkt.is_unknown()) { Some(true) => "true", Some(false) => "false", None => "panic" });
    header(out, pfx, pkt);
    match pkt {
        Packet::App(p) => {
            padding_key(out, pfx, || p.padding());
            app_body(out, pfx, p, base);
        }
        Packet::Bye(p) => {
            padding_key(out, pfx, || p.padding());
            bye_body(out, pfx, p, base);
        }
        Packet::Rr(p) => {
            padding_key(out, pfx, || p.padding());
            rr_body(out, pfx, p);
        }
        Packet::Sdes(p) => {
            padding_key(out, pfx, || p.padding());
            sdes_body(out, pfx, p, base);
        }
        Packet::Sr(p) => {
            padding_key(out, pfx, || p.padding());
            sr_body(out, pfx, p);
        }
        Packet::TransportFeedback(p) => {
            padding_key(out, pfx, || p.padding());
            fb_body(out, pfx, p, base, bytes.len());
        }
        Packet::PayloadFeedback(p) => {
            padding_key(out, pfx, || p.padding());
            fb_body(out, pfx, p, base, bytes.len());
        }
        Packet::Unknown(p) => unknown_body(out, pfx, p, base),
    }
    if conv {
        conv_keys::<App>(out, pfx, "app", pkt, bytes);
        conv_keys::<Bye>(out, pfx, "bye", pkt, bytes);
        conv_keys::<ReceiverReport>(out, pfx, "rr", pkt, bytes);
        conv_keys::<Sdes>(out, pfx, "sdes", pkt, bytes);
        conv_keys::<SenderReport>(out, pfx, "sr", pkt, bytes);
        conv_keys::<TransportFeedback>(out, pfx, "tfb", pkt, bytes);
        conv_keys::<PayloadFeedback>(out, pfx, "pfb", pkt, bytes);
    }
}

// ---------------------------------------------------------------------------------------------
// compound

fn next_str(c: &mut Compound) -> &'static str {
    match guard(|| c.next().is_some()) {
        None => "panic",
        Some(true) => "some",
        Some(false) => "none",
    }
}

fn dump_compound(out: &mut Out, pfx: &str, bytes: &[u8], base: Base) {
    let Some(mut c) = res_of(out, pfx, guard(|| Compound::parse(bytes))) else {
        return;
    };
    let cap = bytes.len() / 4 + 8;
    let driven = guard(|| drive(&mut c, cap));
    let adapted = if matches!(driven, Some(Drive::Cap)) {
        "cap".to_string()
    } else {
        adapt(
            || Compound::parse(bytes).expect("parsed before"),
            cap,
            |r| match r {
                Ok(_) => "ok".to_string(),
                Err(e) => format!("err:{}", perr(e)),
            },
        )
    };
    out.kv(pfx, "adapt", &adapted);
    let items = match driven {
        None => {
            out.kv(pfx, "n", "panic");
            return;
        }
        Some(Drive::Cap) => {
            out.kv(pfx, "n", "cap");
            return;
        }
        Some(Drive::Done(v)) => v,
    };
    out.kv(pfx, "n", &items.len().to_string());
    // the i-th member occupies `bytes[off..off + 4 * (be16(bytes[off + 2..off + 4]) + 1)]`
    let mut off = 0usize;
    for (i, item) in items.iter().enumerate() {
        let p = join(pfx, &format!("p{i}"));
        let member = bytes.get(off..).and_then(|rest| {
            let l = 4 * (u16::from_be_bytes([*rest.get(2)?, *rest.get(3)?]) as usize + 1);
            rest.get(..l)
        });
        match item {
            Err(e) => out.kv(&p, "res", &format!("err:{}", perr(e))),
            Ok(pkt) => {
                out.kv(&p, "res", "ok");
                packet_body(out, &p, pkt, member.unwrap_or(bytes), base, false);
            }
        }
        off += member.map_or(0, |m| m.len());
    }
    let a1 = next_str(&mut c);
    let a2 = next_str(&mut c);
    let a3 = next_str(&mut c);
    out.kv(pfx, "after", &format!("{a1},{a2},{a3}"));
}

// ---------------------------------------------------------------------------------------------
// custom

fn custom_dump<const PT: u8, const MIN: usize>(
    out: &mut Out,
    pfx: &str,
    bytes: &[u8],
    base: Base,
) {
    let direct = guard(|| Custom::<PT, MIN>::parse(bytes));
    out.kv(pfx, "res", &pres(&direct));
    if let Some(Ok(c)) = &direct {
        header(out, pfx, c);
        padding_key(out, pfx, || c.padding());
        out.kv(pfx, "body", &slice_val(base, || c.body()));
    }
    match guard(|| Packet::parse(bytes)) {
        None => {
            out.kv(pfx, "via_packet", "panic");
            out.kv(pfx, "via_packet_same", "panic");
        }
        Some(Err(_)) => {
            out.kv(pfx, "via_packet", "n/a");
            out.kv(pfx, "via_packet_same", "n/a");
        }
        Some(Ok(p)) => {
            let conv = guard(|| p.try_as::<Custom<PT, MIN>>());
            out.kv(pfx, "via_packet", &pres(&conv));
            let same = match (&direct, &conv) {
                (Some(a), Some(b)) => match guard(|| a == b) {
                    Some(s) => s.to_string(),
                    None => "panic".to_string(),
                },
                _ => "panic".to_string(),
            };
            out.kv(pfx, "via_packet_same", &same);
        }
    }
}

// ---------------------------------------------------------------------------------------------
// entry point

/// Prints the view dump of `kind` on `bytes` with prefix `pfx`. `base` describes the byte string
/// given to the outermost parser (here always `bytes` itself).
pub fn dump_kind(out: &mut Out, pfx: &str, kind: Kind, bytes: &[u8]) {
    let base = Base::of(bytes);
    match kind {
        Kind::App => {
            if let Some(p) = res_of(out, pfx, guard(|| App::parse(bytes))) {
                header(out, pfx, &p);
                padding_key(out, pfx, || p.padding());
                app_body(out, pfx, &p, base);
            }
        }
        Kind::Bye => {
            if let Some(p) = res_of(out, pfx, guard(|| Bye::parse(bytes))) {
                header(out, pfx, &p);
                padding_key(out, pfx, || p.padding());
                bye_body(out, pfx, &p, base);
            }
        }
        Kind::Rr => {
            if let Some(p) = res_of(out, pfx, guard(|| ReceiverReport::parse(bytes))) {
                header(out, pfx, &p);
                padding_key(out, pfx, || p.padding());
                rr_body(out, pfx, &p);
            }
        }
        Kind::Sr => {
            if let Some(p) = res_of(out, pfx, guard(|| SenderReport::parse(bytes))) {
                header(out, pfx, &p);
                padding_key(out, pfx, || p.padding());
                sr_body(out, pfx, &p);
            }
        }
        Kind::Sdes => {
            if let Some(p) = res_of(out, pfx, guard(|| Sdes::parse(bytes))) {
                header(out, pfx, &p);
                padding_key(out, pfx, || p.padding());
                sdes_body(out, pfx, &p, base);
            }
        }
        Kind::Tfb => {
            if let Some(p) = res_of(out, pfx, guard(|| TransportFeedback::parse(bytes))) {
                header(out, pfx, &p);
                padding_key(out, pfx, || p.padding());
                fb_body(out, pfx, &p, base, base.len());
            }
        }
        Kind::Pfb => {
            if let Some(p) = res_of(out, pfx, guard(|| PayloadFeedback::parse(bytes))) {
                header(out, pfx, &p);
                padding_key(out, pfx, || p.padding());
                fb_body(out, pfx, &p, base, base.len());
            }
        }
        Kind::Unknown => {
            if let Some(p) = res_of(out, pfx, guard(|| Unknown::parse(bytes))) {
                header(out, pfx, &p);
                unknown_body(out, pfx, &p, base);
            }
        }
        Kind::Packet => {
            let r = guard(|| Packet::parse(bytes));
            out.kv(pfx, "res", &pres(&r));
            match &r {
                // `typed.<k>` for the seven kinds come with the `conv*` keys
                Some(Ok(p)) => packet_body(out, pfx, p, bytes, base, true),
                // the typed parsers are asked also when the generic one refused the bytes
                Some(Err(_)) => typed_only_keys(out, pfx, bytes),
                None => {}
            }
            if r.is_some() {
                out.kv(pfx, "typed.unknown", &pres(&guard(|| Unknown::parse(bytes))));
            }
        }
        Kind::Compound => dump_compound(out, pfx, bytes, base),
        Kind::Rb => dump_rb(out, pfx, bytes),
        Kind::Nack | Kind::Fir | Kind::Sli | Kind::Rpsi | Kind::Pli => {
            dump_fci(out, pfx, kind, bytes, base)
        }
        Kind::Custom(pt, min) => {
            crate::with_grid!(pt, min, custom_dump, [], (out, pfx, bytes, base))
        }
    }
}
